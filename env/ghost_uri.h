/* Ghost environment for the service-URI functions (C20). Two independent parts, selected by the harness:
 *  ENV_URI_SNPRINTF   KSI_snprintf as a transcript monitor for uriCompose (net.c)
 *  ENV_URI_PARSER     http_parser_parse_url as an arbitrary-but-well-formed field table for uriSplit (net.c) */
#ifndef ENV_GHOST_URI_H
#define ENV_GHOST_URI_H
#include <stdarg.h>
#include "spec/uri.h"

#ifdef ENV_URI_SNPRINTF
/* [ASSUMED] KSI_snprintf(buf, n, fmt, ...) writes at most n bytes (including the NUL) at buf and returns the number of
 * characters written, which is <= n-1 (0 when n == 0) - the documented behaviour of compatibility.c KSI_vsnprintf.
 * The stub checks the window it is given against the caller's buffer and the piece against the reference order. */
char *g_uc_buf; size_t g_uc_len;                      /* the caller's buffer */
const char *g_uc_scheme, *g_uc_user, *g_uc_pass, *g_uc_host, *g_uc_path, *g_uc_query, *g_uc_fragment; unsigned g_uc_port;
spec_uri_parts g_uc_parts;                            /* which pieces the reference emits */
int g_uc_last;                                        /* id of the piece emitted last (0 = none yet) */
size_t g_uc_written;                                  /* characters written so far */
int g_uc_calls;
int g_uc_host_is_v6;                                  /* harness: the host is an IPv6 literal (contains ':') - a URL needs it in brackets (RFC 3986 IP-literal) */

size_t KSI_snprintf(char *buf, size_t n, const char *format, ...) {
	va_list va; int id, bracketed; size_t r; const char *a1 = NULL, *a2 = NULL; int d = 0;
	g_uc_calls++;
	__CPROVER_assert(buf == g_uc_buf + g_uc_written && n == g_uc_len - g_uc_written && g_uc_written < g_uc_len,
		"every piece is written right after the previous one and the window ends exactly at the end of the caller's buffer");
	id = (format[0] == '%' && format[1] == 's' && format[2] == ':' && format[3] == '/' && format[4] == '/' && format[5] == 0) ? 1 :
	     (format[0] == '%' && format[1] == 's' && format[2] == ':' && format[3] == '%' && format[4] == 's' && format[5] == '@' && format[6] == 0) ? 2 :
	     (format[0] == '%' && format[1] == 's' && format[2] == 0) ? 3 :
	     (format[0] == ':' && format[1] == '%' && format[2] == 'd' && format[3] == 0) ? 4 :
	     (format[0] == '%' && format[1] == 's' && format[2] == '%' && format[3] == 's' && format[4] == 0) ? 5 :
	     (format[0] == '?' && format[1] == '%' && format[2] == 's' && format[3] == 0) ? 6 :
	     (format[0] == '#' && format[1] == '%' && format[2] == 's' && format[3] == 0) ? 7 : -1;
	bracketed = (format[0] == '[' && format[1] == '%' && format[2] == 's' && format[3] == ']' && format[4] == 0);
	if (bracketed) id = 3;
	__CPROVER_assert(id == spec_uri_next_piece(&g_uc_parts, g_uc_last), "pieces come in the reference order scheme, [user:pass@], host, :port, path, ?query, #fragment; absent ones are skipped, nothing else is written");
	va_start(va, format);
	if (id == 4) d = va_arg(va, int); else { a1 = va_arg(va, const char *); if (id == 2 || id == 5) a2 = va_arg(va, const char *); }
	va_end(va);
	__CPROVER_assert(IMPLIES(id == 1, a1 == g_uc_scheme) && IMPLIES(id == 2, a1 == g_uc_user && a2 == g_uc_pass) && IMPLIES(id == 3, a1 == g_uc_host) &&
		IMPLIES(id == 4, (unsigned)d == g_uc_port) && IMPLIES(id == 6, a1 == g_uc_query) && IMPLIES(id == 7, a1 == g_uc_fragment), "each piece prints its own component");
	__CPROVER_assert(IMPLIES(id == 3, bracketed == (g_uc_host_is_v6 != 0)), "the host is preserved as a URL host: an IPv6 literal goes between brackets, anything else is printed as it is");
	__CPROVER_assert(IMPLIES(id == 5, a2 == g_uc_path && (g_uc_path[0] == '/' ? a1[0] == 0 : (a1[0] == '/' && a1[1] == 0))), "the path is prefixed with exactly one '/' when it does not start with one");
	g_uc_last = id;
	r = nondet_size();
	__CPROVER_assume(r <= n - 1);
	g_uc_written += r;
	return r;
}
#endif

#ifdef ENV_URI_PARSER
#include "http_parser.h"
/* [ASSUMED] http_parser_parse_url: non-zero, or a table of fields each lying inside the string (off + len <= length),
 * port <= 65535.  Which fields are present and where is arbitrary. */
const char *g_up_uri; size_t g_up_len;
struct http_parser_url g_up;       /* what the parser answered */
int g_up_res;
int http_parser_parse_url(const char *buf, size_t buflen, int is_connect, struct http_parser_url *u) {
	int f;
	__CPROVER_assert(buf == g_up_uri && buflen == g_up_len && is_connect == 0 && u != NULL, "the whole URI is parsed");
	if (nondet_bool()) { g_up_res = 1; return 1; }
	g_up_res = 0;
	u->field_set = (uint16_t)(nondet_uint() & ((1u << UF_MAX) - 1));
	u->port = (uint16_t)nondet_uint();
	for (f = 0; f < UF_MAX; f++) {
		u->field_data[f].off = (uint16_t)nondet_uint(); u->field_data[f].len = (uint16_t)nondet_uint();
		__CPROVER_assume((size_t)u->field_data[f].off + u->field_data[f].len <= buflen);
	}
	g_up = *u;
	return 0;
}
#endif
#endif
