/* Environment of net_ha.c responseHandler (C15, builderT): what one polling round over the sub-services sees.  [ASSUMED]
 * Uses the list monitor of env/net_ha_glue.h.  KSI_AsyncService_run of sub-service k: an error (arbitrary), "nothing
 * finished" (NULL), or ONE finished handle with one reference that now belongs to the caller - in an ARBITRARY state
 * (all seven handle states), with or without an HA wrapper as request context.  The wrapper / the user's handle behind
 * it are in an arbitrary state the call sites allow (contracts/net_ha_resp.h HA_RESP_REQUIRES: outstanding >= 1, user
 * handle WAITING / ERROR with an error code / RESPONSE_RECEIVED).
 * The monitor checks at the moment responseHandler RELEASES the handle that it was dispatched to the handler of its
 * state exactly once (wrapper counter went down by exactly one, the state-specific effect is there) or - for the other
 * states - not at all, and that it is released exactly once.  One static handle stands for "the handle of this
 * iteration" (no allocation inside a loop under contract). */
#ifndef ENV_NET_HA_RESPLOOP_H
#define ENV_NET_HA_RESPLOOP_H
#include "env/net_ha_glue.h"
#include "env/net_ha_queue.h"

KSI_AsyncHandle g_rl_sub, g_rl_user;
KSI_HighAvailabilityRequest g_rl_wrap;
size_t g_rl_returned, g_rl_released;
_Bool g_rl_live, g_rl_has_wrap;
size_t g_rl_exp_before; int g_rl_user_before, g_rl_sub_state; void *g_rl_sub_resp;
size_t g_rl_cons_calls, g_rl_cons_before, g_rl_cb_calls;
size_t g_rl_cfg_refs;            /* references on the pushed configuration object */
static char g_rl_cfg_obj, g_rl_cons_obj, g_rl_resp_obj;
KSI_Config_Callback g_rl_cb;     /* the push-config call-back responseHandler was given */

KSI_Config *KSI_Config_ref(KSI_Config *c) { if (c != NULL) g_rl_cfg_refs++; return c; }
void KSI_Config_free(KSI_Config *c) { if (c != NULL) g_rl_cfg_refs--; }
void rl_resp_free(void *p) { }
int rl_cons_cb(KSI_CTX *c, size_t id, void *userp, KSI_Config *cons, KSI_Config *pushed) {
	__CPROVER_assert(pushed == (KSI_Config *)&g_rl_cfg_obj, "glue monitor: the consolidation call-back gets the pushed configuration");
	g_rl_cons_calls++; return nondet_int();
}
int rl_conf_cb(KSI_CTX *c, KSI_Config *cfg) { g_rl_cb_calls++; return nondet_int(); }
int KSI_AsyncService_getOption(const KSI_AsyncService *s, const int option, void *value) {
	__CPROVER_assert(s == &g_gl_sub && value != NULL, "glue monitor: the option of the sub-service that delivered the configuration is read");
	if (nondet_bool()) return KSI_INVALID_ARGUMENT;
	*(size_t *)value = nondet_size(); return KSI_OK;
}

int KSI_AsyncService_run(KSI_AsyncService *s, KSI_AsyncHandle **handle, size_t *waiting) {
	int r = nondet_int();
	int st = nondet_int(), us = nondet_int();
	GL_ONE_CALL(s);
	__CPROVER_assert(handle != NULL && *handle == NULL && waiting == NULL, "glue monitor: a cleared receiver is passed, the sub-service's waiting count is not asked for");
	__CPROVER_assert(!g_rl_live, "glue monitor: the handle of the previous sub-service was released before the next sub-service runs");
	g_gl_calls++; g_gl_lastres = r;
	if (r != KSI_OK) { g_gl_failed = 1; return r; }
	if (nondet_bool()) return KSI_OK;
	memset(&g_rl_sub, 0, sizeof(g_rl_sub));
	g_rl_sub.ref = 1; g_rl_sub.state = st; g_rl_sub.err = nondet_int(); g_rl_sub.errExt = nondet_int(); g_rl_sub.parentId = nondet_size();
	if (st == KSI_ASYNC_STATE_ERROR && g_rl_sub.err == KSI_OK) g_rl_sub.err = KSI_NETWORK_RECIEVE_TIMEOUT;
	if (st == KSI_ASYNC_STATE_PUSH_CONFIG_RECEIVED) { g_rl_sub.respCtx = &g_rl_cfg_obj; g_rl_sub.respCtx_free = (void (*)(void *))KSI_Config_free; g_rl_cfg_refs = 1; }
	else if (st == KSI_ASYNC_STATE_RESPONSE_RECEIVED) { g_rl_sub.respCtx = &g_rl_resp_obj; g_rl_sub.respCtx_free = rl_resp_free; }
	g_rl_has_wrap = nondet_bool();
	/* the request behind it: any state the call sites allow */
	memset(&g_rl_user, 0, sizeof(g_rl_user));
	g_rl_user.ref = 2; g_rl_user.state = us == 0 ? KSI_ASYNC_STATE_WAITING_FOR_RESPONSE : (us == 1 ? KSI_ASYNC_STATE_ERROR : KSI_ASYNC_STATE_RESPONSE_RECEIVED);
	g_rl_user.err = g_rl_user.state == KSI_ASYNC_STATE_ERROR ? KSI_NETWORK_SEND_TIMEOUT : KSI_OK;
	g_rl_user.parentId = nondet_size();
	g_rl_wrap.ctx = NULL; g_rl_wrap.ref = 2; g_rl_wrap.asyncHandle = &g_rl_user; g_rl_wrap.expectedRespCount = nondet_size();
	if (g_rl_wrap.expectedRespCount == 0) g_rl_wrap.expectedRespCount = 1;
	g_rl_wrap.hasReq = nondet_bool(); g_rl_wrap.hasCnf = !g_rl_wrap.hasReq || nondet_bool();
	if (g_rl_has_wrap) { g_rl_sub.userCtx = &g_rl_wrap; g_rl_sub.userCtx_free = (void (*)(void *))KSI_HighAvailabilityRequest_free; }
	g_rl_exp_before = g_rl_wrap.expectedRespCount; g_rl_user_before = g_rl_user.state; g_rl_sub_state = st; g_rl_sub_resp = g_rl_sub.respCtx;
	g_rl_cons_before = g_rl_cons_calls;
	g_q_count = 0; g_q_failed = 0; g_hndl_new_calls = 0;        /* per-event counters */
	g_rl_live = 1; g_rl_returned++;
	*handle = &g_rl_sub;
	return KSI_OK;
}

void KSI_AsyncHandle_free(KSI_AsyncHandle *o) {
	if (o == NULL) return;
	if (o == &g_rl_sub) {
		_Bool disp = g_rl_sub_state == KSI_ASYNC_STATE_RESPONSE_RECEIVED || g_rl_sub_state == KSI_ASYNC_STATE_ERROR || g_rl_sub_state == KSI_ASYNC_STATE_PUSH_CONFIG_RECEIVED;
		if (o->ref > 1) { o->ref--; return; }       /* an extra reference taken for the response queue is given back */
		__CPROVER_assert(g_rl_live && o->ref == 1, "glue monitor: a handle returned by a sub-service is released exactly once");
		__CPROVER_assert(IMPLIES(g_rl_has_wrap, g_rl_wrap.expectedRespCount == g_rl_exp_before - (disp ? 1 : 0)),
				"glue monitor: the handle was dispatched to the handler of its state exactly once before it is released (other states: not at all)");
		__CPROVER_assert(IMPLIES(g_rl_has_wrap && g_rl_sub_state == KSI_ASYNC_STATE_RESPONSE_RECEIVED && g_rl_user_before == KSI_ASYNC_STATE_WAITING_FOR_RESPONSE,
				g_rl_user.state == KSI_ASYNC_STATE_RESPONSE_RECEIVED && g_rl_user.respCtx == g_rl_sub_resp && g_q_count == 1 && g_q_item[0] == &g_rl_user),
				"glue monitor: a valid response went to handleReqResponse (first response completes the request)");
		__CPROVER_assert(IMPLIES(g_rl_has_wrap && g_rl_sub_state == KSI_ASYNC_STATE_ERROR && g_rl_user_before == KSI_ASYNC_STATE_WAITING_FOR_RESPONSE,
				g_rl_user.state == KSI_ASYNC_STATE_ERROR && g_rl_user.err == g_rl_sub.err && IFF(g_q_count == 1, g_rl_exp_before == 1)),
				"glue monitor: an error went to handleErrorResponse (stored; completes the request iff it was the last outstanding endpoint)");
		__CPROVER_assert(IMPLIES(g_rl_sub_state == KSI_ASYNC_STATE_PUSH_CONFIG_RECEIVED, g_rl_cons_calls <= g_rl_cons_before + 1) &&
				IMPLIES(g_rl_sub_state != KSI_ASYNC_STATE_PUSH_CONFIG_RECEIVED, g_rl_cons_calls == g_rl_cons_before),
				"glue monitor: only a configuration goes to handleConfigResponse, once");
		__CPROVER_assert(IMPLIES(!disp, g_q_count == 0 && g_rl_user.state == g_rl_user_before && g_hndl_new_calls == 0), "glue monitor: handles in other states have no effect");
		o->ref = 0; g_rl_live = 0; g_rl_released++;
		return;
	}
	__CPROVER_assert(o->ref >= 1, "handle monitor: only live handles are released");
	o->ref--;
}
#define ENV_NET_HA_RESPLOOP_ASSUMED "KSI_AsyncService_run of a sub-service: error, nothing, or one finished handle (arbitrary state, with/without HA wrapper; the request behind it in any state the call sites allow) whose reference passes to the caller (env/net_ha_resploop.h)"
#endif
