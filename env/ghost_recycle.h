/* Model of ctx->dataHashRecycle (a typed list = struct of function pointers) for hash.c (C11, C19).
 * The bin has a ghost length; append records the object handed in; removeElement hands out the ghost recycled object. */
#ifndef ENV_GHOST_RECYCLE_H
#define ENV_GHOST_RECYCLE_H
#include "impl/hash_impl.h"
#include "impl/ctx_impl.h"
size_t g_bin_len;                 /* number of objects in the recycle bin */
KSI_DataHash *g_bin_appended;     /* object appended during the call (NULL = none) */
unsigned g_bin_appends, g_bin_removes;
_Bool g_bin_append_may_fail;
struct KSI_DataHash_st *g_recycled_p;   /* the (heap) object that sits last in the bin: ref == 0, stale contents; set by the harness */
size_t g_bin_remove_pos;

static size_t bin_length(KSI_LIST(KSI_DataHash) *l) { return g_bin_len; }
static int bin_append(KSI_LIST(KSI_DataHash) *l, KSI_DataHash *o) {
	if (g_bin_append_may_fail && nondet_bool()) return KSI_OUT_OF_MEMORY;
	__CPROVER_assert(o != NULL && o->ref == 0, "recycle bin: only objects with reference count 0 are stored");
	g_bin_appended = o; g_bin_appends++; g_bin_len++;
	return KSI_OK;
}
static int bin_remove(KSI_LIST(KSI_DataHash) *l, size_t pos, KSI_DataHash **o) {
	__CPROVER_assert(g_bin_len > 0 && pos == g_bin_len - 1, "recycle bin: the last object is taken out");
	if (nondet_bool()) return KSI_INVALID_STATE;
	g_bin_remove_pos = pos; g_bin_removes++; g_bin_len--;
	*o = g_recycled_p;
	return KSI_OK;
}
#endif
