/* C07 / C08 environment for the orchestration functions of signature.c
 * (KSI_createSignRequest, KSI_Signature_signAggregatedWithPolicy, KSI_signature_extendToWithoutVerification,
 *  KSI_Signature_extendToWithPolicy).
 * signature.c reaches requests, handles, responses and builders only through their API.  They are modelled as
 * abstract data types; every service is a stub that returns an arbitrary status, hands out a fresh object on
 * success and RECORDS what it was asked (ghost g_sg).  The contracts then state which recorded conversation a
 * successful return implies.  Each stub is listed as assumed; the real bodies are under their own contracts:
 *   KSI_RequestHandle_getAggregationResponse / getExtendResponse  -> C06.net_*_response (MAC verified before content)
 *   KSI_AggregationResp_verifyWithRequest                        -> C07.aggr_verifyWithRequest
 *   KSI_ExtendResp_verifyWithRequest                             -> C08.ext_verifyWithRequest
 *   KSI_CalendarHashChain_verifyCompatibilityTo                  -> C08.compat_top / C08.compat_rightlinks
 *   KSI_SignatureBuilder_openFromAggregationResp / close(addRootLevel) -> C07.builder_* jobs
 */
#ifndef ENV_C07_SIGN_H
#define ENV_C07_SIGN_H
#include "impl/hash_impl.h"
#include "impl/signature_impl.h"
#include "impl/signature_builder_impl.h"

struct KSI_Integer_st { KSI_uint64_t value; };
struct KSI_AggregationReq_st { KSI_DataHash *requestHash; KSI_Integer *requestLevel; };
struct KSI_ExtendReq_st { KSI_Integer *aggregationTime; KSI_Integer *publicationTime; };
struct KSI_AggregationResp_st { int dummy; };
struct KSI_ExtendResp_st { KSI_CalendarHashChain *calendarHashChain; };
struct KSI_NetHandle_st { int dummy; };
struct KSI_CalendarHashChain_st { int dummy; };

/* record of request creation (the frame of the contracts of KSI_createSignRequest / KSI_createExtendRequest) */
struct c07_mk_ghost {
	int trusted_calls, trusted_alg, trusted;          /* KSI_isHashAlgorithmTrusted: arbitrary verdict */
	int req_new_calls, req_live;                      /* request objects made / not yet released */
	int hash_refs;                                    /* references taken on the document hash minus releases */
	int int_live;                                     /* integer objects made and not yet released */
	int mkreq_calls, mkreq_res; void *req; const void *mkreq_hash; long long mkreq_lvl; const void *mkreq_from, *mkreq_to;
} g_mk;
/* record of the conversation */
struct c07_ghost {
	int send_calls, send_res; const void *send_req; void *handle;
	int perform_calls, perform_res; const void *perform_handle;
	int getresp_calls, getresp_res; const void *getresp_handle; void *resp;      /* OK => content of a MAC-verified PDU (C06) */
	int vwr_calls, vwr_res; const void *vwr_resp, *vwr_req;
	int open_calls, open_res; const void *open_from; KSI_SignatureBuilder *builder;
	int compat_calls, compat_res; const void *compat_a, *compat_b;
	int apply_calls, apply_res; const void *apply_builder, *apply_chain;
	int close_calls, close_res; const void *close_builder; KSI_uint64_t close_level; int close_noVerify; KSI_Signature *sig;
	int verify_calls, verify_res; const void *verify_sig, *verify_hash; KSI_uint64_t verify_level; const void *verify_policy, *verify_ctx;
	int signtime_calls, signtime_res; const void *signtime_sig; KSI_Integer *signtime;
	const void *ext_sig, *ext_to;                     /* arguments of KSI_signature_extendToWithoutVerification (recorded through its contract) */
	/* releases */
	int req_free, handle_free, resp_free, builder_free, sig_free, foreign_free;
	int source_touched;                               /* a stub was asked to modify / release the source signature */
} g_sg;
const KSI_Signature *g_sg_source;                     /* the signature being extended (extend jobs) */

static int c07_status(void) { return nondet_int(); }

/* ---- pieces of KSI_createSignRequest ---- */
int KSI_DataHash_extract(const KSI_DataHash *hash, KSI_HashAlgorithm *algo_id, const unsigned char **digest, size_t *digest_length) {
	if (hash == NULL) return KSI_INVALID_ARGUMENT;
	if (digest_length != NULL) *digest_length = hash->imprint_length - 1;
	if (algo_id != NULL) *algo_id = hash->imprint[0];
	if (digest != NULL) *digest = hash->imprint + 1;
	return KSI_OK;
}
int KSI_isHashAlgorithmTrusted(KSI_HashAlgorithm a) { g_mk.trusted_calls++; g_mk.trusted_alg = a; g_mk.trusted = nondet_bool(); return g_mk.trusted; }
KSI_DataHash *KSI_DataHash_ref(KSI_DataHash *h) { if (h != NULL) g_mk.hash_refs++; return h; }
void KSI_DataHash_free(KSI_DataHash *h) { if (h != NULL) g_mk.hash_refs--; }
int KSI_Integer_new(KSI_CTX *ctx, KSI_uint64_t v, KSI_Integer **o) {
	KSI_Integer *t;
	if (nondet_bool()) return KSI_OUT_OF_MEMORY;
	t = malloc(sizeof(*t)); if (t == NULL) return KSI_OUT_OF_MEMORY;
	t->value = v; g_mk.int_live++; *o = t; return KSI_OK;
}
#ifdef C08_REAL_CREATE
void KSI_Integer_free(KSI_Integer *o) { if (o != NULL) g_mk.int_live--; }      /* releases one reference */
#else
void KSI_Integer_free(KSI_Integer *o) { if (o != NULL) { g_mk.int_live--; free(o); } }
#endif
KSI_Integer *KSI_Integer_ref(KSI_Integer *o) { if (o != NULL) g_mk.int_live++; return o; }      /* one more reference */
#ifdef C08_REAL_CREATE
int KSI_Integer_compare(const KSI_Integer *a, const KSI_Integer *b);
#else
int KSI_Integer_compare(const KSI_Integer *a, const KSI_Integer *b) { return nondet_int(); }
#endif
#ifdef C07_REAL_CREATE
int KSI_AggregationReq_new(KSI_CTX *ctx, KSI_AggregationReq **t) {
	KSI_AggregationReq *r;
	g_mk.req_new_calls++;
	if (nondet_bool()) return KSI_OUT_OF_MEMORY;
	r = malloc(sizeof(*r)); if (r == NULL) return KSI_OUT_OF_MEMORY;
	r->requestHash = NULL; r->requestLevel = NULL; g_mk.req_live++; g_mk.req = r; *t = r; return KSI_OK;
}
/* setters: may refuse (arbitrary status); on refusal nothing is stored and the caller keeps ownership */
int KSI_AggregationReq_setRequestHash(KSI_AggregationReq *t, KSI_DataHash *h) { if (t == NULL || nondet_bool()) return KSI_INVALID_ARGUMENT; t->requestHash = h; return KSI_OK; }
int KSI_AggregationReq_setRequestLevel(KSI_AggregationReq *t, KSI_Integer *l) { if (t == NULL || nondet_bool()) return KSI_INVALID_ARGUMENT; t->requestLevel = l; return KSI_OK; }
void KSI_AggregationReq_free(KSI_AggregationReq *t) {     /* = types.c:1978: releases hash reference, level, object */
	if (t != NULL) { KSI_DataHash_free(t->requestHash); KSI_Integer_free(t->requestLevel); g_mk.req_live--; free(t); }
}
#else
void KSI_AggregationReq_free(KSI_AggregationReq *t) { if (t != NULL) { if ((void *)t == g_mk.req) g_sg.req_free++; else g_sg.foreign_free++; } }
#endif
#ifdef C08_REAL_CREATE
int g_mk_cmp;                                         /* verdict of KSI_Integer_compare(start, end) */
int KSI_ExtendReq_new(KSI_CTX *ctx, KSI_ExtendReq **t) {
	KSI_ExtendReq *r;
	g_mk.req_new_calls++;
	if (nondet_bool()) return KSI_OUT_OF_MEMORY;
	r = malloc(sizeof(*r)); if (r == NULL) return KSI_OUT_OF_MEMORY;
	r->aggregationTime = NULL; r->publicationTime = NULL; g_mk.req_live++; g_mk.req = r; *t = r; return KSI_OK;
}
int KSI_ExtendReq_setAggregationTime(KSI_ExtendReq *t, KSI_Integer *v) { if (t == NULL || nondet_bool()) return KSI_INVALID_ARGUMENT; t->aggregationTime = v; return KSI_OK; }
int KSI_ExtendReq_setPublicationTime(KSI_ExtendReq *t, KSI_Integer *v) { if (t == NULL || nondet_bool()) return KSI_INVALID_ARGUMENT; t->publicationTime = v; return KSI_OK; }
void KSI_ExtendReq_free(KSI_ExtendReq *t) {      /* = types.c: releases both time references and the object */
	if (t != NULL) { KSI_Integer_free(t->aggregationTime); KSI_Integer_free(t->publicationTime); g_mk.req_live--; free(t); }
}
#else
void KSI_ExtendReq_free(KSI_ExtendReq *t) { if (t != NULL) { if ((void *)t == g_mk.req) g_sg.req_free++; else g_sg.foreign_free++; } }
#endif

/* ---- the conversation ---- */
static struct KSI_NetHandle_st c07_handle_obj; static struct KSI_AggregationResp_st c07_aresp_obj; static struct KSI_ExtendResp_st c07_eresp_obj;
static struct KSI_CalendarHashChain_st c07_chain_obj; static struct KSI_ExtendReq_st c07_ereq_obj;
static struct KSI_SignatureBuilder_st c07_builder_obj; static struct KSI_Signature_st c07_clone_obj;

static int c07_send(void *req, KSI_RequestHandle **handle) {
	g_sg.send_calls++; g_sg.send_req = req; g_sg.send_res = c07_status();
	if (g_sg.send_res == KSI_OK) { g_sg.handle = &c07_handle_obj; *handle = &c07_handle_obj; }
	return g_sg.send_res;
}
int KSI_sendAggregatorRequest(KSI_CTX *ctx, KSI_AggregationReq *request, KSI_RequestHandle **handle) { return c07_send(request, handle); }
int KSI_sendExtenderRequest(KSI_CTX *ctx, KSI_ExtendReq *request, KSI_RequestHandle **handle) { return c07_send(request, handle); }
int KSI_RequestHandle_perform(KSI_RequestHandle *handle) { g_sg.perform_calls++; g_sg.perform_handle = handle; return g_sg.perform_res = c07_status(); }
int KSI_RequestHandle_getAggregationResponse(const KSI_RequestHandle *handle, KSI_AggregationResp **resp) {
	g_sg.getresp_calls++; g_sg.getresp_handle = handle; g_sg.getresp_res = c07_status();
	if (g_sg.getresp_res == KSI_OK) { g_sg.resp = &c07_aresp_obj; *resp = &c07_aresp_obj; }
	return g_sg.getresp_res;
}
int KSI_RequestHandle_getExtendResponse(const KSI_RequestHandle *handle, KSI_ExtendResp **resp) {
	g_sg.getresp_calls++; g_sg.getresp_handle = handle; g_sg.getresp_res = c07_status();
	if (g_sg.getresp_res == KSI_OK) { c07_eresp_obj.calendarHashChain = nondet_bool() ? &c07_chain_obj : NULL; g_sg.resp = &c07_eresp_obj; *resp = &c07_eresp_obj; }
	return g_sg.getresp_res;
}
int KSI_AggregationResp_verifyWithRequest(const KSI_AggregationResp *resp, const KSI_AggregationReq *req) {
	g_sg.vwr_calls++; g_sg.vwr_resp = resp; g_sg.vwr_req = req; return g_sg.vwr_res = c07_status();
}
int KSI_ExtendResp_verifyWithRequest(const KSI_ExtendResp *resp, const KSI_ExtendReq *req) {
	g_sg.vwr_calls++; g_sg.vwr_resp = resp; g_sg.vwr_req = req; return g_sg.vwr_res = c07_status();
}
int KSI_ExtendResp_getCalendarHashChain(const KSI_ExtendResp *t, KSI_CalendarHashChain **c) { if (t == NULL || c == NULL) return KSI_INVALID_ARGUMENT; *c = t->calendarHashChain; return KSI_OK; }

static int c07_open(const void *from, KSI_SignatureBuilder **builder, int with_clone) {
	g_sg.open_calls++; g_sg.open_from = from; g_sg.open_res = c07_status();
	if (g_sg.open_res == KSI_OK) {
		c07_builder_obj.noVerify = 0; c07_builder_obj.sig = with_clone ? &c07_clone_obj : NULL;
		g_sg.builder = &c07_builder_obj; *builder = &c07_builder_obj;
	}
	return g_sg.open_res;
}
int KSI_SignatureBuilder_openFromAggregationResp(const KSI_AggregationResp *resp, KSI_SignatureBuilder **builder) { return c07_open(resp, builder, 0); }
/* works on a CLONE of the source (contract enforced on the real body: job C08.builder_openFromSignature) */
int KSI_SignatureBuilder_openFromSignature(const KSI_Signature *sig, KSI_SignatureBuilder **builder) { return c07_open(sig, builder, 1); }
int KSI_CalendarHashChain_verifyCompatibilityTo(const KSI_CalendarHashChain *a, const KSI_CalendarHashChain *b) {
	g_sg.compat_calls++; g_sg.compat_a = a; g_sg.compat_b = b; return g_sg.compat_res = c07_status();
}
int KSI_SignatureBuilder_applyCalendarHashChain(KSI_SignatureBuilder *builder, KSI_CalendarHashChain *cal) {
	g_sg.apply_calls++; g_sg.apply_builder = builder; g_sg.apply_chain = cal;
	if (builder != NULL && builder->sig == g_sg_source) g_sg.source_touched = 1;
	return g_sg.apply_res = c07_status();
}
static struct KSI_Signature_st c07_sig_obj;
int KSI_SignatureBuilder_close(KSI_SignatureBuilder *builder, KSI_uint64_t rootLevel, KSI_Signature **sig) {
	g_sg.close_calls++; g_sg.close_builder = builder; g_sg.close_level = rootLevel;
	g_sg.close_noVerify = builder != NULL ? builder->noVerify : -1;
	g_sg.close_res = c07_status();
	if (g_sg.close_res == KSI_OK) { g_sg.sig = &c07_sig_obj; *sig = &c07_sig_obj; }
	return g_sg.close_res;
}
int KSI_Signature_verifyWithPolicy(KSI_Signature *sig, const KSI_DataHash *docHsh, KSI_uint64_t rootLevel, const KSI_Policy *policy, KSI_VerificationContext *context) {
	g_sg.verify_calls++; g_sg.verify_sig = sig; g_sg.verify_hash = docHsh; g_sg.verify_level = rootLevel; g_sg.verify_policy = policy; g_sg.verify_ctx = context;
	if (sig == g_sg_source) g_sg.source_touched = 1;
	return g_sg.verify_res = c07_status();
}

void KSI_RequestHandle_free(KSI_RequestHandle *h) { if (h != NULL) { if ((void *)h == g_sg.handle) g_sg.handle_free++; else g_sg.foreign_free++; } }
void KSI_AggregationResp_free(KSI_AggregationResp *r) { if (r != NULL) { if ((void *)r == g_sg.resp) g_sg.resp_free++; else g_sg.foreign_free++; } }
void KSI_ExtendResp_free(KSI_ExtendResp *r) { if (r != NULL) { if ((void *)r == g_sg.resp) g_sg.resp_free++; else g_sg.foreign_free++; } }
void KSI_SignatureBuilder_free(KSI_SignatureBuilder *b) { if (b != NULL) { if (b == g_sg.builder) g_sg.builder_free++; else g_sg.foreign_free++; } }

#ifdef C08_REAL_CREATE
int KSI_Integer_compare(const KSI_Integer *a, const KSI_Integer *b) { return g_mk_cmp; }
#endif
#define C07_SIGN_ASSUMED \
	"KSI_sendAggregatorRequest / KSI_sendExtenderRequest / KSI_RequestHandle_perform: arbitrary status, recorded (transport not modelled)", \
	"KSI_RequestHandle_getAggregationResponse / getExtendResponse: arbitrary status, fresh response on OK (real bodies: C06.net_*_response)", \
	"KSI_AggregationResp_verifyWithRequest / KSI_ExtendResp_verifyWithRequest: arbitrary recorded verdict (real bodies: C07.aggr_verifyWithRequest, C08.ext_verifyWithRequest)", \
	"KSI_SignatureBuilder_openFromAggregationResp / openFromSignature / applyCalendarHashChain / close / free: arbitrary status, recorded", \
	"KSI_CalendarHashChain_verifyCompatibilityTo: arbitrary recorded verdict (real body: C08.compat_top, C08.compat_rightlinks)", \
	"KSI_Signature_verifyWithPolicy: arbitrary recorded verdict (C01)", \
	"KSI_Signature_free, KSI_Signature_getSigningTime (signature.c): replaced by assumed recording contracts"
#endif
