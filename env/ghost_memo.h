/* Environment for KSI_AggregationHashChain_aggregate / KSI_AggregationHashChainList_aggregate (C03, C11, C19).
 * Hash objects are identities with ghost reference counts; "the chain value for start level s" is the
 * uninterpreted pair (g_val_of(s) identity is modelled by remembering for which start level an object was made). */
#ifndef ENV_GHOST_MEMO_H
#define ENV_GHOST_MEMO_H
char g_objA[8], g_objB[8];            /* A: possibly cached before the call; B: produced during the call */
KSI_DataHash *g_pA, *g_pB;
int g_refA, g_refB;                   /* ghost reference counts (0 = dead) */
int g_startA, g_startB;               /* start level the object was computed for */
int g_levelA, g_levelB;               /* root level that goes with it */
_Bool g_memo_env_failed;
int g_aggr_calls;

#define HASH_LIVE_OR_NULL(p) ((p) == (KSI_DataHash *)0 || ((p) == g_pA && g_refA > 0) || ((p) == g_pB && g_refB > 0))

void KSI_DataHash_free(KSI_DataHash *h) {
	if (h == NULL) return;
	__CPROVER_assert(h == g_pA || h == g_pB, "free: a hash object of this call");
	if (h == g_pA) { __CPROVER_assert(g_refA > 0, "free of a dead hash object (double free / dangling cache)"); g_refA--; }
	else { __CPROVER_assert(g_refB > 0, "free of a dead hash object (double free / dangling cache)"); g_refB--; }
}
KSI_DataHash *KSI_DataHash_ref(KSI_DataHash *h) {
	if (h == NULL) return NULL;
	__CPROVER_assert(h == g_pA || h == g_pB, "ref: a hash object of this call");
	if (h == g_pA) { __CPROVER_assert(g_refA > 0 && g_refA < 1000, "ref of a dead hash object (use after free)"); g_refA++; }
	else { __CPROVER_assert(g_refB > 0 && g_refB < 1000, "ref of a dead hash object (use after free)"); g_refB++; }
	return h;
}
#endif
