/* Ghost monitor for KSI_AggregationHashChain_calculateShape (C03): positional reference bit string
 * "1 followed by the direction bits, link 0 least significant":  ref = 2^len | sum isLeft_j * 2^j. */
#ifndef ENV_GHOST_SHAPE_H
#define ENV_GHOST_SHAPE_H
size_t g_sh_len, g_sh_calls;
unsigned long long g_sh_ref;       /* reference bit string built positionally; only meaningful if g_sh_len <= 63 */
_Bool g_sh_env_failed;
struct KSI_HashChainLink_st g_sh_link;

static size_t sh_stub_length(KSI_LIST(KSI_HashChainLink) *l) { return g_sh_len; }
static int sh_stub_elementAt(KSI_LIST(KSI_HashChainLink) *l, size_t pos, KSI_HashChainLink **o) {
	__CPROVER_assert(pos < g_sh_len, "protocol: index inside the list");
	__CPROVER_assert(g_sh_calls < g_sh_len && pos == g_sh_len - 1 - g_sh_calls, "protocol: each link fetched exactly once (last to first)");
	if (nondet_bool()) { g_sh_env_failed = 1; return KSI_BUFFER_OVERFLOW; }
	g_sh_link.isLeft = nondet_bool();
	if (pos <= 63 && g_sh_link.isLeft) g_sh_ref |= 1ULL << pos;
	g_sh_calls++;
	*o = &g_sh_link;
	return KSI_OK;
}
#endif
