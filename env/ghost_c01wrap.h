/* Ghost state and model chain list for the enforcement of the two wrapper contracts of contracts/verification_rule_c01.h
 * (KSI_CalendarHashChain_aggregate, KSI_AggregationHashChainList_aggregate) on the real bodies of hashchain.c.
 * World: env/ghost_vrule.h (include that first).
 *
 * The assigns clauses of the two contracts are fixed by the rule jobs (*hsh, g_vr_cal.outputHash, g_vr_h_ref[NEW1] /
 * *outputHash, g_vr_h_ref[NEW2]): NOTHING else may change during the call, so there are no ghost counters here; every
 * ghost below is a CONSTANT of the run (arbitrary, fixed by the harness before the call, never written afterwards).
 *
 * Level threading without a mutable ghost - witness PAIR: g_cw_wi is an arbitrary chain position.  The model list hands
 * out the object g_cw_chP at position g_cw_wi - 1, g_cw_chW at position g_cw_wi and g_cw_chO everywhere else.  The
 * callee contract (contracts/hashchain_c01wrap.h) says: aggregating P ends at level g_cw_lvlP; aggregating W must be
 * STARTED at g_cw_lvlP (or, when W is the first chain, at the level given to the list function, g_cw_level0).  As g_cw_wi is
 * arbitrary this is "chain k is started at the level chain k-1 ended at, chain 0 at the given level" for every k. */
#ifndef ENV_GHOST_C01WRAP_H
#define ENV_GHOST_C01WRAP_H

/* ---- calendar wrapper ---- */
_Bool g_cw_cal_empty;       /* the calendar chain's link list is EMPTY (outside the parser's domain: template flag LEAST_ONE_G0) */

/* ---- list wrapper ---- */
size_t g_cw_len;            /* number of aggregation chains, arbitrary */
size_t g_cw_wi;             /* witness position */
int g_cw_level0;            /* level handed to KSI_AggregationHashChainList_aggregate */
int g_cw_lvlP;              /* root level of the chain at position g_cw_wi - 1 */
struct KSI_AggregationHashChain_st g_cw_chP, g_cw_chW, g_cw_chO;
KSI_LIST(KSI_AggregationHashChain) g_cw_chainlist;
int g_cw_aud_aggfail;      /* (audit builderY) vacuity-guard ghost only: 0 = no aggregation failed, 1 = the aggregation of the FIRST chain failed, 2 = of a LATER chain
                            * (a previous root was alive); written by the replaced contract of KSI_AggregationHashChain_aggregate, read by REACH guards */
KSI_DataHash *g_cw_new2_p;  /* == &g_vr_h[VR_H_NEW2]; typed ghost pointer for the loop-contract JSON */

static size_t cw_length(KSI_LIST(KSI_AggregationHashChain) *l) { return g_cw_len; }
static int cw_elementAt(KSI_LIST(KSI_AggregationHashChain) *l, size_t pos, KSI_AggregationHashChain **o) {
	__CPROVER_assert(l == &g_cw_chainlist && o != NULL, "chain list: the list given to the function is asked");
	__CPROVER_assert(pos < g_cw_len, "chain list: positions below the length only");
	if (nondet_bool()) return KSI_INVALID_STATE;                       /* the list may fail */
	if (nondet_bool()) { *o = NULL; return KSI_OK; }                   /* the model may hold a NULL element (the parser never stores one) */
	*o = (pos == g_cw_wi) ? &g_cw_chW : ((pos + 1 == g_cw_wi) ? &g_cw_chP : &g_cw_chO);
	return KSI_OK;
}
static void cw_list_init(void) {
	g_cw_chainlist.length = cw_length; g_cw_chainlist.elementAt = cw_elementAt;
	g_cw_len = nondet_size(); g_cw_wi = nondet_size();
	g_cw_lvlP = nondet_int();
	g_cw_new2_p = &g_vr_h[VR_H_NEW2];
}
#endif
