/* builderM - C18: scenario functions for the PKI orchestration of pkitruststore_openssl.c.  Include AFTER the real
 * pkitruststore_openssl.c (struct definitions, static functions).  Each scenario builds the arguments from choices, calls
 * the REAL function exactly once and checks the postconditions (M_CHECK = __CPROVER_assert / native failure record).
 * Shared by obligations/C18/m_pki.c (CBMC) and replay/c18_m_pki.c (native, OpenSSL renamed to the same stubs). */
#ifndef ENV_M_PKI_SCENARIOS_H
#define ENV_M_PKI_SCENARIOS_H

static KSI_CTX *m_ctx;        /* a usable context (CBMC: a local struct; native: KSI_CTX_new) */

enum { M_F_PKISIG = 0, M_F_VERIFYSIG_STATIC = 1, M_F_VERIFYSIG_PUBLIC = 2, M_F_CHAIN = 3 };

static _Bool m_streq(const char *a, const char *b) { int i; for (i = 0; i < M_SL; i++) { if (a[i] != b[i]) return 0; if (a[i] == 0) return 1; } return 1; }

static int m_scn_pki(int which) {
	struct KSI_PKITruststore_st pki; struct KSI_PKISignature_st sig; PKCS7 p7arr[2]; PKCS7_SIGNED sgn; KSI_CertConstraint cons[M_NC + 1];
	static unsigned char data[4];
	_Bool pkiNull = 0, ctxNull = 0, dataNull = 0, sigNull = 0, useCtx = 0, all = 1, argsOk, sigOK, chainOK, consOK, sigStepRan;
	size_t data_len = 0; int n = 0, k, i, res;
	/* CBMC 6.11 work-around: `signature->pkcs7->d.sign->cert` (pointer -> union member -> field) is mis-simplified to a read of
	 * invalid_object when the PKCS7 object is a plain variable; as an array element with a symbolic index it is evaluated correctly */
#ifdef NATIVE_REPLAY
	int pi = 0;
#else
	int pi = nondet_bool() ? 1 : 0;
#endif
#define p7 (p7arr[pi])
	KSI_CertConstraint *saved = m_ctx->certConstraints;

	m_world_reset();
	pkiNull = m_bool(); sigNull = m_bool();
	if (which != M_F_CHAIN) { dataNull = m_bool(); data_len = m_size(); }
	if (which == M_F_PKISIG) { ctxNull = m_bool(); useCtx = m_bool(); n = m_int_in(0, M_NC); }
	m_p7_signed = (which == M_F_CHAIN) ? 1 : m_bool();        /* call site of the chain check: after PKCS7_verify == 1, i.e. signedData */
	m_signers = m_int_in(0, 2);
	for (k = 0; k < M_NC; k++) {
		for (i = 0; i < M_SL - 1; i++) { m_val[k][i] = (which == M_F_PKISIG) ? m_char() : 0; m_cert_val[k][i] = (which == M_F_PKISIG) ? m_char() : 0; }
		m_val[k][M_SL - 1] = 0; m_cert_val[k][M_SL - 1] = 0; m_cert_has[k] = (which == M_F_PKISIG) ? m_bool() : 0;
		m_oid_txt[k][0] = '1'; m_oid_txt[k][1] = 0;
		cons[k].oid = k < n ? m_oid_txt[k] : NULL; cons[k].val = m_val[k];
	}
	cons[M_NC].oid = NULL; cons[M_NC].val = NULL;
	memset(&p7, 0, sizeof(p7)); memset(&sgn, 0, sizeof(sgn));
	m_p7certs_p = (STACK_OF(X509) *)m_p7certs_obj; sgn.cert = m_p7certs_p; p7.d.sign = m_p7_signed ? &sgn : NULL;
	sig.ctx = m_ctx; sig.pkcs7 = &p7; m_the_p7 = &p7;
	pki.ctx = ctxNull ? NULL : m_ctx; pki.store = (X509_STORE *)m_store_obj;
	m_ctx->certConstraints = useCtx ? cons : NULL;

	switch (which) {
		case M_F_PKISIG: res = KSI_PKITruststore_verifyPKISignature(pkiNull ? NULL : &pki, dataNull ? NULL : data, data_len, sigNull ? NULL : &sig, useCtx ? NULL : cons); break;
		case M_F_VERIFYSIG_STATIC: res = pki_truststore_verifySignature(pkiNull ? NULL : &pki, dataNull ? NULL : data, data_len, sigNull ? NULL : &sig); break;
		case M_F_VERIFYSIG_PUBLIC: res = KSI_PKITruststore_verifySignature(pkiNull ? NULL : &pki, dataNull ? NULL : data, data_len, sigNull ? NULL : &sig); break;
		default: res = KSI_PKITruststore_verifySignatureCertificate(pkiNull ? NULL : &pki, sigNull ? NULL : &sig); break;
	}
	m_ctx->certConstraints = saved;
#undef p7

	for (k = 0; k < M_NC; k++) if (k < n && !(m_cert_has[k] && m_streq(m_cert_val[k], m_val[k]))) all = 0;
	argsOk = !pkiNull && !ctxNull && !sigNull && !dataNull;
	/* the three verdicts, each for THIS signature / THESE bytes / THIS store (argument identity recorded by the stubs) */
	sigOK = m_p7v_calls == 1 && m_p7v_args_ok && m_p7v_ret == 1 && m_bio_buf == (const void *)data && data_len <= (size_t)INT_MAX && m_bio_len == (int)data_len;
	chainOK = m_xv_calls == 1 && m_sctx_init_calls == 1 && m_sctx_init_args_ok && m_sctx_init_ret != 0 && m_xv_ret == 1;
	consOK = n >= 1 && all && m_subj_calls == 1 && m_txt_calls == (unsigned)n;
	sigStepRan = m_p7v_calls > 0;

	/* ---- argument checks ---- */
	M_CHECK(IMPLIES(!argsOk, res == KSI_INVALID_ARGUMENT), "missing trust store / context / data / signature => KSI_INVALID_ARGUMENT");
	M_CHECK(IMPLIES(!argsOk, m_bio_made == 0 && m_p7v_calls == 0 && m_get0_calls == 0 && m_sctx_made == 0 && m_subj_calls == 0), "missing argument => no OpenSSL service is used at all");
	if (which != M_F_CHAIN) {
		M_CHECK(IMPLIES(argsOk && data_len > (size_t)INT_MAX, res == KSI_INVALID_ARGUMENT && m_bio_made == 0 && m_p7v_calls == 0), "data_len > INT_MAX is refused before any BIO is made (no truncated range is ever verified)");
		/* ---- PKCS#7 step ---- */
		M_CHECK(IMPLIES(sigStepRan, m_p7v_calls == 1 && m_p7v_args_ok && m_bio_buf == (const void *)data && data_len <= (size_t)INT_MAX && m_bio_len == (int)data_len),
			"PKCS7_verify runs once, on THIS signature's PKCS#7 object, over a BIO made over exactly data[0..data_len), flags PKCS7_NOVERIFY");
		M_CHECK(IMPLIES(sigStepRan && m_p7v_ret < 0, res == KSI_CRYPTO_FAILURE), "PKCS7_verify < 0 => KSI_CRYPTO_FAILURE");
		M_CHECK(IMPLIES(sigStepRan && m_p7v_ret >= 0 && m_p7v_ret != 1, res == KSI_INVALID_PKI_SIGNATURE), "PKCS7_verify not 1 => KSI_INVALID_PKI_SIGNATURE (never OK)");
		M_CHECK(IMPLIES(argsOk && data_len <= (size_t)INT_MAX && m_bio_made == 0, res == KSI_OUT_OF_MEMORY), "BIO allocation failure => KSI_OUT_OF_MEMORY");
		M_CHECK(IMPLIES(m_xv_calls > 0 || m_subj_calls > 0, sigOK), "chain / constraint checks run only for a signature that verified over exactly these bytes");
	}
	/* ---- chain step ---- */
	M_CHECK(IMPLIES(m_xv_calls > 0, m_xv_calls == 1 && m_sctx_init_calls == 1 && m_sctx_init_args_ok), "X509_verify_cert runs once, on a context initialised with (this trust store, signer certificate of THIS signature, the certificates carried in its PKCS#7)");
	M_CHECK(IMPLIES(m_xv_calls == 1 && m_xv_ret < 0, res == KSI_CRYPTO_FAILURE), "X509_verify_cert < 0 => KSI_CRYPTO_FAILURE");
	M_CHECK(IMPLIES(m_xv_calls == 1 && m_xv_ret >= 0 && m_xv_ret != 1, res == KSI_PKI_CERTIFICATE_NOT_TRUSTED), "X509_verify_cert not 1 => KSI_PKI_CERTIFICATE_NOT_TRUSTED (never OK)");
	M_CHECK(IMPLIES(m_sctx_init_calls == 1 && m_sctx_init_ret == 0, res != KSI_OK && m_xv_calls == 0), "X509_STORE_CTX_init failure => error, no verification on an uninitialised context");
	M_CHECK(IMPLIES(m_get0_calls >= 1 && m_signers != 1, res != KSI_OK), "not exactly one signer certificate => never OK");
	/* ---- the property ---- */
	if (which == M_F_PKISIG) {
		M_CHECK(IMPLIES(res == KSI_OK, sigOK && chainOK && consOK), "OK => PKCS#7 verified over exactly (data, data_len) AND chain verified against the store AND >= 1 constraint, all matching - all for THIS signature");
		M_CHECK(IMPLIES(m_subj_calls > 0, chainOK), "constraints are looked at only after the chain verified");
		M_CHECK(IMPLIES(sigOK && chainOK && n == 0, res == KSI_PUBFILE_VERIFICATION_NOT_CONFIGURED), "no constraint configured => KSI_PUBFILE_VERIFICATION_NOT_CONFIGURED");
		M_CHECK(IMPLIES(sigOK && chainOK && n >= 1 && !all && !m_env_failed, res == KSI_PKI_CERTIFICATE_NOT_TRUSTED || res == KSI_OUT_OF_MEMORY), "a differing / missing subject value => KSI_PKI_CERTIFICATE_NOT_TRUSTED (or out of memory)");
		M_CHECK(IMPLIES(sigOK && chainOK && n >= 1 && all && !m_env_failed, res == KSI_OK || res == KSI_OUT_OF_MEMORY), "all three verdicts positive => OK (or out of memory)");
	} else if (which == M_F_CHAIN) {
		M_CHECK(IMPLIES(res == KSI_OK, chainOK), "OK => chain verified (== 1) on the context initialised for THIS signature and THIS store");
		M_CHECK(IMPLIES(argsOk && !m_env_failed && m_signers == 1 && m_xv_ret == 1, res == KSI_OK || res == KSI_OUT_OF_MEMORY), "chain verified => OK (or out of memory)");
	} else {
		M_CHECK(IMPLIES(res == KSI_OK, sigOK && chainOK), "OK => PKCS#7 verified over exactly (data, data_len) AND chain verified against the store");
		M_CHECK(IMPLIES(sigOK && chainOK, res == KSI_OK), "both verdicts positive => OK");
		M_CHECK(m_subj_calls == 0, "no constraint evaluation in this function");
	}
	/* ---- cleanup ---- */
	M_CHECK(m_bio_freed == m_bio_made && m_bio_made <= 1, "the BIO is released exactly once");
	M_CHECK(m_sctx_freed == m_sctx_made && m_sctx_made <= 1, "the store context is released exactly once");
	M_CHECK(m_x509_live == 0 && m_stack_live == 0, "signer stack and certificate copies are released");
	M_CHECK(m_oid_freed == m_oid_made, "every OID object is released");
	return res;
}

static int m_scn_raw(void) {
	struct KSI_PKICertificate_st cert; static unsigned char data[4], sigb[4];
	_Bool ctxNull = m_bool(), dataNull = m_bool(), sigNull = m_bool(), oidNull = m_bool(), certNull = m_bool(), argsOk;
	size_t data_len = m_size(), sig_len = m_size(); int res;
	m_world_reset(); m_raw_reset();
	m_oid_txt[0][0] = '1'; m_oid_txt[0][1] = 0;
	cert.ctx = m_ctx; cert.x509 = (X509 *)m_cert_x509_obj;
	res = KSI_PKITruststore_verifyRawSignature(ctxNull ? NULL : m_ctx, dataNull ? NULL : data, data_len, oidNull ? NULL : m_oid_txt[0], sigNull ? NULL : sigb, sig_len, certNull ? NULL : &cert);
	argsOk = !ctxNull && !dataNull && !sigNull && !oidNull && !certNull;
	M_CHECK(IMPLIES(res == KSI_OK, argsOk && sig_len < UINT_MAX), "OK => all arguments present, signature length fits unsigned");
	M_CHECK(IMPLIES(res == KSI_OK, m_upd_calls == 1 && m_upd_data == (const void *)data && m_upd_len == data_len), "OK => the digest ran over exactly data[0..data_len)");
	M_CHECK(IMPLIES(res == KSI_OK, m_fin_calls == 1 && m_fin_sig == sigb && (size_t)m_fin_len == sig_len && m_fin_ret == 1), "OK => EVP_VerifyFinal == 1 for exactly signature[0..signature_len) and the certificate's public key");
	M_CHECK(IMPLIES(res == KSI_OK, m_md_kind >= 1 && m_md_kind <= 5 && m_init_ok), "OK => digest named by the algorithm OID and known to libksi");
	M_CHECK(IMPLIES(!argsOk || sig_len >= UINT_MAX, (res == KSI_INVALID_ARGUMENT || (res == KSI_OUT_OF_MEMORY && m_md_made == 0)) && m_upd_calls == 0 && m_fin_calls == 0 && m_pkey_made == 0), "missing argument / over-long signature => KSI_INVALID_ARGUMENT, nothing is verified");
	M_CHECK(IMPLIES(m_fin_calls == 1 && m_fin_ret == 0, res == KSI_INVALID_PKI_SIGNATURE), "EVP_VerifyFinal == 0 => KSI_INVALID_PKI_SIGNATURE");
	M_CHECK(IMPLIES(m_fin_calls == 1 && m_fin_ret < 0, res == KSI_CRYPTO_FAILURE), "EVP_VerifyFinal < 0 => KSI_CRYPTO_FAILURE");
	M_CHECK(IMPLIES(argsOk && sig_len < UINT_MAX && m_md_made == 1 && m_oid_made == 1 && m_md_kind == 0, res == KSI_INVALID_FORMAT), "unknown digest => KSI_INVALID_FORMAT");
	M_CHECK(IMPLIES(argsOk && sig_len < UINT_MAX && m_md_made == 1 && m_oid_made == 1 && m_md_kind == 6, res == KSI_UNAVAILABLE_HASH_ALGORITHM), "digest libksi does not know => KSI_UNAVAILABLE_HASH_ALGORITHM");
	M_CHECK(IMPLIES(argsOk && sig_len < UINT_MAX && !m_env_failed && m_md_kind >= 1 && m_md_kind <= 5 && m_fin_ret == 1, res == KSI_OK), "everything positive => OK");
	M_CHECK(m_md_freed == m_md_made && m_oid_freed == m_oid_made && m_pkey_freed == m_pkey_made, "digest context, OID object and public key are released exactly once");
	return res;
}
#endif
