/* [ASSUMED] ISO C strstr (CBMC 6.11 has no built-in model): pointer to the first occurrence of needle in haystack,
 * haystack itself for an empty needle, NULL when there is none.  Contains loops: plain (unwinding) mode only. */
#ifndef ENV_LIBC_STRSTR_H
#define ENV_LIBC_STRSTR_H
#include <stddef.h>
char *strstr(const char *haystack, const char *needle) {
	size_t i, j;
	if (needle[0] == 0) return (char *)haystack;
	for (i = 0; haystack[i] != 0; i++) {
		for (j = 0; needle[j] != 0 && haystack[i + j] == needle[j]; j++) { }
		if (needle[j] == 0) return (char *)haystack + i;
	}
	return NULL;
}
#endif
