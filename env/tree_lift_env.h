/* Environment of tree_builder.c for the LIFTED C16 jobs (obligations/C16/lift_tree.c, index_lift.json).
 * Use INSTEAD of env/c19_alloc_env.h + env/tree_env.h: the loops of KSI_TreeBuilder_close are under loop contracts,
 * and dfcc does not allow malloc/free inside such a loop.  Everything here is ASSUMED behaviour of code outside
 * tree_builder.c:
 *   - KSI_malloc / KSI_free: a POOL allocator over 256 static node objects (g_pp[k]) (tree nodes are the only thing close
 *     allocates; asserted).  A block handed out is distinct from every other object (what freshness means), any
 *     allocation may fail.  KSI_free asserts that the block is the most recently allocated live one: this is at
 *     the same time "no double free", "nothing but a node made by this call is ever freed" and g_live accounting;
 *   - KSI_DataHasher_reset/add/addImprint/close: ghost TRANSCRIPT as in env/tree_env.h, any call may fail; close
 *     takes the result object from the static objects g_hpp[k] (may fail); the hash function is not modelled;
 *   - KSI_DataHash_ref/free, KSI_MetaData_ref/free: reference counted objects; a hash object whose count drops to 0
 *     must be the newest live one of g_hpp[] (same discipline as above);
 *   - leaf-processor list of levelWithOverhead: ghost reference machine (see below);
 *   - KSI_ERR_*, KSI_LOG_*: no effect on state the property observes. */
#ifndef ENV_TREE_LIFT_ENV_H
#define ENV_TREE_LIFT_ENV_H
#include <stdlib.h>
#include <stdarg.h>
#include "env/common.h"
#include "internal.h"
#include "hash.h"
#include "impl/hash_impl.h"
#include "tree_builder.h"
#include "impl/meta_data_impl.h"
#include "spec/tree.h"

#define LIFT_SLOTS 256

/* ---- ghost transcript of hasher calls (same as env/tree_env.h; contracts/tree_builder_addnode.h speaks about it) ---- */
#define TR_MAX 8
enum { TR_NONE = 0, TR_RESET = 1, TR_IMPRINT = 2, TR_MDSER = 3, TR_BYTES = 4, TR_CLOSE = 5 };
typedef struct { int kind; const void *obj; size_t len; unsigned char b0; } tr_event;
tr_event g_tr[TR_MAX];
unsigned g_tr_n;
_Bool g_tr_failed;            /* some hasher / serializer call returned an error */
KSI_DataHash *g_tr_result;
KSI_DataHasher *g_tr_hsr;
_Bool g_tr_hsr_mixed;

static void tr_rec(KSI_DataHasher *h, int kind, const void *obj, size_t len, unsigned char b0) {
	if (g_tr_n < TR_MAX) {
		g_tr[g_tr_n].kind = kind; g_tr[g_tr_n].obj = obj; g_tr[g_tr_n].len = len; g_tr[g_tr_n].b0 = b0;
		g_tr_n++;
	}
	if (g_tr_hsr == NULL) g_tr_hsr = h; else if (g_tr_hsr != h) g_tr_hsr_mixed = 1;
}
static void tr_init(void) {
	g_tr_n = 0; g_tr_failed = 0; g_tr_result = NULL; g_tr_hsr = NULL; g_tr_hsr_mixed = 0;
	g_tr[0].kind = g_tr[1].kind = g_tr[2].kind = g_tr[3].kind = TR_NONE;
	g_tr[4].kind = g_tr[5].kind = g_tr[6].kind = g_tr[7].kind = TR_NONE;
}
static int tr_some_error(void) { int e = nondet_int(); if (e == KSI_OK) e = KSI_UNKNOWN_ERROR; g_tr_failed = 1; return e; }

/* ---- pool allocator ---------------------------------------------------------------------------- */
long g_live;                  /* funnel blocks currently live */
unsigned g_alloc_failed;      /* funnel allocations that returned NULL */
#include "env/tree_lift_objs.h"   /* g_np[k] node of slot k, g_pp[k] k-th pool node, g_hpp[k] k-th pool hash: 256 separate objects each */
size_t g_pool_n;              /* pool blocks handed out and not released: *g_pp[0 .. g_pool_n-1] are live */
size_t g_hpool_n;             /* same for hash objects made by KSI_DataHasher_close */

void *KSI_malloc(size_t size) {
	__CPROVER_assert(size == sizeof(KSI_TreeNode), "pool model: only tree nodes are allocated by the functions under contract");
	__CPROVER_assert(g_pool_n < LIFT_POOL_SLOTS, "pool model: never more than 255 join nodes are live");
	if (nondet_bool() || size != sizeof(KSI_TreeNode) || g_pool_n >= LIFT_POOL_SLOTS) { g_alloc_failed++; return NULL; }
	g_live++;
	g_pool_n++;
	return g_pp[g_pool_n - 1];
}
void *KSI_calloc(size_t num, size_t size) { __CPROVER_assert(0, "pool model: KSI_calloc is not used by the functions under contract"); return NULL; }
void KSI_free(void *ptr) {
	if (ptr == NULL) return;
	__CPROVER_assert(g_pool_n >= 1 && g_pool_n <= LIFT_POOL_SLOTS && ptr == (void *)g_pp[g_pool_n - 1],
			"freed block is the newest live node made by this call (no double free, no subtree of the stack, no foreign pointer)");
	if (g_pool_n >= 1) g_pool_n--;
	g_live--;
}

void KSI_ERR_clearErrors(KSI_CTX *ctx) { }
void KSI_ERR_push(KSI_CTX *ctx, int statusCode, long extErrorCode, const char *fileName, unsigned int lineNr, const char *message) { }
int KSI_LOG_debug(KSI_CTX *ctx, char *format, ...) { return KSI_OK; }
int KSI_LOG_info(KSI_CTX *ctx, char *format, ...) { return KSI_OK; }
int KSI_LOG_notice(KSI_CTX *ctx, char *format, ...) { return KSI_OK; }
int KSI_LOG_warn(KSI_CTX *ctx, char *format, ...) { return KSI_OK; }
int KSI_LOG_error(KSI_CTX *ctx, char *format, ...) { return KSI_OK; }

/* ---- hash objects ------------------------------------------------------------------------------ */
KSI_DataHash *KSI_DataHash_ref(KSI_DataHash *h) { if (h != NULL) h->ref++; return h; }
void KSI_DataHash_free(KSI_DataHash *h) {
	if (h != NULL && --h->ref == 0) {
		__CPROVER_assert(g_hpool_n >= 1 && g_hpool_n <= LIFT_POOL_SLOTS && h == g_hpp[g_hpool_n - 1],
				"released hash object is the newest live one made by this call (hashes of the stack's subtrees are never released)");
		if (g_hpool_n >= 1) g_hpool_n--;
	}
}

/* ---- hasher ------------------------------------------------------------------------------------ */
int KSI_DataHasher_reset(KSI_DataHasher *h) {
	if (h == NULL) return KSI_INVALID_ARGUMENT;
	tr_rec(h, TR_RESET, NULL, 0, 0);
	if (nondet_bool()) return tr_some_error();
	return KSI_OK;
}
int KSI_DataHasher_add(KSI_DataHasher *h, const void *data, size_t len) {
	if (h == NULL || (data == NULL && len != 0)) return KSI_INVALID_ARGUMENT;
	tr_rec(h, TR_BYTES, NULL, len, len > 0 ? *(const unsigned char *)data : 0);
	if (nondet_bool()) return tr_some_error();
	return KSI_OK;
}
int KSI_DataHasher_addImprint(KSI_DataHasher *h, const KSI_DataHash *hsh) {
	if (h == NULL || hsh == NULL) return KSI_INVALID_ARGUMENT;
	tr_rec(h, TR_IMPRINT, hsh, 0, 0);
	if (nondet_bool()) return tr_some_error();
	return KSI_OK;
}
int KSI_DataHasher_close(KSI_DataHasher *h, KSI_DataHash **out) {
	KSI_DataHash *r;
	if (h == NULL || out == NULL) return KSI_INVALID_ARGUMENT;
	tr_rec(h, TR_CLOSE, NULL, 0, 0);
	if (nondet_bool()) return tr_some_error();
	__CPROVER_assert(g_hpool_n < LIFT_POOL_SLOTS, "pool model: never more than 255 join hashes are live");
	if (nondet_bool() || g_hpool_n >= LIFT_POOL_SLOTS) { g_tr_failed = 1; return KSI_OUT_OF_MEMORY; }
	g_hpool_n++;
	r = g_hpp[g_hpool_n - 1];
	r->ref = 1; r->ctx = NULL; r->imprint_length = nondet_size();
	g_tr_result = r;
	*out = r;
	return KSI_OK;
}

/* ---- meta-data objects --------------------------------------------------------------------------- */
KSI_MetaData *KSI_MetaData_ref(KSI_MetaData *m) { if (m != NULL) m->ref++; return m; }
void KSI_MetaData_free(KSI_MetaData *m) { if (m != NULL) { __CPROVER_assert(0, "meta-data of a subtree held by the stack is never released (join nodes carry none)"); } }
static int md_stub_serializePayload(const KSI_MetaData *t, unsigned char *buf, size_t buf_size, size_t *buf_len) {
	size_t n = nondet_size();
	tr_rec(g_tr_hsr, TR_MDSER, t, 0, 0);
	if (nondet_bool() || n > buf_size) return tr_some_error();
	if (n > 0) buf[0] = nondet_uchar();
	*buf_len = n;
	return KSI_OK;
}

/* ---- the forest held by the builder: slot k is empty or holds ITS OWN node *g_np[k] ------------------------
 * Built by the harness in straight-line code (no loop) together with PREFIX TABLES of the reference folds of
 * spec/tree.h.  The tables are never written by the code under contract, so a loop invariant can name
 * "the reference value after the first i slots" as g_xxx[i]. */
KSI_DataHash g_shash;          /* hash object shared by the hash nodes of the stack (never written) */
KSI_MetaData g_smd;            /* meta-data object shared by the meta-data nodes of the stack */
long long g_hpref[LIFT_SLOTS + 1];   /* height pre-check fold (spec_tree_height_step) over slots [0, k) */
long long g_cpref[LIFT_SLOTS + 1];   /* close-time fold (spec_tree_close_step) over slots [0, k); -1: nothing yet */
size_t g_cnt[LIFT_SLOTS + 1];        /* number of occupied slots in [0, k) */
size_t g_first;                      /* lowest occupied slot, LIFT_SLOTS if the forest is empty */
size_t g_jslot[LIFT_SLOTS];          /* slot whose subtree is the left operand of join number j (0-based) */
size_t g_w;                          /* witness slot */
size_t g_wj;                         /* witness join index */
long g_live0;                        /* g_live at entry */
KSI_TreeNode *g_root0;               /* builder->rootNode at entry */

/* ---- leaf-processor list of levelWithOverhead: ghost REFERENCE MACHINE -------------------------------------
 * A list of g_lw_len processors; each fetch hands out the scratch processor g_lw_cb with an arbitrary overhead
 * 0..255 and advances the reference sum of the property text ("level plus the overheads, every partial sum within
 * 0..255").  The list may also deliver a NULL element or an error (then the call must fail). */
size_t g_lw_len;
size_t g_lw_fetched;          /* elements fetched so far; must be fetched in order 0, 1, 2, ... */
unsigned g_lw_sum;            /* reference: input level + overheads fetched so far (frozen once above 255) */
_Bool g_lw_over;              /* reference: some partial sum left 0..255 */
_Bool g_lw_bad;               /* the list delivered NULL / an error */
KSI_TreeBuilderLeafProcessor g_lw_cb;
static size_t lw_stub_length(KSI_LIST(KSI_TreeBuilderLeafProcessor) *l) { return g_lw_len; }
static int lw_stub_elementAt(KSI_LIST(KSI_TreeBuilderLeafProcessor) *l, size_t pos, KSI_TreeBuilderLeafProcessor **o) {
	__CPROVER_assert(pos == g_lw_fetched && pos < g_lw_len && !g_lw_over && !g_lw_bad, "processors are fetched in order, each once, none after a refusal");
	if (o == NULL || pos >= g_lw_len) return KSI_BUFFER_OVERFLOW;
	g_lw_fetched++;
	if (nondet_bool()) { int e = nondet_int(); g_lw_bad = 1; return e == KSI_OK ? KSI_INVALID_STATE : e; }
	if (nondet_bool()) { g_lw_bad = 1; *o = NULL; return KSI_OK; }
	g_lw_cb.levelOverhead = nondet_uchar();
	g_lw_sum += g_lw_cb.levelOverhead;
	if (g_lw_sum > SPEC_TREE_MAX_LEVEL) g_lw_over = 1;
	*o = &g_lw_cb;
	return KSI_OK;
}
#endif
