/* Ghost monitor for KSI_VerificationRule_AggregationChainMetaDataVerification (C01, INT-11 at rule level): the nested
 * walk over ALL aggregation chains and ALL their links, and the TLV look-ups in a link's metadata record.
 *
 * World (on top of env/ghost_vrule.h):
 *   - the signature's chain list is a MODEL LIST of arbitrary length g_md_nchains; every fetch hands out the chain object
 *     g_md_chain whose link list is the MODEL LIST g_md_linklist with a fresh arbitrary length g_mdc.nlinks;
 *   - every link fetch hands out g_md_link with a fresh arbitrary sibling: no metadata, or the metadata record g_md_meta
 *     whose TLV element g_md_el has an arbitrary header form (hdr_len 2 or 4), an arbitrary value length 1..65535 and
 *     an arbitrary first value octet; the record's ghost facts are chosen at the fetch:
 *        g_md.unsplit  the value is not a TLV sequence / memory ran out  (KSI_TlvElement_getElement fails)
 *        g_md.npad     number of padding elements 0x1E in the record: 0, 1, 2 (= more than one)
 *        g_md_first    the record's first element: arbitrary tag, flags, header form, length, octets (it is not a
 *                      padding when the record has no padding at all)
 *   - the stub evaluates the property's condition for that record with spec/metadata_rule.h and records the verdict in
 *     g_md.fail / g_md.na.  Protocol assertions: chains and links first to last, each once, none after the verdict is
 *     determined, every link of a chain before the next chain.
 * ASSUMED stubs (tlv_element.c is not part of this TU):
 *   KSI_TlvElement_getElement(record, 0x1E, &el): value not splittable -> an error status other than KSI_INVALID_STATE;
 *        no such element -> KSI_OK, *el untouched; exactly one -> KSI_OK, *el = that element with a new reference;
 *        more than one -> KSI_INVALID_STATE (tlv_element.c:541-556).  The stub asserts that *el is NULL on entry (a stale
 *        pointer from the previous record would be taken for a padding and released twice).
 *   KSI_TlvElement_free: releases that reference (ghost count, double free is an assertion).
 *   sub-element list of the record: elementAt(0) = the record's first element.
 * Pointer fields of all model objects are constant; a fetch rewrites only values behind them (see obligations/C01/NOTES.md,
 * "Performance"). */
#ifndef ENV_GHOST_VRULE_MD_H
#define ENV_GHOST_VRULE_MD_H
#include "env/ghost_vrule.h"
#include "spec/metadata_rule.h"
#include "tlv_element.h"
#include "impl/meta_data_element_impl.h"

size_t g_md_nchains;                          /* number of aggregation chains (fixed) */
/* Ghost state is grouped (one assigns target per group: every write is checked against every target of the frame) */
struct md_chain_ghost {
	size_t ccalls;                            /* chains handed out so far */
	size_t nlinks;                            /* links of the current chain */
} g_mdc;
struct md_link_ghost {
	size_t lcalls;                            /* links of the current chain handed out so far */
	size_t records;                           /* records evaluated (vacuity guards) */
	_Bool fail;                               /* a record the property refuses has been handed out */
	_Bool na;                                 /* a record that cannot be evaluated has been handed out */
	_Bool has;                                /* the current link carries a metadata record */
	_Bool unsplit; unsigned npad; int ge_status;
	int elref;                                /* references the rule holds on a found padding element */
} g_md;
struct md_bytes { unsigned char rec[8]; unsigned char first[8]; };   /* first octets of the record (header 2 or 4 octets, then the value) / of its first element */
struct md_bytes g_md_bytes;
struct md_bytes nondet_md_bytes(void);
KSI_FTLV nondet_ftlv(void);

KSI_AggregationHashChain g_md_chain;
KSI_LIST(KSI_HashChainLink) g_md_linklist;
KSI_HashChainLink g_md_link;
KSI_MetaDataElement g_md_meta;
KSI_TlvElement g_md_el;                       /* the record */
KSI_TlvElement g_md_first;                    /* its first element */
KSI_TlvElement g_md_found;                    /* identity of the element KSI_TlvElement_getElement hands out */
KSI_LIST(KSI_TlvElement) g_md_sublist;

#ifdef MD_BOUND       /* bounded stand-in job: at most MD_BOUND chains and MD_BOUND links per chain */
#define MD_MAX_LIST ((size_t)3)
#define MD_CLAMP(n) ((n) > (size_t)MD_BOUND ? (size_t)MD_BOUND : (n))
#else
#define MD_MAX_LIST ((size_t)0x0fffffffffffffffULL)
#define MD_CLAMP(n) (n)
#endif
#define MD_N_EFF(sig) ((sig)->aggregationChainList != NULL ? g_md_nchains : (size_t)0)

static int md_first_is_padding_ok(void) {
	return spec_metadata_padding_ok(g_md_first.ftlv.tag, g_md_first.ftlv.is_nc, g_md_first.ftlv.is_fwd, g_md_bytes.first[0], g_md_first.ftlv.dat_len,
		g_md_first.ftlv.dat_len >= 1 ? g_md_bytes.first[g_md_first.ftlv.hdr_len] : 0u, g_md_first.ftlv.dat_len >= 2 ? g_md_bytes.first[g_md_first.ftlv.hdr_len + 1] : 0u);
}

static size_t md_chains_length(KSI_LIST(KSI_AggregationHashChain) *l) { return g_md_nchains; }
static int md_chains_elementAt(KSI_LIST(KSI_AggregationHashChain) *l, size_t pos, KSI_AggregationHashChain **o) {
	struct md_chain_ghost c = g_mdc; struct md_link_ghost g = g_md;
	__CPROVER_assert(l == &g_vr_chainlist && o != NULL, "chain list: the signature's list is asked");
	__CPROVER_assert(!g.fail && !g.na, "protocol: no chain is fetched after the verdict is determined");
	__CPROVER_assert(pos == c.ccalls && pos < g_md_nchains, "protocol: every chain once, first to last");
	__CPROVER_assert(c.ccalls == 0 || g.lcalls == c.nlinks, "protocol: every link of the previous chain was inspected");
	c.nlinks = MD_CLAMP(nondet_size() & MD_MAX_LIST); g.lcalls = 0;
	c.ccalls++;
	g_mdc = c; g_md = g;
	*o = &g_md_chain;
	return KSI_OK;
}
static size_t md_links_length(KSI_LIST(KSI_HashChainLink) *l) {
	__CPROVER_assert(l == &g_md_linklist, "link list of the current chain");
	return g_mdc.nlinks;
}
static int md_links_elementAt(KSI_LIST(KSI_HashChainLink) *l, size_t pos, KSI_HashChainLink **o) {
	int cls; struct md_link_ghost g = g_md; KSI_FTLV fr, ff; struct md_bytes by;
	__CPROVER_assert(l == &g_md_linklist && o != NULL, "link list of the current chain");
	__CPROVER_assert(g_mdc.ccalls > 0 && !g.fail && !g.na, "protocol: no link is fetched after the verdict is determined");
	__CPROVER_assert(pos == g.lcalls && pos < g_mdc.nlinks, "protocol: every link of the chain once, first to last");
	__CPROVER_assert(g.elref == 0, "protocol: the padding element of the previous record has been released");
	g.has = nondet_bool();
	g_md_link.metaData = g.has ? &g_md_meta : NULL;
	if (g.has) {
		/* the record: header form, value length, first octets arbitrary */
		fr = nondet_ftlv(); ff = nondet_ftlv(); by = nondet_md_bytes();
		fr.off = 0; fr.tag = 0x04;
		fr.hdr_len = nondet_bool() ? 2 : 4;
		fr.dat_len = 1 + nondet_size() % 0xffff;   /* 1..65535: a TLV value has at most 65535 octets; the template makes the client id mandatory (no empty record) */
		g.unsplit = nondet_bool(); g.npad = nondet_uint() % 3u; g.ge_status = nondet_int();
		/* its first element */
		ff.off = 0; ff.tag = ff.tag & 0x1fffu;
		if (g.npad == 0 && ff.tag == 0x1e) ff.tag = 0x01;      /* a record without padding does not start with one */
		ff.hdr_len = nondet_bool() ? 2 : 4;
		ff.dat_len = ff.dat_len & 0xffff;
		g_md_el.ftlv = fr; g_md_first.ftlv = ff; g_md_bytes = by;
		/* the property's verdict for this record */
		cls = spec_md_record(g.unsplit, g.npad, md_first_is_padding_ok(), g_md_el.ftlv.dat_len, g_md_bytes.rec[g_md_el.ftlv.hdr_len]);
		if (cls == SPEC_MD_REFUSE) g.fail = 1;
		else if (cls == SPEC_MD_NA) g.na = 1;
		g.records++;
	}
	g.lcalls++;
	g_md = g;
	*o = &g_md_link;
	return KSI_OK;
}
static size_t md_sub_length(KSI_LIST(KSI_TlvElement) *l) { return 1; }
static int md_sub_elementAt(KSI_LIST(KSI_TlvElement) *l, size_t pos, KSI_TlvElement **o) {
	__CPROVER_assert(l == &g_md_sublist && o != NULL, "sub-element list of the current record");
	__CPROVER_assert(g_md.has && !g_md.unsplit && g_md.npad >= 1, "the first element is consulted for a record with padding only");
	__CPROVER_assert(pos == 0, "padding must be the FIRST element of the record");
	*o = &g_md_first;
	return KSI_OK;
}

int KSI_TlvElement_getElement(KSI_TlvElement *parent, unsigned tag, KSI_TlvElement **el) {
	__CPROVER_assert(parent == &g_md_el && g_md.has, "getElement: the current link's metadata record is searched");
	__CPROVER_assert(tag == 0x1e, "getElement: the padding element (tag 0x1E) is looked for");
	__CPROVER_assert(el != NULL && *el == NULL, "getElement: the receiving pointer is clear (no stale element of a previous record)");
	if (g_md.unsplit) return (g_md.ge_status == KSI_OK || g_md.ge_status == KSI_INVALID_STATE) ? KSI_INVALID_FORMAT : g_md.ge_status;
	if (g_md.npad == 0) return KSI_OK;
	if (g_md.npad >= 2) return KSI_INVALID_STATE;
	g_md.elref++;
	*el = &g_md_found;
	return KSI_OK;
}
void KSI_TlvElement_free(KSI_TlvElement *t) {
	if (t == NULL) return;
	__CPROVER_assert(t == &g_md_found, "free: only the element handed out by getElement is released");
	__CPROVER_assert(g_md.elref > 0, "free of a released element (double free)");
	g_md.elref--;
}

static void md_world_init(void) {
	vr_world_init();
	g_vr_chainlist.length = md_chains_length; g_vr_chainlist.elementAt = md_chains_elementAt;
	g_md_linklist.length = md_links_length; g_md_linklist.elementAt = md_links_elementAt;
	g_md_sublist.length = md_sub_length; g_md_sublist.elementAt = md_sub_elementAt;
	g_md_nchains = MD_CLAMP(nondet_size() & MD_MAX_LIST); g_mdc.ccalls = 0; g_mdc.nlinks = 0; g_md.lcalls = 0;
	g_md.fail = 0; g_md.na = 0; g_md.elref = 0; g_md.has = 0; g_md.unsplit = 0; g_md.npad = 0; g_md.ge_status = 0; g_md.records = 0;
	g_md_chain.ctx = VR_CTX; g_md_chain.ref = 1; g_md_chain.chain = &g_md_linklist;
	g_md_chain.aggregationTime = NULL; g_md_chain.chainIndex = NULL; g_md_chain.inputData = NULL; g_md_chain.inputHash = NULL;
	g_md_chain.aggrHashId = NULL; g_md_chain.outputHash = NULL; g_md_chain.outputLevel = 0; g_md_chain.inputLevel = 0;
	g_md_link.ctx = VR_CTX; g_md_link.isLeft = nondet_int(); g_md_link.levelCorrection = NULL; g_md_link.imprint = NULL; g_md_link.legacyId = NULL;
	g_md_link.metaData = NULL;
	g_md_meta.ctx = VR_CTX; g_md_meta.ref = 1; g_md_meta.padding = NULL; g_md_meta.clientId = NULL; g_md_meta.machineId = NULL;
	g_md_meta.sequenceNr = NULL; g_md_meta.reqTimeInMicros = NULL; g_md_meta.impl = &g_md_el;
	g_md_el.ref = 1; g_md_el.ptr = g_md_bytes.rec; g_md_el.ptr_own = 1; g_md_el.subList = &g_md_sublist;
	g_md_el.ftlv.off = 0; g_md_el.ftlv.hdr_len = 2; g_md_el.ftlv.dat_len = 1; g_md_el.ftlv.tag = 0x04; g_md_el.ftlv.is_nc = 0; g_md_el.ftlv.is_fwd = 0;
	g_md_first.ref = 1; g_md_first.ptr = g_md_bytes.first; g_md_first.ptr_own = 0; g_md_first.subList = NULL;
	g_md_first.ftlv.off = 0; g_md_first.ftlv.hdr_len = 2; g_md_first.ftlv.dat_len = 0; g_md_first.ftlv.tag = 0; g_md_first.ftlv.is_nc = 0; g_md_first.ftlv.is_fwd = 0;
	g_md_found.ref = 1; g_md_found.ptr = NULL; g_md_found.ptr_own = 0; g_md_found.subList = NULL;
}

/* verdict of the rule from the monitor */
static spec_verdict md_exp_walk(const KSI_VerificationContext *info) {
	if (!VR_INFO_OK(info)) return SPEC_VNA;
	if (g_md.fail) return SPEC_VFAIL(SPEC_VERR_INT(11));
	if (g_md.na) return SPEC_VNA;
	return SPEC_VOK;
}
/* an OK verdict is only possible after every link of every chain has been inspected */
#define MD_COMPLETE(info, result) IMPLIES((result) != NULL && VR_INFO_OK(info) && __CPROVER_return_value == KSI_OK && (result)->resultCode == KSI_VER_RES_OK, \
		g_mdc.ccalls == MD_N_EFF((info)->signature) && (g_mdc.ccalls == 0 || g_md.lcalls == g_mdc.nlinks) && !g_md.fail && !g_md.na)
#endif
