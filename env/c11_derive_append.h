/* builderR - C11: ASSUMED recording stubs for the callees of appendAggregationChain / addChainIndex (signature_builder.c:374-581).
 * Every service returns an arbitrary status; on KSI_OK it does what its name says on the model objects of
 * env/c11_derive_types.h and records its arguments.  No malloc inside the index-copy loop (scratch element g_d_el). */
#ifndef ENV_C11_DERIVE_APPEND_H
#define ENV_C11_DERIVE_APPEND_H
#include "env/c11_derive_types.h"

int KSI_AggregationHashChain_getChain(const KSI_AggregationHashChain *aggr, KSI_LIST(KSI_HashChainLink) **chain) {
	g_d.getchain_calls++; g_d.getchain_res = aggr == NULL || chain == NULL ? KSI_INVALID_ARGUMENT : c11d_status();
	if (g_d.getchain_res == KSI_OK) *chain = aggr->chain;
	return g_d.getchain_res;
}
static size_t c11d_link_length(KSI_LIST(KSI_HashChainLink) *l) { return g_di.links; }
/* KSI_Signature_getSigningTime (signature.c): real body = job C11.derive_getSigningTime */
int KSI_Signature_getSigningTime(const KSI_Signature *sig, KSI_Integer **signTime) {
	g_d.signtime_calls++; g_d.signtime_sig = sig; g_d.signtime_res = sig == NULL || signTime == NULL ? KSI_INVALID_ARGUMENT : c11d_status();
	if (g_d.signtime_res == KSI_OK) *signTime = g_di.time_p;
	return g_d.signtime_res;
}
KSI_Integer *KSI_Integer_ref(KSI_Integer *o) {
	if (o == &g_d_signtime) g_d.time_refs++; else if (o == &g_d_el) g_dl.idx_refs++;
	return o;
}
void KSI_Integer_free(KSI_Integer *o) {
	if (o == &g_d_signtime) g_d.time_refs--; else if (o == &g_d_el) g_dl.idx_refs--; else if (o == &g_d_shape) g_d.shape_live--;
}
int KSI_AggregationHashChain_setAggregationTime(KSI_AggregationHashChain *aggr, KSI_Integer *v) {
	g_d.settime_calls++; g_d.settime_val = v; g_d.settime_res = aggr == NULL ? KSI_INVALID_ARGUMENT : c11d_status();
	if (g_d.settime_res == KSI_OK) aggr->aggregationTime = v;
	return g_d.settime_res;
}
static size_t c11d_chain_length(KSI_LIST(KSI_AggregationHashChain) *l) { return g_di.nchains + (g_d.chain_insert_calls > 0 && g_d.chain_insert_res == KSI_OK ? 1 : 0); }
int KSI_AggregationHashChain_getChainIndex(const KSI_AggregationHashChain *c, KSI_LIST(KSI_Integer) **idx) {
	int r = c == NULL || idx == NULL ? KSI_INVALID_ARGUMENT : c11d_status();
	if (r == KSI_OK) *idx = c->chainIndex;
	return r;
}
int KSI_IntegerList_new(KSI_LIST(KSI_Integer) **l) {
	int r = c11d_status();
	g_d.idxlist_new_calls++;
	if (r == KSI_OK) { g_d.idxlist_live++; *l = &g_d_new_idx; }
	return r;
}
void KSI_IntegerList_free(KSI_LIST(KSI_Integer) *l) {
	if (l == &g_d_new_idx) { g_d.idxlist_live--; if (g_d.new_idx_has_shape) { g_d.shape_live--; g_d.new_idx_has_shape = 0; } }      /* the list releases its elements */
}
int KSI_AggregationHashChain_calculateShape(KSI_AggregationHashChain *chn, KSI_uint64_t *shape) {
	g_d.shape_calls++; g_d.shape_res = chn != &g_d_aggr || shape == NULL ? KSI_INVALID_ARGUMENT : c11d_status();
	if (g_d.shape_res == KSI_OK) *shape = g_di.shape_val;
	return g_d.shape_res;
}
int KSI_Integer_new(KSI_CTX *ctx, KSI_uint64_t v, KSI_Integer **o) {
	int r = c11d_status();
	g_d.int_new_calls++;
	if (r == KSI_OK) { g_d_shape.value = v; g_d.shape_live++; *o = &g_d_shape; }
	return r;
}
static int c11d_int_append(KSI_LIST(KSI_Integer) *l, KSI_Integer *o) {
	int r = c11d_status();
	g_d.idx_append_calls++; g_d.idx_append_ok = (l == &g_d_new_idx && o == &g_d_shape);
	if (r == KSI_OK) g_d.new_idx_has_shape = 1;
	return r;
}
int KSI_AggregationHashChain_setChainIndex(KSI_AggregationHashChain *c, KSI_LIST(KSI_Integer) *l) {
	g_d.setidx_calls++; g_d.setidx_res = c == NULL ? KSI_INVALID_ARGUMENT : c11d_status();
	if (g_d.setidx_res == KSI_OK) c->chainIndex = l;
	return g_d.setidx_res;
}
static int c11d_chain_elementAt(KSI_LIST(KSI_AggregationHashChain) *l, size_t pos, KSI_AggregationHashChain **o) {
	int r = c11d_status();
	__CPROVER_assert(pos == 0, "protocol: the FIRST aggregation hash chain of the signature is asked for");
	if (r == KSI_OK) *o = g_di.first_p;
	return r;
}
static size_t c11d_int_length(KSI_LIST(KSI_Integer) *l) {
	if (l == &g_d_cur_idx) return g_di.cur_len;
	if (l == &g_d_aggr_idx) return g_di.own_len + g_dl.inserted;
	return (g_d.new_idx_has_shape ? 1 : 0) + g_dl.inserted;
}
static int c11d_int_elementAt(KSI_LIST(KSI_Integer) *l, size_t pos, KSI_Integer **o) {
	int r = c11d_status();
	__CPROVER_assert(l == &g_d_cur_idx && pos < g_di.cur_len, "protocol: index elements are fetched from the FIRST chain's index, inside its length");
	if (r == KSI_OK) { g_d_el.pos = pos; g_d_el.value = nondet_ull(); *o = &g_d_el; }
	return r;
}
static int c11d_int_insertAt(KSI_LIST(KSI_Integer) *l, size_t pos, KSI_Integer *o) {
	int r = c11d_status();
	/* cur[len-1], cur[len-2], ..., cur[0] each inserted at position 0  ==>  new index = cur ++ old index */
	__CPROVER_assert(l == g_d_aggr.chainIndex && l != NULL, "index prefix: inserted into the index of the chain that is prepended");
	__CPROVER_assert(pos == 0, "index prefix: inserted in front");
	__CPROVER_assert(o == &g_d_el && g_d_el.pos == g_di.cur_len - 1 - g_dl.inserted, "index prefix: elements of the first chain's index are taken from back to front, none skipped or repeated");
	if (r == KSI_OK) g_dl.inserted++;
	return r;
}
static int c11d_chain_insertAt(KSI_LIST(KSI_AggregationHashChain) *l, size_t pos, KSI_AggregationHashChain *o) {
	g_d.chain_insert_calls++; g_d.chain_insert_pos = pos; g_d.chain_insert_el = o; g_d.chain_insert_list_ok = (l == &g_d_chainlist);
	g_d.chain_insert_after_idx = (g_dl.inserted == g_di.cur_len && g_d.settime_calls == 1 && g_d.settime_res == KSI_OK);
	g_d.chain_insert_res = c11d_status();
	return g_d.chain_insert_res;
}
KSI_AggregationHashChain *KSI_AggregationHashChain_ref(KSI_AggregationHashChain *o) { if (o == &g_d_aggr) g_d.aggr_refs++; return o; }
void KSI_AggregationHashChain_free(KSI_AggregationHashChain *o) { if (o == &g_d_aggr) g_d.aggr_refs--; }
int KSI_TLV_new(KSI_CTX *ctx, unsigned tag, int isLenient, int isForward, KSI_TLV **tlv) {
	KSI_TLV *t; int r = c11d_status();
	g_d.tlv_new_calls++; g_d.tlv_new_tag = tag; g_d.tlv_flags_ok = (isLenient == 0 && isForward == 0 && ctx == &g_d_ctx);
	if (r != KSI_OK) return r;
	t = malloc(sizeof(*t)); if (t == NULL) return KSI_OUT_OF_MEMORY;
	t->tag = tag; g_d.tlv_live++; g_d.new_tlv = t; *tlv = t; return KSI_OK;
}
void KSI_TLV_free(KSI_TLV *t) { if (t != NULL) { g_d.tlv_live--; free(t); } }
int KSI_TlvTemplate_construct(KSI_CTX *ctx, KSI_TLV *tlv, const void *payload, const KSI_TlvTemplate *tmpl) {
	g_d.construct_calls++; g_d.construct_args_ok = (ctx == &g_d_ctx && tlv == g_d.new_tlv && tlv != NULL && payload == (const void *)&g_d_aggr); g_d.construct_tmpl = tmpl;
	/* the element is built from the UPDATED chain: time set, index prefixed, chain already in the signature's list */
	g_d.construct_state_ok = (g_d.settime_calls == 1 && g_d.settime_res == KSI_OK && g_dl.inserted == g_di.cur_len && g_d_aggr.chainIndex != NULL);
	g_d.construct_res = c11d_status();
	return g_d.construct_res;
}
int KSI_TLV_appendNestedTlv(KSI_TLV *target, KSI_TLV *tlv) {
	g_d.tlvappend_calls++; g_d.tlvappend_args_ok = (target == &g_d_base && tlv == g_d.new_tlv && tlv != NULL && g_d.construct_calls == 1 && g_d.construct_res == KSI_OK);
	g_d.tlvappend_res = c11d_status();
	if (g_d.tlvappend_res == KSI_OK && tlv != NULL) { g_d.tlv_live--; free(tlv); }          /* ownership moves into the parent */
	return g_d.tlvappend_res;
}
static void c11d_init(void) {
	memset(&g_d, 0, sizeof(g_d)); memset(&g_dl, 0, sizeof(g_dl));
	memset(&g_d_aggr_idx, 0, sizeof(g_d_aggr_idx)); memset(&g_d_new_idx, 0, sizeof(g_d_new_idx)); memset(&g_d_cur_idx, 0, sizeof(g_d_cur_idx));
	memset(&g_d_linklist, 0, sizeof(g_d_linklist)); memset(&g_d_chainlist, 0, sizeof(g_d_chainlist));
	g_d_linklist.length = c11d_link_length;
	g_d_chainlist.length = c11d_chain_length; g_d_chainlist.elementAt = c11d_chain_elementAt; g_d_chainlist.insertAt = c11d_chain_insertAt;
	g_d_cur_idx.length = c11d_int_length; g_d_cur_idx.elementAt = c11d_int_elementAt;
	g_d_aggr_idx.insertAt = c11d_int_insertAt; g_d_new_idx.insertAt = c11d_int_insertAt; g_d_new_idx.append = c11d_int_append;
	g_d_aggr_idx.length = c11d_int_length; g_d_new_idx.length = c11d_int_length;
}
#endif
