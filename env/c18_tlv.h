/* Environment of publicationsfile.c's record generator (C18): KSI_TLV is opaque to publicationsfile.c; it only uses
 * KSI_TLV_parseBlob2, KSI_TLV_free and KSI_TLV_getTag.  ASSUMED (abstraction of the contract that job C09.parseBlob2
 * enforces on the real tlv.c): parseBlob2(data, n, ownMemory = 1) either fails leaving *tlv and the buffer alone, or
 * succeeds only if [data, data+n) is exactly one element, returns a NEW object whose tag / flags are the decoded ones
 * and which now owns the buffer.  KSI_TLV_free releases the object and the buffer it owns (recorded in ghost state:
 * the number of releases and the object released last). */
#ifndef ENV_C18_TLV_H
#define ENV_C18_TLV_H
#include "env/c10_tlv_value.h"
#include "spec/tlv.h"

unsigned g18_parse_calls, g18_free_calls;
KSI_TLV *g18_freed_last;
unsigned char *g18_parse_data; size_t g18_parse_len; int g18_parse_own; KSI_CTX *g18_parse_ctx;
unsigned char g18_parse_byte; size_t g18_w;          /* witness: octet g18_w of the buffer handed to the TLV parser */
unsigned char *g18_owned_buf;                         /* buffer owned by the TLV created last */
_Bool g18_parse_fail;                                 /* chosen by the harness: the TLV parser fails (out of memory ...) */

int KSI_TLV_parseBlob2(KSI_CTX *ctx, unsigned char *data, size_t data_length, int ownMemory, KSI_TLV **tlv) {
	KSI_TLV *t;
	g18_parse_calls++;
	g18_parse_data = data; g18_parse_len = data_length; g18_parse_own = ownMemory; g18_parse_ctx = ctx;
	if (data != NULL && g18_w < data_length) g18_parse_byte = data[g18_w];
	if (ctx == NULL || data == NULL || data_length < 2 || tlv == NULL) return KSI_INVALID_ARGUMENT;
	if (!spec_tlv_elem_complete(data, data_length) || spec_tlv_elem_size(data, data_length) != data_length) return KSI_INVALID_FORMAT;
	if (g18_parse_fail) return KSI_OUT_OF_MEMORY;
	t = malloc(sizeof(*t));
	if (t == NULL) return KSI_OUT_OF_MEMORY;
	t->ctx = ctx;
	t->tag = spec_tlv_dec_tag(data, data_length);
	t->isNonCritical = spec_tlv_dec_nc(data, data_length);
	t->isForwardable = spec_tlv_dec_fwd(data, data_length);
	t->datap = data + spec_tlv_dec_hdr_len(data, data_length);
	t->datap_len = spec_tlv_dec_dat_len(data, data_length);
	t->raw_res = KSI_OK;
	if (ownMemory) g18_owned_buf = data;
	*tlv = t;
	return KSI_OK;
}

void KSI_TLV_free(KSI_TLV *tlv) {
	if (tlv == NULL) return;
	g18_free_calls++;
	g18_freed_last = tlv;
}
#define ENV_C18_TLV_ASSUMED "KSI_TLV_parseBlob2 / KSI_TLV_free / KSI_TLV_getTag: model of env/c18_tlv.h (abstraction of the contract enforced by C09.parseBlob2: exactly one element, decoded tag, takes ownership of the buffer; free = recorded release)"
#endif
