/* builderM - C14 blocking TCP client (jobs C09.blocking_socketRead / C09.blocking_readResponse): assumed socket layer
 * for net_tcp.c:readResponse and an abstraction of KSI_IO_readSocket for fast_tlv.c:KSI_FTLV_socketRead.   [ASSUMED]
 *
 * KSI_IO_readSocket here is the PROJECTION of the contract contracts/io_readsocket.h that job C09.blocking_readSocket
 * enforces on the real body: it delivers n <= size octets, returns KSI_OK exactly when n == size, otherwise
 * KSI_NETWORK_ERROR (peer closed) / KSI_NETWORK_RECIEVE_TIMEOUT / KSI_IO_ERROR, and reports n.  On top of that it is the
 * ghost byte stream of the connection: it counts what was requested and delivered, asserts the TLV read protocol
 * (2 header octets, 2 more iff TLV16, then exactly the declared payload, nothing after a failure, never beyond the
 * caller's buffer) and fixes the stream CONTENT at the four header positions and at one arbitrary witness position. */
#ifndef ENV_M_GHOST_TCP_BLOCKING_H
#define ENV_M_GHOST_TCP_BLOCKING_H
#include <errno.h>
#include <sys/types.h>
#include <sys/socket.h>
#include <netdb.h>
#include "spec/tlv.h"

/* ---- the inbound stream ---- */
static int g_ts_fd;                         /* descriptor of the connection */
static unsigned char *g_ts_buf; static size_t g_ts_buf_len;    /* where the reader must store (set at the first call: the caller's buffer) */
static size_t g_ts_calls, g_ts_requested, g_ts_total; static _Bool g_ts_closed; static int g_ts_err;
static unsigned char g_ts_hdr[4];           /* the first four octets the server sends (arbitrary) */
static size_t g_ts_wk; static unsigned char g_ts_wb;   /* witness: octet number g_ts_wk of the stream has value g_ts_wb */
static size_t g_ts_expect_buf_len;          /* 0 = any; otherwise the buffer length the reader must have been given */

int KSI_IO_readSocket(int fd, void *buf, size_t size, size_t *readCount) {
	size_t n = nondet_size(); unsigned char *dst = (unsigned char *)buf; int res; size_t p;
	__CPROVER_assert(fd == g_ts_fd, "reader protocol: the connected descriptor is read");
	__CPROVER_assert(!g_ts_closed, "reader protocol: no read after EOF / time-out / error");
	__CPROVER_assert(readCount != NULL && size > 0 && buf != NULL, "reader protocol: count pointer given, non-empty request");
	if (g_ts_calls == 0) g_ts_buf = dst;
	__CPROVER_assert(dst == g_ts_buf + g_ts_requested, "reader protocol: octets are stored contiguously from the start of the buffer");
	__CPROVER_assert(size <= g_ts_buf_len - g_ts_requested, "reader protocol: never asks for more than the buffer holds");
	if (g_ts_calls == 0) {
		__CPROVER_assert(size == 2, "reader protocol: first request is the 2 octets every header has");
	} else if (g_ts_calls == 1 && spec_tlv_hdr_need(g_ts_hdr[0]) == 4) {
		__CPROVER_assert(size == 2, "reader protocol: TLV16 - second request is the rest of the header");
	} else {
		__CPROVER_assert(g_ts_calls == (spec_tlv_hdr_need(g_ts_hdr[0]) == 4 ? 2 : 1), "reader protocol: at most one payload request");
		__CPROVER_assert(size == spec_tlv_dec_dat_len(g_ts_hdr, 4), "reader protocol: payload request is exactly the declared length");
	}
	if (n >= size) { n = size; res = KSI_OK; }
	else { int w = nondet_int(); res = (w == 0) ? KSI_NETWORK_ERROR : (w == 1) ? KSI_NETWORK_RECIEVE_TIMEOUT : KSI_IO_ERROR; g_ts_closed = 1; g_ts_err = res; }
	/* content of the octets that arrive: stream positions [g_ts_requested, g_ts_requested + n) */
	for (p = 0; p < 4; p++) if (p >= g_ts_requested && p < g_ts_requested + n) g_ts_buf[p] = g_ts_hdr[p];
#ifndef NO_WITNESS
	if (g_ts_wk >= 4 && g_ts_wk >= g_ts_requested && g_ts_wk < g_ts_requested + n) g_ts_buf[g_ts_wk] = g_ts_wb;
#endif
	*readCount = n; g_ts_calls++; g_ts_requested += size; g_ts_total += n;
	return res;
}

/* ---- resolver / socket / connect / send / close ---- */
static struct addrinfo g_ai[2]; static struct sockaddr g_sa; static int g_ai_n;     /* getaddrinfo answer: 0..2 entries */
static _Bool g_gai_ok; static unsigned g_ai_freed, g_sock_made, g_sock_closed, g_sock_open; static int g_eintr_left;
static const unsigned char *g_req; static size_t g_req_len, g_sent; static _Bool g_send_failed, g_connect_failed, g_connected, g_close_failed, g_socket_failed, g_order_bad;
static const char *g_host;
static int g_errno_cell; int *__errno_location(void) { return &g_errno_cell; }

/* -1 with errno: EINTR at most g_eintr_left more times (bound, see job), else a hard error */
static _Bool tcp_env_interrupted(void) { if (g_eintr_left > 0 && nondet_bool()) { g_eintr_left--; g_errno_cell = EINTR; return 1; } return 0; }
static void tcp_env_hard_errno(void) { g_errno_cell = nondet_int(); __CPROVER_assume(g_errno_cell != EINTR); }

int getaddrinfo(const char *node, const char *service, const struct addrinfo *hints, struct addrinfo **res) {
	int i;
	__CPROVER_assert(node == g_host && service != NULL && res != NULL, "resolver: host of the request, port string");
	if (nondet_bool()) { int e = nondet_int(); __CPROVER_assume(e != 0); return e; }
	g_gai_ok = 1;
	for (i = 0; i < 2; i++) { g_ai[i].ai_family = nondet_int(); g_ai[i].ai_socktype = nondet_int(); g_ai[i].ai_protocol = nondet_bool() ? IPPROTO_TCP : nondet_int(); g_ai[i].ai_addr = &g_sa; g_ai[i].ai_addrlen = sizeof(g_sa); g_ai[i].ai_next = (i + 1 < g_ai_n) ? &g_ai[i + 1] : NULL; }
	*res = g_ai_n > 0 ? &g_ai[0] : NULL;
	return 0;
}
void freeaddrinfo(struct addrinfo *res) { __CPROVER_assert(res == &g_ai[0] && g_gai_ok, "freeaddrinfo: the list the resolver returned"); g_ai_freed++; }
const char *gai_strerror(int e) { return "gai"; }
int socket(int domain, int type, int protocol) {
	__CPROVER_assert(protocol == IPPROTO_TCP, "socket: TCP only");
	__CPROVER_assert(g_sock_open == 0, "socket: no second socket while one is open");
	if (nondet_bool()) { g_socket_failed = 1; return -1; }
	g_sock_made++; g_sock_open++; return g_ts_fd;
}
int setsockopt(int fd, int level, int optname, const void *optval, socklen_t optlen) { __CPROVER_assert(fd == g_ts_fd && optval != NULL, "setsockopt: on the new socket"); return nondet_int(); }
int connect(int fd, const struct sockaddr *addr, socklen_t len) {
	__CPROVER_assert(fd == g_ts_fd && g_sock_open == 1 && !g_connected, "connect: the open socket, once");
	if (tcp_env_interrupted()) return -1;
	if (nondet_bool()) { g_connect_failed = 1; tcp_env_hard_errno(); return -1; }
	g_connected = 1; return 0;
}
ssize_t send(int fd, const void *buf, size_t n, int flags) {
	ssize_t c;
	__CPROVER_assert(fd == g_ts_fd && g_connected && g_sock_open == 1, "send: on the connected socket");
	__CPROVER_assert(!g_send_failed, "send: not after a failed send");
	if (g_ts_calls != 0) g_order_bad = 1;
	__CPROVER_assert((const unsigned char *)buf == g_req + g_sent && n == g_req_len - g_sent && n > 0, "send: exactly the not yet written rest of the request, in order");
	if (tcp_env_interrupted()) return -1;
	if (nondet_bool()) { g_send_failed = 1; tcp_env_hard_errno(); return -1; }
	c = (ssize_t)nondet_ll(); __CPROVER_assume(c >= 1 && (size_t)c <= n);      /* partial send */
	g_sent += (size_t)c; return c;
}
int close(int fd) {
	__CPROVER_assert(fd == g_ts_fd && g_sock_open == 1, "close: the open socket");
	if (tcp_env_interrupted()) return -1;
	g_sock_open--; g_sock_closed++;
	if (nondet_bool()) { g_close_failed = 1; tcp_env_hard_errno(); return -1; }
	return 0;
}
#endif
