/* C04 environment: a concrete "world" (verification context, signature, anchors, extender reply, publications
 * file handles) with nondeterministic contents, and the ASSUMED stubs for everything verification_rule.c calls
 * outside the real files included by the harness (types_base.c, hashchain.c getters, publicationsfile.c getters,
 * types.c getters, signature.c KSI_Signature_getSigningTime).
 *
 * Hash objects are identities: elements of g_c04_h[]; KSI_DataHash_equals is an arbitrary equivalence relation on
 * them (class vector g_c04_hcls chosen by the harness), NULL equals nothing (hash.h documentation).
 * Owned hash objects (results of KSI_CalendarHashChain_aggregate) carry a ghost reference count.
 * Every stub records how it was called; the contracts state what the rules did with the anchors. */
#ifndef ENV_GHOST_C04_WORLD_H
#define ENV_GHOST_C04_WORLD_H
#include "spec/c04_codes.h"

/* ------------------------------------------------------------------ hash identities */
enum { C04_H_USR_PUB, C04_H_SIG_PUB, C04_H_FILE_PUB, C04_H_SIG_ROOT, C04_H_EXT_ROOT, C04_H_EXT_IN, C04_H_AGGR_OUT,
       C04_H_SIG_IN, C04_H_CAR_PUB, C04_H_LINK_A, C04_H_LINK_B, C04_NH };
struct KSI_DataHash_st g_c04_h[C04_NH];
unsigned char g_c04_hcls[C04_NH];            /* equality class of each identity (arbitrary) */
int g_c04_href[C04_NH];                      /* ghost reference count of the OWNED objects (SIG_ROOT, EXT_ROOT) */
unsigned g_c04_eq_calls;
#define C04_H(i) (&g_c04_h[(i)])

#ifdef C04_RIGHTLINKS
static void c04_rl_on_compare(const KSI_DataHash *left, const KSI_DataHash *right, int verdict);
#endif
static _Bool c04_heq(const KSI_DataHash *a, const KSI_DataHash *b) {
	return a != NULL && b != NULL && (a == b || g_c04_hcls[a - g_c04_h] == g_c04_hcls[b - g_c04_h]);
}
int KSI_DataHash_equals(const KSI_DataHash *left, const KSI_DataHash *right) {
	__CPROVER_assert(left == NULL || __CPROVER_same_object(left, g_c04_h), "hash compare: left is a hash object of this world");
	__CPROVER_assert(right == NULL || __CPROVER_same_object(right, g_c04_h), "hash compare: right is a hash object of this world");
	g_c04_eq_calls++;
#ifdef C04_RIGHTLINKS
	c04_rl_on_compare(left, right, c04_heq(left, right));
#endif
	return c04_heq(left, right);
}
void KSI_DataHash_free(KSI_DataHash *h) {
	if (h == NULL) return;
	__CPROVER_assert(h == C04_H(C04_H_SIG_ROOT) || h == C04_H(C04_H_EXT_ROOT), "free: only a hash object this rule owns (no free of a borrowed hash)");
	__CPROVER_assert(g_c04_href[h - g_c04_h] > 0, "free of a dead hash object (double free)");
	g_c04_href[h - g_c04_h]--;
}

/* ------------------------------------------------------------------ integers */
enum { C04_I_SIGCAL_AGGR, C04_I_SIGCAL_PUB, C04_I_EXTCAL_AGGR, C04_I_EXTCAL_PUB, C04_I_AGGR0, C04_I_USR_PUB,
       C04_I_SIG_PUB, C04_I_FILE_PUB, C04_I_CAR_PUB, C04_NI };
struct KSI_Integer_st g_c04_i[C04_NI];
#define C04_I(k) (&g_c04_i[(k)])

/* ------------------------------------------------------------------ world objects */
struct KSI_CTX_st g_c04_ctx;
struct KSI_VerificationContext_st g_c04_info;
struct KSI_Signature_st g_c04_sig;
VerificationTempData g_c04_td;
struct KSI_CalendarHashChain_st g_c04_sigCal, g_c04_extCal;
struct KSI_AggregationHashChain_st g_c04_aggr0;
struct KSI_AggregationHashChain_list_st g_c04_aggrList;
struct KSI_HashChainLink_list_st g_c04_sigLinks, g_c04_extLinks;
struct KSI_CalendarAuthRec_st g_c04_car;
struct KSI_PKISignedData_st g_c04_psd;
struct KSI_OctetString_st g_c04_certId, g_c04_sigValue;
struct KSI_Utf8String_st g_c04_sigType;
unsigned char g_c04_sigValueBytes[2];
char g_c04_sigTypeChars[2];
struct KSI_PublicationData_st g_c04_carPub, g_c04_sigPubData, g_c04_usrPub, g_c04_filePubData;
struct KSI_PublicationRecord_st g_c04_sigRec, g_c04_fileRec;
struct KSI_PublicationsFile_st g_c04_pfUser, g_c04_pfNet;
char g_c04_cert_obj, g_c04_tlv_obj;
#define C04_CERT ((KSI_PKICertificate *)&g_c04_cert_obj)
#define C04_TLV  ((KSI_TLV *)&g_c04_tlv_obj)

/* ------------------------------------------------------------------ aggregation chain list (only element 0 is used by the rules) */
int g_c04_al_res; _Bool g_c04_al_null; unsigned g_c04_al_calls;
static int c04_aggrList_elementAt(KSI_LIST(KSI_AggregationHashChain) *l, size_t pos, KSI_AggregationHashChain **o) {
	__CPROVER_assert(l == &g_c04_aggrList && pos == 0, "the rules read the FIRST aggregation hash chain of the signature");
	g_c04_al_calls++;
	if (g_c04_al_res != KSI_OK) return g_c04_al_res;
	*o = g_c04_al_null ? NULL : &g_c04_aggr0;
	return KSI_OK;
}
static size_t c04_aggrList_length(KSI_LIST(KSI_AggregationHashChain) *l) { return g_c04_al_null ? 0 : 1; }

/* KSI_AggregationHashChainList_aggregate (hashchain.c, C03): ASSUMED - yields the aggregation root identity or fails leaving
 * *outputHash untouched. */
int g_c04_aggrOut_res; unsigned g_c04_aggrOut_calls;
int KSI_AggregationHashChainList_aggregate(KSI_AggregationHashChainList *chainList, KSI_CTX *ctx, int level, KSI_DataHash **outputHash) {
	g_c04_aggrOut_calls++;
	__CPROVER_assert(chainList == g_c04_sig.aggregationChainList && outputHash == &g_c04_td.aggregationOutputHash,
			"aggregation root: computed from the signature's own aggregation chains into tempData");
	__CPROVER_assert(level == (int)g_c04_info.docAggrLevel, "aggregation root: computed for the caller's document level");
	if (chainList == NULL || ctx == NULL || !KSI_IS_VALID_TREE_LEVEL(level) || outputHash == NULL) return KSI_INVALID_ARGUMENT;
	if (g_c04_aggrOut_res != KSI_OK) return g_c04_aggrOut_res;
	*outputHash = C04_H(C04_H_AGGR_OUT);
	return KSI_OK;
}

/* KSI_CalendarHashChain_aggregate (hashchain.c, C03): ASSUMED - root identity of the given chain as a NEW reference, or failure. */
int g_c04_root_res_sig, g_c04_root_res_ext; unsigned g_c04_root_calls;
int KSI_CalendarHashChain_aggregate(KSI_CalendarHashChain *chain, KSI_DataHash **hsh) {
	int k;
	g_c04_root_calls++;
	if (chain == NULL || hsh == NULL) return KSI_INVALID_ARGUMENT;
	__CPROVER_assert(chain == &g_c04_sigCal || chain == &g_c04_extCal, "calendar root: of the signature's or the extender's chain");
	if (chain == &g_c04_sigCal) { if (g_c04_root_res_sig != KSI_OK) return g_c04_root_res_sig; k = C04_H_SIG_ROOT; }
	else { if (g_c04_root_res_ext != KSI_OK) return g_c04_root_res_ext; k = C04_H_EXT_ROOT; }
	__CPROVER_assert(g_c04_href[k] == 0, "calendar root computed once per rule");
	g_c04_href[k] = 1;
	*hsh = C04_H(k);
	return KSI_OK;
}

/* ------------------------------------------------------------------ publications file handles */
/* ghost reference counts: 1 for the owner (user / context cache) + 1 if tempData holds it */
int g_c04_pf_ref_user, g_c04_pf_ref_net;
int g_c04_recv_res, g_c04_verify_res; unsigned g_c04_recv_calls, g_c04_verify_calls; _Bool g_c04_pf_verified;
KSI_PublicationsFile *KSI_PublicationsFile_ref(KSI_PublicationsFile *o) {
	if (o == NULL) return NULL;
	__CPROVER_assert(o == &g_c04_pfUser || o == &g_c04_pfNet, "ref: a publications file of this world");
	if (o == &g_c04_pfUser) { __CPROVER_assert(g_c04_pf_ref_user > 0 && g_c04_pf_ref_user < 100, "ref of a live publications file"); g_c04_pf_ref_user++; }
	else { __CPROVER_assert(g_c04_pf_ref_net > 0 && g_c04_pf_ref_net < 100, "ref of a live publications file"); g_c04_pf_ref_net++; }
	return o;
}
void KSI_PublicationsFile_free(KSI_PublicationsFile *o) {
	if (o == NULL) return;
	__CPROVER_assert(o == &g_c04_pfUser || o == &g_c04_pfNet, "free: a publications file of this world");
	if (o == &g_c04_pfUser) { __CPROVER_assert(g_c04_pf_ref_user > 0, "free of a dead publications file"); g_c04_pf_ref_user--; }
	else { __CPROVER_assert(g_c04_pf_ref_net > 0, "free of a dead publications file"); g_c04_pf_ref_net--; }
}
/* KSI_receivePublicationsFile (base.c): ASSUMED - a new reference to the context's (downloaded) file or an error. */
int KSI_receivePublicationsFile(KSI_CTX *ctx, KSI_PublicationsFile **pubFile) {
	g_c04_recv_calls++;
	if (ctx == NULL || pubFile == NULL) return KSI_INVALID_ARGUMENT;
	if (g_c04_recv_res != KSI_OK) return g_c04_recv_res;
	__CPROVER_assert(g_c04_pf_ref_net > 0 && g_c04_pf_ref_net < 100, "receive: context cache live");
	g_c04_pf_ref_net++;
	*pubFile = &g_c04_pfNet;
	return KSI_OK;
}
/* KSI_verifyPublicationsFile (base.c -> publicationsfile.c, C18): ASSUMED - arbitrary verdict, recorded. */
int KSI_verifyPublicationsFile(KSI_CTX *ctx, const KSI_PublicationsFile *pubFile) {
	g_c04_verify_calls++;
	if (ctx == NULL || pubFile == NULL) return KSI_INVALID_ARGUMENT;
	if (g_c04_verify_res != KSI_OK) return g_c04_verify_res;
	if (pubFile == &g_c04_pfNet) g_c04_pf_verified = 1;
	return KSI_OK;
}
/* the publications file a rule may trust: the user's, else the downloaded one after a successful PKI verification */
static _Bool c04_pf_available(const KSI_VerificationContext *info) {
	return info->userPublicationsFile != NULL || (g_c04_recv_res == KSI_OK && g_c04_verify_res == KSI_OK);
}
static _Bool c04_pf_is_trusted(const KSI_VerificationContext *info, const KSI_PublicationsFile *pf) {
	return pf != NULL && (info->userPublicationsFile != NULL ? pf == info->userPublicationsFile : (pf == &g_c04_pfNet && g_c04_pf_verified));
}
/* error status of the failed fetch/verification (valid when !c04_pf_available) */
static int c04_pf_error(void) { return g_c04_recv_res != KSI_OK ? g_c04_recv_res : g_c04_verify_res; }

/* ------------------------------------------------------------------ publications file look-ups (publicationsfile.c, C18): ASSUMED */
enum { C04_LK_NONE, C04_LK_NEAREST, C04_LK_BYTIME, C04_LK_FIND, C04_LK_CERT };
int g_c04_lk_kind; unsigned g_c04_lk_calls; const KSI_PublicationsFile *g_c04_lk_pf; const void *g_c04_lk_key;
int g_c04_lk_res; _Bool g_c04_lk_found;
int g_c04_rec_live;                           /* records handed out and not yet released */
static int c04_lookup(int kind, const KSI_PublicationsFile *pf, const void *key, void **out) {
	g_c04_lk_calls++; g_c04_lk_kind = kind; g_c04_lk_pf = pf; g_c04_lk_key = key;
	if (pf == NULL || key == NULL || out == NULL) return KSI_INVALID_ARGUMENT;
	if (g_c04_lk_res != KSI_OK) return g_c04_lk_res;
	if (!g_c04_lk_found) { *out = NULL; return KSI_OK; }
	if (kind == C04_LK_CERT) *out = C04_CERT;
	else { __CPROVER_assert(g_c04_rec_live == 0, "one record at a time"); g_c04_rec_live++; *out = &g_c04_fileRec; }
	return KSI_OK;
}
int KSI_PublicationsFile_getNearestPublication(const KSI_PublicationsFile *pubFile, const KSI_Integer *pubTime, KSI_PublicationRecord **pubRec) {
	return c04_lookup(C04_LK_NEAREST, pubFile, pubTime, (void **)pubRec);
}
int KSI_PublicationsFile_findPublicationByTime(const KSI_PublicationsFile *pubFile, const KSI_Integer *pubTime, KSI_PublicationRecord **pubRec) {
	return c04_lookup(C04_LK_BYTIME, pubFile, pubTime, (void **)pubRec);
}
int KSI_PublicationsFile_findPublication(const KSI_PublicationsFile *pubFile, const KSI_PublicationRecord *inRec, KSI_PublicationRecord **outRec) {
	return c04_lookup(C04_LK_FIND, pubFile, inRec, (void **)outRec);
}
int KSI_PublicationsFile_getPKICertificateById(const KSI_PublicationsFile *pubFile, const KSI_OctetString *id, KSI_PKICertificate **cert) {
	return c04_lookup(C04_LK_CERT, pubFile, id, (void **)cert);
}
void KSI_PublicationRecord_free(KSI_PublicationRecord *t) {
	if (t == NULL) return;
	__CPROVER_assert(t == &g_c04_fileRec, "free: only the record handed out by the look-up (the signature's record is not released)");
	__CPROVER_assert(g_c04_rec_live > 0, "free of a dead publication record (double free)");
	g_c04_rec_live--;
}

/* ------------------------------------------------------------------ PKI (pkitruststore_openssl.c / OpenSSL): ASSUMED */
int g_c04_nb_res, g_c04_na_res; KSI_uint64_t g_c04_notBefore, g_c04_notAfter;
int KSI_PKICertificate_getValidityNotBefore(const KSI_PKICertificate *cert, KSI_uint64_t *time) {
	if (cert == NULL || time == NULL) return KSI_INVALID_ARGUMENT;
	__CPROVER_assert(cert == C04_CERT, "validity: of the certificate found in the publications file");
	if (g_c04_nb_res != KSI_OK) return g_c04_nb_res;
	*time = g_c04_notBefore; return KSI_OK;
}
int KSI_PKICertificate_getValidityNotAfter(const KSI_PKICertificate *cert, KSI_uint64_t *time) {
	if (cert == NULL || time == NULL) return KSI_INVALID_ARGUMENT;
	__CPROVER_assert(cert == C04_CERT, "validity: of the certificate found in the publications file");
	if (g_c04_na_res != KSI_OK) return g_c04_na_res;
	*time = g_c04_notAfter; return KSI_OK;
}
int g_c04_ser_res; unsigned char *g_c04_ser_buf; size_t g_c04_ser_len; const KSI_TLV *g_c04_ser_tlv;
int KSI_TLV_serialize(const KSI_TLV *tlv, unsigned char **outBuf, size_t *outBuf_len) {
	unsigned char *b;
	if (tlv == NULL || outBuf == NULL || outBuf_len == NULL) return KSI_INVALID_ARGUMENT;
	g_c04_ser_tlv = tlv;
	if (g_c04_ser_res != KSI_OK) return g_c04_ser_res;
	b = malloc(3);
	if (b == NULL) return KSI_OUT_OF_MEMORY;
	g_c04_ser_buf = b; g_c04_ser_len = 3;
	*outBuf = b; *outBuf_len = 3;
	return KSI_OK;
}
int g_c04_pki_res; unsigned g_c04_pki_calls; _Bool g_c04_pki_args_ok;
int KSI_PKITruststore_verifyRawSignature(KSI_CTX *ctx, const unsigned char *data, size_t data_len, const char *algoOid,
		const unsigned char *signature, size_t signature_len, const KSI_PKICertificate *cert) {
	g_c04_pki_calls++;
	g_c04_pki_args_ok = (ctx == &g_c04_ctx && data != NULL && data == g_c04_ser_buf && data_len == g_c04_ser_len && g_c04_ser_tlv == g_c04_carPub.baseTlv
			&& algoOid == (g_c04_psd.sig_type != NULL ? g_c04_psd.sig_type->value : NULL) && signature == g_c04_sigValue.data && signature_len == g_c04_sigValue.data_len && cert == C04_CERT);
	return g_c04_pki_res;
}

/* ------------------------------------------------------------------ base.c error helpers used by HANDLE_RESOURCE_FAILURE: ASSUMED */
char g_c04_errmsg[2]; int g_c04_ext;
int KSI_ERR_getBaseErrorMessage(KSI_CTX *ctx, char *buf, size_t len, int *error, int *ext) {
	if (buf != NULL && len > 0) buf[0] = 0;
	if (ext != NULL) *ext = g_c04_ext;
	return KSI_OK;
}
int KSI_strdup(const char *from, char **to) {
	if (from == NULL || to == NULL) return KSI_INVALID_ARGUMENT;
	if (nondet_bool()) return KSI_OUT_OF_MEMORY;
	*to = g_c04_errmsg;
	return KSI_OK;
}

/* ------------------------------------------------------------------ building the world */
static KSI_Integer *c04_opt_int(int k) { g_c04_i[k].value = nondet_ull(); g_c04_i[k].ref = 1; return nondet_bool() ? C04_I(k) : NULL; }
static KSI_DataHash *c04_opt_hash(int k) { return nondet_bool() ? C04_H(k) : NULL; }
static int c04_any_status(void) { int r = nondet_int(); return r; }

static void c04_world_build(void) {
	int k;
#define C04_INIT_H(k_) g_c04_hcls[k_] = nondet_uchar(); g_c04_href[k_] = 0;
	C04_INIT_H(0) C04_INIT_H(1) C04_INIT_H(2) C04_INIT_H(3) C04_INIT_H(4) C04_INIT_H(5) C04_INIT_H(6) C04_INIT_H(7) C04_INIT_H(8) C04_INIT_H(9) C04_INIT_H(10)
	g_c04_eq_calls = 0;

	/* context */
	g_c04_info.ctx = nondet_bool() ? &g_c04_ctx : NULL;
	g_c04_info.signature = nondet_bool() ? &g_c04_sig : NULL;
	g_c04_info.extendingAllowed = nondet_int();
	g_c04_info.docAggrLevel = nondet_ull();
	g_c04_info.documentHash = NULL;
	g_c04_info.userPublication = nondet_bool() ? &g_c04_usrPub : NULL;
	g_c04_info.userPublicationsFile = nondet_bool() ? &g_c04_pfUser : NULL;
	g_c04_info.tempData = nondet_bool() ? &g_c04_td : NULL;

	/* user publication: any field may be missing (KSI_PublicationData_new + setters) */
	g_c04_usrPub.ctx = &g_c04_ctx; g_c04_usrPub.ref = 1; g_c04_usrPub.baseTlv = NULL;
	g_c04_usrPub.time = c04_opt_int(C04_I_USR_PUB);
	g_c04_usrPub.imprint = c04_opt_hash(C04_H_USR_PUB);

	/* signature */
	g_c04_sig.baseTlv = NULL; g_c04_sig.rfc3161 = NULL; g_c04_sig.aggregationAuthRec = NULL; g_c04_sig.policyVerificationResult = NULL;
	g_c04_sig.ctx = &g_c04_ctx; g_c04_sig.ref = 1;
	g_c04_sig.calendarChain = nondet_bool() ? &g_c04_sigCal : NULL;
	g_c04_sig.aggregationChainList = nondet_bool() ? &g_c04_aggrList : NULL;
	g_c04_sig.calendarAuthRec = nondet_bool() ? &g_c04_car : NULL;
	g_c04_sig.publication = nondet_bool() ? &g_c04_sigRec : NULL;

	g_c04_aggrList.elementAt = c04_aggrList_elementAt; g_c04_aggrList.length = c04_aggrList_length;
	g_c04_al_res = c04_any_status(); g_c04_al_null = nondet_bool(); g_c04_al_calls = 0;
	g_c04_aggr0.ctx = &g_c04_ctx; g_c04_aggr0.ref = 1;
	g_c04_aggr0.aggregationTime = c04_opt_int(C04_I_AGGR0);

	g_c04_sigCal.ctx = &g_c04_ctx; g_c04_sigCal.ref = 1; g_c04_sigCal.outputHash = NULL;
	g_c04_sigCal.publicationTime = c04_opt_int(C04_I_SIGCAL_PUB);
	g_c04_sigCal.aggregationTime = c04_opt_int(C04_I_SIGCAL_AGGR);
	g_c04_sigCal.inputHash = c04_opt_hash(C04_H_SIG_IN);
	g_c04_sigCal.hashChain = nondet_bool() ? &g_c04_sigLinks : NULL;
	g_c04_extCal.ctx = &g_c04_ctx; g_c04_extCal.ref = 1; g_c04_extCal.outputHash = NULL;
	g_c04_extCal.publicationTime = c04_opt_int(C04_I_EXTCAL_PUB);
	g_c04_extCal.aggregationTime = c04_opt_int(C04_I_EXTCAL_AGGR);
	g_c04_extCal.inputHash = c04_opt_hash(C04_H_EXT_IN);
	g_c04_extCal.hashChain = nondet_bool() ? &g_c04_extLinks : NULL;

	g_c04_sigRec.ctx = &g_c04_ctx; g_c04_sigRec.ref = 1; g_c04_sigRec.publicationRef = NULL; g_c04_sigRec.repositoryUriList = NULL;
	g_c04_sigRec.publishedData = nondet_bool() ? &g_c04_sigPubData : NULL;
	g_c04_sigPubData.ctx = &g_c04_ctx; g_c04_sigPubData.ref = 1; g_c04_sigPubData.baseTlv = NULL;
	g_c04_sigPubData.time = c04_opt_int(C04_I_SIG_PUB);
	g_c04_sigPubData.imprint = c04_opt_hash(C04_H_SIG_PUB);

	g_c04_fileRec.ctx = &g_c04_ctx; g_c04_fileRec.ref = 1; g_c04_fileRec.publicationRef = NULL; g_c04_fileRec.repositoryUriList = NULL;
	g_c04_fileRec.publishedData = nondet_bool() ? &g_c04_filePubData : NULL;
	g_c04_filePubData.ctx = &g_c04_ctx; g_c04_filePubData.ref = 1; g_c04_filePubData.baseTlv = NULL;
	g_c04_filePubData.time = c04_opt_int(C04_I_FILE_PUB);
	g_c04_filePubData.imprint = c04_opt_hash(C04_H_FILE_PUB);

	g_c04_car.ctx = &g_c04_ctx; g_c04_car.ref = 1;
	g_c04_car.pubData = nondet_bool() ? &g_c04_carPub : NULL;
	g_c04_car.signatureData = nondet_bool() ? &g_c04_psd : NULL;
	g_c04_carPub.ctx = &g_c04_ctx; g_c04_carPub.ref = 1;
	g_c04_carPub.time = c04_opt_int(C04_I_CAR_PUB);
	g_c04_carPub.imprint = c04_opt_hash(C04_H_CAR_PUB);
	g_c04_carPub.baseTlv = nondet_bool() ? C04_TLV : NULL;
	g_c04_psd.ctx = &g_c04_ctx; g_c04_psd.certRepositoryUri = NULL;
	g_c04_psd.certId = nondet_bool() ? &g_c04_certId : NULL;
	g_c04_psd.signatureValue = nondet_bool() ? &g_c04_sigValue : NULL;
	g_c04_psd.sig_type = nondet_bool() ? &g_c04_sigType : NULL;
	g_c04_certId.ctx = &g_c04_ctx; g_c04_certId.ref = 1; g_c04_certId.data = NULL; g_c04_certId.data_len = 0;
	g_c04_sigValue.ctx = &g_c04_ctx; g_c04_sigValue.ref = 1; g_c04_sigValue.data = g_c04_sigValueBytes; g_c04_sigValue.data_len = 2;
	g_c04_sigType.ctx = &g_c04_ctx; g_c04_sigType.ref = 1; g_c04_sigTypeChars[0] = 'x'; g_c04_sigTypeChars[1] = 0;
	g_c04_sigType.value = g_c04_sigTypeChars; g_c04_sigType.len = 2;

	/* tempData as left by earlier rules of the same verification */
	g_c04_td.calendarChain = nondet_bool() ? &g_c04_extCal : NULL;
	g_c04_td.aggregationOutputHash = nondet_bool() ? C04_H(C04_H_AGGR_OUT) : NULL;
	k = nondet_int();
	g_c04_td.publicationsFile = k == 0 ? NULL : (k == 1 ? &g_c04_pfUser : &g_c04_pfNet);
	g_c04_pf_ref_user = 1 + (g_c04_td.publicationsFile == &g_c04_pfUser);
	g_c04_pf_ref_net = 1 + (g_c04_td.publicationsFile == &g_c04_pfNet);
	g_c04_recv_res = c04_any_status(); g_c04_verify_res = c04_any_status();
	g_c04_recv_calls = 0; g_c04_verify_calls = 0; g_c04_pf_verified = 0;

	g_c04_lk_kind = C04_LK_NONE; g_c04_lk_calls = 0; g_c04_lk_pf = NULL; g_c04_lk_key = NULL;
	g_c04_lk_res = c04_any_status(); g_c04_lk_found = nondet_bool(); g_c04_rec_live = 0;

	g_c04_aggrOut_res = c04_any_status(); g_c04_aggrOut_calls = 0;
	g_c04_root_res_sig = c04_any_status(); g_c04_root_res_ext = c04_any_status(); g_c04_root_calls = 0;

	g_c04_nb_res = c04_any_status(); g_c04_na_res = c04_any_status();
	g_c04_notBefore = nondet_ull(); g_c04_notAfter = nondet_ull();
	g_c04_ser_res = c04_any_status(); g_c04_ser_buf = NULL; g_c04_ser_len = 0; g_c04_ser_tlv = NULL;
	g_c04_pki_res = c04_any_status(); g_c04_pki_calls = 0; g_c04_pki_args_ok = 0;
	g_c04_ext = nondet_int();
}

/* Mandatory elements of parsed objects (TLV templates of tlv_template.c: calendar chain 0x01 pub_time, aggregation chain 0x02
 * aggr_time carry KSI_TLV_TMPL_FLG_MANDATORY; the tables are checked by C10).  KSI_Integer_compare treats two missing values
 * as equal, so the time rules are only meaningful for objects that have them. */
static _Bool c04_wf_times(void) {
	return g_c04_sigCal.publicationTime != NULL && g_c04_extCal.publicationTime != NULL && g_c04_aggr0.aggregationTime != NULL;
}
/* calendar chain 0x05 input_hash, publication data 0x02 pub_time / 0x04 imprint and publication record 0x10 pub_data are mandatory too: KSI_DataHash_equals treats a missing
 * operand as "different", which would turn a malformed object into a contradiction */
static _Bool c04_wf_hashes(void) {
	return g_c04_extCal.inputHash != NULL && g_c04_filePubData.imprint != NULL && g_c04_filePubData.time != NULL && g_c04_fileRec.publishedData != NULL;
}

/* no leak, no dangling handle: checked in every rule's postcondition */
static _Bool c04_resources_balanced(void) {
	return g_c04_href[C04_H_SIG_ROOT] == 0 && g_c04_href[C04_H_EXT_ROOT] == 0 && g_c04_rec_live == 0
		&& g_c04_pf_ref_user == 1 + (g_c04_td.publicationsFile == &g_c04_pfUser)
		&& g_c04_pf_ref_net == 1 + (g_c04_td.publicationsFile == &g_c04_pfNet);
}

#define ENV_C04_ASSUMED \
	"KSI_DataHash_equals: arbitrary equivalence relation on hash identities, NULL equals nothing (hash.h); KSI_DataHash_free: ghost reference count (env/ghost_c04_world.h)", \
	"KSI_CalendarHashChain_aggregate, KSI_AggregationHashChainList_aggregate (hashchain.c, C03): return the root identity of the given chain (new reference) or an arbitrary error", \
	"KSI_receivePublicationsFile (download + cache, base.c), KSI_verifyPublicationsFile (PKI verification, C18): arbitrary outcome, recorded; KSI_PublicationsFile_ref/_free: ghost reference counts", \
	"KSI_PublicationsFile_getNearestPublication/findPublicationByTime/findPublication/getPKICertificateById (publicationsfile.c, C18): arbitrary record / none / error, arguments recorded; KSI_PublicationRecord_free: ghost count", \
	"KSI_PKICertificate_getValidityNotBefore/NotAfter, KSI_PKITruststore_verifyRawSignature (pkitruststore_openssl.c, OpenSSL), KSI_TLV_serialize (tlv.c, C09): arbitrary outcome, arguments recorded", \
	"KSI_ERR_getBaseErrorMessage, KSI_strdup, KSI_ERR_*, KSI_LOG_*: no effect on observed state (env/stubs_base.h)", \
	"signature objects: the aggregation-chain list hands out its first element (or an error / NULL element); all other fields are concrete objects with arbitrary contents"
#endif
