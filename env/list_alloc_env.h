/* Allocation funnels for the bounded list.c obligations (use INSTEAD of env/stubs_base.h).
 * Same pass-through semantics as base.c:1033-1045 (job C19.base_alloc), with two additions:
 *  - g_live counts the blocks handed out and not yet released (live-allocation accounting of C19);
 *  - KSI_calloc splits on the element count 10..14 (the only counts list.c can ask for when the capacity is
 *    <= 4) so that every array object has a CONCRETE size for the symbolic execution - the call made is still
 *    calloc(num, size) with exactly the arguments given.  CBMC lets each of these allocations fail. */
#ifndef ENV_LIST_ALLOC_ENV_H
#define ENV_LIST_ALLOC_ENV_H
#include <stdlib.h>
#include "internal.h"
long g_live;
void *KSI_malloc(size_t size) { void *p = malloc(size); if (p != NULL) g_live++; return p; }
void *KSI_calloc(size_t num, size_t size) {
	void *p;
	if (num == 10) p = calloc(10, size);
	else if (num == 11) p = calloc(11, size);
	else if (num == 12) p = calloc(12, size);
	else if (num == 13) p = calloc(13, size);
	else if (num == 14) p = calloc(14, size);
	else p = calloc(num, size);
	if (p != NULL) g_live++;
	return p;
}
void KSI_free(void *ptr) { if (ptr != NULL) { g_live--; free(ptr); } }
#endif
