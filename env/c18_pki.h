/* Environment of KSI_PublicationsFile_verify (C18): the PKI trust store.  ASSUMED: KSI_CTX_getPKITruststore yields the
 * context's trust store or an error; KSI_PKITruststore_verifyPKISignature (PKCS#7 verification over data[0..data_len),
 * chain validation to a configured anchor, subject constraints - pkitruststore_openssl.c / OpenSSL) returns an arbitrary
 * verdict.  The stubs record how they were called. */
#ifndef ENV_C18_PKI_H
#define ENV_C18_PKI_H
#include "pkitruststore.h"
unsigned g18v_get_calls, g18v_verify_calls;
KSI_CTX *g18v_get_ctx;
int g18v_get_res, g18v_verify_res;                 /* outcomes, chosen by the harness */
static char g18v_pki_obj;                          /* the context's trust store */
const KSI_PKITruststore *g18v_pki; const unsigned char *g18v_data; size_t g18v_data_len; const KSI_PKISignature *g18v_sig; KSI_CertConstraint *g18v_constraints;

int KSI_CTX_getPKITruststore(KSI_CTX *ctx, KSI_PKITruststore **pki) {
	g18v_get_calls++; g18v_get_ctx = ctx;
	if (g18v_get_res != KSI_OK) return g18v_get_res;
	*pki = (KSI_PKITruststore *)&g18v_pki_obj;
	return KSI_OK;
}
int KSI_PKITruststore_verifyPKISignature(const KSI_PKITruststore *pki, const unsigned char *data, size_t data_len, const KSI_PKISignature *signature, KSI_CertConstraint *certConstraints) {
	g18v_verify_calls++;
	g18v_pki = pki; g18v_data = data; g18v_data_len = data_len; g18v_sig = signature; g18v_constraints = certConstraints;
	return g18v_verify_res;
}
#define ENV_C18_PKI_ASSUMED "KSI_CTX_getPKITruststore / KSI_PKITruststore_verifyPKISignature: arbitrary outcome, arguments recorded (env/c18_pki.h); PKCS#7, chain building and subject-constraint matching inside pkitruststore_openssl.c / OpenSSL are NOT verified"
#endif
