/* Assumed environment of hashchain.c for the C19 allocation-failure obligations of builderQ (plain mode, real blocks):
 *  - data hashes and hashers are heap blocks obtained through the funnels of env/c19_alloc_env.h (so they are counted in
 *    g_live and may fail to be allocated): KSI_DataHasher_open / KSI_DataHasher_close allocate, every hasher call may
 *    also fail for a non-memory reason (crypto back-end), KSI_DataHash_free / KSI_DataHasher_free release;
 *  - meta-data elements: reference counted blocks with the four getter fields (getters = plain field reads, as
 *    KSI_IMPLEMENT_GETTER); KSI_TlvElement_serialize may fail or yields a short value;
 *  - KSI_OctetString_LegacyId_getUtf8String is the real one of types_base.c; logging / snprintf have no effect. */
#ifndef ENV_C19_OOM2_HC_ENV_H
#define ENV_C19_OOM2_HC_ENV_H
#include "env/common.h"
#include "hash.h"
#include "tlv_element.h"
#include "impl/meta_data_element_impl.h"

struct KSI_CTX_st { int dummy; };
struct KSI_DataHash_st { KSI_CTX *ctx; size_t ref; unsigned char imprint[2]; };
struct KSI_DataHasher_st { KSI_CTX *ctx; int algo; };

unsigned g_hc_env_failed;       /* non-memory failures injected by the hasher stubs */
unsigned g_hc_hash_freed;       /* data hashes released (last reference dropped) */
unsigned g_hc_md_freed;         /* meta-data elements released */
unsigned g_hc_close_calls;      /* KSI_DataHasher_close calls that produced a hash */

static int hc_env_fail(void) { if (nondet_bool()) { g_hc_env_failed++; return 1; } return 0; }

static KSI_DataHash *hc_mk_hash(KSI_CTX *ctx) {
	KSI_DataHash *h = KSI_malloc(sizeof(*h));
	if (h != NULL) { h->ctx = ctx; h->ref = 1; h->imprint[0] = nondet_uchar(); h->imprint[1] = nondet_uchar(); }
	return h;
}
void KSI_DataHash_free(KSI_DataHash *h) { if (h != NULL && --h->ref == 0) { g_hc_hash_freed++; KSI_free(h); } }
KSI_DataHash *KSI_DataHash_ref(KSI_DataHash *h) { if (h != NULL) h->ref++; return h; }
int KSI_DataHash_extract(const KSI_DataHash *h, KSI_HashAlgorithm *algo, const unsigned char **digest, size_t *len) {
	if (h == NULL) return KSI_INVALID_ARGUMENT;
	if (algo != NULL) *algo = h->imprint[0];
	if (digest != NULL) *digest = h->imprint + 1;
	if (len != NULL) *len = 1;
	return KSI_OK;
}
int KSI_DataHash_getImprint(const KSI_DataHash *h, const unsigned char **imprint, size_t *len) {
	if (h == NULL || imprint == NULL || len == NULL) return KSI_INVALID_ARGUMENT;
	*imprint = h->imprint; *len = 2; return KSI_OK;
}
int KSI_DataHasher_open(KSI_CTX *ctx, KSI_HashAlgorithm algo, KSI_DataHasher **hsr) {
	KSI_DataHasher *t;
	if (ctx == NULL || hsr == NULL) return KSI_INVALID_ARGUMENT;
	if (hc_env_fail()) return KSI_UNAVAILABLE_HASH_ALGORITHM;
	t = KSI_malloc(sizeof(*t));
	if (t == NULL) return KSI_OUT_OF_MEMORY;
	t->ctx = ctx; t->algo = (int)algo;
	*hsr = t; return KSI_OK;
}
int KSI_DataHasher_reset(KSI_DataHasher *hsr) { if (hsr == NULL) return KSI_INVALID_ARGUMENT; return hc_env_fail() ? KSI_CRYPTO_FAILURE : KSI_OK; }
int KSI_DataHasher_add(KSI_DataHasher *hsr, const void *data, size_t len) { if (hsr == NULL) return KSI_INVALID_ARGUMENT; return hc_env_fail() ? KSI_CRYPTO_FAILURE : KSI_OK; }
int KSI_DataHasher_addImprint(KSI_DataHasher *hsr, const KSI_DataHash *h) { if (hsr == NULL || h == NULL) return KSI_INVALID_ARGUMENT; return hc_env_fail() ? KSI_CRYPTO_FAILURE : KSI_OK; }
int KSI_DataHasher_close(KSI_DataHasher *hsr, KSI_DataHash **out) {
	KSI_DataHash *h;
	if (hsr == NULL || out == NULL) return KSI_INVALID_ARGUMENT;
	if (hc_env_fail()) return KSI_CRYPTO_FAILURE;
	h = hc_mk_hash(hsr->ctx);
	if (h == NULL) return KSI_OUT_OF_MEMORY;
	g_hc_close_calls++;
	*out = h; return KSI_OK;
}
void KSI_DataHasher_free(KSI_DataHasher *hsr) { if (hsr != NULL) KSI_free(hsr); }

static KSI_MetaDataElement *hc_mk_md(KSI_CTX *ctx) {
	KSI_MetaDataElement *m = KSI_malloc(sizeof(*m));
	if (m != NULL) { m->ctx = ctx; m->ref = 1; m->padding = NULL; m->clientId = NULL; m->machineId = NULL; m->sequenceNr = NULL; m->reqTimeInMicros = NULL; m->impl = NULL; }
	return m;
}
/* the element owns its getter fields (as KSI_MetaDataElement_free of types.c does) */
void KSI_MetaDataElement_free(KSI_MetaDataElement *m) {
	if (m != NULL && --m->ref == 0) {
		KSI_Utf8String_free(m->clientId); KSI_Utf8String_free(m->machineId); KSI_Integer_free(m->sequenceNr); KSI_Integer_free(m->reqTimeInMicros);
		g_hc_md_freed++; KSI_free(m);
	}
}
int KSI_MetaDataElement_getClientId(KSI_MetaDataElement *m, KSI_Utf8String **o) { if (m == NULL || o == NULL) return KSI_INVALID_ARGUMENT; *o = m->clientId; return KSI_OK; }
int KSI_MetaDataElement_getMachineId(KSI_MetaDataElement *m, KSI_Utf8String **o) { if (m == NULL || o == NULL) return KSI_INVALID_ARGUMENT; *o = m->machineId; return KSI_OK; }
int KSI_MetaDataElement_getSequenceNr(KSI_MetaDataElement *m, KSI_Integer **o) { if (m == NULL || o == NULL) return KSI_INVALID_ARGUMENT; *o = m->sequenceNr; return KSI_OK; }
int KSI_MetaDataElement_getRequestTimeInMicros(KSI_MetaDataElement *m, KSI_Integer **o) { if (m == NULL || o == NULL) return KSI_INVALID_ARGUMENT; *o = m->reqTimeInMicros; return KSI_OK; }
int KSI_TlvElement_serialize(const KSI_TlvElement *el, unsigned char *buf, size_t buf_size, size_t *len, int opt) {
	if (hc_env_fail()) return KSI_INVALID_FORMAT;
	if (len != NULL) *len = 1;
	if (buf != NULL && buf_size > 0) buf[0] = nondet_uchar();
	return KSI_OK;
}
int KSI_LOG_logDataHash(KSI_CTX *ctx, int level, const char *prefix, const KSI_DataHash *hsh) { return KSI_OK; }
int KSI_LOG_logBlob(KSI_CTX *ctx, int level, const char *prefix, const unsigned char *data, size_t data_len, ...) { return KSI_OK; }
size_t KSI_snprintf(char *buf, size_t n, const char *format, ...) { if (buf != NULL && n > 0) buf[0] = '\0'; return 0; }

#define ENV_C19_OOM2_HC_ASSUMED \
	"KSI_DataHasher_open/reset/add/addImprint/close/free, KSI_DataHash_free/ref/extract/getImprint: stubs - hashers and hashes are funnel blocks (counted, may fail to allocate), every hasher call may also fail for a non-memory reason (env/c19_oom2_hc_env.h)", \
	"KSI_MetaDataElement_free/get*: reference-counted stub element owning its four getter fields; getters are plain field reads", \
	"KSI_TlvElement_serialize: may fail or yield a 1-octet value; KSI_LOG_logDataHash/logBlob/KSI_snprintf: no effect"
#endif
