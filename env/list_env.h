/* Environment + ghost state for the obligations on the REAL list.c (C19; DESIGN 4 "Lists").
 * The element destructor of a list (obj_free) is a call-back supplied by the owner: the stub records which
 * element was released and how often.  Witness indices g_lw, g_lv (arbitrary, fixed before the call) let the
 * contracts speak about the WHOLE array view: what is shown for an arbitrary witness holds for every index. */
#ifndef ENV_LIST_ENV_H
#define ENV_LIST_ENV_H
#include "env/common.h"
size_t g_lw, g_lv;             /* witness indices into the element array */
void *g_lold_w, *g_lold_v;     /* elements at the witness indices before the call (NULL when outside the view) */
unsigned g_lfree_calls;        /* number of obj_free calls */
void *g_lfree_last;            /* element handed to the last obj_free call */
static void list_stub_free(void *o) { g_lfree_calls++; g_lfree_last = o; }
#endif
