/* builderS - environment for ALL of net_tcp_async.c (C14 / C13 transport jobs, plain mode): the socket layer, the resolver, the
 * clock and the two queues are an arbitrary peer plus ghost accounting.                                         [ASSUMED]
 *
 * Descriptor table: socket() hands out T2_FD0, T2_FD0+1, ...; every descriptor is unused / open / closed; ioctl(FIONBIO) and
 * connect() are recorded per descriptor.  send / recv / poll / close assert that they get an OPEN descriptor.
 *
 * Request queue model: the queue holds the handles t2_h0..2 numbered first .. first + qlen - 1 in submission order (T2_QMAX handles
 * exist).  Only the two ends can be removed (dispatch takes the head, reqQueue_clearWithError the tail).  Ghost per handle:
 * serialized length / state / cursor at entry, how often it left the queue, in which state, how often its queue reference was
 * released, how many octets of it were written in this call.
 *
 * Wire model of the CURRENT connection: t2_wire_partial = number of octets of a not yet complete request at the end of what
 * was written on this connection (0 = the written stream is a concatenation of WHOLE requests).  send() asserts that the head
 * request continues exactly there: a request starts only at a request boundary and with its first octet.
 *
 * Receive side: same stream accounting as env/ghost_tcp.h (g_in = octets received, g_out = octets cut off the buffer). */
#ifndef ENV_GHOST_TCP2_H
#define ENV_GHOST_TCP2_H
#include <poll.h>
#include <errno.h>
#include <stdarg.h>
#include <sys/types.h>
#include <sys/socket.h>
#include <sys/ioctl.h>
#include <netinet/in.h>
#include <netdb.h>

#ifndef T2_QMAX
#define T2_QMAX 3            /* handles that exist in the model */
#endif
#ifndef T2_RAW
#define T2_RAW 4             /* serialized requests are at most this long */
#endif
#ifndef T2_NFD
#define T2_NFD 3             /* descriptors socket() can hand out in one call */
#endif
#ifndef T2_NAI
#define T2_NAI 2             /* entries of a resolver answer */
#endif
#ifndef T2_MAX_ROUNDS
#define T2_MAX_ROUNDS 2      /* receive rounds explored: the last one only checks its start state */
#endif
#define T2_FD0 10

/* ---- errno, clock ---- */
int t2_errno;
int *__errno_location(void) { return &t2_errno; }
char *strerror(int e) { return (char *)"e"; }
time_t t2_now; unsigned t2_time_calls;
/* arbitrary non-decreasing clock (at most 2^20 s per step) */
time_t time(time_t *t) {
	long long d = nondet_ll();
#ifdef T2_CLOCK_STEADY
	__CPROVER_assume(d == 0);                     /* bound of the job: the clock does not tick DURING the call (any value at entry) */
#else
	__CPROVER_assume(d >= 0 && d <= 0x100000LL);
#endif
	t2_now += d; t2_time_calls++;
	if (t) *t = t2_now;
	return t2_now;
}
double difftime(time_t a, time_t b) { return (double)a - (double)b; }

/* ---- descriptors ---- */
enum { T2_UNUSED = 0, T2_OPEN = 1, T2_CLOSED = 2 };
int t2_fd_state[T2_NFD]; _Bool t2_fd_nb[T2_NFD]; _Bool t2_fd_conn[T2_NFD]; int t2_fd_proto[T2_NFD];
unsigned t2_nsock, t2_close_calls, t2_socket_calls, t2_connect_calls;
_Bool t2_peer_failed;                     /* recv returned 0 / a hard error, send or poll failed hard */
_Bool t2_env_failed;                      /* an allocation of the environment failed */
unsigned long long t2_wire_partial;       /* see above */
unsigned t2_send_calls, t2_poll_calls; _Bool t2_send_wouldblock;
struct TcpClientCtx_st;
struct TcpClientCtx_st *t2_tcp;           /* the connection object (set by the harness) */
static _Bool t2_ready(void); static int t2_sockfd(void);     /* defined by the harness TU after net_tcp_async.c is included */

static _Bool t2_fd_is_open(int fd) { return fd >= T2_FD0 && fd < T2_FD0 + T2_NFD && t2_fd_state[fd - T2_FD0] == T2_OPEN; }

int socket(int domain, int type, int protocol) {
	int fd;
	t2_socket_calls++;
	if (nondet_bool()) { t2_errno = nondet_int(); return -1; }
	__CPROVER_assert(t2_nsock < T2_NFD, "MACHINERY: descriptor table of the model too small");
	fd = T2_FD0 + (int)t2_nsock; t2_fd_state[t2_nsock] = T2_OPEN; t2_fd_nb[t2_nsock] = 0; t2_fd_conn[t2_nsock] = 0; t2_fd_proto[t2_nsock] = protocol; t2_nsock++;
	return fd;
}
int ioctl(int fd, unsigned long request, ...) {
	__CPROVER_assert(t2_fd_is_open(fd), "ioctl: on an open descriptor");
	__CPROVER_assert(request == FIONBIO, "ioctl: only FIONBIO is used");
	__CPROVER_assert(!t2_fd_conn[fd - T2_FD0], "non-blocking mode is chosen before connect");
	if (nondet_bool()) { t2_errno = nondet_int(); return -1; }
	t2_fd_nb[fd - T2_FD0] = 1;
	return 0;
}
int connect(int fd, const struct sockaddr *addr, socklen_t len) {
	t2_connect_calls++;
	__CPROVER_assert(t2_fd_is_open(fd), "connect: on an open descriptor");
	__CPROVER_assert(t2_fd_nb[fd - T2_FD0], "connect never blocks: the socket is in non-blocking mode");
	__CPROVER_assert(!t2_fd_conn[fd - T2_FD0], "connect: once per socket");
	__CPROVER_assert(addr != NULL, "connect: an address of the resolver answer");
	if (nondet_bool()) { t2_fd_conn[fd - T2_FD0] = 1; return 0; }
	t2_errno = nondet_int();
	if (t2_errno == EINPROGRESS || t2_errno == EWOULDBLOCK) t2_fd_conn[fd - T2_FD0] = 1;
	return -1;
}
int close(int fd) {
	t2_close_calls++;
	__CPROVER_assert(t2_fd_is_open(fd), "close: an open descriptor, every descriptor at most once");
	if (fd >= T2_FD0 && fd < T2_FD0 + T2_NFD) t2_fd_state[fd - T2_FD0] = T2_CLOSED;
	t2_wire_partial = 0;                 /* the written stream of that connection ends here */
	return 0;
}

/* ---- resolver ---- */
struct addrinfo t2_ai[T2_NAI]; struct sockaddr t2_sa; int t2_ai_n; unsigned t2_gai_calls, t2_gai_ok, t2_gai_freed;
const char *t2_host;
int getaddrinfo(const char *node, const char *service, const struct addrinfo *hints, struct addrinfo **res) {
	int i;
	t2_gai_calls++;
	__CPROVER_assert(node == t2_host && service != NULL && res != NULL && hints != NULL, "resolver: host of the endpoint, port string, hints");
	__CPROVER_assert(hints->ai_socktype == SOCK_STREAM && hints->ai_protocol == IPPROTO_TCP, "resolver: asked for TCP stream addresses");
	__CPROVER_assert(service[0] == 0 || service[1] == 0 || service[2] == 0 || service[3] == 0 || service[4] == 0 || service[5] == 0, "resolver: the port string is terminated inside its 6 octets");
	if (nondet_bool()) { int e = nondet_int(); __CPROVER_assume(e != 0); return e; }
	t2_gai_ok++;
	t2_ai_n = nondet_int(); __CPROVER_assume(t2_ai_n >= 1 && t2_ai_n <= T2_NAI);
	for (i = 0; i < T2_NAI; i++) {
		t2_ai[i].ai_family = nondet_int(); t2_ai[i].ai_socktype = nondet_int(); t2_ai[i].ai_protocol = nondet_bool() ? IPPROTO_TCP : nondet_int();
		t2_ai[i].ai_addr = &t2_sa; t2_ai[i].ai_addrlen = sizeof(t2_sa); t2_ai[i].ai_next = (i + 1 < t2_ai_n) ? &t2_ai[i + 1] : NULL;
	}
	*res = &t2_ai[0];
	return 0;
}
void freeaddrinfo(struct addrinfo *res) { __CPROVER_assert(res == &t2_ai[0] && t2_gai_ok > t2_gai_freed, "freeaddrinfo: the list the resolver returned, once"); t2_gai_freed++; }
const char *gai_strerror(int e) { return "gai"; }
size_t KSI_snprintf(char *buf, size_t n, const char *format, ...) {
	size_t k = nondet_size();
	__CPROVER_assert(buf != NULL && n > 0 && __CPROVER_w_ok(buf, n), "KSI_snprintf: writable destination of the stated size");
	__CPROVER_assume(k < n);
	buf[k] = 0;
	return k;
}

/* ---- poll ---- */
short t2_revents; int t2_poll_res;
int poll(struct pollfd *fds, nfds_t n, int timeout) {
	t2_poll_calls++;
	__CPROVER_assert(n == 1 && timeout == 0, "poll: one descriptor, never blocks");
	__CPROVER_assert(t2_fd_is_open(fds->fd) && fds->fd == t2_sockfd(), "poll: the connection's open descriptor");
	__CPROVER_assert(t2_poll_calls == 1, "poll: once per dispatch");
	t2_poll_res = nondet_int(); __CPROVER_assume(t2_poll_res >= -1 && t2_poll_res <= 1);
	if (t2_poll_res < 0) { t2_errno = nondet_int(); t2_peer_failed = 1; }
	fds->revents = (t2_poll_res > 0) ? t2_revents : 0;
	return t2_poll_res;
}

/* ---- connection state listener (optional) ---- */
unsigned t2_listener_calls; int t2_listener_last; int t2_listener_res; _Bool t2_listener_ready_seen;
static int t2_listener(KSI_CTX *ctx, size_t id, void *userp, const char *host, int state) {
	t2_listener_calls++; t2_listener_last = state;
	__CPROVER_assert(id == (size_t)t2_tcp, "listener: called for this connection");
	return t2_listener_res;
}

/* ---- request queue ---- */
/* one global per handle (writes through a pointer into an ARRAY of structs would become byte_updates over the whole array) */
struct KSI_AsyncHandle_st t2_h0, t2_h1, t2_h2;
#define T2H(k) (*((k) == 0 ? &t2_h0 : (k) == 1 ? &t2_h1 : &t2_h2))
unsigned char *t2_rawp[T2_QMAX]; size_t t2_len0[T2_QMAX], t2_sent0[T2_QMAX]; int t2_state0[T2_QMAX]; time_t t2_reqTime0[T2_QMAX];
size_t t2_first, t2_qlen, t2_first0, t2_qlen0;
unsigned t2_removed[T2_QMAX], t2_released[T2_QMAX]; int t2_rm_state[T2_QMAX]; size_t t2_rm_sent[T2_QMAX];
unsigned long long t2_written[T2_QMAX]; _Bool t2_whole[T2_QMAX]; unsigned t2_rm_order[T2_QMAX]; unsigned t2_rm_seq;
unsigned t2_errmsg_calls;
static size_t t2_req_length(KSI_LIST(KSI_AsyncHandle) *l) { return t2_qlen; }
/* every access to the handle table goes through CONSTANT indices (a pointer with a symbolic offset into the table would make
 * every write of the real code a byte_update over the whole table) */
static int t2_req_elementAt(KSI_LIST(KSI_AsyncHandle) *l, size_t pos, KSI_AsyncHandle **o) {
	size_t k;
	__CPROVER_assert(pos == 0 && t2_qlen > 0 && o != NULL, "requests are looked at only at the head of the queue (submission order)");
	__CPROVER_assert(t2_first < T2_QMAX, "MACHINERY: queue model consistent");
	for (k = 0; k < T2_QMAX; k++) if (k == t2_first) *o = &T2H(k);
	return KSI_OK;
}
static int t2_req_remove(KSI_LIST(KSI_AsyncHandle) *l, size_t pos, KSI_AsyncHandle **o) {
	size_t idx, k;
	__CPROVER_assert(t2_qlen > 0 && (pos == 0 || pos == t2_qlen - 1), "a request leaves the queue at one of its ends");
	__CPROVER_assert(t2_first + t2_qlen <= T2_QMAX, "MACHINERY: queue model consistent");
	if (pos == 0) { idx = t2_first; t2_first++; } else { idx = t2_first + t2_qlen - 1; }
	t2_qlen--; ++t2_rm_seq;
	for (k = 0; k < T2_QMAX; k++) if (k == idx) {
		t2_removed[k]++; t2_rm_state[k] = T2H(k).state; t2_rm_sent[k] = T2H(k).sentCount; t2_rm_order[k] = t2_rm_seq;
		if (o != NULL) *o = &T2H(k); else t2_released[k]++;          /* list semantics: without receiver the element's reference is released */
	}
	return KSI_OK;
}
void KSI_AsyncHandle_free(KSI_AsyncHandle *h) {
	size_t i;
	if (h == NULL) return;
	for (i = 0; i < T2_QMAX; i++) if (h == &T2H(i)) t2_released[i]++;
}
int KSI_Utf8String_new(KSI_CTX *ctx, const char *str, size_t len, KSI_Utf8String **t) { t2_errmsg_calls++; return KSI_OUT_OF_MEMORY; }

/* append (addToSendQueue) */
unsigned t2_append_calls; KSI_AsyncHandle *t2_appended; int t2_append_res; int t2_append_seen_state;
static int t2_req_append(KSI_LIST(KSI_AsyncHandle) *l, KSI_AsyncHandle *o) {
	t2_append_calls++; t2_appended = o; t2_append_seen_state = o ? o->state : -1;
	return t2_append_res;
}

ssize_t send(int fd, const void *buf, size_t len, int flags) {
	ssize_t c = nondet_ll(); size_t k;
	t2_send_calls++;
	__CPROVER_assert(t2_fd_is_open(fd) && fd == t2_sockfd(), "send: on the connection's open descriptor");
	__CPROVER_assert(t2_ready(), "nothing is written on a half-open socket (connection not yet established)");
	__CPROVER_assert(!t2_peer_failed, "no write after the connection failed");
	__CPROVER_assert(t2_qlen > 0 && t2_first < T2_QMAX, "send: there is a head request");
	__CPROVER_assume(c >= -1 && c <= (ssize_t)len && c != 0);   /* POSIX: a non-empty send on a stream socket transfers something or fails */
	for (k = 0; k < T2_QMAX; k++) if (k == t2_first) {
		__CPROVER_assert(T2H(k).state == KSI_ASYNC_STATE_WAITING_FOR_DISPATCH, "only requests waiting for dispatch are written");
		__CPROVER_assert((const unsigned char *)buf == t2_rawp[k] + T2H(k).sentCount && len == t2_len0[k] - T2H(k).sentCount && T2H(k).sentCount < t2_len0[k],
				"send continues the head request exactly where the previous partial send stopped, up to its end");
		__CPROVER_assert(T2H(k).sentCount == t2_wire_partial, "wire: a request is written on a connection from its first octet and only behind WHOLE requests (the octets of it already on THIS connection are exactly its send cursor)");
		if (c > 0) {
			t2_written[k] += (unsigned long long)c; t2_wire_partial += (unsigned long long)c;
			if (t2_wire_partial == t2_len0[k]) { t2_wire_partial = 0; t2_whole[k] = 1; }
		}
	}
	if (c < 0) { t2_errno = nondet_int(); if (t2_errno != EWOULDBLOCK && t2_errno != EAGAIN) t2_peer_failed = 1; else t2_send_wouldblock = 1; }
	return c;
}

#ifndef T2_NO_RECV_SIDE
/* ---- receive side (as env/ghost_tcp.h) ---- */
unsigned long long g_in, g_out, g_delivered;
unsigned char *g_inbuf_p; size_t g_inbuf_size; size_t *g_inlen_p;
size_t g_pending_count; _Bool g_pending; unsigned g_recv_calls;
ssize_t recv(int fd, void *buf, size_t len, int flags) {
	ssize_t c = nondet_ll();
	__CPROVER_assert(t2_fd_is_open(fd) && fd == t2_sockfd(), "recv: on the connection's open descriptor");
	__CPROVER_assert(t2_ready(), "nothing is read from a half-open socket");
	__CPROVER_assert(*g_inlen_p <= g_inbuf_size && g_in == g_out + *g_inlen_p && !g_pending && !t2_env_failed, "stream invariant at the start of every receive round (inductive step over rounds)");
	g_recv_calls++;
	__CPROVER_assert(!t2_peer_failed, "no read from a failed connection");
	__CPROVER_assert((unsigned char *)buf == g_inbuf_p + *g_inlen_p, "recv appends directly behind the buffered octets");
	__CPROVER_assert(*g_inlen_p <= g_inbuf_size && len <= g_inbuf_size - *g_inlen_p, "recv window lies inside the reassembly buffer");
	__CPROVER_assume(c >= -1 && c <= (ssize_t)len);
	if (g_recv_calls >= T2_MAX_ROUNDS) { t2_errno = EWOULDBLOCK; return -1; }      /* exploration bound: the last round only checks its start state */
	if (c < 0) { t2_errno = nondet_int(); if (t2_errno != EWOULDBLOCK && t2_errno != EAGAIN) t2_peer_failed = 1; }
	else if (c == 0) t2_peer_failed = 1;
	else g_in += (unsigned long long)c;
	return c;
}
int KSI_OctetString_new(KSI_CTX *ctx, const unsigned char *data, size_t data_len, KSI_OctetString **t) {
	__CPROVER_assert(!g_pending, "one element at a time");
	__CPROVER_assert(data == g_inbuf_p, "delivered element starts at the front of the buffer (stream offset g_out)");
	__CPROVER_assert(data_len >= 2 && data_len <= *g_inlen_p, "delivered element lies completely inside the buffered octets");
	__CPROVER_assert(data_len == spec_tlv_dec_hdr_len(g_inbuf_p, *g_inlen_p) + spec_tlv_dec_dat_len(g_inbuf_p, *g_inlen_p), "delivered length = header + payload length announced by the element's own header");
	if (nondet_bool()) { t2_env_failed = 1; return KSI_OUT_OF_MEMORY; }
	g_pending = 1; g_pending_count = data_len;
	*t = (KSI_OctetString *)&g_pending_count;      /* identity only */
	return KSI_OK;
}
void KSI_OctetString_free(KSI_OctetString *o) { if (o != NULL && g_pending) g_pending = 0; }
void *memmove(void *dst, const void *src, size_t n) {
	__CPROVER_assert(g_pending, "compaction only after an element was delivered");
	__CPROVER_assert((unsigned char *)dst == g_inbuf_p && (const unsigned char *)src == g_inbuf_p + g_pending_count, "remaining octets move to the front, starting right behind the delivered element");
	__CPROVER_assert(n == *g_inlen_p && g_pending_count + n <= g_inbuf_size, "exactly the remaining octets are kept");
	g_out += g_pending_count; g_pending = 0; g_delivered++;
	return dst;
}
/* response queue */
size_t t2_resp_len; unsigned t2_resp_removed; int t2_resp_remove_res; KSI_OctetString *t2_resp_head; size_t t2_resp_remove_pos; _Bool t2_resp_remove_noreceiver;
static int t2_resp_append(KSI_LIST(KSI_OctetString) *l, KSI_OctetString *o) {
	__CPROVER_assert(g_pending && o == (KSI_OctetString *)&g_pending_count, "the element just cut out is queued");
	if (nondet_bool()) { t2_env_failed = 1; return KSI_OUT_OF_MEMORY; }
	t2_resp_len++;
	return KSI_OK;
}
static size_t t2_resp_length(KSI_LIST(KSI_OctetString) *l) { return t2_resp_len; }
static int t2_resp_remove(KSI_LIST(KSI_OctetString) *l, size_t pos, KSI_OctetString **o) {
	t2_resp_remove_pos = pos; t2_resp_remove_noreceiver = (o == NULL);
	if (t2_resp_remove_res != KSI_OK) return t2_resp_remove_res;
	__CPROVER_assert(pos < t2_resp_len, "response queue: position inside the queue");
	t2_resp_removed++; t2_resp_len--;
	if (o != NULL) *o = t2_resp_head;
	return KSI_OK;
}
#endif /* T2_NO_RECV_SIDE */
#endif
