/* Ghost environment for KSI_PublicationData_fromBase32 / _toBase32 (C17).
 * Callees outside publicationsfile.c / types_base.c are stubs that record what they were asked and hand out
 * arbitrary results [ASSUMED behaviour, each an over-approximation of the callee's own contract]:
 *  KSI_base32Decode   error, or a fresh buffer of arbitrary length and content (contract: C17.b32.decode)
 *  KSI_base32Encode   error, or a fresh string; asserts the layout of the binary publication it is given
 *  KSI_crc32          an arbitrary 32-bit value fixed up front (contract: C17.crc.crc32); asserts what it is taken over
 *  KSI_DataHash_fromImprint / _getImprint / _free    model data hash (owner: hash.c, other properties)
 *  KSI_TLV_free       only ever called with NULL here
 * Include before the real publicationsfile.c. */
#ifndef ENV_GHOST_PUBSTR_H
#define ENV_GHOST_PUBSTR_H
#include "spec/hashalg.h"

/* ---- decode direction ---- */
const char *g_ps_str;               /* the publication string handed in (content irrelevant: decoder is a stub) */
unsigned char *g_ps_buf;            /* decoded buffer */
size_t g_ps_n;                      /* its length */
int g_ps_decode_calls, g_ps_decode_res;
unsigned long long g_ps_time;       /* big-endian value of bytes 0..7 (recorded when n >= 13) */
unsigned g_ps_algo;                 /* byte 8 */
unsigned long g_ps_trailer;         /* big-endian value of the last four bytes */
unsigned long g_ps_crc;             /* what KSI_crc32 returns (arbitrary, fixed up front) */
int g_ps_crc_calls;
int g_ps_imp_calls, g_ps_imp_res; size_t g_ps_imp_len;
struct KSI_DataHash_st g_ps_hash;   /* the model data hash */
int g_ps_hash_live;                 /* +1 created, -1 freed */
int g_ps_no_alloc_failure;          /* set by harnesses that run with --no-malloc-may-fail */

int KSI_base32Decode(const char *base32, unsigned char **data, size_t *data_len) {
	size_t n; unsigned char *b; int k;
	__CPROVER_assert(base32 == g_ps_str && data != NULL && data_len != NULL, "decoder called on the publication string");
	g_ps_decode_calls++;
	if (nondet_bool()) { g_ps_decode_res = nondet_bool() ? KSI_INVALID_FORMAT : KSI_OUT_OF_MEMORY; return g_ps_decode_res; }
	n = nondet_size();
	__CPROVER_assume(n <= 0x7fffffff);
	b = malloc(n);
	__CPROVER_assume(b != NULL);
	g_ps_buf = b; g_ps_n = n; g_ps_decode_res = KSI_OK;
	if (n >= 13) {
		g_ps_time = 0;
		g_ps_time = ((unsigned long long)b[0] << 56) | ((unsigned long long)b[1] << 48) | ((unsigned long long)b[2] << 40) | ((unsigned long long)b[3] << 32) |
			((unsigned long long)b[4] << 24) | ((unsigned long long)b[5] << 16) | ((unsigned long long)b[6] << 8) | (unsigned long long)b[7];
		g_ps_algo = b[8];
		g_ps_trailer = ((unsigned long)b[n - 4] << 24) | ((unsigned long)b[n - 3] << 16) | ((unsigned long)b[n - 2] << 8) | (unsigned long)b[n - 1];
	}
	*data = b; *data_len = n;
	return KSI_OK;
}

/* ---- encode direction ---- */
const struct KSI_DataHash_st *g_pe_hash;   /* pubData->imprint of the harness object (may be NULL) */
const unsigned char *g_pe_imp; size_t g_pe_imp_len; int g_pe_getimp_res;
unsigned long long g_pe_time;
size_t g_pe_w;                       /* witness index into the imprint */
const unsigned char *g_pe_bin; size_t g_pe_bin_len;   /* binary publication as seen by the CRC stub */
int g_pe_enc_calls, g_pe_enc_res; char *g_pe_out;
int g_pe_mode;                       /* 0 = decode direction, 1 = encode direction (selects the CRC protocol) */

static void pe_check_layout(const unsigned char *d) {
	__CPROVER_assert(d[0] == (unsigned char)(g_pe_time >> 56) && d[1] == (unsigned char)(g_pe_time >> 48) && d[2] == (unsigned char)(g_pe_time >> 40) &&
		d[3] == (unsigned char)(g_pe_time >> 32) && d[4] == (unsigned char)(g_pe_time >> 24) && d[5] == (unsigned char)(g_pe_time >> 16) &&
		d[6] == (unsigned char)(g_pe_time >> 8) && d[7] == (unsigned char)g_pe_time, "layout: bytes 0..7 are the publication time, big-endian");
	__CPROVER_assert(IMPLIES(g_pe_w < g_pe_imp_len, d[8 + g_pe_w] == g_pe_imp[g_pe_w]), "layout: the imprint follows at offset 8 (witness byte)");
}

unsigned long KSI_crc32(const void *data, size_t length, unsigned long ival) {
	g_ps_crc_calls++;
	if (g_pe_mode == 0) {
		__CPROVER_assert(g_ps_decode_res == KSI_OK && g_ps_n >= 13, "minimum length (13) is checked before the CRC is taken");
		__CPROVER_assert(data == g_ps_buf && length == g_ps_n - 4 && ival == 0, "CRC is taken over exactly the first n-4 decoded bytes, initial value 0");
	} else {
		__CPROVER_assert(g_pe_getimp_res == KSI_OK && length == 8 + g_pe_imp_len && ival == 0, "CRC is taken over time and imprint, initial value 0");
		g_pe_bin = data; g_pe_bin_len = length + 4;
		pe_check_layout(data);
	}
	return g_ps_crc;
}

int KSI_base32Encode(const unsigned char *data, size_t data_len, size_t group_len, char **encoded) {
	g_pe_enc_calls++;
	__CPROVER_assert(g_ps_crc_calls == 1 && data == g_pe_bin && data_len == g_pe_bin_len && data_len == 8 + g_pe_imp_len + 4, "the encoder gets time | imprint | CRC, nothing else");
	__CPROVER_assert(group_len == 6 && encoded != NULL, "groups of six");
	pe_check_layout(data);
	__CPROVER_assert(data[data_len - 4] == (unsigned char)(g_ps_crc >> 24) && data[data_len - 3] == (unsigned char)(g_ps_crc >> 16) &&
		data[data_len - 2] == (unsigned char)(g_ps_crc >> 8) && data[data_len - 1] == (unsigned char)g_ps_crc, "layout: the last four bytes are the CRC-32 of everything before, big-endian");
	if (nondet_bool()) { g_pe_enc_res = KSI_OUT_OF_MEMORY; return g_pe_enc_res; }
	g_pe_out = malloc(4);
	__CPROVER_assume(g_pe_out != NULL);
	g_pe_enc_res = KSI_OK;
	*encoded = g_pe_out;
	return KSI_OK;
}

/* ---- model integer (KSI_Integer lives in types_base.c, not under verification here) ---- */
struct KSI_Integer_st { size_t ref; KSI_uint64_t value; };
struct KSI_Integer_st g_ps_int;     /* the model integer object */
int g_ps_int_live, g_ps_int_calls, g_ps_int_res;
int KSI_Integer_new(KSI_CTX *ctx, KSI_uint64_t value, KSI_Integer **o) {
	g_ps_int_calls++;
	__CPROVER_assert(o != NULL && g_ps_int_live == 0, "one integer is made");
	if (nondet_bool()) { g_ps_int_res = KSI_OUT_OF_MEMORY; return g_ps_int_res; }
	g_ps_int_res = KSI_OK;
	g_ps_int.ref = 1; g_ps_int.value = value; g_ps_int_live++;
	*o = &g_ps_int;
	return KSI_OK;
}
void KSI_Integer_free(KSI_Integer *o) {
	if (o == NULL) return;
	__CPROVER_assert(o == &g_ps_int && g_ps_int_live == 1, "only the live model integer is released, once");
	g_ps_int_live--;
}
KSI_uint64_t KSI_Integer_getUInt64(const KSI_Integer *o) { return o != NULL ? o->value : 0; }

/* ---- model data hash ---- */
int KSI_DataHash_fromImprint(KSI_CTX *ctx, const unsigned char *imprint, size_t imprint_length, KSI_DataHash **hash) {
	g_ps_imp_calls++;
	__CPROVER_assert(g_ps_buf != NULL && imprint == g_ps_buf + 8 && hash != NULL, "the imprint is taken at offset 8 of the decoded bytes");
	__CPROVER_assert(imprint_length >= 1 && 8 + imprint_length + 4 == g_ps_n, "the imprint is everything between time and CRC");
	g_ps_imp_len = imprint_length;
	if (nondet_bool()) { g_ps_imp_res = nondet_bool() ? KSI_OUT_OF_MEMORY : KSI_INVALID_FORMAT; return g_ps_imp_res; }
	g_ps_imp_res = KSI_OK;
	g_ps_hash_live++;
	*hash = &g_ps_hash;
	return KSI_OK;
}
void KSI_DataHash_free(KSI_DataHash *h) {
	if (h == NULL) return;
	__CPROVER_assert(h == &g_ps_hash && g_ps_hash_live == 1, "only the live model hash is released, once");
	g_ps_hash_live--;
}
int KSI_DataHash_getImprint(const KSI_DataHash *hash, const unsigned char **imprint, size_t *imprint_length) {
	__CPROVER_assert(hash == g_pe_hash && imprint != NULL && imprint_length != NULL, "imprint of the publication data's hash is asked for");
	if (hash == NULL || nondet_bool()) { g_pe_getimp_res = KSI_SERVICE_UNKNOWN_ERROR; return g_pe_getimp_res; }
	g_pe_getimp_res = KSI_OK;
	*imprint = g_pe_imp; *imprint_length = g_pe_imp_len;
	return KSI_OK;
}
void KSI_TLV_free(KSI_TLV *tlv) { __CPROVER_assert(tlv == NULL, "no TLV is owned by a publication data made from a string"); }

#define ENV_GHOST_PUBSTR_ASSUMED \
	"KSI_base32Decode (stub): error, or a fresh buffer of arbitrary length <= 2^31 and arbitrary content - over-approximates the contract enforced by C17.b32.decode", \
	"KSI_base32Encode (stub): error or a fresh string; checks the binary layout it receives - the encoder's own contract is C17.b32.encode*", \
	"KSI_crc32 (stub): an arbitrary 32-bit value - over-approximates the contract enforced by C17.crc.crc32 (+ C17.crc.table, C17.crc.ref_bounded)", \
	"KSI_DataHash_fromImprint / KSI_DataHash_getImprint / KSI_DataHash_free (stubs): model data hash; success or error arbitrary", \
	"KSI_Integer_new / KSI_Integer_free / KSI_Integer_getUInt64 (stubs): model integer object carrying the value; creation may fail", \
	"KSI_TLV_free: called with NULL only"
#endif
