/* Allocation funnels with live-allocation accounting for the plain-mode C19 obligations of builderQ that run the REAL
 * list.c: identical to env/c19_alloc_env.h (pass-through + g_live + g_alloc_failed; KSI_ERR_* / KSI_LOG_* without effect)
 * except that KSI_calloc splits on the element counts list.c asks for with a capacity of 0 or 10 (10 and 20 slots), so that
 * the element arrays have a CONCRETE size for the symbolic execution (a symbolic-size array exhausts the memory - see
 * env/list_alloc_env.h).  The call made is still calloc(num, size) with exactly the arguments given; each may fail. */
#ifndef ENV_C19_OOM2_ALLOC_ENV_H
#define ENV_C19_OOM2_ALLOC_ENV_H
#include <stdlib.h>
#include <stdarg.h>
#include "internal.h"

long g_live;                 /* funnel blocks currently live */
unsigned g_alloc_failed;     /* number of funnel allocations that returned NULL */

void *KSI_malloc(size_t size) { void *p = malloc(size); if (p != NULL) g_live++; else g_alloc_failed++; return p; }
void *KSI_calloc(size_t num, size_t size) {
	void *p;
	if (num == 10) p = calloc(10, size);
	else if (num == 20) p = calloc(20, size);
	else if (num == 1) p = calloc(1, size);
	else p = calloc(num, size);
	if (p != NULL) g_live++; else g_alloc_failed++;
	return p;
}
void KSI_free(void *ptr) { if (ptr != NULL) { g_live--; free(ptr); } }

void KSI_ERR_clearErrors(KSI_CTX *ctx) { }
void KSI_ERR_push(KSI_CTX *ctx, int statusCode, long extErrorCode, const char *fileName, unsigned int lineNr, const char *message) { }
int KSI_LOG_debug(KSI_CTX *ctx, char *format, ...) { return KSI_OK; }
int KSI_LOG_info(KSI_CTX *ctx, char *format, ...) { return KSI_OK; }
int KSI_LOG_notice(KSI_CTX *ctx, char *format, ...) { return KSI_OK; }
int KSI_LOG_warn(KSI_CTX *ctx, char *format, ...) { return KSI_OK; }
int KSI_LOG_error(KSI_CTX *ctx, char *format, ...) { return KSI_OK; }
#endif
