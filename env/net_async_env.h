/* Environment of net_async.c for C13: arbitrary wall clock, transport / PDU call-backs as stubs (assumed). */
#ifndef ENV_NET_ASYNC_ENV_H
#define ENV_NET_ASYNC_ENV_H
#include "env/common.h"
#include <time.h>
/* an arbitrary clock [ASSUMED] */
/* the clock does not advance while ONE client operation runs: time() returns the same arbitrary g_env_now */
long long g_env_now;
time_t time(time_t *t) { time_t v = (time_t)g_env_now; if (t) *t = v; return v; }
/* difftime is kept abstract (an uninterpreted function of its two arguments): the 64-bit -> double arithmetic of a
 * literal model costs minutes per obligation group, and the property only needs "the SAME elapsed time decides" */
double __CPROVER_uninterpreted_env_difftime(long long a, long long b);
double difftime(time_t a, time_t b) { return __CPROVER_uninterpreted_env_difftime((long long)a, (long long)b); }

/* ---- the response object seen by handleResponse(): its 8 call-backs as stubs with ghost results [ASSUMED] ------ */
#include "net_async.h"
#include "impl/net_async_impl.h"
struct as_resp { int dummy; };
static struct as_resp g_as_resp;          /* the response object */
static struct KSI_Integer_st *g_as_rid;   /* its request id (may be NULL) */
static struct KSI_Integer_st *g_as_status;/* its status (may be NULL) */
int g_as_getrid_res, g_as_getreq_res, g_as_verify_res, g_as_getstatus_res, g_as_conv_res;   /* results of the call-backs */
int g_as_ref_calls, g_as_verify_calls;
static void *g_as_verify_req;             /* the request the response was verified against */

int as_getRequestId(const void *resp, KSI_Integer **id) { if (g_as_getrid_res != KSI_OK) return g_as_getrid_res; *id = g_as_rid; return KSI_OK; }
int as_getRequest(const KSI_AsyncHandle *h, void **req) { if (g_as_getreq_res != KSI_OK) return g_as_getreq_res; *req = (void *)h->aggrReq; return KSI_OK; }
int as_verifyWithRequest(const void *resp, const void *req) { g_as_verify_calls++; g_as_verify_req = (void *)req; return g_as_verify_res; }
int as_getStatus(const void *resp, KSI_Integer **st) { if (g_as_getstatus_res != KSI_OK) return g_as_getstatus_res; *st = g_as_status; return KSI_OK; }
int as_convertStatusCode(const KSI_Integer *st) { return g_as_conv_res; }
int as_getErrorMsg(const void *resp, KSI_Utf8String **msg) { *msg = NULL; return KSI_OK; }
void *as_resp_ref(void *resp) { g_as_ref_calls++; return resp; }
void as_resp_free(void *resp) { }

int g_env_dispatch_res, g_env_handle_res;   /* results of the transport dispatch / response-queue call-backs of asyncClient_run */
#define ENV_NET_ASYNC_ASSUMED "time(): arbitrary value, constant during one client operation; difftime(a,b): libc function, kept abstract (uninterpreted function of a and b) (env/net_async_env.h)"
#endif
