/* World model for the rule-level contracts of verification_rule.c (C01 / C02 layer L3).
 *
 * The harness builds ONE concrete verification context + signature out of the objects below (real structs of
 * impl/*.h, every field nondeterministic, every optional AND every mandatory component possibly absent).
 *   - KSI_Integer objects: real structs of types_base.c with arbitrary 64-bit values.
 *   - hash objects: identities; the imprint is modelled by a ghost pair (algorithm id 0..255, digest identity).
 *     ASSUMED stubs: KSI_DataHash_equals (both present and same algorithm id and same digest identity - an
 *     equivalence relation, as byte equality of imprints is), KSI_DataHash_getHashAlg (the ghost algorithm id),
 *     KSI_DataHash_free / KSI_DataHash_ref (ghost reference counts, double free is an assertion).
 *   - typed lists: model lists (structs of function pointers set to the stubs below). The "first element" model
 *     serves the loop-free rules: any length, element 0 is always the same object, other positions are never asked.
 * vr_exp_<Rule>() computes the verdict the PROPERTY TEXT demands for the world (spec/vercodes.h); the contracts compare
 * the real rule's outcome with it. Everything here is loop-free. */
#ifndef ENV_GHOST_VRULE_H
#define ENV_GHOST_VRULE_H
#include "spec/vercodes.h"
#include "spec/hashalg.h"
#include "policy.h"
#include "verification.h"
#include "impl/hash_impl.h"
#include "impl/hashchain_impl.h"
#include "impl/policy_impl.h"
#include "impl/publicationsfile_impl.h"
#include "impl/signature_impl.h"
#include "impl/verification_impl.h"

/* ------------------------------------------------ objects ------------------------------------------------ */
char g_vr_ctx_obj[8];                         /* identity of the KSI_CTX (never dereferenced by the rules under contract) */
#define VR_CTX ((KSI_CTX *)(void *)g_vr_ctx_obj)

/* hash identities */
enum { VR_H_DOC = 0, VR_H_IN0, VR_H_RFC, VR_H_CALIN, VR_H_CAR, VR_H_PUB, VR_H_AGGOUT, VR_H_NEW1, VR_H_NEW2, VR_H_LINK, VR_NHASH };
KSI_DataHash g_vr_h[VR_NHASH];
int g_vr_h_alg[VR_NHASH];                     /* ghost algorithm id (first imprint octet) */
unsigned long long g_vr_h_dig[VR_NHASH];      /* ghost digest identity */
int g_vr_h_ref[VR_NHASH];                     /* ghost reference count (0 = dead) */

static int vr_is_hash(const KSI_DataHash *h) { return __CPROVER_same_object(h, g_vr_h) && h >= &g_vr_h[0] && h <= &g_vr_h[VR_NHASH - 1]; }
static int vr_hidx(const KSI_DataHash *h) { return (int)(h - &g_vr_h[0]); }
static int vr_alg(const KSI_DataHash *h) { return g_vr_h_alg[vr_hidx(h)]; }
/* the equality the property speaks of: identical algorithm and digest */
static int vr_hash_eq(const KSI_DataHash *a, const KSI_DataHash *b) {
	return a != NULL && b != NULL &&
		spec_imprint_equal(g_vr_h_alg[vr_hidx(a)], g_vr_h_dig[vr_hidx(a)], g_vr_h_alg[vr_hidx(b)], g_vr_h_dig[vr_hidx(b)]);
}

/* integers */
enum { VR_I_AGGRT0 = 0, VR_I_LC0, VR_I_ALG0, VR_I_RFCT, VR_I_RFC_TSTALG, VR_I_RFC_SIGALG, VR_I_CALPUBT, VR_I_CALAGGRT, VR_I_CART, VR_I_PUBT, VR_NINT };
struct KSI_Integer_st g_vr_int[VR_NINT];
static unsigned long long vr_u64(const KSI_Integer *i) { return i != NULL ? i->value : 0; }           /* absent optional integer = 0 */
static int vr_int_eq(const KSI_Integer *a, const KSI_Integer *b) { return a != NULL && b != NULL && a->value == b->value; }

/* the context and the signature */
KSI_VerificationContext g_vr_info;
KSI_RuleVerificationResult g_vr_res;
VerificationTempData g_vr_temp;
KSI_Signature g_vr_sig;
KSI_RFC3161 g_vr_rfc;
KSI_CalendarHashChain g_vr_cal;
KSI_CalendarAuthRec g_vr_car;
KSI_PublicationRecord g_vr_pubrec;
KSI_PublicationData g_vr_pd_car, g_vr_pd_pub;
KSI_AggregationHashChain g_vr_chain0;
KSI_HashChainLink g_vr_link0;
KSI_LIST(KSI_AggregationHashChain) g_vr_chainlist;
KSI_LIST(KSI_HashChainLink) g_vr_linklist;

/* ------------------------------------------------ "first element" model lists ------------------------------------------------ */
size_t g_vr_nchains;                          /* arbitrary number of aggregation chains */
KSI_AggregationHashChain *g_vr_first;         /* element 0 (the parser never stores NULL, the model may) */
size_t g_vr_nlinks;                           /* arbitrary number of links of the first chain */
KSI_HashChainLink *g_vr_link_first;

static size_t vr_chains_length(KSI_LIST(KSI_AggregationHashChain) *l) { return g_vr_nchains; }
static int vr_chains_elementAt(KSI_LIST(KSI_AggregationHashChain) *l, size_t pos, KSI_AggregationHashChain **o) {
	__CPROVER_assert(l == &g_vr_chainlist && o != NULL, "chain list: the signature's list is asked");
	__CPROVER_assert(pos == 0, "chain list: loop-free rules consult the first chain only");
	if (pos >= g_vr_nchains) return KSI_BUFFER_OVERFLOW;       /* list.c elementAt */
	*o = g_vr_first;
	return KSI_OK;
}
static size_t vr_links_length(KSI_LIST(KSI_HashChainLink) *l) { return g_vr_nlinks; }
static int vr_links_elementAt(KSI_LIST(KSI_HashChainLink) *l, size_t pos, KSI_HashChainLink **o) {
	__CPROVER_assert(l == &g_vr_linklist && o != NULL, "link list: the first chain's list is asked");
	__CPROVER_assert(pos == 0, "link list: only the first link is consulted");
	if (pos >= g_vr_nlinks) return KSI_BUFFER_OVERFLOW;
	*o = g_vr_link_first;
	return KSI_OK;
}

/* ------------------------------------------------ assumed stubs: hash objects ------------------------------------------------ */
int KSI_DataHash_equals(const KSI_DataHash *left, const KSI_DataHash *right) {
	__CPROVER_assert(left == NULL || (vr_is_hash(left) && g_vr_h_ref[vr_hidx(left)] > 0), "equals: live hash object (left)");
	__CPROVER_assert(right == NULL || (vr_is_hash(right) && g_vr_h_ref[vr_hidx(right)] > 0), "equals: live hash object (right)");
	return vr_hash_eq(left, right);
}
int KSI_DataHash_getHashAlg(const KSI_DataHash *hash, KSI_HashAlgorithm *algo_id) {
	if (hash == NULL) return KSI_INVALID_ARGUMENT;
	if (algo_id == NULL) return KSI_INVALID_ARGUMENT;
	__CPROVER_assert(vr_is_hash(hash) && g_vr_h_ref[vr_hidx(hash)] > 0, "getHashAlg: live hash object");
	*algo_id = (KSI_HashAlgorithm)vr_alg(hash);
	return KSI_OK;
}
void KSI_DataHash_free(KSI_DataHash *h) {
	if (h == NULL) return;
	__CPROVER_assert(vr_is_hash(h), "free: a hash object of this world");
	__CPROVER_assert(g_vr_h_ref[vr_hidx(h)] > 0, "free of a dead hash object (double free)");
	g_vr_h_ref[vr_hidx(h)]--;
}
KSI_DataHash *KSI_DataHash_ref(KSI_DataHash *h) {
	if (h == NULL) return NULL;
	__CPROVER_assert(vr_is_hash(h) && g_vr_h_ref[vr_hidx(h)] > 0 && g_vr_h_ref[vr_hidx(h)] < 1000, "ref of a live hash object");
	g_vr_h_ref[vr_hidx(h)]++;
	return h;
}

/* ------------------------------------------------ world construction (called by the harness) ------------------------------------------------ */
#define VR_OPT(p) (nondet_bool() ? (p) : NULL)
static void vr_havoc_hash(int k) { g_vr_h_alg[k] = nondet_uchar(); g_vr_h_dig[k] = nondet_ull(); g_vr_h_ref[k] = 1; }
#ifdef VR_TIMES_BELOW_2P63      /* stated bound of the *_t63 jobs: every KSI time / integer of the world is below 2^63 */
static void vr_havoc_int(int k) { g_vr_int[k].value = nondet_ull() & 0x7fffffffffffffffULL; g_vr_int[k].ref = 1; }
#else
static void vr_havoc_int(int k) { g_vr_int[k].value = nondet_ull(); g_vr_int[k].ref = 1; }
#endif

/* No memset: fields the rules never read stay arbitrary (dfcc) / zero (plain mode); every field a rule may read is set
 * explicitly below.  (memset temporaries and byte-wise initialisation make the dereference case splits expensive.) */
static void vr_world_init(void) {
	vr_havoc_hash(VR_H_DOC); vr_havoc_hash(VR_H_IN0); vr_havoc_hash(VR_H_RFC); vr_havoc_hash(VR_H_CALIN); vr_havoc_hash(VR_H_CAR);
	vr_havoc_hash(VR_H_PUB); vr_havoc_hash(VR_H_AGGOUT); vr_havoc_hash(VR_H_NEW1); vr_havoc_hash(VR_H_NEW2); vr_havoc_hash(VR_H_LINK);
	g_vr_h_ref[VR_H_NEW1] = 0; g_vr_h_ref[VR_H_NEW2] = 0;          /* not yet produced */
	vr_havoc_int(VR_I_AGGRT0); vr_havoc_int(VR_I_LC0); vr_havoc_int(VR_I_ALG0); vr_havoc_int(VR_I_RFCT); vr_havoc_int(VR_I_RFC_TSTALG);
	vr_havoc_int(VR_I_RFC_SIGALG); vr_havoc_int(VR_I_CALPUBT); vr_havoc_int(VR_I_CALAGGRT); vr_havoc_int(VR_I_CART); vr_havoc_int(VR_I_PUBT);

	g_vr_int[VR_I_RFC_TSTALG].value &= 0x7fffffffULL; g_vr_int[VR_I_RFC_SIGALG].value &= 0x7fffffffULL; g_vr_int[VR_I_ALG0].value &= 0x7fffffffULL;   /* stated bound: algorithm ids below 2^31 */
	g_vr_chainlist.length = vr_chains_length; g_vr_chainlist.elementAt = vr_chains_elementAt;
	g_vr_linklist.length = vr_links_length; g_vr_linklist.elementAt = vr_links_elementAt;
	g_vr_nchains = nondet_size(); g_vr_nlinks = nondet_size();
	g_vr_first = VR_OPT(&g_vr_chain0); g_vr_link_first = VR_OPT(&g_vr_link0);

	g_vr_link0.ctx = VR_CTX; g_vr_link0.isLeft = nondet_int();
	g_vr_link0.levelCorrection = VR_OPT(&g_vr_int[VR_I_LC0]);
	g_vr_link0.imprint = VR_OPT(&g_vr_h[VR_H_LINK]); g_vr_link0.legacyId = NULL; g_vr_link0.metaData = NULL;

	g_vr_chain0.ctx = VR_CTX; g_vr_chain0.ref = 1;
	g_vr_chain0.aggregationTime = VR_OPT(&g_vr_int[VR_I_AGGRT0]);
	g_vr_chain0.inputHash = VR_OPT(&g_vr_h[VR_H_IN0]);
	g_vr_chain0.aggrHashId = VR_OPT(&g_vr_int[VR_I_ALG0]);
	g_vr_chain0.chain = VR_OPT(&g_vr_linklist);
	g_vr_chain0.outputLevel = nondet_int(); g_vr_chain0.inputLevel = nondet_int();
	g_vr_chain0.chainIndex = NULL; g_vr_chain0.inputData = NULL; g_vr_chain0.outputHash = NULL;

	g_vr_rfc.ctx = VR_CTX; g_vr_rfc.ref = 1;
	g_vr_rfc.aggregationTime = VR_OPT(&g_vr_int[VR_I_RFCT]);
	g_vr_rfc.inputHash = VR_OPT(&g_vr_h[VR_H_RFC]);
	g_vr_rfc.tstInfoAlgo = VR_OPT(&g_vr_int[VR_I_RFC_TSTALG]);
	g_vr_rfc.sigAttrAlgo = VR_OPT(&g_vr_int[VR_I_RFC_SIGALG]);
	g_vr_rfc.chainIndex = NULL; g_vr_rfc.tstInfoPrefix = NULL; g_vr_rfc.tstInfoSuffix = NULL; g_vr_rfc.sigAttrPrefix = NULL; g_vr_rfc.sigAttrSuffix = NULL;

	g_vr_cal.ctx = VR_CTX; g_vr_cal.ref = 1;
	g_vr_cal.publicationTime = VR_OPT(&g_vr_int[VR_I_CALPUBT]);
	g_vr_cal.aggregationTime = VR_OPT(&g_vr_int[VR_I_CALAGGRT]);
	g_vr_cal.inputHash = VR_OPT(&g_vr_h[VR_H_CALIN]); g_vr_cal.outputHash = NULL; g_vr_cal.hashChain = NULL;

	g_vr_pd_car.ctx = VR_CTX; g_vr_pd_car.ref = 1;
	g_vr_pd_car.time = VR_OPT(&g_vr_int[VR_I_CART]); g_vr_pd_car.imprint = VR_OPT(&g_vr_h[VR_H_CAR]); g_vr_pd_car.baseTlv = NULL;
	g_vr_pd_pub.ctx = VR_CTX; g_vr_pd_pub.ref = 1;
	g_vr_pd_pub.time = VR_OPT(&g_vr_int[VR_I_PUBT]); g_vr_pd_pub.imprint = VR_OPT(&g_vr_h[VR_H_PUB]); g_vr_pd_pub.baseTlv = NULL;
	g_vr_car.ctx = VR_CTX; g_vr_car.ref = 1; g_vr_car.pubData = VR_OPT(&g_vr_pd_car); g_vr_car.signatureData = NULL;
	g_vr_pubrec.ctx = VR_CTX; g_vr_pubrec.ref = 1; g_vr_pubrec.publishedData = VR_OPT(&g_vr_pd_pub); g_vr_pubrec.publicationRef = NULL; g_vr_pubrec.repositoryUriList = NULL;

	/* no memset: KSI_Signature embeds an 8 KB legacy result block the rules never touch (keeps counterexample traces small) */
	g_vr_sig.ctx = VR_CTX; g_vr_sig.ref = 1; g_vr_sig.baseTlv = NULL; g_vr_sig.aggregationAuthRec = NULL; g_vr_sig.policyVerificationResult = NULL;
	g_vr_sig.replaceCalendarChain = NULL; g_vr_sig.appendAggregationChain = NULL; g_vr_sig.removeCalAuthAndPublication = NULL;
	g_vr_sig.aggregationChainList = VR_OPT(&g_vr_chainlist);
	g_vr_sig.rfc3161 = VR_OPT(&g_vr_rfc);
	g_vr_sig.calendarChain = VR_OPT(&g_vr_cal);
	g_vr_sig.calendarAuthRec = VR_OPT(&g_vr_car);
	g_vr_sig.publication = VR_OPT(&g_vr_pubrec);

	g_vr_temp.calendarChain = NULL; g_vr_temp.publicationsFile = NULL;
	g_vr_temp.aggregationOutputHash = VR_OPT(&g_vr_h[VR_H_AGGOUT]);

	g_vr_info.ctx = VR_OPT(VR_CTX);
	g_vr_info.signature = VR_OPT(&g_vr_sig);
	g_vr_info.extendingAllowed = nondet_int();
	g_vr_info.docAggrLevel = nondet_ull();
	g_vr_info.documentHash = VR_OPT(&g_vr_h[VR_H_DOC]);
	g_vr_info.tempData = VR_OPT(&g_vr_temp); g_vr_info.userPublication = NULL; g_vr_info.userPublicationsFile = NULL;

	/* policy.c Rule_verify presets the result slot like this before every rule (asserted at the call site by C05.rule_verify) */
	g_vr_res.resultCode = KSI_VER_RES_NA; g_vr_res.errorCode = KSI_VER_ERR_GEN_2; g_vr_res.ruleName = NULL; g_vr_res.policyName = NULL;
	g_vr_res.status = KSI_OK; g_vr_res.statusExt = 0; g_vr_res.statusMessage = NULL;
	g_vr_res.stepsPerformed = nondet_size(); g_vr_res.stepsSuccessful = nondet_size(); g_vr_res.stepsFailed = nondet_size();
}

/* ------------------------------------------------ reading the world (property vocabulary) ------------------------------------------------ */
#define VR_INFO_OK(info) ((info) != NULL && (info)->ctx != NULL && (info)->signature != NULL)

/* the first aggregation chain, NULL when the signature has none */
static const KSI_AggregationHashChain *vr_first_chain(const KSI_Signature *sig) {
	if (sig->aggregationChainList == NULL || g_vr_nchains == 0) return NULL;
	return g_vr_first;
}
/* the first link of a chain, NULL when there is none */
static const KSI_HashChainLink *vr_first_link(const KSI_AggregationHashChain *c) {
	if (c == NULL || c->chain == NULL || g_vr_nlinks == 0) return NULL;
	return g_vr_link_first;
}
/* is the hash the signature was issued for determined (C02: the RFC3161 record's input hash for legacy signatures) */
static int vr_signed_hash_known(const KSI_Signature *sig) { return sig->rfc3161 != NULL || vr_first_chain(sig) != NULL; }
static const KSI_DataHash *vr_signed_hash(const KSI_Signature *sig) {
	return sig->rfc3161 != NULL ? sig->rfc3161->inputHash : vr_first_chain(sig)->inputHash;
}
/* signing time (hash.h / signature.h: aggregation time of the calendar chain, publication time when that is absent;
 * without calendar chain the aggregation time of the first aggregation chain) */
static int vr_signing_time_known(const KSI_Signature *sig) { return sig->calendarChain != NULL || vr_first_chain(sig) != NULL; }
static const KSI_Integer *vr_signing_time(const KSI_Signature *sig) {
	if (sig->calendarChain != NULL)
		return sig->calendarChain->aggregationTime != NULL ? sig->calendarChain->aggregationTime : sig->calendarChain->publicationTime;
	return vr_first_chain(sig)->aggregationTime;
}
/* time the calendar chain claims for the aggregation round: optional aggregation time, else the publication time */
static const KSI_Integer *vr_cal_time(const KSI_CalendarHashChain *cal) {
	return cal->aggregationTime != NULL ? cal->aggregationTime : cal->publicationTime;
}

/* ------------------------------------------------ expected verdicts: C02 ------------------------------------------------ */
static spec_verdict vr_exp_DocumentHashDoesNotExist(const KSI_VerificationContext *info) {
	if (info == NULL || info->ctx == NULL) return SPEC_VNA;
	return info->documentHash == NULL ? SPEC_VOK : SPEC_VSKIP;
}
static spec_verdict vr_exp_DocumentHashExistence(const KSI_VerificationContext *info) {
	if (info == NULL || info->ctx == NULL) return SPEC_VNA;
	return info->documentHash != NULL ? SPEC_VOK : SPEC_VSKIP;
}
static spec_verdict vr_exp_InputHashAlgorithmVerification(const KSI_VerificationContext *info) {
	if (!VR_INFO_OK(info) || info->documentHash == NULL) return SPEC_VNA;
	if (!vr_signed_hash_known(info->signature) || vr_signed_hash(info->signature) == NULL) return SPEC_VNA;
	return vr_alg(vr_signed_hash(info->signature)) != vr_alg(info->documentHash) ? SPEC_VFAIL(SPEC_VERR_GEN(4)) : SPEC_VOK;
}
static spec_verdict vr_exp_DocumentHashVerification(const KSI_VerificationContext *info) {
	if (!VR_INFO_OK(info) || info->documentHash == NULL) return SPEC_VNA;
	if (!vr_signed_hash_known(info->signature)) return SPEC_VNA;
	if (vr_signed_hash(info->signature) == NULL) return SPEC_VNOTOK;          /* mandatory input hash absent: malformed */
	return vr_hash_eq(vr_signed_hash(info->signature), info->documentHash) ? SPEC_VOK : SPEC_VFAIL(SPEC_VERR_GEN(1));
}
static spec_verdict vr_exp_AggregationChainInputLevelVerification(const KSI_VerificationContext *info) {
	const KSI_HashChainLink *l;
	if (!VR_INFO_OK(info)) return SPEC_VNA;
	l = vr_first_link(vr_first_chain(info->signature));
	return spec_level_verdict(info->docAggrLevel, info->signature->rfc3161 != NULL, l != NULL, l != NULL ? vr_u64(l->levelCorrection) : 0);
}

/* ------------------------------------------------ expected verdicts: C01, loop-free rules ------------------------------------------------ */
/* existence selectors */
static spec_verdict vr_exp_selector(const KSI_VerificationContext *info, int present, int want_present) {
	if (!VR_INFO_OK(info)) return SPEC_VNA;
	return (!present) == (!want_present) ? SPEC_VOK : SPEC_VSKIP;
}
/* "presence" rules of the key-based policy: a missing component is an inconclusive verdict that is recorded (GEN-02) */
static spec_verdict vr_exp_presence(const KSI_VerificationContext *info, int present) {
	if (!VR_INFO_OK(info)) return SPEC_VNA;
	return present ? SPEC_VOK : SPEC_VNA;
}
/* a KSI time is an unsigned 64-bit number of seconds; the algorithm tables speak of signed 64-bit seconds: times beyond
 * 2^63-1 are later than every date of the table */
static long long vr_time_ll(unsigned long long t) { return t > 0x7fffffffffffffffULL ? 0x7fffffffffffffffLL : (long long)t; }
/* INT-13: algorithm of the signed hash at signing time */
static spec_verdict vr_exp_AggregationChainInputHashAlgorithmVerification(const KSI_VerificationContext *info) {
	if (!VR_INFO_OK(info)) return SPEC_VNA;
	if (!vr_signed_hash_known(info->signature) || vr_signed_hash(info->signature) == NULL) return SPEC_VNA;
	if (!vr_signing_time_known(info->signature)) return SPEC_VNA;
	if (vr_signing_time(info->signature) == NULL) return SPEC_VANY;          /* mandatory time absent: malformed, no demand */
	return spec_alg_rule_fails(spec_hashalg_status_at(vr_alg(vr_signed_hash(info->signature)), vr_time_ll(vr_u64(vr_signing_time(info->signature)))))
		? SPEC_VFAIL(SPEC_VERR_INT(13)) : SPEC_VOK;
}
/* INT-17: algorithm of the RFC3161 record's output hash (= input hash of the first chain) at the record's aggregation time */
static spec_verdict vr_exp_Rfc3161RecordOutputHashAlgorithmVerification(const KSI_VerificationContext *info) {
	const KSI_AggregationHashChain *c;
	if (!VR_INFO_OK(info) || info->signature->rfc3161 == NULL) return SPEC_VNA;
	c = vr_first_chain(info->signature);
	if (c == NULL || c->inputHash == NULL) return SPEC_VNA;
	if (info->signature->rfc3161->aggregationTime == NULL) return SPEC_VANY;
	return spec_alg_rule_fails(spec_hashalg_status_at(vr_alg(c->inputHash), vr_time_ll(info->signature->rfc3161->aggregationTime->value)))
		? SPEC_VFAIL(SPEC_VERR_INT(17)) : SPEC_VOK;
}
/* INT-14: the two algorithms the RFC3161 record is composed with (TST info, signed attributes) at its aggregation time;
 * stated bound: algorithm ids below 2^31 */
static spec_verdict vr_exp_Rfc3161RecordHashAlgorithmVerification(const KSI_VerificationContext *info) {
	const KSI_RFC3161 *r;
	if (!VR_INFO_OK(info) || info->signature->rfc3161 == NULL) return SPEC_VNA;
	r = info->signature->rfc3161;
	if (r->aggregationTime == NULL || r->sigAttrAlgo == NULL || r->tstInfoAlgo == NULL) return SPEC_VANY;
	return (spec_alg_rule_fails(spec_hashalg_status_at((long long)r->sigAttrAlgo->value, vr_time_ll(r->aggregationTime->value))) ||
	        spec_alg_rule_fails(spec_hashalg_status_at((long long)r->tstInfoAlgo->value, vr_time_ll(r->aggregationTime->value))))
		? SPEC_VFAIL(SPEC_VERR_INT(14)) : SPEC_VOK;
}
/* INT-01, RFC3161 part: the output hash computed from the RFC3161 record (out_known / out: result of the hashing) equals
 * the input hash of the first chain; signatures without RFC3161 record pass */
static spec_verdict vr_exp_AggregationChainInputHashVerification(const KSI_VerificationContext *info, int out_known, const KSI_DataHash *out) {
	const KSI_AggregationHashChain *c;
	if (!VR_INFO_OK(info)) return SPEC_VNA;
	if (info->signature->rfc3161 == NULL) return SPEC_VOK;
	if (!out_known) return SPEC_VNA;
	if (info->signature->aggregationChainList == NULL) return SPEC_VNOTOK;      /* mandatory list absent: malformed */
	c = vr_first_chain(info->signature);
	if (c == NULL) return SPEC_VNA;
	if (c->inputHash == NULL) return SPEC_VNOTOK;
	return vr_hash_eq(out, c->inputHash) ? SPEC_VOK : SPEC_VFAIL(SPEC_VERR_INT(1));
}
/* INT-03: aggregation root (tempData, computed by the consistency rule) equals the calendar chain's input hash */
static spec_verdict vr_exp_CalendarHashChainInputHashVerification(const KSI_VerificationContext *info, const KSI_DataHash *aggrOut) {
	if (!VR_INFO_OK(info) || info->tempData == NULL || info->signature->calendarChain == NULL) return SPEC_VNA;
	if (aggrOut == NULL || info->signature->calendarChain->inputHash == NULL) return SPEC_VNA;
	return vr_hash_eq(aggrOut, info->signature->calendarChain->inputHash) ? SPEC_VOK : SPEC_VFAIL(SPEC_VERR_INT(3));
}
/* INT-04: calendar chain time equals the aggregation time of the aggregation chains */
static spec_verdict vr_exp_CalendarHashChainAggregationTime(const KSI_VerificationContext *info) {
	const KSI_AggregationHashChain *c;
	if (!VR_INFO_OK(info) || info->signature->calendarChain == NULL) return SPEC_VNA;
	c = vr_first_chain(info->signature);
	if (c == NULL) return SPEC_VNA;
	if (vr_cal_time(info->signature->calendarChain) == NULL || c->aggregationTime == NULL) return SPEC_VNOTOK;    /* mandatory times absent */
	return vr_int_eq(vr_cal_time(info->signature->calendarChain), c->aggregationTime) ? SPEC_VOK : SPEC_VFAIL(SPEC_VERR_INT(4));
}
/* INT-05: calendar chain time equals the time its shape encodes (time_known / shape_time: result of the shape calculation) */
static spec_verdict vr_exp_CalendarHashChainRegistrationTime(const KSI_VerificationContext *info, int shape_known, unsigned long long shape_time) {
	if (!VR_INFO_OK(info) || info->signature->calendarChain == NULL) return SPEC_VNA;
	if (!shape_known) return SPEC_VNA;
	if (vr_cal_time(info->signature->calendarChain) == NULL) return SPEC_VNOTOK;
	return vr_cal_time(info->signature->calendarChain)->value == shape_time ? SPEC_VOK : SPEC_VFAIL(SPEC_VERR_INT(5));
}
/* INT-08 / INT-09: calendar root (root_known / root: result of the calendar aggregation) equals the published imprint */
static spec_verdict vr_exp_cal_root_vs(const KSI_VerificationContext *info, int rec_present, const KSI_PublicationData *pd, int root_known, const KSI_DataHash *root, int code) {
	if (!VR_INFO_OK(info) || info->signature->calendarChain == NULL || !root_known) return SPEC_VNA;
	if (!rec_present || pd == NULL) return SPEC_VNA;
	if (root == NULL || pd->imprint == NULL) return SPEC_VNOTOK;
	return vr_hash_eq(root, pd->imprint) ? SPEC_VOK : SPEC_VFAIL(code);
}
/* INT-06 / INT-07: calendar chain publication time equals the record's publication time */
static spec_verdict vr_exp_cal_pubtime_vs(const KSI_VerificationContext *info, int rec_present, const KSI_PublicationData *pd, int code) {
	if (!VR_INFO_OK(info) || info->signature->calendarChain == NULL) return SPEC_VNA;
	if (!rec_present || pd == NULL) return SPEC_VNA;
	if (info->signature->calendarChain->publicationTime == NULL || pd->time == NULL) return SPEC_VNOTOK;
	return vr_int_eq(info->signature->calendarChain->publicationTime, pd->time) ? SPEC_VOK : SPEC_VFAIL(code);
}

/* outcome check used by every contract */
#define VR_OUTCOME(v, ret, result) spec_outcome_matches((v), (ret) == KSI_OK, (int)(result)->resultCode, (int)(result)->errorCode)
#endif
