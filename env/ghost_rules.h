/* Environment for policy.c Rule_verify (C05): basic rules are one nondeterministic stub that records what the
 * property observes.  ASSUMED: nothing about the rules - every (status, result code, error code) is possible. */
#ifndef ENV_GHOST_RULES_H
#define ENV_GHOST_RULES_H
#include "spec/ruleeval.h"
_Bool g_hard_stop;          /* some evaluated rule ended with FAIL or an internal error */
int g_last_res;             /* outcome of the rule evaluated last */
int g_last_code;
int g_last_err;
unsigned g_rule_calls;      /* number of basic rules invoked */
_Bool g_evaluated;          /* at least one basic rule was invoked */
unsigned g_added;           /* calls of the rule-result bookkeeping */
KSI_VerificationContext *g_ctx_p;
KSI_PolicyVerificationResult *g_pr_p;

static int stub_rule(KSI_VerificationContext *context, KSI_RuleVerificationResult *result) {
	__CPROVER_assert(!g_hard_stop, "no rule is invoked after a FAIL or an internal error");
	__CPROVER_assert(context == g_ctx_p && result == &g_pr_p->finalResult, "rule gets the caller's context and the policy's final result slot");
	__CPROVER_assert(result->resultCode == KSI_VER_RES_NA && result->errorCode == KSI_VER_ERR_GEN_2 && result->statusMessage == NULL,
			"the result slot is reset to inconclusive/GEN-2 before every rule");
	g_last_res = nondet_int();
	g_last_code = nondet_int();
	g_last_err = nondet_int();
	__CPROVER_assume(g_last_code == KSI_VER_RES_OK || g_last_code == KSI_VER_RES_NA || g_last_code == KSI_VER_RES_FAIL);
	result->resultCode = g_last_code;
	result->errorCode = g_last_err;
	if (spec_rule_hard_stop(g_last_res == KSI_OK, g_last_code == KSI_VER_RES_FAIL ? SPEC_RC_FAIL : SPEC_RC_OK)) g_hard_stop = 1;
	g_rule_calls++;
	g_evaluated = 1;
	return g_last_res;
}
#endif
