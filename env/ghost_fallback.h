/* Environment for KSI_SignatureVerifier_verify (C05 fallback semantics, C11 tempData reset).
 * Policies are the elements of g_pols[] (chain: element k falls back to element k+1 or to nothing). */
#ifndef ENV_GHOST_FALLBACK_H
#define ENV_GHOST_FALLBACK_H
#define C05_NPOL 8
struct KSI_Policy_st g_pols[C05_NPOL];
KSI_Rule g_rules_dummy[2];
unsigned g_pol_evals;             /* policies evaluated so far */
int g_last_pol_res, g_last_pol_code;
const KSI_Rule *g_last_rules;     /* rule list of the policy evaluated last */
_Bool g_fb_env_failed;
char g_tmp_hash_obj[8], g_tmp_cal_obj[8], g_tmp_pub_obj[8];
unsigned g_tmp_frees;
_Bool g_rv_left_cal, g_rv_left_pub, g_rv_left_hash;   /* (audit builderY) arbitrary per call of the replaced Rule_verify: which scratch objects the policy leaves in tempData */
KSI_DataHash *g_tmp_hash_p; KSI_CalendarHashChain *g_tmp_cal_p; KSI_PublicationsFile *g_tmp_pub_p;   /* typed aliases, set by the harness */

/* ASSUMED stubs */
void KSI_Signature_free(KSI_Signature *s) { }
KSI_Signature *KSI_Signature_ref(KSI_Signature *s) { return s; }
void KSI_DataHash_free(KSI_DataHash *h) { if (h != NULL) { __CPROVER_assert(h == (KSI_DataHash *)g_tmp_hash_obj, "tempData: frees its own hash"); g_tmp_frees++; } }
void KSI_CalendarHashChain_free(KSI_CalendarHashChain *c) { if (c != NULL) { __CPROVER_assert(c == (KSI_CalendarHashChain *)g_tmp_cal_obj, "tempData: frees its own chain"); g_tmp_frees++; } }
void KSI_PublicationsFile_free(KSI_PublicationsFile *p) { if (p != NULL) { __CPROVER_assert(p == (KSI_PublicationsFile *)g_tmp_pub_obj, "tempData: frees its own publications file"); g_tmp_frees++; } }
int KSI_List_new(void (*obj_free)(void *), KSI_List **list) { *list = NULL; return KSI_OK; }
void KSI_List_free(KSI_List *list) { }
#endif
