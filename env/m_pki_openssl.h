/* builderM - C18: ASSUMED OpenSSL environment for the orchestration functions of pkitruststore_openssl.c
 * (KSI_PKITruststore_verifyPKISignature, pki_truststore_verifySignature, KSI_PKITruststore_verifySignature,
 * KSI_PKITruststore_verifySignatureCertificate, KSI_PKISignature_extractCertificate, KSI_PKITruststore_verifyRawSignature).
 *
 * Every OpenSSL function is a stub with an ARBITRARY result that records its arguments and asserts the call protocol
 * (which object it is applied to).  The same text is used
 *   - by the CBMC harness obligations/C18/m_pki.c (choices = nondeterministic values), and
 *   - by the native replay driver replay/c18_m_pki.c (choices = enumerated script; OpenSSL names are renamed to m_*
 *     by macros so that the REAL pkitruststore_openssl.c, compiled natively, calls these stubs).
 * The scenario functions at the end (m_scn_*) build the arguments, call the REAL function once and check the
 * postconditions taken from the property text (C18: "reported trusted only if the PKCS#7 signature verifies over exactly
 * that range, the signer certificate chains to a configured trust anchor and every configured subject constraint (at
 * least one is required) matches"). */
#ifndef ENV_M_PKI_OPENSSL_H
#define ENV_M_PKI_OPENSSL_H

#ifdef NATIVE_REPLAY
/* ---- rename the OpenSSL entry points used by the functions under test ---- */
#define BIO_new_mem_buf m_BIO_new_mem_buf
#define BIO_free m_BIO_free
#define PKCS7_verify m_PKCS7_verify
#define ERR_error_string_n m_ERR_error_string_n
#define ERR_peek_last_error m_ERR_peek_last_error
#define PKCS7_get0_signers m_PKCS7_get0_signers
#define OPENSSL_sk_num m_OPENSSL_sk_num
#define OPENSSL_sk_delete m_OPENSSL_sk_delete
#define OPENSSL_sk_free m_OPENSSL_sk_free
#define X509_dup m_X509_dup
#define X509_free m_X509_free
#define X509_STORE_CTX_new m_X509_STORE_CTX_new
#define X509_STORE_CTX_init m_X509_STORE_CTX_init
#define X509_verify_cert m_X509_verify_cert
#define X509_STORE_CTX_get_error m_X509_STORE_CTX_get_error
#define X509_verify_cert_error_string m_X509_verify_cert_error_string
#define X509_STORE_CTX_free m_X509_STORE_CTX_free
#define X509_get_subject_name m_X509_get_subject_name
#define OBJ_txt2obj m_OBJ_txt2obj
#define ASN1_OBJECT_free m_ASN1_OBJECT_free
#define X509_NAME_get_text_by_OBJ m_X509_NAME_get_text_by_OBJ
#define EVP_MD_CTX_new m_EVP_MD_CTX_new
#define EVP_MD_CTX_reset m_EVP_MD_CTX_reset
#define EVP_MD_CTX_free m_EVP_MD_CTX_free
#define OBJ_obj2nid m_OBJ_obj2nid
#define OBJ_nid2sn m_OBJ_nid2sn
#define EVP_get_digestbyname m_EVP_get_digestbyname
#define EVP_sha256 m_EVP_sha256
#define EVP_sha1 m_EVP_sha1
#define EVP_ripemd160 m_EVP_ripemd160
#define EVP_sha384 m_EVP_sha384
#define EVP_sha512 m_EVP_sha512
#define X509_get_pubkey m_X509_get_pubkey
#define EVP_DigestInit m_EVP_DigestInit
#define EVP_DigestUpdate m_EVP_DigestUpdate
#define EVP_VerifyFinal m_EVP_VerifyFinal
#define EVP_PKEY_free m_EVP_PKEY_free
#endif

#include <limits.h>
#include <string.h>
#include <openssl/err.h>
#include <openssl/asn1.h>
#include <openssl/pkcs7.h>
#include <openssl/evp.h>
#include <openssl/x509.h>

/* ---- choices ---- */
#ifdef NATIVE_REPLAY
#include <stdio.h>
#include <stdlib.h>
#define M_MAXPICK 96
static int m_pick_val[M_MAXPICK], m_pick_dom[M_MAXPICK]; static unsigned m_pick_n;   /* odometer over the decision tree */
static int m_pick(int dom) { int v; if (m_pick_n >= M_MAXPICK) { printf("replay: too many choices\n"); exit(2); } v = m_pick_val[m_pick_n]; m_pick_dom[m_pick_n] = dom; m_pick_n++; return v % dom; }
static _Bool m_bool(void) { return m_pick(2) != 0; }
static int m_int(int lo, int hi) { return lo + m_pick(hi - lo + 1); }         /* native: a value of [lo, hi] */
static int m_int_in(int lo, int hi) { return m_int(lo, hi); }
static unsigned long m_ulong(void) { static const unsigned long v[3] = { 0, ERR_R_MALLOC_FAILURE, 100 }; return v[m_pick(3)]; }
static size_t m_size(void) { static const size_t v[5] = { 0, 3, (size_t)INT_MAX, (size_t)INT_MAX + 1, (size_t)UINT_MAX }; return v[m_pick(5)]; }
static char m_char(void) { static const char v[3] = { 0, 'a', 'b' }; return v[m_pick(3)]; }
static const char *m_failed_msg;
#define M_CHECK(c, msg) do { if (!(c)) { if (m_failed_msg == NULL) m_failed_msg = msg; } } while (0)
#define M_REACH(msg) do { } while (0)
#else
static _Bool m_bool(void) { return nondet_bool(); }
static int m_int(int lo, int hi) { return nondet_int(); }                     /* CBMC: ANY int (lo/hi only guide the native search) */
static int m_int_in(int lo, int hi) { int v = nondet_int(); __CPROVER_assume(v >= lo && v <= hi); return v; }
static unsigned long m_ulong(void) { return nondet_ull(); }
static size_t m_size(void) { return nondet_size(); }
static char m_char(void) { return (char)nondet_int(); }
#define M_CHECK(c, msg) __CPROVER_assert(c, msg)
#define M_REACH(msg) REACH(msg)
#endif
#ifndef IMPLIES
#define IMPLIES(a, b) (!(a) || (b))
#define IFF(a, b) ((!(a)) == (!(b)))
#endif

/* ---- the world the stubs describe ---- */
#define M_NC 2                         /* configured constraints (bound) */
#define M_SL 3                         /* value strings: <= 2 characters + NUL (bound) */
static char m_store_obj[4], m_p7certs_obj[4], m_stack_obj[4], m_signer_obj[4], m_signer_copy_obj[4], m_sctx_obj[4], m_bio_obj[4], m_subj_obj[4];
static char m_oid_obj[M_NC][4], m_oid_txt[M_NC][2], m_val[M_NC][M_SL], m_cert_val[M_NC][M_SL];
static _Bool m_cert_has[M_NC];
static STACK_OF(X509) *m_p7certs_p; /* the certificates carried inside THE PKCS#7 object (d.sign->cert) */
static PKCS7 *m_the_p7;                /* the PKCS#7 object of THE signature handed to the function under test */
static _Bool m_p7_signed;              /* that object is of type signedData (d.sign is a valid pointer only then) */
static int m_signers;                  /* number of signer certificates PKCS7_get0_signers finds */

/* recorded calls */
static unsigned m_bio_made, m_bio_freed; static const void *m_bio_buf; static int m_bio_len;
static unsigned m_p7v_calls; static int m_p7v_ret; static _Bool m_p7v_args_ok;
static unsigned m_get0_calls, m_x509_live, m_x509_dups, m_stack_live;
static unsigned m_sctx_made, m_sctx_freed, m_sctx_init_calls, m_xv_calls; static int m_sctx_init_ret, m_xv_ret; static _Bool m_sctx_init_args_ok, m_sctx_inited;
static unsigned m_subj_calls, m_oid_made, m_oid_freed, m_txt_calls;
static _Bool m_env_failed;             /* some OpenSSL service failed for a reason of its own (allocation, malformed object) */
static unsigned m_seq, m_t_p7v, m_t_xv, m_t_subj;   /* order of the three verification steps */

static void m_world_reset(void) {
	m_bio_made = m_bio_freed = 0; m_bio_buf = NULL; m_bio_len = 0; m_p7v_calls = 0; m_p7v_ret = 0; m_p7v_args_ok = 0;
	m_get0_calls = m_x509_live = m_x509_dups = m_stack_live = 0;
	m_sctx_made = m_sctx_freed = m_sctx_init_calls = m_xv_calls = 0; m_sctx_init_ret = 0; m_xv_ret = 0; m_sctx_init_args_ok = 0; m_sctx_inited = 0;
	m_subj_calls = m_oid_made = m_oid_freed = m_txt_calls = 0; m_env_failed = 0; m_seq = m_t_p7v = m_t_xv = m_t_subj = 0;
}

/* ---- BIO / PKCS7_verify ---- */
BIO *BIO_new_mem_buf(const void *buf, int len) {
	M_CHECK(len >= 0, "BIO_new_mem_buf: length is not negative");
	if (m_bool()) { m_env_failed = 1; return NULL; }
	m_bio_made++; m_bio_buf = buf; m_bio_len = len; return (BIO *)m_bio_obj;
}
int BIO_free(BIO *a) { if (a != NULL) { M_CHECK((char *)a == m_bio_obj, "BIO_free: the BIO made by this call"); m_bio_freed++; } return 1; }
int PKCS7_verify(PKCS7 *p7, STACK_OF(X509) *certs, X509_STORE *store, BIO *indata, BIO *out, int flags) {
	m_p7v_calls++; m_t_p7v = ++m_seq;
	m_p7v_args_ok = (p7 == m_the_p7 && (char *)indata == m_bio_obj && m_bio_made == 1 && m_bio_freed == 0 && certs == NULL && out == NULL && flags == PKCS7_NOVERIFY);
	m_p7v_ret = m_int(-1, 2);
	/* ASSUMED (OpenSSL pk7_smime.c: "if (!PKCS7_type_is_signed(p7)) ... return 0"): success only for signedData */
	if (!m_p7_signed && m_p7v_ret == 1) m_p7v_ret = 0;
	return m_p7v_ret;
}
void ERR_error_string_n(unsigned long e, char *buf, size_t len) { M_CHECK(buf != NULL && len >= 1 && len <= 1024, "ERR_error_string_n: buffer of the stated size"); buf[0] = 'E'; buf[len - 1] = 0; if (len > 1) buf[1] = 0; }
unsigned long ERR_peek_last_error(void) { return m_ulong(); }

/* ---- signer certificate extraction (the real KSI_PKISignature_extractCertificate runs) ---- */
STACK_OF(X509) *PKCS7_get0_signers(PKCS7 *p7, STACK_OF(X509) *certs, int flags) {
	M_CHECK(p7 == m_the_p7, "PKCS7_get0_signers: signer taken from THIS signature");
	m_get0_calls++;
	if (m_bool()) { m_env_failed = 1; return NULL; }
	m_stack_live++; return (STACK_OF(X509) *)m_stack_obj;
}
int OPENSSL_sk_num(const OPENSSL_STACK *st) { M_CHECK((const char *)st == m_stack_obj, "sk_num: the signer stack"); return m_signers; }
void *OPENSSL_sk_delete(OPENSSL_STACK *st, int loc) { M_CHECK((char *)st == m_stack_obj && loc == 0 && m_signers == 1, "sk_delete: the single signer"); return m_signer_obj; }
void OPENSSL_sk_free(OPENSSL_STACK *st) { if (st != NULL) { M_CHECK((char *)st == m_stack_obj, "sk_free: the signer stack"); m_stack_live--; } }
X509 *X509_dup(const X509 *x) { M_CHECK((const char *)x == m_signer_obj, "X509_dup: the signer certificate"); if (m_bool()) { m_env_failed = 1; return NULL; } m_x509_live++; m_x509_dups++; return (X509 *)m_signer_copy_obj; }
void X509_free(X509 *x) { if (x != NULL) { M_CHECK((char *)x == m_signer_copy_obj && m_x509_live > 0, "X509_free: a live certificate copy"); m_x509_live--; } }

/* ---- chain verification ---- */
X509_STORE_CTX *X509_STORE_CTX_new(void) { if (m_bool()) { m_env_failed = 1; return NULL; } m_sctx_made++; return (X509_STORE_CTX *)m_sctx_obj; }
int X509_STORE_CTX_init(X509_STORE_CTX *c, X509_STORE *trust_store, X509 *target, STACK_OF(X509) *untrusted) {
	m_sctx_init_calls++;
	m_sctx_init_args_ok = ((char *)c == m_sctx_obj && (char *)trust_store == m_store_obj && (char *)target == m_signer_copy_obj && m_x509_live > 0 && untrusted == m_p7certs_p);
	m_sctx_init_ret = m_int(0, 1); if (m_sctx_init_ret == 0) m_env_failed = 1;
	m_sctx_inited = (m_sctx_init_ret != 0);
	return m_sctx_init_ret;
}
int X509_verify_cert(X509_STORE_CTX *c) {
	M_CHECK((char *)c == m_sctx_obj && m_sctx_inited && m_sctx_freed == 0 && m_x509_live > 0, "X509_verify_cert: on the initialised store context, target certificate alive");
	m_xv_calls++; m_t_xv = ++m_seq; m_xv_ret = m_int(-1, 2); return m_xv_ret;
}
int X509_STORE_CTX_get_error(const X509_STORE_CTX *c) { M_CHECK((const char *)c == m_sctx_obj && m_sctx_freed == 0, "get_error: live store context"); return m_int(0, 1); }
const char *X509_verify_cert_error_string(long n) { return "x"; }
void X509_STORE_CTX_free(X509_STORE_CTX *c) { if (c != NULL) { M_CHECK((char *)c == m_sctx_obj, "X509_STORE_CTX_free: the context made by this call"); m_sctx_freed++; } }

/* ---- subject constraints (model of the lead's C18.pki_constraints job) ---- */
X509_NAME *X509_get_subject_name(const X509 *a) {
	M_CHECK((const char *)a == m_signer_copy_obj && m_x509_live > 0, "subject of the signer certificate of THIS signature");
	m_subj_calls++; m_t_subj = ++m_seq;
	if (m_bool()) { m_env_failed = 1; return NULL; } return (X509_NAME *)m_subj_obj;
}
ASN1_OBJECT *OBJ_txt2obj(const char *s, int no_name) {
	int k = (s == m_oid_txt[0]) ? 0 : 1;
	M_CHECK(s == m_oid_txt[0] || s == m_oid_txt[1], "OBJ_txt2obj: OID text of a configured constraint (or the algorithm OID)");
	if (m_bool()) { m_env_failed = 1; return NULL; }
	m_oid_made++; return (ASN1_OBJECT *)m_oid_obj[k];
}
void ASN1_OBJECT_free(ASN1_OBJECT *a) { if (a != NULL) m_oid_freed++; }
int X509_NAME_get_text_by_OBJ(const X509_NAME *name, const ASN1_OBJECT *obj, char *buf, int len) {
	int k = ((const char *)obj == m_oid_obj[0]) ? 0 : 1, i;
	M_CHECK((const char *)name == m_subj_obj && ((const char *)obj == m_oid_obj[0] || (const char *)obj == m_oid_obj[1]) && len >= M_SL, "subject text lookup for a configured OID");
	m_txt_calls++;
	if (!m_cert_has[k]) return -1;
	for (i = 0; i < M_SL; i++) buf[i] = m_cert_val[k][i];
	return (int)strlen(m_cert_val[k]);
}

/* ---- raw signature verification (EVP) ---- */
static char m_md_ctx_obj[4], m_md_obj[6][4], m_pkey_obj[4], m_cert_x509_obj[4];
static unsigned m_md_made, m_md_freed, m_md_resets, m_pkey_made, m_pkey_freed, m_upd_calls, m_fin_calls; static int m_md_kind, m_fin_ret;
static _Bool m_init_ok, m_upd_args_ok, m_fin_args_ok, m_md_inited;
static void m_raw_reset(void) { m_md_made = m_md_freed = m_md_resets = m_pkey_made = m_pkey_freed = m_upd_calls = m_fin_calls = 0; m_md_kind = 0; m_fin_ret = 0; m_init_ok = m_upd_args_ok = m_fin_args_ok = m_md_inited = 0; }
EVP_MD_CTX *EVP_MD_CTX_new(void) { if (m_bool()) { m_env_failed = 1; return NULL; } m_md_made++; return (EVP_MD_CTX *)m_md_ctx_obj; }
int EVP_MD_CTX_reset(EVP_MD_CTX *c) { M_CHECK((char *)c == m_md_ctx_obj && m_md_freed == 0, "EVP_MD_CTX_reset: live digest context"); m_md_resets++; return 1; }
void EVP_MD_CTX_free(EVP_MD_CTX *c) { if (c != NULL) { M_CHECK((char *)c == m_md_ctx_obj, "EVP_MD_CTX_free: the context made by this call"); m_md_freed++; } }
int OBJ_obj2nid(const ASN1_OBJECT *o) { M_CHECK((const char *)o == m_oid_obj[0], "digest looked up for the algorithm OID given"); return 7; }
const char *OBJ_nid2sn(int n) { return "md"; }
/* m_md_kind: 0 = no such digest, 1..5 = sha256, sha1, ripemd160, sha384, sha512, 6 = a digest libksi does not know */
const EVP_MD *EVP_get_digestbyname(const char *name) { m_md_kind = m_int_in(0, 6); if (m_md_kind == 0) return NULL; return (const EVP_MD *)m_md_obj[m_md_kind - 1]; }
const EVP_MD *EVP_sha256(void) { return (const EVP_MD *)m_md_obj[0]; }
const EVP_MD *EVP_sha1(void) { return (const EVP_MD *)m_md_obj[1]; }
const EVP_MD *EVP_ripemd160(void) { return (const EVP_MD *)m_md_obj[2]; }
const EVP_MD *EVP_sha384(void) { return (const EVP_MD *)m_md_obj[3]; }
const EVP_MD *EVP_sha512(void) { return (const EVP_MD *)m_md_obj[4]; }
EVP_PKEY *X509_get_pubkey(X509 *x) { M_CHECK((char *)x == m_cert_x509_obj, "public key of THE certificate given"); if (m_bool()) { m_env_failed = 1; return NULL; } m_pkey_made++; return (EVP_PKEY *)m_pkey_obj; }
void EVP_PKEY_free(EVP_PKEY *k) { if (k != NULL) { M_CHECK((char *)k == m_pkey_obj, "EVP_PKEY_free: the key fetched by this call"); m_pkey_freed++; } }
int EVP_DigestInit(EVP_MD_CTX *c, const EVP_MD *type) {
	M_CHECK((char *)c == m_md_ctx_obj && m_md_kind >= 1 && m_md_kind <= 5 && (const char *)type == m_md_obj[m_md_kind - 1], "EVP_VerifyInit: with the digest named by the algorithm OID");
	m_init_ok = m_bool(); if (!m_init_ok) m_env_failed = 1; m_md_inited = m_init_ok; return m_init_ok;
}
static const void *m_upd_data; static size_t m_upd_len; static const unsigned char *m_fin_sig; static unsigned m_fin_len;
int EVP_DigestUpdate(EVP_MD_CTX *c, const void *d, size_t cnt) {
	M_CHECK((char *)c == m_md_ctx_obj && m_md_inited, "EVP_VerifyUpdate: on the initialised digest context");
	m_upd_calls++; m_upd_data = d; m_upd_len = cnt; if (m_bool()) { m_env_failed = 1; return 0; } return 1;
}
int EVP_VerifyFinal(EVP_MD_CTX *c, const unsigned char *sigbuf, unsigned int siglen, EVP_PKEY *pkey) {
	M_CHECK((char *)c == m_md_ctx_obj && m_md_inited && m_upd_calls == 1 && (char *)pkey == m_pkey_obj && m_pkey_freed == 0, "EVP_VerifyFinal: after the update, with the certificate's key");
	m_fin_calls++; m_fin_sig = sigbuf; m_fin_len = siglen;
	/* ASSUMED domain (EVP_VerifyFinal(3): "1 for a correct signature, 0 for failure and a negative value if some other error occurred") */
	m_fin_ret = m_int_in(-1, 1); return m_fin_ret;
}

/* KSI_snprintf (compatibility.c; its own jobs: C12.compat_*) - only used to format the error text */
#ifndef NATIVE_REPLAY
size_t KSI_snprintf(char *buf, size_t n, const char *format, ...) { __CPROVER_assert(buf != NULL && n == 1024, "KSI_snprintf: message buffer of its real size"); buf[0] = 0; return 0; }
#endif
#endif
