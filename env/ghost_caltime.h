/* Ghost monitor for a calendar hash chain given as a model list (DESIGN 3.3).
 * The list's length/elementAt call-backs are these stubs: each fetched element is a fresh
 * nondeterministic link; the stub advances the reference machine of spec/caltime.h with the same
 * element and asserts the traversal protocol (root first = last index first, one by one). */
#ifndef ENV_GHOST_CALTIME_H
#define ENV_GHOST_CALTIME_H
#include "spec/caltime.h"

size_t g_cal_len;            /* length of the model list (arbitrary, fixed during the call) */
size_t g_cal_calls;          /* number of elements fetched so far */
spec_cal_state g_cal;        /* reference machine */
struct KSI_HashChainLink_st g_cal_link;   /* storage of the element handed out last */

static size_t cal_stub_length(KSI_LIST(KSI_HashChainLink) *l) { return g_cal_len; }

static int cal_stub_elementAt(KSI_LIST(KSI_HashChainLink) *l, size_t pos, KSI_HashChainLink **o) {
	__CPROVER_assert(g_cal_calls < g_cal_len, "protocol: no fetch beyond the list");
	__CPROVER_assert(pos == g_cal_len - 1 - g_cal_calls, "protocol: links are taken from the last to the first, each once");
	g_cal_link.isLeft = nondet_bool();
	spec_cal_step(&g_cal, g_cal_link.isLeft);
	g_cal_calls++;
	*o = &g_cal_link;
	return KSI_OK;
}
#endif
