/* Ghost model of the publication list of a publications file for the lookups (C18), DESIGN 3.3.
 * The list's length/elementAt call-backs are these stubs.  Each fetched element is a publication record with a fresh
 * nondeterministic publication time; the stub advances the reference scan of spec/pubfile.h with the same time and
 * asserts the traversal protocol (index 0, 1, 2, ... each once).
 * Storage: the lookups keep a pointer to the best record so far across iterations, so elements must stay distinct
 * objects while they can still be referenced: three slots; the stub never reuses the slot of the reference-best
 * element (g18l_best: first element that reached the best time) nor of the latest element tied with it (g18l_alt) -
 * any correct implementation holds one of those two, whatever its tie-breaking.
 * Include after types_base.c (struct KSI_Integer_st) and impl/publicationsfile_impl.h. */
#ifndef ENV_C18_PUBLIST_H
#define ENV_C18_PUBLIST_H
#include "spec/pubfile.h"

size_t g18l_len;                 /* length of the model list (arbitrary, fixed during the call) */
size_t g18l_calls;               /* elements fetched so far */
int g18l_mode;                   /* 0 nearest (earliest >= t), 1 latest (>= t if a time is given), 2 by time (== t) */
int g18l_have_t; unsigned long long g18l_t;      /* the query */
spec_pub_scan g18l_ref;          /* reference scan state */
int g18l_best, g18l_alt;         /* slots of the reference-best element / the latest element tied with it; -1: none */
size_t g18l_match_calls;         /* mode 2: number of elements fetched when the first match was handed out (0: none) */
struct KSI_Integer_st g18l_tm[3];
KSI_PublicationData g18l_pd[3];
KSI_PublicationRecord g18l_rec[3];
struct KSI_PublicationRecord_list_st g18l_list;

static size_t g18l_length(KSI_LIST(KSI_PublicationRecord) *l) { return g18l_len; }

static int g18l_elementAt(KSI_LIST(KSI_PublicationRecord) *l, size_t pos, KSI_PublicationRecord **o) {
	int c; unsigned long long tm = nondet_ull(); int had = g18l_ref.has; unsigned long long old = g18l_ref.best;
	__CPROVER_assert(g18l_calls < g18l_len, "protocol: no fetch beyond the list");
	__CPROVER_assert(pos == g18l_calls, "protocol: elements are taken in order, each once");
	c = (g18l_best != 0 && g18l_alt != 0) ? 0 : (g18l_best != 1 && g18l_alt != 1) ? 1 : 2;
	g18l_tm[c].value = tm;
	if (g18l_mode == 0) spec_pub_nearest_step(&g18l_ref, g18l_t, tm);
	else if (g18l_mode == 1) spec_pub_latest_step(&g18l_ref, g18l_have_t, g18l_t, tm);
	else if (!g18l_ref.has && tm == g18l_t) { g18l_ref.has = 1; g18l_ref.best = tm; g18l_match_calls = g18l_calls + 1; }
	if (g18l_ref.has && (!had || g18l_ref.best != old)) { g18l_best = c; g18l_alt = c; }          /* strictly better */
	else if (g18l_mode != 2 && g18l_ref.has && tm == g18l_ref.best && (g18l_mode == 0 || !g18l_have_t || tm >= g18l_t)) g18l_alt = c;   /* tie */
	g18l_calls++;
	*o = &g18l_rec[c];
	return KSI_OK;
}

static void g18l_setup(void) {
	int k;
	memset(&g18l_list, 0, sizeof(g18l_list));
	g18l_list.length = g18l_length; g18l_list.elementAt = g18l_elementAt;
	for (k = 0; k < 3; k++) {
		memset(&g18l_rec[k], 0, sizeof(g18l_rec[k])); memset(&g18l_pd[k], 0, sizeof(g18l_pd[k]));
		g18l_rec[k].ref = 1; g18l_rec[k].publishedData = &g18l_pd[k]; g18l_pd[k].ref = 1; g18l_pd[k].time = &g18l_tm[k];
		g18l_tm[k].ref = 1; g18l_tm[k].value = nondet_ull();
	}
	g18l_len = nondet_size(); g18l_calls = 0; g18l_best = -1; g18l_alt = -1; g18l_match_calls = 0;
	spec_pub_scan_init(&g18l_ref);
	g18l_have_t = 1; g18l_t = nondet_ull();
}
#define ENV_C18_PUBLIST_ASSUMED "publication list = model list (env/c18_publist.h): arbitrary length, every element a well-formed record (published data and time present - mandatory in the templates, C10.tables_*), elementAt never fails"
#endif
