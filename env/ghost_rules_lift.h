/* C05 lift (builderV): one basic-rule stub per list position on top of env/ghost_rules.h.  The stub of position k asserts that exactly k (modulo C05L_NSTUB) elements of the
 * list under enforcement were evaluated before it (elements are taken in list order, each once) and counts itself; everything else
 * (arbitrary outcome, "no rule after a FAIL or an error", result slot reset) is stub_rule of env/ghost_rules.h.
 * ASSUMED: nothing about the rules - every (status, result code, error code) is possible. */
#ifndef ENV_GHOST_RULES_LIFT_H
#define ENV_GHOST_RULES_LIFT_H
#include "env/ghost_rules.h"
#ifndef C05L_NSTUB
#define C05L_NSTUB 15         /* number of distinct stub functions; position k uses stub (k % C05L_NSTUB) */
#endif
unsigned long g_seq;          /* elements of the list under enforcement evaluated so far (basic: counted by the stub; composite: by the replaced contract) */
static int stub_at(unsigned long j, KSI_VerificationContext *context, KSI_RuleVerificationResult *result) {
	__CPROVER_assert(g_seq % C05L_NSTUB == j, "elements are evaluated in list order, each exactly once (position of the element, modulo the number of stubs)");
	g_seq = g_seq + 1;
	return stub_rule(context, result);
}
#define C05L_STUB(k) static int stub_##k(KSI_VerificationContext *c, KSI_RuleVerificationResult *r) { return stub_at(k % C05L_NSTUB, c, r); }
C05L_STUB(0) C05L_STUB(1) C05L_STUB(2) C05L_STUB(3) C05L_STUB(4) C05L_STUB(5) C05L_STUB(6) C05L_STUB(7)
C05L_STUB(8) C05L_STUB(9) C05L_STUB(10) C05L_STUB(11) C05L_STUB(12) C05L_STUB(13) C05L_STUB(14)
typedef int (*c05l_verifier)(KSI_VerificationContext *, KSI_RuleVerificationResult *);
static const c05l_verifier c05l_stub[15] = { stub_0, stub_1, stub_2, stub_3, stub_4, stub_5, stub_6, stub_7, stub_8, stub_9, stub_10, stub_11, stub_12, stub_13, stub_14 };
#define C05L_STUB_AT(k) (c05l_stub[(k) % C05L_NSTUB])
#endif
