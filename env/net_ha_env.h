/* Environment of net_ha.c for C15 (assumed behaviour, listed in the jobs' "assumed"):
 *  - KSI_isHashAlgorithmTrusted: a pure function of the algorithm id (uninterpreted), false for ids
 *    outside 0..0xff;  KSI_getHashAlgorithmName: returns some constant string (only used for logging). */
#ifndef ENV_NET_HA_ENV_H
#define ENV_NET_HA_ENV_H
#include "env/common.h"
#include "hash.h"

int __CPROVER_uninterpreted_ha_algo_trusted(int id);
static int ha_env_algo_trusted(int id) { return id >= 0 && id <= 0xff && __CPROVER_uninterpreted_ha_algo_trusted(id) != 0; }

int KSI_isHashAlgorithmTrusted(KSI_HashAlgorithm algo_id) { return ha_env_algo_trusted((int)algo_id); }
const char *KSI_getHashAlgorithmName(KSI_HashAlgorithm algo_id) { return "alg"; }

#define ENV_NET_HA_ASSUMED "KSI_isHashAlgorithmTrusted: pure (uninterpreted) function of the algorithm id, false outside 0..0xff; KSI_getHashAlgorithmName: constant string (log only)"
#endif
