/* Assumed environment of blocksigner.c for KSI_BlockSigner_new / KSI_BlockSigner_reset (C16, C19).
 *   - KSI_TreeBuilder_new: returns a fresh builder (algo as given, no root, empty leaf-processor list) or an
 *     error; KSI_TreeBuilder_free: reference counted release of builder + list              [ASSUMED]
 *   - the leaf-processor list of a builder is a MODEL list (DESIGN 4 "Lists"): its append call-back records
 *     the appended elements of the most recently created builder, in order, in g_cb_el[0..g_cb_n)
 *     (append may fail with KSI_OUT_OF_MEMORY, then nothing is recorded)       [obligations of C19.list_*]
 *   - hash / octet string / signature objects: reference counted heap objects               [ASSUMED]
 *   - KSI_DataHasher_open/free, KSI_isHashAlgorithmTrusted, KSI_getHashLength               [ASSUMED] */
#ifndef ENV_BLOCKSIGNER_ENV_H
#define ENV_BLOCKSIGNER_ENV_H
#include <stdlib.h>
#include "env/common.h"
#include "hash.h"
#include "impl/hash_impl.h"
#include "tree_builder.h"
#include "blocksigner.h"

struct KSI_OctetString_st { KSI_CTX *ctx; size_t ref; unsigned char *data; size_t data_len; };

KSI_BlockSigner *g_bs_out;                            /* receives the result of KSI_BlockSigner_new */
#define CB_MAX 4
KSI_TreeBuilderLeafProcessor *g_cb_el[CB_MAX];
size_t g_cb_n;
KSI_LIST(KSI_TreeBuilderLeafProcessor) *g_cb_list;   /* list the record belongs to */
KSI_TreeBuilder *g_tb_last;                           /* builder made by the last successful KSI_TreeBuilder_new */
unsigned g_tb_new_calls, g_tb_free_calls, g_sig_free_calls;
KSI_TreeBuilder *g_tb_freed;                          /* builder handed to the last KSI_TreeBuilder_free */
KSI_Signature *g_sig_freed;

static int cb_stub_append(KSI_LIST(KSI_TreeBuilderLeafProcessor) *l, KSI_TreeBuilderLeafProcessor *o) {
	if (nondet_bool()) return KSI_OUT_OF_MEMORY;
	if (l == g_cb_list) {
		if (g_cb_n < CB_MAX) g_cb_el[g_cb_n] = o;
		g_cb_n++;
	}
	return KSI_OK;
}
static size_t cb_stub_length(KSI_LIST(KSI_TreeBuilderLeafProcessor) *l) { return l == g_cb_list ? g_cb_n : 0; }

int KSI_TreeBuilder_new(KSI_CTX *ctx, KSI_HashAlgorithm algo, KSI_TreeBuilder **builder) {
	KSI_TreeBuilder *b; KSI_LIST(KSI_TreeBuilderLeafProcessor) *l;
	g_tb_new_calls++;
	if (ctx == NULL || builder == NULL) return KSI_INVALID_ARGUMENT;
	if (nondet_bool()) return KSI_UNAVAILABLE_HASH_ALGORITHM;
	b = malloc(sizeof(*b));
	if (b == NULL) return KSI_OUT_OF_MEMORY;
	l = malloc(sizeof(*l));
	if (l == NULL) { free(b); return KSI_OUT_OF_MEMORY; }
	memset(l, 0, sizeof(*l));
	l->append = cb_stub_append; l->length = cb_stub_length;
	b->ctx = ctx; b->ref = 1; b->rootNode = NULL; b->algo = algo; b->cbList = l; b->hsr = NULL; b->maxTreeLevel = 0;
	g_cb_list = l; g_cb_n = 0; g_tb_last = b;
	*builder = b;
	return KSI_OK;
}
void KSI_TreeBuilder_free(KSI_TreeBuilder *b) {
	if (b != NULL) { g_tb_free_calls++; g_tb_freed = b; }
	if (b != NULL && --b->ref == 0) { free(b->cbList); free(b); }
}

KSI_DataHash *KSI_DataHash_ref(KSI_DataHash *h) { if (h != NULL) h->ref++; return h; }
void KSI_DataHash_free(KSI_DataHash *h) { if (h != NULL && --h->ref == 0) free(h); }
KSI_OctetString *KSI_OctetString_ref(KSI_OctetString *o) { if (o != NULL) o->ref++; return o; }
void KSI_OctetString_free(KSI_OctetString *o) { if (o != NULL && --o->ref == 0) free(o); }
int KSI_OctetString_extract(const KSI_OctetString *o, const unsigned char **data, size_t *len) {
	if (o == NULL || data == NULL || len == NULL) return KSI_INVALID_ARGUMENT;
	*data = o->data; *len = o->data_len; return KSI_OK;
}
struct KSI_Signature_st { size_t ref; };
void KSI_Signature_free(KSI_Signature *s) { if (s != NULL) { g_sig_free_calls++; g_sig_freed = s; if (--s->ref == 0) free(s); } }

static struct KSI_DataHasher_st g_bs_hsr_obj;
int KSI_DataHasher_open(KSI_CTX *ctx, KSI_HashAlgorithm algo, KSI_DataHasher **h) {
	if (ctx == NULL || h == NULL) return KSI_INVALID_ARGUMENT;
	if (nondet_bool()) return KSI_OUT_OF_MEMORY;
	*h = &g_bs_hsr_obj; return KSI_OK;
}
void KSI_DataHasher_free(KSI_DataHasher *h) { }
int KSI_isHashAlgorithmTrusted(KSI_HashAlgorithm algo) { return nondet_bool(); }
unsigned int KSI_getHashLength(KSI_HashAlgorithm algo) { return nondet_uint(); }
#endif
