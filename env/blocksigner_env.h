/* Assumed environment of blocksigner.c for KSI_BlockSigner_new / KSI_BlockSigner_reset (C16, C19).
 *   - KSI_TreeBuilder_new: returns a fresh builder (algo as given, no root, empty leaf-processor list) or an
 *     error; KSI_TreeBuilder_free: reference counted release of builder + list              [ASSUMED]
 *   - the leaf-processor list of a builder is a MODEL list (DESIGN 4 "Lists"): its append call-back records
 *     the appended elements of the most recently created builder, in order, in g_cb_el[0..g_cb_n)
 *     (append may fail with KSI_OUT_OF_MEMORY, then nothing is recorded)       [obligations of C19.list_*]
 *   - hash / octet string / signature objects: reference counted heap objects               [ASSUMED]
 *   - KSI_DataHasher_open/free, KSI_isHashAlgorithmTrusted, KSI_getHashLength               [ASSUMED] */
#ifndef ENV_BLOCKSIGNER_ENV_H
#define ENV_BLOCKSIGNER_ENV_H
#include <stdlib.h>
#include "env/common.h"
#include "hash.h"
#include "impl/hash_impl.h"
#include "tree_builder.h"
#include "blocksigner.h"

struct KSI_OctetString_st { KSI_CTX *ctx; size_t ref; unsigned char *data; size_t data_len; };

KSI_BlockSignerHandle *g_bsh_out;                      /* receives the handle of KSI_BlockSigner_addLeaf */
KSI_BlockSigner *g_bs_out;                            /* receives the result of KSI_BlockSigner_new */
#define CB_MAX 4
KSI_TreeBuilderLeafProcessor *g_cb_el[CB_MAX];
size_t g_cb_n;
KSI_LIST(KSI_TreeBuilderLeafProcessor) *g_cb_list;   /* list the record belongs to */
KSI_TreeBuilder *g_tb_last;                           /* builder made by the last successful KSI_TreeBuilder_new */
unsigned g_tb_new_calls, g_tb_free_calls, g_sig_free_calls;
KSI_TreeBuilder *g_tb_freed;                          /* builder handed to the last KSI_TreeBuilder_free */
KSI_Signature *g_sig_freed;

static int cb_stub_append(KSI_LIST(KSI_TreeBuilderLeafProcessor) *l, KSI_TreeBuilderLeafProcessor *o) {
	if (nondet_bool()) return KSI_OUT_OF_MEMORY;
	if (l == g_cb_list) {
		if (g_cb_n < CB_MAX) g_cb_el[g_cb_n] = o;
		g_cb_n++;
	}
	return KSI_OK;
}
static size_t cb_stub_length(KSI_LIST(KSI_TreeBuilderLeafProcessor) *l) { return l == g_cb_list ? g_cb_n : 0; }

int KSI_TreeBuilder_new(KSI_CTX *ctx, KSI_HashAlgorithm algo, KSI_TreeBuilder **builder) {
	KSI_TreeBuilder *b; KSI_LIST(KSI_TreeBuilderLeafProcessor) *l;
	g_tb_new_calls++;
	if (ctx == NULL || builder == NULL) return KSI_INVALID_ARGUMENT;
	if (nondet_bool()) return KSI_UNAVAILABLE_HASH_ALGORITHM;
	b = malloc(sizeof(*b));
	if (b == NULL) return KSI_OUT_OF_MEMORY;
	l = malloc(sizeof(*l));
	if (l == NULL) { free(b); return KSI_OUT_OF_MEMORY; }
	memset(l, 0, sizeof(*l));
	l->append = cb_stub_append; l->length = cb_stub_length;
	b->ctx = ctx; b->ref = 1; b->rootNode = NULL; b->algo = algo; b->cbList = l; b->hsr = NULL; b->maxTreeLevel = 0;
	g_cb_list = l; g_cb_n = 0; g_tb_last = b;
	*builder = b;
	return KSI_OK;
}
void KSI_TreeBuilder_free(KSI_TreeBuilder *b) {
	if (b != NULL) { g_tb_free_calls++; g_tb_freed = b; }
	if (b != NULL && --b->ref == 0) { free(b->cbList); free(b); }
}

KSI_DataHash *KSI_DataHash_ref(KSI_DataHash *h) { if (h != NULL) h->ref++; return h; }
void KSI_DataHash_free(KSI_DataHash *h) { if (h != NULL && --h->ref == 0) free(h); }
KSI_OctetString *KSI_OctetString_ref(KSI_OctetString *o) { if (o != NULL) o->ref++; return o; }
void KSI_OctetString_free(KSI_OctetString *o) { if (o != NULL && --o->ref == 0) free(o); }
int KSI_OctetString_extract(const KSI_OctetString *o, const unsigned char **data, size_t *len) {
	if (o == NULL || data == NULL || len == NULL) return KSI_INVALID_ARGUMENT;
	*data = o->data; *len = o->data_len; return KSI_OK;
}
struct KSI_Signature_st { size_t ref; };
void KSI_Signature_free(KSI_Signature *s) { if (s != NULL) { g_sig_free_calls++; g_sig_freed = s; if (--s->ref == 0) free(s); } }

/* ---- the tree builder's leaf path as seen by the block signer (KSI_BlockSigner_addLeaf job) -------------------
 * KSI_TreeBuilder_addDataHash runs every leaf processor of the builder once, in list order, on the node made for
 * the leaf (tree_builder.c processAndInsertNode), then inserts; any processor, the insertion or an allocation may
 * fail.  g_add_res records whether the leaf finally IS in the tree.                                   [ASSUMED] */
struct KSI_TreeLeafHandle_st { size_t ref; };
unsigned g_add_calls; int g_add_res; long g_bs_live;      /* g_bs_live: nodes / handles made here and not released */
int KSI_TreeNode_new(KSI_CTX *ctx, KSI_DataHash *hash, KSI_MetaData *metaData, int level, KSI_TreeNode **node) {
	KSI_TreeNode *n;
	if (ctx == NULL || node == NULL || ((hash == NULL) == (metaData == NULL)) || level < 0 || level > 0xff) return KSI_INVALID_ARGUMENT;
	n = malloc(sizeof(*n));
	if (n == NULL) return KSI_OUT_OF_MEMORY;
	n->ctx = ctx; n->hash = KSI_DataHash_ref(hash); n->metaData = metaData; n->level = (unsigned)level; n->parent = NULL; n->leftChild = NULL; n->rightChild = NULL;
	g_bs_live++; *node = n; return KSI_OK;
}
void KSI_TreeNode_free(KSI_TreeNode *n) { if (n != NULL) { KSI_DataHash_free(n->hash); g_bs_live--; free(n); } }
void KSI_TreeLeafHandle_free(KSI_TreeLeafHandle *h) { if (h != NULL && --h->ref == 0) { g_bs_live--; free(h); } }
int KSI_TreeBuilder_addDataHash(KSI_TreeBuilder *b, KSI_DataHash *hsh, int level, KSI_TreeLeafHandle **leaf) {
	KSI_TreeNode in; KSI_TreeNode *out = NULL; KSI_TreeLeafHandle *h; int res;
	g_add_calls++; g_add_res = KSI_UNKNOWN_ERROR;
	if (b == NULL || hsh == NULL || level < 0 || level > 0xff || leaf == NULL) return g_add_res = KSI_INVALID_ARGUMENT;
	in.ctx = b->ctx; in.hash = hsh; in.metaData = NULL; in.level = (unsigned)level; in.parent = NULL; in.leftChild = NULL; in.rightChild = NULL;
	h = malloc(sizeof(*h));
	if (h == NULL) return g_add_res = KSI_OUT_OF_MEMORY;
	h->ref = 1; g_bs_live++;
	if (b->cbList == g_cb_list && g_cb_n > 0) {
		res = g_cb_el[0]->fn(&in, g_cb_el[0]->c, &out);
		if (res != KSI_OK) { KSI_TreeLeafHandle_free(h); return g_add_res = res; }
		if (out != NULL) { in.level++; KSI_TreeNode_free(out); out = NULL; }      /* joined on top of the leaf */
	}
	if (b->cbList == g_cb_list && g_cb_n > 1) {
		res = g_cb_el[1]->fn(&in, g_cb_el[1]->c, &out);
		if (res != KSI_OK) { KSI_TreeLeafHandle_free(h); return g_add_res = res; }
		if (out != NULL) { KSI_TreeNode_free(out); out = NULL; }
	}
	if (nondet_bool()) { KSI_TreeLeafHandle_free(h); return g_add_res = KSI_OUT_OF_MEMORY; }    /* join / insertion failed */
	*leaf = h;
	return g_add_res = KSI_OK;
}
/* hasher used by the masking processor: every call may fail; close makes a new hash object */
int KSI_DataHasher_reset(KSI_DataHasher *h) { return (h == NULL || nondet_bool()) ? KSI_INVALID_ARGUMENT : KSI_OK; }
int KSI_DataHasher_add(KSI_DataHasher *h, const void *d, size_t n) { return (h == NULL || nondet_bool()) ? KSI_INVALID_ARGUMENT : KSI_OK; }
int KSI_DataHasher_addImprint(KSI_DataHasher *h, const KSI_DataHash *x) { return (h == NULL || x == NULL || nondet_bool()) ? KSI_INVALID_ARGUMENT : KSI_OK; }
int KSI_DataHasher_addOctetString(KSI_DataHasher *h, const KSI_OctetString *x) { return (h == NULL || x == NULL || nondet_bool()) ? KSI_INVALID_ARGUMENT : KSI_OK; }
int KSI_DataHasher_close(KSI_DataHasher *h, KSI_DataHash **out) {
	KSI_DataHash *r;
	if (h == NULL || out == NULL || nondet_bool()) return KSI_INVALID_ARGUMENT;
	r = malloc(sizeof(*r));
	if (r == NULL) return KSI_OUT_OF_MEMORY;
	r->ref = 1; r->ctx = NULL; *out = r; return KSI_OK;
}
int KSI_DataHash_extract(const KSI_DataHash *h, KSI_HashAlgorithm *algo, const unsigned char **digest, size_t *len) {
	if (h == NULL || nondet_bool()) return KSI_INVALID_ARGUMENT;
	if (algo != NULL) *algo = (KSI_HashAlgorithm)nondet_int();
	return KSI_OK;
}

static struct KSI_DataHasher_st g_bs_hsr_obj;
int KSI_DataHasher_open(KSI_CTX *ctx, KSI_HashAlgorithm algo, KSI_DataHasher **h) {
	if (ctx == NULL || h == NULL) return KSI_INVALID_ARGUMENT;
	if (nondet_bool()) return KSI_OUT_OF_MEMORY;
	*h = &g_bs_hsr_obj; return KSI_OK;
}
void KSI_DataHasher_free(KSI_DataHasher *h) { }
int KSI_isHashAlgorithmTrusted(KSI_HashAlgorithm algo) { return nondet_bool(); }
unsigned int KSI_getHashLength(KSI_HashAlgorithm algo) { return nondet_uint(); }
#endif
