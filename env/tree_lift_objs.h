/* GENERATED (mechanical, see obligations/C16/NOTES_lift.md): 256 separate objects per kind + const pointer tables.
 * One array object indexed by a symbolic slot number makes CBMC read a field through a byte_extract over the whole
 * array (18M clauses for one dereference); separate objects turn the same read into a 256-way case split. */
#ifndef ENV_TREE_LIFT_OBJS_H
#define ENV_TREE_LIFT_OBJS_H
KSI_TreeNode g_nd_0, g_nd_1, g_nd_2, g_nd_3, g_nd_4, g_nd_5, g_nd_6, g_nd_7;
KSI_TreeNode g_nd_8, g_nd_9, g_nd_10, g_nd_11, g_nd_12, g_nd_13, g_nd_14, g_nd_15;
KSI_TreeNode g_nd_16, g_nd_17, g_nd_18, g_nd_19, g_nd_20, g_nd_21, g_nd_22, g_nd_23;
KSI_TreeNode g_nd_24, g_nd_25, g_nd_26, g_nd_27, g_nd_28, g_nd_29, g_nd_30, g_nd_31;
KSI_TreeNode g_nd_32, g_nd_33, g_nd_34, g_nd_35, g_nd_36, g_nd_37, g_nd_38, g_nd_39;
KSI_TreeNode g_nd_40, g_nd_41, g_nd_42, g_nd_43, g_nd_44, g_nd_45, g_nd_46, g_nd_47;
KSI_TreeNode g_nd_48, g_nd_49, g_nd_50, g_nd_51, g_nd_52, g_nd_53, g_nd_54, g_nd_55;
KSI_TreeNode g_nd_56, g_nd_57, g_nd_58, g_nd_59, g_nd_60, g_nd_61, g_nd_62, g_nd_63;
KSI_TreeNode g_nd_64, g_nd_65, g_nd_66, g_nd_67, g_nd_68, g_nd_69, g_nd_70, g_nd_71;
KSI_TreeNode g_nd_72, g_nd_73, g_nd_74, g_nd_75, g_nd_76, g_nd_77, g_nd_78, g_nd_79;
KSI_TreeNode g_nd_80, g_nd_81, g_nd_82, g_nd_83, g_nd_84, g_nd_85, g_nd_86, g_nd_87;
KSI_TreeNode g_nd_88, g_nd_89, g_nd_90, g_nd_91, g_nd_92, g_nd_93, g_nd_94, g_nd_95;
KSI_TreeNode g_nd_96, g_nd_97, g_nd_98, g_nd_99, g_nd_100, g_nd_101, g_nd_102, g_nd_103;
KSI_TreeNode g_nd_104, g_nd_105, g_nd_106, g_nd_107, g_nd_108, g_nd_109, g_nd_110, g_nd_111;
KSI_TreeNode g_nd_112, g_nd_113, g_nd_114, g_nd_115, g_nd_116, g_nd_117, g_nd_118, g_nd_119;
KSI_TreeNode g_nd_120, g_nd_121, g_nd_122, g_nd_123, g_nd_124, g_nd_125, g_nd_126, g_nd_127;
KSI_TreeNode g_nd_128, g_nd_129, g_nd_130, g_nd_131, g_nd_132, g_nd_133, g_nd_134, g_nd_135;
KSI_TreeNode g_nd_136, g_nd_137, g_nd_138, g_nd_139, g_nd_140, g_nd_141, g_nd_142, g_nd_143;
KSI_TreeNode g_nd_144, g_nd_145, g_nd_146, g_nd_147, g_nd_148, g_nd_149, g_nd_150, g_nd_151;
KSI_TreeNode g_nd_152, g_nd_153, g_nd_154, g_nd_155, g_nd_156, g_nd_157, g_nd_158, g_nd_159;
KSI_TreeNode g_nd_160, g_nd_161, g_nd_162, g_nd_163, g_nd_164, g_nd_165, g_nd_166, g_nd_167;
KSI_TreeNode g_nd_168, g_nd_169, g_nd_170, g_nd_171, g_nd_172, g_nd_173, g_nd_174, g_nd_175;
KSI_TreeNode g_nd_176, g_nd_177, g_nd_178, g_nd_179, g_nd_180, g_nd_181, g_nd_182, g_nd_183;
KSI_TreeNode g_nd_184, g_nd_185, g_nd_186, g_nd_187, g_nd_188, g_nd_189, g_nd_190, g_nd_191;
KSI_TreeNode g_nd_192, g_nd_193, g_nd_194, g_nd_195, g_nd_196, g_nd_197, g_nd_198, g_nd_199;
KSI_TreeNode g_nd_200, g_nd_201, g_nd_202, g_nd_203, g_nd_204, g_nd_205, g_nd_206, g_nd_207;
KSI_TreeNode g_nd_208, g_nd_209, g_nd_210, g_nd_211, g_nd_212, g_nd_213, g_nd_214, g_nd_215;
KSI_TreeNode g_nd_216, g_nd_217, g_nd_218, g_nd_219, g_nd_220, g_nd_221, g_nd_222, g_nd_223;
KSI_TreeNode g_nd_224, g_nd_225, g_nd_226, g_nd_227, g_nd_228, g_nd_229, g_nd_230, g_nd_231;
KSI_TreeNode g_nd_232, g_nd_233, g_nd_234, g_nd_235, g_nd_236, g_nd_237, g_nd_238, g_nd_239;
KSI_TreeNode g_nd_240, g_nd_241, g_nd_242, g_nd_243, g_nd_244, g_nd_245, g_nd_246, g_nd_247;
KSI_TreeNode g_nd_248, g_nd_249, g_nd_250, g_nd_251, g_nd_252, g_nd_253, g_nd_254, g_nd_255;
KSI_TreeNode *const g_np[256] = {
	&g_nd_0, &g_nd_1, &g_nd_2, &g_nd_3, &g_nd_4, &g_nd_5, &g_nd_6, &g_nd_7,
	&g_nd_8, &g_nd_9, &g_nd_10, &g_nd_11, &g_nd_12, &g_nd_13, &g_nd_14, &g_nd_15,
	&g_nd_16, &g_nd_17, &g_nd_18, &g_nd_19, &g_nd_20, &g_nd_21, &g_nd_22, &g_nd_23,
	&g_nd_24, &g_nd_25, &g_nd_26, &g_nd_27, &g_nd_28, &g_nd_29, &g_nd_30, &g_nd_31,
	&g_nd_32, &g_nd_33, &g_nd_34, &g_nd_35, &g_nd_36, &g_nd_37, &g_nd_38, &g_nd_39,
	&g_nd_40, &g_nd_41, &g_nd_42, &g_nd_43, &g_nd_44, &g_nd_45, &g_nd_46, &g_nd_47,
	&g_nd_48, &g_nd_49, &g_nd_50, &g_nd_51, &g_nd_52, &g_nd_53, &g_nd_54, &g_nd_55,
	&g_nd_56, &g_nd_57, &g_nd_58, &g_nd_59, &g_nd_60, &g_nd_61, &g_nd_62, &g_nd_63,
	&g_nd_64, &g_nd_65, &g_nd_66, &g_nd_67, &g_nd_68, &g_nd_69, &g_nd_70, &g_nd_71,
	&g_nd_72, &g_nd_73, &g_nd_74, &g_nd_75, &g_nd_76, &g_nd_77, &g_nd_78, &g_nd_79,
	&g_nd_80, &g_nd_81, &g_nd_82, &g_nd_83, &g_nd_84, &g_nd_85, &g_nd_86, &g_nd_87,
	&g_nd_88, &g_nd_89, &g_nd_90, &g_nd_91, &g_nd_92, &g_nd_93, &g_nd_94, &g_nd_95,
	&g_nd_96, &g_nd_97, &g_nd_98, &g_nd_99, &g_nd_100, &g_nd_101, &g_nd_102, &g_nd_103,
	&g_nd_104, &g_nd_105, &g_nd_106, &g_nd_107, &g_nd_108, &g_nd_109, &g_nd_110, &g_nd_111,
	&g_nd_112, &g_nd_113, &g_nd_114, &g_nd_115, &g_nd_116, &g_nd_117, &g_nd_118, &g_nd_119,
	&g_nd_120, &g_nd_121, &g_nd_122, &g_nd_123, &g_nd_124, &g_nd_125, &g_nd_126, &g_nd_127,
	&g_nd_128, &g_nd_129, &g_nd_130, &g_nd_131, &g_nd_132, &g_nd_133, &g_nd_134, &g_nd_135,
	&g_nd_136, &g_nd_137, &g_nd_138, &g_nd_139, &g_nd_140, &g_nd_141, &g_nd_142, &g_nd_143,
	&g_nd_144, &g_nd_145, &g_nd_146, &g_nd_147, &g_nd_148, &g_nd_149, &g_nd_150, &g_nd_151,
	&g_nd_152, &g_nd_153, &g_nd_154, &g_nd_155, &g_nd_156, &g_nd_157, &g_nd_158, &g_nd_159,
	&g_nd_160, &g_nd_161, &g_nd_162, &g_nd_163, &g_nd_164, &g_nd_165, &g_nd_166, &g_nd_167,
	&g_nd_168, &g_nd_169, &g_nd_170, &g_nd_171, &g_nd_172, &g_nd_173, &g_nd_174, &g_nd_175,
	&g_nd_176, &g_nd_177, &g_nd_178, &g_nd_179, &g_nd_180, &g_nd_181, &g_nd_182, &g_nd_183,
	&g_nd_184, &g_nd_185, &g_nd_186, &g_nd_187, &g_nd_188, &g_nd_189, &g_nd_190, &g_nd_191,
	&g_nd_192, &g_nd_193, &g_nd_194, &g_nd_195, &g_nd_196, &g_nd_197, &g_nd_198, &g_nd_199,
	&g_nd_200, &g_nd_201, &g_nd_202, &g_nd_203, &g_nd_204, &g_nd_205, &g_nd_206, &g_nd_207,
	&g_nd_208, &g_nd_209, &g_nd_210, &g_nd_211, &g_nd_212, &g_nd_213, &g_nd_214, &g_nd_215,
	&g_nd_216, &g_nd_217, &g_nd_218, &g_nd_219, &g_nd_220, &g_nd_221, &g_nd_222, &g_nd_223,
	&g_nd_224, &g_nd_225, &g_nd_226, &g_nd_227, &g_nd_228, &g_nd_229, &g_nd_230, &g_nd_231,
	&g_nd_232, &g_nd_233, &g_nd_234, &g_nd_235, &g_nd_236, &g_nd_237, &g_nd_238, &g_nd_239,
	&g_nd_240, &g_nd_241, &g_nd_242, &g_nd_243, &g_nd_244, &g_nd_245, &g_nd_246, &g_nd_247,
	&g_nd_248, &g_nd_249, &g_nd_250, &g_nd_251, &g_nd_252, &g_nd_253, &g_nd_254, &g_nd_255,
};
#define LIFT_ALL_NODE_PARENTS g_nd_0.parent, g_nd_1.parent, g_nd_2.parent, g_nd_3.parent, g_nd_4.parent, g_nd_5.parent, g_nd_6.parent, g_nd_7.parent, g_nd_8.parent, g_nd_9.parent, g_nd_10.parent, g_nd_11.parent, g_nd_12.parent, g_nd_13.parent, g_nd_14.parent, g_nd_15.parent, g_nd_16.parent, g_nd_17.parent, g_nd_18.parent, g_nd_19.parent, g_nd_20.parent, g_nd_21.parent, g_nd_22.parent, g_nd_23.parent, g_nd_24.parent, g_nd_25.parent, g_nd_26.parent, g_nd_27.parent, g_nd_28.parent, g_nd_29.parent, g_nd_30.parent, g_nd_31.parent, g_nd_32.parent, g_nd_33.parent, g_nd_34.parent, g_nd_35.parent, g_nd_36.parent, g_nd_37.parent, g_nd_38.parent, g_nd_39.parent, g_nd_40.parent, g_nd_41.parent, g_nd_42.parent, g_nd_43.parent, g_nd_44.parent, g_nd_45.parent, g_nd_46.parent, g_nd_47.parent, g_nd_48.parent, g_nd_49.parent, g_nd_50.parent, g_nd_51.parent, g_nd_52.parent, g_nd_53.parent, g_nd_54.parent, g_nd_55.parent, g_nd_56.parent, g_nd_57.parent, g_nd_58.parent, g_nd_59.parent, g_nd_60.parent, g_nd_61.parent, g_nd_62.parent, g_nd_63.parent, g_nd_64.parent, g_nd_65.parent, g_nd_66.parent, g_nd_67.parent, g_nd_68.parent, g_nd_69.parent, g_nd_70.parent, g_nd_71.parent, g_nd_72.parent, g_nd_73.parent, g_nd_74.parent, g_nd_75.parent, g_nd_76.parent, g_nd_77.parent, g_nd_78.parent, g_nd_79.parent, g_nd_80.parent, g_nd_81.parent, g_nd_82.parent, g_nd_83.parent, g_nd_84.parent, g_nd_85.parent, g_nd_86.parent, g_nd_87.parent, g_nd_88.parent, g_nd_89.parent, g_nd_90.parent, g_nd_91.parent, g_nd_92.parent, g_nd_93.parent, g_nd_94.parent, g_nd_95.parent, g_nd_96.parent, g_nd_97.parent, g_nd_98.parent, g_nd_99.parent, g_nd_100.parent, g_nd_101.parent, g_nd_102.parent, g_nd_103.parent, g_nd_104.parent, g_nd_105.parent, g_nd_106.parent, g_nd_107.parent, g_nd_108.parent, g_nd_109.parent, g_nd_110.parent, g_nd_111.parent, g_nd_112.parent, g_nd_113.parent, g_nd_114.parent, g_nd_115.parent, g_nd_116.parent, g_nd_117.parent, g_nd_118.parent, g_nd_119.parent, g_nd_120.parent, g_nd_121.parent, g_nd_122.parent, g_nd_123.parent, g_nd_124.parent, g_nd_125.parent, g_nd_126.parent, g_nd_127.parent, g_nd_128.parent, g_nd_129.parent, g_nd_130.parent, g_nd_131.parent, g_nd_132.parent, g_nd_133.parent, g_nd_134.parent, g_nd_135.parent, g_nd_136.parent, g_nd_137.parent, g_nd_138.parent, g_nd_139.parent, g_nd_140.parent, g_nd_141.parent, g_nd_142.parent, g_nd_143.parent, g_nd_144.parent, g_nd_145.parent, g_nd_146.parent, g_nd_147.parent, g_nd_148.parent, g_nd_149.parent, g_nd_150.parent, g_nd_151.parent, g_nd_152.parent, g_nd_153.parent, g_nd_154.parent, g_nd_155.parent, g_nd_156.parent, g_nd_157.parent, g_nd_158.parent, g_nd_159.parent, g_nd_160.parent, g_nd_161.parent, g_nd_162.parent, g_nd_163.parent, g_nd_164.parent, g_nd_165.parent, g_nd_166.parent, g_nd_167.parent, g_nd_168.parent, g_nd_169.parent, g_nd_170.parent, g_nd_171.parent, g_nd_172.parent, g_nd_173.parent, g_nd_174.parent, g_nd_175.parent, g_nd_176.parent, g_nd_177.parent, g_nd_178.parent, g_nd_179.parent, g_nd_180.parent, g_nd_181.parent, g_nd_182.parent, g_nd_183.parent, g_nd_184.parent, g_nd_185.parent, g_nd_186.parent, g_nd_187.parent, g_nd_188.parent, g_nd_189.parent, g_nd_190.parent, g_nd_191.parent, g_nd_192.parent, g_nd_193.parent, g_nd_194.parent, g_nd_195.parent, g_nd_196.parent, g_nd_197.parent, g_nd_198.parent, g_nd_199.parent, g_nd_200.parent, g_nd_201.parent, g_nd_202.parent, g_nd_203.parent, g_nd_204.parent, g_nd_205.parent, g_nd_206.parent, g_nd_207.parent, g_nd_208.parent, g_nd_209.parent, g_nd_210.parent, g_nd_211.parent, g_nd_212.parent, g_nd_213.parent, g_nd_214.parent, g_nd_215.parent, g_nd_216.parent, g_nd_217.parent, g_nd_218.parent, g_nd_219.parent, g_nd_220.parent, g_nd_221.parent, g_nd_222.parent, g_nd_223.parent, g_nd_224.parent, g_nd_225.parent, g_nd_226.parent, g_nd_227.parent, g_nd_228.parent, g_nd_229.parent, g_nd_230.parent, g_nd_231.parent, g_nd_232.parent, g_nd_233.parent, g_nd_234.parent, g_nd_235.parent, g_nd_236.parent, g_nd_237.parent, g_nd_238.parent, g_nd_239.parent, g_nd_240.parent, g_nd_241.parent, g_nd_242.parent, g_nd_243.parent, g_nd_244.parent, g_nd_245.parent, g_nd_246.parent, g_nd_247.parent, g_nd_248.parent, g_nd_249.parent, g_nd_250.parent, g_nd_251.parent, g_nd_252.parent, g_nd_253.parent, g_nd_254.parent, g_nd_255.parent
#ifdef LIFT_POOL   /* only the close job needs the allocator pools (every object costs in the pointer checks) */
KSI_TreeNode g_pn_0, g_pn_1, g_pn_2, g_pn_3, g_pn_4, g_pn_5, g_pn_6, g_pn_7;
KSI_TreeNode g_pn_8, g_pn_9, g_pn_10, g_pn_11, g_pn_12, g_pn_13, g_pn_14, g_pn_15;
KSI_TreeNode g_pn_16, g_pn_17, g_pn_18, g_pn_19, g_pn_20, g_pn_21, g_pn_22, g_pn_23;
KSI_TreeNode g_pn_24, g_pn_25, g_pn_26, g_pn_27, g_pn_28, g_pn_29, g_pn_30, g_pn_31;
KSI_TreeNode g_pn_32, g_pn_33, g_pn_34, g_pn_35, g_pn_36, g_pn_37, g_pn_38, g_pn_39;
KSI_TreeNode g_pn_40, g_pn_41, g_pn_42, g_pn_43, g_pn_44, g_pn_45, g_pn_46, g_pn_47;
KSI_TreeNode g_pn_48, g_pn_49, g_pn_50, g_pn_51, g_pn_52, g_pn_53, g_pn_54, g_pn_55;
KSI_TreeNode g_pn_56, g_pn_57, g_pn_58, g_pn_59, g_pn_60, g_pn_61, g_pn_62, g_pn_63;
KSI_TreeNode g_pn_64, g_pn_65, g_pn_66, g_pn_67, g_pn_68, g_pn_69, g_pn_70, g_pn_71;
KSI_TreeNode g_pn_72, g_pn_73, g_pn_74, g_pn_75, g_pn_76, g_pn_77, g_pn_78, g_pn_79;
KSI_TreeNode g_pn_80, g_pn_81, g_pn_82, g_pn_83, g_pn_84, g_pn_85, g_pn_86, g_pn_87;
KSI_TreeNode g_pn_88, g_pn_89, g_pn_90, g_pn_91, g_pn_92, g_pn_93, g_pn_94, g_pn_95;
KSI_TreeNode g_pn_96, g_pn_97, g_pn_98, g_pn_99, g_pn_100, g_pn_101, g_pn_102, g_pn_103;
KSI_TreeNode g_pn_104, g_pn_105, g_pn_106, g_pn_107, g_pn_108, g_pn_109, g_pn_110, g_pn_111;
KSI_TreeNode g_pn_112, g_pn_113, g_pn_114, g_pn_115, g_pn_116, g_pn_117, g_pn_118, g_pn_119;
KSI_TreeNode g_pn_120, g_pn_121, g_pn_122, g_pn_123, g_pn_124, g_pn_125, g_pn_126, g_pn_127;
KSI_TreeNode g_pn_128, g_pn_129, g_pn_130, g_pn_131, g_pn_132, g_pn_133, g_pn_134, g_pn_135;
KSI_TreeNode g_pn_136, g_pn_137, g_pn_138, g_pn_139, g_pn_140, g_pn_141, g_pn_142, g_pn_143;
KSI_TreeNode g_pn_144, g_pn_145, g_pn_146, g_pn_147, g_pn_148, g_pn_149, g_pn_150, g_pn_151;
KSI_TreeNode g_pn_152, g_pn_153, g_pn_154, g_pn_155, g_pn_156, g_pn_157, g_pn_158, g_pn_159;
KSI_TreeNode g_pn_160, g_pn_161, g_pn_162, g_pn_163, g_pn_164, g_pn_165, g_pn_166, g_pn_167;
KSI_TreeNode g_pn_168, g_pn_169, g_pn_170, g_pn_171, g_pn_172, g_pn_173, g_pn_174, g_pn_175;
KSI_TreeNode g_pn_176, g_pn_177, g_pn_178, g_pn_179, g_pn_180, g_pn_181, g_pn_182, g_pn_183;
KSI_TreeNode g_pn_184, g_pn_185, g_pn_186, g_pn_187, g_pn_188, g_pn_189, g_pn_190, g_pn_191;
KSI_TreeNode g_pn_192, g_pn_193, g_pn_194, g_pn_195, g_pn_196, g_pn_197, g_pn_198, g_pn_199;
KSI_TreeNode g_pn_200, g_pn_201, g_pn_202, g_pn_203, g_pn_204, g_pn_205, g_pn_206, g_pn_207;
KSI_TreeNode g_pn_208, g_pn_209, g_pn_210, g_pn_211, g_pn_212, g_pn_213, g_pn_214, g_pn_215;
KSI_TreeNode g_pn_216, g_pn_217, g_pn_218, g_pn_219, g_pn_220, g_pn_221, g_pn_222, g_pn_223;
KSI_TreeNode g_pn_224, g_pn_225, g_pn_226, g_pn_227, g_pn_228, g_pn_229, g_pn_230, g_pn_231;
KSI_TreeNode g_pn_232, g_pn_233, g_pn_234, g_pn_235, g_pn_236, g_pn_237, g_pn_238, g_pn_239;
KSI_TreeNode g_pn_240, g_pn_241, g_pn_242, g_pn_243, g_pn_244, g_pn_245, g_pn_246, g_pn_247;
KSI_TreeNode g_pn_248, g_pn_249, g_pn_250, g_pn_251, g_pn_252, g_pn_253, g_pn_254, g_pn_255;
KSI_DataHash g_hp_0, g_hp_1, g_hp_2, g_hp_3, g_hp_4, g_hp_5, g_hp_6, g_hp_7;
KSI_DataHash g_hp_8, g_hp_9, g_hp_10, g_hp_11, g_hp_12, g_hp_13, g_hp_14, g_hp_15;
KSI_DataHash g_hp_16, g_hp_17, g_hp_18, g_hp_19, g_hp_20, g_hp_21, g_hp_22, g_hp_23;
KSI_DataHash g_hp_24, g_hp_25, g_hp_26, g_hp_27, g_hp_28, g_hp_29, g_hp_30, g_hp_31;
KSI_DataHash g_hp_32, g_hp_33, g_hp_34, g_hp_35, g_hp_36, g_hp_37, g_hp_38, g_hp_39;
KSI_DataHash g_hp_40, g_hp_41, g_hp_42, g_hp_43, g_hp_44, g_hp_45, g_hp_46, g_hp_47;
KSI_DataHash g_hp_48, g_hp_49, g_hp_50, g_hp_51, g_hp_52, g_hp_53, g_hp_54, g_hp_55;
KSI_DataHash g_hp_56, g_hp_57, g_hp_58, g_hp_59, g_hp_60, g_hp_61, g_hp_62, g_hp_63;
KSI_DataHash g_hp_64, g_hp_65, g_hp_66, g_hp_67, g_hp_68, g_hp_69, g_hp_70, g_hp_71;
KSI_DataHash g_hp_72, g_hp_73, g_hp_74, g_hp_75, g_hp_76, g_hp_77, g_hp_78, g_hp_79;
KSI_DataHash g_hp_80, g_hp_81, g_hp_82, g_hp_83, g_hp_84, g_hp_85, g_hp_86, g_hp_87;
KSI_DataHash g_hp_88, g_hp_89, g_hp_90, g_hp_91, g_hp_92, g_hp_93, g_hp_94, g_hp_95;
KSI_DataHash g_hp_96, g_hp_97, g_hp_98, g_hp_99, g_hp_100, g_hp_101, g_hp_102, g_hp_103;
KSI_DataHash g_hp_104, g_hp_105, g_hp_106, g_hp_107, g_hp_108, g_hp_109, g_hp_110, g_hp_111;
KSI_DataHash g_hp_112, g_hp_113, g_hp_114, g_hp_115, g_hp_116, g_hp_117, g_hp_118, g_hp_119;
KSI_DataHash g_hp_120, g_hp_121, g_hp_122, g_hp_123, g_hp_124, g_hp_125, g_hp_126, g_hp_127;
KSI_DataHash g_hp_128, g_hp_129, g_hp_130, g_hp_131, g_hp_132, g_hp_133, g_hp_134, g_hp_135;
KSI_DataHash g_hp_136, g_hp_137, g_hp_138, g_hp_139, g_hp_140, g_hp_141, g_hp_142, g_hp_143;
KSI_DataHash g_hp_144, g_hp_145, g_hp_146, g_hp_147, g_hp_148, g_hp_149, g_hp_150, g_hp_151;
KSI_DataHash g_hp_152, g_hp_153, g_hp_154, g_hp_155, g_hp_156, g_hp_157, g_hp_158, g_hp_159;
KSI_DataHash g_hp_160, g_hp_161, g_hp_162, g_hp_163, g_hp_164, g_hp_165, g_hp_166, g_hp_167;
KSI_DataHash g_hp_168, g_hp_169, g_hp_170, g_hp_171, g_hp_172, g_hp_173, g_hp_174, g_hp_175;
KSI_DataHash g_hp_176, g_hp_177, g_hp_178, g_hp_179, g_hp_180, g_hp_181, g_hp_182, g_hp_183;
KSI_DataHash g_hp_184, g_hp_185, g_hp_186, g_hp_187, g_hp_188, g_hp_189, g_hp_190, g_hp_191;
KSI_DataHash g_hp_192, g_hp_193, g_hp_194, g_hp_195, g_hp_196, g_hp_197, g_hp_198, g_hp_199;
KSI_DataHash g_hp_200, g_hp_201, g_hp_202, g_hp_203, g_hp_204, g_hp_205, g_hp_206, g_hp_207;
KSI_DataHash g_hp_208, g_hp_209, g_hp_210, g_hp_211, g_hp_212, g_hp_213, g_hp_214, g_hp_215;
KSI_DataHash g_hp_216, g_hp_217, g_hp_218, g_hp_219, g_hp_220, g_hp_221, g_hp_222, g_hp_223;
KSI_DataHash g_hp_224, g_hp_225, g_hp_226, g_hp_227, g_hp_228, g_hp_229, g_hp_230, g_hp_231;
KSI_DataHash g_hp_232, g_hp_233, g_hp_234, g_hp_235, g_hp_236, g_hp_237, g_hp_238, g_hp_239;
KSI_DataHash g_hp_240, g_hp_241, g_hp_242, g_hp_243, g_hp_244, g_hp_245, g_hp_246, g_hp_247;
KSI_DataHash g_hp_248, g_hp_249, g_hp_250, g_hp_251, g_hp_252, g_hp_253, g_hp_254, g_hp_255;
KSI_TreeNode *const g_pp[256] = {
	&g_pn_0, &g_pn_1, &g_pn_2, &g_pn_3, &g_pn_4, &g_pn_5, &g_pn_6, &g_pn_7,
	&g_pn_8, &g_pn_9, &g_pn_10, &g_pn_11, &g_pn_12, &g_pn_13, &g_pn_14, &g_pn_15,
	&g_pn_16, &g_pn_17, &g_pn_18, &g_pn_19, &g_pn_20, &g_pn_21, &g_pn_22, &g_pn_23,
	&g_pn_24, &g_pn_25, &g_pn_26, &g_pn_27, &g_pn_28, &g_pn_29, &g_pn_30, &g_pn_31,
	&g_pn_32, &g_pn_33, &g_pn_34, &g_pn_35, &g_pn_36, &g_pn_37, &g_pn_38, &g_pn_39,
	&g_pn_40, &g_pn_41, &g_pn_42, &g_pn_43, &g_pn_44, &g_pn_45, &g_pn_46, &g_pn_47,
	&g_pn_48, &g_pn_49, &g_pn_50, &g_pn_51, &g_pn_52, &g_pn_53, &g_pn_54, &g_pn_55,
	&g_pn_56, &g_pn_57, &g_pn_58, &g_pn_59, &g_pn_60, &g_pn_61, &g_pn_62, &g_pn_63,
	&g_pn_64, &g_pn_65, &g_pn_66, &g_pn_67, &g_pn_68, &g_pn_69, &g_pn_70, &g_pn_71,
	&g_pn_72, &g_pn_73, &g_pn_74, &g_pn_75, &g_pn_76, &g_pn_77, &g_pn_78, &g_pn_79,
	&g_pn_80, &g_pn_81, &g_pn_82, &g_pn_83, &g_pn_84, &g_pn_85, &g_pn_86, &g_pn_87,
	&g_pn_88, &g_pn_89, &g_pn_90, &g_pn_91, &g_pn_92, &g_pn_93, &g_pn_94, &g_pn_95,
	&g_pn_96, &g_pn_97, &g_pn_98, &g_pn_99, &g_pn_100, &g_pn_101, &g_pn_102, &g_pn_103,
	&g_pn_104, &g_pn_105, &g_pn_106, &g_pn_107, &g_pn_108, &g_pn_109, &g_pn_110, &g_pn_111,
	&g_pn_112, &g_pn_113, &g_pn_114, &g_pn_115, &g_pn_116, &g_pn_117, &g_pn_118, &g_pn_119,
	&g_pn_120, &g_pn_121, &g_pn_122, &g_pn_123, &g_pn_124, &g_pn_125, &g_pn_126, &g_pn_127,
	&g_pn_128, &g_pn_129, &g_pn_130, &g_pn_131, &g_pn_132, &g_pn_133, &g_pn_134, &g_pn_135,
	&g_pn_136, &g_pn_137, &g_pn_138, &g_pn_139, &g_pn_140, &g_pn_141, &g_pn_142, &g_pn_143,
	&g_pn_144, &g_pn_145, &g_pn_146, &g_pn_147, &g_pn_148, &g_pn_149, &g_pn_150, &g_pn_151,
	&g_pn_152, &g_pn_153, &g_pn_154, &g_pn_155, &g_pn_156, &g_pn_157, &g_pn_158, &g_pn_159,
	&g_pn_160, &g_pn_161, &g_pn_162, &g_pn_163, &g_pn_164, &g_pn_165, &g_pn_166, &g_pn_167,
	&g_pn_168, &g_pn_169, &g_pn_170, &g_pn_171, &g_pn_172, &g_pn_173, &g_pn_174, &g_pn_175,
	&g_pn_176, &g_pn_177, &g_pn_178, &g_pn_179, &g_pn_180, &g_pn_181, &g_pn_182, &g_pn_183,
	&g_pn_184, &g_pn_185, &g_pn_186, &g_pn_187, &g_pn_188, &g_pn_189, &g_pn_190, &g_pn_191,
	&g_pn_192, &g_pn_193, &g_pn_194, &g_pn_195, &g_pn_196, &g_pn_197, &g_pn_198, &g_pn_199,
	&g_pn_200, &g_pn_201, &g_pn_202, &g_pn_203, &g_pn_204, &g_pn_205, &g_pn_206, &g_pn_207,
	&g_pn_208, &g_pn_209, &g_pn_210, &g_pn_211, &g_pn_212, &g_pn_213, &g_pn_214, &g_pn_215,
	&g_pn_216, &g_pn_217, &g_pn_218, &g_pn_219, &g_pn_220, &g_pn_221, &g_pn_222, &g_pn_223,
	&g_pn_224, &g_pn_225, &g_pn_226, &g_pn_227, &g_pn_228, &g_pn_229, &g_pn_230, &g_pn_231,
	&g_pn_232, &g_pn_233, &g_pn_234, &g_pn_235, &g_pn_236, &g_pn_237, &g_pn_238, &g_pn_239,
	&g_pn_240, &g_pn_241, &g_pn_242, &g_pn_243, &g_pn_244, &g_pn_245, &g_pn_246, &g_pn_247,
	&g_pn_248, &g_pn_249, &g_pn_250, &g_pn_251, &g_pn_252, &g_pn_253, &g_pn_254, &g_pn_255,
};
KSI_DataHash *const g_hpp[256] = {
	&g_hp_0, &g_hp_1, &g_hp_2, &g_hp_3, &g_hp_4, &g_hp_5, &g_hp_6, &g_hp_7,
	&g_hp_8, &g_hp_9, &g_hp_10, &g_hp_11, &g_hp_12, &g_hp_13, &g_hp_14, &g_hp_15,
	&g_hp_16, &g_hp_17, &g_hp_18, &g_hp_19, &g_hp_20, &g_hp_21, &g_hp_22, &g_hp_23,
	&g_hp_24, &g_hp_25, &g_hp_26, &g_hp_27, &g_hp_28, &g_hp_29, &g_hp_30, &g_hp_31,
	&g_hp_32, &g_hp_33, &g_hp_34, &g_hp_35, &g_hp_36, &g_hp_37, &g_hp_38, &g_hp_39,
	&g_hp_40, &g_hp_41, &g_hp_42, &g_hp_43, &g_hp_44, &g_hp_45, &g_hp_46, &g_hp_47,
	&g_hp_48, &g_hp_49, &g_hp_50, &g_hp_51, &g_hp_52, &g_hp_53, &g_hp_54, &g_hp_55,
	&g_hp_56, &g_hp_57, &g_hp_58, &g_hp_59, &g_hp_60, &g_hp_61, &g_hp_62, &g_hp_63,
	&g_hp_64, &g_hp_65, &g_hp_66, &g_hp_67, &g_hp_68, &g_hp_69, &g_hp_70, &g_hp_71,
	&g_hp_72, &g_hp_73, &g_hp_74, &g_hp_75, &g_hp_76, &g_hp_77, &g_hp_78, &g_hp_79,
	&g_hp_80, &g_hp_81, &g_hp_82, &g_hp_83, &g_hp_84, &g_hp_85, &g_hp_86, &g_hp_87,
	&g_hp_88, &g_hp_89, &g_hp_90, &g_hp_91, &g_hp_92, &g_hp_93, &g_hp_94, &g_hp_95,
	&g_hp_96, &g_hp_97, &g_hp_98, &g_hp_99, &g_hp_100, &g_hp_101, &g_hp_102, &g_hp_103,
	&g_hp_104, &g_hp_105, &g_hp_106, &g_hp_107, &g_hp_108, &g_hp_109, &g_hp_110, &g_hp_111,
	&g_hp_112, &g_hp_113, &g_hp_114, &g_hp_115, &g_hp_116, &g_hp_117, &g_hp_118, &g_hp_119,
	&g_hp_120, &g_hp_121, &g_hp_122, &g_hp_123, &g_hp_124, &g_hp_125, &g_hp_126, &g_hp_127,
	&g_hp_128, &g_hp_129, &g_hp_130, &g_hp_131, &g_hp_132, &g_hp_133, &g_hp_134, &g_hp_135,
	&g_hp_136, &g_hp_137, &g_hp_138, &g_hp_139, &g_hp_140, &g_hp_141, &g_hp_142, &g_hp_143,
	&g_hp_144, &g_hp_145, &g_hp_146, &g_hp_147, &g_hp_148, &g_hp_149, &g_hp_150, &g_hp_151,
	&g_hp_152, &g_hp_153, &g_hp_154, &g_hp_155, &g_hp_156, &g_hp_157, &g_hp_158, &g_hp_159,
	&g_hp_160, &g_hp_161, &g_hp_162, &g_hp_163, &g_hp_164, &g_hp_165, &g_hp_166, &g_hp_167,
	&g_hp_168, &g_hp_169, &g_hp_170, &g_hp_171, &g_hp_172, &g_hp_173, &g_hp_174, &g_hp_175,
	&g_hp_176, &g_hp_177, &g_hp_178, &g_hp_179, &g_hp_180, &g_hp_181, &g_hp_182, &g_hp_183,
	&g_hp_184, &g_hp_185, &g_hp_186, &g_hp_187, &g_hp_188, &g_hp_189, &g_hp_190, &g_hp_191,
	&g_hp_192, &g_hp_193, &g_hp_194, &g_hp_195, &g_hp_196, &g_hp_197, &g_hp_198, &g_hp_199,
	&g_hp_200, &g_hp_201, &g_hp_202, &g_hp_203, &g_hp_204, &g_hp_205, &g_hp_206, &g_hp_207,
	&g_hp_208, &g_hp_209, &g_hp_210, &g_hp_211, &g_hp_212, &g_hp_213, &g_hp_214, &g_hp_215,
	&g_hp_216, &g_hp_217, &g_hp_218, &g_hp_219, &g_hp_220, &g_hp_221, &g_hp_222, &g_hp_223,
	&g_hp_224, &g_hp_225, &g_hp_226, &g_hp_227, &g_hp_228, &g_hp_229, &g_hp_230, &g_hp_231,
	&g_hp_232, &g_hp_233, &g_hp_234, &g_hp_235, &g_hp_236, &g_hp_237, &g_hp_238, &g_hp_239,
	&g_hp_240, &g_hp_241, &g_hp_242, &g_hp_243, &g_hp_244, &g_hp_245, &g_hp_246, &g_hp_247,
	&g_hp_248, &g_hp_249, &g_hp_250, &g_hp_251, &g_hp_252, &g_hp_253, &g_hp_254, &g_hp_255,
};
#define LIFT_ALL_POOL_NODES g_pn_0, g_pn_1, g_pn_2, g_pn_3, g_pn_4, g_pn_5, g_pn_6, g_pn_7, g_pn_8, g_pn_9, g_pn_10, g_pn_11, g_pn_12, g_pn_13, g_pn_14, g_pn_15, g_pn_16, g_pn_17, g_pn_18, g_pn_19, g_pn_20, g_pn_21, g_pn_22, g_pn_23, g_pn_24, g_pn_25, g_pn_26, g_pn_27, g_pn_28, g_pn_29, g_pn_30, g_pn_31, g_pn_32, g_pn_33, g_pn_34, g_pn_35, g_pn_36, g_pn_37, g_pn_38, g_pn_39, g_pn_40, g_pn_41, g_pn_42, g_pn_43, g_pn_44, g_pn_45, g_pn_46, g_pn_47, g_pn_48, g_pn_49, g_pn_50, g_pn_51, g_pn_52, g_pn_53, g_pn_54, g_pn_55, g_pn_56, g_pn_57, g_pn_58, g_pn_59, g_pn_60, g_pn_61, g_pn_62, g_pn_63, g_pn_64, g_pn_65, g_pn_66, g_pn_67, g_pn_68, g_pn_69, g_pn_70, g_pn_71, g_pn_72, g_pn_73, g_pn_74, g_pn_75, g_pn_76, g_pn_77, g_pn_78, g_pn_79, g_pn_80, g_pn_81, g_pn_82, g_pn_83, g_pn_84, g_pn_85, g_pn_86, g_pn_87, g_pn_88, g_pn_89, g_pn_90, g_pn_91, g_pn_92, g_pn_93, g_pn_94, g_pn_95, g_pn_96, g_pn_97, g_pn_98, g_pn_99, g_pn_100, g_pn_101, g_pn_102, g_pn_103, g_pn_104, g_pn_105, g_pn_106, g_pn_107, g_pn_108, g_pn_109, g_pn_110, g_pn_111, g_pn_112, g_pn_113, g_pn_114, g_pn_115, g_pn_116, g_pn_117, g_pn_118, g_pn_119, g_pn_120, g_pn_121, g_pn_122, g_pn_123, g_pn_124, g_pn_125, g_pn_126, g_pn_127, g_pn_128, g_pn_129, g_pn_130, g_pn_131, g_pn_132, g_pn_133, g_pn_134, g_pn_135, g_pn_136, g_pn_137, g_pn_138, g_pn_139, g_pn_140, g_pn_141, g_pn_142, g_pn_143, g_pn_144, g_pn_145, g_pn_146, g_pn_147, g_pn_148, g_pn_149, g_pn_150, g_pn_151, g_pn_152, g_pn_153, g_pn_154, g_pn_155, g_pn_156, g_pn_157, g_pn_158, g_pn_159, g_pn_160, g_pn_161, g_pn_162, g_pn_163, g_pn_164, g_pn_165, g_pn_166, g_pn_167, g_pn_168, g_pn_169, g_pn_170, g_pn_171, g_pn_172, g_pn_173, g_pn_174, g_pn_175, g_pn_176, g_pn_177, g_pn_178, g_pn_179, g_pn_180, g_pn_181, g_pn_182, g_pn_183, g_pn_184, g_pn_185, g_pn_186, g_pn_187, g_pn_188, g_pn_189, g_pn_190, g_pn_191, g_pn_192, g_pn_193, g_pn_194, g_pn_195, g_pn_196, g_pn_197, g_pn_198, g_pn_199, g_pn_200, g_pn_201, g_pn_202, g_pn_203, g_pn_204, g_pn_205, g_pn_206, g_pn_207, g_pn_208, g_pn_209, g_pn_210, g_pn_211, g_pn_212, g_pn_213, g_pn_214, g_pn_215, g_pn_216, g_pn_217, g_pn_218, g_pn_219, g_pn_220, g_pn_221, g_pn_222, g_pn_223, g_pn_224, g_pn_225, g_pn_226, g_pn_227, g_pn_228, g_pn_229, g_pn_230, g_pn_231, g_pn_232, g_pn_233, g_pn_234, g_pn_235, g_pn_236, g_pn_237, g_pn_238, g_pn_239, g_pn_240, g_pn_241, g_pn_242, g_pn_243, g_pn_244, g_pn_245, g_pn_246, g_pn_247, g_pn_248, g_pn_249, g_pn_250, g_pn_251, g_pn_252, g_pn_253, g_pn_254, g_pn_255
#define LIFT_ALL_POOL_HASHES g_hp_0, g_hp_1, g_hp_2, g_hp_3, g_hp_4, g_hp_5, g_hp_6, g_hp_7, g_hp_8, g_hp_9, g_hp_10, g_hp_11, g_hp_12, g_hp_13, g_hp_14, g_hp_15, g_hp_16, g_hp_17, g_hp_18, g_hp_19, g_hp_20, g_hp_21, g_hp_22, g_hp_23, g_hp_24, g_hp_25, g_hp_26, g_hp_27, g_hp_28, g_hp_29, g_hp_30, g_hp_31, g_hp_32, g_hp_33, g_hp_34, g_hp_35, g_hp_36, g_hp_37, g_hp_38, g_hp_39, g_hp_40, g_hp_41, g_hp_42, g_hp_43, g_hp_44, g_hp_45, g_hp_46, g_hp_47, g_hp_48, g_hp_49, g_hp_50, g_hp_51, g_hp_52, g_hp_53, g_hp_54, g_hp_55, g_hp_56, g_hp_57, g_hp_58, g_hp_59, g_hp_60, g_hp_61, g_hp_62, g_hp_63, g_hp_64, g_hp_65, g_hp_66, g_hp_67, g_hp_68, g_hp_69, g_hp_70, g_hp_71, g_hp_72, g_hp_73, g_hp_74, g_hp_75, g_hp_76, g_hp_77, g_hp_78, g_hp_79, g_hp_80, g_hp_81, g_hp_82, g_hp_83, g_hp_84, g_hp_85, g_hp_86, g_hp_87, g_hp_88, g_hp_89, g_hp_90, g_hp_91, g_hp_92, g_hp_93, g_hp_94, g_hp_95, g_hp_96, g_hp_97, g_hp_98, g_hp_99, g_hp_100, g_hp_101, g_hp_102, g_hp_103, g_hp_104, g_hp_105, g_hp_106, g_hp_107, g_hp_108, g_hp_109, g_hp_110, g_hp_111, g_hp_112, g_hp_113, g_hp_114, g_hp_115, g_hp_116, g_hp_117, g_hp_118, g_hp_119, g_hp_120, g_hp_121, g_hp_122, g_hp_123, g_hp_124, g_hp_125, g_hp_126, g_hp_127, g_hp_128, g_hp_129, g_hp_130, g_hp_131, g_hp_132, g_hp_133, g_hp_134, g_hp_135, g_hp_136, g_hp_137, g_hp_138, g_hp_139, g_hp_140, g_hp_141, g_hp_142, g_hp_143, g_hp_144, g_hp_145, g_hp_146, g_hp_147, g_hp_148, g_hp_149, g_hp_150, g_hp_151, g_hp_152, g_hp_153, g_hp_154, g_hp_155, g_hp_156, g_hp_157, g_hp_158, g_hp_159, g_hp_160, g_hp_161, g_hp_162, g_hp_163, g_hp_164, g_hp_165, g_hp_166, g_hp_167, g_hp_168, g_hp_169, g_hp_170, g_hp_171, g_hp_172, g_hp_173, g_hp_174, g_hp_175, g_hp_176, g_hp_177, g_hp_178, g_hp_179, g_hp_180, g_hp_181, g_hp_182, g_hp_183, g_hp_184, g_hp_185, g_hp_186, g_hp_187, g_hp_188, g_hp_189, g_hp_190, g_hp_191, g_hp_192, g_hp_193, g_hp_194, g_hp_195, g_hp_196, g_hp_197, g_hp_198, g_hp_199, g_hp_200, g_hp_201, g_hp_202, g_hp_203, g_hp_204, g_hp_205, g_hp_206, g_hp_207, g_hp_208, g_hp_209, g_hp_210, g_hp_211, g_hp_212, g_hp_213, g_hp_214, g_hp_215, g_hp_216, g_hp_217, g_hp_218, g_hp_219, g_hp_220, g_hp_221, g_hp_222, g_hp_223, g_hp_224, g_hp_225, g_hp_226, g_hp_227, g_hp_228, g_hp_229, g_hp_230, g_hp_231, g_hp_232, g_hp_233, g_hp_234, g_hp_235, g_hp_236, g_hp_237, g_hp_238, g_hp_239, g_hp_240, g_hp_241, g_hp_242, g_hp_243, g_hp_244, g_hp_245, g_hp_246, g_hp_247, g_hp_248, g_hp_249, g_hp_250, g_hp_251, g_hp_252, g_hp_253, g_hp_254, g_hp_255
#else
static KSI_TreeNode g_pn_none; static KSI_DataHash g_hp_none;
KSI_TreeNode *const g_pp[1] = { &g_pn_none }; KSI_DataHash *const g_hpp[1] = { &g_hp_none };
#define LIFT_POOL_SLOTS 0
#endif
#ifdef LIFT_POOL
#define LIFT_POOL_SLOTS 256
#endif
#endif
