/* Ghost monitor for the rules of verification_rule.c that walk the aggregation-chain list once (C01: INT-01, INT-02,
 * INT-10, INT-12, INT-15).  The signature's chain list is a MODEL LIST of arbitrary length g_vl_n; its elementAt stub
 *   - asserts the traversal protocol (every chain once, in order, none after the verdict is determined),
 *   - hands out a fresh nondeterministic chain (chain k lives in slot k % 2, so the previous chain stays intact),
 *   - evaluates the property's condition for that chain / that adjacent pair itself and records it in g_vl_fail
 *     (a violated comparison) or g_vl_na (a value that cannot be computed).
 * The loop invariant (contracts/verification_rule_c01.loops.json) ties the rule's locals to this state: one symbolic
 * iteration covers every list length.  The harness selects what a chain carries with VL_MODE_*.
 * Lists never hold NULL elements (KSI lists are filled by the TLV parser with parsed objects only). */
#ifndef ENV_GHOST_VRULE_LOOPS_H
#define ENV_GHOST_VRULE_LOOPS_H
#include "env/ghost_vrule.h"

size_t g_vl_n;                                /* number of aggregation chains */
size_t g_vl_calls;                            /* chains handed out so far */
KSI_AggregationHashChain g_vl_c[2];           /* storage of the current and the previous chain */
KSI_AggregationHashChain *g_vl_prev;          /* chain handed out last (NULL before the first) */
struct KSI_Integer_st g_vl_time[2], g_vl_algid[2];
_Bool g_vl_fail;                              /* a comparison of the property has been seen violated */
_Bool g_vl_na;                                /* a needed value could not be computed */
int g_vl_rfc_ret;                             /* outcome of the RFC3161 pre-check (own contract, own job): any status */

/* chain index lists (INT-10, INT-12): chain k's index list is g_vl_il[k % 2] with length g_vl_il_len[k % 2] */
KSI_LIST(KSI_Integer) g_vl_il[2];
size_t g_vl_il_len[2];
struct KSI_Integer_st g_vl_iv[2];             /* storage of the element handed out last by each index list */
size_t g_vi_calls;                            /* INT-12: index positions compared so far for the current pair */
_Bool g_vi_prev_fetched;                      /* INT-12: the previous chain's element at the current position has been fetched */
/* shape of the current chain (INT-10): result of KSI_AggregationHashChain_calculateShape (C03.shape) */
_Bool g_vl_shape_known; unsigned long long g_vl_shape;
/* INT-01: level threading and results of KSI_AggregationHashChain_aggregate (C03.memo) */
int g_vl_level; size_t g_vl_aggs;

#ifdef VL_BOUND      /* bounded stand-in jobs: at most VL_BOUND chains, index lists of at most VL_BOUND elements */
#define VL_MAX_LIST ((size_t)3)
#else
#define VL_MAX_LIST ((size_t)0x0fffffffffffffffULL)      /* a list of pointers cannot be longer than the address space / 8 */
#endif
#define VL_N_EFF(sig) ((sig)->aggregationChainList != NULL ? g_vl_n : (size_t)0)
#define VL_OUT(k) (&g_vr_h[VR_H_NEW1 + (int)((k) % 2)])   /* hash identity of the output of chain k (INT-01) */

static size_t vl_length(KSI_LIST(KSI_AggregationHashChain) *l) { return g_vl_n; }

static size_t vl_il_length(KSI_LIST(KSI_Integer) *l) {
	__CPROVER_assert(l == &g_vl_il[0] || l == &g_vl_il[1], "index list of the current or previous chain");
	if (l == &g_vl_il[0]) return g_vl_il_len[0];
	return g_vl_il_len[1];
}
/* NOTE on the shape of this code: chain k lives in slot k % 2, but every access below goes through a constant slot
 * number inside an explicit branch (VL_SLOT_BODY is expanded twice).  A symbolic slot index would make symbolic
 * execution mix the fetched slot with the loop-havocked other slot, and pointers read back from havocked memory are
 * dereferenced by case split over every object of the program (minutes instead of seconds). */
#if defined(VL_MODE_SHAPE)
/* INT-10: only the last element is consulted */
static int vl_il_elementAt(KSI_LIST(KSI_Integer) *l, size_t pos, KSI_Integer **o) {
	__CPROVER_assert(l == &g_vl_il[0] || l == &g_vl_il[1], "index list of the current chain");
	__CPROVER_assert(g_vl_calls > 0 && l == &g_vl_il[(g_vl_calls - 1) % 2], "index list of the current chain");
	if (l == &g_vl_il[0]) {
		__CPROVER_assert(g_vl_il_len[0] > 0 && pos == g_vl_il_len[0] - 1, "the chain's own index is the LAST element of its index list");
		*o = &g_vl_iv[0];
	} else {
		__CPROVER_assert(g_vl_il_len[1] > 0 && pos == g_vl_il_len[1] - 1, "the chain's own index is the LAST element of its index list");
		*o = &g_vl_iv[1];
	}
	return KSI_OK;
}
#elif defined(VL_MODE_IDX)
/* INT-12: position j of the previous chain's list, then position j of the current chain's list, j = 0, 1, ...
 * every fetch yields a fresh value; the pair is compared here */
#define VL_IL_BODY(S) \
	if (cur != (S)) { \
		__CPROVER_assert(!g_vi_prev_fetched, "previous chain's element first, once"); \
		__CPROVER_assert(pos < g_vl_il_len[S], "inside the previous chain's list (it is one longer)"); \
		g_vl_iv[S].value = nondet_ull(); \
		g_vi_prev_fetched = 1; \
	} else { \
		__CPROVER_assert(pos < g_vl_il_len[S], "inside the current chain's list"); \
		__CPROVER_assert(g_vi_prev_fetched, "current chain's element second"); \
		g_vl_iv[S].value = nondet_ull(); \
		if (g_vl_iv[0].value != g_vl_iv[1].value) g_vl_fail = 1;          /* not a continuation */ \
		g_vi_prev_fetched = 0; g_vi_calls++; \
	} \
	*o = &g_vl_iv[S];
static int vl_il_elementAt(KSI_LIST(KSI_Integer) *l, size_t pos, KSI_Integer **o) {
	int cur = (int)((g_vl_calls - 1) % 2);
	__CPROVER_assert(l == &g_vl_il[0] || l == &g_vl_il[1], "index list of the current or previous chain");
	__CPROVER_assert(g_vl_calls >= 2 && !g_vl_fail && !g_vl_na, "index elements are compared for an adjacent pair, before the verdict is determined");
	__CPROVER_assert(pos == g_vi_calls, "index positions 0 .. len(current)-1, each once");
	if (l == &g_vl_il[0]) { VL_IL_BODY(0) } else { VL_IL_BODY(1) }
	return KSI_OK;
}
#endif

#if defined(VL_MODE_TIME)
/* INT-02: all chains carry one aggregation time (mandatory in the TLV template of an aggregation chain) */
#define VL_SLOT_BODY(S) \
	g_vl_time[S].value = nondet_ull(); \
	if (g_vl_calls > 0 && g_vl_time[S].value != g_vl_time[1 - (S)].value) g_vl_fail = 1;
#elif defined(VL_MODE_ALG)
/* INT-15: the chain's aggregation algorithm was not deprecated at its aggregation time (both mandatory fields);
 * stated bound: algorithm ids below 2^31 */
#ifdef VR_TIMES_BELOW_2P63
#define VL_TIME_MASK 0x7fffffffffffffffULL
#else
#define VL_TIME_MASK 0xffffffffffffffffULL
#endif
#define VL_SLOT_BODY(S) \
	g_vl_time[S].value = nondet_ull() & VL_TIME_MASK; \
	g_vl_algid[S].value = nondet_ull() & 0x7fffffffULL; \
	if (spec_alg_rule_fails(spec_hashalg_status_at((long long)g_vl_algid[S].value, vr_time_ll(g_vl_time[S].value)))) g_vl_fail = 1;
#elif defined(VL_MODE_SHAPE)
/* INT-10: the chain's own index (last element of its index list) equals the shape of its links */
#define VL_SLOT_BODY(S) \
	g_vl_il_len[S] = nondet_size() & VL_MAX_LIST; \
	g_vl_iv[S].value = nondet_ull(); \
	g_vl_shape_known = nondet_bool(); g_vl_shape = nondet_ull(); \
	if (g_vl_il_len[S] > 0) { \
		if (!g_vl_shape_known) g_vl_na = 1; \
		else if (g_vl_iv[S].value != g_vl_shape) g_vl_fail = 1; \
	}
#elif defined(VL_MODE_IDX)
/* INT-12: the previous chain's index list is the current one's plus one element; the common positions are compared by
 * vl_il_elementAt */
#define VL_SLOT_BODY(S) \
	__CPROVER_assert(g_vl_calls < 2 || (g_vi_calls == g_vl_il_len[1 - (S)] && !g_vi_prev_fetched), "protocol: all common index positions of the previous pair were compared"); \
	g_vl_il_len[S] = nondet_size() & VL_MAX_LIST; \
	g_vi_calls = 0; g_vi_prev_fetched = 0; \
	if (g_vl_calls > 0 && !spec_index_len_extends(g_vl_il_len[1 - (S)], g_vl_il_len[S])) g_vl_fail = 1;
#elif defined(VL_MODE_CONS)
/* INT-01: the output of the previous chain equals the input hash of this one (one input-hash identity, re-valued per fetch) */
#define VL_SLOT_BODY(S) \
	g_vr_h_alg[VR_H_IN0] = nondet_uchar(); g_vr_h_dig[VR_H_IN0] = nondet_ull(); \
	if (g_vl_calls > 0 && !spec_imprint_equal(g_vr_h_alg[VR_H_NEW1 + 1 - (S)], g_vr_h_dig[VR_H_NEW1 + 1 - (S)], g_vr_h_alg[VR_H_IN0], g_vr_h_dig[VR_H_IN0])) g_vl_fail = 1;
#else
#define VL_SLOT_BODY(S)
#endif

static int vl_elementAt(KSI_LIST(KSI_AggregationHashChain) *l, size_t pos, KSI_AggregationHashChain **o) {
	__CPROVER_assert(l == &g_vr_chainlist && o != NULL, "chain list: the signature's list is asked");
	__CPROVER_assert(!g_vl_fail && !g_vl_na, "protocol: no chain is fetched after the verdict is determined");
	__CPROVER_assert(pos == g_vl_calls && pos < g_vl_n, "protocol: every chain once, first to last");
	if (pos % 2 == 0) {
		VL_SLOT_BODY(0)
		g_vl_prev = &g_vl_c[0]; *o = &g_vl_c[0];
	} else {
		VL_SLOT_BODY(1)
		g_vl_prev = &g_vl_c[1]; *o = &g_vl_c[1];
	}
	g_vl_calls++;
	return KSI_OK;
}

/* pointer fields of the two chain slots are fixed once: a fetch only rewrites the VALUES behind them (the loop havoc then
 * contains no pointers read back from memory) */
static void vl_chain_init(KSI_AggregationHashChain *c, int s) {
	c->ctx = VR_CTX; c->ref = 1; c->inputData = NULL; c->chain = NULL; c->outputHash = NULL; c->outputLevel = 0; c->inputLevel = 0;
	c->aggregationTime = &g_vl_time[s]; c->aggrHashId = &g_vl_algid[s]; c->chainIndex = NULL; c->inputHash = NULL;
#if defined(VL_MODE_SHAPE) || defined(VL_MODE_IDX)
	c->chainIndex = &g_vl_il[s];
#endif
#if defined(VL_MODE_CONS)
	c->inputHash = &g_vr_h[VR_H_IN0];
#endif
}
static void vl_world_init(void) {
	vr_world_init();
	g_vr_chainlist.length = vl_length; g_vr_chainlist.elementAt = vl_elementAt;
	g_vl_n = nondet_size() & VL_MAX_LIST; g_vl_calls = 0; g_vl_prev = NULL; g_vl_fail = 0; g_vl_na = 0;
	g_vl_rfc_ret = nondet_int();
	g_vi_calls = 0; g_vi_prev_fetched = 0; g_vl_il_len[0] = 0; g_vl_il_len[1] = 0;
	g_vl_level = 0; g_vl_aggs = 0;
	vl_chain_init(&g_vl_c[0], 0); vl_chain_init(&g_vl_c[1], 1);
	g_vl_time[0].ref = 1; g_vl_time[1].ref = 1; g_vl_algid[0].ref = 1; g_vl_algid[1].ref = 1;
#if defined(VL_MODE_SHAPE) || defined(VL_MODE_IDX)
	g_vl_iv[0].ref = 1; g_vl_iv[1].ref = 1;
	g_vl_il[0].length = vl_il_length; g_vl_il[0].elementAt = vl_il_elementAt;
	g_vl_il[1].length = vl_il_length; g_vl_il[1].elementAt = vl_il_elementAt;
#endif
}

/* ------------------------------------------------ RFC3161 pre-checks (first-element model of the chain list) ------------------------------------------------ */
/* INT-12, RFC3161 part: the record's chain index equals the first chain's chain index (same length, same elements).
 * Two model index lists: g_ri_l[0] belongs to the first chain, g_ri_l[1] to the RFC3161 record; lengths below 2^32
 * (a TLV holds at most 65535 octets); elements are fetched pairwise at one position and compared by the monitor. */
KSI_LIST(KSI_Integer) g_ri_l[2];
size_t g_ri_len[2];
struct KSI_Integer_st g_ri_v[2];
size_t g_ri_calls; _Bool g_ri_first_fetched; _Bool g_ri_mismatch;
static size_t ri_length(KSI_LIST(KSI_Integer) *l) {
	__CPROVER_assert(l == &g_ri_l[0] || l == &g_ri_l[1], "index list of the first chain or of the RFC3161 record");
	if (l == &g_ri_l[0]) return g_ri_len[0];
	return g_ri_len[1];
}
static int ri_elementAt(KSI_LIST(KSI_Integer) *l, size_t pos, KSI_Integer **o) {
	__CPROVER_assert(l == &g_ri_l[0] || l == &g_ri_l[1], "index list of the first chain or of the RFC3161 record");
	__CPROVER_assert(!g_ri_mismatch, "protocol: no element is fetched after a mismatch");
	__CPROVER_assert(pos == g_ri_calls && pos < g_ri_len[0] && pos < g_ri_len[1], "protocol: common positions, each once, in order");
	if (l == &g_ri_l[0]) {
		__CPROVER_assert(!g_ri_first_fetched, "first chain's element first");
		g_ri_v[0].value = nondet_ull(); g_ri_first_fetched = 1;
		*o = &g_ri_v[0];
	} else {
		__CPROVER_assert(g_ri_first_fetched, "record's element second");
		g_ri_v[1].value = nondet_ull(); g_ri_first_fetched = 0; g_ri_calls++;
		if (g_ri_v[0].value != g_ri_v[1].value) g_ri_mismatch = 1;
		*o = &g_ri_v[1];
	}
	return KSI_OK;
}
static void ri_world_init(void) {
	vr_world_init();
	g_ri_l[0].length = ri_length; g_ri_l[0].elementAt = ri_elementAt; g_ri_l[1].length = ri_length; g_ri_l[1].elementAt = ri_elementAt;
	g_ri_len[0] = nondet_size() & 0xffffffffUL; g_ri_len[1] = nondet_size() & 0xffffffffUL;
	g_ri_v[0].ref = 1; g_ri_v[1].ref = 1; g_ri_calls = 0; g_ri_first_fetched = 0; g_ri_mismatch = 0;
	g_vr_chain0.chainIndex = &g_ri_l[0]; g_vr_rfc.chainIndex = &g_ri_l[1];       /* mandatory fields of both TLV templates */
}
/* status classes of the pre-checks */
#define VR_RFC_OK 0
#define VR_RFC_MISMATCH 1      /* KSI_VERIFICATION_FAILURE: the compared values differ */
#define VR_RFC_ERROR 2         /* any other status: a value cannot be obtained */
#define VR_RFC_ANY 3           /* malformed world (mandatory field absent): no demand */
static int vr_rfc_class(int status) { return status == KSI_OK ? VR_RFC_OK : status == KSI_VERIFICATION_FAILURE ? VR_RFC_MISMATCH : VR_RFC_ERROR; }
/* INT-02, RFC3161 part: the record's aggregation time equals the first chain's */
static int vr_exp_rfc_aggr_time(const KSI_CTX *ctx, const KSI_Signature *sig) {
	const KSI_AggregationHashChain *c;
	if (ctx == NULL || sig == NULL) return VR_RFC_ERROR;
	if (sig->rfc3161 == NULL) return VR_RFC_OK;
	c = vr_first_chain(sig);
	if (c == NULL) return VR_RFC_ERROR;
	if (c->aggregationTime == NULL || sig->rfc3161->aggregationTime == NULL) return VR_RFC_ANY;
	return c->aggregationTime->value == sig->rfc3161->aggregationTime->value ? VR_RFC_OK : VR_RFC_MISMATCH;
}
static int vr_exp_rfc_chain_index(const KSI_CTX *ctx, const KSI_Signature *sig) {
	if (ctx == NULL || sig == NULL) return VR_RFC_ERROR;
	if (sig->rfc3161 == NULL) return VR_RFC_OK;
	if (vr_first_chain(sig) == NULL) return VR_RFC_ERROR;
	if (g_ri_len[0] != g_ri_len[1] || g_ri_mismatch) return VR_RFC_MISMATCH;
	return VR_RFC_OK;
}

/* verdict of a chain-walking rule from the monitor: `code` is the rule's error code; rfc_checked: the rule first runs an
 * RFC3161 pre-check whose outcome is g_vl_rfc_ret (KSI_VERIFICATION_FAILURE = the compared values differ) */
static spec_verdict vl_exp_walk(const KSI_VerificationContext *info, int rfc_checked, int code) {
	if (!VR_INFO_OK(info)) return SPEC_VNA;
	if (rfc_checked && info->signature->rfc3161 != NULL && g_vl_rfc_ret != KSI_OK)
		return g_vl_rfc_ret == KSI_VERIFICATION_FAILURE ? SPEC_VFAIL(code) : SPEC_VNA;
	if (g_vl_fail) return SPEC_VFAIL(code);
	if (g_vl_na) return SPEC_VNA;
	return SPEC_VOK;
}
/* an OK verdict is only possible after every chain has been inspected */
#define VL_COMPLETE(info, result) IMPLIES((result) != NULL && VR_INFO_OK(info) && __CPROVER_return_value == KSI_OK && (result)->resultCode == KSI_VER_RES_OK, \
		g_vl_calls == VL_N_EFF((info)->signature) && !g_vl_fail && !g_vl_na)
#endif
