/* Environment + ghost record for the ASYNCHRONOUS delivery path of net_async.c (C06 / C13):
 *   asyncClient_processAggregationResponseQueue / asyncClient_processExtenderResponseQueue -> processResponseQueue
 *   -> asyncClient_handleServerConfig, asyncClient_handleAggregationResp / asyncClient_handleExtendResp -> handleResponse
 * All of these are REAL code.  What they reach outside net_async.c is modelled here:
 *
 *   transport (c->getResponse)   hands out at most AD_MAXQ byte strings, one per call, or nothing, or fails; reports `left`;
 *                                after AD_MAXQ calls it reports left == 0 (the BOUND of the jobs)                    [assumed]
 *   c->getCredentials            arbitrary status; the key of THIS client (g_ad_key)                                 [assumed]
 *   KSI_OctetString_extract/free record; bytes/length of item k
 *   KSI_*Pdu_parse               arbitrary status; on OK the PDU object of item k whose elements (header, MAC, error,
 *                                response, configuration) are arbitrarily present or absent                         [assumed; C09/C10/C12]
 *   KSI_*Pdu_verify              arbitrary verdict, recorded per item; never OK without header and MAC (that is the
 *                                contract enforced on the real bodies by C06.aggr_pdu_verify / C06.ext_pdu_verify;
 *                                the MAC comparison itself: C06.verifyHmac, C06.*_calcHmac_*, C06.hmac_create)
 *   KSI_*Pdu_getError/setError/getConfResponse/getResponse, KSI_ErrorPdu_get*   what KSI_IMPLEMENT_GETTER/SETTER generate
 *   KSI_*Resp_getRequestId/getStatus/getErrorMsg   getters;  KSI_*Resp_verifyWithRequest   arbitrary recorded verdict
 *                                (real bodies: C07.aggr_verifyWithRequest, C08.ext_verifyWithRequest)
 *   KSI_convert*StatusCode       OK iff the status is absent or 0, otherwise a fixed non-OK function of the value
 *                                (net.c:1223-1262 is a switch with exactly that shape)
 *   *_ref / *_free               reference counting on the model objects (ownership is checked with it)
 *   configuration call-backs     record their argument, arbitrary status
 * Every stub that hands "content" on (response -> handle, configuration -> handle / call-back) asserts that the item it
 * belongs to is AUTHENTIC: parsed from the bytes the transport handed out, no error element, header and MAC present,
 * KSI_*Pdu_verify returned OK for THAT pdu under THIS client's key. */
#ifndef ENV_GHOST_ASYNCDEL_H
#define ENV_GHOST_ASYNCDEL_H
#include "env/common.h"
#include "net_async.h"
#include "impl/ctx_impl.h"
#include "impl/net_async_impl.h"

#ifndef AD_MAXQ
#define AD_MAXQ 3
#endif

struct KSI_Integer_st { KSI_uint64_t value; };
struct KSI_Utf8String_st { int refs; };
struct KSI_Header_st { int dummy; };
struct KSI_AggregationReq_st { int dummy; };
struct KSI_ExtendReq_st { int dummy; };
/* Every model object carries its own record (counters are fields of the object a stub is handed, never looked up by a
 * symbolic index: keeps the symbolic execution field-sensitive). k = number of the transport call that delivered it, -1 =
 * an object the cache held before the call. */
struct KSI_OctetString_st { const unsigned char *data; size_t len; int k; unsigned char extract_calls, freed; };
struct KSI_ErrorPdu_st { KSI_Integer *status; KSI_Utf8String *errorMsg; int k; int refs; };
/* Only the flavour of the job (aggregator, or extender with -DAD_EXT) is modelled: the model objects then have exactly the
 * types the real code uses for them (no casts between layout-compatible structs: those cost byte-level reasoning). */
#ifdef AD_EXT
#define ad_pdu_st KSI_ExtendPdu_st
#define ad_resp_st KSI_ExtendResp_st
typedef KSI_ExtendResp ad_resp_t; typedef KSI_ExtendPdu ad_pdu_t; typedef KSI_ExtendReq ad_req_t;
#else
#define ad_pdu_st KSI_AggregationPdu_st
#define ad_resp_st KSI_AggregationResp_st
typedef KSI_AggregationResp ad_resp_t; typedef KSI_AggregationPdu ad_pdu_t; typedef KSI_AggregationReq ad_req_t;
#endif
struct ad_pdu_st {
	KSI_Header *header; KSI_DataHash *hmac; KSI_ErrorPdu *error; ad_resp_t *response; KSI_Config *confResponse; int k;
	_Bool had_error, had_header, had_hmac;            /* as parsed */
	unsigned char verify_calls, freed, detach_calls; int verify_res; const char *verify_key;
	_Bool verified;                                   /* KSI_*Pdu_verify returned OK for this PDU */
};
struct ad_resp_st {
	KSI_Integer *requestId, *status; KSI_Utf8String *errorMsg; int k; int refs; const ad_pdu_t *pdu;
	unsigned char handled;                            /* looked at by handleResponse (request id read) */
	unsigned char vwr_calls; int vwr_res; const void *vwr_req;
	unsigned char delivered;                          /* KSI_*Resp_ref: stored into a handle */
};
struct KSI_Config_st { int k; int refs; const ad_pdu_t *pdu; unsigned char delivered /* KSI_Config_ref: stored into a handle */, cb_calls; };

/* ---- one transport call and everything that may come out of it ---- */
struct ad_item {
	unsigned char byte0; struct KSI_OctetString_st os; ad_pdu_t pdu; struct KSI_Header_st hdr; char mac;
	struct KSI_ErrorPdu_st err; struct KSI_Integer_st err_status; struct KSI_Utf8String_st err_msg;
	ad_resp_t resp; struct KSI_Integer_st rid, status; struct KSI_Utf8String_st resp_msg;
	struct KSI_Config_st conf;
	_Bool handed_out, parsed, has_error, has_header, has_hmac, has_resp, has_conf, has_rid, has_status;
	unsigned char parse_calls; int parse_res; KSI_CTX *parse_ctx; const unsigned char *parse_raw; size_t parse_len;
};
static struct ad_item g_ad_it0, g_ad_it1, g_ad_it2;      /* separate objects */
#define AD_IT(k) ((k) == 0 ? &g_ad_it0 : (k) == 1 ? &g_ad_it1 : &g_ad_it2)
struct ad_ghost {
	unsigned get_calls, n_out;            /* transport calls / byte strings handed out */
	unsigned cred_calls; size_t last_left;  /* what the last successful transport call reported as still queued */
	int first_fail;                       /* status of the first environment step that reported a failure (KSI_OK = none) */
	_Bool err_seen; int last_err;         /* an error PDU was met; index of the last one */
	_Bool used_after_fail;                /* the transport was asked again after a failure was reported */
	int cb_res; _Bool cb_client, cb_ctx;  /* which call-back ran */
	int oldconf_free, oldresp_free;       /* releases of objects the cache held before the call */
} g_ad;
static char g_ad_impl;                    /* the transport context (c->clientImpl) */
static const char g_ad_key[2] = "k";      /* the HMAC key of this client (getCredentials) */
static struct KSI_Config_st g_ad_oldconf; /* configuration a cached configuration handle may already hold */

static int ad_fail(int r) { if (r != KSI_OK && g_ad.first_fail == KSI_OK) g_ad.first_fail = r; return r; }
static int ad_status(void) { return ad_fail(nondet_int()); }

/* AUTHENTIC: the statement of C06 for one PDU */
static _Bool ad_pdu_authentic(const ad_pdu_t *m) {
	return m != NULL && !m->had_error && m->had_header && m->had_hmac && m->verify_calls == 1 && m->verify_res == KSI_OK && m->verified && m->verify_key == g_ad_key;
}
static _Bool ad_authentic(int k) { return k >= 0 && k < AD_MAXQ && AD_IT(k)->handed_out && AD_IT(k)->parsed && AD_IT(k)->parse_calls == 1 && ad_pdu_authentic(&AD_IT(k)->pdu); }

/* ---- transport ---- */
int ad_getResponse(void *impl, KSI_OctetString **out, size_t *left) {
	unsigned k = g_ad.get_calls; int r; struct ad_item *it;      /* item k = what the k-th transport call hands out */
	__CPROVER_assert(impl == (void *)&g_ad_impl, "the transport is asked with the client's own transport context");
	if (g_ad.first_fail != KSI_OK) g_ad.used_after_fail = 1;
	g_ad.get_calls++;
	r = ad_status();
	if (r != KSI_OK) return r;
	if (k < AD_MAXQ && nondet_bool()) {
		it = AD_IT(k);
		it->handed_out = 1; it->os.data = &it->byte0; it->os.len = nondet_size(); it->os.k = (int)k;
		*out = &it->os; g_ad.n_out++;
	} else *out = NULL;
	*left = g_ad.last_left = g_ad.get_calls < AD_MAXQ ? nondet_size() : 0;           /* BOUND: the queue is drained after AD_MAXQ calls */
	return KSI_OK;
}
int ad_getCredentials(void *impl, const char **user, const char **pass) {
	int r;
	__CPROVER_assert(impl == (void *)&g_ad_impl, "credentials are those of the client's own transport context");
	g_ad.cred_calls++;
	r = ad_status();
	if (r != KSI_OK) return r;
	if (user != NULL) *user = "u";
	if (pass != NULL) *pass = g_ad_key;
	return KSI_OK;
}
int KSI_OctetString_extract(const KSI_OctetString *o, const unsigned char **data, size_t *len) {
	if (o == NULL) return ad_fail(KSI_INVALID_ARGUMENT);
	((KSI_OctetString *)o)->extract_calls++;
	if (nondet_bool()) return ad_fail(KSI_INVALID_ARGUMENT);
	*data = o->data; *len = o->len; return KSI_OK;
}
void KSI_OctetString_free(KSI_OctetString *o) { if (o != NULL) o->freed++; }

/* ---- the PDU ---- */
static int ad_parse(KSI_CTX *ctx, const unsigned char *raw, size_t len, ad_pdu_t **t) {
	int k, r; struct ad_item *it;
	if (g_ad.get_calls < 1 || g_ad.get_calls > AD_MAXQ) { __CPROVER_assert(0, "the PDU is parsed after the transport was asked"); return ad_fail(KSI_INVALID_ARGUMENT); }
	k = (int)g_ad.get_calls - 1;                    /* the bytes must be those of the item handed out last */
	it = AD_IT(k);
	__CPROVER_assert(it->handed_out && raw == &it->byte0, "the PDU is parsed from the bytes the transport handed out last");
	it->parse_calls++; it->parse_ctx = ctx; it->parse_raw = raw; it->parse_len = len;
	r = it->parse_res = ad_status();
	if (r != KSI_OK) return r;
	it->parsed = 1;
	it->has_header = nondet_bool(); it->has_hmac = nondet_bool(); it->has_error = nondet_bool(); it->has_resp = nondet_bool(); it->has_conf = nondet_bool();
	it->has_rid = nondet_bool(); it->has_status = nondet_bool();
	it->pdu.k = k; it->pdu.header = it->has_header ? &it->hdr : NULL; it->pdu.hmac = it->has_hmac ? (KSI_DataHash *)&it->mac : NULL;
	it->pdu.had_error = it->has_error; it->pdu.had_header = it->has_header; it->pdu.had_hmac = it->has_hmac;
	it->err.k = k; it->err.refs = it->has_error ? 1 : 0; it->err_status.value = nondet_ull(); it->err.status = &it->err_status;   /* status: mandatory in the error PDU template */
	it->err_msg.refs = 1; it->err.errorMsg = nondet_bool() ? &it->err_msg : NULL;
	it->pdu.error = it->has_error ? &it->err : NULL;
	it->rid.value = nondet_ull(); it->status.value = nondet_ull(); it->resp_msg.refs = 1;
	it->resp.k = k; it->resp.pdu = &it->pdu; it->resp.refs = it->has_resp ? 1 : 0; it->resp.requestId = it->has_rid ? &it->rid : NULL; it->resp.status = it->has_status ? &it->status : NULL;
	it->resp.errorMsg = nondet_bool() ? &it->resp_msg : NULL;
	it->pdu.response = it->has_resp ? &it->resp : NULL;
	it->conf.k = k; it->conf.pdu = &it->pdu; it->conf.refs = it->has_conf ? 1 : 0; it->pdu.confResponse = it->has_conf ? &it->conf : NULL;
	*t = &it->pdu;
	return KSI_OK;
}
static void ad_pdu_free(ad_pdu_t *m) {
	if (m == NULL) return;
	m->freed++;
	if (m->error != NULL) m->error->refs--;
	if (m->response != NULL) m->response->refs--;
	if (m->confResponse != NULL) m->confResponse->refs--;
}
static int ad_verify(const ad_pdu_t *cm, const char *pass) {
	ad_pdu_t *m = (ad_pdu_t *)cm; int r;
	if (m == NULL) return ad_fail(KSI_INVALID_ARGUMENT);
	m->verify_calls++; m->verify_key = pass;
	r = nondet_int();
	if (r == KSI_OK && (pass == NULL || m->header == NULL || m->hmac == NULL)) r = KSI_INVALID_FORMAT;   /* contract of C06.*_pdu_verify */
	m->verify_res = r;
	if (r == KSI_OK) m->verified = 1;
	return ad_fail(r);
}
static int ad_setError(ad_pdu_t *m, KSI_ErrorPdu *e) {
	if (m == NULL) return ad_fail(KSI_INVALID_ARGUMENT);
	if (nondet_bool()) return ad_fail(KSI_INVALID_ARGUMENT);          /* (the generated setter cannot fail; kept general) */
	if (e == NULL && m->error != NULL) { m->detach_calls++; g_ad.err_seen = 1; g_ad.last_err = m->k; }
	m->error = e; return KSI_OK;
}
#define AD_PDU(P, R) \
int P##_parse(KSI_CTX *ctx, const unsigned char *raw, size_t len, P **t) { return ad_parse(ctx, raw, len, t); } \
void P##_free(P *t) { ad_pdu_free(t); } \
int P##_verify(const P *t, const char *pass) { return ad_verify(t, pass); } \
int P##_getError(const P *t, KSI_ErrorPdu **e) { if (t == NULL || e == NULL) return ad_fail(KSI_INVALID_ARGUMENT); if (nondet_bool()) return ad_fail(KSI_INVALID_ARGUMENT); *e = t->error; return KSI_OK; } \
int P##_setError(P *t, KSI_ErrorPdu *e) { return ad_setError(t, e); } \
int P##_getConfResponse(const P *t, KSI_Config **c) { if (t == NULL || c == NULL) return ad_fail(KSI_INVALID_ARGUMENT); if (nondet_bool()) return ad_fail(KSI_INVALID_ARGUMENT); *c = t->confResponse; return KSI_OK; } \
int P##_getResponse(const P *t, R **r) { if (t == NULL || r == NULL) return ad_fail(KSI_INVALID_ARGUMENT); if (nondet_bool()) return ad_fail(KSI_INVALID_ARGUMENT); *r = t->response; return KSI_OK; }
#ifdef AD_EXT
AD_PDU(KSI_ExtendPdu, KSI_ExtendResp)
#else
AD_PDU(KSI_AggregationPdu, KSI_AggregationResp)
#endif

void KSI_ErrorPdu_free(KSI_ErrorPdu *e) { if (e != NULL) e->refs--; }
int KSI_ErrorPdu_getErrorMessage(const KSI_ErrorPdu *o, KSI_Utf8String **v) { if (o == NULL || v == NULL) return KSI_INVALID_ARGUMENT; *v = o->errorMsg; return KSI_OK; }
int KSI_ErrorPdu_getStatus(const KSI_ErrorPdu *o, KSI_Integer **v) { if (o == NULL || v == NULL) return KSI_INVALID_ARGUMENT; *v = o->status; return KSI_OK; }
KSI_uint64_t KSI_Integer_getUInt64(const KSI_Integer *o) { return o != NULL ? o->value : 0; }   /* = types_base.c:597 */
const char *KSI_Utf8String_cstr(const KSI_Utf8String *o) { return "msg"; }
KSI_Utf8String *KSI_Utf8String_ref(KSI_Utf8String *o) { if (o != NULL) o->refs++; return o; }
void KSI_Utf8String_free(KSI_Utf8String *o) { if (o != NULL) o->refs--; }

/* status conversion: OK iff absent or 0; otherwise a fixed non-OK function of the value */
int __CPROVER_uninterpreted_ad_conv(KSI_uint64_t v);
static int ad_conv(const KSI_Integer *st) {
	int r;
	if (st == NULL || st->value == 0) return KSI_OK;
	r = __CPROVER_uninterpreted_ad_conv(st->value);
	return r == KSI_OK ? KSI_SERVICE_UNKNOWN_ERROR : r;
}
#ifdef AD_EXT
int KSI_convertExtenderStatusCode(const KSI_Integer *st) { return ad_conv(st); }
#else
int KSI_convertAggregatorStatusCode(const KSI_Integer *st) { return ad_conv(st); }
#endif

/* ---- the response payload as handleResponse sees it ---- */
static int ad_getRequestId(const ad_resp_t *cr, KSI_Integer **id) {
	ad_resp_t *r = (ad_resp_t *)cr;
	if (r == NULL || id == NULL) return ad_fail(KSI_INVALID_ARGUMENT);
	__CPROVER_assert(ad_pdu_authentic(r->pdu), "C06: a response payload reaches handleResponse only from an AUTHENTIC pdu");
	r->handled++;
	if (nondet_bool()) return ad_fail(KSI_INVALID_ARGUMENT);
	*id = r->requestId; return KSI_OK;
}
static int ad_verifyWithRequest(const ad_resp_t *cr, const void *req) {
	ad_resp_t *r = (ad_resp_t *)cr;
	if (r == NULL) return ad_fail(KSI_INVALID_ARGUMENT);
	r->vwr_calls++; r->vwr_req = req;
	return r->vwr_res = ad_status();
}
static ad_resp_t *ad_resp_ref(ad_resp_t *r) {
	if (r != NULL) {
		__CPROVER_assert(ad_pdu_authentic(r->pdu), "C06: a response is stored into a handle only from an AUTHENTIC pdu");
		r->refs++; r->delivered++;
	}
	return r;
}
static void ad_resp_free(ad_resp_t *r) { if (r != NULL) { if (r->k < 0) g_ad.oldresp_free++; else r->refs--; } }
#define AD_RESP(R, Q) \
int R##_getRequestId(const R *r, KSI_Integer **id) { return ad_getRequestId(r, id); } \
int R##_verifyWithRequest(const R *r, const Q *q) { return ad_verifyWithRequest(r, q); } \
int R##_getStatus(const R *r, KSI_Integer **s) { if (r == NULL || s == NULL) return ad_fail(KSI_INVALID_ARGUMENT); if (nondet_bool()) return ad_fail(KSI_INVALID_ARGUMENT); *s = r->status; return KSI_OK; } \
int R##_getErrorMsg(const R *r, KSI_Utf8String **s) { if (r == NULL || s == NULL) return KSI_INVALID_ARGUMENT; *s = r->errorMsg; return KSI_OK; } \
R *R##_ref(R *r) { return ad_resp_ref(r); } \
void R##_free(R *r) { ad_resp_free(r); }
#ifdef AD_EXT
AD_RESP(KSI_ExtendResp, KSI_ExtendReq)
#else
AD_RESP(KSI_AggregationResp, KSI_AggregationReq)
#endif
void KSI_AggregationReq_free(KSI_AggregationReq *r) { }
void KSI_ExtendReq_free(KSI_ExtendReq *r) { }

/* ---- configuration ---- */
KSI_Config *KSI_Config_ref(KSI_Config *c) {
	if (c != NULL) {
		__CPROVER_assert(ad_pdu_authentic(c->pdu), "C06: a configuration is stored into a handle only from an AUTHENTIC pdu");
		c->refs++; c->delivered++;
	}
	return c;
}
void KSI_Config_free(KSI_Config *c) { if (c != NULL) { if (c->k < 0) g_ad.oldconf_free++; else c->refs--; } }
static int ad_cb(KSI_Config *c) {
	__CPROVER_assert(c != NULL && ad_pdu_authentic(c->pdu) && c == c->pdu->confResponse, "C06: the configuration call-back gets a configuration only from an AUTHENTIC pdu (its own configuration element)");
	if (c != NULL) c->cb_calls++;
	return g_ad.cb_res = ad_status();
}
int ad_cb_client(KSI_CTX *ctx, KSI_Config *c) { g_ad.cb_client = 1; return ad_cb(c); }      /* KSI_ASYNC_OPT_PUSH_CONF_CALLBACK of the client */
int ad_cb_ctx(KSI_CTX *ctx, KSI_Config *c) { g_ad.cb_ctx = 1; return ad_cb(c); }            /* KSI_OPT_*_CONF_RECEIVED_CALLBACK of the context */

/* ctx->asyncHandleRecycle is NULL in the harness; gives the guarded function-pointer calls on it a concrete target */
int ad_recycle_append(KSI_LIST(KSI_AsyncHandle) *l, KSI_AsyncHandle *h) { __CPROVER_assert(0, "recycle list is absent"); return KSI_INVALID_STATE; }
size_t ad_recycle_length(KSI_LIST(KSI_AsyncHandle) *l) { __CPROVER_assert(0, "recycle list is absent"); return 0; }
int ad_recycle_remove(KSI_LIST(KSI_AsyncHandle) *l, size_t pos, KSI_AsyncHandle **h) { __CPROVER_assert(0, "recycle list is absent"); return KSI_INVALID_STATE; }

#define ENV_ASYNCDEL_ASSUMED \
	"transport c->getResponse: at most 3 calls report left != 0 (bound), each hands out one byte string, nothing, or fails; c->getCredentials: arbitrary status, the key of this client (env/ghost_asyncdel.h)", \
	"KSI_AggregationPdu_parse / KSI_ExtendPdu_parse: arbitrary status; on OK a PDU whose header, MAC, error, response, configuration elements are arbitrarily present (parsers: C09/C10/C12)", \
	"KSI_AggregationPdu_verify / KSI_ExtendPdu_verify: arbitrary recorded verdict, never OK without header, MAC and key (real bodies: C06.aggr_pdu_verify, C06.ext_pdu_verify, C06.verifyHmac, C06.*_calcHmac_*, C06.hmac_create)", \
	"KSI_*Pdu_getError/setError/getConfResponse/getResponse, KSI_ErrorPdu_getStatus/getErrorMessage/free, KSI_*Resp_getRequestId/getStatus/getErrorMsg/ref/free, KSI_Config_ref/free, KSI_OctetString_extract/free, KSI_Utf8String_ref/free/cstr, KSI_Integer_getUInt64: getters/setters and reference counting on model objects (what the KSI_IMPLEMENT_* macros generate)", \
	"KSI_AggregationResp_verifyWithRequest / KSI_ExtendResp_verifyWithRequest: arbitrary recorded verdict (real bodies: C07.aggr_verifyWithRequest, C08.ext_verifyWithRequest)", \
	"KSI_convertAggregatorStatusCode / KSI_convertExtenderStatusCode: OK iff status absent or 0, else a fixed non-OK function of the value (net.c:1223-1262)", \
	"configuration call-backs: record their argument, arbitrary status"
#endif
