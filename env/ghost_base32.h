/* Ghost monitor for KSI_base32Decode (C17).
 * The decoder looks at every input character exactly once, through toupper().  toupper() is an external
 * (libc) callee, so its stub is the observation point: it returns the ASCII upper-case of its argument
 * [ASSUMED: C locale] and feeds the *raw* character to the reference decoder machine of spec/base32.h,
 * asserting the traversal protocol (characters are taken in order, each once).
 * strlen() is stubbed too: the harness fixes the length g_b32_len of the string object (g_b32_len+1 bytes,
 * NUL at the end, arbitrary content before it - an over-approximation of all strings of that length). */
#ifndef ENV_GHOST_BASE32_H
#define ENV_GHOST_BASE32_H
#include "spec/base32.h"

const char *g_b32_str;     /* the input string object */
size_t g_b32_len;          /* its length (fixed during the call) */
size_t g_b32_calls;        /* characters consumed so far */
spec_b32_dec g_b32;        /* reference machine */
size_t g_b32_wbit;         /* witness bit position, chosen by the harness before the call, never written afterwards */

int toupper(int c) {
	__CPROVER_assert(g_b32_calls < g_b32_len, "protocol: no character is looked at beyond the string");
	__CPROVER_assert(c == (int)g_b32_str[g_b32_calls], "protocol: characters are taken in order, each once");
	spec_b32_dec_step(&g_b32, c, g_b32_wbit);
	g_b32_calls++;
	return (c >= 'a' && c <= 'z') ? c - ('a' - 'A') : c;
}

size_t strlen(const char *s) {
	__CPROVER_assert(s == g_b32_str, "strlen is taken of the input string only");
	return g_b32_len;
}
#define ENV_GHOST_BASE32_ASSUMED "toupper: ASCII upper-case of its argument (C locale), ghost stub env/ghost_base32.h", \
	"strlen: returns the length the harness fixed for the input string object (content before the NUL arbitrary)"
#endif
