/* Ghost model of the certificate list of a publications file (C18 getPKICertificateById), DESIGN 3.3.
 * KSI_CertificateRecord is opaque to publicationsfile.c (types.c): modelled with the two fields the getters return.
 * Each fetched record carries a fresh id; whether that id is identical to the queried id is decided by the stub
 * (g18c_cur_eq, arbitrary) and reported by the KSI_OctetString_equals stub.  ASSUMED: KSI_OctetString_equals decides
 * octet-for-octet identity of two ids (types_base.c:161, memcmp over equal lengths); the getters return the fields. */
#ifndef ENV_C18_CERTLIST_H
#define ENV_C18_CERTLIST_H
struct KSI_CertificateRecord_st { KSI_CTX *ctx; KSI_OctetString *certId; KSI_PKICertificate *cert; };
size_t g18c_len, g18c_calls, g18c_match_calls;       /* match_calls: elements fetched when the first identical id was handed out (0: none) */
int g18c_cur_eq;                                      /* the record handed out last has the queried id */
size_t g18c_eq_calls;
const KSI_OctetString *g18c_query;
static char g18c_id_obj, g18c_cert_objs[2];
struct KSI_CertificateRecord_st g18c_rec;
KSI_PKICertificate *g18c_first_cert;                  /* certificate of the first record with the identical id */
struct KSI_CertificateRecord_list_st g18c_list;

static size_t g18c_length(KSI_LIST(KSI_CertificateRecord) *l) { return g18c_len; }
static int g18c_elementAt(KSI_LIST(KSI_CertificateRecord) *l, size_t pos, KSI_CertificateRecord **o) {
	__CPROVER_assert(g18c_calls < g18c_len, "protocol: no fetch beyond the list");
	__CPROVER_assert(pos == g18c_calls, "protocol: records are taken in order, each once");
	__CPROVER_assert(g18c_match_calls == 0, "protocol: the scan stops at the first identical id");
	g18c_cur_eq = nondet_bool();
	g18c_rec.certId = (KSI_OctetString *)&g18c_id_obj;
	g18c_rec.cert = (KSI_PKICertificate *)&g18c_cert_objs[nondet_bool() ? 1 : 0];
	g18c_calls++;
	if (g18c_cur_eq) { g18c_match_calls = g18c_calls; g18c_first_cert = g18c_rec.cert; }
	*o = &g18c_rec;
	return KSI_OK;
}
int KSI_CertificateRecord_getCertId(const KSI_CertificateRecord *r, KSI_OctetString **id) { if (r == NULL || id == NULL) return KSI_INVALID_ARGUMENT; *id = r->certId; return KSI_OK; }
int KSI_CertificateRecord_getCert(const KSI_CertificateRecord *r, KSI_PKICertificate **c) { if (r == NULL || c == NULL) return KSI_INVALID_ARGUMENT; *c = r->cert; return KSI_OK; }
int KSI_OctetString_equals(const KSI_OctetString *left, const KSI_OctetString *right) {
	__CPROVER_assert(left == (KSI_OctetString *)&g18c_id_obj && right == g18c_query, "protocol: the record's id is compared with the queried id");
	g18c_eq_calls++;
	return g18c_cur_eq;
}
#define ENV_C18_CERTLIST_ASSUMED "certificate list = model list (env/c18_certlist.h); KSI_OctetString_equals: assumed to decide identity of ids; KSI_CertificateRecord getters return the fields"
#endif
