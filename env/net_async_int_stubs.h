/* KSI_Integer / KSI_Utf8String for the addRequest job of C13, WITHOUT the static pool of types_base.c: a symbolic index
 * into the 256-entry pool (KSI_Integer_new of the freshly computed request id) costs minutes of pointer analysis.
 * [ASSUMED] textual models of types_base.c:38-43,353-358,573-577,597-599,621-650: reference-counted heap objects. */
#ifndef ENV_NET_ASYNC_INT_STUBS_H
#define ENV_NET_ASYNC_INT_STUBS_H
#include "env/common.h"
struct KSI_Integer_st { size_t ref; KSI_uint64_t value; };
struct KSI_Utf8String_st { KSI_CTX *ctx; size_t ref; char *value; size_t len; };
int KSI_Integer_new(KSI_CTX *ctx, KSI_uint64_t value, KSI_Integer **o) {
	KSI_Integer *t;
	if (o == NULL) return KSI_INVALID_ARGUMENT;
	t = malloc(sizeof(*t));
	if (t == NULL) return KSI_OUT_OF_MEMORY;
	t->ref = 1; t->value = value; *o = t; return KSI_OK;
}
void KSI_Integer_free(KSI_Integer *o) { if (o != NULL && o->ref != 0 && --o->ref == 0) free(o); }
KSI_uint64_t KSI_Integer_getUInt64(const KSI_Integer *o) { return o != NULL ? o->value : 0; }
int KSI_Utf8String_new(KSI_CTX *ctx, const char *str, size_t len, KSI_Utf8String **o) {
	KSI_Utf8String *t;
	if (ctx == NULL || str == NULL || o == NULL) return KSI_INVALID_ARGUMENT;
	t = malloc(sizeof(*t));
	if (t == NULL) return KSI_OUT_OF_MEMORY;
	t->ctx = ctx; t->ref = 1; t->value = NULL; t->len = len; *o = t; return KSI_OK;
}
void KSI_Utf8String_free(KSI_Utf8String *o) { if (o != NULL && --o->ref == 0) free(o); }
KSI_Utf8String *KSI_Utf8String_ref(KSI_Utf8String *o) { if (o != NULL) o->ref++; return o; }
const char *KSI_Utf8String_cstr(const KSI_Utf8String *o) { return "msg"; }
#define ENV_NET_ASYNC_INT_ASSUMED "KSI_Integer_new/free/getUInt64, KSI_Utf8String_new/free/ref: reference-counted heap objects without the static integer pool (env/net_async_int_stubs.h)"
#endif
