/* Ghost monitor for has->respQueue (a KSI_LIST(KSI_AsyncHandle), i.e. a struct of function pointers): records what
 * net_ha.c appends, in order.  [ASSUMED] append stores the pointer and takes over the reference it is given;
 * with -DHA_QUEUE_MAY_FAIL it may also fail (allocation) without storing. */
#ifndef ENV_NET_HA_QUEUE_H
#define ENV_NET_HA_QUEUE_H
#include "env/common.h"
#include "net_async.h"
#include "impl/net_async_impl.h"

#define HA_Q_MAX 4
int g_q_count;                          /* successful appends */
int g_q_failed;                         /* failed appends */
KSI_AsyncHandle *g_q_item[HA_Q_MAX];    /* appended handles in order */
int g_q_state[HA_Q_MAX];                /* their state at the time of the append */

static int ha_q_append(KSI_LIST(KSI_AsyncHandle) *lst, KSI_AsyncHandle *h) {
	__CPROVER_assert(h != NULL, "queue monitor: NULL is never queued");
	__CPROVER_assert(g_q_count < HA_Q_MAX, "queue monitor: at most 4 appends per event");
#ifdef HA_QUEUE_MAY_FAIL
	if (nondet_bool()) { g_q_failed++; return KSI_OUT_OF_MEMORY; }
#endif
	if (g_q_count < HA_Q_MAX) { g_q_item[g_q_count] = h; g_q_state[g_q_count] = h->state; }
	g_q_count++;
	return KSI_OK;
}
static size_t ha_q_length(KSI_LIST(KSI_AsyncHandle) *lst) { return (size_t)g_q_count; }

static void ha_q_init(KSI_LIST(KSI_AsyncHandle) *q) {
	memset(q, 0, sizeof(*q));
	q->append = ha_q_append;
	q->length = ha_q_length;
	g_q_count = 0; g_q_failed = 0;
}
#define ENV_NET_HA_QUEUE_ASSUMED "has->respQueue: ghost list (env/net_ha_queue.h) whose append records the handle and succeeds (may fail with OUT_OF_MEMORY only in the *_oom variants)"
#endif
