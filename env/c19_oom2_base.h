/* C19 (builderQ helper, slice "oom2_pol"): live-allocation accounting for harnesses that include the REAL base.c.
 * base.c itself defines the funnels KSI_malloc / KSI_calloc / KSI_free (base.c:1033-1045), so env/c19_alloc_env.h
 * (which stubs them) cannot be used.  Here the real funnels run; the three libc calls they make are routed, by
 * function-like macros that are active ONLY while base.c is being included, to counting pass-throughs:
 *     #include "env/c19_oom2_base.h"
 *     #define malloc(n) oom2_acct_malloc(n)   (same for calloc, free)
 *     #include "base.c"
 *     #undef malloc ...
 * (base.c calls malloc/calloc/free nowhere else: grep shows lines 1034, 1038, 1043 only.)
 *   g_live          funnel blocks handed out and not yet released
 *   g_alloc_failed  funnel allocations that returned NULL
 * CBMC (--malloc-may-fail --malloc-fail-null) lets every malloc/calloc fail nondeterministically, in every combination.
 * KSI_LOG_*: no effect on the state the property observes                                              [ASSUMED]
 * strncpy with n > OOM2_STRNCPY_EXACT: only KSI_ERR_push's copies into the 1024-byte text fields of the error
 *   stack reach it; modelled as "writes arbitrary bytes inside dest[0..n)" (the text of the error stack is not
 *   observed by the property; the bounds of the write ARE checked)                                      [ASSUMED]
 * strncpy with n <= OOM2_STRNCPY_EXACT: exact C semantics (copy, then pad with zeros). */
#ifndef ENV_C19_OOM2_BASE_H
#define ENV_C19_OOM2_BASE_H
#include <stdlib.h>
#include <string.h>
#include <stdarg.h>
#include "internal.h"

long g_live;                 /* funnel blocks currently live */
unsigned g_alloc_failed;     /* number of funnel allocations that returned NULL */

/* CLOSED case split on the block sizes / element counts a harness can ask for: each branch calls malloc / calloc with
 * exactly the arguments given (identity), and the fall-through branch is a CHECKED assertion, so the split is
 * exhaustive on every path or the job fails.  Reason: one allocation of symbolic size - even on an infeasible
 * branch - costs CBMC millions of variables (4.6 M vs 0.3 M measured).  A harness may override the lists. */
#ifndef OOM2_MALLOC_SIZES
#define OOM2_MALLOC_SIZES X(1) X(2) X(3) X(4) X(21) X(24) X(96)   /* strings <= 3 chars, KSI_CERT_EMAIL, listImpl_st, KSI_List_st */
#endif
#ifndef OOM2_CALLOC_COUNTS
#define OOM2_CALLOC_COUNTS X(1) X(2) X(3) X(4) X(10)               /* constraint arrays, short strings, first list array */
#endif
static void *oom2_acct_malloc(size_t size) {
	void *p;
#define X(k) if (size == (k)) p = (malloc)(k); else
	OOM2_MALLOC_SIZES
#undef X
	{ __CPROVER_assert(0, "env: malloc size outside the closed case split of env/c19_oom2_base.h"); p = NULL; }
	if (p != NULL) g_live++; else g_alloc_failed++;
	return p;
}
static void *oom2_acct_calloc(size_t num, size_t size) {
	void *p;
#define X(k) if (num == (k)) p = (calloc)((k), size); else
	OOM2_CALLOC_COUNTS
#undef X
	{ __CPROVER_assert(0, "env: calloc count outside the closed case split of env/c19_oom2_base.h"); p = NULL; }
	if (p != NULL) g_live++; else g_alloc_failed++;
	return p;
}
static void oom2_acct_free(void *ptr) { if (ptr != NULL) g_live--; (free)(ptr); }

#ifndef OOM2_STRNCPY_EXACT
#define OOM2_STRNCPY_EXACT 64
#endif
char *strncpy(char *dest, const char *src, size_t n) {
	if (n > OOM2_STRNCPY_EXACT) {
		__CPROVER_assert(__CPROVER_w_ok(dest, n), "strncpy: the n bytes written lie inside the destination");
		__CPROVER_assert(src != NULL && __CPROVER_r_ok(src, 1), "strncpy: readable source");
		__CPROVER_havoc_slice(dest, n);
	} else {
		size_t i; _Bool end = 0;
		for (i = 0; i < n; i++) { char c = end ? 0 : src[i]; dest[i] = c; if (c == 0) end = 1; }
	}
	return dest;
}

int KSI_LOG_debug(KSI_CTX *ctx, char *format, ...) { return KSI_OK; }
int KSI_LOG_info(KSI_CTX *ctx, char *format, ...) { return KSI_OK; }
int KSI_LOG_notice(KSI_CTX *ctx, char *format, ...) { return KSI_OK; }
int KSI_LOG_warn(KSI_CTX *ctx, char *format, ...) { return KSI_OK; }
int KSI_LOG_error(KSI_CTX *ctx, char *format, ...) { return KSI_OK; }
#endif
