/* Environment of KSI_HighAvailabilityService_addRequest (C15 fan-out): ghost monitor for the list of sub-services
 * and for the sub-services themselves.  [ASSUMED]
 *  - has->services: a list of g_fan_len (arbitrary) sub-services; elementAt(pos) must be asked for pos = 0,1,2,...
 *    in order, each position once (asserted), and hands out the sub-service object.
 *  - KSI_AsyncService_addRequest(sub, h): the sub-service either ACCEPTS h (takes the reference over, h must be a
 *    clone carrying the HA wrapper as request context - asserted) or REJECTS it with an arbitrary error code and
 *    leaves the ownership with the caller.
 *  - request accessors / clone: arbitrary results (clone: OK with a fresh object, or an error). */
#ifndef ENV_NET_HA_FANOUT_H
#define ENV_NET_HA_FANOUT_H
#include "env/common.h"
#include "net_async.h"
#include "impl/net_async_impl.h"

size_t g_fan_len;            /* number of sub-services */
size_t g_fan_at;             /* elementAt calls so far == index of the next sub-service */
size_t g_fan_offered;        /* KSI_AsyncService_addRequest calls so far */
size_t g_fan_accepted;       /* ... of which accepted */
int g_fan_lastres;           /* result of the latest KSI_AsyncService_addRequest */
KSI_AsyncHandle *g_fan_user; /* the user's handle */
KSI_HighAvailabilityRequest *g_fan_wrapper;   /* the HA wrapper seen on the forwarded clones */
static KSI_AsyncService g_fan_sub;   /* the sub-service object handed out (one object stands for all positions) */

static size_t fan_length(KSI_LIST(KSI_AsyncService) *l) { return g_fan_len; }
static int fan_elementAt(KSI_LIST(KSI_AsyncService) *l, size_t pos, KSI_AsyncService **o) {
	__CPROVER_assert(pos == g_fan_at && pos < g_fan_len, "fan-out monitor: sub-services are visited in order, each once");
	__CPROVER_assert(g_fan_offered == g_fan_at, "fan-out monitor: the previous sub-service was offered the request");
	g_fan_at++;
	if (nondet_bool()) return KSI_INVALID_STATE;     /* list access may fail */
	*o = &g_fan_sub;
	return KSI_OK;
}
int KSI_AsyncService_addRequest(KSI_AsyncService *s, KSI_AsyncHandle *h) {
	int r = nondet_int();
	__CPROVER_assert(s == &g_fan_sub && g_fan_offered + 1 == g_fan_at, "fan-out monitor: exactly one offer per visited sub-service");
	__CPROVER_assert(h != NULL && h != g_fan_user, "fan-out monitor: a clone is forwarded, never the user's own handle");
	__CPROVER_assert(h->ref == 1 && h->userCtx != NULL && ((KSI_HighAvailabilityRequest *)h->userCtx)->asyncHandle == g_fan_user,
			"fan-out monitor: the forwarded handle carries the HA wrapper of the user's handle");
	__CPROVER_assert(h->userCtx_free == (void (*)(void *))KSI_HighAvailabilityRequest_free, "fan-out monitor: wrapper released with the sub-handle");
	__CPROVER_assert(g_fan_wrapper == NULL || g_fan_wrapper == (KSI_HighAvailabilityRequest *)h->userCtx, "fan-out monitor: one wrapper per user request");
	g_fan_wrapper = (KSI_HighAvailabilityRequest *)h->userCtx;
	g_fan_offered++;
	g_fan_lastres = r;
	if (r == KSI_OK) g_fan_accepted++;
	return r;
}

/* ctx->haRequestRecycle is NULL in the harness (no recycled wrappers); these only give the three guarded
 * function-pointer calls on it a concrete target (restrict_fp) and must never run */
size_t fan_rec_length(KSI_LIST(KSI_HighAvailabilityRequest) *l) { __CPROVER_assert(0, "recycle list is absent"); return 0; }
int fan_rec_remove(KSI_LIST(KSI_HighAvailabilityRequest) *l, size_t pos, KSI_HighAvailabilityRequest **o) { __CPROVER_assert(0, "recycle list is absent"); return KSI_INVALID_STATE; }
int fan_rec_append(KSI_LIST(KSI_HighAvailabilityRequest) *l, KSI_HighAvailabilityRequest *o) { __CPROVER_assert(0, "recycle list is absent"); return KSI_INVALID_STATE; }

int KSI_AggregationReq_getRequestHash(const KSI_AggregationReq *t, KSI_DataHash **v) { if (nondet_bool()) return KSI_INVALID_ARGUMENT; *v = nondet_bool() ? NULL : (KSI_DataHash *)t; return KSI_OK; }
int KSI_AggregationReq_getConfig(const KSI_AggregationReq *t, KSI_Config **v) { if (nondet_bool()) return KSI_INVALID_ARGUMENT; *v = nondet_bool() ? NULL : (KSI_Config *)t; return KSI_OK; }
int KSI_ExtendReq_getAggregationTime(const KSI_ExtendReq *t, KSI_Integer **v) { if (nondet_bool()) return KSI_INVALID_ARGUMENT; *v = nondet_bool() ? NULL : (KSI_Integer *)t; return KSI_OK; }
int KSI_ExtendReq_getConfig(const KSI_ExtendReq *t, KSI_Config **v) { if (nondet_bool()) return KSI_INVALID_ARGUMENT; *v = nondet_bool() ? NULL : (KSI_Config *)t; return KSI_OK; }
static char fan_clone_obj;   /* (no malloc inside the loop under contract, see env/net_ha_async_stubs.h) */
int KSI_AggregationReq_clone(const KSI_AggregationReq *from, KSI_AggregationReq **to) { if (nondet_bool()) return KSI_OUT_OF_MEMORY; *to = (KSI_AggregationReq *)&fan_clone_obj; return KSI_OK; }
int KSI_ExtendReq_clone(const KSI_ExtendReq *from, KSI_ExtendReq **to) { if (nondet_bool()) return KSI_OUT_OF_MEMORY; *to = (KSI_ExtendReq *)&fan_clone_obj; return KSI_OK; }

#define ENV_NET_HA_FANOUT_ASSUMED "has->services: ghost list of arbitrary length visited in order (env/net_ha_fanout.h); KSI_AsyncService_addRequest: sub-service accepts (takes the reference) or rejects with an arbitrary error; KSI_AggregationReq_/KSI_ExtendReq_ getters and clone: arbitrary results"
#endif
