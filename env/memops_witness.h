/* Witness abstraction of memcpy / memmove for harness TUs in which CBMC's array model of a copy of symbolic length
 * does not terminate (tlv_element.c).  #include it BEFORE the real .c file: the calls in the real source are
 * redirected by macro to these stubs; the real source text is unchanged.
 *   - memory safety of the call is checked exactly: source readable and destination writable for n octets
 *     (plus, for memcpy, no overlap);
 *   - the destination is then HAVOCKED, and only the octets at relative positions 0,1,2,3, g_mem_k and g_mem_k2 receive the source octets (g_mem_k / g_mem_k2: two arbitrary
 *     witness indices fixed before the run - a copy followed by a move needs one for each).
 * This over-approximates the real functions (every real behaviour is included); what is proved about the octets at the
 * witness positions holds for every position because g_mem_k is arbitrary.                               [ASSUMED: libc] */
#ifndef ENV_MEMOPS_WITNESS_H
#define ENV_MEMOPS_WITNESS_H
#include <string.h>
size_t g_mem_k, g_mem_k2;    /* two arbitrary witness positions, never written */

static void *ksi_env_memmove(void *dst, const void *src, size_t n) {
	unsigned char *d = dst; const unsigned char *s = src;
	unsigned char b0 = 0, b1 = 0, b2 = 0, b3 = 0, bk = 0, bk2 = 0;
	__CPROVER_assert(__CPROVER_r_ok(src, n), "memmove/memcpy: source readable for n octets");
	__CPROVER_assert(__CPROVER_w_ok(dst, n), "memmove/memcpy: destination writable for n octets");
	if (n > 0) b0 = s[0];
	if (n > 1) b1 = s[1];
	if (n > 2) b2 = s[2];
	if (n > 3) b3 = s[3];
	if (n > g_mem_k) bk = s[g_mem_k];
	if (n > g_mem_k2) bk2 = s[g_mem_k2];
	if (n > 0) __CPROVER_havoc_slice(d, n);
	if (n > 0) d[0] = b0;
	if (n > 1) d[1] = b1;
	if (n > 2) d[2] = b2;
	if (n > 3) d[3] = b3;
	if (n > g_mem_k) d[g_mem_k] = bk;
	if (n > g_mem_k2) d[g_mem_k2] = bk2;
	return dst;
}
static void *ksi_env_memcpy(void *dst, const void *src, size_t n) {
	__CPROVER_assert(n == 0 || !__CPROVER_same_object(dst, src) ||
			(const char *)dst + n <= (const char *)src || (const char *)src + n <= (const char *)dst, "memcpy: regions do not overlap");
	return ksi_env_memmove(dst, src, n);
}
#define memcpy(d, s, n) ksi_env_memcpy((d), (s), (n))
#define memmove(d, s, n) ksi_env_memmove((d), (s), (n))
#endif
