/* C04 environment of the extender round trip inside the rules (receiveCalendarHashChain of verification_rule.c).
 * ASSUMED callees, all ghost-recording, all may fail with an arbitrary status:
 *   KSI_createExtendRequest (signature.c; C08.createExtendRequest proves: the request carries (start, end) as aggregation /
 *     publication time, start NULL is refused), KSI_sendExtenderRequest, KSI_RequestHandle_perform,
 *   KSI_RequestHandle_getExtendResponse (network, PDU parsing and HMAC check: C06 / C20 - a reply that is not
 *     authenticated is an error of this call), KSI_convertExtenderStatusCode (net.c: every non-zero status is an error).
 * The reply is a concrete KSI_ExtendResp object (types.c struct) with arbitrary status / request id / chain; the real
 * getters and KSI_ExtendResp_setCalendarHashChain of types.c work on it.  Releases are counted. */
#ifndef ENV_GHOST_C04_EXTEND_H
#define ENV_GHOST_C04_EXTEND_H

enum { C04_I_X_STATUS = 0, C04_I_X_RESP_ID, C04_I_X_REQ_ID, C04_NXI };
struct KSI_Integer_st g_c04_xi[C04_NXI];
struct KSI_ExtendReq_st g_c04_req;
struct KSI_ExtendResp_st g_c04_resp;
struct KSI_CalendarHashChain_st g_c04_newCal;        /* the chain inside the reply */
struct KSI_Utf8String_st g_c04_x_errmsg; char g_c04_x_errchars[2];
char g_c04_handle_obj;
#define C04_HANDLE ((KSI_RequestHandle *)&g_c04_handle_obj)

int g_c04_x_create_res, g_c04_x_send_res, g_c04_x_perform_res, g_c04_x_getresp_res, g_c04_x_convert_res;
unsigned g_c04_x_create_calls, g_c04_x_send_calls, g_c04_x_perform_calls, g_c04_x_getresp_calls;
KSI_Integer *g_c04_x_start, *g_c04_x_end;           /* times the request was made for */
int g_c04_x_req_live, g_c04_x_handle_live, g_c04_x_resp_live;
int g_c04_x_old_live, g_c04_x_new_live;             /* chain buffered before the call / chain of the reply */
_Bool g_c04_x_chain_in_reply;                      /* the reply object still owns its chain */

int KSI_createExtendRequest(KSI_CTX *ctx, KSI_Integer *start, KSI_Integer *end, KSI_ExtendReq **request) {
	__CPROVER_assert(g_c04_x_create_calls == 0, "extend: one request per round trip");
	g_c04_x_create_calls++; g_c04_x_start = start; g_c04_x_end = end;
	if (ctx == NULL || start == NULL || request == NULL) return KSI_INVALID_ARGUMENT;
	if (g_c04_x_create_res != KSI_OK) return g_c04_x_create_res;
	g_c04_req.aggregationTime = start; g_c04_req.publicationTime = end;
	g_c04_x_req_live = 1;
	*request = &g_c04_req;
	return KSI_OK;
}
int KSI_sendExtenderRequest(KSI_CTX *ctx, KSI_ExtendReq *request, KSI_RequestHandle **handle) {
	__CPROVER_assert(request == &g_c04_req && g_c04_x_req_live == 1 && g_c04_x_send_calls == 0, "extend: the request just made is sent, once");
	g_c04_x_send_calls++;
	if (ctx == NULL || handle == NULL) return KSI_INVALID_ARGUMENT;
	if (g_c04_x_send_res != KSI_OK) return g_c04_x_send_res;
	g_c04_x_handle_live = 1;
	*handle = C04_HANDLE;
	return KSI_OK;
}
int KSI_RequestHandle_perform(KSI_RequestHandle *handle) {
	__CPROVER_assert(handle == C04_HANDLE && g_c04_x_handle_live == 1 && g_c04_x_perform_calls == 0, "extend: the handle of the sent request is performed, once");
	g_c04_x_perform_calls++;
	return g_c04_x_perform_res;
}
int KSI_RequestHandle_getExtendResponse(const KSI_RequestHandle *handle, KSI_ExtendResp **resp) {
	__CPROVER_assert(handle == C04_HANDLE && g_c04_x_handle_live == 1 && g_c04_x_perform_calls == 1 && g_c04_x_perform_res == KSI_OK && g_c04_x_getresp_calls == 0,
			"extend: the response is taken from the performed handle, once");
	g_c04_x_getresp_calls++;
	if (resp == NULL) return KSI_INVALID_ARGUMENT;
	if (g_c04_x_getresp_res != KSI_OK) return g_c04_x_getresp_res;
	g_c04_x_resp_live = 1;
	g_c04_x_new_live = (g_c04_resp.calendarHashChain == &g_c04_newCal);     /* the reply comes with its chain */
	*resp = &g_c04_resp;
	return KSI_OK;
}
int KSI_convertExtenderStatusCode(const KSI_Integer *statusCode) {
	if (statusCode == NULL || statusCode->value == 0) return KSI_OK;
	return g_c04_x_convert_res;            /* != KSI_OK, pinned by the harness */
}
void KSI_ExtendReq_free(KSI_ExtendReq *t) {
	if (t == NULL) return;
	__CPROVER_assert(t == &g_c04_req && g_c04_x_req_live == 1, "free: the live request, once");
	g_c04_x_req_live--;
}
void KSI_RequestHandle_free(KSI_RequestHandle *h) {
	if (h == NULL) return;
	__CPROVER_assert(h == C04_HANDLE && g_c04_x_handle_live == 1, "free: the live handle, once");
	g_c04_x_handle_live--;
}
void KSI_ExtendResp_free(KSI_ExtendResp *t) {
	if (t == NULL) return;
	__CPROVER_assert(t == &g_c04_resp && g_c04_x_resp_live == 1, "free: the live response, once");
	g_c04_x_resp_live--;
	if (g_c04_resp.calendarHashChain == &g_c04_newCal) {          /* the reply releases what it still owns */
		__CPROVER_assert(g_c04_x_new_live == 1, "free: reply chain released once");
		g_c04_x_new_live--;
	}
}
void KSI_CalendarHashChain_free(KSI_CalendarHashChain *t) {
	if (t == NULL) return;
	__CPROVER_assert(t == &g_c04_extCal || t == &g_c04_newCal, "free: a calendar chain of the extender (never the signature's)");
	if (t == &g_c04_extCal) { __CPROVER_assert(g_c04_x_old_live == 1, "free of a dead calendar chain (double free)"); g_c04_x_old_live--; }
	else { __CPROVER_assert(g_c04_x_new_live == 1, "free of a dead calendar chain (double free)"); g_c04_x_new_live--; }
}

/* record of the receiveCalendarHashChain call of a rule (written only by the contract that replaces the call) */
unsigned g_c04_rcv_calls; const KSI_Integer *g_c04_rcv_end; int g_c04_rcv_res;

static KSI_Integer *c04_x_opt_int(int k) { g_c04_xi[k].value = nondet_ull(); g_c04_xi[k].ref = 1; return nondet_bool() ? &g_c04_xi[k] : NULL; }
static void c04_extend_world_build(void) {
	g_c04_x_create_res = nondet_int(); g_c04_x_send_res = nondet_int(); g_c04_x_perform_res = nondet_int(); g_c04_x_getresp_res = nondet_int();
	g_c04_x_convert_res = nondet_int();
	__CPROVER_assume(g_c04_x_convert_res != KSI_OK);     /* net.c:1241 KSI_convertExtenderStatusCode: no non-zero status maps to KSI_OK */
	g_c04_x_create_calls = 0; g_c04_x_send_calls = 0; g_c04_x_perform_calls = 0; g_c04_x_getresp_calls = 0;
	g_c04_x_start = NULL; g_c04_x_end = NULL;
	g_c04_rcv_calls = 0; g_c04_rcv_end = NULL; g_c04_rcv_res = KSI_UNKNOWN_ERROR;
	g_c04_x_req_live = 0; g_c04_x_handle_live = 0; g_c04_x_resp_live = 0;
	g_c04_x_old_live = (g_c04_td.calendarChain == &g_c04_extCal);
	g_c04_req.ref = 1; g_c04_req.ctx = &g_c04_ctx; g_c04_req.config = NULL; g_c04_req.raw = NULL;
	g_c04_req.aggregationTime = NULL; g_c04_req.publicationTime = NULL;
	g_c04_req.requestId = c04_x_opt_int(C04_I_X_REQ_ID);
	g_c04_resp.ref = 1; g_c04_resp.ctx = &g_c04_ctx; g_c04_resp.config = NULL; g_c04_resp.lastTime = NULL; g_c04_resp.baseTlv = NULL; g_c04_resp.raw = NULL;
	g_c04_resp.status = c04_x_opt_int(C04_I_X_STATUS);
	g_c04_resp.requestId = nondet_bool() ? c04_x_opt_int(C04_I_X_RESP_ID) : g_c04_req.requestId;
	g_c04_x_errchars[0] = 'e'; g_c04_x_errchars[1] = 0;
	g_c04_x_errmsg.ctx = &g_c04_ctx; g_c04_x_errmsg.ref = 1; g_c04_x_errmsg.value = g_c04_x_errchars; g_c04_x_errmsg.len = 2;
	g_c04_resp.errorMsg = nondet_bool() ? &g_c04_x_errmsg : NULL;
	g_c04_resp.calendarHashChain = nondet_bool() ? &g_c04_newCal : NULL;
	g_c04_x_new_live = 0;
	g_c04_newCal.ctx = &g_c04_ctx; g_c04_newCal.ref = 1;
	g_c04_newCal.publicationTime = NULL; g_c04_newCal.aggregationTime = NULL; g_c04_newCal.inputHash = NULL; g_c04_newCal.outputHash = NULL; g_c04_newCal.hashChain = NULL;
}

/* the round trip delivers a reply the rules may look at: every step succeeded, the reply does not report an error status
 * and answers THIS request */
static _Bool c04_x_reply_usable(void) {
	return g_c04_x_create_res == KSI_OK && g_c04_x_send_res == KSI_OK && g_c04_x_perform_res == KSI_OK && g_c04_x_getresp_res == KSI_OK
		&& (g_c04_resp.status == NULL || g_c04_resp.status->value == 0)
		&& g_c04_resp.requestId != NULL && g_c04_req.requestId != NULL
		&& (g_c04_resp.requestId == g_c04_req.requestId || g_c04_resp.requestId->value == g_c04_req.requestId->value);
}
/* the status the failed round trip ends with */
static int c04_x_failure_status(void) {
	if (g_c04_x_create_res != KSI_OK) return g_c04_x_create_res;
	if (g_c04_x_send_res != KSI_OK) return g_c04_x_send_res;
	if (g_c04_x_perform_res != KSI_OK) return g_c04_x_perform_res;
	if (g_c04_x_getresp_res != KSI_OK) return g_c04_x_getresp_res;
	if (g_c04_resp.status != NULL && g_c04_resp.status->value != 0) return g_c04_x_convert_res;
	return KSI_INVALID_ARGUMENT;                       /* request id mismatch (verification_rule.c reports it so) */
}
static _Bool c04_x_nothing_leaked(void) { return g_c04_x_req_live == 0 && g_c04_x_handle_live == 0 && g_c04_x_resp_live == 0; }

#define ENV_C04_EXTEND_ASSUMED \
	"KSI_createExtendRequest (signature.c): stub with the behaviour proved by C08.createExtendRequest - the request carries (start, end), start NULL is refused, may fail", \
	"KSI_sendExtenderRequest, KSI_RequestHandle_perform, KSI_RequestHandle_getExtendResponse (network, PDU parsing, HMAC check: C06/C20): arbitrary outcome, protocol order asserted; an unauthenticated reply is an error of getExtendResponse", \
	"KSI_convertExtenderStatusCode (net.c): a non-zero status maps to an error code != KSI_OK", \
	"KSI_ExtendReq_free, KSI_RequestHandle_free, KSI_ExtendResp_free (releases the chain it still owns), KSI_CalendarHashChain_free: ghost live counts"
#endif
