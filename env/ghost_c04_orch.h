/* C04 (builderP): environment for the *HashAlgorithmDeprecatedAtPubTime rules of verification_rule.c.
 * Extends the world of env/ghost_c04_world.h (include that first).
 *
 * The question "was the aggregation algorithm of some calendar-chain step deprecated at the publication time" is answered by the
 * static helper calendarChainAggrAlgorithmState.  In the RULE jobs that helper is replaced by its contract
 * (contracts/verification_rule_c04_orch.h); the answer for each of the two calendar chains of the world is then a fixed but
 * arbitrary fact (g_po_ccs_res / g_po_ccs_truth, index 0 = the signature's chain, 1 = the extender's chain) and the contract
 * RECORDS which chain was asked about with which inspector (g_po_ccs).  In the HELPER job (plain mode, bounded chain length) the
 * same facts are computed by the harness from a concrete link model (po_link) and the helper's real body is checked against them. */
#ifndef ENV_GHOST_C04_ORCH_H
#define ENV_GHOST_C04_ORCH_H
#include <stdbool.h>
#include <time.h>
#include "spec/vercodes.h"      /* spec_alg_rule_fails: deprecated or obsolete */

/* facts about the two chains (never written by the code under test, not part of any assigns clause) */
int g_po_ccs_res[2];                 /* status of reading the chain's left links and their algorithms (KSI_OK = readable) */
_Bool g_po_ccs_truth[2];             /* some left link's sibling algorithm was deprecated / obsolete at the chain's publication time */
/* record of the question asked (assigned by the replaced contract) */
struct po_ccs_ghost { unsigned calls; const KSI_CalendarHashChain *chain; _Bool dep_inspector; } g_po_ccs;

#define PO_CHAIN_IDX(c) ((const KSI_CalendarHashChain *)(c) == &g_c04_sigCal ? 0 : 1)

/* ------------------------------------------------------------------ concrete link model (helper job only) */
#ifndef PO_MAX_LINKS
#define PO_MAX_LINKS 4
#endif
struct KSI_HashChainLink_st po_link[2][PO_MAX_LINKS];
size_t po_len[2];
size_t po_fail_at[2]; int po_fail_status[2];      /* elementAt fails at this position (>= length: never) */
unsigned char po_halg[C04_NH];                    /* algorithm id of each hash identity (0..3) */
int po_alg_status[4];                             /* status of algorithm id a at the publication time: 0 fine, 1 deprecated, 2 obsolete, 3 unknown id */
const KSI_CalendarHashChain *po_asked_chain;      /* the chain the helper is inspecting (for the "judged at ITS publication time" assertion) */

static size_t po_list_length(KSI_LIST(KSI_HashChainLink) *l) { return po_len[l == &g_c04_sigLinks ? 0 : 1]; }
static int po_list_elementAt(KSI_LIST(KSI_HashChainLink) *l, size_t pos, KSI_HashChainLink **o) {
	int c = l == &g_c04_sigLinks ? 0 : 1;
	__CPROVER_assert(l == &g_c04_sigLinks || l == &g_c04_extLinks, "link fetched from one of the two chains of the world");
	if (pos >= po_len[c]) return KSI_BUFFER_OVERFLOW;
	if (pos == po_fail_at[c]) return po_fail_status[c];
	*o = &po_link[c][pos];
	return KSI_OK;
}

/* KSI_DataHash_getHashAlg (hash.c): ASSUMED - the ghost algorithm id of the hash identity */
int KSI_DataHash_getHashAlg(const KSI_DataHash *hash, KSI_HashAlgorithm *algo_id) {
	if (hash == NULL || algo_id == NULL) return KSI_INVALID_ARGUMENT;
	__CPROVER_assert(__CPROVER_same_object(hash, g_c04_h), "algorithm of a hash object of this world");
	*algo_id = (KSI_HashAlgorithm)po_halg[hash - g_c04_h];
	return KSI_OK;
}
/* KSI_checkHashAlgorithmAt (hash.c, enforced by C17.hashalg.*): ASSUMED here - arbitrary status per algorithm id; asserts that the
 * question is asked for the publication time of the inspected chain (saturated at the range of time_t, never negative) */
static unsigned long long po_u64(const KSI_Integer *i) { return i == NULL ? 0 : i->value; }
int KSI_checkHashAlgorithmAt(KSI_HashAlgorithm algo_id, time_t used_at) {
	unsigned long long t = po_asked_chain == NULL ? 0 : po_u64(po_asked_chain->publicationTime);
	__CPROVER_assert(used_at == (t > 0x7fffffffffffffffULL ? (time_t)0x7fffffffffffffffLL : (time_t)t), "the algorithm is judged at the publication time of the inspected calendar chain");
	__CPROVER_assert(algo_id >= 0 && algo_id < 4, "algorithm id of a link of this world");
	return po_alg_status[algo_id & 3] == 0 ? KSI_OK : po_alg_status[algo_id & 3] == 1 ? KSI_HASH_ALGORITHM_DEPRECATED : po_alg_status[algo_id & 3] == 2 ? KSI_HASH_ALGORITHM_OBSOLETE : KSI_UNKNOWN_HASH_ALGORITHM_ID;
}

#define ENV_C04_ORCH_ASSUMED \
	"KSI_checkHashAlgorithmAt (hash.c; real body under contract in C17.hashalg.*): arbitrary status (fine / deprecated / obsolete / unknown) per algorithm id, asserts it is asked about the inspected chain's publication time", \
	"KSI_DataHash_getHashAlg (hash.c): ghost algorithm id of the hash identity, KSI_INVALID_ARGUMENT for NULL"
#endif
