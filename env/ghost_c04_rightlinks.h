/* C04 / CAL-04 environment: the right links of the signature's calendar chain (list A = g_c04_sigLinks) and of the
 * extender's chain (list B = g_c04_extLinks) as model lists.  Each fetched link is a fresh arbitrary link (left/right
 * arbitrary, sibling hash = identity C04_H_LINK_A / C04_H_LINK_B whose equality class is re-chosen at every fetch, so every
 * compared pair gets an arbitrary verdict).  The stubs advance the reference machine of spec/rightlinks.h and assert the
 * call protocol: each list is read front to back, one element at a time, never beyond its length; hashes are compared
 * only between the k-th right link of A and the k-th right link of B.  elementAt may fail (recorded). */
#ifndef ENV_GHOST_C04_RIGHTLINKS_H
#define ENV_GHOST_C04_RIGHTLINKS_H
#include "spec/rightlinks.h"

size_t g_c04_rl_len_a, g_c04_rl_len_b;          /* lengths (arbitrary, fixed) */
_Bool g_c04_rl_want_right;                      /* which kind of link the scan is looking for (1 in CAL-04) */
struct c04_rl_ghost {
	size_t a_calls, b_calls;                    /* elements fetched so far = index of the next element */
	spec_rl_state rl;                           /* reference machine: "wanted" links seen / compared */
	_Bool a_err, b_err;                         /* a fetch failed */
	int err_status;
	_Bool a_last_wanted, b_last_wanted;         /* kind of the element fetched last */
} g_c04_rl;
struct KSI_HashChainLink_st g_c04_rl_alink, g_c04_rl_blink;

static size_t c04_rl_length(KSI_LIST(KSI_HashChainLink) *l) {
	__CPROVER_assert(l == &g_c04_sigLinks || l == &g_c04_extLinks, "length of one of the two chains");
	return l == &g_c04_sigLinks ? g_c04_rl_len_a : g_c04_rl_len_b;
}
static int c04_rl_elementAt(KSI_LIST(KSI_HashChainLink) *l, size_t pos, KSI_HashChainLink **o) {
	int fail = nondet_int();
	__CPROVER_assert(l == &g_c04_sigLinks || l == &g_c04_extLinks, "element of one of the two chains");
	if (l == &g_c04_sigLinks) {
		__CPROVER_assert(g_c04_rl.a_calls < g_c04_rl_len_a, "protocol: no fetch beyond chain A");
		__CPROVER_assert(pos == g_c04_rl.a_calls, "protocol: chain A is read front to back, each link once");
		if (fail != KSI_OK) { g_c04_rl.a_err = 1; g_c04_rl.err_status = fail; return fail; }
		g_c04_rl_alink.isLeft = nondet_bool();          /* .imprint stays C04_H_LINK_A (set when the world is built) */
		g_c04_hcls[C04_H_LINK_A] = nondet_uchar();
		g_c04_rl.a_last_wanted = (g_c04_rl_alink.isLeft != 0) != g_c04_rl_want_right;
		spec_rl_fetch_a(&g_c04_rl.rl, !g_c04_rl.a_last_wanted);
		g_c04_rl.a_calls++;
		*o = &g_c04_rl_alink;
	} else {
		__CPROVER_assert(g_c04_rl.b_calls < g_c04_rl_len_b, "protocol: no fetch beyond chain B");
		__CPROVER_assert(pos == g_c04_rl.b_calls, "protocol: chain B is read front to back, each link once");
		if (fail != KSI_OK) { g_c04_rl.b_err = 1; g_c04_rl.err_status = fail; return fail; }
		g_c04_rl_blink.isLeft = nondet_bool();
		g_c04_hcls[C04_H_LINK_B] = nondet_uchar();
		g_c04_rl.b_last_wanted = (g_c04_rl_blink.isLeft != 0) != g_c04_rl_want_right;
		spec_rl_fetch_b(&g_c04_rl.rl, !g_c04_rl.b_last_wanted);
		g_c04_rl.b_calls++;
		*o = &g_c04_rl_blink;
	}
	return KSI_OK;
}
/* hook of KSI_DataHash_equals (env/ghost_c04_world.h) */
static void c04_rl_on_compare(const KSI_DataHash *left, const KSI_DataHash *right, int verdict) {
	__CPROVER_assert(left == C04_H(C04_H_LINK_A) && right == C04_H(C04_H_LINK_B), "CAL-04: a link of the signature's chain is compared with a link of the extender's chain");
	__CPROVER_assert(g_c04_rl.a_last_wanted && g_c04_rl.b_last_wanted, "CAL-04: both compared links are right links");
	__CPROVER_assert(spec_rl_may_compare(&g_c04_rl.rl), "CAL-04: the k-th right link of A is compared with the k-th right link of B");
	spec_rl_compared(&g_c04_rl.rl, verdict);
}
static void c04_rl_world_build(void) {
	g_c04_rl_len_a = nondet_size(); g_c04_rl_len_b = nondet_size();
	g_c04_rl.a_calls = 0; g_c04_rl.b_calls = 0; g_c04_rl.a_err = 0; g_c04_rl.b_err = 0; g_c04_rl.err_status = KSI_OK;
	g_c04_rl.a_last_wanted = 0; g_c04_rl.b_last_wanted = 0;
	spec_rl_init(&g_c04_rl.rl);
	g_c04_sigLinks.length = c04_rl_length; g_c04_sigLinks.elementAt = c04_rl_elementAt;
	g_c04_extLinks.length = c04_rl_length; g_c04_extLinks.elementAt = c04_rl_elementAt;
	g_c04_rl_alink.ctx = &g_c04_ctx; g_c04_rl_alink.levelCorrection = NULL; g_c04_rl_alink.legacyId = NULL; g_c04_rl_alink.metaData = NULL;
	g_c04_rl_blink.ctx = &g_c04_ctx; g_c04_rl_blink.levelCorrection = NULL; g_c04_rl_blink.legacyId = NULL; g_c04_rl_blink.metaData = NULL;
	g_c04_rl_alink.imprint = C04_H(C04_H_LINK_A); g_c04_rl_blink.imprint = C04_H(C04_H_LINK_B);
	g_c04_rl_alink.isLeft = nondet_bool(); g_c04_rl_blink.isLeft = nondet_bool();
}
#define ENV_C04_RL_ASSUMED \
	"calendar chain link lists: model lists (env/ghost_c04_rightlinks.h) - arbitrary length, every fetched link arbitrary (left/right, sibling hash), elementAt may fail; hash equality of a compared pair is arbitrary"
#endif
