/* C06 (builderR, "derive"): extra ghost state and assumed stubs for the request enclose jobs
 *   obligations/C06/derive_enclose.c, contracts/types_enclose_derive.h.
 *
 * Part 1 (always): ghost shared by the PDU jobs (KSI_*Req_encloseWithHeader enforced) and the login jobs
 *                  (KSI_*Req_enclose enforced, KSI_*Req_encloseWithHeader replaced by the lean contract).
 * Part 2 (C06D_LOGIN_ENV): environment of the login jobs - the TU includes neither types_base.c nor base.c:
 *   KSI_malloc / KSI_free      pass-through funnels of base.c that additionally RECORD what is allocated / released
 *   strlen                     returns the arbitrary length g_dl_strlen chosen by the harness and records its argument
 *                              (assumed libc; lets the job cover lengths up to and beyond UINT_MAX)
 *   KSI_Utf8String_new         records (ctx, str, len, out); refuses missing arguments (INVALID_ARGUMENT) and len == 0
 *                              (INVALID_FORMAT) like types_base.c:365/381, otherwise arbitrary status; on OK *out = one
 *                              static string object
 *   KSI_Utf8String_free / KSI_Integer_free / KSI_OctetString_free / KSI_DataHash_free      recording stubs
 *   c06d_header_cb             the request-header call-back of the context: records the header it is given, what
 *                              that header holds and whether KSI_*Req_encloseWithHeader has run already, may put an
 *                              instance id into the header, returns an arbitrary status
 */
#ifndef ENV_C06_ENCLOSE_DERIVE_H
#define ENV_C06_ENCLOSE_DERIVE_H

/* record of a call of KSI_*Req_encloseWithHeader (written through the lean contract C06D_EWH_LEAN) */
struct c06d_ewh_ghost { int calls; const void *req; const KSI_Header *hdr; const char *key; const void *pdu; int res; } g_dv_ewh;
/* what a released PDU still held as configuration request (written through C06D_FREE_CONTRACTS) */
const void *g_dv_pdu_free_conf;

#ifdef C06D_LOGIN_ENV
#include <stdlib.h>
#include <stdarg.h>
struct c06d_login_ghost {
	int alloc_calls; void *alloc_last; size_t alloc_size;       /* KSI_malloc */
	int free_calls; const void *free_last;                      /* KSI_free (non-NULL) */
	int sl_calls; const char *sl_arg;                           /* strlen */
	int u8_calls; KSI_CTX *u8_ctx; const char *u8_str; size_t u8_len; KSI_Utf8String **u8_out; int u8_res;
	KSI_Utf8String *u8_made;                                    /* the string object handed out (NULL if none) */
	int u8_free_calls; const void *u8_freed;                    /* KSI_Utf8String_free (non-NULL) */
	int int_free_calls; const void *int_freed;                  /* KSI_Integer_free (non-NULL) */
	int oct_free_calls;                                         /* KSI_OctetString_free (non-NULL) */
	int hash_free_calls;                                        /* KSI_DataHash_free (non-NULL): nothing here owns a hash */
	int cb_calls; KSI_Header *cb_hdr; int cb_res;               /* request-header call-back */
	const void *cb_login_seen; int cb_ewh_seen; KSI_Integer *cb_inst;
} g_dl;
size_t g_dl_strlen;                     /* input chosen by the harness: the length strlen reports */

void KSI_ERR_clearErrors(KSI_CTX *ctx) { }
void KSI_ERR_push(KSI_CTX *ctx, int statusCode, long extErrorCode, const char *fileName, unsigned int lineNr, const char *message) { }
int KSI_LOG_debug(KSI_CTX *ctx, char *format, ...) { return KSI_OK; }
int KSI_LOG_info(KSI_CTX *ctx, char *format, ...) { return KSI_OK; }
int KSI_LOG_notice(KSI_CTX *ctx, char *format, ...) { return KSI_OK; }
int KSI_LOG_warn(KSI_CTX *ctx, char *format, ...) { return KSI_OK; }
int KSI_LOG_error(KSI_CTX *ctx, char *format, ...) { return KSI_OK; }

void *KSI_malloc(size_t size) {
	void *p = malloc(size);
	g_dl.alloc_calls++; g_dl.alloc_last = p; g_dl.alloc_size = size;
	return p;
}
void *KSI_calloc(size_t num, size_t size) { return calloc(num, size); }
void KSI_free(void *ptr) {
	if (ptr != NULL) { g_dl.free_calls++; g_dl.free_last = ptr; free(ptr); }
}

size_t strlen(const char *s) {
	g_dl.sl_calls++; g_dl.sl_arg = s;
	return g_dl_strlen;
}

struct KSI_Utf8String_st { int c06d_dummy; };
struct KSI_Integer_st { int c06d_dummy; };
static struct KSI_Utf8String_st c06d_login_obj;
static struct KSI_Integer_st c06d_inst_obj;

int KSI_Utf8String_new(KSI_CTX *ctx, const char *str, size_t len, KSI_Utf8String **o) {
	g_dl.u8_calls++;
	g_dl.u8_ctx = ctx; g_dl.u8_str = str; g_dl.u8_len = len; g_dl.u8_out = o;
	if (ctx == NULL || str == NULL || o == NULL) { g_dl.u8_res = KSI_INVALID_ARGUMENT; return g_dl.u8_res; }
	if (len == 0) { g_dl.u8_res = KSI_INVALID_FORMAT; return g_dl.u8_res; }
	g_dl.u8_res = nondet_int();
	if (g_dl.u8_res == KSI_OK) { g_dl.u8_made = &c06d_login_obj; *o = &c06d_login_obj; }
	return g_dl.u8_res;
}
void KSI_Utf8String_free(KSI_Utf8String *t) { if (t != NULL) { g_dl.u8_free_calls++; g_dl.u8_freed = t; } }
void KSI_Integer_free(KSI_Integer *t) { if (t != NULL) { g_dl.int_free_calls++; g_dl.int_freed = t; } }
void KSI_OctetString_free(KSI_OctetString *t) { if (t != NULL) { g_dl.oct_free_calls++; } }
void KSI_DataHash_free(KSI_DataHash *t) { if (t != NULL) { g_dl.hash_free_calls++; } }

static int c06d_header_cb(KSI_Header *hdr) {
	g_dl.cb_calls++;
	g_dl.cb_hdr = hdr;
	g_dl.cb_ewh_seen = g_dv_ewh.calls;
	if (hdr != NULL) {
		KSI_Utf8String *l = NULL;
		KSI_Header_getLoginId(hdr, &l);              /* (the real getter / setter of types.c, as a real call-back uses them) */
		g_dl.cb_login_seen = l;
		if (nondet_bool()) { g_dl.cb_inst = &c06d_inst_obj; KSI_Header_setInstanceId(hdr, &c06d_inst_obj); }   /* what a real call-back does: fill in ids */
	}
	g_dl.cb_res = nondet_int();
	return g_dl.cb_res;
}
#define C06D_LOGIN_ASSUMED \
	"KSI_malloc/KSI_free: pass-through funnels of base.c that also record the block allocated / released (env/c06_enclose_derive.h)", \
	"strlen: reports the arbitrary length chosen by the harness (assumed libc), records its argument", \
	"KSI_Utf8String_new: records (ctx, str, len, out); INVALID_ARGUMENT on a missing argument, INVALID_FORMAT on len == 0 (types_base.c:365/381), else arbitrary status; on OK hands out one static string object", \
	"KSI_Utf8String_free / KSI_Integer_free / KSI_OctetString_free / KSI_DataHash_free: recording stubs", \
	"request-header call-back: records the header given and its login id, may set the instance id, arbitrary status", \
	"KSI_ERR_* / KSI_LOG_*: no effect on observed state"
#endif
#endif
