/* Model of a (non-nested) TLV as the value parsers of types_base.c / hash.c see it: KSI_TLV is opaque to them, they
 * only call KSI_TLV_getCtx and KSI_TLV_getRawValue.  ASSUMED (tlv.c is C09's business): getRawValue either fails
 * (nested TLV that cannot be re-encoded) leaving the outputs untouched, or returns the payload pointer and its exact
 * length; it does not modify the payload.  The struct below is the harness's model of the opaque type. */
#ifndef ENV_C10_TLV_VALUE_H
#define ENV_C10_TLV_VALUE_H
#include "tlv.h"
struct KSI_TLV_st {
	KSI_CTX *ctx;
	unsigned tag;
	int isNonCritical;
	int isForwardable;
	unsigned char *datap;      /* payload */
	size_t datap_len;          /* payload length */
	int raw_res;               /* result of KSI_TLV_getRawValue: KSI_OK or an error chosen by the harness */
};

size_t g_tlv_getraw_calls;

KSI_CTX *KSI_TLV_getCtx(const KSI_TLV *tlv) { return tlv != NULL ? tlv->ctx : NULL; }

int KSI_TLV_getRawValue(KSI_TLV *tlv, const unsigned char **buf, size_t *len) {
	if (tlv == NULL || buf == NULL || len == NULL) return KSI_INVALID_ARGUMENT;
	g_tlv_getraw_calls++;
	if (tlv->raw_res != KSI_OK) return tlv->raw_res;
	*buf = tlv->datap;
	*len = tlv->datap_len;
	return KSI_OK;
}
unsigned KSI_TLV_getTag(const KSI_TLV *tlv) { return tlv->tag; }
int KSI_TLV_isNonCritical(const KSI_TLV *tlv) { return tlv->isNonCritical; }
int KSI_TLV_isForward(const KSI_TLV *tlv) { return tlv->isForwardable; }

#define ENV_C10_TLV_ASSUMED "KSI_TLV_getCtx/KSI_TLV_getRawValue: model of the opaque TLV (env/c10_tlv_value.h): returns payload pointer + exact length or an error without touching the outputs"
#endif
