/* C19 (builderW_sig): environment of signature.c / signature_builder.c (open, free) / verification.c under ALLOCATION
 * FAILURE.  Every object a callee hands out is a COUNTED funnel block (KSI_malloc of env/c19_alloc_env.h, which CBMC lets
 * fail in every combination): a "leaf" of a kind; per kind the number of leaves made and released is recorded, KSI_free's
 * libc free() carries CBMC's double-free / invalid-free checks.                                               [ASSUMED]
 *   - KSI_TLV_parseBlob / KSI_TLV_clone: a fresh leaf, or KSI_OUT_OF_MEMORY (only with a failed allocation), or (parse)
 *     KSI_INVALID_FORMAT; KSI_TLV_free releases a leaf (kind found by identity); KSI_TLV_getTag: the harness' tag.
 *   - KSI_TlvTemplate_extract: fills any subset of the six members of the signature, in order; each step may fail to
 *     allocate (KSI_OUT_OF_MEMORY, the members set so far STAY in the object - as the real engine leaves them) or be
 *     rejected (KSI_INVALID_FORMAT).  Authentication records / RFC3161 records are real structs released by the REAL
 *     destructors of signature.c; their fields are leaves.
 *   - KSI_SignatureBuilder_close: checks the protocol (tree set, noVerify, level 0), may allocate and release a
 *     temporary, fails with KSI_OUT_OF_MEMORY (after a failed allocation) / KSI_INVALID_FORMAT leaving the builder as it
 *     is, or moves the signature to the caller (signature_builder.c:1140).
 *   - KSI_Signature_verifyWithPolicy: may replace sig->policyVerificationResult / the document hash of the verification
 *     result by fresh leaves (releasing the old ones), returns KSI_OK, KSI_VERIFICATION_FAILURE, or KSI_OUT_OF_MEMORY
 *     (only after a failed allocation).
 *   - leaf destructors KSI_Integer_free, KSI_OctetString_free, KSI_DataHash_free, KSI_IntegerList_free, KSI_List_free,
 *     KSI_PKISignedData_free, KSI_PublicationData_free, KSI_PublicationRecord_free, KSI_CalendarHashChain_free,
 *     KSI_PolicyVerificationResult_free, KSI_PublicationsFile_free: release the leaf, count it. */
#ifndef ENV_C19_OOM3_SIG_ENV_H
#define ENV_C19_OOM3_SIG_ENV_H

enum { L_TLV_PARSED, L_TLV_CLONED, L_CAL, L_LIST, L_PUBREC, L_POLRES, L_INT, L_INTLIST, L_HASH, L_OCT, L_PKISD, L_PUBDATA, L_PUBFILE, L_SERBUF, L_TMP, L_N };
static unsigned g_made[L_N], g_freed[L_N];
static void *leaf_new(int k) { void *p = KSI_malloc(1); if (p != NULL) g_made[k]++; return p; }
static void leaf_free(int k, void *p) { if (p != NULL) { g_freed[k]++; KSI_free(p); } }
static _Bool leaves_balanced(void) {
	return g_made[L_TLV_PARSED] == g_freed[L_TLV_PARSED] && g_made[L_TLV_CLONED] == g_freed[L_TLV_CLONED] && g_made[L_CAL] == g_freed[L_CAL] && g_made[L_LIST] == g_freed[L_LIST] &&
		g_made[L_PUBREC] == g_freed[L_PUBREC] && g_made[L_POLRES] == g_freed[L_POLRES] && g_made[L_INT] == g_freed[L_INT] && g_made[L_INTLIST] == g_freed[L_INTLIST] &&
		g_made[L_HASH] == g_freed[L_HASH] && g_made[L_OCT] == g_freed[L_OCT] && g_made[L_PKISD] == g_freed[L_PKISD] && g_made[L_PUBDATA] == g_freed[L_PUBDATA] &&
		g_made[L_PUBFILE] == g_freed[L_PUBFILE] && g_made[L_SERBUF] == g_freed[L_SERBUF] && g_made[L_TMP] == g_freed[L_TMP];
}

static struct KSI_CTX_st g_ctx_obj;
#define CTX (&g_ctx_obj)
static char g_src_tlv_obj[4];                          /* retained tree of a SOURCE signature: not a block, must never be released */
static unsigned g_src_tlv_frees;
static KSI_TLV *g_parsed_tlv, *g_cloned_tlv, *g_extract_from;
static unsigned g_tag;
static _Bool g_env_rejected;                           /* a stub failed for a reason other than memory */

/* ---- leaf destructors ---- */
void KSI_Integer_free(KSI_Integer *o) { leaf_free(L_INT, o); }
void KSI_OctetString_free(KSI_OctetString *o) { leaf_free(L_OCT, o); }
void KSI_DataHash_free(KSI_DataHash *o) { leaf_free(L_HASH, o); }
void KSI_IntegerList_free(KSI_LIST(KSI_Integer) *o) { leaf_free(L_INTLIST, o); }
int KSI_IntegerList_new(KSI_LIST(KSI_Integer) **o) { void *p = leaf_new(L_INTLIST); if (p == NULL) return KSI_OUT_OF_MEMORY; *o = p; return KSI_OK; }
void KSI_List_free(KSI_List *o) { leaf_free(L_LIST, o); }
void KSI_PKISignedData_free(KSI_PKISignedData *o) { leaf_free(L_PKISD, o); }
void KSI_PublicationData_free(KSI_PublicationData *o) { leaf_free(L_PUBDATA, o); }
void KSI_PublicationRecord_free(KSI_PublicationRecord *o) { leaf_free(L_PUBREC, o); }
void KSI_CalendarHashChain_free(KSI_CalendarHashChain *o) { leaf_free(L_CAL, o); }
void KSI_PolicyVerificationResult_free(KSI_PolicyVerificationResult *o) { leaf_free(L_POLRES, o); }
void KSI_PublicationsFile_free(KSI_PublicationsFile *o) { leaf_free(L_PUBFILE, o); }

/* ---- TLV trees ---- */
unsigned KSI_TLV_getTag(const KSI_TLV *tlv) { __CPROVER_assert(tlv == g_extract_from, "tag of the element the signature is extracted from"); return g_tag; }
static unsigned g_parse_calls; static _Bool g_parse_args_ok; static const unsigned char *g_raw; static size_t g_raw_len;
int KSI_TLV_parseBlob(KSI_CTX *ctx, const unsigned char *data, size_t data_length, KSI_TLV **tlv) {
	void *t;
	g_parse_calls++; g_parse_args_ok = (ctx == CTX && data == g_raw && data_length == g_raw_len);
	if (nondet_bool()) { g_env_rejected = 1; return KSI_INVALID_FORMAT; }
	t = leaf_new(L_TLV_PARSED);
	if (t == NULL) return KSI_OUT_OF_MEMORY;
	g_parsed_tlv = t; g_extract_from = t; *tlv = t; return KSI_OK;
}
static unsigned g_clone_calls;
int KSI_TLV_clone(const KSI_TLV *tlv, KSI_TLV **clone) {
	void *t;
	g_clone_calls++;
	__CPROVER_assert(tlv == g_extract_from, "the retained tree is a clone of exactly the element the signature was extracted from");
	t = leaf_new(L_TLV_CLONED);
	if (t == NULL) return KSI_OUT_OF_MEMORY;
	g_cloned_tlv = t; *clone = t; return KSI_OK;
}
void KSI_TLV_free(KSI_TLV *tlv) {
	if (tlv == NULL) return;
	if ((char *)tlv == g_src_tlv_obj) { g_src_tlv_frees++; return; }
	if (tlv == g_parsed_tlv) { leaf_free(L_TLV_PARSED, tlv); return; }
	__CPROVER_assert(tlv == g_cloned_tlv, "only trees made by the parser / KSI_TLV_clone are released");
	leaf_free(L_TLV_CLONED, tlv);
}

/* ---- template engine: fills the members of the fresh signature ---- */
/* SIG_SMALL_RECORDS (orchestration jobs): only the first and the last field of a record is a leaf, the others are absent -
 * the record destructors with every field present are the business of the sig_free / sig_rec_* jobs */
#ifdef SIG_SMALL_RECORDS
#define LEAF_OPT(k) NULL
#else
#define LEAF_OPT(k) leaf_new(k)
#endif
static KSI_CalendarAuthRec *mk_calauth(void) {
	KSI_CalendarAuthRec *r = KSI_malloc(sizeof(*r)); if (r == NULL) return NULL;
	r->ctx = CTX; r->ref = 1; r->pubData = leaf_new(L_PUBDATA); r->signatureData = leaf_new(L_PKISD); return r;
}
static KSI_AggregationAuthRec *mk_aggrauth(void) {
	KSI_AggregationAuthRec *r = KSI_malloc(sizeof(*r)); if (r == NULL) return NULL;
	r->ctx = CTX; r->ref = 1; r->aggregationTime = leaf_new(L_INT); r->chainIndexesList = LEAF_OPT(L_INTLIST); r->inputHash = LEAF_OPT(L_HASH); r->signatureData = leaf_new(L_PKISD); return r;
}
static KSI_RFC3161 *mk_rfc(void) {
	KSI_RFC3161 *r = KSI_malloc(sizeof(*r)); if (r == NULL) return NULL;
	r->ctx = CTX; r->ref = 1; r->aggregationTime = leaf_new(L_INT); r->chainIndex = LEAF_OPT(L_INTLIST); r->inputHash = LEAF_OPT(L_HASH);
	r->tstInfoPrefix = LEAF_OPT(L_OCT); r->tstInfoSuffix = LEAF_OPT(L_OCT); r->tstInfoAlgo = LEAF_OPT(L_INT);
	r->sigAttrPrefix = LEAF_OPT(L_OCT); r->sigAttrSuffix = LEAF_OPT(L_OCT); r->sigAttrAlgo = leaf_new(L_INT); return r;
}
static unsigned g_extract_calls; static _Bool g_extract_args_ok; static KSI_Signature *g_extract_payload; static unsigned g_members_set;
/* SIG_FEW_MEMBERS (quick twins of the orchestration jobs): only calendar chain, calendar authentication record and
 * publication record are offered (one leaf member, one record member, one more leaf) */
#ifdef SIG_FEW_MEMBERS
#define SIG_ALL_MEMBERS 3
#else
#define SIG_ALL_MEMBERS 6
#endif
static int fill_members(KSI_Signature *s) {
	if (nondet_bool()) { if ((s->calendarChain = leaf_new(L_CAL)) == NULL) return KSI_OUT_OF_MEMORY; g_members_set++; }
#ifndef SIG_FEW_MEMBERS
	if (nondet_bool()) { if ((s->aggregationChainList = leaf_new(L_LIST)) == NULL) return KSI_OUT_OF_MEMORY; g_members_set++; }
#endif
	if (nondet_bool()) { g_env_rejected = 1; return KSI_INVALID_FORMAT; }
#ifndef SIG_FEW_MEMBERS
	if (nondet_bool()) { if ((s->rfc3161 = mk_rfc()) == NULL) return KSI_OUT_OF_MEMORY; g_members_set++; }
#endif
	if (nondet_bool()) { if ((s->calendarAuthRec = mk_calauth()) == NULL) return KSI_OUT_OF_MEMORY; g_members_set++; }
#ifndef SIG_FEW_MEMBERS
	if (nondet_bool()) { if ((s->aggregationAuthRec = mk_aggrauth()) == NULL) return KSI_OUT_OF_MEMORY; g_members_set++; }
#endif
	if (nondet_bool()) { if ((s->publication = leaf_new(L_PUBREC)) == NULL) return KSI_OUT_OF_MEMORY; g_members_set++; }
	if (nondet_bool()) { g_env_rejected = 1; return KSI_INVALID_FORMAT; }
	return KSI_OK;
}

/* ---- builder close / verification ---- */
static unsigned g_close_calls, g_verify_calls; static _Bool g_close_args_ok, g_verify_args_ok; static int g_verify_res;
static const KSI_Policy *g_policy; static KSI_VerificationContext *g_vctx; static KSI_Signature *g_closed_sig;
#endif
