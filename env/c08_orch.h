/* C08 (builderP): environment for KSI_Signature_extendWithPolicy (signature.c) on top of env/c07_sign.h (the recorded conversation of
 * the inner extension).  Adds the publication-record services the function uses and a verifier stub that also records WHEN it ran
 * (after the publication record had been put into the result, or before).  Every stub: arbitrary status, arguments recorded.
 *   KSI_PublicationRecord_clone / _free              publicationsfile.c (template clone, C11.m_* / C19)          ASSUMED
 *   KSI_PublicationRecord_getPublishedData, KSI_PublicationData_getTime   textually the KSI_IMPLEMENT_GETTER bodies ASSUMED
 *   KSI_Signature_replacePublicationRecord           signature.c: replaced by the recording contract of
 *                                                    contracts/signature_extend_orch.h (real body: C08.sb_replacePubRec)
 *   KSI_Signature_verifyWithPolicy                   arbitrary recorded verdict (real body: C02.sighelper_verifyWithPolicy) */
#ifndef ENV_C08_ORCH_H
#define ENV_C08_ORCH_H
#include "impl/publicationsfile_impl.h"
#define KSI_Signature_verifyWithPolicy c07_unused_KSI_Signature_verifyWithPolicy      /* the stub of env/c07_sign.h is replaced by the order-recording one below */
#include "env/c07_sign.h"
#undef KSI_Signature_verifyWithPolicy

struct KSI_PublicationRecord_st xo_pubrec, xo_clone; struct KSI_PublicationData_st xo_pubdata; struct KSI_Integer_st xo_pubtime;

struct c08_orch_ghost {
	int clone_calls, clone_res; const void *clone_from;
	int clone_free, rec_foreign_free;                 /* releases of the clone / of any other record (the caller's!) */
	int getpd_calls; const void *getpd_rec; int gettime_calls; const void *gettime_pd;
	int verify_saw_replace;                           /* number of replacePublicationRecord calls completed when the verifier ran */
	int verify_saw_replace_res;
} g_xo;
/* record of KSI_Signature_replacePublicationRecord (assigned by its replaced contract; kept apart from g_xo, which the stubs write) */
struct c08_replace_ghost { int calls, res; const void *sig, *rec; } g_xr;

int KSI_PublicationRecord_clone(const KSI_PublicationRecord *rec, KSI_PublicationRecord **clone) {
	g_xo.clone_calls++; g_xo.clone_from = rec; g_xo.clone_res = c07_status();
	if (rec == NULL || clone == NULL) return g_xo.clone_res = KSI_INVALID_ARGUMENT;
	if (g_xo.clone_res != KSI_OK) return g_xo.clone_res;
	*clone = &xo_clone; return KSI_OK;
}
void KSI_PublicationRecord_free(KSI_PublicationRecord *t) { if (t != NULL) { if (t == &xo_clone) g_xo.clone_free++; else g_xo.rec_foreign_free++; } }
int KSI_PublicationRecord_getPublishedData(const KSI_PublicationRecord *t, KSI_PublicationData **publishedData) {
	g_xo.getpd_calls++; g_xo.getpd_rec = t;
	if (t == NULL || publishedData == NULL) return KSI_INVALID_ARGUMENT;
	*publishedData = t->publishedData; return KSI_OK;
}
int KSI_PublicationData_getTime(const KSI_PublicationData *t, KSI_Integer **time) {
	g_xo.gettime_calls++; g_xo.gettime_pd = t;
	if (t == NULL || time == NULL) return KSI_INVALID_ARGUMENT;
	*time = t->time; return KSI_OK;
}
int KSI_Signature_verifyWithPolicy(KSI_Signature *sig, const KSI_DataHash *docHsh, KSI_uint64_t rootLevel, const KSI_Policy *policy, KSI_VerificationContext *context) {
	g_sg.verify_calls++; g_sg.verify_sig = sig; g_sg.verify_hash = docHsh; g_sg.verify_level = rootLevel; g_sg.verify_policy = policy; g_sg.verify_ctx = context;
	g_xo.verify_saw_replace = g_xr.calls; g_xo.verify_saw_replace_res = g_xr.res;
	if (sig == g_sg_source) g_sg.source_touched = 1;
	return g_sg.verify_res = c07_status();
}
#define C08_ORCH_ASSUMED \
	"KSI_PublicationRecord_clone: arbitrary status, fresh record on OK; KSI_PublicationRecord_free: counted per object (publicationsfile.c)", \
	"KSI_PublicationRecord_getPublishedData / KSI_PublicationData_getTime: textual copies of the generated getters (publicationsfile.c)", \
	"KSI_Signature_replacePublicationRecord (signature.c): replaced by an assumed recording contract (arbitrary status; real body: C08.sb_replacePubRec)", \
	"KSI_Signature_verifyWithPolicy: arbitrary recorded verdict, also records whether the publication record had been replaced before (real body: C02.sighelper_verifyWithPolicy)"
#endif
