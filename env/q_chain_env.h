/* Assumed environment of tree_builder.c's path extraction for the UNBOUNDED jobs C16.q_links / C16.q_getchain
 * (builderQ).  Same assumed behaviour as env/chain_env.h (every creation and every setter may fail, ownership
 * passes to the container on success only), but the link list is an ABSTRACT model list for any number of links
 * and all accounting is done with ghost counters instead of writes to objects the contract cannot name:
 *
 *   g_qc_live   references to objects made by these stubs (links, integers, meta-data elements, list, chain)
 *               that have not been released: +1 per creation / _ref, -1 per _free      (C19 live accounting)
 *   g_qc_href   references to hash objects taken (KSI_DataHash_ref) and not yet released (KSI_DataHash_free)
 *   g_q_owned / g_q_owned_href   the part of the two counters that belongs to links the list has accepted
 *
 *   ghost WALK (reference machine of the property text "one link per ancestor, in order"):
 *   g_q_walk is the node whose link is expected next; the list's append call-back checks the appended link
 *   against the step g_q_walk -> g_q_walk->parent (direction == side of the child, sibling hash / meta-data,
 *   level correction == parent.level - child.level - 1), then moves the cursor to the parent.
 *   The link appended at the WITNESS index (g_q_togo appends from now, chosen before the call) is recorded in
 *   g_qw together with the facts of the tree step it has to describe; contracts state the property on that record. */
#ifndef ENV_Q_CHAIN_ENV_H
#define ENV_Q_CHAIN_ENV_H
#include <stdlib.h>
#include "env/common.h"
#include "hash.h"
#include "impl/hash_impl.h"
#include "tree_builder.h"
#include "impl/meta_data_impl.h"
#include "hashchain.h"
#include "impl/hashchain_impl.h"
#include "impl/meta_data_element_impl.h"
#include "spec/tree.h"

struct KSI_Integer_st { size_t ref; KSI_uint64_t value; };

unsigned long g_qc_live, g_qc_href;
unsigned long g_q_owned, g_q_owned_href;
size_t g_q_n;                                  /* links accepted by the list so far */
KSI_LIST(KSI_HashChainLink) *g_q_list;        /* the list of the chain under construction */
const KSI_TreeNode *g_q_walk;                  /* ghost cursor: the node whose link is expected next */
_Bool g_q_walk_root;                           /* the cursor has no parent (all ancestors have their link) */
size_t g_q_togo;                               /* witness: number of appends still to go before the witness link (chosen before the call;
                                                  counted DOWN so that no counter comparison can wrap) */
_Bool g_qw_set;                                /* the witness link has been recorded */
struct q_witness {
	/* the link accepted at the witness index */
	_Bool isLeft; KSI_DataHash *imprint; _Bool hasMd; _Bool hasLegacy; KSI_uint64_t lc;
	/* the tree step it must describe */
	const KSI_TreeNode *child; const KSI_TreeNode *parent; _Bool childIsLeft; _Bool childIsRight;
	KSI_DataHash *sibHash; _Bool sibHasMd; _Bool levelsAscend; long long gap;
} g_qw;

KSI_AggregationHashChain *g_q_chain_out;          /* out-parameter object of the getAggregationChain harness */

_Bool g_qc_alloc_failed;                          /* some allocation inside a stub returned NULL (C19 visibility) */

static int q_env_fail(void) { return nondet_bool(); }

/* ---- hash objects: reference accounting only (no write to the object) ---- */
KSI_DataHash *KSI_DataHash_ref(KSI_DataHash *h) { if (h != NULL) g_qc_href++; return h; }
void KSI_DataHash_free(KSI_DataHash *h) { if (h != NULL) g_qc_href--; }
KSI_MetaData *KSI_MetaData_ref(KSI_MetaData *m) { if (m != NULL) m->ref++; return m; }
void KSI_MetaData_free(KSI_MetaData *m) { if (m != NULL) m->ref--; }

/* ---- integers ---- */
int KSI_Integer_new(KSI_CTX *ctx, KSI_uint64_t value, KSI_Integer **o) {
	KSI_Integer *t;
	if (ctx == NULL || o == NULL) return KSI_INVALID_ARGUMENT;
	t = malloc(sizeof(*t));
	if (t == NULL) { g_qc_alloc_failed = 1; return KSI_OUT_OF_MEMORY; }
	t->ref = 1; t->value = value; g_qc_live++;
	*o = t; return KSI_OK;
}
void KSI_Integer_free(KSI_Integer *o) { if (o != NULL) { g_qc_live--; if (--o->ref == 0) free(o); } }

/* ---- meta-data elements ---- */
KSI_MetaDataElement *KSI_MetaDataElement_ref(KSI_MetaDataElement *o) { if (o != NULL) { o->ref++; g_qc_live++; } return o; }
void KSI_MetaDataElement_free(KSI_MetaDataElement *o) { if (o != NULL) { g_qc_live--; if (--o->ref == 0) free(o); } }
static int q_md_toMetaDataElement(const KSI_MetaData *in, KSI_MetaDataElement **out) {
	KSI_MetaDataElement *t;
	if (q_env_fail()) return KSI_INVALID_FORMAT;
	t = malloc(sizeof(*t));
	if (t == NULL) { g_qc_alloc_failed = 1; return KSI_OUT_OF_MEMORY; }
	t->ref = 1; t->ctx = NULL; g_qc_live++;
	*out = t; return KSI_OK;
}

/* ---- links ---- */
int KSI_HashChainLink_new(KSI_CTX *ctx, KSI_HashChainLink **t) {
	KSI_HashChainLink *l;
	if (ctx == NULL || t == NULL) return KSI_INVALID_ARGUMENT;
	l = malloc(sizeof(*l));
	if (l == NULL) { g_qc_alloc_failed = 1; return KSI_OUT_OF_MEMORY; }
	l->ctx = ctx; l->isLeft = 0; l->levelCorrection = NULL; l->legacyId = NULL; l->metaData = NULL; l->imprint = NULL;
	g_qc_live++;
	*t = l; return KSI_OK;
}
void KSI_HashChainLink_free(KSI_HashChainLink *l) {
	if (l != NULL) {
		KSI_Integer_free(l->levelCorrection); KSI_MetaDataElement_free(l->metaData); KSI_DataHash_free(l->imprint);
		g_qc_live--; free(l);
	}
}
int KSI_HashChainLink_setIsLeft(KSI_HashChainLink *l, int v) { if (l == NULL || q_env_fail()) return KSI_INVALID_ARGUMENT; l->isLeft = v; return KSI_OK; }
int KSI_HashChainLink_setImprint(KSI_HashChainLink *l, KSI_DataHash *v) { if (l == NULL || q_env_fail()) return KSI_INVALID_ARGUMENT; l->imprint = v; return KSI_OK; }
int KSI_HashChainLink_setMetaData(KSI_HashChainLink *l, KSI_MetaDataElement *v) { if (l == NULL || q_env_fail()) return KSI_INVALID_ARGUMENT; l->metaData = v; return KSI_OK; }
int KSI_HashChainLink_setLevelCorrection(KSI_HashChainLink *l, KSI_Integer *v) { if (l == NULL || q_env_fail()) return KSI_INVALID_ARGUMENT; l->levelCorrection = v; return KSI_OK; }

/* ---- the link list: abstract model list + ghost walk ---- */
static int q_ll_append(KSI_LIST(KSI_HashChainLink) *lst, KSI_HashChainLink *o) {
	const KSI_TreeNode *c, *p, *sib;
	KSI_uint64_t lc;
	if (q_env_fail()) return KSI_OUT_OF_MEMORY;
	__CPROVER_assert(lst == g_q_list, "walk: links are appended to the list made for this chain");
	__CPROVER_assert(o != NULL, "walk: a link object is appended");
	c = g_q_walk;
	__CPROVER_assert(c != NULL && c->parent != NULL, "walk: a link is appended only for a node that has a parent");
	p = c->parent;
	sib = (p->leftChild == c) ? p->rightChild : p->leftChild;
	lc = (o->levelCorrection == NULL) ? 0 : o->levelCorrection->value;
	/* the property text, checked at EVERY append (arbitrary step of the walk) */
	__CPROVER_assert(p->leftChild == c || p->rightChild == c, "walk: the node is a child of its parent");
	__CPROVER_assert((o->isLeft != 0) == (p->leftChild == c), "link: direction == side of the child");
	__CPROVER_assert(sib != NULL && o->imprint == sib->hash, "link: sibling hash");
	__CPROVER_assert(sib != NULL && (o->metaData != NULL) == (sib->metaData != NULL), "link: sibling meta-data");
	__CPROVER_assert(o->legacyId == NULL, "link: no legacy id");
	__CPROVER_assert(p->level > c->level && (long long)lc == spec_tree_level_correction(p->level, c->level), "link: level correction == parent.level - child.level - 1");
	__CPROVER_assert(o->levelCorrection == NULL || (o->levelCorrection->ref == 1 && lc > 0), "link: a level correction object is stored only for a gap, the link holds its only reference");
	__CPROVER_assert(o->metaData == NULL || o->metaData->ref == 2, "link: the meta-data element is shared between the link and the caller's local at append time");
	if (!g_qw_set && g_q_togo > 0) g_q_togo--;
	else if (!g_qw_set) {
		g_qw_set = 1;
		g_qw.isLeft = (o->isLeft != 0); g_qw.imprint = o->imprint; g_qw.hasMd = (o->metaData != NULL); g_qw.hasLegacy = (o->legacyId != NULL); g_qw.lc = lc;
		g_qw.child = c; g_qw.parent = p; g_qw.childIsLeft = (p->leftChild == c); g_qw.childIsRight = (p->rightChild == c);
		g_qw.sibHash = (sib == NULL) ? NULL : sib->hash; g_qw.sibHasMd = (sib != NULL && sib->metaData != NULL);
		g_qw.levelsAscend = (p->level > c->level); g_qw.gap = spec_tree_level_correction(p->level, c->level);
	}
	g_q_owned += 1u + (o->levelCorrection != NULL) + (o->metaData != NULL);
	g_q_owned_href += (o->imprint != NULL);
	g_q_n++;
	g_q_walk = p; g_q_walk_root = (p->parent == NULL);
	return KSI_OK;
}
int KSI_HashChainLinkList_new(KSI_LIST(KSI_HashChainLink) **list) {
	KSI_LIST(KSI_HashChainLink) *l;
	if (list == NULL) return KSI_INVALID_ARGUMENT;
	l = malloc(sizeof(*l));
	if (l == NULL) { g_qc_alloc_failed = 1; return KSI_OUT_OF_MEMORY; }
	memset(l, 0, sizeof(*l));
	l->append = q_ll_append;
	g_qc_live++; g_q_list = l; g_q_n = 0; g_q_owned = 0; g_q_owned_href = 0;
	*list = l; return KSI_OK;
}
/* releasing the list releases every accepted link with everything it holds */
void KSI_HashChainLinkList_free(KSI_LIST(KSI_HashChainLink) *l) {
	if (l != NULL) {
		if (l == g_q_list) {
			g_qc_live -= g_q_owned; g_qc_href -= g_q_owned_href;
			g_q_owned = 0; g_q_owned_href = 0; g_q_n = 0; g_q_list = NULL;
		}
		g_qc_live--; free(l);
	}
}

/* ---- the aggregation chain container ---- */
int KSI_AggregationHashChain_new(KSI_CTX *ctx, KSI_AggregationHashChain **out) {
	KSI_AggregationHashChain *t;
	if (ctx == NULL || out == NULL) return KSI_INVALID_ARGUMENT;
	t = malloc(sizeof(*t));
	if (t == NULL) { g_qc_alloc_failed = 1; return KSI_OUT_OF_MEMORY; }
	t->ctx = ctx; t->ref = 1; t->aggregationTime = NULL; t->chainIndex = NULL; t->inputData = NULL; t->inputHash = NULL;
	t->aggrHashId = NULL; t->chain = NULL; t->outputHash = NULL; t->outputLevel = 0; t->inputLevel = 0;
	g_qc_live++;
	*out = t; return KSI_OK;
}
void KSI_AggregationHashChain_free(KSI_AggregationHashChain *t) {
	if (t != NULL && --t->ref == 0) {
		KSI_HashChainLinkList_free(t->chain); KSI_DataHash_free(t->inputHash); KSI_Integer_free(t->aggrHashId);
		g_qc_live--; free(t);
	}
}
int KSI_AggregationHashChain_setChain(KSI_AggregationHashChain *t, KSI_LIST(KSI_HashChainLink) *v) { if (t == NULL || q_env_fail()) return KSI_INVALID_ARGUMENT; t->chain = v; return KSI_OK; }
int KSI_AggregationHashChain_setInputHash(KSI_AggregationHashChain *t, KSI_DataHash *v) { if (t == NULL || q_env_fail()) return KSI_INVALID_ARGUMENT; t->inputHash = v; return KSI_OK; }
int KSI_AggregationHashChain_setAggrHashId(KSI_AggregationHashChain *t, KSI_Integer *v) { if (t == NULL || q_env_fail()) return KSI_INVALID_ARGUMENT; t->aggrHashId = v; return KSI_OK; }
#endif
