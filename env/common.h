/* Common declarations for every harness TU. */
#ifndef ENV_COMMON_H
#define ENV_COMMON_H
#include <stddef.h>
#include <stdint.h>
#include <string.h>
#include <time.h>
#include "internal.h"

int nondet_int(void);
unsigned nondet_uint(void);
unsigned char nondet_uchar(void);
long long nondet_ll(void);
unsigned long long nondet_ull(void);
size_t nondet_size(void);
_Bool nondet_bool(void);
void *nondet_ptr(void);

#define REACH(msg) __CPROVER_assert(0, "REACH: " msg)
#define IFF(a, b) ((!(a)) == (!(b)))
#define IMPLIES(a, b) (!(a) || (b))

#endif
