/* Ghost environment for uriClient_setService (net_uri.c) and asyncService_setupAsyncClient (net_async.c)  (C20).
 * The URI helpers are function-pointer members of the client / service object; the harness points them at these
 * stubs, which behave as the contracts of the real helpers allow [ASSUMED; the real helpers are checked by
 * C20.uriSplit, C20.scheme, C20.uriCompose] and record every argument that crosses the transport boundary.
 *   us_split      refuses without touching its outputs, or hands out a fresh string per present component; user and key
 *                 come together or not at all
 *   us_class      no scheme -> unknown (replacement untouched); otherwise any of HTTP (replacement set to a scheme
 *                 string), TCP / FILE (replacement NULL), unknown (replacement untouched)
 *   us_compose    records its arguments, leaves a non-empty string in the buffer, may fail
 *   transports    record (client, url/host/port/path, user, key) and may fail */
#ifndef ENV_GHOST_URI_SERVICE_H
#define ENV_GHOST_URI_SERVICE_H
#include "spec/uri.h"

const char *g_us_uri, *g_us_login, *g_us_key;         /* the caller's arguments */
/* split */
int g_us_split_calls, g_us_split_res;
char *g_us_schm, *g_us_user, *g_us_pass, *g_us_host, *g_us_path, *g_us_query, *g_us_frag; unsigned g_us_port;
/* class */
int g_us_class_calls, g_us_class;
static const char g_us_replace[] = "http";
/* compose */
int g_us_comp_calls, g_us_comp_res, g_us_comp_args_ok, g_us_comp_nocreds; char *g_us_comp_buf;
/* transports */
int g_us_http_calls, g_us_http_res, g_us_http_url_is_buf, g_us_http_url_is_uri; const void *g_us_http_client; const char *g_us_http_user, *g_us_http_pass, *g_us_http_url;
int g_us_tcp_calls, g_us_tcp_res; const void *g_us_tcp_client; const char *g_us_tcp_host, *g_us_tcp_user, *g_us_tcp_pass; unsigned g_us_tcp_port;
int g_us_fs_calls, g_us_fs_res; const void *g_us_fs_client; const char *g_us_fs_path, *g_us_fs_user, *g_us_fs_pass;
int g_us_new_tcp_calls, g_us_new_tcp_res, g_us_new_fs_calls, g_us_new_fs_res, g_us_new_http_calls, g_us_new_http_res;
int g_us_extract_calls; char *g_us_extracted;

static char *us_str(void) { char *s; if (nondet_bool()) return NULL; s = malloc(2); __CPROVER_assume(s != NULL); s[0] = (char)nondet_uchar(); s[1] = 0; return s; }

static int us_split(const char *uri, char **scheme, char **user, char **pass, char **host, unsigned *port, char **path, char **query, char **fragment) {
	g_us_split_calls++;
	__CPROVER_assert(uri == g_us_uri && scheme && user && pass && host && port && path && query && fragment, "the caller's URI is split, all components asked for");
	if (nondet_bool()) { g_us_split_res = nondet_bool() ? KSI_INVALID_FORMAT : KSI_OUT_OF_MEMORY; return g_us_split_res; }
	g_us_split_res = KSI_OK;
	g_us_schm = us_str(); g_us_host = us_str(); g_us_path = us_str(); g_us_query = us_str(); g_us_frag = us_str();
	g_us_user = us_str(); if (g_us_user != NULL) { g_us_pass = malloc(2); __CPROVER_assume(g_us_pass != NULL); g_us_pass[0] = (char)nondet_uchar(); g_us_pass[1] = 0; } else g_us_pass = NULL;
	g_us_port = nondet_uint() & 0xffffu;
	*scheme = g_us_schm; *user = g_us_user; *pass = g_us_pass; *host = g_us_host; *port = g_us_port; *path = g_us_path; *query = g_us_query; *fragment = g_us_frag;
	return KSI_OK;
}
static int us_class(const char *scheme, const char **replace) {
	g_us_class_calls++;
	__CPROVER_assert(scheme == g_us_schm && replace != NULL, "the scheme that was split off is classified");
	if (scheme == NULL) { g_us_class = URI_UNKNOWN; return g_us_class; }
	g_us_class = nondet_int();
	__CPROVER_assume(g_us_class == URI_HTTP || g_us_class == URI_TCP || g_us_class == URI_FILE || g_us_class == URI_UNKNOWN);
	if (g_us_class == URI_HTTP) *replace = g_us_replace;
	if (g_us_class == URI_TCP || g_us_class == URI_FILE) *replace = NULL;
	return g_us_class;
}
static int us_compose(const char *scheme, const char *user, const char *pass, const char *host, unsigned port, const char *path, const char *query, const char *fragment, char *buf, size_t len) {
	g_us_comp_calls++;
	__CPROVER_assert(buf != NULL && len == 0xffff, "the URL is composed into the 0xffff byte buffer");
	g_us_comp_nocreds = (user == NULL && pass == NULL);
	g_us_comp_args_ok = (scheme == g_us_replace && host == g_us_host && port == g_us_port && path == g_us_path && query == g_us_query && fragment == g_us_frag);
	g_us_comp_buf = buf;
	buf[0] = 'h'; buf[1] = 0;
	g_us_comp_res = nondet_bool() ? KSI_OK : KSI_INVALID_ARGUMENT;
	return g_us_comp_res;
}
/* blocking transports (call-back parameters of uriClient_setService) */
static int us_http(KSI_NetworkClient *client, const char *url, const char *user, const char *pass) {
	g_us_http_calls++; g_us_http_client = client; g_us_http_url = url; g_us_http_user = user; g_us_http_pass = pass;
	g_us_http_url_is_buf = (g_us_comp_calls == 1 && url == g_us_comp_buf); g_us_http_url_is_uri = (url == g_us_uri);
	g_us_http_res = nondet_bool() ? KSI_OK : KSI_INVALID_ARGUMENT; return g_us_http_res;
}
static int us_tcp(KSI_NetworkClient *client, const char *host, unsigned port, const char *user, const char *pass) {
	g_us_tcp_calls++; g_us_tcp_client = client; g_us_tcp_host = host; g_us_tcp_port = port; g_us_tcp_user = user; g_us_tcp_pass = pass;
	g_us_tcp_res = nondet_bool() ? KSI_OK : KSI_INVALID_ARGUMENT; return g_us_tcp_res;
}
static int us_fs(KSI_NetworkClient *client, const char *path, const char *user, const char *pass) {
	g_us_fs_calls++; g_us_fs_client = client; g_us_fs_path = path; g_us_fs_user = user; g_us_fs_pass = pass;
	g_us_fs_res = nondet_bool() ? KSI_OK : KSI_INVALID_ARGUMENT; return g_us_fs_res;
}
#define US_LOGIN_OK(u) ((u) == (g_us_login != NULL ? g_us_login : (const char *)g_us_user))
#define US_KEY_OK(p)   ((p) == (g_us_key != NULL ? g_us_key : (const char *)g_us_pass))
#endif
