/* C19 (slice oom2_pol): allocation funnels with live-allocation accounting, like env/c19_alloc_env.h, but with a CLOSED
 * case split on the block sizes / element counts (see env/c19_oom2_base.h: an allocation of symbolic size - even on an
 * infeasible branch - costs CBMC millions of variables).  Each branch calls malloc / calloc with exactly the arguments
 * given (identity); the fall-through is a CHECKED assertion, so the split is exhaustive or the job fails.
 * A harness defines OOM2_MALLOC_SIZES / OOM2_CALLOC_COUNTS as X(k) lists before including this file.
 *  - KSI_malloc / KSI_calloc / KSI_free: pass-through bodies of base.c:1033-1045 (C19.base_alloc_* enforce the pass-through
 *    contract on the real ones) + ghost counter g_live                                                    [ASSUMED]
 *  - KSI_ERR_* / KSI_LOG_*: no effect on state the property observes                                          [ASSUMED] */
#ifndef ENV_C19_OOM2_ALLOC_H
#define ENV_C19_OOM2_ALLOC_H
#include <stdlib.h>
#include <stdarg.h>
#include "internal.h"
long g_live;                 /* funnel blocks currently live */
unsigned g_alloc_failed;     /* number of funnel allocations that returned NULL */
void *KSI_malloc(size_t size) {
	void *p;
#define X(k) if (size == (k)) p = malloc(k); else
	OOM2_MALLOC_SIZES
#undef X
	{ __CPROVER_assert(0, "env: malloc size outside the closed case split of the harness"); p = NULL; }
	if (p != NULL) g_live++; else g_alloc_failed++;
	return p;
}
void *KSI_calloc(size_t num, size_t size) {
	void *p;
#define X(k) if (num == (k)) p = calloc((k), size); else
	OOM2_CALLOC_COUNTS
#undef X
	{ __CPROVER_assert(0, "env: calloc count outside the closed case split of the harness"); p = NULL; }
	if (p != NULL) g_live++; else g_alloc_failed++;
	return p;
}
void KSI_free(void *ptr) { if (ptr != NULL) { g_live--; free(ptr); } }
void KSI_ERR_clearErrors(KSI_CTX *ctx) { }
void KSI_ERR_push(KSI_CTX *ctx, int statusCode, long extErrorCode, const char *fileName, unsigned int lineNr, const char *message) { }
int KSI_LOG_debug(KSI_CTX *ctx, char *format, ...) { return KSI_OK; }
int KSI_LOG_info(KSI_CTX *ctx, char *format, ...) { return KSI_OK; }
int KSI_LOG_notice(KSI_CTX *ctx, char *format, ...) { return KSI_OK; }
int KSI_LOG_warn(KSI_CTX *ctx, char *format, ...) { return KSI_OK; }
int KSI_LOG_error(KSI_CTX *ctx, char *format, ...) { return KSI_OK; }
#endif
