/* Ghost model of a KSI_LIST(KSI_TLV) for tlv.c (DESIGN 3.3).  Include after tlv.c (struct KSI_TLV_st).
 *
 * (A) reading side (serializeNested): g_nl_list is a list of g_nl_len children.  elementAt hands out, for the position
 *     asked, an arbitrary child (storage g_nl_child) together with an arbitrary NAME g_nl_cur for "the size of this
 *     child's encoding", adds it to the running sum and asserts the traversal protocol (last to first, each once).
 *     When the witness child g_nl_w is handed out, the sum of what lies to its right is remembered.
 * (B) building side (encodeAsNestedTlvs): KSI_List_new / append / KSI_List_free keep count of the appended children and
 *     of how many octets of the parent they cover (running offset), and remember the witness child.
 * Everything here is [ASSUMED] list behaviour: elementAt/length/append of list.c succeed for in-range arguments,
 * append may fail (allocation). */
#ifndef ENV_GHOST_TLVLIST_H
#define ENV_GHOST_TLVLIST_H

/* ---------------- (A) reading side ---------------- */
KSI_LIST(KSI_TLV) g_nl_list;
size_t g_nl_len, g_nl_calls, g_nl_pos;
size_t g_nl_sum;          /* sum of the sizes named so far */
size_t g_nl_cur;          /* name of the size of the child handed out last */
size_t g_nl_w;            /* witness child (never written) */
size_t g_nl_w_right, g_nl_w_size;   /* octets to the right of the witness child, its size */
_Bool g_nl_overflow;      /* the running sum left the size_t range (cannot happen once C09.serializeTlv's 0xffff rule holds) */
struct KSI_TLV_st g_nl_child;

static size_t nl_stub_length(KSI_LIST(KSI_TLV) *l) { return g_nl_len; }
static int nl_stub_elementAt(KSI_LIST(KSI_TLV) *l, size_t pos, KSI_TLV **o) {
	__CPROVER_assert(l == &g_nl_list, "list protocol: the element's own list");
	__CPROVER_assert(g_nl_calls < g_nl_len, "list protocol: no fetch beyond the list");
	__CPROVER_assert(pos == g_nl_len - 1 - g_nl_calls, "list protocol: children are taken from the last to the first, each once");
	g_nl_child.tag = nondet_uint() & 0x1fff;
	g_nl_child.isNonCritical = nondet_bool(); g_nl_child.isForwardable = nondet_bool();
	g_nl_cur = nondet_size();
	if (pos == g_nl_w) { g_nl_w_right = g_nl_sum; g_nl_w_size = g_nl_cur; }
	if (g_nl_sum + g_nl_cur < g_nl_sum) g_nl_overflow = 1;
	g_nl_sum += g_nl_cur;
	g_nl_pos = pos;
	g_nl_calls++;
	*o = &g_nl_child;
	return KSI_OK;
}
static void nl_setup(void) {
	memset(&g_nl_list, 0, sizeof(g_nl_list));
	g_nl_list.length = nl_stub_length; g_nl_list.elementAt = nl_stub_elementAt;
	g_nl_len = nondet_size(); g_nl_calls = 0; g_nl_sum = 0; g_nl_overflow = 0; g_nl_w = nondet_size();
}

/* ---------------- (B) building side ---------------- */
KSI_LIST(KSI_TLV) g_bl_list;
_Bool g_bl_live, g_bl_freed;       /* the list object exists / was released */
size_t g_bl_count;                 /* children appended */
unsigned char *g_bl_base; size_t g_bl_len;   /* the parent's payload [base, base+len) - set by the harness */
size_t g_bl_off;                   /* octets of the parent's payload covered by the children appended so far */
size_t g_bl_w;                     /* witness child (never written) */
KSI_TLV *g_bl_rejected;            /* child whose append failed (still owned by the caller) */
size_t g_bl_w_start, g_bl_w_hdr, g_bl_w_len; unsigned g_bl_w_tag; int g_bl_w_nc, g_bl_w_fwd;   /* what the witness child reports */

static int bl_stub_append(KSI_LIST(KSI_TLV) *l, KSI_TLV *child) {
	size_t hdr;
	__CPROVER_assert(l == &g_bl_list && g_bl_live && !g_bl_freed, "list protocol: append to the live list");
	__CPROVER_assert(child != NULL, "list protocol: a child is appended");
	/* tiling, checked at the moment a child is handed over: its header starts exactly where the previous child ended,
	 * its payload pointer lies inside the parent's payload, and its offset bookkeeping says the same */
	__CPROVER_assert(__CPROVER_same_object(child->datap, g_bl_base), "child payload points into the parent's buffer");
	hdr = (size_t)(child->datap - g_bl_base) - g_bl_off;
	__CPROVER_assert((size_t)(child->datap - g_bl_base) >= g_bl_off && (hdr == 2 || hdr == 4), "child header starts where the previous child ended");
	__CPROVER_assert(hdr + child->datap_len <= g_bl_len - g_bl_off, "child ends inside the parent's payload");
	__CPROVER_assert(child->absoluteOffset == g_bl_off, "child's absolute offset is its position in the parent's payload");
	__CPROVER_assert(child->buffer == NULL && child->nested == NULL, "child borrows the parent's memory and is not expanded");
	/* the child reports exactly the header encoded at its position (spec/tlv.h) */
	__CPROVER_assert(spec_tlv_elem_complete(g_bl_base + g_bl_off, g_bl_len - g_bl_off), "child is a complete element of the remaining payload");
	__CPROVER_assert(hdr == spec_tlv_dec_hdr_len(g_bl_base + g_bl_off, g_bl_len - g_bl_off) &&
			child->datap_len == spec_tlv_dec_dat_len(g_bl_base + g_bl_off, g_bl_len - g_bl_off), "child reports the encoded header and payload lengths");
	__CPROVER_assert(child->tag == spec_tlv_dec_tag(g_bl_base + g_bl_off, g_bl_len - g_bl_off) &&
			child->isNonCritical == spec_tlv_dec_nc(g_bl_base + g_bl_off, g_bl_len - g_bl_off) &&
			child->isForwardable == spec_tlv_dec_fwd(g_bl_base + g_bl_off, g_bl_len - g_bl_off), "child reports the encoded tag and flags");
	if (nondet_bool()) { g_bl_rejected = child; return KSI_OUT_OF_MEMORY; }     /* list growth can fail; the caller keeps ownership */
	if (g_bl_count == g_bl_w) { g_bl_w_start = g_bl_off; g_bl_w_hdr = hdr; g_bl_w_len = child->datap_len; g_bl_w_tag = child->tag; g_bl_w_nc = child->isNonCritical; g_bl_w_fwd = child->isForwardable; }
	g_bl_off += hdr + child->datap_len;
	g_bl_count++;
	return KSI_OK;
}
int KSI_List_new(void (*obj_free)(void *), KSI_List **list) {
	__CPROVER_assert(!g_bl_live, "list protocol: one list per call");
	if (nondet_bool()) return KSI_OUT_OF_MEMORY;
	memset(&g_bl_list, 0, sizeof(g_bl_list));
	g_bl_list.append = bl_stub_append;
	g_bl_live = 1; g_bl_count = 0; g_bl_off = 0;
	*list = (KSI_List *)&g_bl_list;
	return KSI_OK;
}
void KSI_List_free(KSI_List *list) {
	if (list == NULL) return;
	__CPROVER_assert(list == (KSI_List *)&g_bl_list && g_bl_live && !g_bl_freed, "list protocol: the live list is released at most once");
	g_bl_freed = 1;
}
#endif
