/* Environment for net_tcp_async.c dispatch (C14): the socket is an arbitrary peer.
 * ASSUMED stubs: poll, recv, send, close, time, difftime, errno, strerror, memmove (libc semantics: asserted arguments only),
 * KSI_OctetString_new/free, typed list call-backs of reqQueue/respQueue.  Ghost counters model the byte stream:
 *   g_in  = octets received from the peer so far,  g_out = octets already cut off the front of the reassembly buffer,
 * so the buffer always holds stream[g_out .. g_in). */
#ifndef ENV_GHOST_TCP_H
#define ENV_GHOST_TCP_H
#include <poll.h>
#include <errno.h>
#include <sys/socket.h>

unsigned long long g_in, g_out;         /* stream accounting */
unsigned long long g_delivered;         /* PDUs handed to the upper layer */
unsigned char *g_inbuf_p; size_t g_inbuf_size; size_t *g_inlen_p;   /* set by the harness: tcpCtx->inBuf, sizeof, &tcpCtx->inLen */
int g_errno;
_Bool g_peer_closed;                     /* recv returned 0 or a hard error, or send failed hard */
_Bool g_sock_closed;                     /* close() called */
size_t g_pending_count;                  /* size of the element found complete, waiting to be delivered and cut off */
_Bool g_pending;                         /* an element was handed to the upper layer and must now be cut off the buffer */
_Bool g_tcp_env_failed;

int *__errno_location(void) { return &g_errno; }
char *strerror(int e) { return (char *)"e"; }
int close(int fd) { g_sock_closed = 1; return 0; }
time_t g_now;
time_t time(time_t *t) { if (t) *t = g_now; return g_now; }
double difftime(time_t a, time_t b) { return (double)a - (double)b; }

short g_revents;
int poll(struct pollfd *fds, nfds_t n, int timeout) {
	int r = nondet_int();
	__CPROVER_assert(n == 1 && timeout == 0, "poll: one descriptor, never blocks");
	__CPROVER_assume(r >= -1 && r <= 1);
	fds->revents = g_revents;
	return r;
}

unsigned g_recv_calls;
ssize_t recv(int fd, void *buf, size_t len, int flags) {
	ssize_t c = nondet_ll();
	/* start of a receive round: the stream invariant holds (base: precondition of dispatch; step: after any round).
	 * The do-while over rounds cannot be given a loop contract (goto-instrument limitation), so it is explored for one
	 * data-carrying round from an ARBITRARY invariant state plus the start of the next round, where the invariant is
	 * asserted again: induction over rounds. */
	__CPROVER_assert(*g_inlen_p <= g_inbuf_size && g_in == g_out + *g_inlen_p && !g_pending && !g_tcp_env_failed, "stream invariant at the start of every receive round (inductive step over rounds)");
	g_recv_calls++;
	__CPROVER_assert(!g_peer_closed && !g_sock_closed, "no read from a closed connection");
	__CPROVER_assert(!g_pending, "delivered element is cut off the buffer before more is read");
	__CPROVER_assert((unsigned char *)buf == g_inbuf_p + *g_inlen_p, "recv appends directly behind the buffered octets");
	__CPROVER_assert(*g_inlen_p <= g_inbuf_size && len <= g_inbuf_size - *g_inlen_p, "recv window lies inside the reassembly buffer");
	__CPROVER_assume(c >= -1 && c <= (ssize_t)len);
	if (g_recv_calls >= 2) { g_errno = EWOULDBLOCK; return -1; }      /* exploration bound: the second round only checks its start state */
	if (c < 0) { g_errno = nondet_int(); if (g_errno != EWOULDBLOCK && g_errno != EAGAIN) g_peer_closed = 1; }
	else if (c == 0) g_peer_closed = 1;
	else g_in += (unsigned long long)c;
	return c;
}

/* the element handed to the upper layer: exactly the first complete element of the buffer */
int KSI_OctetString_new(KSI_CTX *ctx, const unsigned char *data, size_t data_len, KSI_OctetString **t) {
	__CPROVER_assert(!g_pending, "one element at a time");
	__CPROVER_assert(data == g_inbuf_p, "delivered element starts at the front of the buffer (stream offset g_out)");
	__CPROVER_assert(data_len >= 2 && data_len <= *g_inlen_p, "delivered element lies completely inside the buffered octets");
	__CPROVER_assert(data_len == spec_tlv_dec_hdr_len(g_inbuf_p, *g_inlen_p) + spec_tlv_dec_dat_len(g_inbuf_p, *g_inlen_p), "delivered length = header + payload length announced by the element's own header");
	if (nondet_bool()) { g_tcp_env_failed = 1; return KSI_OUT_OF_MEMORY; }
	g_pending = 1; g_pending_count = data_len;
	*t = (KSI_OctetString *)&g_pending_count;      /* identity only */
	return KSI_OK;
}
void KSI_OctetString_free(KSI_OctetString *o) { if (o != NULL && g_pending) g_pending = 0; /* an element that could not be queued is dropped: the buffer still holds it */ }

void *memmove(void *dst, const void *src, size_t n) {
	__CPROVER_assert(g_pending, "compaction only after an element was delivered");
	__CPROVER_assert((unsigned char *)dst == g_inbuf_p && (const unsigned char *)src == g_inbuf_p + g_pending_count, "remaining octets move to the front, starting right behind the delivered element");
	__CPROVER_assert(n == *g_inlen_p && g_pending_count + n <= g_inbuf_size, "exactly the remaining octets are kept");
	g_out += g_pending_count; g_pending = 0; g_delivered++;
	return dst;
}

/* respQueue model */
static int resp_append(KSI_LIST(KSI_OctetString) *l, KSI_OctetString *o) {
	__CPROVER_assert(g_pending && o == (KSI_OctetString *)&g_pending_count, "the element just cut out is queued");
	if (nondet_bool()) { g_tcp_env_failed = 1; return KSI_OUT_OF_MEMORY; }
	return KSI_OK;
}

#ifndef GHOST_TCP_MAX_REQ
#define GHOST_TCP_MAX_REQ 4      /* serialized requests of the model are at most this long (bounded jobs) */
#endif
/* reqQueue model: head request is g_req while g_q_len > 0 */
size_t g_q_len;
struct KSI_AsyncHandle_st g_req;
unsigned char *g_req_raw_p; size_t g_req_len0;        /* serialized request at the head of the queue and its full length */
unsigned long long g_sent_total;                       /* octets of the head request written so far (ghost) */
unsigned g_q_removed;
static size_t req_length(KSI_LIST(KSI_AsyncHandle) *l) { return g_q_len; }
static int req_elementAt(KSI_LIST(KSI_AsyncHandle) *l, size_t pos, KSI_AsyncHandle **o) {
	__CPROVER_assert(pos == 0 && g_q_len > 0, "requests are taken from the head of the queue (submission order)");
	*o = &g_req; return KSI_OK;
}
static int req_remove(KSI_LIST(KSI_AsyncHandle) *l, size_t pos, KSI_AsyncHandle **o) {
	__CPROVER_assert(pos == 0 && g_q_len > 0 && o == NULL, "only the head request leaves the queue");
	__CPROVER_assert(g_req.state != KSI_ASYNC_STATE_WAITING_FOR_DISPATCH || g_req.sentCount == g_req.len, "a request still waiting for dispatch is never dropped half-written");
	g_q_len--; g_q_removed++;
	/* the next head: an arbitrary fresh request */
	g_req.state = nondet_int(); g_req.len = nondet_size(); g_req.sentCount = 0; g_req.reqTime = nondet_ll();
	__CPROVER_assume(g_req.len <= GHOST_TCP_MAX_REQ);
	g_req_raw_p = malloc(GHOST_TCP_MAX_REQ); __CPROVER_assume(g_req_raw_p != NULL);
	g_req_len0 = g_req.len; g_req.raw = g_req_raw_p;
	return KSI_OK;
}

ssize_t send(int fd, const void *buf, size_t len, int flags) {
	ssize_t c = nondet_ll();
	__CPROVER_assert(!g_peer_closed && !g_sock_closed, "no write to a closed connection");
	__CPROVER_assert(g_req.state == KSI_ASYNC_STATE_WAITING_FOR_DISPATCH, "only requests waiting for dispatch are written");
	__CPROVER_assert((const unsigned char *)buf == g_req_raw_p + g_req.sentCount && len == g_req_len0 - g_req.sentCount && g_req.sentCount < g_req_len0,
			"send continues the head request exactly where the previous partial send stopped, up to its end");
	__CPROVER_assume(c >= -1 && c <= (ssize_t)len && c != 0);   /* POSIX: a non-empty send on a stream socket transfers something or fails */
	if (c < 0) { g_errno = nondet_int(); if (g_errno != EWOULDBLOCK && g_errno != EAGAIN) g_peer_closed = 1; }
	return c;
}
#endif
