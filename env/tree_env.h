/* Environment of tree_builder.c / blocksigner.c for C16 and C19 (DESIGN 3.3, 6-C16).
 *
 * Everything in this file is ASSUMED behaviour of code outside tree_builder.c:
 *   - hash objects (KSI_DataHash_ref / KSI_DataHash_free): reference counted heap objects,
 *   - the hasher (KSI_DataHasher_reset/add/addImprint/close): every call is recorded in a ghost
 *     TRANSCRIPT (kind, object, length, first byte); any call may fail with an arbitrary error code;
 *     close allocates the resulting hash object (so it fails under --malloc-may-fail too),
 *   - meta-data objects (KSI_MetaData_ref/free, the serializePayload / toMetaDataElement call-backs).
 * The hash FUNCTION itself is not modelled: a closed hash is an opaque fresh object whose identity
 * is tied to the transcript that produced it (g_tr_result).  */
#ifndef ENV_TREE_ENV_H
#define ENV_TREE_ENV_H
#include <stdlib.h>
#include "env/common.h"
#include "hash.h"
#include "impl/hash_impl.h"
#include "tree_builder.h"
#include "impl/meta_data_impl.h"
#include "spec/tree.h"

/* ---- ghost transcript of hasher calls ------------------------------------------------------ */
#define TR_MAX 8
enum { TR_NONE = 0, TR_RESET = 1, TR_IMPRINT = 2, TR_MDSER = 3, TR_BYTES = 4, TR_CLOSE = 5 };
typedef struct { int kind; const void *obj; size_t len; unsigned char b0; } tr_event;
tr_event g_tr[TR_MAX];
unsigned g_tr_n;              /* number of recorded events (saturates at TR_MAX) */
int g_tr_failed;              /* some hasher / serializer call returned an error */
KSI_DataHash *g_tr_result;    /* object produced by the last successful close */
KSI_DataHasher *g_tr_hsr;     /* hasher all calls were made on (NULL = none yet) */
int g_tr_hsr_mixed;           /* calls were made on two different hashers */

static void tr_rec(KSI_DataHasher *h, int kind, const void *obj, size_t len, unsigned char b0) {
	if (g_tr_n < TR_MAX) {
		g_tr[g_tr_n].kind = kind; g_tr[g_tr_n].obj = obj; g_tr[g_tr_n].len = len; g_tr[g_tr_n].b0 = b0;
		g_tr_n++;
	}
	if (g_tr_hsr == NULL) g_tr_hsr = h; else if (g_tr_hsr != h) g_tr_hsr_mixed = 1;
}
static void tr_init(void) {
	g_tr_n = 0; g_tr_failed = 0; g_tr_result = NULL; g_tr_hsr = NULL; g_tr_hsr_mixed = 0;
	g_tr[0].kind = g_tr[1].kind = g_tr[2].kind = g_tr[3].kind = TR_NONE;
	g_tr[4].kind = g_tr[5].kind = g_tr[6].kind = g_tr[7].kind = TR_NONE;
}
/* arbitrary error code, never KSI_OK */
static int tr_some_error(void) { int e = nondet_int(); if (e == KSI_OK) e = KSI_UNKNOWN_ERROR; g_tr_failed = 1; return e; }

/* ---- hash objects ---------------------------------------------------------------------------- */
KSI_DataHash *KSI_DataHash_ref(KSI_DataHash *h) { if (h != NULL) h->ref++; return h; }
void KSI_DataHash_free(KSI_DataHash *h) { if (h != NULL && --h->ref == 0) free(h); }

/* ---- hasher ------------------------------------------------------------------------------------ */
int KSI_DataHasher_reset(KSI_DataHasher *h) {
	if (h == NULL) return KSI_INVALID_ARGUMENT;
	tr_rec(h, TR_RESET, NULL, 0, 0);
	if (nondet_bool()) return tr_some_error();
	return KSI_OK;
}
int KSI_DataHasher_add(KSI_DataHasher *h, const void *data, size_t len) {
	if (h == NULL || (data == NULL && len != 0)) return KSI_INVALID_ARGUMENT;
	tr_rec(h, TR_BYTES, NULL, len, len > 0 ? *(const unsigned char *)data : 0);
	if (nondet_bool()) return tr_some_error();
	return KSI_OK;
}
int KSI_DataHasher_addImprint(KSI_DataHasher *h, const KSI_DataHash *hsh) {
	if (h == NULL || hsh == NULL) return KSI_INVALID_ARGUMENT;
	tr_rec(h, TR_IMPRINT, hsh, 0, 0);
	if (nondet_bool()) return tr_some_error();
	return KSI_OK;
}
int KSI_DataHasher_close(KSI_DataHasher *h, KSI_DataHash **out) {
	KSI_DataHash *r;
	if (h == NULL || out == NULL) return KSI_INVALID_ARGUMENT;
	tr_rec(h, TR_CLOSE, NULL, 0, 0);
	if (nondet_bool()) return tr_some_error();
	r = malloc(sizeof(*r));
	if (r == NULL) { g_tr_failed = 1; return KSI_OUT_OF_MEMORY; }
	r->ref = 1; r->ctx = NULL; r->imprint_length = nondet_size();
	g_tr_result = r;
	*out = r;
	return KSI_OK;
}

/* ---- meta-data objects (struct KSI_MetaData_st holds two call-backs) -------------------------- */
KSI_MetaData *KSI_MetaData_ref(KSI_MetaData *m) { if (m != NULL) m->ref++; return m; }
void KSI_MetaData_free(KSI_MetaData *m) { if (m != NULL && --m->ref == 0) free(m); }

static int md_stub_serializePayload(const KSI_MetaData *t, unsigned char *buf, size_t buf_size, size_t *buf_len) {
	size_t n = nondet_size();
	tr_rec(g_tr_hsr, TR_MDSER, t, 0, 0);
	if (nondet_bool() || n > buf_size) return tr_some_error();
	if (n > 0) buf[0] = nondet_uchar();
	*buf_len = n;
	return KSI_OK;
}

/* ---- model of "the nodes currently held by a builder" (insertNode / close / calculateHighestLevel) ----
 * insertNode dereferences exactly one occupant, the one in slot `at`; the occupants of the other slots are
 * only handed on to the recursive call.  The model therefore represents every occupied slot by ONE shared
 * representative node object g_occ (slot i is NULL or &g_occ); contracts speak about all 256 slots through
 * nondeterministic WITNESS indices chosen before the call (what holds for an arbitrary witness holds for all). */
KSI_TreeNode g_occ;
KSI_DataHash g_occ_hash;      /* hash object of the representative occupant */
size_t g_w1, g_w2;            /* witness slot indices, g_w1 < g_w2 < 256 */

/* ---- ghost records written by the CONTRACTS of callees that addLeaf is verified against ---------------- */
unsigned g_pin_calls;         /* calls of processAndInsertNode */
int g_pin_res;                /* its last result */
KSI_TreeNode *g_pin_node;     /* the node handed to it */
unsigned g_chl_calls;         /* calls of calculateHighestLevel */
unsigned g_chl_result;        /* its last result */
unsigned g_lwo_calls;         /* calls of levelWithOverhead */
KSI_TreeLeafHandle *g_leaf_out;   /* out-parameter object of addLeaf harnesses */
unsigned g_cbl_calls;         /* calls of leaf processors made through the model processor list */
KSI_DataHash g_proc_hash;     /* hash object the model leaf processors put into the nodes they make */
#endif
