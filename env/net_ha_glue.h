/* Environment of the "glue" functions of net_ha.c that walk over the list of sub-services (C15, builderT):
 * responseHandler, KSI_HighAvailabilityService_getPendingCount / getReceivedCount / setOption / getOption.
 * Ghost monitor for has->services and for the sub-services behind it.  [ASSUMED]
 *  - has->services: a list of g_gl_len (arbitrary) sub-services; elementAt(pos) must be asked for pos = 0,1,2,... in
 *    order, each position once (asserted), the previous sub-service must have been served (asserted); a list access
 *    may fail with an arbitrary error.
 *  - the sub-service entry points of net_async.c (KSI_AsyncService_run / getPendingCount / getReceivedCount /
 *    setOption / getOption) are thin dispatchers over the function-pointer table of the sub-service (C13 jobs); here
 *    they are ghost stubs: exactly one call per visited sub-service (asserted), arbitrary result or arbitrary error,
 *    the arguments are checked against the ghosts the harness has set.
 * One static sub-service object stands for all positions (the position is known from the ghost g_gl_at). */
#ifndef ENV_NET_HA_GLUE_H
#define ENV_NET_HA_GLUE_H
#include "env/common.h"
#include "net_async.h"
#include "impl/net_async_impl.h"

size_t g_gl_len;          /* number of sub-services */
size_t g_gl_at;           /* elementAt calls so far == index of the next sub-service */
size_t g_gl_calls;        /* sub-service calls so far */
int g_gl_lastres;         /* result of the latest list access / sub-service call */
_Bool g_gl_failed;        /* a list access or a sub-service call has failed */
size_t g_gl_max;          /* maximum of the counts reported by the sub-services so far */
int g_gl_opt;             /* option the harness passes to setOption / getOption */
void *g_gl_val;           /* value the harness passes to setOption */
size_t g_gl_first;        /* option value reported by sub-service 0 */
_Bool g_gl_same;          /* all sub-services asked so far reported g_gl_first */
KSI_AsyncService g_gl_sub;
KSI_LIST(KSI_AsyncService) g_gl_list;

static size_t gl_length(KSI_LIST(KSI_AsyncService) *l) { return g_gl_len; }
static int gl_elementAt(KSI_LIST(KSI_AsyncService) *l, size_t pos, KSI_AsyncService **o) {
	__CPROVER_assert(pos == g_gl_at && pos < g_gl_len, "glue monitor: sub-services are visited in order, each once");
	__CPROVER_assert(g_gl_calls == g_gl_at, "glue monitor: the previous sub-service was served before the next is fetched");
	__CPROVER_assert(!g_gl_failed, "glue monitor: nothing is visited after a failure");
	g_gl_at++;
	if (nondet_bool()) {
		int r = nondet_int();
		if (r == KSI_OK) r = KSI_INVALID_STATE;
		g_gl_failed = 1; g_gl_lastres = r;
		return r;
	}
	*o = &g_gl_sub;
	return KSI_OK;
}
static void gl_list_init(void) {
	memset(&g_gl_list, 0, sizeof(g_gl_list));
	g_gl_list.length = gl_length; g_gl_list.elementAt = gl_elementAt;
	memset(&g_gl_sub, 0, sizeof(g_gl_sub));
	g_gl_at = 0; g_gl_calls = 0; g_gl_lastres = 0; g_gl_failed = 0; g_gl_max = 0; g_gl_first = 0; g_gl_same = 1;
}
#define GL_ONE_CALL(s) __CPROVER_assert((s) == &g_gl_sub && g_gl_calls + 1 == g_gl_at && !g_gl_failed, "glue monitor: exactly one call per visited sub-service")

#ifndef GL_NO_COUNT_STUBS
static int gl_count(KSI_AsyncService *s, size_t *count) {
	int r = nondet_int();
	GL_ONE_CALL(s);
	__CPROVER_assert(count != NULL, "glue monitor: count receiver present");
	g_gl_calls++;
	g_gl_lastres = r;
	if (r != KSI_OK) { g_gl_failed = 1; return r; }
	*count = nondet_size();
	if (*count > g_gl_max) g_gl_max = *count;
	return KSI_OK;
}
int KSI_AsyncService_getPendingCount(KSI_AsyncService *s, size_t *count) { return gl_count(s, count); }
int KSI_AsyncService_getReceivedCount(KSI_AsyncService *s, size_t *count) { return gl_count(s, count); }
#endif

#ifndef GL_NO_OPTION_STUBS
size_t g_gl_set_calls;
int KSI_AsyncService_setOption(KSI_AsyncService *s, const int option, void *value) {
	int r = nondet_int();
	GL_ONE_CALL(s);
	__CPROVER_assert(option == g_gl_opt && value == g_gl_val, "glue monitor: the sub-service is given the caller's option and value");
	g_gl_calls++;
	g_gl_lastres = r;
	if (r != KSI_OK) { g_gl_failed = 1; return r; }
	g_gl_set_calls++;
	return KSI_OK;
}
int KSI_AsyncService_getOption(const KSI_AsyncService *s, const int option, void *value) {
	int r = nondet_int();
	size_t v = nondet_size();
	GL_ONE_CALL(s);
	__CPROVER_assert(option == g_gl_opt && value != NULL, "glue monitor: the sub-service is asked for the caller's option");
	g_gl_calls++;
	g_gl_lastres = r;
	if (r != KSI_OK) { g_gl_failed = 1; return r; }
	if (g_gl_calls == 1) g_gl_first = v;
	else if (v != g_gl_first) g_gl_same = 0;
	*(size_t *)value = v;
	return KSI_OK;
}
#endif

#define ENV_NET_HA_GLUE_ASSUMED "has->services: ghost list of arbitrary length visited in order, a list access may fail (env/net_ha_glue.h)", \
	"KSI_AsyncService_getPendingCount/getReceivedCount/setOption/getOption/run of a SUB-service: ghost stubs with arbitrary result or arbitrary error (the real ones are dispatchers over the sub-service's function table, C13)"
#endif
