/* Ghost model of the sub-element list of a KSI_TlvElement (DESIGN 3.3), for tlv_element.c.
 * (A) serializer side: g_el_list holds g_el_len children; elementAt hands out an arbitrary child (storage g_el_child)
 *     and an arbitrary NAME g_el_cur for "the size of this child's encoding (with header)", adds it to the running sum,
 *     asserts the traversal protocol (last to first, each once) and remembers the witness child's position.
 *     With g_el_fit_only set (job C09.elserialize_nested_fit) only children that still fit into the caller's buffer are
 *     handed out - a case split; the complementary job C09.elserialize_nested runs without it.
 * (B) parser side (convertToNested): KSI_List_new / append / free with tiling assertions, see below.
 * [ASSUMED] list behaviour: length/elementAt succeed in range; append may fail. */
#ifndef ENV_GHOST_TLVELEM_H
#define ENV_GHOST_TLVELEM_H
#include "spec/tlv.h"

KSI_LIST(KSI_TlvElement) g_el_list;
size_t g_el_len, g_el_calls, g_el_pos, g_el_sum, g_el_cur;
_Bool g_el_cur_bad, g_el_any_bad;   /* the child handed out last / some child has content that exceeds the 16-bit length field (its serialization is refused) */
size_t g_el_w, g_el_w_right, g_el_w_size;     /* witness child: index (never written), octets to its right, its size */
struct KSI_TlvElement_st g_el_child;
_Bool g_el_fit_only; size_t g_el_bufsize;

static size_t el_stub_length(KSI_LIST(KSI_TlvElement) *l) { return g_el_len; }
static int el_stub_elementAt(KSI_LIST(KSI_TlvElement) *l, size_t pos, KSI_TlvElement **o) {
	__CPROVER_assert(l == &g_el_list, "list protocol: the element's own list");
	__CPROVER_assert(g_el_calls < g_el_len, "list protocol: no fetch beyond the list");
	__CPROVER_assert(pos == g_el_len - 1 - g_el_calls, "list protocol: children are taken from the last to the first, each once");
	g_el_child.ftlv.tag = nondet_uint() & 0x1fff;
	g_el_cur = nondet_size();
	g_el_cur_bad = nondet_bool(); if (g_el_cur_bad) g_el_any_bad = 1;
	if (g_el_fit_only) __CPROVER_assume(g_el_cur <= g_el_bufsize - g_el_sum);   /* case split: children that fit */
	if (pos == g_el_w) { g_el_w_right = g_el_sum; g_el_w_size = g_el_cur; }
	g_el_sum += g_el_cur;
	g_el_pos = pos;
	g_el_calls++;
	*o = &g_el_child;
	return KSI_OK;
}
static void el_setup(void) {
	memset(&g_el_list, 0, sizeof(g_el_list));
	g_el_list.length = el_stub_length; g_el_list.elementAt = el_stub_elementAt;
	g_el_len = nondet_size(); g_el_calls = 0; g_el_sum = 0; g_el_w = nondet_size(); g_el_cur_bad = 0; g_el_any_bad = 0;
}

/* ---------------- (B) building side: convertToNested ---------------- */
KSI_LIST(KSI_TlvElement) g_eb_list;
_Bool g_eb_live, g_eb_freed;
size_t g_eb_count;
unsigned char *g_eb_base; size_t g_eb_len;     /* the parent's payload [base, base+len) - set by the harness */
size_t g_eb_off;                               /* octets of it covered by the children appended so far */
KSI_TlvElement *g_eb_rejected;                 /* child whose append failed (still owned by the caller) */

static int eb_stub_append(KSI_LIST(KSI_TlvElement) *l, KSI_TlvElement *child) {
	__CPROVER_assert(l == &g_eb_list && g_eb_live && !g_eb_freed, "list protocol: append to the live list");
	__CPROVER_assert(child != NULL, "list protocol: a child is appended");
	/* tiling, checked when a child is handed over: it starts exactly where its predecessor ended and ends inside the parent's payload */
	__CPROVER_assert(child->ptr == g_eb_base + g_eb_off, "child starts where the previous child ended");
	__CPROVER_assert((child->ftlv.hdr_len == 2 || child->ftlv.hdr_len == 4) && child->ftlv.dat_len <= SPEC_TLV_MAX_LEN, "child header is 2 or 4 octets, payload <= 0xffff");
	__CPROVER_assert(child->ftlv.hdr_len + child->ftlv.dat_len <= g_eb_len - g_eb_off, "child ends inside the parent's payload");
	__CPROVER_assert(child->ptr_own == 0 && child->subList == NULL && child->ref == 1, "child borrows the parent's memory, is not expanded, has one owner");
	if (nondet_bool()) { g_eb_rejected = child; return KSI_OUT_OF_MEMORY; }
	g_eb_off += child->ftlv.hdr_len + child->ftlv.dat_len;
	g_eb_count++;
	return KSI_OK;
}
int KSI_List_new(void (*obj_free)(void *), KSI_List **list) {
	__CPROVER_assert(!g_eb_live, "list protocol: one list per call");
	if (nondet_bool()) return KSI_OUT_OF_MEMORY;
	memset(&g_eb_list, 0, sizeof(g_eb_list));
	g_eb_list.append = eb_stub_append;
	g_eb_live = 1; g_eb_count = 0; g_eb_off = 0;
	*list = (KSI_List *)&g_eb_list;
	return KSI_OK;
}
void KSI_List_free(KSI_List *list) {
	if (list == NULL) return;
	__CPROVER_assert(list == (KSI_List *)&g_eb_list && g_eb_live && !g_eb_freed, "list protocol: the live list is released at most once");
	g_eb_freed = 1;
}
#endif
