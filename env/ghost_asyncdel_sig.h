/* Environment + ghost record for the signature getters of the ASYNCHRONOUS handle (net_async.c, C07 / C08):
 *   createSignature, createExtendedSignature, KSI_AsyncHandle_getSignature, KSI_AsyncHandle_getAggregationResp / getExtendResp.
 * They reach requests, responses, builders and signatures only through their API.  Every such service is a stub that
 * returns an arbitrary status, hands out a fixed model object on success and RECORDS what it was asked (ghost g_as); the
 * contracts (contracts/net_async_deliver_sig.h) state which recorded conversation a successful return implies.
 * Real bodies under their own contracts:
 *   KSI_SignatureBuilder_openFromAggregationResp / close (root level)   C07.builder_openFromAggrResp, C07.builder_addRootLevel
 *   KSI_SignatureBuilder_openFromSignature (works on a clone)           C08.builder_openFromSignature
 *   KSI_CalendarHashChain_verifyCompatibilityTo                         C08.compat_top, C08.compat_rightlinks
 *   KSI_Signature_verifyWithPolicy(internal policy)                     C01 / C05
 * The objects a handle may hold in respCtx are DIFFERENT objects of DIFFERENT types (aggregation response, extender response,
 * configuration): a stub that is handed the wrong one notices by pointer identity (no type punning is modelled). */
#ifndef ENV_GHOST_ASYNCDEL_SIG_H
#define ENV_GHOST_ASYNCDEL_SIG_H
#include "env/common.h"
#include "net_async.h"
#include "policy.h"
#include "signature_builder.h"
#include "publicationsfile.h"
#include "impl/ctx_impl.h"
#include "impl/net_async_impl.h"
#include "impl/signature_impl.h"
#include "impl/signature_builder_impl.h"

struct KSI_Integer_st { KSI_uint64_t value; };
struct KSI_AggregationReq_st { KSI_DataHash *requestHash; KSI_Integer *requestLevel; };
struct KSI_ExtendReq_st { int dummy; };
struct KSI_AggregationResp_st { int dummy; };
struct KSI_CalendarHashChain_st { int dummy; };
struct KSI_ExtendResp_st { KSI_CalendarHashChain *calendarHashChain; };
struct KSI_Config_st { int dummy; };
struct KSI_PublicationRecord_st { int dummy; };

/* the objects */
static struct KSI_AggregationResp_st g_as_aresp;       /* THE aggregation response handleResponse stored for this handle */
static struct KSI_ExtendResp_st g_as_eresp;            /* THE extender response handleResponse stored for this handle */
static struct KSI_Config_st g_as_conf;                 /* a configuration handleServerConfig stored */
static struct KSI_CalendarHashChain_st g_as_chain, g_as_srcchain;
static struct KSI_AggregationReq_st g_as_areq; static struct KSI_ExtendReq_st g_as_ereq;
static struct KSI_Integer_st g_as_level; static char g_as_hash_obj;
static struct KSI_Signature_st g_as_source;            /* the signature to be extended (h->signature) */
static struct KSI_Signature_st g_as_clone;             /* the clone the builder works on */
static struct KSI_Signature_st g_as_sig;               /* what KSI_SignatureBuilder_close hands out */
static struct KSI_SignatureBuilder_st g_as_builder;
static struct KSI_PublicationRecord_st g_as_pubrec, g_as_pubclone;

struct as_ghost {
	int open_calls, open_res; const void *open_from; _Bool open_from_sig;
	int getlvl_calls, getlvl_res; const void *getlvl_req;
	int gethash_calls, gethash_res; const void *gethash_req;
	int getchain_calls, getchain_res; const void *getchain_resp;
	int compat_calls, compat_res; const void *compat_a, *compat_b;
	int apply_calls, apply_res; const void *apply_builder, *apply_chain;
	int close_calls, close_res; const void *close_builder; KSI_uint64_t close_level; int close_noVerify;
	int clone_calls, clone_res; const void *clone_from;
	int replace_calls, replace_res; const void *replace_sig, *replace_rec;
	int verify_calls, verify_res; const void *verify_sig, *verify_hash; KSI_uint64_t verify_level; const void *verify_policy, *verify_ctx;
	_Bool verify_after_replace;            /* the final verification ran after the publication record was set */
	int builder_free, sig_free, pubclone_free, foreign_free;
	_Bool source_touched;                  /* a stub was asked to modify / release the source signature or the handle's own publication record */
} g_as;

static int as_status(void) { return nondet_int(); }

int KSI_SignatureBuilder_openFromAggregationResp(const KSI_AggregationResp *resp, KSI_SignatureBuilder **builder) {
	g_as.open_calls++; g_as.open_from = resp; g_as.open_from_sig = 0;
	__CPROVER_assert((const void *)resp == (const void *)&g_as_aresp, "C07: the signature builder is opened from the AGGREGATION RESPONSE stored for this handle (not from another kind of object)");
	g_as.open_res = as_status();
	if (g_as.open_res == KSI_OK) { g_as_builder.noVerify = 0; g_as_builder.sig = &g_as_sig; *builder = &g_as_builder; }
	return g_as.open_res;
}
/* works on a CLONE of the source (contract enforced on the real body: C08.builder_openFromSignature) */
int KSI_SignatureBuilder_openFromSignature(const KSI_Signature *sig, KSI_SignatureBuilder **builder) {
	g_as.open_calls++; g_as.open_from = sig; g_as.open_from_sig = 1;
	g_as.open_res = as_status();
	if (g_as.open_res == KSI_OK) { g_as_builder.noVerify = 0; g_as_builder.sig = &g_as_clone; *builder = &g_as_builder; }
	return g_as.open_res;
}
int KSI_AggregationReq_getRequestLevel(const KSI_AggregationReq *r, KSI_Integer **l) {
	g_as.getlvl_calls++; g_as.getlvl_req = r; g_as.getlvl_res = (r == NULL || l == NULL) ? KSI_INVALID_ARGUMENT : as_status();
	if (g_as.getlvl_res == KSI_OK) *l = r->requestLevel;
	return g_as.getlvl_res;
}
int KSI_AggregationReq_getRequestHash(const KSI_AggregationReq *r, KSI_DataHash **h) {
	g_as.gethash_calls++; g_as.gethash_req = r; g_as.gethash_res = (r == NULL || h == NULL) ? KSI_INVALID_ARGUMENT : as_status();
	if (g_as.gethash_res == KSI_OK) *h = r->requestHash;
	return g_as.gethash_res;
}
KSI_uint64_t KSI_Integer_getUInt64(const KSI_Integer *o) { return o != NULL ? o->value : 0; }   /* = types_base.c:597 */
int KSI_ExtendResp_getCalendarHashChain(const KSI_ExtendResp *t, KSI_CalendarHashChain **c) {
	g_as.getchain_calls++; g_as.getchain_resp = t;
	__CPROVER_assert((const void *)t == (const void *)&g_as_eresp, "C08: the calendar chain is taken from the EXTENDER RESPONSE stored for this handle (not from another kind of object)");
	g_as.getchain_res = (t == NULL || c == NULL) ? KSI_INVALID_ARGUMENT : as_status();
	if (g_as.getchain_res == KSI_OK) *c = ((const void *)t == (const void *)&g_as_eresp) ? g_as_eresp.calendarHashChain : NULL;
	return g_as.getchain_res;
}
int KSI_CalendarHashChain_verifyCompatibilityTo(const KSI_CalendarHashChain *a, const KSI_CalendarHashChain *b) {
	g_as.compat_calls++; g_as.compat_a = a; g_as.compat_b = b; return g_as.compat_res = as_status();
}
int KSI_SignatureBuilder_applyCalendarHashChain(KSI_SignatureBuilder *builder, KSI_CalendarHashChain *cal) {
	g_as.apply_calls++; g_as.apply_builder = builder; g_as.apply_chain = cal;
	if (builder != NULL && builder->sig == &g_as_source) g_as.source_touched = 1;
	return g_as.apply_res = as_status();
}
int KSI_SignatureBuilder_close(KSI_SignatureBuilder *builder, KSI_uint64_t rootLevel, KSI_Signature **sig) {
	g_as.close_calls++; g_as.close_builder = builder; g_as.close_level = rootLevel;
	g_as.close_noVerify = builder != NULL ? builder->noVerify : -1;
	g_as.close_res = as_status();
	if (g_as.close_res == KSI_OK) *sig = &g_as_sig;
	return g_as.close_res;
}
int KSI_PublicationRecord_clone(const KSI_PublicationRecord *rec, KSI_PublicationRecord **clone) {
	g_as.clone_calls++; g_as.clone_from = rec; g_as.clone_res = as_status();
	if (g_as.clone_res == KSI_OK) *clone = &g_as_pubclone;
	return g_as.clone_res;
}
/* on OK the signature owns the record */
int KSI_Signature_replacePublicationRecord(KSI_Signature *sig, KSI_PublicationRecord *pubRec) {
	g_as.replace_calls++; g_as.replace_sig = sig; g_as.replace_rec = pubRec;
	if (sig == &g_as_source || pubRec == &g_as_pubrec) g_as.source_touched = 1;
	return g_as.replace_res = as_status();
}
int KSI_Signature_verifyWithPolicy(KSI_Signature *sig, const KSI_DataHash *docHsh, KSI_uint64_t rootLevel, const KSI_Policy *policy, KSI_VerificationContext *context) {
	g_as.verify_calls++; g_as.verify_sig = sig; g_as.verify_hash = docHsh; g_as.verify_level = rootLevel; g_as.verify_policy = policy; g_as.verify_ctx = context;
	g_as.verify_after_replace = g_as.replace_calls > 0;
	if (sig == &g_as_source) g_as.source_touched = 1;
	return g_as.verify_res = as_status();
}
void KSI_SignatureBuilder_free(KSI_SignatureBuilder *b) { if (b != NULL) { if (b == &g_as_builder) g_as.builder_free++; else g_as.foreign_free++; } }
void KSI_Signature_free(KSI_Signature *s) { if (s != NULL) { if (s == &g_as_sig) g_as.sig_free++; else g_as.foreign_free++; if (s == &g_as_source) g_as.source_touched = 1; } }
void KSI_PublicationRecord_free(KSI_PublicationRecord *r) { if (r != NULL) { if (r == &g_as_pubclone) g_as.pubclone_free++; else g_as.foreign_free++; if (r == &g_as_pubrec) g_as.source_touched = 1; } }

#define ENV_ASYNCDEL_SIG_ASSUMED \
	"KSI_SignatureBuilder_openFromAggregationResp / openFromSignature / applyCalendarHashChain / close / free: arbitrary status, recorded; openFromSignature works on a clone (real bodies: C07.builder_openFromAggrResp, C07.builder_addRootLevel, C08.builder_openFromSignature, C08.sb_*)", \
	"KSI_AggregationReq_getRequestLevel / getRequestHash, KSI_ExtendResp_getCalendarHashChain: getters with arbitrary status; KSI_Integer_getUInt64 = types_base.c:597", \
	"KSI_CalendarHashChain_verifyCompatibilityTo: arbitrary recorded verdict (real body: C08.compat_top, C08.compat_rightlinks)", \
	"KSI_PublicationRecord_clone / free, KSI_Signature_replacePublicationRecord: arbitrary status, recorded", \
	"KSI_Signature_verifyWithPolicy: arbitrary recorded verdict (C01/C05); KSI_Signature_free: counted", \
	"the handle satisfies HSInv (obligations/C07/async_sig.c): what the constructors, addRequest (C13.add_request_*), handleResponse (C13.handle_response_*, C06.async_queue_*) and asyncClient_handleServerConfig (C13.async_server_config) establish - respCtx is NULL, or the response of the handle's own kind with state RESPONSE_RECEIVED, or a configuration with state PUSH_CONFIG_RECEIVED"
#endif
