/* builderS - libcurl as an arbitrary peer for net_http_curl_async.c (C13 HTTP transport jobs, plain mode).       [ASSUMED]
 *
 * Easy handles: T3_NE model objects; life cycle unused -> live (curl_easy_init) -> cleaned (curl_easy_cleanup), "added" while
 * attached to the multi handle.  Counters per handle: add / remove / cleanup / reset calls.  curl_easy_setopt records the options the
 * property talks about (PRIVATE, WRITEDATA, WRITEFUNCTION, POSTFIELDS, POSTFIELDSIZE); curl_easy_getinfo(PRIVATE) returns what was
 * set (libcurl contract), RESPONSE_CODE an arbitrary status or an error.
 * curl_multi_perform: arbitrary result; for every attached, unfinished transfer it may deliver ONE chunk of 1..T3_CHUNK arbitrary
 * octets through the recorded write call-back with the recorded WRITEDATA (a short count from the call-back ends the transfer with
 * CURLE_WRITE_ERROR) and may finish the transfer with an arbitrary CURLcode.  curl_multi_info_read reports each finished transfer once.
 * Include AFTER env/ghost_tcp2.h (with T2_NO_RECV_SIDE): request queue model, clock, KSI_AsyncHandle_free are shared. */
#ifndef ENV_GHOST_CURL_H
#define ENV_GHOST_CURL_H
#include <stdarg.h>
#include <curl/curl.h>

#ifndef T3_NE
#define T3_NE 3
#endif
#ifndef T3_CHUNK
#define T3_CHUNK 4
#endif
struct t3_easy_st { int x; };
struct t3_easy_st t3_e[T3_NE];
enum { T3_UNUSED = 0, T3_LIVE = 1, T3_CLEANED = 2 };
int t3_state[T3_NE]; _Bool t3_added[T3_NE], t3_done[T3_NE], t3_reported[T3_NE]; int t3_result[T3_NE]; long t3_http[T3_NE];
unsigned long long t3_chunk_bytes[T3_NE];
unsigned t3_add_calls[T3_NE], t3_remove_calls[T3_NE], t3_cleanup_calls[T3_NE], t3_reset_calls[T3_NE], t3_chunks[T3_NE];
void *t3_private[T3_NE], *t3_writedata[T3_NE], *t3_postfields[T3_NE]; long t3_postsize[T3_NE]; _Bool t3_writefn_ok[T3_NE]; _Bool t3_post[T3_NE];
unsigned t3_ninit, t3_init_calls, t3_perform_calls, t3_info_calls; int t3_multi_obj; int t3_add_res, t3_perform_res, t3_running;
_Bool t3_getinfo_code_fails;
static size_t curlCallback_receive(char *ptr, size_t size, size_t nmemb, void *userdata);

static int t3_idx(CURL *h) { int i; for (i = 0; i < T3_NE; i++) if (h == (CURL *)&t3_e[i]) return i; return -1; }

CURL *curl_easy_init(void) {
	int i;
	t3_init_calls++;
	if (nondet_bool()) return NULL;
	__CPROVER_assert(t3_ninit < T3_NE, "MACHINERY: easy handle pool of the model too small");
	i = (int)t3_ninit++; t3_state[i] = T3_LIVE; t3_added[i] = 0; t3_done[i] = 0; t3_reported[i] = 0; t3_private[i] = NULL; t3_writedata[i] = NULL; t3_writefn_ok[i] = 0;
	return (CURL *)&t3_e[i];
}
void curl_easy_reset(CURL *h) {
	int i = t3_idx(h);
	__CPROVER_assert(i >= 0 && t3_state[i] == T3_LIVE && !t3_added[i], "curl_easy_reset: a live handle that is not attached to the multi handle");
	if (i >= 0) { t3_reset_calls[i]++; t3_private[i] = NULL; t3_writedata[i] = NULL; t3_writefn_ok[i] = 0; t3_postfields[i] = NULL; t3_done[i] = 0; t3_reported[i] = 0; t3_chunks[i] = 0; }
}
void curl_easy_cleanup(CURL *h) {
	int i = t3_idx(h);
	__CPROVER_assert(i >= 0 && t3_state[i] == T3_LIVE, "curl_easy_cleanup: every easy handle is released exactly once");
	__CPROVER_assert(i < 0 || !t3_added[i], "curl_easy_cleanup: not while attached to the multi handle");
	if (i >= 0) { t3_state[i] = T3_CLEANED; t3_cleanup_calls[i]++; }
}
CURLcode curl_easy_setopt(CURL *h, CURLoption opt, ...) {
	int i = t3_idx(h); va_list ap;
	__CPROVER_assert(i >= 0 && t3_state[i] == T3_LIVE && !t3_added[i], "curl_easy_setopt: on a live handle before it is attached");
	if (i < 0) return CURLE_BAD_FUNCTION_ARGUMENT;
	va_start(ap, opt);
	if (opt == CURLOPT_PRIVATE) t3_private[i] = va_arg(ap, void *);
	else if (opt == CURLOPT_WRITEDATA) t3_writedata[i] = va_arg(ap, void *);
	else if (opt == CURLOPT_POSTFIELDS) t3_postfields[i] = va_arg(ap, void *);
	else if (opt == CURLOPT_POSTFIELDSIZE) t3_postsize[i] = va_arg(ap, long);
	else if (opt == CURLOPT_POST) t3_post[i] = (va_arg(ap, int) != 0);
	else if (opt == CURLOPT_WRITEFUNCTION) { void *f = va_arg(ap, void *); t3_writefn_ok[i] = (f == (void *)curlCallback_receive); }
	va_end(ap);
	return CURLE_OK;
}
CURLcode curl_easy_getinfo(CURL *h, CURLINFO info, ...) {
	int i = t3_idx(h); va_list ap; CURLcode r = CURLE_OK;
	__CPROVER_assert(i >= 0 && t3_state[i] == T3_LIVE, "curl_easy_getinfo: on a live handle");
	if (i < 0) return CURLE_BAD_FUNCTION_ARGUMENT;
	va_start(ap, info);
	if (info == CURLINFO_PRIVATE) { char **o = va_arg(ap, char **); *o = (char *)t3_private[i]; }
	else if (info == CURLINFO_RESPONSE_CODE) { long *o = va_arg(ap, long *); if (t3_getinfo_code_fails) r = CURLE_UNKNOWN_OPTION; else *o = t3_http[i]; }
	else __CPROVER_assert(0, "curl_easy_getinfo: only PRIVATE and RESPONSE_CODE are used");
	va_end(ap);
	return r;
}
CURLMcode curl_multi_add_handle(CURLM *m, CURL *h) {
	int i = t3_idx(h);
	__CPROVER_assert(m == (CURLM *)&t3_multi_obj, "curl_multi_add_handle: the client's multi handle");
	__CPROVER_assert(i >= 0 && t3_state[i] == T3_LIVE && !t3_added[i], "curl_multi_add_handle: a live easy handle is attached at most once at a time");
	if (i >= 0) t3_add_calls[i]++;
	if (t3_add_res != CURLM_OK) return (CURLMcode)t3_add_res;
	if (i >= 0) { t3_added[i] = 1; t3_done[i] = 0; t3_reported[i] = 0; }
	return CURLM_OK;
}
CURLMcode curl_multi_remove_handle(CURLM *m, CURL *h) {
	int i = t3_idx(h);
	__CPROVER_assert(m == (CURLM *)&t3_multi_obj, "curl_multi_remove_handle: the client's multi handle");
	__CPROVER_assert(i >= 0 && t3_state[i] == T3_LIVE && t3_added[i], "curl_multi_remove_handle: an attached easy handle is detached exactly once");
	if (i >= 0) { t3_remove_calls[i]++; t3_added[i] = 0; }
	return CURLM_OK;
}
const char *curl_multi_strerror(CURLMcode c) { return "m"; }
CURLMcode curl_multi_perform(CURLM *m, int *running) {
	int i;
	__CPROVER_assert(m == (CURLM *)&t3_multi_obj && running != NULL, "curl_multi_perform: the client's multi handle");
	t3_perform_calls++;
	if (t3_perform_calls == 1 && nondet_bool()) return CURLM_CALL_MULTI_PERFORM;       /* at most once (bound) */
	for (i = 0; i < T3_NE; i++) if (t3_state[i] == T3_LIVE && t3_added[i] && !t3_done[i]) {
		if (nondet_bool()) {                                                        /* a chunk of the reply arrives */
			char chunk[T3_CHUNK]; size_t n = nondet_size(), k, r;
			__CPROVER_assume(n >= 1 && n <= T3_CHUNK);
			for (k = 0; k < T3_CHUNK; k++) chunk[k] = (char)nondet_uchar();
			__CPROVER_assert(t3_writefn_ok[i], "transfer: the write call-back of this client is installed");
			t3_chunks[i]++;
			r = curlCallback_receive(chunk, 1, n, t3_writedata[i]);
			if (r != n) { t3_done[i] = 1; t3_result[i] = CURLE_WRITE_ERROR; continue; }
			t3_chunk_bytes[i] += n;
		}
		if (nondet_bool()) { t3_done[i] = 1; t3_result[i] = nondet_int(); }
	}
	*running = t3_running;
	return (CURLMcode)t3_perform_res;
}
static CURLMsg t3_msg;
CURLMsg *curl_multi_info_read(CURLM *m, int *left) {
	int i;
	__CPROVER_assert(m == (CURLM *)&t3_multi_obj && left != NULL, "curl_multi_info_read: the client's multi handle");
	t3_info_calls++;
	for (i = 0; i < T3_NE; i++) if (t3_state[i] == T3_LIVE && t3_added[i] && t3_done[i] && !t3_reported[i]) {
		t3_reported[i] = 1; t3_msg.msg = CURLMSG_DONE; t3_msg.easy_handle = (CURL *)&t3_e[i]; t3_msg.data.result = (CURLcode)t3_result[i];
		*left = 0;
		return &t3_msg;
	}
	*left = 0;
	return NULL;
}
#endif
