/* Contract of the public wrapper KSI_CalendarHashChain_calculateAggregationTime (hashchain.c:452), used by C08.
 * Ghost machine: env/ghost_caltime.h / spec/caltime.h (C03).  The job C08.calAggrTime enforces it on the real
 * wrapper with the real calculateCalendarAggregationTime inlined under the C03 loop invariant; the job
 * C08.ext_verifyWithRequest replaces the call by it.
 *   OK  => the chain has links and a publication time, the reference walk over the whole list accepts and
 *          *aggrTime is the reference time;      not OK => *aggrTime untouched. */
int KSI_CalendarHashChain_calculateAggregationTime(const KSI_CalendarHashChain *chain, time_t *aggrTime)
__CPROVER_requires(aggrTime == NULL || __CPROVER_is_fresh(aggrTime, sizeof(*aggrTime)))
__CPROVER_requires(g_cal_calls == 0 && !g_cal.rejected && g_cal.t == 0)
__CPROVER_requires(chain == NULL || chain->publicationTime == NULL || g_cal.r == (long long)chain->publicationTime->value)
__CPROVER_ensures(IMPLIES(__CPROVER_return_value == KSI_OK,
		chain != NULL && aggrTime != NULL && chain->hashChain != NULL && chain->publicationTime != NULL &&
		g_cal_len > 0 && g_cal_calls == g_cal_len && spec_cal_accepts(&g_cal) && *aggrTime == (time_t)g_cal.t))
__CPROVER_ensures(IMPLIES(__CPROVER_return_value != KSI_OK && aggrTime != NULL, *aggrTime == __CPROVER_old(*aggrTime)))
__CPROVER_ensures(IMPLIES(chain != NULL && aggrTime != NULL && chain->hashChain != NULL && chain->publicationTime != NULL &&
		g_cal_len > 0 && g_cal_calls == g_cal_len && spec_cal_accepts(&g_cal), __CPROVER_return_value == KSI_OK))
__CPROVER_assigns(*aggrTime, g_cal, g_cal_calls, g_cal_link);
