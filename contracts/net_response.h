/* Contracts for net.c KSI_RequestHandle_getAggregationResponse / KSI_RequestHandle_getExtendResponse (C06).
 * Ghost: env/c06_net.h.  "Content" = the response object handed out through *resp and the configuration
 * handed to the user's configuration call-back.
 *
 * OK  =>  the received bytes of the handle were parsed ∧ the PDU has no error element ∧ header and MAC are
 *         present ∧ the MAC of THAT pdu was verified under the endpoint key (verify/verifyHmac said OK)
 *         ∧ the handle has a request context.
 * Content is delivered only on that path: *resp is written only when OK is returned; the call-back is
 * only called after the successful verification, with the configuration of the verified PDU.
 * The delivered object is detached from the PDU before the PDU is released; the PDU is released exactly once.
 */
#define C06_NET_CONTRACT(FN, RESP, ENDPOINT) \
int FN(const KSI_RequestHandle *handle, RESP **resp) \
__CPROVER_requires(g_net.parse_calls == 0 && g_net.verify_calls == 0 && g_net.verified == 0 && g_net.pdu_free_calls == 0 && \
		g_net.cb_calls == 0 && g_net.cb_before_verify == 0 && g_net.resp_free_calls == 0 && g_net.conf_free_calls == 0 && \
		g_net.resp_new_calls == 0 && g_net.pdu == NULL) \
/* E1: OK => verified path, or the quirk path (an error PDU whose status is 0: nothing verified, nothing delivered) */ \
__CPROVER_ensures(IMPLIES(__CPROVER_return_value == KSI_OK, \
		g_net.parse_calls == 1 && g_net.parse_res == KSI_OK && \
		g_net.parse_raw == handle->response && g_net.parse_len == handle->response_length && \
		((!g_net.orig_has_error && g_net.orig_has_header && g_net.orig_has_hmac && \
		  g_net.verify_calls == 1 && g_net.verify_res == KSI_OK && g_net.verified && g_net.verify_pdu == g_net.pdu && \
		  g_net.verify_key == handle->client->ENDPOINT->ksi_pass && handle->reqCtx != NULL) || \
		 (g_net.orig_has_error && g_net_o.err_status.value == 0 && g_net.verify_calls == 0)))) \
/* E2: no content without verification (the statement of the property) */ \
__CPROVER_ensures(IMPLIES(!g_net.verified, g_net.cb_calls == 0 && (resp == NULL || *resp == __CPROVER_old(*resp)))) \
__CPROVER_ensures(IMPLIES(g_net.verify_calls > 0, g_net.verify_calls == 1 && g_net.verify_pdu == g_net.pdu && g_net.pdu != NULL && \
		!g_net.orig_has_error && g_net.verify_key == handle->client->ENDPOINT->ksi_pass)) \
/* E3: no content with an error return */ \
__CPROVER_ensures(IMPLIES(__CPROVER_return_value != KSI_OK && resp != NULL, *resp == __CPROVER_old(*resp))) \
__CPROVER_ensures(IMPLIES(g_net.cb_calls > 0, g_net.cb_calls == 1 && !g_net.cb_before_verify && g_net.verified && \
		g_net.cb_conf == g_net.orig_conf && g_net.cb_conf != NULL)) \
/* E5: what is delivered: the response element of the verified PDU, or a new response holding its configuration */ \
__CPROVER_ensures(IMPLIES(__CPROVER_return_value == KSI_OK && g_net.verified && *resp != NULL, \
		(void *)*resp == g_net.orig_response || ((*resp)->m.is_new && g_net.orig_response == NULL && (*resp)->m.config == g_net.orig_conf))) \
__CPROVER_ensures(IMPLIES(__CPROVER_return_value == KSI_OK && g_net.verified && *resp != NULL && (*resp)->m.config != NULL, (*resp)->m.config == g_net.orig_conf)) \
/* ownership */ \
__CPROVER_ensures(g_net.pdu_free_calls == (g_net.parse_calls == 1 && g_net.parse_res == KSI_OK ? 1 : 0)) \
__CPROVER_ensures(IMPLIES(__CPROVER_return_value == KSI_OK && g_net.verified, g_net.pdu_freed_response == NULL && g_net.resp_free_calls == 0)) \
__CPROVER_ensures(IMPLIES(__CPROVER_return_value == KSI_OK && g_net.verified && *resp != NULL && (*resp)->m.config != NULL, \
		g_net.pdu_freed_conf == NULL && g_net.conf_free_calls == 0)) \
__CPROVER_ensures(IMPLIES(g_net.cb_calls == 1 && g_net.cb_res != KSI_OK, __CPROVER_return_value == g_net.cb_res)) \
__CPROVER_assigns(*resp, g_net, g_net_o);

#pragma CPROVER check push
#pragma CPROVER check disable "pointer"
#pragma CPROVER check disable "pointer-primitive"
#ifdef C06_NET_AGGR
C06_NET_CONTRACT(KSI_RequestHandle_getAggregationResponse, KSI_AggregationResp, aggregator)
#endif
#ifdef C06_NET_EXT
C06_NET_CONTRACT(KSI_RequestHandle_getExtendResponse, KSI_ExtendResp, extender)
#endif
#pragma CPROVER check pop
