/* C17 lift (builderV): KSI_base32Encode for EVERY data length, one compile-time group length LIFT_G per job.
 *
 * Included after contracts/base32_codec.h (the contracts of makeMask / readNextBits enforced by C17.b32.makeMask /
 * C17.b32.readNextBits are reused unchanged; the harness renames that header's bounded KSI_base32Encode contract away)
 * and before the real base32.c.
 *
 * Index arithmetic in carry form - no division by the group length and no division of bit counts in the statement:
 *   data_len          = 5 * g_l_c - g_l_e          (g_l_c >= 1 blocks of 40 bits, g_l_e in 0..4 bytes missing in the last one);
 *                       the harness CONSTRUCTS data_len that way, so P = 8 * g_l_c is the padded symbol count and
 *                       40 * g_l_c the bit position at which the pad loop stops;
 *   witness position  = (g_l_wq, g_l_wr): group number and character inside the group (g_l_wr == LIFT_G: the separator
 *                       behind the group); output index g_l_j = (LIFT_G + 1) * g_l_wq + g_l_wr, sequence position
 *                       g_l_k = LIFT_G * g_l_wq + g_l_wr   (LIFT_G == 0: g_l_j == g_l_k == g_l_wq, g_l_wr == 0);
 *   g_l_exp           = the reference character (spec/base32.h spec_b32_seq resp. '-') at that position.
 * The harness asserts that this pair form agrees with spec_b32_pos() of spec/base32.h (obligation "carry form ..."). */
#ifndef LIFT_G
#error "LIFT_G (group length of this job) must be defined"
#endif

size_t g_l_c, g_l_e;
size_t g_l_wq, g_l_wr;
size_t g_l_j, g_l_k;
char g_l_exp;

#define LIFT_CMAX 219902325555ul          /* floor(2^40 / 5): data_len < 2^40 (precondition of readNextBits' contract) */

int KSI_base32Encode(const unsigned char *data, size_t data_len, size_t group_len, char **encoded)
__CPROVER_requires(group_len == LIFT_G)
__CPROVER_requires(g_l_c >= 1 && g_l_c <= LIFT_CMAX && g_l_e < 5 && data_len == 5 * g_l_c - g_l_e)
__CPROVER_requires(__CPROVER_is_fresh(data, data_len))
__CPROVER_requires(__CPROVER_is_fresh(encoded, sizeof(*encoded)))
__CPROVER_requires(g_l_wq <= ((size_t)1 << 42) && (LIFT_G > 0 ? g_l_wr <= LIFT_G : g_l_wr == 0))
__CPROVER_requires(g_l_j == (LIFT_G + 1) * g_l_wq + g_l_wr && g_l_k == LIFT_G * g_l_wq + g_l_wr + (LIFT_G > 0 ? 0 : g_l_wq))
/* definition of the ghost g_l_exp: the reference character at the witness position */
__CPROVER_requires(IMPLIES(LIFT_G > 0 && g_l_wr == LIFT_G, g_l_exp == '-'))
__CPROVER_requires(IMPLIES(!(LIFT_G > 0 && g_l_wr == LIFT_G) && g_l_k < 8 * g_l_c, g_l_exp == spec_b32_seq(data, data_len, g_l_k)))
__CPROVER_assigns(*encoded)
__CPROVER_ensures(__CPROVER_return_value == KSI_OK || __CPROVER_return_value == KSI_OUT_OF_MEMORY)
__CPROVER_ensures(IMPLIES(__CPROVER_return_value != KSI_OK, *encoded == __CPROVER_old(*encoded)))
__CPROVER_ensures(IMPLIES(__CPROVER_return_value == KSI_OK, *encoded != NULL))
/* NUL exactly at the reference length (original, division form of spec/base32.h) */
__CPROVER_ensures(IMPLIES(__CPROVER_return_value == KSI_OK, (*encoded)[spec_b32_strlen(data_len, group_len)] == '\0'))
/* every character before it is the reference character (witness index; never NUL, so the C string has exactly that length) */
__CPROVER_ensures(IMPLIES(__CPROVER_return_value == KSI_OK && g_l_j < spec_b32_strlen(data_len, group_len), (*encoded)[g_l_j] == g_l_exp));
