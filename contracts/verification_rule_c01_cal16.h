/* C01, INT-16 in contract mode (calendar chains of any length): contracts of getNextLink (left-link scan, world of
 * env/ghost_vrule_cal16.h; the C04 form of this contract lives in contracts/verification_rule_c04_rightlinks.h) and of
 * KSI_VerificationRule_CalendarChainHashAlgorithmObsoleteAtPubTime.  Loop contracts:
 * contracts/verification_rule_c01_cal16.loops.json (the for(;;) loop of calendarChainAggrAlgorithmState takes a loop contract
 * from the JSON file; its obligations carry no source location and are reported in class "assertion"). */
#ifndef CONTRACTS_VERIFICATION_RULE_C01_CAL16_H
#define CONTRACTS_VERIFICATION_RULE_C01_CAL16_H
#include "contracts/verification_rule_c02.h"      /* VR_PRE / VR_POST */

#define G16_FRAME g16, g16_link.isLeft, g16_link.imprint, g_vr_h_alg[VR_H_LINK]

/* getNextLink(list, left, pos, link): from *pos on, the first LEFT link (or none), skipping right links only.
 * Enforced on the real body by C01.int16_getNextLink; replaced in C01.int16. */
static int getNextLink(KSI_HashChainLinkList *list, bool getRight, size_t *pos, KSI_HashChainLink **link)
__CPROVER_requires(list == NULL || list == &g16_list)
__CPROVER_requires(pos != NULL && link != NULL && !getRight)
__CPROVER_requires(list == NULL || (*pos == g16.calls && *pos <= g16_len && !g16.fail && !g16.na && g16_len <= G16_MAX_LIST && g16.lefts <= g16.calls))
__CPROVER_requires((g16.has_imprint ? g16_link.imprint == &g_vr_h[VR_H_LINK] : g16_link.imprint == NULL) && 0 <= g_vr_h_alg[VR_H_LINK] && g_vr_h_alg[VR_H_LINK] <= 255)
/* (audit builderY) BOTH pointer outputs are stated first and unconditionally with __CPROVER_pointer_equals: dfcc havocs a pointer-typed
 * assigns target of a replaced contract with ONE symbol per target shared by all calls of the run, and a loop under a loop contract runs
 * its first iteration concretely and then the step iteration on the same path.  The former clauses
 * '*link == NULL || pointer_equals(*link, &g16_link)' / 'imprint == NULL || pointer_equals(imprint, ..)' tested that shared value: 'a left
 * link at the first iteration, list exhausted (or a link without imprint) at a later one' was infeasible (REACH guards in C01.int16). */
__CPROVER_ensures(__CPROVER_pointer_equals(*link, list == NULL ? (void *)__CPROVER_old(*link) : (*pos < g16_len ? (void *)&g16_link : (void *)0)))
__CPROVER_ensures(__CPROVER_pointer_equals(g16_link.imprint, g16.has_imprint ? (void *)&g_vr_h[VR_H_LINK] : (void *)0))
__CPROVER_ensures(IMPLIES(list == NULL, __CPROVER_return_value == KSI_INVALID_ARGUMENT && *pos == __CPROVER_old(*pos) && g16.calls == __CPROVER_old(g16.calls) && !g16.fail && !g16.na))
__CPROVER_ensures(IMPLIES(list != NULL, __CPROVER_return_value == KSI_OK))
/* found: the element at *pos, a left link, the one handed out last; everything skipped was a right link */
__CPROVER_ensures(IMPLIES(list != NULL && *link != NULL, g16.last_left && g16_link.isLeft != 0 && *pos + 1 == g16.calls && *pos < g16_len && *pos >= __CPROVER_old(*pos)))
/* ... and the monitor's verdict so far stems from that link alone: no imprint - cannot be judged; else obsolete at publication time or not */
__CPROVER_ensures(0 <= g_vr_h_alg[VR_H_LINK] && g_vr_h_alg[VR_H_LINK] <= 255)
__CPROVER_ensures(IMPLIES(list != NULL && *link != NULL, IFF(g16.na, g16_link.imprint == NULL) &&
	IFF(g16.fail, g16_link.imprint != NULL && spec_alg_obsolete_rule_fails(g16_status[g_vr_h_alg[VR_H_LINK]] & 3))))
/* none: the list is exhausted, no left link was passed over */
__CPROVER_ensures(IMPLIES(list != NULL && *link == NULL, *pos == g16_len && g16.calls == g16_len && !g16.fail && !g16.na))
/* (audit builderY) count of left links handed out: +1 when a link is found, unchanged otherwise */
__CPROVER_ensures(g16.lefts == __CPROVER_old(g16.lefts) + ((list != NULL && *link != NULL) ? 1 : 0))
__CPROVER_assigns(*pos, *link, G16_FRAME);

int KSI_VerificationRule_CalendarChainHashAlgorithmObsoleteAtPubTime(KSI_VerificationContext *info, KSI_RuleVerificationResult *result)
__CPROVER_requires(VR_PRE(info, result) && g16.calls == 0 && g16.lefts == 0 && !g16.fail && !g16.na && g16_len <= G16_MAX_LIST)
__CPROVER_requires((g16.has_imprint ? g16_link.imprint == &g_vr_h[VR_H_LINK] : g16_link.imprint == NULL) && 0 <= g_vr_h_alg[VR_H_LINK] && g_vr_h_alg[VR_H_LINK] <= 255)
__CPROVER_ensures(VR_POST(g16_exp(info), result))
/* OK only after the whole chain was read */
__CPROVER_ensures(IMPLIES(result != NULL && VR_INFO_OK(info) && __CPROVER_return_value == KSI_OK && result->resultCode == KSI_VER_RES_OK, g16.calls == g16_len && !g16.fail && !g16.na))
__CPROVER_assigns(result != NULL: *result; G16_FRAME);
#endif
