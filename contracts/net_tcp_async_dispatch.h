/* C14: contract of net_tcp_async.c dispatch() and of the two static helpers it is verified against. */

/* opening the connection: arbitrary outcome (getaddrinfo/socket/connect are the network) */
static int openSocket(TcpAsyncCtx *tcpCtx, int *sockfd)
__CPROVER_requires(tcpCtx != NULL && sockfd == &tcpCtx->sockfd)
__CPROVER_ensures(IMPLIES(__CPROVER_return_value == KSI_OK, *sockfd >= 0))
__CPROVER_ensures(IMPLIES(__CPROVER_return_value != KSI_OK, *sockfd == __CPROVER_old(*sockfd)))
__CPROVER_assigns(*sockfd, tcpCtx->connectedAt);

/* every queued request ends with the given network error (enforced by job C14.clearWithError) */
static void reqQueue_clearWithError(KSI_LIST(KSI_AsyncHandle) *reqQueue, int err, long ext, char *msg)
__CPROVER_requires(reqQueue != NULL && err != KSI_OK)
__CPROVER_ensures(g_q_len == 0 || g_tcp_env_failed)
__CPROVER_assigns(g_q_len, g_req, g_q_removed, g_req_len0, g_tcp_env_failed);

static int dispatch(TcpAsyncCtx *tcpCtx)
__CPROVER_requires(tcpCtx == g_tcp_p && g_inbuf_p == tcpCtx->inBuf && g_inlen_p == &tcpCtx->inLen && g_inbuf_size == sizeof(tcpCtx->inBuf))
__CPROVER_requires(tcpCtx->inLen <= sizeof(tcpCtx->inBuf) && g_in == g_out + tcpCtx->inLen && g_in < 0x7fffffffffffffffULL - 0x100000)
__CPROVER_requires(!g_pending && !g_peer_closed && !g_sock_closed && !g_tcp_env_failed)
__CPROVER_requires(tcpCtx->sockfd >= -1 && (tcpCtx->sockfd != -1 || (tcpCtx->inLen == 0 && !tcpCtx->socketReady)))
__CPROVER_requires(g_q_len == 0 || (g_req.raw == g_req_raw_p && g_req.sentCount <= g_req.len && g_req.len == g_req_len0))
/* stream accounting: what is buffered is exactly what was received and not yet delivered - nothing lost, nothing duplicated;
 * after the connection ended the buffer is empty (partial data is never delivered later) */
__CPROVER_ensures(tcpCtx->inLen <= sizeof(tcpCtx->inBuf))
__CPROVER_ensures(IMPLIES(tcpCtx->sockfd != -1, g_in == g_out + tcpCtx->inLen && !g_pending))
__CPROVER_ensures(IMPLIES(tcpCtx->sockfd == -1, tcpCtx->inLen == 0 && !tcpCtx->socketReady))
/* a peer close / reset ends with the connection closed and a network error, never silently */
__CPROVER_ensures(IMPLIES(g_peer_closed, g_sock_closed && tcpCtx->sockfd == -1 && __CPROVER_return_value == KSI_ASYNC_CONNECTION_CLOSED))
/* would-block results fail nothing */
__CPROVER_ensures(IMPLIES(!g_peer_closed && !g_sock_closed && !g_tcp_env_failed, __CPROVER_return_value == KSI_OK || __CPROVER_return_value == KSI_ASYNC_CONNECTION_CLOSED))
/* the head request keeps its partial-send position consistent */
__CPROVER_ensures(g_q_len == 0 || (g_req.sentCount <= g_req.len))
__CPROVER_assigns(tcpCtx->inLen, tcpCtx->sockfd, tcpCtx->socketReady, tcpCtx->roundCount, tcpCtx->roundStartAt, tcpCtx->connectedAt, g_recv_calls, g_req_raw_p, g_in, g_out, g_delivered, g_errno, g_peer_closed, g_sock_closed, g_pending, g_pending_count, g_tcp_env_failed,
		g_q_len, g_req, g_q_removed, g_req_len0, g_sent_total);
