/* Contracts of blocksigner.c: KSI_BlockSigner_closeAndSign and KSI_BlockSignerHandle_getSignature (C16, builderQ).
 * ORCHESTRATION contracts: every callee is a recording stub of env/q_bsign_env.h; the contracts state WHICH callee
 * is called, in which order, with which arguments, and what the signer / the out-parameter look like afterwards.
 * Include AFTER `#include "blocksigner.c"` (the structs are private to that file).
 *
 * State invariant of a block signer used below (INV_SIGNED_IS_CLOSED): signature != NULL => the builder is closed.
 *   KSI_BlockSigner_new / _reset give signature == NULL (C16.bs_new / C16.bs_reset: BS_FRESH), addLeaf leaves the
 *   signature alone (C19.bs_addLeaf L3), closeAndSign re-establishes it (ensures below). */
#ifndef CONTRACTS_BLOCKSIGNER_QSIGN_H
#define CONTRACTS_BLOCKSIGNER_QSIGN_H

#define QB_NO_CALLS (g_qb_seq == 0 && g_qb_tbclose_calls == 0 && g_qb_sign_calls == 0 && g_qb_chain_calls == 0 && g_qb_node_calls == 0 && \
	g_qb_open_calls == 0 && g_qb_start_calls == 0 && g_qb_append_calls == 0 && g_qb_sbclose_calls == 0 && g_qb_sbfree_calls == 0 && g_qb_sigfree_calls == 0)
#define QB_GHOSTS g_qb_live, g_qb_seq, g_qb_alloc_failed, \
	g_qb_tbclose_calls, g_qb_tbclose_seq, g_qb_tbclose_arg, g_qb_tbclose_res, g_qb_root, \
	g_qb_sign_calls, g_qb_sign_seq, g_qb_sign_res, g_qb_sign_ctx, g_qb_sign_hash, g_qb_sign_level, g_qb_sign_policy, g_qb_sign_vctx, g_qb_sign_out, g_qb_sign_prev, g_qb_sign_made, \
	g_qb_sigfree_calls, g_qb_sigfree_last, g_qb_chain_calls, g_qb_chain_seq, g_qb_chain_arg, g_qb_chain_made, g_qb_node_calls, g_qb_node_arg, \
	g_qb_open_calls, g_qb_open_seq, g_qb_open_arg, g_qb_sb_made, g_qb_clone_made, g_qb_sbfree_calls, \
	g_qb_start_calls, g_qb_start_seq, g_qb_start_arg, g_qb_start_lvl, g_qb_append_calls, g_qb_append_seq, g_qb_append_arg, g_qb_append_chain, \
	g_qb_sbclose_calls, g_qb_sbclose_seq, g_qb_sbclose_arg, g_qb_sbclose_lvl, g_qb_sbclose_made

int KSI_BlockSigner_closeAndSign(KSI_BlockSigner *signer)
__CPROVER_requires(g_qb_tb != NULL && (signer == NULL || (signer->builder == g_qb_tb && signer->ref >= 1)))
/* INV_SIGNED_IS_CLOSED */
__CPROVER_requires(signer == NULL || signer->signature == NULL || (signer->builder->rootNode != NULL && signer->signature->ref == 1))
__CPROVER_requires(QB_NO_CALLS && g_qb_live >= 0 && g_qb_live < 1000)
/* (S0) no signer: refused, nothing is called */
__CPROVER_ensures(IMPLIES(signer == NULL, __CPROVER_return_value == KSI_INVALID_ARGUMENT && g_qb_seq == 0))
/* (S1) the signer's OWN builder is closed, exactly once, before anything else */
__CPROVER_ensures(IMPLIES(signer != NULL, g_qb_tbclose_calls == 1 && g_qb_tbclose_arg == signer->builder && g_qb_tbclose_seq == 1))
/* (S2) a failed close is reported as it is, nothing is signed */
__CPROVER_ensures(IMPLIES(signer != NULL && g_qb_tbclose_res != KSI_OK, __CPROVER_return_value == g_qb_tbclose_res && g_qb_sign_calls == 0))
/* (S3) after a successful close exactly one signing request: the ROOT hash with the ROOT level, in the signer's context,
 *      internal policy, result stored into the signer; no earlier signature is overwritten (it would leak) */
__CPROVER_ensures(IMPLIES(signer != NULL && g_qb_tbclose_res == KSI_OK,
		g_qb_sign_calls == 1 && g_qb_sign_seq == 2 && g_qb_sign_ctx == signer->ctx &&
		signer->builder->rootNode != NULL && g_qb_sign_hash == signer->builder->rootNode->hash &&
		g_qb_sign_level == (KSI_uint64_t)signer->builder->rootNode->level &&
		g_qb_sign_policy == KSI_VERIFICATION_POLICY_INTERNAL && g_qb_sign_vctx == NULL &&
		g_qb_sign_out == &signer->signature && g_qb_sign_prev == NULL &&
		__CPROVER_return_value == g_qb_sign_res))
/* (S4) success: the signer keeps the signature that was produced (one reference, one more live object) */
__CPROVER_ensures(IMPLIES(__CPROVER_return_value == KSI_OK,
		signer != NULL && g_qb_tbclose_res == KSI_OK && g_qb_sign_calls == 1 && g_qb_sign_res == KSI_OK &&
		signer->signature == g_qb_sign_made && signer->signature != NULL && signer->signature->ref == 1 &&
		g_qb_live == __CPROVER_old(g_qb_live) + 1))
/* (S5) failure: no stale or half-made signature, nothing leaked, nothing released */
__CPROVER_ensures(IMPLIES(__CPROVER_return_value != KSI_OK && signer != NULL,
		signer->signature == __CPROVER_old(signer->signature) && g_qb_live == __CPROVER_old(g_qb_live) && g_qb_sigfree_calls == 0))
/* (S6) the invariant is kept and the rest of the signer is untouched: it can be reset / freed as before */
__CPROVER_ensures(signer == NULL || signer->signature == NULL || signer->builder->rootNode != NULL)
__CPROVER_ensures(signer == NULL || (signer->builder == __CPROVER_old(signer->builder) && signer->ref == __CPROVER_old(signer->ref) &&
		signer->ctx == __CPROVER_old(signer->ctx) && signer->prevLeaf == __CPROVER_old(signer->prevLeaf) &&
		signer->origPrevLeaf == __CPROVER_old(signer->origPrevLeaf) && signer->iv == __CPROVER_old(signer->iv) &&
		signer->metaData == __CPROVER_old(signer->metaData) && signer->hsr == __CPROVER_old(signer->hsr)))
/* (S7) a failed close leaves the builder open / as it was (with C16.close: nothing of the tree is lost) */
__CPROVER_ensures(IMPLIES(signer != NULL && g_qb_tbclose_res != KSI_OK, g_qb_tb->rootNode == __CPROVER_old(g_qb_tb->rootNode)))
__CPROVER_assigns(signer != NULL: signer->signature; g_qb_tb->rootNode; QB_GHOSTS);

/* the handle's leaf node and the root signature, as the harness built them */
#define QB_NODE (g_qb_lh->node)
#define QB_ROOTSIG (g_qb_signer->signature)

int KSI_BlockSignerHandle_getSignature(const KSI_BlockSignerHandle *handle, KSI_Signature **sig)
/* handles are made by KSI_BlockSigner_addLeaf (C19.bs_addLeaf L4: signer and leaf handle set) */
__CPROVER_requires(g_qb_signer != NULL && g_qb_lh != NULL)
__CPROVER_requires(handle == NULL || (handle->signer == g_qb_signer && handle->leafHandle == g_qb_lh && handle->ref >= 1))
__CPROVER_requires(QB_ROOTSIG == NULL || QB_ROOTSIG->ref == 1)
__CPROVER_requires(sig == NULL || sig == &g_qb_sig_out)
__CPROVER_requires(QB_NO_CALLS && g_qb_live >= 0 && g_qb_live < 1000)
/* (G0) bad arguments / a signer that has not been closed and signed: refused, NOTHING is called */
__CPROVER_ensures(IMPLIES(handle == NULL || sig == NULL, __CPROVER_return_value == KSI_INVALID_ARGUMENT && g_qb_seq == 0))
__CPROVER_ensures(IMPLIES(handle != NULL && sig != NULL && __CPROVER_old(QB_ROOTSIG) == NULL, __CPROVER_return_value == KSI_INVALID_STATE && g_qb_seq == 0))
/* (G1) success: the handle's OWN chain was extracted (once), a builder was opened on the ROOT signature (once) */
__CPROVER_ensures(IMPLIES(__CPROVER_return_value == KSI_OK,
		handle != NULL && sig != NULL && QB_ROOTSIG != NULL &&
		g_qb_chain_calls == 1 && g_qb_chain_arg == handle->leafHandle &&
		g_qb_open_calls == 1 && g_qb_open_arg == QB_ROOTSIG &&
		g_qb_node_calls >= 1 && g_qb_node_arg == handle->leafHandle && QB_NODE != NULL))
/* (G2) success: start level == the LEAF's level, set on that builder BEFORE the chain is appended; the chain appended
 *      is the handle's own; the builder is closed last, with the leaf's level again */
__CPROVER_ensures(IMPLIES(__CPROVER_return_value == KSI_OK,
		g_qb_start_calls == 1 && g_qb_start_arg == g_qb_sb_made && g_qb_start_lvl == (KSI_uint64_t)QB_NODE->level &&
		g_qb_append_calls == 1 && g_qb_append_arg == g_qb_sb_made && g_qb_append_chain == g_qb_chain_made &&
		g_qb_start_seq < g_qb_append_seq && g_qb_open_seq < g_qb_start_seq && g_qb_chain_seq < g_qb_append_seq &&
		g_qb_sbclose_calls == 1 && g_qb_sbclose_arg == g_qb_sb_made && g_qb_sbclose_lvl == (KSI_uint64_t)QB_NODE->level &&
		g_qb_append_seq < g_qb_sbclose_seq))
/* (G3) success: the result IS the root signature's clone with the handle's own chain prepended (start level and added
 *      level == the leaf's level); the caller owns its only reference; the chain lives on only inside the result */
__CPROVER_ensures(IMPLIES(__CPROVER_return_value == KSI_OK,
		*sig == g_qb_clone_made && *sig == g_qb_sbclose_made && (*sig)->ref == 1 && (*sig)->from == QB_ROOTSIG &&
		(*sig)->chain == g_qb_chain_made && (*sig)->chain->ref == 1 &&
		(*sig)->chainStartSet && (*sig)->chainStartLevel == (KSI_uint64_t)QB_NODE->level && (*sig)->addedLevel == (KSI_uint64_t)QB_NODE->level &&
		g_qb_sbfree_calls == 1 && g_qb_live == __CPROVER_old(g_qb_live) + 2))
/* (G4) failure: *sig untouched, nothing created by the call survives */
__CPROVER_ensures(IMPLIES(__CPROVER_return_value != KSI_OK,
		(sig == NULL || *sig == __CPROVER_old(*sig)) && g_qb_live == __CPROVER_old(g_qb_live)))
/* (G5) every outcome: the root signature stays with the signer, untouched; the handle is untouched */
__CPROVER_ensures(QB_ROOTSIG == __CPROVER_old(QB_ROOTSIG) && (QB_ROOTSIG == NULL || QB_ROOTSIG->ref == 1))
__CPROVER_ensures(handle == NULL || (handle->signer == __CPROVER_old(handle->signer) && handle->leafHandle == __CPROVER_old(handle->leafHandle) && handle->ref == __CPROVER_old(handle->ref)))
__CPROVER_ensures(IMPLIES(QB_ROOTSIG != NULL && g_qb_sigfree_calls > 0, g_qb_sigfree_last != QB_ROOTSIG))
__CPROVER_assigns(sig != NULL: *sig; QB_GHOSTS);
#endif
