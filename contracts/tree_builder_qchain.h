/* Contracts of tree_builder.c's path extraction for ANY number of ancestors (C16, builderQ).
 * Needs env/q_chain_env.h (ghost walk g_q_walk, witness record g_qw, reference / ownership counters).
 * Include ONCE before `#include "tree_builder.c"` (static getHashChainLinks) and once more after it with
 * QCHAIN_AFTER defined (KSI_TreeLeafHandle_getAggregationChain needs the private struct of the leaf handle).
 *
 * getHashChainLinks is a (tail-)RECURSIVE ancestor walk: it is enforced with --enforce-contract-rec, i.e. the
 * recursive call on node->parent is replaced by this very contract (the induction hypothesis).  The property text
 * "one link per ancestor, in order; link k has direction == side of the child, sibling hash / meta-data,
 * level correction == parent.level - child.level - 1" becomes:
 *   pre : the node IS the cursor of the ghost walk (re-proved at the recursive call: the walk continues at the
 *         PARENT, right after the link of the child has been accepted by the list);
 *   post: OK => the cursor is at the root (every ancestor got its link; links == steps of the walk);
 *         the link accepted at the witness index, if it was accepted during this call, describes its tree
 *         step; a witness outside this call's range is not touched;
 *         every outcome => whatever the call created and did not release belongs to links the list accepted
 *         (nothing leaked, no reference kept, also on failure in the middle of the walk). */
#ifndef QCHAIN_AFTER
#ifndef CONTRACTS_TREE_BUILDER_QCHAIN_H
#define CONTRACTS_TREE_BUILDER_QCHAIN_H

#define QW_GOOD (IFF(g_qw.isLeft, g_qw.childIsLeft) && (g_qw.childIsLeft || g_qw.childIsRight) && \
	g_qw.imprint == g_qw.sibHash && IFF(g_qw.hasMd, g_qw.sibHasMd) && !g_qw.hasLegacy && \
	g_qw.levelsAscend && (long long)g_qw.lc == g_qw.gap && g_qw.child != (const KSI_TreeNode *)0 && g_qw.parent != (const KSI_TreeNode *)0)
#define QW_SAME (IFF(g_qw.isLeft, __CPROVER_old(g_qw.isLeft)) && g_qw.imprint == __CPROVER_old(g_qw.imprint) && \
	IFF(g_qw.hasMd, __CPROVER_old(g_qw.hasMd)) && IFF(g_qw.hasLegacy, __CPROVER_old(g_qw.hasLegacy)) && g_qw.lc == __CPROVER_old(g_qw.lc) && \
	g_qw.child == __CPROVER_old(g_qw.child) && g_qw.parent == __CPROVER_old(g_qw.parent) && \
	IFF(g_qw.childIsLeft, __CPROVER_old(g_qw.childIsLeft)) && IFF(g_qw.childIsRight, __CPROVER_old(g_qw.childIsRight)) && \
	g_qw.sibHash == __CPROVER_old(g_qw.sibHash) && IFF(g_qw.sibHasMd, __CPROVER_old(g_qw.sibHasMd)) && \
	IFF(g_qw.levelsAscend, __CPROVER_old(g_qw.levelsAscend)) && g_qw.gap == __CPROVER_old(g_qw.gap))
/* accounting: created-and-alive == accepted by the list (modular arithmetic on unsigned counters) */
#define Q_BALANCED (g_qc_live - __CPROVER_old(g_qc_live) == g_q_owned - __CPROVER_old(g_q_owned) && \
	g_qc_href - __CPROVER_old(g_qc_href) == g_q_owned_href - __CPROVER_old(g_q_owned_href))

static int getHashChainLinks(const KSI_TreeNode *node, KSI_LIST(KSI_HashChainLink) *links)
__CPROVER_requires(node == NULL || (node == g_q_walk && IFF(g_q_walk_root, node->parent == NULL)))
__CPROVER_requires(links == NULL || links == g_q_list)
/* (1) accepted => the walk has reached the root: every ancestor of the node has got its link, in order */
__CPROVER_ensures(IMPLIES(__CPROVER_return_value == KSI_OK, node != NULL && links != NULL && g_q_walk_root))
/* (2) a node without parent adds nothing and leaves the walk where it is */
__CPROVER_ensures(IMPLIES(__CPROVER_return_value == KSI_OK && __CPROVER_old(g_q_walk_root), g_q_n == __CPROVER_old(g_q_n) && g_q_walk == node &&
		g_q_owned == __CPROVER_old(g_q_owned) && g_q_owned_href == __CPROVER_old(g_q_owned_href)))
/* (3) the witness link (g_q_togo appends ahead when the call starts): if it was accepted during this call it
 *     describes its step of the walk; a record not made in this call is untouched; while the witness has not been
 *     reached every accepted link is counted down exactly once (so: more links than the witness index => recorded) */
__CPROVER_ensures(IMPLIES(__CPROVER_return_value == KSI_OK && g_qw_set && !__CPROVER_old(g_qw_set), QW_GOOD))
__CPROVER_ensures(IMPLIES(__CPROVER_return_value == KSI_OK && !__CPROVER_old(g_qw_set) && __CPROVER_old(g_q_togo) == 0 && !__CPROVER_old(g_q_walk_root), g_qw_set && g_qw.child == node))
__CPROVER_ensures(IMPLIES(IFF(g_qw_set, __CPROVER_old(g_qw_set)), QW_SAME))
__CPROVER_ensures(IMPLIES(__CPROVER_old(g_qw_set), g_qw_set && g_q_togo == __CPROVER_old(g_q_togo)))
__CPROVER_ensures(IMPLIES(!g_qw_set, __CPROVER_old(g_q_togo) - g_q_togo == g_q_n - __CPROVER_old(g_q_n) && g_q_togo <= __CPROVER_old(g_q_togo)))
/* (4) every outcome: nothing the call created survives outside the list; no hash reference is kept elsewhere */
__CPROVER_ensures(Q_BALANCED)
/* (5) bad arguments are refused before anything happens */
__CPROVER_ensures(IMPLIES(node == NULL || links == NULL, __CPROVER_return_value == KSI_INVALID_ARGUMENT && g_q_n == __CPROVER_old(g_q_n) && g_q_walk == __CPROVER_old(g_q_walk)))
/* (6) the walk only moves upwards through accepted links: failure leaves a prefix */
__CPROVER_ensures(g_q_list == __CPROVER_old(g_q_list))
__CPROVER_assigns(g_qc_live, g_qc_href, g_q_owned, g_q_owned_href, g_q_n, g_q_walk, g_q_walk_root, g_qw, g_q_togo, g_qw_set, g_qc_alloc_failed);
#endif
#else  /* QCHAIN_AFTER */
#ifndef CONTRACTS_TREE_BUILDER_QCHAIN_AFTER_H
#define CONTRACTS_TREE_BUILDER_QCHAIN_AFTER_H
/* KSI_TreeLeafHandle_getAggregationChain: the chain of a leaf of ANY depth (getHashChainLinks replaced by the
 * contract above, which C16.q_links enforces on the real body).
 * pre : the ghost walk starts at the handle's leaf (set by the harness: the real code never writes ghost state).
 * post: OK  => *chain is a new chain object holding the list of this call; the walk ended at the root;
 *              input hash == the leaf's hash (one more reference), aggregation algorithm == the builder's;
 *              the call keeps alive exactly: chain + list + algorithm id + what the accepted links hold;
 *              the witness link describes its tree step (arbitrary index => every link);
 *         failure => *chain untouched, nothing created by the call survives, no hash reference is kept. */
int KSI_TreeLeafHandle_getAggregationChain(const KSI_TreeLeafHandle *handle, KSI_AggregationHashChain **chain)
__CPROVER_requires(handle == NULL || (handle->pBuilder != NULL && handle->leafNode != NULL))
__CPROVER_requires(handle == NULL || (g_q_walk == handle->leafNode && IFF(g_q_walk_root, handle->leafNode->parent == NULL)))
__CPROVER_requires(chain == NULL || chain == &g_q_chain_out)
__CPROVER_requires(g_q_list == (void *)0 && g_q_n == 0 && g_q_owned == 0 && g_q_owned_href == 0 && !g_qw_set)
__CPROVER_ensures(IMPLIES(__CPROVER_return_value == KSI_OK, handle != NULL && chain != NULL &&
		*chain != __CPROVER_old(*chain) && *chain != NULL && (*chain)->ref == 1 &&
		(*chain)->chain == g_q_list && g_q_list != NULL && g_q_walk_root))
__CPROVER_ensures(IMPLIES(__CPROVER_return_value == KSI_OK,
		(*chain)->inputHash == handle->leafNode->hash &&
		(*chain)->aggrHashId != NULL && (*chain)->aggrHashId->ref == 1 && (*chain)->aggrHashId->value == (KSI_uint64_t)handle->pBuilder->algo &&
		(*chain)->aggregationTime == NULL && (*chain)->chainIndex == NULL && (*chain)->inputData == NULL && (*chain)->outputHash == NULL))
__CPROVER_ensures(IMPLIES(__CPROVER_return_value == KSI_OK,
		g_qc_live == __CPROVER_old(g_qc_live) + 3 + g_q_owned &&
		g_qc_href == __CPROVER_old(g_qc_href) + g_q_owned_href + (handle->leafNode->hash != NULL)))
__CPROVER_ensures(IMPLIES(__CPROVER_return_value == KSI_OK && handle->leafNode->parent == NULL, g_q_n == 0 && g_q_owned == 0))
/* witness: index W = g_q_togo at the start.  recorded => it describes its step; NOT recorded => the chain has at most W links
 * (every link was counted down), i.e. every index below the number of links is reached by some choice of W */
__CPROVER_ensures(IMPLIES(__CPROVER_return_value == KSI_OK && g_qw_set, QW_GOOD))
__CPROVER_ensures(IMPLIES(__CPROVER_return_value == KSI_OK && !g_qw_set, __CPROVER_old(g_q_togo) - g_q_togo == g_q_n && g_q_togo <= __CPROVER_old(g_q_togo)))
__CPROVER_ensures(IMPLIES(__CPROVER_return_value == KSI_OK && __CPROVER_old(g_q_togo) == 0 && handle->leafNode->parent != NULL, g_qw_set && g_qw.child == handle->leafNode))
__CPROVER_ensures(IMPLIES(__CPROVER_return_value != KSI_OK,
		(chain == NULL || *chain == __CPROVER_old(*chain)) &&
		g_qc_live == __CPROVER_old(g_qc_live) && g_qc_href == __CPROVER_old(g_qc_href)))
__CPROVER_ensures(IMPLIES(handle == NULL || chain == NULL, __CPROVER_return_value == KSI_INVALID_ARGUMENT))
__CPROVER_assigns(chain != NULL: *chain; g_qc_live, g_qc_href, g_q_owned, g_q_owned_href, g_q_n, g_q_walk, g_q_walk_root, g_qw, g_q_togo, g_qw_set, g_q_list, g_qc_alloc_failed);
#endif
#endif
