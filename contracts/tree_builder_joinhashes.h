/* Contract of tree_builder.c: joinHashes (C16) - the hash step of a join: reset, left, right, level byte,
 * close.  Callers (KSI_TreeNode_join, and through it insertNode / close) are verified against this contract.
 * Needs env/tree_env.h (ghost transcript) and contracts/tree_builder_join.h macros (TN_EVENTS, TR_IS_NODE). */
#ifndef CONTRACTS_TREE_BUILDER_JOINHASHES_H
#define CONTRACTS_TREE_BUILDER_JOINHASHES_H
#include "spec/tree.h"

#define TN_WELLFORMED(n) ((n) == NULL || (((n)->hash != NULL) != ((n)->metaData != NULL)))
/* number of transcript events a node contributes: imprint = 1, meta-data = serialize + add = 2 */
#define TN_EVENTS(n) ((n)->hash != NULL ? 1u : 2u)
/* events [i ..] of the transcript are exactly the contribution of node n */
#define TR_IS_NODE(i, n) ((n)->hash != NULL \
	? (g_tr[(i)].kind == TR_IMPRINT && g_tr[(i)].obj == (const void *)(n)->hash) \
	: (g_tr[(i)].kind == TR_MDSER && g_tr[(i)].obj == (const void *)(n)->metaData && g_tr[(i) + 1].kind == TR_BYTES))
#define JH_ARGS_OK (left != NULL && right != NULL && root != NULL && spec_tree_level_valid((long long)level))

static int joinHashes(KSI_CTX *ctx, KSI_DataHasher *hsr, const KSI_TreeNode *left, const KSI_TreeNode *right, int level, KSI_DataHash **root)
__CPROVER_requires(hsr != NULL && g_tr_n <= TR_MAX)
__CPROVER_requires(TN_WELLFORMED(left) && TN_WELLFORMED(right))
/* accepted => arguments fine, no callee failed, a new hash object owned by the caller */
__CPROVER_ensures(IMPLIES(__CPROVER_return_value == KSI_OK,
		JH_ARGS_OK && g_tr_failed == __CPROVER_old(g_tr_failed) &&
		__CPROVER_is_fresh(*root, sizeof(KSI_DataHash)) && (*root)->ref == 1))
/* (audit builderY) the ghost pointer g_tr_result is stated with an unconditional __CPROVER_pointer_equals (an assignment), not with the former assumed
 * '*root == g_tr_result': dfcc havocs a pointer-typed assigns target of a replaced contract with ONE symbol per target shared by all calls on a path,
 * so two SUCCESSFUL calls (two fresh objects) contradicted each other - in C19.pin 'both leaf processors add a node' was infeasible (REACH guard there).
 * On refusal the last close result stays what it was (the close stub of env/tree_env.h writes it on success only). */
__CPROVER_ensures(__CPROVER_pointer_equals(g_tr_result, __CPROVER_return_value == KSI_OK ? (void *)*root : (void *)__CPROVER_old(g_tr_result)))
/* refused => a reason, and the out-parameter is untouched; bad arguments are refused before the hasher is touched */
__CPROVER_ensures(IMPLIES(__CPROVER_return_value != KSI_OK,
		(!JH_ARGS_OK || g_tr_failed || __CPROVER_return_value == KSI_OUT_OF_MEMORY) && (root == NULL || *root == __CPROVER_old(*root))))
__CPROVER_ensures(IMPLIES(!JH_ARGS_OK, __CPROVER_return_value != KSI_OK && g_tr_n == __CPROVER_old(g_tr_n)))
__CPROVER_ensures(IMPLIES(__CPROVER_old(g_tr_failed), g_tr_failed))
/* hash step order (stated for a transcript that was empty at entry): reset, left, right, one byte == level, close */
__CPROVER_ensures(IMPLIES(__CPROVER_return_value == KSI_OK && __CPROVER_old(g_tr_n) == 0 && __CPROVER_old(g_tr_hsr) == NULL && !__CPROVER_old(g_tr_hsr_mixed),
		g_tr_hsr == hsr && !g_tr_hsr_mixed &&
		g_tr_n == 3u + TN_EVENTS(left) + TN_EVENTS(right) &&
		g_tr[0].kind == TR_RESET &&
		TR_IS_NODE(1u, left) &&
		TR_IS_NODE(1u + TN_EVENTS(left), right) &&
		g_tr[1u + TN_EVENTS(left) + TN_EVENTS(right)].kind == TR_BYTES &&
		g_tr[1u + TN_EVENTS(left) + TN_EVENTS(right)].len == 1 &&
		g_tr[1u + TN_EVENTS(left) + TN_EVENTS(right)].b0 == (unsigned char)level &&
		g_tr[2u + TN_EVENTS(left) + TN_EVENTS(right)].kind == TR_CLOSE))
__CPROVER_assigns(root != NULL: *root; g_tr, g_tr_n, g_tr_failed, g_tr_result, g_tr_hsr, g_tr_hsr_mixed);
#endif
