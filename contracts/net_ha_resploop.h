/* Contract of net_ha.c responseHandler (C15, builderT): one polling round.  Every sub-service is run exactly once, in order
 * (monitor); what it hands back is dispatched by state exactly once and released exactly once (monitor, checked at release
 * time); the round stops at the first sub-service (or list access) that fails and reports that error; results of the
 * handlers themselves are deliberately not part of the result (an endpoint's bad answer must not stop the round). */
#ifndef CONTRACTS_NET_HA_RESPLOOP_H
#define CONTRACTS_NET_HA_RESPLOOP_H
static int responseHandler(KSI_HighAvailabilityService *has, KSI_Config_Callback confCallback)
__CPROVER_requires(has != NULL && has->services == &g_gl_list && has->respQueue != NULL && confCallback == g_rl_cb)
__CPROVER_requires(g_gl_at == 0 && g_gl_calls == 0 && !g_gl_failed && g_rl_returned == 0 && g_rl_released == 0 && !g_rl_live)
__CPROVER_ensures(!g_rl_live && g_rl_returned == g_rl_released)
__CPROVER_ensures(IFF(__CPROVER_return_value == KSI_OK, g_gl_at == g_gl_len && g_gl_calls == g_gl_len && !g_gl_failed))
__CPROVER_ensures(IMPLIES(__CPROVER_return_value != KSI_OK, g_gl_failed && __CPROVER_return_value == g_gl_lastres))
__CPROVER_assigns(g_gl_at, g_gl_calls, g_gl_lastres, g_gl_failed, g_rl_returned, g_rl_released, g_rl_live, g_rl_has_wrap, g_rl_exp_before, g_rl_user_before, g_rl_sub_state, g_rl_sub_resp,
		g_rl_cons_calls, g_rl_cons_before, g_rl_cb_calls, g_rl_cfg_refs, __CPROVER_object_whole(&g_rl_sub), __CPROVER_object_whole(&g_rl_user), __CPROVER_object_whole(&g_rl_wrap),
		__CPROVER_object_whole(&g_hndl_static), g_q_count, g_q_failed, __CPROVER_object_whole(g_q_item), __CPROVER_object_whole(g_q_state), g_hndl_new_calls, g_hndl_new_last, g_hndl_destroyed);
#endif
