/* Contracts for hashchain.c: dataHasher_addLinkImprint (as used by aggregateChain) and aggregateChain (C03).
 * Ghost state: env/ghost_aggr.h. */

/* Used (replaced) inside aggregateChain: feeds exactly the sibling of the link, once, or fails without feeding.
 * The contract is enforced on the real body by job C03.addLinkImprint (there against a byte-recording hasher). */
static int dataHasher_addLinkImprint(KSI_CTX *ctx, KSI_DataHasher *hsr, const KSI_HashChainLink *link)
__CPROVER_requires(ctx != NULL && hsr == (KSI_DataHasher *)g_hasher_obj && g_hasher_live && link == &g_link)
__CPROVER_ensures(IMPLIES(__CPROVER_return_value == KSI_OK, !g_link_bad && g_feed == __CPROVER_old(g_feed) * 4 + SPEC_FEED_SIBLING && IMPLIES(g_env_failed, __CPROVER_old(g_env_failed))))
__CPROVER_ensures(IMPLIES(__CPROVER_return_value != KSI_OK, g_feed == __CPROVER_old(g_feed) && (g_env_failed || g_link_bad)))
__CPROVER_assigns(g_feed, g_env_failed, g_last_add_ptr, g_last_add_len, g_ser_buf, g_ser_len, g_ser_opt);

static int aggregateChain(KSI_CTX *ctx, KSI_LIST(KSI_HashChainLink) *chain, const KSI_DataHash *inputHash, int startLevel, KSI_HashAlgorithm aggr_algo_id, int isCalendar, int *endLevel, KSI_DataHash **outputHash)
__CPROVER_requires(ctx != NULL && chain != NULL && inputHash == (const KSI_DataHash *)g_input_hash_obj)
__CPROVER_requires(__CPROVER_is_fresh(endLevel, sizeof(int)) && __CPROVER_is_fresh(outputHash, sizeof(*outputHash)))
__CPROVER_requires(0 <= startLevel && startLevel <= 0xff)
__CPROVER_requires(isCalendar == g_isCalendar && g_calls == 0 && !g_hasher_live && !g_hash_live && !g_env_failed)
__CPROVER_requires(!g_ref.rejected && g_ref.level == startLevel && (isCalendar || g_ref.algo == aggr_algo_id))
/* accepted  =>  every link was hashed as the reference step, the reference accepts, root level = reference level */
__CPROVER_ensures(IMPLIES(__CPROVER_return_value == KSI_OK, g_calls == g_len && !g_ref.rejected && !g_env_failed))
__CPROVER_ensures(IMPLIES(__CPROVER_return_value == KSI_OK, *endLevel == g_ref.level))
__CPROVER_ensures(IMPLIES(__CPROVER_return_value == KSI_OK, *outputHash == (g_len > 0 ? g_hash_p : (KSI_DataHash *)NULL)))
__CPROVER_ensures(IMPLIES(__CPROVER_return_value == KSI_OK && g_len > 0, g_hash_live))
__CPROVER_ensures(IMPLIES(__CPROVER_return_value == KSI_OK && g_len == 0, !g_hash_live))
/* rejected  =>  the reference rejects (level / correction out of range) or the environment failed */
__CPROVER_ensures(IMPLIES(__CPROVER_return_value != KSI_OK,
	(g_ref.rejected || g_env_failed || g_link_bad) && !g_hash_live && *outputHash == __CPROVER_old(*outputHash) && *endLevel == __CPROVER_old(*endLevel)))
/* never leaks the hasher */
__CPROVER_ensures(!g_hasher_live)
__CPROVER_assigns(*endLevel, *outputHash, g_calls, g_link, g_lc, g_link_algo, g_ref, g_hasher_live, g_hasher_algo, g_feed, g_level_byte, g_hash_live, g_env_failed, g_link_bad, g_last_add_ptr, g_last_add_len, g_ser_buf, g_ser_len, g_ser_opt);
