/* C04 / C01 (builderV, "lift"): contract of the static helper calendarChainAggrAlgorithmState of verification_rule.c for calendar
 * chains of EVERY length and BOTH inspectors (wasDeprecatedAt: the five *HashAlgorithmDeprecatedAtPubTime rules of C04;
 * wasObsoleteAt: INT-16 of C01).  World and monitor: env/ghost_vrule_cal16.h (model link list of arbitrary length; each fetched
 * link arbitrary; the monitor records the first decisive event in list order), with the monitor's verdict predicate made a
 * parameter by the harness TU (obligations/C04/lift_ccs.c: g_lift_dep selects "deprecated or obsolete" / "obsolete only").
 * This is the every-length counterpart of the facts g_po_ccs_res / g_po_ccs_truth that the bounded job
 * C04.orch_calendarChainAggrAlgorithmState_b4 computes from a concrete model of <= 4 links (same definition: links are inspected in
 * list order; the first LEFT link whose sibling algorithm fails the inspector decides "true"; a left link without sibling hash
 * before that makes the state unreadable; otherwise "false" after the whole chain).
 * Loop contract: contracts/verification_rule_c01_cal16.loops.json (for(;;) loop, JSON route).  getNextLink is replaced by the
 * contract of contracts/verification_rule_c01_cal16.h, enforced under the same parameter by C04.lift_ccs_getNextLink. */
#ifndef CONTRACTS_VERIFICATION_RULE_C04_LIFT_CCS_H
#define CONTRACTS_VERIFICATION_RULE_C04_LIFT_CCS_H

static bool wasDeprecatedAt(KSI_HashAlgorithm algorithm, time_t at);
static bool wasObsoleteAt(KSI_HashAlgorithm algorithm, time_t at);
typedef bool (*lift_inspector_fn)(KSI_HashAlgorithm, time_t);

#define LIFT_CCS_ARGS_OK(chain, inspector, status) ((chain) != NULL && (inspector) != NULL && (status) != NULL)

static int calendarChainAggrAlgorithmState(KSI_CTX *ctx, const KSI_CalendarHashChain *calHshChain, bool (*inspector)(KSI_HashAlgorithm, time_t), bool *status)
__CPROVER_requires(calHshChain == NULL || calHshChain == &g_vr_cal)
__CPROVER_requires(inspector == NULL || (g_lift_dep ? inspector == wasDeprecatedAt : inspector == wasObsoleteAt))
__CPROVER_requires(status == NULL || status == &g_lift_st)
__CPROVER_requires(g_vr_cal.hashChain == NULL || g_vr_cal.hashChain == &g16_list)
__CPROVER_requires(g16.calls == 0 && g16.lefts == 0 && !g16.fail && !g16.na && g16_len <= G16_MAX_LIST)   /* lefts, has_imprint: audit ghosts of env/ghost_vrule_cal16.h (builderY) */
__CPROVER_requires((g16.has_imprint ? g16_link.imprint == &g_vr_h[VR_H_LINK] : g16_link.imprint == NULL) && 0 <= g_vr_h_alg[VR_H_LINK] && g_vr_h_alg[VR_H_LINK] <= 255)
/* missing argument: refused, nothing read */
__CPROVER_ensures(IMPLIES(!LIFT_CCS_ARGS_OK(calHshChain, inspector, status), __CPROVER_return_value == KSI_INVALID_ARGUMENT && g16.calls == 0))
/* chain without link list: refused */
__CPROVER_ensures(IMPLIES(LIFT_CCS_ARGS_OK(calHshChain, inspector, status) && calHshChain->hashChain == NULL, __CPROVER_return_value == KSI_INVALID_ARGUMENT && g16.calls == 0))
/* the answer is the monitor's fact about THIS chain: true <=> some left link's sibling algorithm fails the inspector at the publication time (the first such
 * link ends the scan); a left link without sibling hash before that: error status; false only after the WHOLE chain was read */
__CPROVER_ensures(IMPLIES(LIFT_CCS_ARGS_OK(calHshChain, inspector, status) && calHshChain->hashChain != NULL,
	g16.fail ? (__CPROVER_return_value == KSI_OK && *status) :
	g16.na   ? (__CPROVER_return_value != KSI_OK) :
	           (__CPROVER_return_value == KSI_OK && !*status && g16.calls == g16_len)))
__CPROVER_ensures(!(g16.fail && g16.na))
/* an error leaves the answer untouched */
__CPROVER_ensures(IMPLIES(__CPROVER_return_value != KSI_OK && status != NULL, *status == __CPROVER_old(*status)))
__CPROVER_assigns(status != NULL: *status; G16_FRAME);
#endif
