/* Contracts of tree_builder.c: addLeaf and the callees it is verified against (C16 pre-check, C19 allocation
 * failure).  Needs env/tree_env.h (ghost records) and env/c19_alloc_env.h (g_live: live funnel blocks).
 *
 * processAndInsertNode / levelWithOverhead / calculateHighestLevel are REPLACED in the addLeaf job; their
 * contracts are enforced by C19.pin / C16.levelWithOverhead / C16.calcHighest. */
#ifndef CONTRACTS_TREE_BUILDER_ADDLEAF_H
#define CONTRACTS_TREE_BUILDER_ADDLEAF_H
#include "spec/tree.h"

/* Ghost CALL RECORDS.  When a callee is REPLACED by its contract (job C19.addLeaf defines GHOST_RECORDS) the
 * contract additionally records "called, with this argument, returning this" in ghost variables that no code
 * reads - this adds no assumption about the program state.  When the contract is ENFORCED on the real body
 * (C19.pin, C16.levelWithOverhead, C16.calcHighest) the records are left out. */
#ifdef GHOST_RECORDS
#define GR_ENSURES(x) __CPROVER_ensures(x)
#define GR_ASSIGNS(...) , __VA_ARGS__
#define GR_ASSIGNS_ONLY(...) __VA_ARGS__
#else
#define GR_ENSURES(x)
#define GR_ASSIGNS(...)
#define GR_ASSIGNS_ONLY(...)
#endif

/* hands the node over to the builder: on success the builder owns it (and what the leaf processors joined on
 * top of it); on failure NOTHING allocated by the call survives, the stack view and the node are unchanged and
 * the node still belongs to the caller */
static int processAndInsertNode(KSI_TreeBuilder *builder, KSI_TreeNode *node)
__CPROVER_requires(builder != NULL && builder->ctx != NULL && builder->hsr != NULL && node != NULL && g_live >= 0 && g_live < 50000)
__CPROVER_requires(((node->hash != NULL) != (node->metaData != NULL)) && node != &g_occ && node->parent == NULL)
/* builder invariant as in contracts/tree_builder_insert.h: occupied slots hold the (well-formed) representative occupant */
__CPROVER_requires((g_occ.hash != NULL) != (g_occ.metaData != NULL) && g_occ.level <= 0xff)
__CPROVER_requires(__CPROVER_forall { int i; (0 <= i && i < KSI_TREE_BUILDER_STACK_LEN) ==> TB_SLOT_OK(builder, i) })
__CPROVER_requires(g_w1 < g_w2 && g_w2 < KSI_TREE_BUILDER_STACK_LEN)
GR_ENSURES(g_pin_calls == __CPROVER_old(g_pin_calls) + 1 && g_pin_res == __CPROVER_return_value && g_pin_node == node)
__CPROVER_ensures(IMPLIES(__CPROVER_return_value != KSI_OK,
		g_live == __CPROVER_old(g_live) && node->parent == NULL &&
		builder->stack[g_w1] == __CPROVER_old(builder->stack[g_w1]) && builder->stack[g_w2] == __CPROVER_old(builder->stack[g_w2])))
__CPROVER_ensures(IMPLIES(__CPROVER_return_value == KSI_OK, g_live >= __CPROVER_old(g_live) && g_live - __CPROVER_old(g_live) <= 512))
__CPROVER_ensures(node->level == __CPROVER_old(node->level) && node->hash == __CPROVER_old(node->hash) && node->metaData == __CPROVER_old(node->metaData) &&
		node->leftChild == __CPROVER_old(node->leftChild) && node->rightChild == __CPROVER_old(node->rightChild))
__CPROVER_assigns(g_live, g_alloc_failed, builder->stack, node->parent, g_occ.parent, g_proc_hash.ref,
		g_tr, g_tr_n, g_tr_failed, g_tr_result, g_tr_hsr, g_tr_hsr_mixed, g_cbl_calls GR_ASSIGNS(g_pin_calls, g_pin_res, g_pin_node));

/* level of the leaf after the leaf processors have put their nodes on top: never less than the input, 0..255 */
static int levelWithOverhead(KSI_TreeBuilder *builder, unsigned short inLevel, unsigned short *outLevel)
__CPROVER_requires(builder != NULL && outLevel != NULL)
GR_ENSURES(g_lwo_calls == __CPROVER_old(g_lwo_calls) + 1)
__CPROVER_ensures(IMPLIES(__CPROVER_return_value == KSI_OK, *outLevel >= inLevel && *outLevel <= 0xff))
__CPROVER_ensures(IMPLIES(__CPROVER_return_value != KSI_OK, *outLevel == __CPROVER_old(*outLevel)))
__CPROVER_assigns(*outLevel GR_ASSIGNS(g_lwo_calls));

/* upper bound of the root level if a subtree of `level` is added: at least `level`, state untouched */
static unsigned calculateHighestLevel(KSI_TreeBuilder *builder, unsigned level)
__CPROVER_requires(builder != NULL)
GR_ENSURES(g_chl_calls == __CPROVER_old(g_chl_calls) + 1 && g_chl_result == __CPROVER_return_value)
__CPROVER_ensures(__CPROVER_return_value >= level)
__CPROVER_assigns(GR_ASSIGNS_ONLY(g_chl_calls, g_chl_result));

#define AL_ARGS_OK (builder != NULL && ((hsh != NULL) != (metaData != NULL)) && spec_tree_level_valid((long long)level))
static int addLeaf(KSI_TreeBuilder *builder, KSI_DataHash *hsh, KSI_MetaData *metaData, int level, KSI_TreeLeafHandle **leaf)
__CPROVER_requires(builder == NULL || builder->ctx != NULL)
__CPROVER_requires(hsh == NULL || hsh->ref >= 1)
__CPROVER_requires(metaData == NULL || metaData->ref >= 1)
__CPROVER_requires(leaf == NULL || leaf == &g_leaf_out)
/* builder invariant (contracts/tree_builder_insert.h): occupied slots hold the well-formed representative occupant */
__CPROVER_requires((g_occ.hash != NULL) != (g_occ.metaData != NULL) && g_occ.level <= 0xff)
__CPROVER_requires(builder == NULL || __CPROVER_forall { int i; (0 <= i && i < KSI_TREE_BUILDER_STACK_LEN) ==> TB_SLOT_OK(builder, i) })
__CPROVER_requires(g_pin_calls == 0 && g_chl_calls == 0 && g_lwo_calls == 0 && g_live >= 0 && g_live < 1000)
__CPROVER_requires(g_w1 < g_w2 && g_w2 < KSI_TREE_BUILDER_STACK_LEN)
/* (A1) accepted => arguments fine, tree not closed, the node was handed over exactly once and accepted */
__CPROVER_ensures(IMPLIES(__CPROVER_return_value == KSI_OK,
		AL_ARGS_OK && builder->rootNode == NULL && g_pin_calls == 1 && g_pin_res == KSI_OK))
/* (A2) NOTHING may fail once the builder owns the node (else the caller would free a node the tree points to) */
__CPROVER_ensures(IMPLIES(g_pin_calls >= 1 && g_pin_res == KSI_OK, __CPROVER_return_value == KSI_OK && g_pin_calls == 1))
/* (A2b) the same without ghost records: a refused leaf leaves the stack view as it was */
__CPROVER_ensures(IMPLIES(__CPROVER_return_value != KSI_OK && builder != NULL,
		builder->stack[g_w1] == __CPROVER_old(builder->stack[g_w1]) && builder->stack[g_w2] == __CPROVER_old(builder->stack[g_w2])))
/* (A3) the handle: a new object naming the new leaf node, which carries the given hash / meta-data and level */
__CPROVER_ensures(IMPLIES(__CPROVER_return_value == KSI_OK && leaf != NULL,
		__CPROVER_is_fresh(*leaf, sizeof(KSI_TreeLeafHandle)) && (*leaf)->ref == 1 && (*leaf)->pBuilder == builder &&
		(*leaf)->leafNode == g_pin_node && (*leaf)->leafNode->level == (unsigned)level &&
		(*leaf)->leafNode->hash == hsh && (*leaf)->leafNode->metaData == metaData))
/* (A4) live-allocation accounting: success keeps the node (+ handle + what the insertion joined); a failure keeps
 *      nothing, leaves the out-parameter untouched and does not keep a reference to the hash / meta-data */
__CPROVER_ensures(IMPLIES(__CPROVER_return_value == KSI_OK, g_live >= __CPROVER_old(g_live) + 1 + (leaf != NULL ? 1 : 0)))
__CPROVER_ensures(IMPLIES(__CPROVER_return_value == KSI_OK && hsh != NULL, hsh->ref == __CPROVER_old(hsh->ref) + 1))
__CPROVER_ensures(IMPLIES(__CPROVER_return_value != KSI_OK,
		g_live == __CPROVER_old(g_live) && (leaf == NULL || *leaf == __CPROVER_old(*leaf)) &&
		(hsh == NULL || hsh->ref == __CPROVER_old(hsh->ref)) && (metaData == NULL || metaData->ref == __CPROVER_old(metaData->ref))))
/* (A5) refused => a reason */
__CPROVER_ensures(IMPLIES(__CPROVER_return_value != KSI_OK,
		!AL_ARGS_OK || builder->rootNode != NULL || g_alloc_failed > __CPROVER_old(g_alloc_failed) ||
		(g_pin_calls == 1 && g_pin_res != KSI_OK) || (builder->maxTreeLevel > 0 && (__CPROVER_return_value == KSI_BUFFER_OVERFLOW || g_lwo_calls == 1))))
/* (A6) height pre-check (C16): with a maximum level set, a leaf above it, or whose predicted root level passes it,
 *      is refused with KSI_BUFFER_OVERFLOW before anything is allocated or inserted */
__CPROVER_ensures(IMPLIES(AL_ARGS_OK && builder->maxTreeLevel > 0 && (level > builder->maxTreeLevel || (g_chl_calls == 1 && g_chl_result > (unsigned)builder->maxTreeLevel)),
		__CPROVER_return_value == KSI_BUFFER_OVERFLOW && g_pin_calls == 0 && g_alloc_failed == __CPROVER_old(g_alloc_failed)))
__CPROVER_ensures(IMPLIES(AL_ARGS_OK && builder->maxTreeLevel > 0 && level <= builder->maxTreeLevel && g_lwo_calls == 1 && __CPROVER_return_value != KSI_BUFFER_OVERFLOW && g_pin_calls == 1, g_chl_calls == 1))
__CPROVER_assigns(leaf != NULL: *leaf; hsh != NULL: hsh->ref; metaData != NULL: metaData->ref;
		builder != NULL: builder->stack;
		g_pin_calls, g_pin_res, g_pin_node, g_chl_calls, g_chl_result, g_lwo_calls, g_live, g_alloc_failed, g_occ.parent, g_cbl_calls, g_proc_hash.ref,
		g_tr, g_tr_n, g_tr_failed, g_tr_result, g_tr_hsr, g_tr_hsr_mixed);
#endif
