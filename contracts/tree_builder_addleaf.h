/* Contracts of tree_builder.c: addLeaf and the callees it is verified against (C16 pre-check, C19 allocation
 * failure).  Needs env/tree_env.h (ghost records) and env/c19_alloc_env.h (g_live: live funnel blocks).
 *
 * processAndInsertNode / levelWithOverhead / calculateHighestLevel are REPLACED in the addLeaf job; their
 * contracts are enforced by C19.pin / C16.levelWithOverhead / C16.calcHighest. */
#ifndef CONTRACTS_TREE_BUILDER_ADDLEAF_H
#define CONTRACTS_TREE_BUILDER_ADDLEAF_H
#include "spec/tree.h"

/* hands the node over to the builder: on success the builder owns it (and what was joined on top of it);
 * on failure NOTHING allocated by the call survives and the node still belongs to the caller */
static int processAndInsertNode(KSI_TreeBuilder *builder, KSI_TreeNode *node)
__CPROVER_requires(builder != NULL && node != NULL && g_live >= 0 && g_live < 100000)
__CPROVER_ensures(g_pin_calls == __CPROVER_old(g_pin_calls) + 1 && g_pin_res == __CPROVER_return_value && g_pin_node == node)
__CPROVER_ensures(g_pin_delta >= 0 && g_pin_delta < 1000 && g_live == __CPROVER_old(g_live) + g_pin_delta)
__CPROVER_ensures(IMPLIES(__CPROVER_return_value != KSI_OK, g_pin_delta == 0))
__CPROVER_ensures(node->level == __CPROVER_old(node->level) && node->hash == __CPROVER_old(node->hash) && node->metaData == __CPROVER_old(node->metaData))
__CPROVER_assigns(g_pin_calls, g_pin_res, g_pin_node, g_pin_delta, g_live, g_alloc_failed, builder->stack, node->parent,
		g_tr, g_tr_n, g_tr_failed, g_tr_result, g_tr_hsr, g_tr_hsr_mixed);

/* level of the leaf after the leaf processors have put their nodes on top: never less than the input, 0..255 */
static int levelWithOverhead(KSI_TreeBuilder *builder, unsigned short inLevel, unsigned short *outLevel)
__CPROVER_requires(builder != NULL && outLevel != NULL)
__CPROVER_ensures(g_lwo_calls == __CPROVER_old(g_lwo_calls) + 1)
__CPROVER_ensures(IMPLIES(__CPROVER_return_value == KSI_OK, *outLevel >= inLevel && *outLevel <= 0xff))
__CPROVER_ensures(IMPLIES(__CPROVER_return_value != KSI_OK, *outLevel == __CPROVER_old(*outLevel)))
__CPROVER_assigns(*outLevel, g_lwo_calls);

/* upper bound of the root level if a subtree of `level` is added: at least `level`, state untouched */
static unsigned calculateHighestLevel(KSI_TreeBuilder *builder, unsigned level)
__CPROVER_requires(builder != NULL)
__CPROVER_ensures(g_chl_calls == __CPROVER_old(g_chl_calls) + 1 && g_chl_result == __CPROVER_return_value && __CPROVER_return_value >= level)
__CPROVER_assigns(g_chl_calls, g_chl_result);

#define AL_ARGS_OK (builder != NULL && ((hsh != NULL) != (metaData != NULL)) && spec_tree_level_valid((long long)level))
static int addLeaf(KSI_TreeBuilder *builder, KSI_DataHash *hsh, KSI_MetaData *metaData, int level, KSI_TreeLeafHandle **leaf)
__CPROVER_requires(builder == NULL || builder->ctx != NULL)
__CPROVER_requires(hsh == NULL || hsh->ref >= 1)
__CPROVER_requires(metaData == NULL || metaData->ref >= 1)
__CPROVER_requires(leaf == NULL || leaf == &g_leaf_out)
__CPROVER_requires(g_pin_calls == 0 && g_chl_calls == 0 && g_lwo_calls == 0 && g_live >= 0 && g_live < 1000)
/* (A1) accepted => arguments fine, tree not closed, the node was handed over exactly once and accepted */
__CPROVER_ensures(IMPLIES(__CPROVER_return_value == KSI_OK,
		AL_ARGS_OK && builder->rootNode == NULL && g_pin_calls == 1 && g_pin_res == KSI_OK))
/* (A2) NOTHING may fail once the builder owns the node (else the caller would free a node the tree points to) */
__CPROVER_ensures(IMPLIES(g_pin_calls >= 1 && g_pin_res == KSI_OK, __CPROVER_return_value == KSI_OK && g_pin_calls == 1))
/* (A3) the handle: a new object naming the new leaf node, which carries the given hash / meta-data and level */
__CPROVER_ensures(IMPLIES(__CPROVER_return_value == KSI_OK && leaf != NULL,
		__CPROVER_is_fresh(*leaf, sizeof(KSI_TreeLeafHandle)) && (*leaf)->ref == 1 && (*leaf)->pBuilder == builder &&
		(*leaf)->leafNode == g_pin_node && (*leaf)->leafNode->level == (unsigned)level &&
		(*leaf)->leafNode->hash == hsh && (*leaf)->leafNode->metaData == metaData))
/* (A4) live-allocation accounting: success keeps the node (+ handle + what the insertion joined); a failure keeps
 *      nothing, leaves the out-parameter untouched and does not keep a reference to the hash / meta-data */
__CPROVER_ensures(IMPLIES(__CPROVER_return_value == KSI_OK, g_live == __CPROVER_old(g_live) + 1 + (leaf != NULL ? 1 : 0) + g_pin_delta))
__CPROVER_ensures(IMPLIES(__CPROVER_return_value == KSI_OK && hsh != NULL, hsh->ref == __CPROVER_old(hsh->ref) + 1))
__CPROVER_ensures(IMPLIES(__CPROVER_return_value != KSI_OK,
		g_live == __CPROVER_old(g_live) && (leaf == NULL || *leaf == __CPROVER_old(*leaf)) &&
		(hsh == NULL || hsh->ref == __CPROVER_old(hsh->ref)) && (metaData == NULL || metaData->ref == __CPROVER_old(metaData->ref))))
/* (A5) refused => a reason */
__CPROVER_ensures(IMPLIES(__CPROVER_return_value != KSI_OK,
		!AL_ARGS_OK || builder->rootNode != NULL || g_alloc_failed > __CPROVER_old(g_alloc_failed) ||
		(g_pin_calls == 1 && g_pin_res != KSI_OK) || (builder->maxTreeLevel > 0 && (__CPROVER_return_value == KSI_BUFFER_OVERFLOW || g_lwo_calls == 1))))
/* (A6) height pre-check (C16): with a maximum level set, a leaf above it, or whose predicted root level passes it,
 *      is refused with KSI_BUFFER_OVERFLOW before anything is allocated or inserted */
__CPROVER_ensures(IMPLIES(AL_ARGS_OK && builder->maxTreeLevel > 0 && (level > builder->maxTreeLevel || (g_chl_calls == 1 && g_chl_result > (unsigned)builder->maxTreeLevel)),
		__CPROVER_return_value == KSI_BUFFER_OVERFLOW && g_pin_calls == 0 && g_alloc_failed == __CPROVER_old(g_alloc_failed)))
__CPROVER_ensures(IMPLIES(AL_ARGS_OK && builder->maxTreeLevel > 0 && level <= builder->maxTreeLevel && g_lwo_calls == 1 && __CPROVER_return_value != KSI_BUFFER_OVERFLOW && g_pin_calls == 1, g_chl_calls == 1))
__CPROVER_assigns(leaf != NULL: *leaf; hsh != NULL: hsh->ref; metaData != NULL: metaData->ref;
		builder != NULL: builder->stack;
		g_pin_calls, g_pin_res, g_pin_node, g_pin_delta, g_chl_calls, g_chl_result, g_lwo_calls, g_live, g_alloc_failed,
		g_tr, g_tr_n, g_tr_failed, g_tr_result, g_tr_hsr, g_tr_hsr_mixed);
#endif
