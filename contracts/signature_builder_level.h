/* Contract of updateLevelCorrection (signature_builder.c:215; addRootLevel = updateLevelCorrection(sig, l, add)), C07:
 * the root level given to the signing call is added to the level correction of the FIRST link of the FIRST
 * aggregation hash chain; a sum beyond 0xff is refused.   Ghost: env/c07_builder.h.
 *   rootLevel == 0                    -> OK, nothing touched
 *   rootLevel > 0xff                  -> INVALID_FORMAT, nothing touched
 *   old + rootLevel > 0xff            -> refused (INVALID_FORMAT), link untouched
 *   OK (rootLevel > 0)                -> link's correction was set exactly once to old + rootLevel (<= 0xff), and the
 *                                        chain's TLV was rebuilt from the updated chain and put in place of the old one
 * No object made on the way is left behind (integers, TLVs, chain objects). */
static int add(KSI_uint64_t r, KSI_uint64_t l, KSI_uint64_t *res);
static int updateLevelCorrection(KSI_Signature *sig, KSI_uint64_t rootLevel,
		int (*calcLevelCorrection)(KSI_uint64_t, KSI_uint64_t, KSI_uint64_t*))
__CPROVER_requires(calcLevelCorrection == add)
__CPROVER_requires(g_b.set_calls == 0 && g_b.int_live == (g_b.has_old ? 1 : 0) && g_b.int_new_calls == 0 && g_b_chain_live == 0 && g_b.tlv_live == 0 &&
		g_b.replace_calls == 0 && g_b.construct_calls == 0)
__CPROVER_requires(g_b_link.levelCorrection == (g_b.has_old ? &g_b_oldint : NULL) && g_b_oldint.value == g_b.old_value)
__CPROVER_ensures(IMPLIES(sig != NULL && rootLevel == 0, __CPROVER_return_value == KSI_OK && g_b.set_calls == 0))
__CPROVER_ensures(IMPLIES(sig != NULL && rootLevel > 0xff, __CPROVER_return_value == KSI_INVALID_FORMAT && g_b.set_calls == 0))
__CPROVER_ensures(IMPLIES(sig != NULL && rootLevel > 0 && rootLevel <= 0xff && (g_b.has_old ? g_b.old_value : 0) > 0xff - rootLevel,   /* (no 64-bit wrap in the specification) */
		__CPROVER_return_value != KSI_OK && g_b.set_calls == 0 && g_b_link.levelCorrection == (g_b.has_old ? &g_b_oldint : NULL)))
__CPROVER_ensures(IMPLIES(sig != NULL && rootLevel > 0 && __CPROVER_return_value == KSI_OK,
		rootLevel <= 0xff && g_b.set_calls == 1 && g_b.set_res == KSI_OK &&
		(g_b.has_old ? g_b.old_value : 0) <= 0xff - rootLevel &&
		g_b.set_value == (g_b.has_old ? g_b.old_value : 0) + rootLevel && g_b.set_value <= 0xff &&
		g_b_link.levelCorrection != NULL && g_b_link.levelCorrection->value == g_b.set_value &&
		g_b.construct_calls == 1 && g_b.construct_payload == (const void *)&g_b_aggr &&
		g_b.replace_calls == 1 && g_b.replace_res == KSI_OK && g_b.replace_new != NULL))
__CPROVER_ensures(g_b.set_calls <= 1)
/* nothing left behind: the integer in the link is the only live one (old released iff replaced) */
__CPROVER_ensures(g_b.int_live == (g_b_link.levelCorrection != NULL ? 1 : 0) &&
		g_b.tlv_live == 0 && g_b_chain_live == 0)
__CPROVER_assigns(g_b, g_b_chain_live, g_b_link, g_b_oldint, g_b_el);
