/* Contract of KSI_ExtendResp_verifyWithRequest (types.c:2681), C08.  Declared after types.c (mentions its structs).
 * From the property: extending succeeds only if the reply has status zero, the request's id, the requested
 * aggregation and publication times, and a calendar chain whose shape is consistent with those times.
 *
 *  OK <=> resp, req present
 *       ∧ status present and == 0
 *       ∧ request ids present and equal
 *       ∧ (no publication time requested ∨ chain's publication time present and equal to it)
 *       ∧ chain's aggregation time present and equal to the requested one
 *       ∧ the shape of the chain is accepted by the reference walk (C03) and the shape-derived time equals the
 *         aggregation time.
 * KSI_CalendarHashChain_calculateAggregationTime is replaced by its contract (contracts/hashchain_compat_caltime.h):
 * g_cal is the reference machine after the walk.
 */
#define C08_INT_EQ(a, b) ((a) != NULL && (b) != NULL && (a)->value == (b)->value)
#define C08_CHAIN(resp) ((resp)->calendarHashChain)
#define C08_STATUS_OK(resp)  ((resp)->status != NULL && (resp)->status->value == 0)
#define C08_ID_OK(resp, req) C08_INT_EQ((resp)->requestId, (req)->requestId)
#define C08_PUB_OK(resp, req) ((req)->publicationTime == NULL || C08_INT_EQ(C08_CHAIN(resp)->publicationTime, (req)->publicationTime))
#define C08_AGGR_OK(resp, req) C08_INT_EQ(C08_CHAIN(resp)->aggregationTime, (req)->aggregationTime)
#define C08_SHAPE_OK(resp) (C08_CHAIN(resp)->hashChain != NULL && C08_CHAIN(resp)->publicationTime != NULL && \
		g_cal_len > 0 && g_cal_calls == g_cal_len && spec_cal_accepts(&g_cal) && \
		C08_CHAIN(resp)->aggregationTime->value == (KSI_uint64_t)(time_t)g_cal.t)

#pragma CPROVER check push
#pragma CPROVER check disable "pointer"
#pragma CPROVER check disable "pointer-primitive"
int KSI_ExtendResp_verifyWithRequest(const KSI_ExtendResp *resp, const KSI_ExtendReq *req)
__CPROVER_requires(g_cal_calls == 0 && !g_cal.rejected && g_cal.t == 0)
__CPROVER_requires(resp == NULL || resp->calendarHashChain == NULL || resp->calendarHashChain->publicationTime == NULL ||
		g_cal.r == (long long)resp->calendarHashChain->publicationTime->value)
/* soundness: what OK guarantees (the statement of the property) */
__CPROVER_ensures(IMPLIES(__CPROVER_return_value == KSI_OK, resp != NULL && req != NULL))
__CPROVER_ensures(IMPLIES(__CPROVER_return_value == KSI_OK, C08_STATUS_OK(resp)))
__CPROVER_ensures(IMPLIES(__CPROVER_return_value == KSI_OK, C08_ID_OK(resp, req)))
__CPROVER_ensures(IMPLIES(__CPROVER_return_value == KSI_OK, C08_CHAIN(resp) != NULL && C08_PUB_OK(resp, req)))
__CPROVER_ensures(IMPLIES(__CPROVER_return_value == KSI_OK, C08_CHAIN(resp) != NULL && C08_AGGR_OK(resp, req)))
__CPROVER_ensures(IMPLIES(__CPROVER_return_value == KSI_OK, C08_CHAIN(resp) != NULL && C08_AGGR_OK(resp, req) && C08_SHAPE_OK(resp)))
/* completeness: a reply that satisfies all of it is accepted */
__CPROVER_ensures(IMPLIES(resp != NULL && req != NULL && C08_STATUS_OK(resp) && C08_ID_OK(resp, req) && C08_CHAIN(resp) != NULL &&
		C08_PUB_OK(resp, req) && C08_AGGR_OK(resp, req) && C08_SHAPE_OK(resp), __CPROVER_return_value == KSI_OK))
/* codes */
__CPROVER_ensures(IMPLIES(resp == NULL || req == NULL, __CPROVER_return_value == KSI_INVALID_ARGUMENT))
__CPROVER_ensures(IMPLIES(resp != NULL && req != NULL && C08_STATUS_OK(resp) && !C08_ID_OK(resp, req), __CPROVER_return_value == KSI_REQUEST_ID_MISMATCH))
__CPROVER_ensures(IMPLIES(resp != NULL && req != NULL && resp->status != NULL && resp->status->value != 0,
		__CPROVER_return_value != KSI_OK && g_cal_calls == 0))
__CPROVER_assigns(g_cal, g_cal_calls, g_cal_link);
#pragma CPROVER check pop
