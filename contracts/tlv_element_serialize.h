/* Contract for tlv_element.c:KSI_TlvElement_serialize (C09; C12), enforced with --enforce-contract-rec: the same text
 * is what the two recursive calls on a child are replaced with.  Ghosts: env/ghost_tlvelem.h.  g_el_k = witness octet
 * index, g_el_byte = NAME of octet g_el_k of the witness child's encoding (see contracts/tlv_serialize.h on names). */
#ifndef CONTRACTS_TLV_ELEMENT_SERIALIZE_H
#define CONTRACTS_TLV_ELEMENT_SERIALIZE_H
#include "spec/tlv.h"
size_t g_el_k; unsigned char g_el_byte;

/* with env/memops_witness.h only the octet at relative position g_mem_k (and 0..3) survives a copy: the payload copy
 * must preserve relative position a, the final move relative position b */
#ifdef EL_MEM_WITNESS
#define EL_MEM_WITNESS_AT(a, b, opt) (((a) < 4 || (a) == g_mem_k || (a) == g_mem_k2) && (((opt) & KSI_TLV_OPT_NO_MOVE) || (b) < 4 || (b) == g_mem_k || (b) == g_mem_k2))
#else
#define EL_MEM_WITNESS_AT(a, b, opt) 1
#endif
#define EL_HDR(opt) (((opt) & KSI_TLV_OPT_NO_HEADER) == 0)
#define EL_CHILD(e) ((e) == &g_el_child)
#define EL_LEAF(e) ((e)->subList == NULL || g_el_len == 0)
/* payload length / total size an element must report: leaf = stored length; nested = sum of the children's sizes;
 * a child handed out by the list stub = the name the stub chose for it */
#define EL_DAT(e) (EL_LEAF(e) ? (e)->ftlv.dat_len : g_el_sum)
#define EL_TOT(e, opt) (EL_CHILD(e) ? g_el_cur : EL_DAT(e) + (EL_HDR(opt) ? spec_tlv_enc_hdr_len((e)->ftlv.tag, EL_DAT(e)) : 0))
/* where the output starts */
#define EL_POS(e, opt, buf_size) (((opt) & KSI_TLV_OPT_NO_MOVE) ? (buf_size) - EL_TOT(e, opt) : 0)

int KSI_TlvElement_serialize(const KSI_TlvElement *element, unsigned char *buf, size_t buf_size, size_t *len, int opt)
__CPROVER_requires(element != NULL && element->ftlv.tag <= SPEC_TLV_MAX_TAG)
__CPROVER_requires(EL_CHILD(element) || element->subList == NULL || element->subList == &g_el_list)
__CPROVER_requires(IMPLIES(EL_CHILD(element), EL_HDR(opt)))
__CPROVER_requires(IMPLIES(!EL_CHILD(element), g_el_calls == 0 && g_el_sum == 0 && !g_el_any_bad))
__CPROVER_requires(IMPLIES(!EL_CHILD(element) && EL_LEAF(element), element->ftlv.dat_len <= EL_MAX_LEAF &&
		(element->ftlv.dat_len == 0 || (element->ftlv.hdr_len <= 4 && __CPROVER_r_ok(element->ptr, element->ftlv.hdr_len + element->ftlv.dat_len)))))
__CPROVER_requires((buf == NULL && buf_size == 0) || __CPROVER_is_fresh(buf, buf_size))
__CPROVER_requires(len == NULL || __CPROVER_is_fresh(len, sizeof(*len)))
/* C1 result codes: OK, does not fit the buffer (BUFFER_OVERFLOW), content exceeds the 16-bit length field (INVALID_FORMAT) */
__CPROVER_ensures(__CPROVER_return_value == KSI_OK || __CPROVER_return_value == KSI_BUFFER_OVERFLOW || __CPROVER_return_value == KSI_INVALID_FORMAT)
/* C1a a child handed out by the list stub is refused with INVALID_FORMAT exactly when the stub named it "too long" */
__CPROVER_ensures(IMPLIES(EL_CHILD(element), (__CPROVER_return_value == KSI_INVALID_FORMAT) == (g_el_cur_bad != 0)))
/* C1b INVALID_FORMAT only for content that exceeds the length field (own content, or a child's) ... */
__CPROVER_ensures(IMPLIES(!EL_CHILD(element) && __CPROVER_return_value == KSI_INVALID_FORMAT,
		g_el_any_bad || (EL_HDR(opt) && EL_DAT(element) > SPEC_TLV_MAX_LEN)))
/* C1c ... and such content is refused with exactly that code when measuring or when the buffer holds the payload */
__CPROVER_ensures(IMPLIES(!EL_CHILD(element) && !g_el_any_bad && EL_HDR(opt) && EL_DAT(element) > SPEC_TLV_MAX_LEN &&
		(buf == NULL || (EL_LEAF(element) && buf_size > EL_DAT(element))), __CPROVER_return_value == KSI_INVALID_FORMAT))
/* C2 size-query mode and write mode report the same size, which is the size written */
__CPROVER_ensures(IMPLIES(__CPROVER_return_value == KSI_OK && len != NULL, *len == EL_TOT(element, opt)))
__CPROVER_ensures(IMPLIES(__CPROVER_return_value != KSI_OK && len != NULL, *len == __CPROVER_old(*len)))
/* C3/C4 nothing that does not fit is reported as written */
__CPROVER_ensures(IMPLIES(__CPROVER_return_value == KSI_OK && buf != NULL, EL_TOT(element, opt) <= buf_size))
/* C5 it succeeds whenever the content is encodable (<= 0xffff, or no header asked for) and it fits
 * (the leaf branch additionally wants one spare octet: tlv_element.c:223 `<=`) */
__CPROVER_ensures(IMPLIES((buf == NULL || (EL_TOT(element, opt) <= buf_size &&
		(EL_CHILD(element) || !EL_LEAF(element) || buf_size > EL_DAT(element)))) &&
		(EL_CHILD(element) ? !g_el_cur_bad : (!g_el_any_bad && (!EL_HDR(opt) || EL_DAT(element) <= SPEC_TLV_MAX_LEN))), __CPROVER_return_value == KSI_OK))
/* C6 content longer than the 16-bit length field is refused                               (DESIGN 7-e analogue, fixed by f38b47b) */
__CPROVER_ensures(IMPLIES(!EL_CHILD(element) && __CPROVER_return_value == KSI_OK && EL_HDR(opt), EL_DAT(element) <= SPEC_TLV_MAX_LEN))
/* C6a hence an encoding with header never exceeds 0xffff + 4 octets (for a child: bounds the size the list stub named) */
__CPROVER_ensures(IMPLIES(__CPROVER_return_value == KSI_OK && EL_HDR(opt), EL_TOT(element, opt) <= SPEC_TLV_MAX_LEN + 4))
#ifndef EL_NESTED_LIGHT   /* header and leaf-payload octets: jobs C09.elleaf_* (plain mode); the contract-mode jobs for nested elements carry sizes and tiling only */
/* C7 header octets = reference encoding of (tag, flags, payload length), short form exactly when allowed */
__CPROVER_ensures(IMPLIES(!EL_CHILD(element) && __CPROVER_return_value == KSI_OK && buf != NULL && EL_HDR(opt) && EL_TOT(element, opt) <= buf_size,
		buf[EL_POS(element, opt, buf_size)] == spec_tlv_enc_hdr_byte(element->ftlv.tag, element->ftlv.is_nc, element->ftlv.is_fwd, EL_DAT(element), 0) &&
		buf[EL_POS(element, opt, buf_size) + 1] == spec_tlv_enc_hdr_byte(element->ftlv.tag, element->ftlv.is_nc, element->ftlv.is_fwd, EL_DAT(element), 1) &&
		(spec_tlv_enc_hdr_len(element->ftlv.tag, EL_DAT(element)) == 2 ||
			(buf[EL_POS(element, opt, buf_size) + 2] == spec_tlv_enc_hdr_byte(element->ftlv.tag, element->ftlv.is_nc, element->ftlv.is_fwd, EL_DAT(element), 2) &&
			 buf[EL_POS(element, opt, buf_size) + 3] == spec_tlv_enc_hdr_byte(element->ftlv.tag, element->ftlv.is_nc, element->ftlv.is_fwd, EL_DAT(element), 3)))))
/* C8 leaf payload octets arrive unchanged, directly after the header */
__CPROVER_ensures(IMPLIES(!EL_CHILD(element) && EL_LEAF(element) && __CPROVER_return_value == KSI_OK && buf != NULL && g_el_k < EL_DAT(element) && EL_TOT(element, opt) <= buf_size &&
		EL_MEM_WITNESS_AT(g_el_k, (EL_TOT(element, opt) - EL_DAT(element)) + g_el_k, opt),
		buf[EL_POS(element, opt, buf_size) + (EL_TOT(element, opt) - EL_DAT(element)) + g_el_k] == element->ptr[element->ftlv.hdr_len + g_el_k]))
#endif
/* C9 nested: every child serialized once, the children tile the payload (witness child lies between its neighbours, undisturbed) */
__CPROVER_ensures(IMPLIES(!EL_CHILD(element) && !EL_LEAF(element) && __CPROVER_return_value == KSI_OK, g_el_calls == g_el_len))
__CPROVER_ensures(IMPLIES(!EL_CHILD(element) && !EL_LEAF(element) && __CPROVER_return_value == KSI_OK && buf != NULL && g_el_w < g_el_len && g_el_k < g_el_w_size && EL_TOT(element, opt) <= buf_size &&
		EL_MEM_WITNESS_AT(0, EL_TOT(element, opt) - g_el_w_right - g_el_w_size + g_el_k, opt),
		g_el_w_size <= g_el_sum && g_el_w_right <= g_el_sum - g_el_w_size &&
		buf[EL_POS(element, opt, buf_size) + EL_TOT(element, opt) - g_el_w_right - g_el_w_size + g_el_k] == g_el_byte))
/* the child's own write (exact-size buffer, KSI_TLV_OPT_NO_MOVE): names the witness octet */
__CPROVER_ensures(IMPLIES(EL_CHILD(element) && __CPROVER_return_value == KSI_OK && buf != NULL && g_el_pos == g_el_w && g_el_k < g_el_cur && g_el_cur <= buf_size,
		buf[EL_POS(element, opt, buf_size) + g_el_k] == g_el_byte))
__CPROVER_assigns(len != NULL: *len; buf != NULL: __CPROVER_object_upto(buf, buf_size);
		!EL_CHILD(element): g_el_calls, g_el_sum, g_el_cur, g_el_cur_bad, g_el_any_bad, g_el_pos, g_el_w_right, g_el_w_size, g_el_child);
#endif
