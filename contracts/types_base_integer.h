/* Contracts for types_base.c integer value parser (C10).  The TLV is the model of env/c10_tlv_value.h. */
#include "spec/intcodec.h"

/* accepted  <=>  payload obtainable, at most 8 octets, no leading zero octet (0 is the empty payload), (allocation ok);
 * value     ==   big-endian value of the payload;   rejected => *o untouched, INVALID_FORMAT for a schema violation */
int KSI_Integer_fromTlv(KSI_TLV *tlv, KSI_Integer **o)
__CPROVER_requires(__CPROVER_is_fresh(tlv, sizeof(*tlv)) && __CPROVER_is_fresh(o, sizeof(*o)))
__CPROVER_requires(tlv->datap_len <= 16 && __CPROVER_is_fresh(tlv->datap, 16))
__CPROVER_ensures(IMPLIES(__CPROVER_return_value == KSI_OK,
		tlv->raw_res == KSI_OK && spec_int_wellformed(tlv->datap, tlv->datap_len) && *o != NULL &&
		(*o)->value == spec_int_value(tlv->datap, tlv->datap_len)))
__CPROVER_ensures(IMPLIES(__CPROVER_return_value != KSI_OK, *o == __CPROVER_old(*o)))
__CPROVER_ensures(IMPLIES(tlv->raw_res != KSI_OK, __CPROVER_return_value == tlv->raw_res))
__CPROVER_ensures(IMPLIES(tlv->raw_res == KSI_OK && !spec_int_wellformed(tlv->datap, tlv->datap_len), __CPROVER_return_value == KSI_INVALID_FORMAT))
__CPROVER_ensures(IMPLIES(tlv->raw_res == KSI_OK && spec_int_wellformed(tlv->datap, tlv->datap_len),
		__CPROVER_return_value == KSI_OK || __CPROVER_return_value == KSI_OUT_OF_MEMORY))
/* small values come from the immutable pool, others are fresh objects with one reference */
__CPROVER_ensures(IMPLIES(__CPROVER_return_value == KSI_OK && (*o)->value >= 256, (*o)->ref == 1))
__CPROVER_assigns(*o, g_tlv_getraw_calls);
