/* Contracts for the functions of net_ha.c that fan a query / an option out over the list of sub-services (C15, builderT).
 * Ghosts from env/net_ha_glue.h (set by the harness before the call; the requires clauses pin them).
 * The property text (C15) speaks about requests and configurations only; what these functions owe is taken from their
 * call sites (KSI_AsyncService_getPendingCount / getReceivedCount / setOption / getOption dispatch to them, net_async.h
 * documents "number of requests in process / ready to be extracted" and "option is applied to the service"):
 *   - every sub-service is asked exactly once, in order (monitor), nothing is touched after the first failure,
 *   - the first failure is the result,
 *   - a request handed to the HA service sits in EVERY accepting sub-service, so the counts are combined by MAX
 *     (not by sum); received additionally counts what waits in the HA response queue. */
#ifndef CONTRACTS_NET_HA_GLUE_H
#define CONTRACTS_NET_HA_GLUE_H

#define GL_FRESH (g_gl_at == 0 && g_gl_calls == 0 && !g_gl_failed && g_gl_max == 0 && g_gl_same && g_gl_set_calls == 0)
#define GL_GHOSTS g_gl_at, g_gl_calls, g_gl_lastres, g_gl_failed, g_gl_max, g_gl_first, g_gl_same, g_gl_set_calls
/* all sub-services were visited and served, none failed */
#define GL_ALL_SERVED (g_gl_len > 0 && g_gl_at == g_gl_len && g_gl_calls == g_gl_len && !g_gl_failed)

static int KSI_HighAvailabilityService_getPendingCount(KSI_HighAvailabilityService *has, size_t *count)
__CPROVER_requires(has != NULL && has->services == &g_gl_list && count != NULL && GL_FRESH)
__CPROVER_ensures(IMPLIES(g_gl_len == 0, __CPROVER_return_value == KSI_INVALID_STATE && g_gl_at == 0))
__CPROVER_ensures(IFF(__CPROVER_return_value == KSI_OK, GL_ALL_SERVED))
__CPROVER_ensures(IMPLIES(__CPROVER_return_value == KSI_OK, *count == g_gl_max))
__CPROVER_ensures(IMPLIES(__CPROVER_return_value != KSI_OK, *count == __CPROVER_old(*count)))
__CPROVER_ensures(IMPLIES(__CPROVER_return_value != KSI_OK && g_gl_len > 0, g_gl_failed && __CPROVER_return_value == g_gl_lastres))
__CPROVER_assigns(*count, GL_GHOSTS);

static int KSI_HighAvailabilityService_getReceivedCount(KSI_HighAvailabilityService *has, size_t *count)
__CPROVER_requires(has != NULL && has->services == &g_gl_list && count != NULL && GL_FRESH && has->respQueue != NULL && g_q_count >= 0)
__CPROVER_ensures(IMPLIES(g_gl_len == 0, __CPROVER_return_value == KSI_INVALID_STATE && g_gl_at == 0))
__CPROVER_ensures(IFF(__CPROVER_return_value == KSI_OK, GL_ALL_SERVED))
/* responses waiting in a sub-service (MAX over the sub-services) plus everything in the HA response queue */
__CPROVER_ensures(IMPLIES(__CPROVER_return_value == KSI_OK, *count == g_gl_max + (size_t)g_q_count))
__CPROVER_ensures(IMPLIES(__CPROVER_return_value != KSI_OK, *count == __CPROVER_old(*count)))
__CPROVER_ensures(IMPLIES(__CPROVER_return_value != KSI_OK && g_gl_len > 0, g_gl_failed && __CPROVER_return_value == g_gl_lastres))
__CPROVER_assigns(*count, GL_GHOSTS);

#define GL_OPT_PUSH_CONF KSI_ASYNC_OPT_PUSH_CONF_CALLBACK
#define GL_OPT_CONSOLIDATE KSI_ASYNC_OPT_CONF_CONSOLIDATE_CALLBACK
#define GL_OPT_SUBLIST KSI_ASYNC_OPT_HA_SUBSERVICE_LIST
#define GL_OPT_IS_OWN(o) ((o) == GL_OPT_PUSH_CONF || (o) == GL_OPT_CONSOLIDATE || (o) == GL_OPT_SUBLIST)

static int KSI_HighAvailabilityService_setOption(KSI_HighAvailabilityService *has, const int option, void *value)
__CPROVER_requires(has != NULL && has->services == &g_gl_list && GL_FRESH && option == g_gl_opt && value == g_gl_val)
__CPROVER_ensures(IMPLIES(g_gl_len == 0, __CPROVER_return_value == KSI_INVALID_STATE && g_gl_at == 0 &&
		has->confCallback == __CPROVER_old(has->confCallback) && has->confConsolidateCallback == __CPROVER_old(has->confConsolidateCallback)))
/* the two call-back options are kept by the HA service itself and never reach a sub-service; the sub-service list is read-only */
__CPROVER_ensures(IMPLIES(g_gl_len > 0 && option == GL_OPT_PUSH_CONF, __CPROVER_return_value == KSI_OK && g_gl_at == 0 && g_gl_calls == 0 &&
		has->confCallback == (KSI_Config_Callback)value && has->confConsolidateCallback == __CPROVER_old(has->confConsolidateCallback)))
__CPROVER_ensures(IMPLIES(g_gl_len > 0 && option == GL_OPT_CONSOLIDATE, __CPROVER_return_value == KSI_OK && g_gl_at == 0 && g_gl_calls == 0 &&
		has->confConsolidateCallback == (KSI_AsyncServiceCallback_configConsolidate)value && has->confCallback == __CPROVER_old(has->confCallback)))
__CPROVER_ensures(IMPLIES(g_gl_len > 0 && option == GL_OPT_SUBLIST, __CPROVER_return_value == KSI_INVALID_ARGUMENT && g_gl_at == 0 && g_gl_calls == 0 &&
		has->confCallback == __CPROVER_old(has->confCallback) && has->confConsolidateCallback == __CPROVER_old(has->confConsolidateCallback)))
/* every other option: OK <=> EVERY sub-service took (option, value), each exactly once; otherwise the first failure is reported and
 * no later sub-service is touched */
__CPROVER_ensures(IMPLIES(g_gl_len > 0 && !GL_OPT_IS_OWN(option), IFF(__CPROVER_return_value == KSI_OK, GL_ALL_SERVED && g_gl_set_calls == g_gl_len)))
__CPROVER_ensures(IMPLIES(g_gl_len > 0 && !GL_OPT_IS_OWN(option) && __CPROVER_return_value != KSI_OK,
		g_gl_failed && __CPROVER_return_value == g_gl_lastres && g_gl_set_calls + 1 == g_gl_at))
__CPROVER_ensures(IMPLIES(!GL_OPT_IS_OWN(option), has->confCallback == __CPROVER_old(has->confCallback) && has->confConsolidateCallback == __CPROVER_old(has->confConsolidateCallback)))
__CPROVER_assigns(has->confCallback, has->confConsolidateCallback, GL_GHOSTS);

static int KSI_HighAvailabilityService_getOption(const KSI_HighAvailabilityService *has, const int option, void *value)
__CPROVER_requires(has != NULL && has->services == &g_gl_list && GL_FRESH && option == g_gl_opt && __CPROVER_is_fresh(value, sizeof(size_t)))
__CPROVER_ensures(IMPLIES(g_gl_len == 0, __CPROVER_return_value == KSI_INVALID_STATE && g_gl_at == 0))
__CPROVER_ensures(IMPLIES(g_gl_len > 0 && option == GL_OPT_PUSH_CONF, __CPROVER_return_value == KSI_OK && g_gl_at == 0 && *(size_t *)value == (size_t)has->confCallback))
__CPROVER_ensures(IMPLIES(g_gl_len > 0 && option == GL_OPT_CONSOLIDATE, __CPROVER_return_value == KSI_OK && g_gl_at == 0 && *(size_t *)value == (size_t)has->confConsolidateCallback))
__CPROVER_ensures(IMPLIES(g_gl_len > 0 && option == GL_OPT_SUBLIST, __CPROVER_return_value == KSI_OK && g_gl_at == 0 && *(size_t *)value == (size_t)has->services))
/* every other option: OK <=> every sub-service was asked and they all agree; the common value is the result.  A disagreement
 * (an earlier setOption went through only partly) is reported as INVALID_STATE, never hidden */
__CPROVER_ensures(IMPLIES(g_gl_len > 0 && !GL_OPT_IS_OWN(option), IFF(__CPROVER_return_value == KSI_OK, GL_ALL_SERVED && g_gl_same)))
__CPROVER_ensures(IMPLIES(g_gl_len > 0 && !GL_OPT_IS_OWN(option) && __CPROVER_return_value == KSI_OK, *(size_t *)value == g_gl_first))
__CPROVER_ensures(IMPLIES(g_gl_len > 0 && !GL_OPT_IS_OWN(option) && __CPROVER_return_value != KSI_OK && !g_gl_failed, __CPROVER_return_value == KSI_INVALID_STATE && !g_gl_same))
__CPROVER_ensures(IMPLIES(g_gl_len > 0 && !GL_OPT_IS_OWN(option) && g_gl_failed, __CPROVER_return_value == g_gl_lastres))
__CPROVER_ensures(IMPLIES(__CPROVER_return_value != KSI_OK, *(size_t *)value == __CPROVER_old(*(size_t *)value)))
__CPROVER_assigns(*(size_t *)value, GL_GHOSTS);

#endif
