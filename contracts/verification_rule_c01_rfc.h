/* C01, "RFC3161-record" condition: contracts of the output-hash computation of verification_rule.c
 *   rfc3161_preSufHasher   H_alg(prefix || DIGEST(hash) || suffix)           enforced by C01.rfc_presuf, replaced in C01.rfc_outhash
 *   rfc3161_getOutputHash  the two pre/suf steps + H_alg0(IMPRINT(step 2))   enforced by C01.rfc_outhash
 * Ghost state and assumed stubs: env/ghost_rfc3161.h; reference transcript: spec/rfc3161.h.
 * -DRF_NO_OUTHASH_CONTRACT leaves the second contract out (job C01.rfc_outhash_assumed checks it against the text of
 * contracts/verification_rule_c01.h, which declares its own contract for the same function). */
#ifndef CONTRACTS_VERIFICATION_RULE_C01_RFC_H
#define CONTRACTS_VERIFICATION_RULE_C01_RFC_H

/* a live hash object of the world that satisfies the constructor invariant (algorithm octet present) */
#define RF_HASH_BYTES_OK(h) ((h)->imprint_length >= 1 && (h)->imprint_length <= sizeof((h)->imprint))
/* the object is addressed through its index in g_vr_h[]: a pointer that came out of a replaced contract (assumed equal to
 * &g_vr_h[k]) is not in the value set of symbolic execution and cannot be dereferenced directly */
#define RF_IDX(h) ((h) - &g_vr_h[0])
#define RF_HASH_OK(h) (vr_is_hash(h) && g_vr_h_ref[RF_IDX(h)] > 0 && g_vr_h[RF_IDX(h)].imprint_length >= 1 && g_vr_h[RF_IDX(h)].imprint_length <= KSI_MAX_IMPRINT_LEN + 1)
#define RF_IMPRINT_LEN(h) (g_vr_h[RF_IDX(h)].imprint_length)
#define RF_T_EMPTY(t) ((t).nopen == 0 && (t).nadd == 0 && (t).nclose == 0)

/* ------------------------------------------------ one pre/suf step ------------------------------------------------ */
/* KSI_OK  <=>  all arguments present and no environment call failed.
 * KSI_OK  =>  ONE hasher was opened with hsh_id, fed exactly [prefix octets (left out iff the octet string has no data),
 *             imprint+1 / imprint_len-1 of hsh (the digest WITHOUT the algorithm octet), suffix octets (left out iff no
 *             data)] in this order, closed once; *out is the hash that close produced (identity of this step, one
 *             reference, owned by the caller); the call is recorded (g_rf_call) and the step counter advances.
 * error   =>  *out untouched (still NULL: __CPROVER_old of a possibly-NULL slot is not expressible, the call sites pass
 *             an empty slot), no hash produced that is still alive.
 * always  =>  the hasher is freed (no leak; double free / use after free are assertions of the stubs); hsh keeps its
 *             reference count (frame). */
static int rfc3161_preSufHasher(KSI_CTX *ctx, const KSI_OctetString *prefix, const KSI_DataHash *hsh, const KSI_OctetString *suffix, int hsh_id, KSI_DataHash **out)
__CPROVER_requires(g_rf_step == 0 || g_rf_step == 1)
__CPROVER_requires(!g_rf_hasher_live && !g_rf_env_failed)
__CPROVER_requires(RF_T_EMPTY(g_rf_t[g_rf_step]))
__CPROVER_requires(g_vr_h_ref[RF_K(g_rf_step)] == 0 && RF_HASH_BYTES_OK(&g_vr_h[RF_K(g_rf_step)]))
__CPROVER_requires(out == NULL || *out == NULL)                      /* call sites: the result slot is an empty local */
__CPROVER_requires(hsh == NULL || RF_HASH_OK(hsh))                 /* imprint_len - 1 does not wrap: constructor invariant, C10 */
__CPROVER_ensures(IFF(__CPROVER_return_value == KSI_OK,
		ctx != NULL && prefix != NULL && hsh != NULL && suffix != NULL && out != NULL && !g_rf_env_failed))
__CPROVER_ensures(IMPLIES(__CPROVER_return_value == KSI_OK,
		g_rf_step == __CPROVER_old(g_rf_step) + 1 &&
		*out == &g_vr_h[RF_K(__CPROVER_old(g_rf_step))] && g_vr_h_ref[RF_K(__CPROVER_old(g_rf_step))] == 1 &&
		spec_rfc_presuf_transcript_ok(&g_rf_t[__CPROVER_old(g_rf_step)], hsh_id, prefix->data, prefix->data_len,
			hsh->imprint, RF_IMPRINT_LEN(hsh), suffix->data, suffix->data_len)))
__CPROVER_ensures(IMPLIES(__CPROVER_return_value == KSI_OK,
		g_rf_call[__CPROVER_old(g_rf_step)].prefix == prefix && g_rf_call[__CPROVER_old(g_rf_step)].hsh == hsh &&
		g_rf_call[__CPROVER_old(g_rf_step)].suffix == suffix && g_rf_call[__CPROVER_old(g_rf_step)].alg == hsh_id))
__CPROVER_ensures(IMPLIES(__CPROVER_return_value != KSI_OK,
		g_rf_step == __CPROVER_old(g_rf_step) && g_vr_h_ref[RF_K(__CPROVER_old(g_rf_step))] == 0 &&
		(out == NULL || *out == NULL)))
__CPROVER_ensures(!g_rf_hasher_live)
__CPROVER_assigns(out != NULL: *out; g_rf_step == 0: g_vr_h_ref[RF_H_TST]; g_rf_step != 0: g_vr_h_ref[RF_H_SIG];
		g_rf_t[g_rf_step], g_rf_call[g_rf_step], g_rf_step, g_rf_hasher_live, g_rf_env_failed);

/* ------------------------------------------------ the record's output hash ------------------------------------------------ */
/* an absent integer reads as 0 (KSI_Integer_getUInt64(NULL), types_base.c) */
static unsigned long long rf_u64(const KSI_Integer *i) { return i != NULL ? i->value : 0ULL; }
/* everything the computation needs is there (property text: record components, algorithm ids that fit an octet,
 * a first aggregation chain with an input hash) */
static int rf_world_computable(const KSI_Signature *sig, KSI_DataHash **outputHash) {
	const KSI_RFC3161 *r;
	const KSI_AggregationHashChain *c;
	if (sig == NULL || sig->rfc3161 == NULL || outputHash == NULL) return 0;
	r = sig->rfc3161;
	if (!spec_rfc_alg_ok(rf_u64(r->tstInfoAlgo)) || !spec_rfc_alg_ok(rf_u64(r->sigAttrAlgo))) return 0;
	if (sig->ctx == NULL || r->tstInfoPrefix == NULL || r->inputHash == NULL || r->tstInfoSuffix == NULL) return 0;
	if (r->sigAttrPrefix == NULL || r->sigAttrSuffix == NULL) return 0;
	c = vr_first_chain(sig);
	return c != NULL && c->inputHash != NULL;
}
/* the ghost record of an accepted computation: who was called with what, what was hashed in which order */
static int rf_computed_as_specified(const KSI_Signature *sig) {
	const KSI_RFC3161 *r = sig->rfc3161;
	const KSI_DataHash *tst = &g_vr_h[RF_H_TST], *sa = &g_vr_h[RF_H_SIG];
	if (g_rf_step != 2) return 0;
	/* step 1: H_tstInfoAlgo(tstInfoPrefix || DIGEST(inputHash) || tstInfoSuffix) */
#ifdef RF_CALLREC      /* only when rfc3161_preSufHasher is replaced by its contract (the contract writes the call record) */
	if (g_rf_call[0].prefix != r->tstInfoPrefix || g_rf_call[0].hsh != r->inputHash || g_rf_call[0].suffix != r->tstInfoSuffix) return 0;
	if (g_rf_call[0].alg != (int)rf_u64(r->tstInfoAlgo)) return 0;
#endif
	if (!spec_rfc_presuf_transcript_ok(&g_rf_t[0], (int)rf_u64(r->tstInfoAlgo), r->tstInfoPrefix->data, r->tstInfoPrefix->data_len,
			r->inputHash->imprint, r->inputHash->imprint_length, r->tstInfoSuffix->data, r->tstInfoSuffix->data_len)) return 0;
	/* step 2: H_sigAttrAlgo(sigAttrPrefix || DIGEST(step 1) || sigAttrSuffix) */
#ifdef RF_CALLREC
	if (g_rf_call[1].prefix != r->sigAttrPrefix || g_rf_call[1].hsh != tst || g_rf_call[1].suffix != r->sigAttrSuffix) return 0;
	if (g_rf_call[1].alg != (int)rf_u64(r->sigAttrAlgo)) return 0;
#endif
	if (!spec_rfc_presuf_transcript_ok(&g_rf_t[1], (int)rf_u64(r->sigAttrAlgo), r->sigAttrPrefix->data, r->sigAttrPrefix->data_len,
			tst->imprint, tst->imprint_length, r->sigAttrSuffix->data, r->sigAttrSuffix->data_len)) return 0;
	/* final: H_alg0(IMPRINT(step 2)), alg0 = algorithm of the first chain's input hash */
	return g_rf_create.n == 1 && g_rf_create.data == sa->imprint && g_rf_create.len == sa->imprint_length &&
		g_rf_create.alg == vr_alg(vr_first_chain(sig)->inputHash);
}

#ifndef RF_NO_OUTHASH_CONTRACT
/* KSI_OK  <=>  the world has everything (rf_world_computable) and no environment call failed.
 * KSI_OK  =>  computed as specified; *outputHash is the new hash (RF_H_OUT, one reference, owned by the caller).
 * always  =>  both intermediate hashes are released (reference count back to 0 - a second free is an assertion of
 *             KSI_DataHash_free), no hasher left; error => *outputHash untouched and the output identity not produced.
 * Frame: the signature, the record, the chains, the world's hashes are not assignable. */
static int rfc3161_getOutputHash(const KSI_Signature *sig, KSI_DataHash **outputHash)
__CPROVER_requires(sig == NULL || sig == &g_vr_sig)
__CPROVER_requires(outputHash == NULL || *outputHash == NULL)      /* call site: the result slot is an empty local */
__CPROVER_requires(g_rf_step == 0 && !g_rf_hasher_live && !g_rf_env_failed && RF_T_EMPTY(g_rf_t[0]) && RF_T_EMPTY(g_rf_t[1]) && g_rf_create.n == 0)
__CPROVER_requires(g_vr_h_ref[RF_H_TST] == 0 && g_vr_h_ref[RF_H_SIG] == 0 && g_vr_h_ref[RF_H_OUT] == 0)
__CPROVER_requires(RF_HASH_BYTES_OK(&g_vr_h[RF_H_TST]) && RF_HASH_BYTES_OK(&g_vr_h[RF_H_SIG]))      /* what close produces: constructor invariant */
__CPROVER_requires(g_vr_rfc.inputHash == NULL || RF_HASH_OK(g_vr_rfc.inputHash))                      /* parsed imprint: constructor invariant */
__CPROVER_requires(g_vr_chain0.inputHash == NULL || RF_HASH_OK(g_vr_chain0.inputHash))
__CPROVER_ensures(IFF(__CPROVER_return_value == KSI_OK, rf_world_computable(sig, outputHash) && !g_rf_env_failed))
__CPROVER_ensures(IMPLIES(__CPROVER_return_value == KSI_OK,
		rf_computed_as_specified(sig) && *outputHash == &g_vr_h[RF_H_OUT] && g_vr_h_ref[RF_H_OUT] == 1))
__CPROVER_ensures(IMPLIES(__CPROVER_return_value != KSI_OK,
		g_vr_h_ref[RF_H_OUT] == 0 && (outputHash == NULL || *outputHash == NULL)))
__CPROVER_ensures(g_vr_h_ref[RF_H_TST] == 0 && g_vr_h_ref[RF_H_SIG] == 0 && !g_rf_hasher_live)
__CPROVER_assigns(outputHash != NULL: *outputHash; g_rf_t[0], g_rf_t[1], g_rf_call[0], g_rf_call[1], g_rf_step, g_rf_hasher_live, g_rf_env_failed, g_rf_create,
		g_vr_h_ref[RF_H_TST], g_vr_h_ref[RF_H_SIG], g_vr_h_ref[RF_H_OUT]);
#endif
#endif
