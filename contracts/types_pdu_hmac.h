/* Contracts for the PDU-HMAC functions of types.c (C06).  Ghost state: env/c06_pdu.h. */

/* pdu_verifyHmac: OK  <=>  arguments present
 *                        ∧ (no algorithm configured ∨ algorithm of the received MAC == configured one)
 *                        ∧ the call-back, asked ONCE for (pdu, algorithm of the received MAC, key), said OK
 *                        ∧ received MAC equals the computed one.
 * Error codes as documented; the computed MAC is released exactly once on every path, nothing else is released. */
#ifndef C06_VH_CB
#define C06_VH_CB c06_calc
#endif
/* verdict of a replaced/enforced pdu_verifyHmac in terms of its ghost record */
#define C06_VH_ACCEPTED (g_vh_calc_calls == 1 && g_vh_calc_res == KSI_OK && g_vh_eq_calls == 1 && g_vh_eq_res)
#define C06_VH_ARGS_OK (ctx != NULL && hmac != NULL && key != NULL && calculateHmac != NULL && pdu != NULL)
#define C06_VH_ALG_OK  (conf_alg == KSI_HASHALG_INVALID_VALUE || (KSI_HashAlgorithm)hmac->imprint[0] == conf_alg)
int pdu_verifyHmac(KSI_CTX *ctx, const KSI_DataHash *hmac, const char *key, KSI_HashAlgorithm conf_alg,
		int (*calculateHmac)(const void*, int, const char*, KSI_DataHash**), void *pdu)
__CPROVER_requires(hmac == NULL || __CPROVER_is_fresh(hmac, sizeof(*hmac)))
/* the call-back: in the enforcing job the arbitrary harness call-back c06_calc; where this contract REPLACES the
 * call (KSI_*Pdu_verify jobs) C06_VH_CB is the call-back the caller must pass, checked at the call site */
__CPROVER_requires(calculateHmac == NULL || calculateHmac == C06_VH_CB)
__CPROVER_requires(g_vh_calc_calls == 0 && g_vh_eq_calls == 0 && g_vh_free_calls == 0 && g_vh_free_foreign == 0 && g_vh_calc_out == NULL)
/* the iff of the property */
__CPROVER_ensures(IFF(__CPROVER_return_value == KSI_OK,
		C06_VH_ARGS_OK && C06_VH_ALG_OK &&
		g_vh_calc_calls == 1 && g_vh_calc_res == KSI_OK &&
		g_vh_eq_calls == 1 && g_vh_eq_res))
/* what is asked of the call-back and what is compared */
__CPROVER_ensures(IMPLIES(g_vh_calc_calls > 0, g_vh_calc_calls == 1 && C06_VH_ARGS_OK && C06_VH_ALG_OK &&
		g_vh_calc_pdu == pdu && g_vh_calc_alg == (int)hmac->imprint[0] && g_vh_calc_key == key))
__CPROVER_ensures(IMPLIES(g_vh_eq_calls > 0, g_vh_eq_calls == 1 && g_vh_calc_calls == 1 && g_vh_calc_res == KSI_OK &&
		((g_vh_eq_l == hmac && g_vh_eq_r == g_vh_calc_out) || (g_vh_eq_r == hmac && g_vh_eq_l == g_vh_calc_out))))
/* the call-back is consulted whenever the cheap checks pass, and its MAC is always compared */
__CPROVER_ensures(IMPLIES(C06_VH_ARGS_OK && C06_VH_ALG_OK, g_vh_calc_calls == 1))
__CPROVER_ensures(IMPLIES(g_vh_calc_calls == 1 && g_vh_calc_res == KSI_OK, g_vh_eq_calls == 1))
/* error codes */
__CPROVER_ensures(IMPLIES(!C06_VH_ARGS_OK, __CPROVER_return_value == KSI_INVALID_ARGUMENT))
__CPROVER_ensures(IMPLIES(C06_VH_ARGS_OK && !C06_VH_ALG_OK, __CPROVER_return_value == KSI_HMAC_ALGORITHM_MISMATCH))
__CPROVER_ensures(IMPLIES(g_vh_calc_calls == 1 && g_vh_calc_res != KSI_OK, __CPROVER_return_value == g_vh_calc_res))
__CPROVER_ensures(IMPLIES(g_vh_eq_calls == 1 && !g_vh_eq_res, __CPROVER_return_value == KSI_HMAC_MISMATCH))
/* ownership: the computed MAC is released exactly once, the received one never */
__CPROVER_ensures(!g_vh_free_foreign)
__CPROVER_ensures(g_vh_free_calls == (g_vh_calc_out != NULL ? 1 : 0))
__CPROVER_assigns(g_vh_calc_calls, g_vh_calc_pdu, g_vh_calc_alg, g_vh_calc_key, g_vh_calc_res, g_vh_calc_out,
		g_vh_eq_calls, g_vh_eq_l, g_vh_eq_r, g_vh_eq_res, g_vh_free_calls, g_vh_free_foreign);

/* ------------------------------------------------------------------------------------------------
 * KSI_AggregationPdu_calculateHmac / KSI_ExtendPdu_calculateHmac (public; bodies of the static
 * pdu_calculateHmac, pdu_calculateHmac_v2, getObjectsRawValue and the real getters are inlined).
 *
 * PDU v2: the MAC is asked from KSI_HMAC_create ONCE, under (ctx of the PDU, algo_id, key), over
 *   [bytes, len - hashlen(algo_id))  where bytes/len are the received bytes kept in pdu->raw or, if there are
 *   none, the serialization of the whole PDU object with the request tag/template for a request PDU and the
 *   response tag/template for a response PDU.   len >= hashlen(algo_id) is the separate obligation
 *   "arithmetic overflow on unsigned -" (job flag --unsigned-overflow-check).
 * ret == OK <=> KSI_HMAC_create said OK; then *hmac is the object it made; otherwise *hmac is untouched.
 */
/* PDU v1: the MAC input is  header element bytes || payload element bytes  (in that order), each taken from the
 * received raw bytes of the element if present, else from its serialization (tag 0x01 / KSI_Header template for
 * the header; v1 request or response tag/template for the payload); request wins over response.
 * The content is checked at a witness index g_mac_wit chosen arbitrarily up front (bounded job: element
 * lengths <= C06_SER_MAX because of memcpy cost). */
#define C06_V1_HRAW(t) ((t)->header->raw)
#define C06_V1_PAY(t)  ((t)->request != NULL ? (const void *)(t)->request : (const void *)(t)->response)
#define C06_V1_PRAW(t) ((t)->request != NULL ? (t)->request->raw : (t)->response->raw)
#define C06_V1_PIDX(t) (C06_V1_HRAW(t) != NULL ? 0 : 1)
#define C06_V1_HLEN(t) (C06_V1_HRAW(t) != NULL ? C06_V1_HRAW(t)->data_len : g_ser_len[0])
#define C06_V1_PLEN(t) (C06_V1_PRAW(t) != NULL ? C06_V1_PRAW(t)->data_len : g_ser_len[C06_V1_PIDX(t)])
#define C06_V1_HBYTES(t) (C06_V1_HRAW(t) != NULL ? (const unsigned char *)C06_V1_HRAW(t)->data : (const unsigned char *)g_ser_shadow[0])
#define C06_V1_PBYTES(t) (C06_V1_PRAW(t) != NULL ? (const unsigned char *)C06_V1_PRAW(t)->data : (const unsigned char *)g_ser_shadow[C06_V1_PIDX(t)])
#define C06_V1_ON(t, OPT) ((t) != NULL && (t)->ctx != NULL && (t)->ctx->options[OPT] == KSI_PDU_VERSION_1)

#define C06_V2_CONTRACT(FN, PDU, OPT, REQTAG, RESPTAG, REQTMPL, RESPTMPL, REQTAG1, RESPTAG1, REQTMPL1, RESPTMPL1) \
int FN(const PDU *t, KSI_HashAlgorithm algo_id, const char *key, KSI_DataHash **hmac) \
__CPROVER_requires(g_ser_calls == 0 && g_hl_calls == 0 && g_mac_calls == 0 && g_mac_out == NULL && g_vh_free_calls == 0) \
/* (argument record: preset by the enforcing harness, set by a replaced call in the enclose jobs) */ \
__CPROVER_ensures(g_c06.call_t == (const void *)t && g_c06.call_alg == (int)algo_id && g_c06.call_key == key && \
		g_c06.call_placeholder == (t != NULL ? t->hmac : NULL)) \
__CPROVER_ensures(IMPLIES(t == NULL || t->ctx == NULL, __CPROVER_return_value == KSI_INVALID_ARGUMENT && g_mac_calls == 0)) \
__CPROVER_ensures(IMPLIES(t != NULL && t->ctx != NULL && t->ctx->options[OPT] != KSI_PDU_VERSION_1 && t->ctx->options[OPT] != KSI_PDU_VERSION_2, \
		__CPROVER_return_value == KSI_INVALID_FORMAT && g_mac_calls == 0)) \
__CPROVER_ensures(g_mac_calls <= 1) \
/* v2: what is authenticated.  Property scope: request PDUs built by the SDK (serialized with the request \
 * tag/template) and received PDUs (their raw bytes).  A response PDU WITHOUT raw bytes (built locally, server \
 * side) is outside the property: for it only "the MAC input is the serialization that was made" is stated. */ \
__CPROVER_ensures(IMPLIES(t != NULL && t->ctx != NULL && t->ctx->options[OPT] == KSI_PDU_VERSION_2 && g_mac_calls == 1, \
		key != NULL && hmac != NULL && t->header != NULL && (C06_IS_REQ(t) || C06_IS_RESP(t)) && \
		g_mac_ctx == t->ctx && g_mac_alg == (int)algo_id && g_mac_key == key && g_hl_calls >= 1 && g_hl_alg == (int)algo_id && \
		(t->raw != NULL \
			? (g_ser_calls == 0 && g_mac_data == t->raw->data && spec_pdu_v2_range_defined(t->raw->data_len, g_hl) && \
			   g_mac_len == spec_pdu_v2_range_len(t->raw->data_len, g_hl)) \
			: (g_ser_calls == 1 && g_ser_res[0] == KSI_OK && g_ser_obj[0] == (const void *)t && \
			   IMPLIES(C06_IS_REQ(t), g_ser_tag[0] == REQTAG && g_ser_tmpl[0] == REQTMPL) && \
			   g_mac_data == g_ser_buf[0] && spec_pdu_v2_range_defined(g_ser_len[0], g_hl) && \
			   g_mac_len == spec_pdu_v2_range_len(g_ser_len[0], g_hl))))) \
/* v2: the MAC is asked for whenever the range is defined; a PDU shorter than the digest is refused */ \
__CPROVER_ensures(IMPLIES(t != NULL && t->ctx != NULL && t->ctx->options[OPT] == KSI_PDU_VERSION_2 && \
		key != NULL && hmac != NULL && t->header != NULL && (C06_IS_REQ(t) || C06_IS_RESP(t)) && \
		(t->raw != NULL || (g_ser_calls == 1 && g_ser_res[0] == KSI_OK)), \
		g_hl_calls >= 1 && g_hl_alg == (int)algo_id && \
		(spec_pdu_v2_range_defined(t->raw != NULL ? t->raw->data_len : g_ser_len[0], g_hl) \
			? g_mac_calls == 1 : (g_mac_calls == 0 && __CPROVER_return_value == KSI_INVALID_FORMAT)))) \
__CPROVER_ensures(IMPLIES(t != NULL && t->ctx != NULL && t->ctx->options[OPT] == KSI_PDU_VERSION_2 && \
		!(key != NULL && hmac != NULL && t->header != NULL && (C06_IS_REQ(t) || C06_IS_RESP(t))), \
		__CPROVER_return_value == KSI_INVALID_ARGUMENT && g_mac_calls == 0 && g_ser_calls == 0)) \
/* v1: what is authenticated */ \
__CPROVER_ensures(IMPLIES(C06_V1_ON(t, OPT) && g_mac_calls == 1, \
		key != NULL && hmac != NULL && t->header != NULL && (t->request != NULL || t->response != NULL) && \
		g_mac_alg == (int)algo_id && g_mac_key == key && g_hl_calls == 0 && \
		g_ser_calls == (C06_V1_HRAW(t) != NULL ? 0 : 1) + (C06_V1_PRAW(t) != NULL ? 0 : 1) && \
		IMPLIES(C06_V1_HRAW(t) == NULL, g_ser_res[0] == KSI_OK && g_ser_obj[0] == (const void *)t->header && g_ser_tag[0] == 0x01 && \
				g_ser_tmpl[0] == KSI_TLV_TEMPLATE(KSI_Header)) && \
		IMPLIES(C06_V1_PRAW(t) == NULL, g_ser_res[C06_V1_PIDX(t)] == KSI_OK && g_ser_obj[C06_V1_PIDX(t)] == C06_V1_PAY(t) && \
				g_ser_tag[C06_V1_PIDX(t)] == (t->request != NULL ? REQTAG1 : RESPTAG1) && \
				g_ser_tmpl[C06_V1_PIDX(t)] == (t->request != NULL ? REQTMPL1 : RESPTMPL1)) && \
		g_mac_len == C06_V1_HLEN(t) + C06_V1_PLEN(t) && \
		IMPLIES(g_mac_wit < g_mac_len, g_mac_wit_valid && \
				g_mac_wit_byte == spec_pdu_v1_byte(C06_V1_HBYTES(t), C06_V1_HLEN(t), C06_V1_PBYTES(t), g_mac_wit)))) \
__CPROVER_ensures(IMPLIES(C06_V1_ON(t, OPT) && \
		!(key != NULL && hmac != NULL && t->header != NULL && (t->request != NULL || t->response != NULL)), \
		__CPROVER_return_value != KSI_OK && g_mac_calls == 0 && \
		IMPLIES(g_ser_calls == 0, __CPROVER_return_value == KSI_INVALID_ARGUMENT))) \
__CPROVER_ensures(IMPLIES(C06_V1_ON(t, OPT), IFF(__CPROVER_return_value == KSI_OK, g_mac_calls == 1 && g_mac_res == KSI_OK))) \
/* result */ \
__CPROVER_ensures(IMPLIES(t != NULL && t->ctx != NULL && t->ctx->options[OPT] == KSI_PDU_VERSION_2, \
		IFF(__CPROVER_return_value == KSI_OK, g_mac_calls == 1 && g_mac_res == KSI_OK))) \
__CPROVER_ensures(IMPLIES(__CPROVER_return_value == KSI_OK, *hmac == g_mac_out && g_mac_out != NULL)) \
__CPROVER_ensures(IMPLIES(__CPROVER_return_value != KSI_OK && hmac != NULL, *hmac == __CPROVER_old(*hmac))) \
__CPROVER_ensures(IMPLIES(g_mac_calls == 1 && g_mac_res != KSI_OK, __CPROVER_return_value == g_mac_res)) \
__CPROVER_ensures(IMPLIES(g_ser_calls == 1 && g_ser_res[0] != KSI_OK && t->ctx->options[OPT] == KSI_PDU_VERSION_2, __CPROVER_return_value == g_ser_res[0])) \
/* nothing is released through KSI_DataHash_free */ \
__CPROVER_ensures(g_vh_free_calls == 0) \
__CPROVER_assigns(*hmac, g_c06, g_vh_free_calls, g_vh_free_foreign);

/* The clauses below dereference the PDU only under explicit non-NULL guards; the per-dereference safety checks
 * that CBMC would generate for the *specification text* (about 900) are switched off for it - the checks of the
 * real code are unaffected. */
#pragma CPROVER check push
#pragma CPROVER check disable "pointer"
#pragma CPROVER check disable "pointer-primitive"
#pragma CPROVER check disable "bounds"
#ifdef C06_AGGR_CALC
/* a request PDU carries a request or a configuration request, a response PDU a response or a configuration */
#define C06_IS_CONF(t) ((t)->confRequest != NULL || (t)->confResponse != NULL)
#define C06_IS_REQ(t)  ((t)->request != NULL || (t)->confRequest != NULL)
#define C06_IS_RESP(t) (!C06_IS_REQ(t) && ((t)->response != NULL || (t)->confResponse != NULL))
C06_V2_CONTRACT(KSI_AggregationPdu_calculateHmac, KSI_AggregationPdu, KSI_OPT_AGGR_PDU_VER, 0x220, 0x221,
		KSI_TLV_TEMPLATE(KSI_AggregationReqPdu), KSI_TLV_TEMPLATE(KSI_AggregationRespPdu),
		0x201, 0x202, KSI_TLV_TEMPLATE(KSI_AggregationReq), KSI_TLV_TEMPLATE(KSI_AggregationResp))
#endif
#ifdef C06_EXT_CALC
#define C06_IS_CONF(t) ((t)->confRequest != NULL || (t)->confResponse != NULL)
#define C06_IS_REQ(t)  ((t)->request != NULL || (t)->confRequest != NULL)
#define C06_IS_RESP(t) (!C06_IS_REQ(t) && ((t)->response != NULL || (t)->confResponse != NULL))
C06_V2_CONTRACT(KSI_ExtendPdu_calculateHmac, KSI_ExtendPdu, KSI_OPT_EXT_PDU_VER, 0x320, 0x321,
		KSI_TLV_TEMPLATE(KSI_ExtendReqPdu), KSI_TLV_TEMPLATE(KSI_ExtendRespPdu),
		0x301, 0x302, KSI_TLV_TEMPLATE(KSI_ExtendReq), KSI_TLV_TEMPLATE(KSI_ExtendResp))
#endif

/* KSI_AggregationPdu_verify / KSI_ExtendPdu_verify (KSI_*Pdu_verifyHmac inlined, pdu_verifyHmac replaced by its contract):
 * OK <=> header present ∧ MAC present ∧ pdu_verifyHmac accepted the MAC of THIS pdu under the key given and the
 * MAC algorithm option of THIS service; without header or MAC nothing is verified and the answer is INVALID_FORMAT. */
#define C06_VERIFY_CONTRACT(FN, PDU, ALGOPT) \
int FN(const PDU *pdu, const char *pass) \
__CPROVER_requires(g_vh_calc_calls == 0 && g_vh_eq_calls == 0 && g_vh_free_calls == 0 && g_vh_free_foreign == 0 && g_vh_calc_out == NULL) \
__CPROVER_ensures(IFF(__CPROVER_return_value == KSI_OK, \
		pdu != NULL && pass != NULL && pdu->header != NULL && pdu->hmac != NULL && C06_VH_ACCEPTED)) \
__CPROVER_ensures(IMPLIES(__CPROVER_return_value == KSI_OK, \
		g_vh_calc_pdu == (const void *)pdu && g_vh_calc_key == pass && g_vh_calc_alg == (int)pdu->hmac->imprint[0] && \
		((KSI_HashAlgorithm)pdu->ctx->options[ALGOPT] == KSI_HASHALG_INVALID_VALUE || \
		 (KSI_HashAlgorithm)pdu->hmac->imprint[0] == (KSI_HashAlgorithm)pdu->ctx->options[ALGOPT]))) \
__CPROVER_ensures(IMPLIES(pdu == NULL || pass == NULL, __CPROVER_return_value == KSI_INVALID_ARGUMENT && g_vh_calc_calls == 0)) \
__CPROVER_ensures(IMPLIES(pdu != NULL && pass != NULL && (pdu->header == NULL || pdu->hmac == NULL), \
		__CPROVER_return_value == KSI_INVALID_FORMAT && g_vh_calc_calls == 0 && g_vh_eq_calls == 0)) \
__CPROVER_ensures(IMPLIES(pdu != NULL && pass != NULL && pdu->header != NULL && pdu->hmac != NULL && \
		(KSI_HashAlgorithm)pdu->ctx->options[ALGOPT] != KSI_HASHALG_INVALID_VALUE && \
		(KSI_HashAlgorithm)pdu->hmac->imprint[0] != (KSI_HashAlgorithm)pdu->ctx->options[ALGOPT], \
		__CPROVER_return_value == KSI_HMAC_ALGORITHM_MISMATCH)) \
__CPROVER_assigns(g_vh_calc_calls, g_vh_calc_pdu, g_vh_calc_alg, g_vh_calc_key, g_vh_calc_res, g_vh_calc_out, \
		g_vh_eq_calls, g_vh_eq_l, g_vh_eq_r, g_vh_eq_res, g_vh_free_calls, g_vh_free_foreign);
#ifdef C06_AGGR_VERIFY
C06_VERIFY_CONTRACT(KSI_AggregationPdu_verify, KSI_AggregationPdu, KSI_OPT_AGGR_HMAC_ALGORITHM)
#endif
#ifdef C06_EXT_VERIFY
C06_VERIFY_CONTRACT(KSI_ExtendPdu_verify, KSI_ExtendPdu, KSI_OPT_EXT_HMAC_ALGORITHM)
#endif

/* KSI_AggregationReq_encloseWithHeader / KSI_ExtendReq_encloseWithHeader (KSI_*Pdu_new/_setHeader/_updateHmac/_free real and
 * inlined, KSI_*Pdu_calculateHmac replaced by its contract above):
 *   no MAC algorithm configured -> INVALID_STATE;  untrusted MAC algorithm -> UNTRUSTED_HASH_ALGORITHM; in both cases
 *        no placeholder is made and no MAC is computed ("refused before anything is MAC-ed");
 *   OK => algorithm configured and trusted ∧ a zero placeholder of THAT algorithm was put into the PDU ∧ the MAC was
 *        computed ONCE over that PDU (header = the header given) while it held the placeholder, under (that algorithm,
 *        the key given) ∧ the PDU handed out carries the computed MAC ∧ the placeholder was released;
 *   error => *pdu untouched, header and request still the caller's (the PDU object is emptied before it is released). */
/* assumed (replaced): the release functions of types.c, recorded - what the PDU still held when it was released */
#define C06_FREE_CONTRACTS(REQ, PDU) \
void PDU##_free(PDU *t) \
__CPROVER_ensures(g_en.pdu_free_calls == __CPROVER_old(g_en.pdu_free_calls) + (t != NULL ? 1 : 0)) \
__CPROVER_ensures(IMPLIES(t != NULL, g_en.pdu_free_hdr == (const void *)t->header && g_en.pdu_free_req == (const void *)t->request && g_en.pdu_free_mac == t->hmac)) \
__CPROVER_assigns(g_en.pdu_free_calls, g_en.pdu_free_hdr, g_en.pdu_free_req, g_en.pdu_free_mac); \
void REQ##_free(REQ *t) \
__CPROVER_ensures(g_en.req_free_calls == __CPROVER_old(g_en.req_free_calls) + (t != NULL ? 1 : 0)) \
__CPROVER_ensures(IMPLIES(t != NULL, g_en.req_freed == (const void *)t)) \
__CPROVER_assigns(g_en.req_free_calls, g_en.req_freed);

#define C06_ENCLOSE_CONTRACT(FN, REQ, PDU, ALGOPT) \
int FN(REQ *req, KSI_Header *hdr, const char *key, PDU **pdu) \
__CPROVER_requires(g_en.trusted_calls == 0 && g_en.zero_calls == 0 && g_en.zero_free == 0 && g_en.mac_free == 0 && g_en.other_free == 0 && \
		g_c06.call_t == NULL && g_ser_calls == 0 && g_hl_calls == 0 && g_mac_calls == 0 && g_mac_out == NULL && g_vh_free_calls == 0 && g_en.zero == NULL) \
__CPROVER_ensures(IMPLIES(req == NULL || hdr == NULL || key == NULL || pdu == NULL, __CPROVER_return_value == KSI_INVALID_ARGUMENT && g_c06.call_t == NULL)) \
__CPROVER_ensures(IMPLIES(req != NULL && hdr != NULL && key != NULL && pdu != NULL && \
		(KSI_HashAlgorithm)__CPROVER_old(req->ctx->options[ALGOPT]) == KSI_HASHALG_INVALID_VALUE, \
		__CPROVER_return_value != KSI_OK && g_en.zero_calls == 0 && g_c06.call_t == NULL)) \
__CPROVER_ensures(IMPLIES(g_en.trusted_calls > 0 && !g_en.trusted, \
		__CPROVER_return_value == KSI_UNTRUSTED_HASH_ALGORITHM && g_en.zero_calls == 0 && g_c06.call_t == NULL)) \
__CPROVER_ensures(IMPLIES(__CPROVER_return_value == KSI_OK, \
		req != NULL && hdr != NULL && key != NULL && pdu != NULL && \
		g_en.trusted_calls == 1 && g_en.trusted && g_en.trusted_alg != KSI_HASHALG_INVALID_VALUE && \
		g_en.zero_calls == 1 && g_en.zero_res == KSI_OK && g_en.zero_alg == g_en.trusted_alg && \
		g_c06.call_t == (const void *)*pdu && g_c06.call_alg == g_en.trusted_alg && g_c06.call_key == key && \
		g_c06.call_placeholder == g_en.zero && \
		*pdu != NULL && (*pdu)->header == hdr && (*pdu)->hmac == g_mac_out && g_mac_out != NULL && \
		g_en.zero_free == 1 && g_en.mac_free == 0 && g_en.other_free == 0 && g_en.pdu_free_calls == 0 && \
		/* the interface takes ownership of the request: it is in the PDU, or released */ \
		((*pdu)->request == req ? g_en.req_free_calls == 0 : (g_en.req_free_calls == 1 && g_en.req_freed == (const void *)req && (*pdu)->request == NULL)))) \
__CPROVER_ensures(IMPLIES(__CPROVER_return_value != KSI_OK && pdu != NULL, *pdu == __CPROVER_old(*pdu))) \
__CPROVER_ensures(IMPLIES(__CPROVER_return_value != KSI_OK, g_en.other_free == 0 && g_en.req_free_calls == 0 && g_en.pdu_free_calls <= 1 && \
		IMPLIES(g_en.pdu_free_calls == 1, g_en.pdu_free_hdr == NULL && g_en.pdu_free_req == NULL))) \
__CPROVER_assigns(*pdu, g_en, g_c06, g_vh_free_calls, g_vh_free_foreign; \
		req != NULL && req->config != NULL: req->config->ref);      /* (a configuration request is shared with the PDU: one more reference) */
#ifdef C06_AGGR_ENCLOSE
C06_FREE_CONTRACTS(KSI_AggregationReq, KSI_AggregationPdu)
C06_ENCLOSE_CONTRACT(KSI_AggregationReq_encloseWithHeader, KSI_AggregationReq, KSI_AggregationPdu, KSI_OPT_AGGR_HMAC_ALGORITHM)
#endif
#ifdef C06_EXT_ENCLOSE
C06_FREE_CONTRACTS(KSI_ExtendReq, KSI_ExtendPdu)
C06_ENCLOSE_CONTRACT(KSI_ExtendReq_encloseWithHeader, KSI_ExtendReq, KSI_ExtendPdu, KSI_OPT_EXT_HMAC_ALGORITHM)
#endif
#pragma CPROVER check pop
