/* Contract of publicationsfile.c generateNextTlv (C18): the record generator of the publications file parser.
 * Ghost state: env/c18_tlv.h.  'elem' below = the first element of the unread input [ptr, ptr+len).
 *   - offset counts exactly the octets consumed: it advances by the size of the element handed out, together with ptr,
 *     and len shrinks by the same amount (so offset == ptr - start and ptr + len == end are preserved);
 *   - sig_offset == the offset at which the 0x0704 (signature) record starts; hasSignature is set by it only;
 *   - once the signature was seen, any further element (the input is not exhausted) is INVALID_FORMAT;
 *   - end of input: OK with *tlv == NULL, nothing consumed;
 *   - an incomplete element is rejected (INVALID_FORMAT) with nothing consumed;
 *   - the TLV handed out the time before is released exactly once, the new one is parsed from a private copy of
 *     exactly the element's octets (witness index g18_w) which it owns; on failure nothing is handed out. */
#include "spec/tlv.h"
#ifndef PUBFILE_MAXIN
#define PUBFILE_MAXIN 24     /* octets of unread input offered to the generator in this job */
#endif

static int generateNextTlv(struct generator_st *gen, KSI_TLV **tlv)
__CPROVER_requires(__CPROVER_is_fresh(gen, sizeof(*gen)) && __CPROVER_is_fresh(tlv, sizeof(*tlv)))
__CPROVER_requires(gen->len <= PUBFILE_MAXIN && __CPROVER_is_fresh(gen->ptr, gen->len) && gen->ctx != NULL)
__CPROVER_requires(gen->tlv == NULL || __CPROVER_is_fresh(gen->tlv, sizeof(*gen->tlv)))
__CPROVER_requires(g18_parse_calls == 0 && g18_free_calls == 0 && g18_owned_buf == NULL)
/* the previous TLV is released exactly once, whatever happens next */
__CPROVER_ensures(g18_free_calls == (__CPROVER_old(gen->tlv) != NULL ? 1 : 0) && IMPLIES(__CPROVER_old(gen->tlv) != NULL, g18_freed_last == __CPROVER_old(gen->tlv)))
/* end of input */
__CPROVER_ensures(IMPLIES(__CPROVER_old(gen->len) == 0,
		__CPROVER_return_value == KSI_OK && *tlv == NULL && gen->tlv == NULL && g18_parse_calls == 0 &&
		gen->offset == __CPROVER_old(gen->offset) && gen->ptr == __CPROVER_old(gen->ptr) && gen->len == 0 &&
		gen->sig_offset == __CPROVER_old(gen->sig_offset) && gen->hasSignature == __CPROVER_old(gen->hasSignature)))
/* incomplete element: rejected, nothing consumed */
__CPROVER_ensures(IMPLIES(__CPROVER_old(gen->len) > 0 && !spec_tlv_elem_complete(__CPROVER_old(gen->ptr), __CPROVER_old(gen->len)),
		__CPROVER_return_value == KSI_INVALID_FORMAT && gen->ptr == __CPROVER_old(gen->ptr) && gen->len == __CPROVER_old(gen->len) &&
		gen->offset == __CPROVER_old(gen->offset) && g18_parse_calls == 0 && gen->tlv == NULL))
/* anything after the signature record: rejected */
__CPROVER_ensures(IMPLIES(__CPROVER_old(gen->len) > 0 && __CPROVER_old(gen->hasSignature), __CPROVER_return_value != KSI_OK && g18_parse_calls == 0 && gen->tlv == NULL))
__CPROVER_ensures(IMPLIES(__CPROVER_old(gen->len) > 0 && __CPROVER_old(gen->hasSignature) && spec_tlv_elem_complete(__CPROVER_old(gen->ptr), __CPROVER_old(gen->len)),
		__CPROVER_return_value == KSI_INVALID_FORMAT || __CPROVER_return_value == KSI_OUT_OF_MEMORY))
/* success on a non-empty input: exactly one element consumed and handed out */
__CPROVER_ensures(IMPLIES(__CPROVER_return_value == KSI_OK && __CPROVER_old(gen->len) > 0,
		spec_tlv_elem_complete(__CPROVER_old(gen->ptr), __CPROVER_old(gen->len)) && !__CPROVER_old(gen->hasSignature) &&
		gen->ptr == __CPROVER_old(gen->ptr) + spec_tlv_elem_size(__CPROVER_old(gen->ptr), __CPROVER_old(gen->len)) &&
		gen->len == __CPROVER_old(gen->len) - spec_tlv_elem_size(__CPROVER_old(gen->ptr), __CPROVER_old(gen->len)) &&
		gen->offset == __CPROVER_old(gen->offset) + spec_tlv_elem_size(__CPROVER_old(gen->ptr), __CPROVER_old(gen->len)) &&
		*tlv != NULL && *tlv == gen->tlv && (*tlv)->tag == spec_tlv_dec_tag(__CPROVER_old(gen->ptr), __CPROVER_old(gen->len)) &&
		/* parsed from a private copy of exactly the element, owned by the TLV */
		g18_parse_calls == 1 && g18_parse_own == 1 && g18_parse_ctx == gen->ctx && g18_owned_buf == g18_parse_data &&
		g18_parse_len == spec_tlv_elem_size(__CPROVER_old(gen->ptr), __CPROVER_old(gen->len)) &&
		g18_parse_data != __CPROVER_old(gen->ptr) &&
		IMPLIES(g18_w < g18_parse_len, g18_parse_byte == __CPROVER_old(gen->ptr)[g18_w])))
/* the signature record fixes sig_offset; nothing else touches it */
__CPROVER_ensures(IMPLIES(__CPROVER_return_value == KSI_OK && __CPROVER_old(gen->len) > 0 && spec_tlv_dec_tag(__CPROVER_old(gen->ptr), __CPROVER_old(gen->len)) == 0x0704,
		gen->hasSignature && gen->sig_offset == __CPROVER_old(gen->offset)))
__CPROVER_ensures(IMPLIES(!(__CPROVER_return_value == KSI_OK && __CPROVER_old(gen->len) > 0 && spec_tlv_dec_tag(__CPROVER_old(gen->ptr), __CPROVER_old(gen->len)) == 0x0704),
		gen->hasSignature == __CPROVER_old(gen->hasSignature) && gen->sig_offset == __CPROVER_old(gen->sig_offset)))
/* failure: nothing handed out, and the copy made for the parser does not leak (checked with --memory-leak-check) */
__CPROVER_ensures(IMPLIES(__CPROVER_return_value != KSI_OK, gen->tlv == NULL && *tlv == __CPROVER_old(*tlv) && g18_owned_buf == NULL))
__CPROVER_ensures(gen->ctx == __CPROVER_old(gen->ctx))
__CPROVER_assigns(*tlv, gen->tlv, gen->ptr, gen->len, gen->offset, gen->sig_offset, gen->hasSignature,
		g18_parse_calls, g18_free_calls, g18_freed_last, g18_parse_data, g18_parse_len, g18_parse_own, g18_parse_ctx, g18_parse_byte, g18_owned_buf);
