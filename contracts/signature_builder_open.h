/* Contract of KSI_SignatureBuilder_openFromAggregationResp (signature_builder.c:831), C07:
 * a reply with a non-zero status yields the converted error and NO builder.   Ghost: env/c07_builder.h.
 * KSI_convertAggregatorStatusCode is the real one (net.c included).
 *   status present and != 0  -> converted service error, *builder untouched, nothing built (no TLV, no signature object)
 *   wrong element tag        -> INVALID_FORMAT, nothing built
 *   OK                       -> status absent or 0 ∧ *builder is a new builder whose signature refers to the reply's
 *                               auth records and calendar chain and holds a signature TLV
 *   not OK                   -> *builder untouched, everything built on the way released */
#define C07_STATUS_ZERO(resp) ((resp)->status == NULL || (resp)->status->value == 0)
#define C07_TAG_OK(resp) ((resp)->baseTlv != NULL && ((resp)->baseTlv->tag == 0x202 || (resp)->baseTlv->tag == 0x02))
#pragma CPROVER check push
#pragma CPROVER check disable "pointer"
#pragma CPROVER check disable "pointer-primitive"
int KSI_SignatureBuilder_openFromAggregationResp(const KSI_AggregationResp *resp, KSI_SignatureBuilder **builder)
__CPROVER_requires(g_b.tlv_live == 0 && g_b.list_live == 0 && g_b.sig_free_calls == 0 && g_b.refs_aar == 0 && g_b.refs_car == 0 && g_b.refs_cal == 0)
__CPROVER_ensures(IMPLIES(resp == NULL || builder == NULL, __CPROVER_return_value == KSI_INVALID_ARGUMENT))
__CPROVER_ensures(IMPLIES(resp != NULL && builder != NULL && !C07_TAG_OK(resp), __CPROVER_return_value == KSI_INVALID_FORMAT && g_b.refs_cal == 0))
__CPROVER_ensures(IMPLIES(resp != NULL && builder != NULL && C07_TAG_OK(resp) && !C07_STATUS_ZERO(resp),
		__CPROVER_return_value != KSI_OK && __CPROVER_return_value == KSI_convertAggregatorStatusCode(resp->status) &&
		g_b.refs_aar == 0 && g_b.refs_car == 0 && g_b.refs_cal == 0 && g_b.sig_free_calls == 0))
__CPROVER_ensures(IMPLIES(__CPROVER_return_value == KSI_OK,
		resp != NULL && builder != NULL && C07_TAG_OK(resp) && C07_STATUS_ZERO(resp) && *builder != NULL && (*builder)->sig != NULL &&
		(*builder)->noVerify == 0 &&
		(*builder)->sig->aggregationAuthRec == resp->aar && (*builder)->sig->calendarAuthRec == resp->car &&
		(*builder)->sig->calendarChain == resp->cal && (*builder)->sig->baseTlv != NULL &&
		(*builder)->sig->baseTlv->tag == 0x0800 &&
		IMPLIES(resp->chains != NULL, (*builder)->sig->aggregationChainList == &g_b_newchainlist &&
				g_bl.append_calls == g_b_al_len && g_bl.refs_chain == g_b_al_len)))
__CPROVER_ensures(IMPLIES(__CPROVER_return_value != KSI_OK && builder != NULL, *builder == __CPROVER_old(*builder)))
/* temporaries: the two working TLVs are released; on error also the signature object */
__CPROVER_ensures(g_b.tlv_live == (__CPROVER_return_value == KSI_OK ? 1 : 0))
__CPROVER_assigns(*builder, g_b, g_bl, g_b_tl_len, g_b_el);
#pragma CPROVER check pop

/* KSI_SignatureBuilder_openFromSignature (signature_builder.c:796), C08: extending works on a CLONE of the source.
 *   OK => the builder's signature is the object made by KSI_Signature_clone(source) - a different object - and the
 *         source is not written (it is not in the frame);   not OK => *builder untouched, nothing left behind. */
#pragma CPROVER check push
#pragma CPROVER check disable "pointer"
#pragma CPROVER check disable "pointer-primitive"
int KSI_SignatureBuilder_openFromSignature(const KSI_Signature *sig, KSI_SignatureBuilder **builder)
__CPROVER_requires(g_b.clone_calls == 0 && g_b.sig_free_calls == 0 && g_b.tlv_live == 0)
__CPROVER_ensures(IMPLIES(__CPROVER_return_value == KSI_OK,
		sig != NULL && builder != NULL && g_b.clone_calls == 1 && g_b.clone_res == KSI_OK && g_b.clone_from == (const void *)sig &&
		*builder != NULL && (*builder)->sig != NULL && (*builder)->sig != sig && (*builder)->noVerify == 0 && (*builder)->ctx == sig->ctx))
__CPROVER_ensures(IMPLIES(sig == NULL || builder == NULL, __CPROVER_return_value == KSI_INVALID_ARGUMENT && g_b.clone_calls == 0))
__CPROVER_ensures(IMPLIES(__CPROVER_return_value != KSI_OK && builder != NULL, *builder == __CPROVER_old(*builder)))
__CPROVER_ensures(IMPLIES(g_b.clone_calls == 1 && g_b.clone_res != KSI_OK, __CPROVER_return_value == g_b.clone_res))
__CPROVER_assigns(*builder, g_b);
#pragma CPROVER check pop
