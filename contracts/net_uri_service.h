/* Contract for net_uri.c uriClient_setService (C20) over env/ghost_uri_service.h.
 * H = the harness' HTTP client, T = TCP client, F = file client (model objects). */
static int uriClient_setService(KSI_NetworkClient *client, const char *uri, const char *loginId, const char *key,
		int (*HttpClient_setService)(KSI_NetworkClient *client, const char *url, const char *user, const char *pass),
		int (*TcpClient_setService)(KSI_NetworkClient *client, const char *host, unsigned port, const char *user, const char *pass),
		int (*FsClient_setService)(KSI_NetworkClient *client, const char *path, const char *user, const char *pass),
		KSI_NetworkClient **serviceClient)
__CPROVER_requires(client == &h_client && uri != NULL && uri == g_us_uri && loginId == g_us_login && key == g_us_key && serviceClient == &h_service)
__CPROVER_requires(HttpClient_setService == us_http && TcpClient_setService == us_tcp && FsClient_setService == us_fs)
__CPROVER_requires(g_us_split_calls == 0 && g_us_class_calls == 0 && g_us_comp_calls == 0 && g_us_http_calls == 0 && g_us_tcp_calls == 0 && g_us_fs_calls == 0 &&
		g_us_new_tcp_calls == 0 && g_us_new_fs_calls == 0 && g_us_extract_calls == 0 &&
		g_us_schm == NULL && g_us_user == NULL && g_us_pass == NULL && g_us_host == NULL && g_us_path == NULL && g_us_query == NULL && g_us_frag == NULL && g_us_extracted == NULL)
__CPROVER_assigns(h_service, h_uri.tcpClient, h_uri.fsClient,
		g_us_split_calls, g_us_split_res, g_us_schm, g_us_user, g_us_pass, g_us_host, g_us_path, g_us_query, g_us_frag, g_us_port,
		g_us_class_calls, g_us_class, g_us_comp_calls, g_us_comp_res, g_us_comp_args_ok, g_us_comp_nocreds, g_us_comp_buf,
		g_us_http_calls, g_us_http_res, g_us_http_url_is_buf, g_us_http_url_is_uri, g_us_http_client, g_us_http_user, g_us_http_pass, g_us_http_url,
		g_us_tcp_calls, g_us_tcp_res, g_us_tcp_client, g_us_tcp_host, g_us_tcp_user, g_us_tcp_pass, g_us_tcp_port,
		g_us_fs_calls, g_us_fs_res, g_us_fs_client, g_us_fs_path, g_us_fs_user, g_us_fs_pass,
		g_us_new_tcp_calls, g_us_new_tcp_res, g_us_new_fs_calls, g_us_new_fs_res, g_us_extract_calls, g_us_extracted)
/* the URI is split and classified exactly once; exactly one transport is addressed, at most once */
__CPROVER_ensures(g_us_split_calls == 1 && g_us_class_calls == 1 && g_us_http_calls + g_us_tcp_calls + g_us_fs_calls <= 1)
/* HTTP class: URL = compose(rewritten scheme, no user, no key, host, port, path, query, fragment as split); that buffer is the URL */
__CPROVER_ensures(IMPLIES(g_us_class == URI_HTTP, g_us_comp_calls == 1 && g_us_comp_nocreds && g_us_comp_args_ok && g_us_tcp_calls == 0 && g_us_fs_calls == 0 &&
		(g_us_comp_res != KSI_OK ? (g_us_http_calls == 0 && __CPROVER_return_value == g_us_comp_res)
		 : (g_us_http_calls == 1 && g_us_http_client == &h_http && g_us_http_url_is_buf && US_LOGIN_OK(g_us_http_user) && US_KEY_OK(g_us_http_pass) && __CPROVER_return_value == g_us_http_res))))
/* unknown scheme (also: unparsable URI): URI unchanged to the HTTP transport with the explicit credentials only */
__CPROVER_ensures(IMPLIES(g_us_class == URI_UNKNOWN, g_us_comp_calls == 0 && g_us_tcp_calls == 0 && g_us_fs_calls == 0 && g_us_http_calls == 1 && g_us_http_client == &h_http &&
		g_us_http_url_is_uri && g_us_http_user == g_us_login && g_us_http_pass == g_us_key && __CPROVER_return_value == g_us_http_res))
/* TCP class: host and port as split; refused without host or port */
__CPROVER_ensures(IMPLIES(g_us_class == URI_TCP, g_us_comp_calls == 0 && g_us_http_calls == 0 && g_us_fs_calls == 0 &&
		((g_us_host == NULL || g_us_port == 0) ? (g_us_tcp_calls == 0 && g_us_new_tcp_calls == 0 && __CPROVER_return_value == KSI_INVALID_ARGUMENT)
		 : (g_us_new_tcp_calls == 1 && g_us_new_tcp_res != KSI_OK) ? (g_us_tcp_calls == 0 && __CPROVER_return_value == g_us_new_tcp_res)
		 : (g_us_tcp_calls == 1 && g_us_tcp_client == &h_tcp && h_uri.tcpClient == &h_tcp && g_us_tcp_host == g_us_host && g_us_tcp_port == g_us_port &&
		    US_LOGIN_OK(g_us_tcp_user) && US_KEY_OK(g_us_tcp_pass) && __CPROVER_return_value == g_us_tcp_res))))
/* FILE class: the file client gets the extracted path and the explicit credentials */
__CPROVER_ensures(IMPLIES(g_us_class == URI_FILE, g_us_comp_calls == 0 && g_us_http_calls == 0 && g_us_tcp_calls == 0 && g_us_extract_calls == 1 &&
		(g_us_extracted == NULL ? (g_us_fs_calls == 0 && __CPROVER_return_value == KSI_INVALID_ARGUMENT)
		 : (g_us_new_fs_calls == 1 && g_us_new_fs_res != KSI_OK) ? (g_us_fs_calls == 0 && __CPROVER_return_value == g_us_new_fs_res)
		 : (g_us_fs_calls == 1 && g_us_fs_client == &h_fs && g_us_fs_path == g_us_extracted && g_us_fs_user == g_us_login && g_us_fs_pass == g_us_key && __CPROVER_return_value == g_us_fs_res))))
/* embedded credentials never reach the URL / host / path given to a transport */
__CPROVER_ensures(IMPLIES(g_us_http_calls == 1, g_us_http_url != g_us_user && g_us_http_url != g_us_pass))
__CPROVER_ensures(IMPLIES(g_us_user != NULL && g_us_tcp_calls == 1, g_us_tcp_host != g_us_user && g_us_tcp_host != g_us_pass))
/* the selected client is reported on success only */
__CPROVER_ensures(__CPROVER_return_value == KSI_OK ? h_service == (g_us_http_calls ? &h_http : g_us_tcp_calls ? &h_tcp : &h_fs) : h_service == __CPROVER_old(h_service));
