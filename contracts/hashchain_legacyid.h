/* Contracts for hashchain.c legacy identifier check (C10). */
#include "spec/legacyid.h"
#ifndef LEGACYID_MAXBUF
#define LEGACYID_MAXBUF 40    /* buffers offered are at most this long; every length but 29 is rejected alike */
#endif

/* OK <=> exactly the well-formed legacy identifiers; nothing is written; not a single octet beyond raw_len is read */
static int legacyId_verify(KSI_CTX *ctx, const unsigned char *raw, size_t raw_len)
__CPROVER_requires(raw_len <= LEGACYID_MAXBUF && (raw == NULL || __CPROVER_is_fresh(raw, raw_len)))
__CPROVER_ensures(IFF(__CPROVER_return_value == KSI_OK, raw != NULL && spec_legacyid_wellformed(raw, raw_len)))
__CPROVER_ensures(__CPROVER_return_value == KSI_OK || __CPROVER_return_value == KSI_INVALID_FORMAT ||
		(__CPROVER_return_value == KSI_INVALID_ARGUMENT && raw == NULL))
__CPROVER_assigns();
