/* Summary contract of KSI_PublicationData_fromBase32 used with --replace-call-with-contract by C18.lift_bypubstring
 * (builderV; after builderO's contracts/publicationsfile_frombase32_summary.h).
 * ASSUMED here; what the decoder accepts is decided on the real body by C17.pubstr.fromBase32 (builderB,
 * contracts/publicationsfile_pubstr.h, in terms of another ghost environment): any verdict; on success a fresh
 * published-data object with one reference carrying the decoded time (a fresh integer object with one reference and
 * the value g18l_t = the time the lookup model is asked for) and the decoded imprint (identity only); on failure the
 * output is left alone.
 * Two dfcc/CBMC facts shape the text (see obligations/C18/NOTES_lift.md):
 *  - the ensures clauses of a REPLACED contract are assumed in textual order: __CPROVER_is_fresh (the only thing
 *    that ASSIGNS the pointer) comes before every clause / conjunct that dereferences the pointer;
 *  - a pointer that is only pinned by an assumed equality (`p->time == &obj`) cannot be dereferenced by symex (the
 *    read goes to an unrelated "invalid object", silently): every object the caller dereferences is therefore handed
 *    out with is_fresh, never as the address of a ghost global. */
static char g_bp_imp_obj;                 /* the decoded imprint (identity only) */
unsigned g_bp_calls; int g_bp_res; const char *g_bp_str; KSI_CTX *g_bp_ctx;
int KSI_PublicationData_fromBase32(KSI_CTX *ctx, const char *publication, KSI_PublicationData **published_data)
__CPROVER_requires(published_data != NULL && *published_data == NULL && publication != NULL)
__CPROVER_ensures(g_bp_calls == __CPROVER_old(g_bp_calls) + 1 && g_bp_str == publication && g_bp_ctx == ctx && g_bp_res == __CPROVER_return_value)
__CPROVER_ensures(IMPLIES(__CPROVER_return_value != KSI_OK, *published_data == NULL))
__CPROVER_ensures(IMPLIES(__CPROVER_return_value == KSI_OK, __CPROVER_is_fresh(*published_data, sizeof(KSI_PublicationData))))
__CPROVER_ensures(IMPLIES(__CPROVER_return_value == KSI_OK, __CPROVER_is_freeable(*published_data)))
__CPROVER_ensures(IMPLIES(__CPROVER_return_value == KSI_OK, __CPROVER_is_fresh((*published_data)->time, sizeof(struct KSI_Integer_st))))
__CPROVER_ensures(IMPLIES(__CPROVER_return_value == KSI_OK, __CPROVER_is_freeable((*published_data)->time)))
__CPROVER_ensures(IMPLIES(__CPROVER_return_value == KSI_OK,
	(*published_data)->ref == 1 && (*published_data)->ctx == ctx && (*published_data)->baseTlv == NULL &&
	(*published_data)->time->ref == 1 && (*published_data)->time->value == g18l_t &&
	(*published_data)->imprint == (KSI_DataHash *)&g_bp_imp_obj))
__CPROVER_assigns(*published_data, g_bp_calls, g_bp_res, g_bp_str, g_bp_ctx);
