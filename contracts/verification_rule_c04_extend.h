/* C04 contracts for the extender round trip inside the rules: receiveCalendarHashChain (static helper) and the four
 * rules that call it.  Ghost: env/ghost_c04_extend.h.  Property C04: "a forbidden, unavailable or failed extension gives an
 * inconclusive result (NA, possibly with an error status - never OK and never FAIL)"; the calendar chain of the reply is
 * only looked at by later rules when it was buffered in tempData.calendarChain by a successful round trip. */
#ifndef CONTRACTS_VERIFICATION_RULE_C04_EXTEND_H
#define CONTRACTS_VERIFICATION_RULE_C04_EXTEND_H

#define C04_X_FRAME \
	g_c04_x_create_calls, g_c04_x_send_calls, g_c04_x_perform_calls, g_c04_x_getresp_calls, g_c04_x_start, g_c04_x_end, \
	g_c04_x_req_live, g_c04_x_handle_live, g_c04_x_resp_live, g_c04_x_old_live, g_c04_x_new_live, \
	g_c04_req.aggregationTime, g_c04_req.publicationTime, g_c04_resp.calendarHashChain, g_c04_al_calls

#define C04_X_FRESH (g_c04_x_create_calls == 0 && g_c04_x_send_calls == 0 && g_c04_x_perform_calls == 0 && g_c04_x_getresp_calls == 0 \
	&& g_c04_x_req_live == 0 && g_c04_x_handle_live == 0 && g_c04_x_resp_live == 0 && g_c04_x_convert_res != KSI_OK \
	&& g_c04_x_old_live == (g_c04_td.calendarChain == &g_c04_extCal) && g_c04_x_new_live == 0 \
	&& (g_c04_td.calendarChain == NULL || g_c04_td.calendarChain == &g_c04_extCal) \
	&& (g_c04_resp.calendarHashChain == NULL || g_c04_resp.calendarHashChain == &g_c04_newCal))

/* a round trip was made for the signature's own aggregation time and the asked publication time */
static _Bool c04_x_request_is_for(const KSI_VerificationContext *info, const KSI_Integer *endTime) {
	const KSI_Integer *t = c04_signing_time(info);
	return g_c04_x_create_calls == 1 && g_c04_x_end == endTime && t != NULL && g_c04_x_start == t;   /* the very time object of the signature */
}
/* the element the request's aggregation time is read from exists (a calendar chain that omits its optional aggregation
 * time element makes the round trip fail - observation recorded in NOTES.md, not a C04 violation: the outcome is NA) */
static _Bool c04_x_start_element_present(const KSI_VerificationContext *info) {
	const KSI_Signature *sig = info->signature;
	if (sig->calendarChain != NULL) return sig->calendarChain->aggregationTime != NULL;
	return c04_first_aggr_time(info) != NULL;
}

/* ---------------------------------------------------------------- receiveCalendarHashChain */
/* Jobs that REPLACE the call by this contract (-DC04_REPLACE_RECEIVE) additionally get a pure ghost record of the call
 * (argument and outcome); the job that ENFORCES the contract on the real body has the same clauses without the record. */
#ifdef C04_REPLACE_RECEIVE
#define C04_RCV_RECORD_ENSURES __CPROVER_ensures(g_c04_rcv_calls == __CPROVER_old(g_c04_rcv_calls) + 1 && g_c04_rcv_end == endTime && g_c04_rcv_res == __CPROVER_return_value)
#define C04_RCV_RECORD_FRAME g_c04_rcv_calls, g_c04_rcv_end, g_c04_rcv_res;
#else
#define C04_RCV_RECORD_ENSURES
#define C04_RCV_RECORD_FRAME
#endif
static int receiveCalendarHashChain(KSI_VerificationContext *info, KSI_Integer *endTime)
__CPROVER_requires(C04_X_FRESH)
__CPROVER_requires(info == NULL || info == &g_c04_info)
C04_RCV_RECORD_ENSURES
/* success: the whole round trip succeeded for the right times, the reply is usable, its chain is buffered and detached */
__CPROVER_ensures(IMPLIES(__CPROVER_return_value == KSI_OK,
	C04_ARGS_OK(info) && info->tempData != NULL && c04_x_reply_usable() && c04_x_request_is_for(info, endTime)
	&& g_c04_x_send_calls == 1 && g_c04_x_perform_calls == 1 && g_c04_x_getresp_calls == 1
	&& g_c04_td.calendarChain == __CPROVER_old(g_c04_resp.calendarHashChain) && g_c04_resp.calendarHashChain == NULL
	&& g_c04_x_new_live == (g_c04_td.calendarChain != NULL)))
/* failure of any kind: nothing is buffered - later rules cannot look at an unverified reply */
__CPROVER_ensures(IMPLIES(__CPROVER_return_value != KSI_OK,
	((C04_ARGS_OK(info) && info->tempData != NULL) ? g_c04_td.calendarChain == NULL : g_c04_td.calendarChain == __CPROVER_old(g_c04_td.calendarChain))
	&& g_c04_x_new_live == 0))
__CPROVER_ensures(IMPLIES(C04_ARGS_OK(info) && info->tempData != NULL && c04_x_start_element_present(info) && !c04_x_reply_usable(),
	__CPROVER_return_value == c04_x_failure_status()))
/* liveness: a usable reply is accepted */
__CPROVER_ensures(IMPLIES(C04_ARGS_OK(info) && info->tempData != NULL && c04_x_start_element_present(info) && c04_x_reply_usable(),
	__CPROVER_return_value == KSI_OK))
/* the chain buffered before is released exactly once as soon as the context is usable; nothing else leaks */
__CPROVER_ensures(c04_x_nothing_leaked())
__CPROVER_ensures(IMPLIES(C04_ARGS_OK(info) && info->tempData != NULL, g_c04_x_old_live == 0))
__CPROVER_assigns(g_c04_td.calendarChain; C04_RCV_RECORD_FRAME C04_X_FRAME);

/* ---------------------------------------------------------------- the four "extend" rules
 * HOLDS  <=> the round trip for the documented publication time succeeded; otherwise NA - never FAIL. */
#define C04_X_RULE_COMMON(rule, END_OK, END) \
	C04_COMMON_REQUIRES \
	__CPROVER_requires(g_c04_rcv_calls == 0) \
	__CPROVER_ensures(result == NULL ? __CPROVER_return_value == KSI_INVALID_ARGUMENT : \
		spec_c04_verdict_matches(C04_CASE2((END_OK) && g_c04_rcv_calls == 1, g_c04_rcv_res == KSI_OK), 0, __CPROVER_return_value, result->resultCode, result->errorCode)) \
	__CPROVER_ensures(IMPLIES(C04_IS_OK, g_c04_rcv_end == (END))) \
	__CPROVER_ensures(IMPLIES(result != NULL && g_c04_rcv_calls == 1 && g_c04_rcv_res != KSI_OK, \
		(__CPROVER_return_value == KSI_OK && result->status == g_c04_rcv_res) || __CPROVER_return_value == g_c04_rcv_res)) \
	__CPROVER_ensures(g_c04_rcv_calls <= 1 && c04_resources_balanced())

int KSI_VerificationRule_ExtendSignatureCalendarChainInputHashToHead(KSI_VerificationContext *info, KSI_RuleVerificationResult *result)
C04_X_RULE_COMMON(ExtendSignatureCalendarChainInputHashToHead, C04_ARGS_OK(info), NULL)
__CPROVER_ensures(IMPLIES(result != NULL && C04_ARGS_OK(info), g_c04_rcv_calls == 1))
__CPROVER_assigns(result != NULL: *result; g_c04_td.calendarChain; g_c04_rcv_calls, g_c04_rcv_end, g_c04_rcv_res; C04_X_FRAME; C04_GHOST_FRAME);

int KSI_VerificationRule_ExtendSignatureCalendarChainInputHashToSamePubTime(KSI_VerificationContext *info, KSI_RuleVerificationResult *result)
C04_X_RULE_COMMON(ExtendSignatureCalendarChainInputHashToSamePubTime, C04_ARGS_OK(info) && info->signature->calendarChain != NULL, info->signature->calendarChain->publicationTime)
__CPROVER_ensures(IMPLIES(result != NULL && C04_ARGS_OK(info) && info->signature->calendarChain != NULL, g_c04_rcv_calls == 1))
__CPROVER_assigns(result != NULL: *result; g_c04_td.calendarChain; g_c04_rcv_calls, g_c04_rcv_end, g_c04_rcv_res; C04_X_FRAME; C04_GHOST_FRAME);

int KSI_VerificationRule_UserProvidedPublicationExtendToPublication(KSI_VerificationContext *info, KSI_RuleVerificationResult *result)
C04_X_RULE_COMMON(UserProvidedPublicationExtendToPublication, C04_ARGS_OK(info) && info->userPublication != NULL && info->userPublication->time != NULL, info->userPublication->time)
__CPROVER_ensures(IMPLIES(result != NULL && C04_ARGS_OK(info) && info->userPublication != NULL && info->userPublication->time != NULL, g_c04_rcv_calls == 1))
__CPROVER_assigns(result != NULL: *result; g_c04_td.calendarChain; g_c04_rcv_calls, g_c04_rcv_end, g_c04_rcv_res; C04_X_FRAME; C04_GHOST_FRAME);

/* publications file: extend to the publication of the trusted file that is nearest to the signing time */
int KSI_VerificationRule_PublicationsFileExtendToPublication(KSI_VerificationContext *info, KSI_RuleVerificationResult *result)
C04_X_RULE_COMMON(PublicationsFileExtendToPublication,
	c04_evaluable_pubfile_nearest(info) && g_c04_lk_found && g_c04_fileRec.publishedData != NULL && g_c04_fileRec.publishedData->time != NULL,
	g_c04_fileRec.publishedData->time)
__CPROVER_ensures(IMPLIES(C04_IS_OK, c04_lookup_used(info, C04_LK_NEAREST, c04_signing_time(info))))
__CPROVER_assigns(result != NULL: *result; g_c04_td.calendarChain; g_c04_td.publicationsFile; g_c04_rcv_calls, g_c04_rcv_end, g_c04_rcv_res; C04_X_FRAME; C04_GHOST_FRAME);

#endif
