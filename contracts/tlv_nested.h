/* Ghost part of the contract of tlv.c:serializeNested (C09: nested lengths tile exactly), against env/ghost_tlvlist.h.
 * Included BEFORE contracts/tlv_serialize.h by the job that enforces serializeNested. */
#ifndef CONTRACTS_TLV_NESTED_H
#define CONTRACTS_TLV_NESTED_H
unsigned char g_st_byte;   /* name of octet g_tlv_k of the witness child's encoding */

/* replaced callee inside the loop: one child, with header, right-aligned in [buf, buf+buf_size).
 * Size and witness octet are NAMED by ghosts chosen freshly by the list stub for this very child. */
#define TLV_CHILD_CLAUSES \
__CPROVER_ensures(IMPLIES(__CPROVER_return_value == KSI_OK, *buf_len == g_nl_cur)) \
__CPROVER_ensures(IMPLIES(__CPROVER_return_value == KSI_OK && buf != NULL && g_nl_pos == g_nl_w && g_tlv_k < *buf_len && *buf_len <= buf_size, \
		buf[buf_size - *buf_len + g_tlv_k] == g_st_byte))

#define TLV_NESTED_GHOST
#define TLV_NESTED_GHOST_CLAUSES \
__CPROVER_requires(tlv->nested == NULL || tlv->nested == &g_nl_list) \
__CPROVER_requires(g_nl_calls == 0 && g_nl_sum == 0 && !g_nl_overflow) \
/* every child serialized exactly once (order: stub protocol), the reported length is the sum of the children's sizes */ \
__CPROVER_ensures(IMPLIES(__CPROVER_return_value == KSI_OK, \
		(tlv->nested == NULL ? (g_nl_calls == 0 && *buf_len == 0) : (g_nl_calls == g_nl_len && *buf_len == g_nl_sum && (buf == NULL || !g_nl_overflow))))) \
/* the witness child lies exactly between its right neighbours and its left neighbours, undisturbed */ \
__CPROVER_ensures(IMPLIES(__CPROVER_return_value == KSI_OK && buf != NULL && tlv->nested != NULL && g_nl_w < g_nl_len && g_tlv_k < g_nl_w_size, \
		*buf_len <= buf_size && g_nl_w_size <= *buf_len && g_nl_w_right <= *buf_len - g_nl_w_size && buf[buf_size - g_nl_w_right - g_nl_w_size + g_tlv_k] == g_st_byte))
#define TLV_NESTED_GHOST_ASSIGNS ; g_nl_calls, g_nl_sum, g_nl_cur, g_nl_pos, g_nl_w_right, g_nl_w_size, g_nl_overflow, g_nl_child
#endif
