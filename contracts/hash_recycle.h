/* C11 / C19: life cycle of data hash objects and the context's recycle bin (hash.c). */
void KSI_DataHash_free(KSI_DataHash *hsh)
__CPROVER_requires(hsh == NULL || (hsh == g_h_p && (hsh->ctx == NULL || hsh->ctx == g_ctx_p)))   /* harness: a heap object */
__CPROVER_requires(g_bin_appends == 0 && g_bin_appended == NULL && g_bin_len < 1000000)
/* shared object: only the count drops */
__CPROVER_ensures(IMPLIES(hsh != NULL && __CPROVER_old(hsh->ref) >= 2, !__CPROVER_was_freed(hsh) && hsh->ref == __CPROVER_old(hsh->ref) - 1 && g_bin_appends == 0 &&
		hsh->ctx == __CPROVER_old(hsh->ctx) && hsh->imprint_length == __CPROVER_old(hsh->imprint_length)))
/* last reference: stored in the bin exactly once (count 0, room left), or released; never both */
__CPROVER_ensures(IMPLIES(hsh != NULL && __CPROVER_old(hsh->ref) == 1, (g_bin_appends == 1 && g_bin_appended == hsh && !__CPROVER_was_freed(hsh) && hsh->ref == 0 &&
		__CPROVER_old(hsh->ctx) == g_ctx_p && __CPROVER_old(g_bin_len) < g_ctx_p->options[KSI_OPT_DATAHASH_CACHE_SIZE]) || (g_bin_appends == 0 && __CPROVER_was_freed(hsh))))
/* an object whose count is already 0 (it sits in the bin, which releases its elements this way) is released, not stored again */
__CPROVER_ensures(IMPLIES(hsh != NULL && __CPROVER_old(hsh->ref) == 0, g_bin_appends == 0 && __CPROVER_was_freed(hsh)))
__CPROVER_ensures(IMPLIES(hsh == NULL, g_bin_appends == 0))
__CPROVER_assigns(hsh != NULL: hsh->ref; g_bin_len, g_bin_appended, g_bin_appends)
__CPROVER_frees(hsh);

