/* C11 / C19: life cycle of data hash objects and the context's recycle bin (hash.c). */
void KSI_DataHash_free(KSI_DataHash *hsh)
__CPROVER_requires(hsh == NULL || (hsh == g_h_p && (hsh->ctx == NULL || hsh->ctx == g_ctx_p)))   /* harness: a heap object */
__CPROVER_requires(g_bin_appends == 0 && g_bin_appended == NULL && g_bin_len < 1000000)
/* shared object: only the count drops */
__CPROVER_ensures(IMPLIES(hsh != NULL && __CPROVER_old(hsh->ref) >= 2, !__CPROVER_was_freed(hsh) && hsh->ref == __CPROVER_old(hsh->ref) - 1 && g_bin_appends == 0 &&
		hsh->ctx == __CPROVER_old(hsh->ctx) && hsh->imprint_length == __CPROVER_old(hsh->imprint_length)))
/* last reference: stored in the bin exactly once (count 0, room left), or released; never both */
__CPROVER_ensures(IMPLIES(hsh != NULL && __CPROVER_old(hsh->ref) == 1, (g_bin_appends == 1 && g_bin_appended == hsh && !__CPROVER_was_freed(hsh) && hsh->ref == 0 &&
		__CPROVER_old(hsh->ctx) == g_ctx_p && __CPROVER_old(g_bin_len) < g_ctx_p->options[KSI_OPT_DATAHASH_CACHE_SIZE]) || (g_bin_appends == 0 && __CPROVER_was_freed(hsh))))
/* an object whose count is already 0 (it sits in the bin, which releases its elements this way) is released, not stored again */
__CPROVER_ensures(IMPLIES(hsh != NULL && __CPROVER_old(hsh->ref) == 0, g_bin_appends == 0 && __CPROVER_was_freed(hsh)))
__CPROVER_ensures(IMPLIES(hsh == NULL, g_bin_appends == 0))
__CPROVER_assigns(hsh != NULL: hsh->ref; g_bin_len, g_bin_appended, g_bin_appends)
__CPROVER_frees(hsh);

/* KSI_DataHasher_close: the hash object handed out is new or recycled, and in both cases completely initialised:
 * reference count 1, the hasher's context, imprint and length written by the provider call-back. */
int KSI_DataHasher_close(KSI_DataHasher *hsr, KSI_DataHash **data_hash)
__CPROVER_requires(hsr == g_hsr_p && __CPROVER_is_fresh(data_hash, sizeof(*data_hash)))
__CPROVER_requires(g_bin_appends == 0 && g_bin_removes == 0 && g_bin_appended == NULL && g_bin_len < 1000000 && g_recycled.ref == 0 && !g_close_cb_called)
__CPROVER_ensures(IMPLIES(__CPROVER_return_value == KSI_OK, *data_hash != NULL && (*data_hash)->ref == 1 && (*data_hash)->ctx == g_ctx_p &&
		g_close_cb_called && g_close_cb_obj == *data_hash && (*data_hash)->imprint_length == g_close_cb_len && !hsr->isOpen))
/* a recycled object is used exactly when the bin is not empty, and it leaves the bin */
__CPROVER_ensures(IMPLIES(__CPROVER_return_value == KSI_OK && __CPROVER_old(g_bin_len) > 0, *data_hash == &g_recycled && g_bin_removes == 1 && g_bin_appends == 0))
__CPROVER_ensures(IMPLIES(__CPROVER_return_value == KSI_OK && __CPROVER_old(g_bin_len) == 0, *data_hash != &g_recycled && g_bin_removes == 0 && g_bin_appends == 0))
/* failure: nothing handed out; an object taken from the bin or allocated is returned to the bin (count 0) or released */
__CPROVER_ensures(IMPLIES(__CPROVER_return_value != KSI_OK, *data_hash == __CPROVER_old(*data_hash) && g_recycled.ref == 0))
__CPROVER_assigns(*data_hash, hsr->isOpen, g_recycled, g_bin_len, g_bin_appended, g_bin_appends, g_bin_removes, g_bin_remove_pos, g_close_cb_called, g_close_cb_obj, g_close_cb_len);
