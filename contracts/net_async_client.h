/* Contracts for net_async.c (C13): the request cache of the asynchronous client.  Inv(c) = spec/async_inv.h.
 * Every contract is an INDUCTIVE STEP: it starts from an arbitrary client state satisfying Inv(c) (any history)
 * and states the effect of one operation, including Inv(c) afterwards.  Counting is unrolled for N <= 5
 * (user cache size 1..4), hence level bounded(cache <= 4). */
#ifndef CONTRACTS_NET_ASYNC_CLIENT_H
#define CONTRACTS_NET_ASYNC_CLIENT_H
#include "spec/async_inv.h"

/* The contract expressions below read handles only behind ainv_slot_used() / NULL guards (and snapshot pointees
 * unconditionally, the snapshot being looked at only behind the same guards).  CBMC would generate ~5000 pointer
 * checks for these ghost reads alone (minutes of solver time); they are switched off for the CONTRACT TEXT only -
 * every dereference in the bodies of net_async.c keeps its checks. */
#pragma CPROVER check push
#pragma CPROVER check disable "pointer"
#pragma CPROVER check disable "pointer-primitive"
#pragma CPROVER check disable "pointer-overflow"

/* ghost: first empty slot in scan order at entry of asyncClient_calculateRequestId (0 = none); tied to the state by
 * a requires clause, used by the loop contract (termination measure) */
size_t g_ac_first_empty;

/* ---- slot allocation ------------------------------------------------------------------------------------------
 * OK          => *id is an EMPTY slot inside the cache, it is the cursor, *offset is the id generation;
 * cache full  => refused: returns KSI_ASYNC_REQUEST_CACHE_FULL (in particular the scan terminates - loop contract);
 * refused     => the cache is full by the client's own accounting, and with no separately cached configuration
 *                handle "refused <=> every slot occupied" exactly;
 * nothing but the two cursors changes (frame). */
static int asyncClient_calculateRequestId(KSI_AsyncClient *c, KSI_uint64_t *id, KSI_uint64_t *offset)
__CPROVER_requires(c != NULL && id != NULL && offset != NULL && ainv_inv(c))
__CPROVER_requires(g_ac_first_empty == ainv_first_empty(c))
__CPROVER_ensures(__CPROVER_return_value == KSI_OK || __CPROVER_return_value == KSI_ASYNC_REQUEST_CACHE_FULL)
__CPROVER_ensures(IMPLIES(__CPROVER_return_value == KSI_OK,
		*id >= 1 && *id < ainv_N(c) && c->reqCache[*id] == NULL && *id == c->requestCount &&
		*offset == c->requestCountOffset))
__CPROVER_ensures(IMPLIES(ainv_occupied(c) == ainv_N(c) - 1, __CPROVER_return_value == KSI_ASYNC_REQUEST_CACHE_FULL))
/* refused <=> the number of outstanding requests has reached the configured cache size; since fix bc7f25b the scan also
 * ends after one full cycle (all slots taken plus a cached configuration request used to loop forever) */
__CPROVER_ensures(IFF(__CPROVER_return_value == KSI_ASYNC_REQUEST_CACHE_FULL, c->pending + c->received + 1 >= ainv_N(c)))   /* outstanding requests (incl. a cached configuration request) >= configured cache size */
__CPROVER_ensures(IMPLIES(c->serverConf == NULL, IFF(__CPROVER_return_value == KSI_ASYNC_REQUEST_CACHE_FULL, ainv_occupied(c) == ainv_N(c) - 1)))
__CPROVER_ensures(IMPLIES(__CPROVER_return_value == KSI_ASYNC_REQUEST_CACHE_FULL && c->serverConf == NULL,
		c->requestCount == __CPROVER_old(c->requestCount) && c->requestCountOffset == __CPROVER_old(c->requestCountOffset)))
__CPROVER_ensures(ainv_inv(c) && c->requestCount >= __CPROVER_old(c->requestCount) - __CPROVER_old(c->requestCount) /* (cursor stays inside the cache: part of Inv) */)
__CPROVER_assigns(*id, *offset, c->requestCount, c->requestCountOffset);

/* ---- a response PDU payload arrived ---------------------------------------------------------------------------
 * Ghosts (env/net_async_env.h): g_as_rid = request id carried by the response, g_as_*_res = results of the
 * response call-backs.  g_ac_slot / g_ac_matched are set by the harness and tied to the entry state by requires:
 *   g_ac_slot    = low 32 bits of the response's request id
 *   g_ac_matched = that slot is inside the cache, occupied, and the FULL 64-bit id of the cached handle equals
 *                  the response's id (a stale id generation or an unknown id does not match). */
size_t g_ac_slot; int g_ac_matched; int g_ac_state0;
#define AC_RID (g_as_rid == NULL ? 0ULL : (unsigned long long)g_as_rid->value)
#define AC_UNCHANGED(i) (!ainv_slot_used(c, i) || (c->reqCache[i]->state == __CPROVER_old(c->reqCache[i]->state) && c->reqCache[i]->err == __CPROVER_old(c->reqCache[i]->err) && c->reqCache[i]->respCtx == __CPROVER_old(c->reqCache[i]->respCtx) && c->reqCache[i]->id == __CPROVER_old(c->reqCache[i]->id)))
#define AC_OTHERS_UNCHANGED ((g_ac_matched && g_ac_slot == 1 ? 1 : AC_UNCHANGED(1)) && (g_ac_matched && g_ac_slot == 2 ? 1 : AC_UNCHANGED(2)) && (g_ac_matched && g_ac_slot == 3 ? 1 : AC_UNCHANGED(3)) && (g_ac_matched && g_ac_slot == 4 ? 1 : AC_UNCHANGED(4)))
#define AC_ALL_UNCHANGED (AC_UNCHANGED(1) && AC_UNCHANGED(2) && AC_UNCHANGED(3) && AC_UNCHANGED(4) && c->pending == __CPROVER_old(c->pending) && c->received == __CPROVER_old(c->received))
#define AC_ACCEPT (g_ac_matched && g_ac_state0 == KSI_ASYNC_STATE_WAITING_FOR_RESPONSE && g_as_getreq_res == KSI_OK && g_as_verify_res == KSI_OK && g_as_getstatus_res == KSI_OK)

static int handleResponse(KSI_AsyncClient *c, void *resp,
			int (*asyncHandle_getRequest)(const KSI_AsyncHandle *h, void **req),
			int (*convertStatusCode)(const KSI_Integer *statusCode),
			int (*resp_getRequestId)(const void *resp, KSI_Integer **requestId),
			int (*resp_verifyWithRequest)(const void *resp, const void *req),
			int (*resp_getStatus)(const void *resp, KSI_Integer **status),
			int (*resp_getErrorMsg)(const void *resp, KSI_Utf8String **errorMsg),
			void* (*resp_ref)(void *resp),
			void (*resp_free)(void *resp))
__CPROVER_requires(c != NULL && resp != NULL && ainv_inv(c) && g_as_ref_calls == 0 && g_as_verify_calls == 0)
__CPROVER_requires(g_ac_slot == (size_t)(AC_RID & ASYNC_INV_ID_MASK))
__CPROVER_requires(g_ac_matched == (g_as_getrid_res == KSI_OK && g_ac_slot < ainv_N(c) && c->reqCache[g_ac_slot] != NULL && c->reqCache[g_ac_slot]->id == AC_RID))
__CPROVER_requires(IMPLIES(g_ac_matched, g_ac_state0 == c->reqCache[g_ac_slot]->state))
/* Inv is preserved by every outcome */
__CPROVER_ensures(ainv_inv(c))
/* unknown id, stale id generation, id outside the cache: nothing changes, not an error */
__CPROVER_ensures(IMPLIES(g_as_getrid_res == KSI_OK && !g_ac_matched, __CPROVER_return_value == KSI_OK && AC_ALL_UNCHANGED && g_as_ref_calls == 0 && g_as_verify_calls == 0))
/* the id cannot be read: error, nothing changes */
__CPROVER_ensures(IMPLIES(g_as_getrid_res != KSI_OK, __CPROVER_return_value == g_as_getrid_res && AC_ALL_UNCHANGED && g_as_ref_calls == 0))
/* matched but the request is not waiting for a response (duplicate / reply before the send completed / already failed): discarded */
__CPROVER_ensures(IMPLIES(g_ac_matched && g_ac_state0 != KSI_ASYNC_STATE_WAITING_FOR_RESPONSE, __CPROVER_return_value == KSI_OK && AC_ALL_UNCHANGED && g_as_ref_calls == 0 && g_as_verify_calls == 0))
/* the reply does not belong to / is not authentic for the request: error, nothing changes (the caller fans the error out) */
__CPROVER_ensures(IMPLIES(g_ac_matched && g_ac_state0 == KSI_ASYNC_STATE_WAITING_FOR_RESPONSE && g_as_getreq_res == KSI_OK && g_as_verify_res != KSI_OK,
		__CPROVER_return_value == g_as_verify_res && AC_ALL_UNCHANGED && g_as_ref_calls == 0))
/* every other slot is untouched whatever happens */
__CPROVER_ensures(AC_OTHERS_UNCHANGED)
/* verified against the request stored in THAT handle */
__CPROVER_ensures(IMPLIES(g_as_verify_calls != 0, g_ac_matched && g_as_verify_calls == 1 && g_as_verify_req == (void *)c->reqCache[g_ac_slot]->aggrReq))
/* authentic reply with non-zero status: the request fails with exactly that status */
__CPROVER_ensures(IMPLIES(AC_ACCEPT && g_as_conv_res != KSI_OK, __CPROVER_return_value == KSI_OK &&
		c->reqCache[g_ac_slot]->state == KSI_ASYNC_STATE_ERROR && c->reqCache[g_ac_slot]->err == g_as_conv_res &&
		c->reqCache[g_ac_slot]->errExt == (long)(g_as_status == NULL ? 0 : g_as_status->value) &&
		c->pending == __CPROVER_old(c->pending) && c->received == __CPROVER_old(c->received) && g_as_ref_calls == 0))
/* authentic reply with status zero: the request gets this response, exactly one counter pair moves */
__CPROVER_ensures(IMPLIES(AC_ACCEPT && g_as_conv_res == KSI_OK, __CPROVER_return_value == KSI_OK &&
		c->reqCache[g_ac_slot]->state == KSI_ASYNC_STATE_RESPONSE_RECEIVED && c->reqCache[g_ac_slot]->respCtx == resp && g_as_ref_calls == 1 &&
		c->reqCache[g_ac_slot]->respCtx_free == resp_free && c->reqCache[g_ac_slot]->id == AC_RID &&
		c->pending == __CPROVER_old(c->pending) - 1 && c->received == __CPROVER_old(c->received) + 1))
/* a response is taken ONLY under all of these conditions */
__CPROVER_ensures(IMPLIES(g_as_ref_calls != 0, AC_ACCEPT && g_as_conv_res == KSI_OK))
__CPROVER_assigns(c->pending, c->received, g_as_ref_calls, g_as_verify_calls, g_as_verify_req)
__CPROVER_assigns(g_ac_matched: __CPROVER_object_whole(c->reqCache[g_ac_slot]));

#pragma CPROVER check pop
#endif
