/* Summary contract of KSI_PublicationsFile_parse used with --replace-call-with-contract by C18.fromfile (builderO):
 * ASSUMED here (what parse does with the bytes is the business of C18.parse / C18.generateNextTlv): it records what it
 * was called with, returns any verdict, hands out an object only on success and leaves the output alone otherwise; it
 * does not keep or release the caller's buffer (C18.parse: "raw is a private copy"). */
static char g_parse_obj[8];
unsigned g_parse_calls; KSI_CTX *g_parse_ctx; const void *g_parse_raw; size_t g_parse_len;
int KSI_PublicationsFile_parse(KSI_CTX *ctx, const void *raw, size_t raw_len, KSI_PublicationsFile **pubFile)
__CPROVER_requires(pubFile != NULL && *pubFile == NULL)
__CPROVER_requires(raw != NULL && __CPROVER_r_ok(raw, raw_len))
__CPROVER_ensures(g_parse_calls == __CPROVER_old(g_parse_calls) + 1 && g_parse_ctx == ctx && g_parse_raw == raw && g_parse_len == raw_len)
__CPROVER_ensures(__CPROVER_return_value == KSI_OK ? *pubFile == (KSI_PublicationsFile *)g_parse_obj : *pubFile == NULL)
__CPROVER_assigns(*pubFile, g_parse_calls, g_parse_ctx, g_parse_raw, g_parse_len);
