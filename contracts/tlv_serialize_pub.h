/* Contracts for the public allocate-and-serialize entry point of tlv.c and for KSI_TLV_clone (C09 / C11 'a clone serializes
 * identically', builderX).  Include AFTER tlv.c and contracts/tlv_serialize.h (with TLV_NAME_ST), contracts/tlv_parse.h.
 *
 * The outputs of the serializer proper (KSI_TLV_writeBytes, enforced by C09.writeBytes on the real body, itself on serializeTlv /
 * serializePayload / ... enforced by C09.serializeTlv etc.) are NAMED by the logical variables of contracts/tlv_serialize.h:
 * g_st_res (result), g_st_len (size), g_st_byte2 (the octet at witness position g_tlv_k).  They are never written.
 *
 * KSI_TLV_serialize(tlv, &buf, &len): OUT_OF_MEMORY when the scratch block cannot be allocated, else exactly the serializer's result;
 *   OK  => *buf is a NEW block (the fixed 4 + 0x10000 octet scratch block) that starts with the serialization: *len = its size
 *          (<= the block), octet k of it = octet k of the serialization (witness); the element is not modified (assigns);
 *   failure => *buf and *len are untouched (and the scratch block is released: frees clause + CBMC's leak check is not available
 *          under dfcc - the release is visible as `KSI_free(tmp)` on the only path, see NOTES_values.md). */
#ifndef CONTRACTS_TLV_SERIALIZE_PUB_H
#define CONTRACTS_TLV_SERIALIZE_PUB_H
#define TLV_SCRATCH ((size_t)4 + 0xffff + 1)

int KSI_TLV_serialize(const KSI_TLV *tlv, unsigned char **buf, size_t *buf_len)
__CPROVER_requires(__CPROVER_is_fresh(tlv, sizeof(*tlv)) && tlv->tag <= SPEC_TLV_MAX_TAG)
#ifdef TLV_SER_OUT_BY_HARNESS
__CPROVER_requires(buf != NULL && buf_len != NULL)
#else
__CPROVER_requires(__CPROVER_is_fresh(buf, sizeof(*buf)))
__CPROVER_requires(__CPROVER_is_fresh(buf_len, sizeof(*buf_len)))
#endif
__CPROVER_ensures(__CPROVER_return_value == KSI_OUT_OF_MEMORY || __CPROVER_return_value == g_st_res)
__CPROVER_ensures(IMPLIES(__CPROVER_return_value != KSI_OK, *buf == __CPROVER_old(*buf) && *buf_len == __CPROVER_old(*buf_len)))
__CPROVER_ensures(IMPLIES(__CPROVER_return_value == KSI_OK, g_st_res == KSI_OK && __CPROVER_is_fresh(*buf, TLV_SCRATCH) && *buf_len == g_st_len && *buf_len <= TLV_SCRATCH))
__CPROVER_ensures(IMPLIES(__CPROVER_return_value == KSI_OK && g_tlv_k < *buf_len, (*buf)[g_tlv_k] == g_st_byte2))
__CPROVER_assigns(*buf, *buf_len);
#endif
