/* C06 (builderR, "derive"): contracts for the request enclose functions of types.c.
 * Ghost state: env/c06_pdu.h (g_c06, g_en, g_hl ...) and env/c06_enclose_derive.h (g_dv_ewh, g_dv_pdu_free_conf, g_dl).
 * To be included AFTER "types.c" (the clauses mention the PDU structs) and, for the PDU jobs, after
 * contracts/types_pdu_hmac.h (C06_V2_CONTRACT of KSI_*Pdu_calculateHmac, which these jobs REPLACE).
 *
 * C06D_ENCLOSE_CONTRACT   KSI_AggregationReq_encloseWithHeader / KSI_ExtendReq_encloseWithHeader  (enforced: C06.derive_*_enclose_pdu)
 * C06D_EWH_LEAN           the same two functions as seen by their callers (replaced in C06.derive_*_enclose_login);
 *                         every clause of it is a clause of C06D_ENCLOSE_CONTRACT or pure ghost recording
 * C06D_LOGIN_CONTRACT     KSI_AggregationReq_enclose / KSI_ExtendReq_enclose                       (enforced: C06.derive_*_enclose_login)
 */
#pragma CPROVER check push
#pragma CPROVER check disable "pointer"
#pragma CPROVER check disable "pointer-primitive"
#pragma CPROVER check disable "bounds"

#define C06D_ARGS_OK (req != NULL && hdr != NULL && key != NULL && pdu != NULL)

#ifdef C06D_PDU_JOB
/* assumed (replaced) release functions of types.c, recorded: what the PDU still held when it was released.
 * (as C06_FREE_CONTRACTS of contracts/types_pdu_hmac.h, plus the configuration request) */
#define C06D_FREE_CONTRACTS(REQ, PDU) \
void PDU##_free(PDU *t) \
__CPROVER_ensures(g_en.pdu_free_calls == __CPROVER_old(g_en.pdu_free_calls) + (t != NULL ? 1 : 0)) \
__CPROVER_ensures(IMPLIES(t != NULL, g_en.pdu_free_hdr == (const void *)t->header && g_en.pdu_free_req == (const void *)t->request && \
		g_en.pdu_free_mac == t->hmac && g_dv_pdu_free_conf == (const void *)t->confRequest)) \
__CPROVER_assigns(g_en.pdu_free_calls, g_en.pdu_free_hdr, g_en.pdu_free_req, g_en.pdu_free_mac, g_dv_pdu_free_conf); \
void REQ##_free(REQ *t) \
__CPROVER_ensures(g_en.req_free_calls == __CPROVER_old(g_en.req_free_calls) + (t != NULL ? 1 : 0)) \
__CPROVER_ensures(IMPLIES(t != NULL, g_en.req_freed == (const void *)t)) \
__CPROVER_assigns(g_en.req_free_calls, g_en.req_freed);

/* KSI_*Req_encloseWithHeader.
 *   VER      PDU version option of the request's context,  ALG  MAC algorithm option of THIS service
 *   ATTACH   "the request object itself travels in the PDU" - what the code does:
 *              aggregator: req->requestHash != NULL, or version 1 with a configuration request (v1 carries it inside the request)
 *              extender:   req->aggregationTime != NULL || req->publicationTime != NULL
 *   CONF     "the configuration request travels as its own PDU element": req->config != NULL and version 2
 * (a) OK => *pdu is a NEW object holding exactly: ctx of the request, the header given, the request iff ATTACH, the
 *     configuration (one more reference) iff CONF, the computed MAC - and nothing else (no response elements, no error
 *     element, no acknowledgment elements, NO RECEIVED RAW BYTES: the MAC is over a fresh serialization).
 * (b) OK, version 2 => ONE serialization, of THAT PDU object with the request-PDU tag/template, ONE KSI_HMAC_create under
 *     (ctx, ALG, key) over [serialized bytes, length - hashlen(ALG));   version 1 => MAC input = header element then
 *     request element (each raw bytes if the caller's object has some, else serialized with 0x01 / v1 request tag), length = sum;
 *     any other version => refused, nothing MAC-ed.
 *     nothing to send (neither ATTACH nor CONF) => refused, nothing serialized/MAC-ed (INVALID_ARGUMENT from calculateHmac).
 * ownership: OK => request in the PDU or released once, header in the PDU; failure => *pdu untouched, header and request
 *     NOT released (the PDU object released holds neither), a configuration reference taken went away with the PDU. */
#define C06D_ENCLOSE_CONTRACT(FN, REQ, PDU, ALGOPT, VEROPT, ATTACH, EXTRA_NULL, TAG2, TMPL2, TAG1, TMPL1) \
int FN(REQ *req, KSI_Header *hdr, const char *key, PDU **pdu) \
__CPROVER_requires(g_en.trusted_calls == 0 && g_en.zero_calls == 0 && g_en.zero_free == 0 && g_en.mac_free == 0 && g_en.other_free == 0 && \
		g_en.pdu_free_calls == 0 && g_en.req_free_calls == 0 && g_dv_pdu_free_conf == NULL && \
		g_c06.call_t == NULL && g_ser_calls == 0 && g_hl_calls == 0 && g_mac_calls == 0 && g_mac_out == NULL && g_vh_free_calls == 0 && g_en.zero == NULL) \
__CPROVER_ensures(IMPLIES(!C06D_ARGS_OK, __CPROVER_return_value == KSI_INVALID_ARGUMENT && g_c06.call_t == NULL && \
		g_en.trusted_calls == 0 && g_en.zero_calls == 0 && g_en.pdu_free_calls == 0)) \
/* (a) a new PDU with exactly these elements */ \
__CPROVER_ensures(IMPLIES(__CPROVER_return_value == KSI_OK, C06D_ARGS_OK && __CPROVER_is_fresh(*pdu, sizeof(PDU)))) \
__CPROVER_ensures(IMPLIES(__CPROVER_return_value == KSI_OK, \
		(*pdu)->ctx == req->ctx && (*pdu)->header == hdr && (*pdu)->hmac == g_mac_out && g_mac_out != NULL && \
		(*pdu)->response == NULL && (*pdu)->confResponse == NULL && (*pdu)->error == NULL && (*pdu)->raw == NULL EXTRA_NULL && \
		(*pdu)->request == ((ATTACH) ? req : NULL) && \
		(*pdu)->confRequest == (req->config != NULL && req->ctx->options[VEROPT] == KSI_PDU_VERSION_2 ? req->config : NULL))) \
/* ownership on OK */ \
__CPROVER_ensures(IMPLIES(__CPROVER_return_value == KSI_OK, \
		g_en.req_free_calls == ((ATTACH) ? 0 : 1) && IMPLIES(!(ATTACH), g_en.req_freed == (const void *)req) && \
		g_en.pdu_free_calls == 0 && g_en.zero_free == 1 && g_en.mac_free == 0 && g_en.other_free == 0)) \
/* the MAC: algorithm gate, placeholder, the call of KSI_*Pdu_calculateHmac */ \
__CPROVER_ensures(IMPLIES(__CPROVER_return_value == KSI_OK, \
		(KSI_HashAlgorithm)req->ctx->options[ALGOPT] != KSI_HASHALG_INVALID_VALUE && \
		g_en.trusted_calls == 1 && g_en.trusted && g_en.trusted_alg == (int)(KSI_HashAlgorithm)req->ctx->options[ALGOPT] && \
		g_en.zero_calls == 1 && g_en.zero_res == KSI_OK && g_en.zero_alg == g_en.trusted_alg && \
		g_c06.call_t == (const void *)*pdu && g_c06.call_alg == g_en.trusted_alg && g_c06.call_key == key && g_c06.call_placeholder == g_en.zero && \
		(req->ctx->options[VEROPT] == KSI_PDU_VERSION_1 || req->ctx->options[VEROPT] == KSI_PDU_VERSION_2))) \
/* (b) version 2, end to end through the contract of KSI_*Pdu_calculateHmac */ \
__CPROVER_ensures(IMPLIES(__CPROVER_return_value == KSI_OK && req->ctx->options[VEROPT] == KSI_PDU_VERSION_2, \
		g_mac_calls == 1 && g_mac_res == KSI_OK && g_mac_ctx == req->ctx && g_mac_key == key && \
		g_mac_alg == (int)(KSI_HashAlgorithm)req->ctx->options[ALGOPT] && g_hl_calls >= 1 && g_hl_alg == g_mac_alg && \
		g_ser_calls == 1 && g_ser_res[0] == KSI_OK && g_ser_obj[0] == (const void *)*pdu && g_ser_tag[0] == TAG2 && g_ser_tmpl[0] == TMPL2 && \
		g_mac_data == g_ser_buf[0] && spec_pdu_v2_range_defined(g_ser_len[0], g_hl) && \
		g_mac_len == spec_pdu_v2_range_len(g_ser_len[0], g_hl))) \
/* (b) version 1 */ \
__CPROVER_ensures(IMPLIES(__CPROVER_return_value == KSI_OK && req->ctx->options[VEROPT] == KSI_PDU_VERSION_1, \
		g_mac_calls == 1 && g_mac_res == KSI_OK && g_mac_key == key && \
		g_mac_alg == (int)(KSI_HashAlgorithm)req->ctx->options[ALGOPT] && g_hl_calls == 0 && \
		(*pdu)->request == req && \
		g_ser_calls == (hdr->raw != NULL ? 0 : 1) + (req->raw != NULL ? 0 : 1) && \
		IMPLIES(hdr->raw == NULL, g_ser_res[0] == KSI_OK && g_ser_obj[0] == (const void *)hdr && g_ser_tag[0] == 0x01 && \
				g_ser_tmpl[0] == KSI_TLV_TEMPLATE(KSI_Header)) && \
		IMPLIES(req->raw == NULL, g_ser_res[hdr->raw != NULL ? 0 : 1] == KSI_OK && g_ser_obj[hdr->raw != NULL ? 0 : 1] == (const void *)req && \
				g_ser_tag[hdr->raw != NULL ? 0 : 1] == TAG1 && g_ser_tmpl[hdr->raw != NULL ? 0 : 1] == TMPL1) && \
		g_mac_len == (hdr->raw != NULL ? hdr->raw->data_len : g_ser_len[0]) + \
				(req->raw != NULL ? req->raw->data_len : g_ser_len[hdr->raw != NULL ? 0 : 1]))) \
/* refusals: nothing to send / not a PDU version */ \
__CPROVER_ensures(IMPLIES(C06D_ARGS_OK && req->ctx->options[VEROPT] == KSI_PDU_VERSION_2 && !(ATTACH) && req->config == NULL, \
		__CPROVER_return_value != KSI_OK && g_mac_calls == 0 && g_ser_calls == 0 && \
		IMPLIES(g_c06.call_t != NULL, __CPROVER_return_value == KSI_INVALID_ARGUMENT))) \
__CPROVER_ensures(IMPLIES(C06D_ARGS_OK && req->ctx->options[VEROPT] == KSI_PDU_VERSION_1 && !(ATTACH), \
		__CPROVER_return_value != KSI_OK && g_mac_calls == 0)) \
__CPROVER_ensures(IMPLIES(C06D_ARGS_OK && req->ctx->options[VEROPT] != KSI_PDU_VERSION_1 && req->ctx->options[VEROPT] != KSI_PDU_VERSION_2, \
		__CPROVER_return_value != KSI_OK && g_mac_calls == 0 && \
		IMPLIES(g_c06.call_t != NULL, __CPROVER_return_value == KSI_INVALID_FORMAT))) \
/* failure: nothing handed out, nothing of the caller released */ \
__CPROVER_ensures(IMPLIES(__CPROVER_return_value != KSI_OK && pdu != NULL, *pdu == __CPROVER_old(*pdu))) \
__CPROVER_ensures(IMPLIES(__CPROVER_return_value != KSI_OK, g_en.other_free == 0 && g_en.mac_free == 0 && g_en.zero_free == 0 && \
		g_en.req_free_calls == 0 && g_en.pdu_free_calls <= 1 && \
		IMPLIES(g_en.pdu_free_calls == 1, g_en.pdu_free_hdr == NULL && g_en.pdu_free_req == NULL && g_en.pdu_free_mac == g_en.zero && \
			g_dv_pdu_free_conf == (const void *)(req->config != NULL && req->ctx->options[VEROPT] == KSI_PDU_VERSION_2 ? req->config : NULL)))) \
/* the configuration request is shared: exactly one more reference iff it is in a PDU (handed out or released) */ \
__CPROVER_ensures(IMPLIES(C06D_ARGS_OK && req->config != NULL, \
		req->config->ref == __CPROVER_old(req->config->ref) + \
			((__CPROVER_return_value == KSI_OK || g_en.pdu_free_calls == 1) && req->ctx->options[VEROPT] == KSI_PDU_VERSION_2 ? 1 : 0))) \
__CPROVER_assigns(*pdu, g_en, g_c06, g_vh_free_calls, g_vh_free_foreign, g_dv_pdu_free_conf; \
		req != NULL && req->config != NULL: req->config->ref);
#endif /* C06D_PDU_JOB */

#ifdef C06D_LOGIN_JOB
/* KSI_*Req_encloseWithHeader as its caller sees it (REPLACES the call in the login jobs).
 *   recording clauses (pure ghost): the arguments and the status are written down; a second call violates the precondition;
 *   OK => all arguments present, *pdu is a new object whose header is the header given   [C06D_ENCLOSE_CONTRACT (a)]
 *   failure => *pdu untouched                                                            [C06D_ENCLOSE_CONTRACT failure clause]
 *   frame: nothing of the caller is written or released - in particular the header stays allocated on failure
 *          [C06D_ENCLOSE_CONTRACT: assigns clause; the released PDU holds neither header nor request] */
#define C06D_EWH_LEAN(FN, REQ, PDU) \
int FN(REQ *req, KSI_Header *hdr, const char *key, PDU **pdu) \
__CPROVER_requires(g_dv_ewh.calls == 0) \
__CPROVER_ensures(g_dv_ewh.calls == 1 && g_dv_ewh.req == (const void *)req && g_dv_ewh.hdr == hdr && g_dv_ewh.key == key && \
		g_dv_ewh.pdu == (const void *)pdu && g_dv_ewh.res == __CPROVER_return_value) \
__CPROVER_ensures(IMPLIES(!C06D_ARGS_OK, __CPROVER_return_value == KSI_INVALID_ARGUMENT)) \
__CPROVER_ensures(IMPLIES(__CPROVER_return_value == KSI_OK, C06D_ARGS_OK && __CPROVER_is_fresh(*pdu, sizeof(PDU)))) \
__CPROVER_ensures(IMPLIES(__CPROVER_return_value == KSI_OK, (*pdu)->header == hdr && (*pdu)->ctx == req->ctx)) \
__CPROVER_ensures(IMPLIES(__CPROVER_return_value != KSI_OK && pdu != NULL, *pdu == __CPROVER_old(*pdu))) \
__CPROVER_assigns(*pdu, g_dv_ewh);

/* KSI_AggregationReq_enclose / KSI_ExtendReq_enclose (KSI_Header_new / KSI_Header_free real and inlined).
 *   HDR        the block KSI_malloc handed out (the new header)
 *   missing argument -> INVALID_ARGUMENT, nothing made, nothing called;
 *   otherwise ONE header object is allocated; its login id is asked from KSI_Utf8String_new(ctx of the request,
 *   loginId - the very pointer -, strlen(loginId) + 1, &header->loginId) - a length that does not fit is refused;
 *   the context's request-header call-back, if there is one, is called ONCE with that header, after the login id
 *   is in it and BEFORE the PDU is built, its error aborts the call;
 *   KSI_*Req_encloseWithHeader is called ONCE with (req, that header, key, pdu) and its status is the result;
 *   OK => the header belongs to the PDU and nothing is released;
 *   failure => *pdu untouched, the header is released exactly once together with what it holds, the request is not
 *   written or released (frame). */
#define C06D_HDR ((KSI_Header *)g_dl.alloc_last)
#define C06D_LARGS_OK (req != NULL && loginId != NULL && key != NULL && pdu != NULL)
#define C06D_LOGIN_CONTRACT(FN, REQ, PDU) \
int FN(REQ *req, const char *loginId, const char *key, PDU **pdu) \
__CPROVER_requires(g_dv_ewh.calls == 0 && g_dl.alloc_calls == 0 && g_dl.free_calls == 0 && g_dl.sl_calls == 0 && g_dl.u8_calls == 0 && \
		g_dl.u8_made == NULL && g_dl.u8_free_calls == 0 && g_dl.int_free_calls == 0 && g_dl.oct_free_calls == 0 && g_dl.cb_calls == 0 && \
		g_dl.cb_inst == NULL && g_dl.alloc_last == NULL && g_dl.hash_free_calls == 0) \
__CPROVER_ensures(IMPLIES(!C06D_LARGS_OK, __CPROVER_return_value == KSI_INVALID_ARGUMENT && g_dl.alloc_calls == 0 && g_dl.u8_calls == 0 && \
		g_dl.cb_calls == 0 && g_dv_ewh.calls == 0 && g_dl.free_calls == 0)) \
/* the header */ \
__CPROVER_ensures(g_dl.alloc_calls <= 1 && IMPLIES(g_dl.alloc_calls == 1, C06D_LARGS_OK && g_dl.alloc_size == sizeof(KSI_Header))) \
__CPROVER_ensures(IMPLIES(C06D_LARGS_OK && g_dl_strlen <= UINT_MAX, g_dl.alloc_calls == 1)) \
__CPROVER_ensures(IMPLIES(C06D_LARGS_OK && g_dl_strlen > UINT_MAX, __CPROVER_return_value == KSI_INVALID_ARGUMENT && g_dl.alloc_calls == 0)) \
__CPROVER_ensures(IMPLIES(g_dl.alloc_calls == 1 && C06D_HDR == NULL, __CPROVER_return_value == KSI_OUT_OF_MEMORY && g_dl.u8_calls == 0)) \
/* the login id */ \
__CPROVER_ensures(IMPLIES(C06D_LARGS_OK, g_dl.sl_calls == 1 && g_dl.sl_arg == loginId)) \
__CPROVER_ensures(g_dl.u8_calls == (g_dl.alloc_calls == 1 && C06D_HDR != NULL ? 1 : 0)) \
__CPROVER_ensures(IMPLIES(g_dl.u8_calls == 1, g_dl.u8_ctx == req->ctx && g_dl.u8_str == loginId && g_dl.u8_out == &C06D_HDR->loginId && \
		IMPLIES(g_dl_strlen < UINT_MAX, g_dl.u8_len == g_dl_strlen + 1))) \
__CPROVER_ensures(IMPLIES(g_dl.u8_calls == 1 && g_dl.u8_res != KSI_OK, __CPROVER_return_value == g_dl.u8_res && g_dl.cb_calls == 0 && g_dv_ewh.calls == 0)) \
__CPROVER_ensures(IMPLIES(C06D_LARGS_OK && g_dl_strlen >= UINT_MAX, __CPROVER_return_value != KSI_OK && g_dl.cb_calls == 0 && g_dv_ewh.calls == 0)) \
/* the call-back */ \
__CPROVER_ensures(g_dl.cb_calls == (g_dl.u8_calls == 1 && g_dl.u8_res == KSI_OK && req->ctx->requestHeaderCB != NULL ? 1 : 0)) \
__CPROVER_ensures(IMPLIES(g_dl.cb_calls == 1, g_dl.cb_hdr == C06D_HDR && g_dl.cb_login_seen == (const void *)g_dl.u8_made && g_dl.cb_ewh_seen == 0)) \
__CPROVER_ensures(IMPLIES(g_dl.cb_calls == 1 && g_dl.cb_res != KSI_OK, __CPROVER_return_value == g_dl.cb_res && g_dv_ewh.calls == 0)) \
/* the PDU */ \
__CPROVER_ensures(g_dv_ewh.calls == (g_dl.u8_calls == 1 && g_dl.u8_res == KSI_OK && (g_dl.cb_calls == 0 || g_dl.cb_res == KSI_OK) ? 1 : 0)) \
__CPROVER_ensures(IMPLIES(g_dv_ewh.calls == 1, g_dv_ewh.req == (const void *)req && g_dv_ewh.hdr == C06D_HDR && g_dv_ewh.key == key && \
		g_dv_ewh.pdu == (const void *)pdu && __CPROVER_return_value == g_dv_ewh.res)) \
__CPROVER_ensures(IMPLIES(__CPROVER_return_value == KSI_OK, g_dv_ewh.calls == 1 && g_dv_ewh.res == KSI_OK)) \
/* ownership */ \
__CPROVER_ensures(IMPLIES(__CPROVER_return_value == KSI_OK, g_dl.free_calls == 0 && g_dl.u8_free_calls == 0 && g_dl.int_free_calls == 0 && \
		g_dl.oct_free_calls == 0 && (*pdu)->header == C06D_HDR && C06D_HDR->loginId == g_dl.u8_made && g_dl.u8_made != NULL && \
		C06D_HDR->ctx == req->ctx && C06D_HDR->raw == NULL && C06D_HDR->messageId == NULL && C06D_HDR->instanceId == g_dl.cb_inst)) \
__CPROVER_ensures(IMPLIES(__CPROVER_return_value != KSI_OK, \
		g_dl.free_calls == (g_dl.alloc_calls == 1 && C06D_HDR != NULL ? 1 : 0) && IMPLIES(g_dl.free_calls == 1, g_dl.free_last == g_dl.alloc_last) && \
		g_dl.u8_free_calls == (g_dl.u8_made != NULL ? 1 : 0) && IMPLIES(g_dl.u8_made != NULL, g_dl.u8_freed == (const void *)g_dl.u8_made) && \
		g_dl.int_free_calls == (g_dl.cb_inst != NULL ? 1 : 0) && g_dl.oct_free_calls == 0)) \
__CPROVER_ensures(IMPLIES(__CPROVER_return_value != KSI_OK && pdu != NULL, *pdu == __CPROVER_old(*pdu))) \
__CPROVER_ensures(g_dl.hash_free_calls == 0) \
__CPROVER_assigns(*pdu, g_dv_ewh, g_dl);
#endif /* C06D_LOGIN_JOB */

/* ---- instantiation (selected by the harness TU) ---- */
#define C06D_AGGR_ATTACH (req->requestHash != NULL || (req->config != NULL && req->ctx->options[KSI_OPT_AGGR_PDU_VER] == KSI_PDU_VERSION_1))
#define C06D_EXT_ATTACH  (req->aggregationTime != NULL || req->publicationTime != NULL)
#if defined(C06D_PDU_JOB) && defined(C06D_AGGR)
C06D_FREE_CONTRACTS(KSI_AggregationReq, KSI_AggregationPdu)
C06D_ENCLOSE_CONTRACT(KSI_AggregationReq_encloseWithHeader, KSI_AggregationReq, KSI_AggregationPdu,
		KSI_OPT_AGGR_HMAC_ALGORITHM, KSI_OPT_AGGR_PDU_VER, C06D_AGGR_ATTACH,
		&& (*pdu)->ackRequest == NULL && (*pdu)->ackResponse == NULL,
		0x220, KSI_TLV_TEMPLATE(KSI_AggregationReqPdu), 0x201, KSI_TLV_TEMPLATE(KSI_AggregationReq))
#endif
#if defined(C06D_PDU_JOB) && defined(C06D_EXT)
C06D_FREE_CONTRACTS(KSI_ExtendReq, KSI_ExtendPdu)
C06D_ENCLOSE_CONTRACT(KSI_ExtendReq_encloseWithHeader, KSI_ExtendReq, KSI_ExtendPdu,
		KSI_OPT_EXT_HMAC_ALGORITHM, KSI_OPT_EXT_PDU_VER, C06D_EXT_ATTACH,
		/* no acknowledgment elements in an extension PDU */,
		0x320, KSI_TLV_TEMPLATE(KSI_ExtendReqPdu), 0x301, KSI_TLV_TEMPLATE(KSI_ExtendReq))
#endif
#if defined(C06D_LOGIN_JOB) && defined(C06D_AGGR)
C06D_EWH_LEAN(KSI_AggregationReq_encloseWithHeader, KSI_AggregationReq, KSI_AggregationPdu)
C06D_LOGIN_CONTRACT(KSI_AggregationReq_enclose, KSI_AggregationReq, KSI_AggregationPdu)
#endif
#if defined(C06D_LOGIN_JOB) && defined(C06D_EXT)
C06D_EWH_LEAN(KSI_ExtendReq_encloseWithHeader, KSI_ExtendReq, KSI_ExtendPdu)
C06D_LOGIN_CONTRACT(KSI_ExtendReq_enclose, KSI_ExtendReq, KSI_ExtendPdu)
#endif
#pragma CPROVER check pop
