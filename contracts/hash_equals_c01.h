/* C01 (also used by C02): byte-level contract of KSI_DataHash_equals (hash.c), the comparison every INT-xx / GEN-01 rule
 * ends in.  Written from the property text: "equals" = both imprints present, same length, every octet equal
 * (octet 0 = algorithm id, octets 1.. = digest).
 *
 * Representation invariant of a hash object (EQ_REP_INV): imprint_length never exceeds the imprint array inside the
 * object (KSI_MAX_IMPRINT_LEN + 1 = 66 octets).  It is ESTABLISHED by the constructors: KSI_DataHash_fromDigest /
 * fromImprint (contracts/hash_imprint.h, enforced by C10.imprint_fromDigest / C10.imprint_fromImprint*: imprint_length
 * == digest_length + 1 with digest_length == the algorithm's length <= 64) and by the hasher close functions; hash
 * objects are immutable afterwards.  It is what makes the memcmp(.., left->imprint_length) of the real code stay in
 * bounds, so it is the precondition here.
 *
 * Universal direction ("every octet"): ghost witness index g_eq_w, arbitrary and fixed before the call.
 * Existential direction ("some octet differs"): spelled out over the 66 octets of the array (a constant of the code:
 * sizeof(((KSI_DataHash*)0)->imprint)), loop-free, no quantifier. */
#ifndef CONTRACTS_HASH_EQUALS_C01_H
#define CONTRACTS_HASH_EQUALS_C01_H
#include "hash.h"
#include "impl/hash_impl.h"

size_t g_eq_w;            /* witness index: never written by anybody */

#define EQ_IMPRINT_CAP (KSI_MAX_IMPRINT_LEN + 1)
#define EQ_REP_INV(h) ((h)->imprint_length <= EQ_IMPRINT_CAP)

/* octet k of the two imprints counts (k < n) and differs */
#define EQ_D1(a, b, n, k) ((n) > (size_t)(k) && (a)->imprint[(k)] != (b)->imprint[(k)])
#define EQ_D2(a, b, n, k) (EQ_D1(a, b, n, k) || EQ_D1(a, b, n, (k) + 1))
#define EQ_D4(a, b, n, k) (EQ_D2(a, b, n, k) || EQ_D2(a, b, n, (k) + 2))
#define EQ_D8(a, b, n, k) (EQ_D4(a, b, n, k) || EQ_D4(a, b, n, (k) + 4))
#define EQ_D16(a, b, n, k) (EQ_D8(a, b, n, k) || EQ_D8(a, b, n, (k) + 8))
#define EQ_D32(a, b, n, k) (EQ_D16(a, b, n, k) || EQ_D16(a, b, n, (k) + 16))
/* some octet among the first n (n <= 66) differs */
#define EQ_SOME_OCTET_DIFFERS(a, b, n) (EQ_D32(a, b, n, 0) || EQ_D32(a, b, n, 32) || EQ_D2(a, b, n, 64))
typedef char eq_cap_is_66[(EQ_IMPRINT_CAP == 66 && sizeof(((struct KSI_DataHash_st *)0)->imprint) == 66) ? 1 : -1];

/* the reference relation: imprints equal as octet strings */
#define EQ_SAME_IMPRINT(a, b) ((a)->imprint_length == (b)->imprint_length && !EQ_SOME_OCTET_DIFFERS(a, b, (a)->imprint_length))

/* the dereference / bounds checks CBMC would generate for the SPEC TEXT below (about 1500: every octet comparison of
 * EQ_SOME_OCTET_DIFFERS) are switched off; the text dereferences only non-NULL arguments at constant indices < 66 and at
 * g_eq_w < imprint_length <= 66.  The checks on the REAL code (the memcmp call) stay on. */
#pragma CPROVER check push
#pragma CPROVER check disable "pointer"
#pragma CPROVER check disable "bounds"
int KSI_DataHash_equals(const KSI_DataHash *left, const KSI_DataHash *right)
__CPROVER_requires(left == NULL || EQ_REP_INV(left))
__CPROVER_requires(right == NULL || EQ_REP_INV(right))
/* never equal when one side is missing */
__CPROVER_ensures(IMPLIES(left == NULL || right == NULL, __CPROVER_return_value == 0))
/* an object equals itself */
__CPROVER_ensures(IMPLIES(left != NULL && left == right, __CPROVER_return_value != 0))
/* equal => same length, and every octet equal (witness index: g_eq_w is arbitrary); octet 0 is the algorithm id */
__CPROVER_ensures(IMPLIES(__CPROVER_return_value != 0, left != NULL && right != NULL && left->imprint_length == right->imprint_length &&
		IMPLIES(g_eq_w < left->imprint_length, left->imprint[g_eq_w] == right->imprint[g_eq_w]) &&
		IMPLIES(left->imprint_length > 0, left->imprint[0] == right->imprint[0])))
/* the iff: equal <=> both present, same length and no octet differs */
__CPROVER_ensures(IMPLIES(left != NULL && right != NULL, IFF(__CPROVER_return_value != 0, EQ_SAME_IMPRINT(left, right))))
/* a C truth value */
__CPROVER_ensures(__CPROVER_return_value == 0 || __CPROVER_return_value == 1)
__CPROVER_assigns();
#pragma CPROVER check pop
#endif
