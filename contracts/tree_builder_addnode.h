/* Contract of tree_builder.c: KSI_DataHasher_addTreeNode (C16) - the step that feeds one tree node into the
 * hasher (imprint of a hash node; serialized payload of a meta-data node).  It owns the 64 KiB stack buffer of
 * the file; callers are verified against this contract so that they do not drag the buffer along.
 * Needs env/tree_env.h (ghost transcript).  Transcript positions are stated when there is room left
 * (the ghost transcript saturates at TR_MAX events). */
#ifndef CONTRACTS_TREE_BUILDER_ADDNODE_H
#define CONTRACTS_TREE_BUILDER_ADDNODE_H

#define TR_SAT(n) ((n) > TR_MAX ? (unsigned)TR_MAX : (unsigned)(n))

static int KSI_DataHasher_addTreeNode(KSI_DataHasher *hsr, const KSI_TreeNode *node)
__CPROVER_requires(g_tr_n <= TR_MAX)
__CPROVER_ensures(IMPLIES(__CPROVER_return_value == KSI_OK, hsr != NULL && node != NULL && g_tr_failed == __CPROVER_old(g_tr_failed)))
__CPROVER_ensures(IMPLIES(__CPROVER_return_value != KSI_OK, hsr == NULL || node == NULL || g_tr_failed))
__CPROVER_ensures(IMPLIES(__CPROVER_old(g_tr_failed), g_tr_failed))
__CPROVER_ensures(g_tr_n >= __CPROVER_old(g_tr_n) && g_tr_n <= TR_MAX)
/* a hash node contributes its imprint - one event; a meta-data node its serialized payload - two events */
__CPROVER_ensures(IMPLIES(__CPROVER_return_value == KSI_OK && node->hash != NULL,
		g_tr_n == TR_SAT(__CPROVER_old(g_tr_n) + 1u) &&
		IMPLIES(__CPROVER_old(g_tr_n) < TR_MAX, g_tr[__CPROVER_old(g_tr_n)].kind == TR_IMPRINT && g_tr[__CPROVER_old(g_tr_n)].obj == (const void *)node->hash)))
__CPROVER_ensures(IMPLIES(__CPROVER_return_value == KSI_OK && node->hash == NULL && node->metaData != NULL,
		g_tr_n == TR_SAT(__CPROVER_old(g_tr_n) + 2u) &&
		IMPLIES(__CPROVER_old(g_tr_n) + 1u < TR_MAX,
			g_tr[__CPROVER_old(g_tr_n)].kind == TR_MDSER && g_tr[__CPROVER_old(g_tr_n)].obj == (const void *)node->metaData &&
			g_tr[__CPROVER_old(g_tr_n) + 1u].kind == TR_BYTES)))
__CPROVER_ensures(IMPLIES(__CPROVER_return_value == KSI_OK && node->hash == NULL && node->metaData == NULL, g_tr_n == __CPROVER_old(g_tr_n)))
/* all calls go to the hasher given */
__CPROVER_ensures(IMPLIES((__CPROVER_old(g_tr_hsr) == hsr || __CPROVER_old(g_tr_hsr) == NULL) && !__CPROVER_old(g_tr_hsr_mixed),
		(g_tr_hsr == hsr || g_tr_hsr == __CPROVER_old(g_tr_hsr)) && !g_tr_hsr_mixed))
__CPROVER_assigns(g_tr_n < TR_MAX: g_tr[g_tr_n]; g_tr_n + 1u < TR_MAX: g_tr[g_tr_n + 1u];
		g_tr_n, g_tr_failed, g_tr_hsr, g_tr_hsr_mixed);
#endif
