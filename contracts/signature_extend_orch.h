/* C08 (builderP): contract of KSI_Signature_extendWithPolicy (signature.c) - extension to a publication record.
 * Include after env/c08_orch.h and contracts/signature_extend.h, before signature.c.
 *
 * From the property: "The result ... carries the new calendar chain and the SUPPLIED publication record with any former publication
 * or authentication record removed, and verifies ...; in every other case an error is returned and the original signature is left
 * untouched."  At this level (callees recorded):
 *   OK => a CLONE of the caller's record was made; the inner extension ran for (this signature, target = the publication time of the
 *         caller's record; no record = calendar head) and succeeded (request times, reply checks, clone of the source, chain surgery:
 *         C08.extend_orchestration); KSI_Signature_replacePublicationRecord(result, clone) succeeded (surgery: C08.sb_replacePubRec);
 *         AFTER that the policy was run on the RESULT (no document hash, level 0, caller's policy and context) and said OK;
 *         *extended = that result, a different object than the source; the clone now belongs to the result.
 *   not OK => *extended untouched; a failing verdict / failed replacement is passed on and the result object is released;
 *         the clone is released exactly once unless it was taken over.
 *   always: the source signature and the caller's publication record are not in the frame, never released, never handed to a
 *         modifying service. */
#pragma CPROVER check push
#pragma CPROVER check disable "pointer"
#pragma CPROVER check disable "pointer-primitive"

/* assumed recording contract (signature.c function, real body under C08.sb_replacePubRec): arbitrary status; a supplied record is
 * taken over exactly on success; the signature it is applied to is modified */
int KSI_Signature_replacePublicationRecord(KSI_Signature *sig, KSI_PublicationRecord *pubRec)
__CPROVER_ensures(g_xr.calls == __CPROVER_old(g_xr.calls) + 1 && g_xr.sig == (const void *)sig && g_xr.rec == (const void *)pubRec && g_xr.res == __CPROVER_return_value)
__CPROVER_ensures(IMPLIES(sig == NULL, __CPROVER_return_value == KSI_INVALID_ARGUMENT))
__CPROVER_ensures(g_sg.source_touched == (__CPROVER_old(g_sg.source_touched) || (sig != NULL && sig == g_sg_source)))
__CPROVER_assigns(g_xr, g_sg.source_touched);

#define C08_XO_ZERO (g_xo.clone_calls == 0 && g_xo.clone_free == 0 && g_xo.rec_foreign_free == 0 && g_xo.getpd_calls == 0 && g_xo.gettime_calls == 0 && \
		g_xo.verify_saw_replace == 0 && g_xr.calls == 0 && g_xr.res == 0)
#define C08_INNER_OK (C07_STEP_OK(close_calls, close_res) && g_sg.sig != NULL && g_sg.sig != signature)
#define C08_REPLACED_OK (g_xr.calls == 1 && g_xr.res == KSI_OK)

int KSI_Signature_extendWithPolicy(const KSI_Signature *signature, KSI_CTX *ctx, const KSI_PublicationRecord *pubRec, const KSI_Policy *policy, KSI_VerificationContext *context, KSI_Signature **extended)
__CPROVER_requires(g_mk.req_new_calls == 0 && g_mk.req_live == 0 && g_mk.int_live == 0 && g_mk.mkreq_from == NULL &&
		g_sg.send_calls == 0 && g_sg.perform_calls == 0 && g_sg.getresp_calls == 0 && g_sg.vwr_calls == 0 && g_sg.open_calls == 0 &&
		g_sg.compat_calls == 0 && g_sg.apply_calls == 0 && g_sg.close_calls == 0 && g_sg.verify_calls == 0 && g_sg.signtime_calls == 0 &&
		g_sg.req_free == 0 && g_sg.handle_free == 0 && g_sg.resp_free == 0 && g_sg.builder_free == 0 && g_sg.sig_free == 0 &&
		g_sg.foreign_free == 0 && g_sg.source_touched == 0 && g_sg.ext_sig == NULL && g_sg.ext_to == NULL &&
		g_sg.handle == NULL && g_sg.resp == NULL && g_sg.builder == NULL && g_sg.sig == NULL && g_sg_source == signature)
__CPROVER_requires(C08_XO_ZERO)
__CPROVER_requires(pubRec == NULL || pubRec == &xo_pubrec)
/* success */
__CPROVER_ensures(IMPLIES(__CPROVER_return_value == KSI_OK,
		signature != NULL && ctx != NULL && extended != NULL &&
		/* the target time comes from the caller's publication record */
		g_sg.ext_sig == (const void *)signature &&
		(pubRec != NULL
			? (g_xo.clone_calls == 1 && g_xo.clone_res == KSI_OK && g_xo.clone_from == (const void *)pubRec &&
			   pubRec->publishedData != NULL && g_sg.ext_to == (const void *)pubRec->publishedData->time)
			: (g_xo.clone_calls == 0 && g_sg.ext_to == NULL)) &&
		C08_INNER_OK &&
		/* the supplied record (its clone) is put into the RESULT */
		C08_REPLACED_OK && g_xr.sig == (const void *)g_sg.sig && g_xr.rec == (pubRec != NULL ? (const void *)&xo_clone : NULL) &&
		/* the policy is run on the result, after the record is in place */
		C07_STEP_OK(verify_calls, verify_res) && g_sg.verify_sig == (const void *)g_sg.sig && g_sg.verify_hash == NULL && g_sg.verify_level == 0 &&
		g_sg.verify_policy == (const void *)policy && g_sg.verify_ctx == (const void *)context &&
		g_xo.verify_saw_replace == 1 && g_xo.verify_saw_replace_res == KSI_OK &&
		*extended == g_sg.sig && g_sg.sig_free == 0 && g_xo.clone_free == 0))
/* failure: nothing is handed out */
__CPROVER_ensures(IMPLIES(__CPROVER_return_value != KSI_OK && extended != NULL, *extended == __CPROVER_old(*extended)))
__CPROVER_ensures(IMPLIES(g_sg.verify_calls > 0, g_sg.verify_calls == 1 && C08_INNER_OK && g_xo.verify_saw_replace == 1 && g_xo.verify_saw_replace_res == KSI_OK && g_sg.verify_sig == (const void *)g_sg.sig))
__CPROVER_ensures(IMPLIES(g_sg.verify_calls == 1 && g_sg.verify_res != KSI_OK, __CPROVER_return_value == g_sg.verify_res && g_sg.sig_free == 1))
__CPROVER_ensures(IMPLIES(g_xr.calls > 0, g_xr.calls == 1 && C08_INNER_OK && g_xr.sig == (const void *)g_sg.sig))
__CPROVER_ensures(IMPLIES(g_xr.calls == 1 && g_xr.res != KSI_OK, __CPROVER_return_value == g_xr.res && g_sg.sig_free == 1 && g_sg.verify_calls == 0))
__CPROVER_ensures(IMPLIES(g_xo.clone_calls == 1 && g_xo.clone_res != KSI_OK, __CPROVER_return_value == g_xo.clone_res && g_sg.ext_sig == NULL))
/* ownership of the clone: released exactly once unless the result took it over */
__CPROVER_ensures(g_xo.clone_free == ((g_xo.clone_calls == 1 && g_xo.clone_res == KSI_OK && !C08_REPLACED_OK) ? 1 : 0))
/* the source signature and the caller's record are preserved */
__CPROVER_ensures(g_sg.source_touched == 0 && g_sg.foreign_free == 0 && g_xo.rec_foreign_free == 0)
__CPROVER_assigns(*extended, g_sg, g_mk, c07_builder_obj, c07_eresp_obj, g_xo, g_xr);
#pragma CPROVER check pop
