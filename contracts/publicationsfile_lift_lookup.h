/* builderV (lift of C18.lookup_nearest / C18.lookup_latest to every list length).
 * Contracts of KSI_PublicationsFile_getNearestPublication / _getLatestPublication over the model list + reference scan of
 * env/c18_publist.h, written WITHOUT dereferencing any pointer that a loop havoc or a replaced contract leaves pinned
 * only by an assumed equality (CBMC's symex resolves `p->f` through its value set; a havocked `p` with an assumed
 * `p == &obj` reads an unrelated object, silently - see obligations/C18/NOTES_lift.md).  Instead every such pointer is
 * compared with the addresses of the three model slots (a ghost INDEX) and the slot is read by name.
 * Two callees that dereference the kept pointers (`KSI_Integer_compare(result_tm, tm)` inside the loop,
 * `KSI_PublicationRecord_ref(result)` after it) are replaced by the slot-indexed contracts below; those are enforced on
 * the real bodies by C18.lift_integer_compare / C18.lift_record_ref (same model objects), so the chain is closed.
 * Needs: env/c18_publist.h, `struct KSI_Integer_st g18x_q` (the queried time object), types_base.c, publicationsfile.c. */

#define L18_WIRED (g18l_rec[0].publishedData == &g18l_pd[0] && g18l_rec[1].publishedData == &g18l_pd[1] && g18l_rec[2].publishedData == &g18l_pd[2] && \
	g18l_pd[0].time == &g18l_tm[0] && g18l_pd[1].time == &g18l_tm[1] && g18l_pd[2].time == &g18l_tm[2])
#define L18_START(mode) (g18l_mode == (mode) && g18l_calls == 0 && !g18l_ref.has && g18l_best == -1 && g18l_alt == -1 && g18l_match_calls == 0 && L18_WIRED)

/* ---- integers of the model world: NULL, the query object, the three time slots ---- */
#define L18_INT_KNOWN(p) ((p) == NULL || (p) == &g18x_q || (p) == &g18l_tm[0] || (p) == &g18l_tm[1] || (p) == &g18l_tm[2])
#define L18_INT_VAL(p)   ((p) == &g18x_q ? g18x_q.value : (p) == &g18l_tm[0] ? g18l_tm[0].value : (p) == &g18l_tm[1] ? g18l_tm[1].value : g18l_tm[2].value)
/* documented order of KSI_Integer_compare: identical / both missing = 0, a missing value is less than any value, otherwise by value */
#define L18_CMP(a, b)    ((a) == (b) ? 0 : (a) == NULL ? -1 : (b) == NULL ? 1 : L18_INT_VAL(a) > L18_INT_VAL(b) ? 1 : L18_INT_VAL(a) < L18_INT_VAL(b) ? -1 : 0)

int KSI_Integer_compare(const KSI_Integer *a, const KSI_Integer *b)
__CPROVER_requires(L18_INT_KNOWN(a) && L18_INT_KNOWN(b))
__CPROVER_ensures(__CPROVER_return_value == L18_CMP(a, b))
__CPROVER_assigns();

/* ---- records of the model world: NULL or one of the three record slots ---- */
#define L18_REC_KNOWN(p) ((p) == NULL || (p) == &g18l_rec[0] || (p) == &g18l_rec[1] || (p) == &g18l_rec[2])
KSI_PublicationRecord *KSI_PublicationRecord_ref(KSI_PublicationRecord *o)
__CPROVER_requires(L18_REC_KNOWN(o))
__CPROVER_requires(g18l_rec[0].ref < 1000 && g18l_rec[1].ref < 1000 && g18l_rec[2].ref < 1000)
__CPROVER_ensures(__CPROVER_return_value == o)
/* exactly the record passed gets exactly one more reference */
__CPROVER_ensures(g18l_rec[0].ref == __CPROVER_old(g18l_rec[0].ref) + (o == &g18l_rec[0] ? 1 : 0))
__CPROVER_ensures(g18l_rec[1].ref == __CPROVER_old(g18l_rec[1].ref) + (o == &g18l_rec[1] ? 1 : 0))
__CPROVER_ensures(g18l_rec[2].ref == __CPROVER_old(g18l_rec[2].ref) + (o == &g18l_rec[2] ? 1 : 0))
__CPROVER_assigns(g18l_rec[0].ref, g18l_rec[1].ref, g18l_rec[2].ref);

/* ---- the two lookups ---- */
/* slot k holds a reference-best record: it is the first element that reached the best time or the latest one tied
 * with it, it carries the reference time, it is still wired to its published data and time, it has `refs` references */
#define L18_SLOT_BEST(k, refs) ((g18l_best == (k) || g18l_alt == (k)) && g18l_tm[k].value == g18l_ref.best && g18l_rec[k].ref == (refs) && \
	g18l_rec[k].publishedData == &g18l_pd[k] && g18l_pd[k].time == &g18l_tm[k])
#define L18_RESULT(p, refs) (((p) == &g18l_rec[0] && L18_SLOT_BEST(0, refs)) || ((p) == &g18l_rec[1] && L18_SLOT_BEST(1, refs)) || ((p) == &g18l_rec[2] && L18_SLOT_BEST(2, refs)))
/* every record other than p keeps its single reference */
#define L18_OTHERS_ONE(p) (((p) == &g18l_rec[0] || g18l_rec[0].ref == 1) && ((p) == &g18l_rec[1] || g18l_rec[1].ref == 1) && ((p) == &g18l_rec[2] || g18l_rec[2].ref == 1))

int KSI_PublicationsFile_getNearestPublication(const KSI_PublicationsFile *trust, const KSI_Integer *pubTime, KSI_PublicationRecord **pubRec)
__CPROVER_requires(trust != NULL && trust->publications == &g18l_list && pubTime == &g18x_q && g18x_q.value == g18l_t && g18l_have_t)
__CPROVER_requires(__CPROVER_is_fresh(pubRec, sizeof(*pubRec)) && L18_START(0))
__CPROVER_requires(g18l_rec[0].ref == 1 && g18l_rec[1].ref == 1 && g18l_rec[2].ref == 1)
/* always OK, the whole list is scanned */
__CPROVER_ensures(__CPROVER_return_value == KSI_OK && g18l_calls == g18l_len)
/* no publication at or after t  <=>  NULL */
__CPROVER_ensures(IFF(*pubRec == NULL, !g18l_ref.has))
/* otherwise a record carrying the EARLIEST time >= t (reference scan), returned with exactly one more reference */
__CPROVER_ensures(IMPLIES(*pubRec != NULL, L18_RESULT(*pubRec, 2)))
__CPROVER_ensures(L18_OTHERS_ONE(*pubRec))
__CPROVER_assigns(*pubRec, g18l_calls, g18l_ref, g18l_best, g18l_alt, g18l_match_calls, __CPROVER_object_whole(g18l_tm), g18l_rec[0].ref, g18l_rec[1].ref, g18l_rec[2].ref);

int KSI_PublicationsFile_getLatestPublication(const KSI_PublicationsFile *trust, const KSI_Integer *pubTime, KSI_PublicationRecord **pubRec)
__CPROVER_requires(trust != NULL && trust->publications == &g18l_list && IFF(pubTime != NULL, g18l_have_t) && IMPLIES(pubTime != NULL, pubTime == &g18x_q && g18x_q.value == g18l_t))
__CPROVER_requires(__CPROVER_is_fresh(pubRec, sizeof(*pubRec)) && L18_START(1))
__CPROVER_requires(g18l_rec[0].ref == 1 && g18l_rec[1].ref == 1 && g18l_rec[2].ref == 1)
__CPROVER_ensures(__CPROVER_return_value == KSI_OK && g18l_calls == g18l_len)
/* no candidate (empty list, or a time is given and nothing is at or after it)  <=>  NULL */
__CPROVER_ensures(IFF(*pubRec == NULL, !g18l_ref.has))
/* otherwise a record carrying the LATEST time (among those >= t when a time is given); borrowed: no reference taken */
__CPROVER_ensures(IMPLIES(*pubRec != NULL, L18_RESULT(*pubRec, 1)))
__CPROVER_ensures(g18l_rec[0].ref == 1 && g18l_rec[1].ref == 1 && g18l_rec[2].ref == 1)
__CPROVER_assigns(*pubRec, g18l_calls, g18l_ref, g18l_best, g18l_alt, g18l_match_calls, __CPROVER_object_whole(g18l_tm));
