/* Contracts for the serializer of tlv.c (C09): serializeTlv, serializePayload, serializeRaw, serializeNested,
 * KSI_TLV_writeBytes.  Include AFTER tlv.c (struct KSI_TLV_st is defined there); CBMC takes the contract from this
 * re-declaration.  Postconditions are written against spec/tlv.h.
 *
 * Logical variables.  g_sp_res / g_sp_len / g_sp_byte NAME the outputs of a replaced callee (return code, reported length,
 * the octet at witness position g_tlv_k of what it wrote).  They are never written and occur in no precondition, so
 * "output == g_x" restricts nothing; such conjuncts are compiled only into the REPLACING copy of a contract
 * (TLV_NAME_OUTPUTS), never into the enforced one.  g_tlv_k is a witness index (see fast_tlv_readn.h). */
#ifndef CONTRACTS_TLV_SERIALIZE_H
#define CONTRACTS_TLV_SERIALIZE_H
#include "spec/tlv.h"

int g_sp_res; size_t g_sp_len; unsigned char g_sp_byte; size_t g_tlv_k;
int g_st_res; size_t g_st_len; unsigned char g_st_byte2;   /* same, for serializeTlv as a callee of KSI_TLV_writeBytes */

#define TLV_WANTS_HDR(opt) (((opt) & KSI_TLV_OPT_NO_HEADER) == 0)
#define TLV_BUF_OK(buf, buf_size) (((buf) == NULL && (buf_size) == 0) || __CPROVER_is_fresh(buf, buf_size))

#ifndef TLV_NESTED_GHOST_ASSIGNS
#define TLV_NESTED_GHOST_ASSIGNS
#endif
/* raw payload: copied right-aligned; the reported length is the stored length */
static int serializeRaw(const KSI_TLV *tlv, unsigned char *buf, size_t buf_size, size_t *buf_len)
__CPROVER_requires(__CPROVER_is_fresh(tlv, sizeof(*tlv)))
#ifdef TLV_RAW_DATA
__CPROVER_requires(tlv->datap_len <= TLV_RAW_DATA_MAX && __CPROVER_is_fresh(tlv->datap, tlv->datap_len))
#endif
__CPROVER_requires(TLV_BUF_OK(buf, buf_size))
__CPROVER_requires(__CPROVER_is_fresh(buf_len, sizeof(*buf_len)))
__CPROVER_ensures(__CPROVER_return_value == ((buf != NULL && buf_size < tlv->datap_len) ? KSI_INVALID_ARGUMENT : KSI_OK))
__CPROVER_ensures(IMPLIES(__CPROVER_return_value == KSI_OK, *buf_len == tlv->datap_len))
#ifdef TLV_RAW_DATA
__CPROVER_ensures(IMPLIES(__CPROVER_return_value == KSI_OK && buf != NULL && g_tlv_k < tlv->datap_len,
		buf[buf_size - tlv->datap_len + g_tlv_k] == tlv->datap[g_tlv_k]))
#endif
__CPROVER_assigns(*buf_len; buf != NULL: __CPROVER_object_upto(buf, buf_size));

/* nested payload (caller-facing part; the tiling statement is in contracts/tlv_nested.h) */
static int serializeNested(const KSI_TLV *tlv, unsigned char *buf, size_t buf_size, size_t *buf_len)
#ifdef TLV_NESTED_GHOST
__CPROVER_requires(tlv != NULL)      /* concrete object built by the harness (function-pointer list) */
#else
__CPROVER_requires(__CPROVER_is_fresh(tlv, sizeof(*tlv)))
#endif
__CPROVER_requires(TLV_BUF_OK(buf, buf_size))
__CPROVER_requires(__CPROVER_is_fresh(buf_len, sizeof(*buf_len)))
#ifdef TLV_NESTED_GHOST
TLV_NESTED_GHOST_CLAUSES
#endif
__CPROVER_ensures(IMPLIES(__CPROVER_return_value == KSI_OK && buf != NULL, *buf_len <= buf_size))
__CPROVER_assigns(*buf_len; buf != NULL: __CPROVER_object_upto(buf, buf_size) TLV_NESTED_GHOST_ASSIGNS);

/* payload of one TLV, right-aligned in [buf, buf+buf_size) (or only measured when buf == NULL) */
static int serializePayload(const KSI_TLV *tlv, unsigned char *buf, size_t buf_size, size_t *buf_len)
__CPROVER_requires(__CPROVER_is_fresh(tlv, sizeof(*tlv)))
__CPROVER_requires(TLV_BUF_OK(buf, buf_size))
__CPROVER_requires(__CPROVER_is_fresh(buf_len, sizeof(*buf_len)))
__CPROVER_ensures(IMPLIES(__CPROVER_return_value == KSI_OK && buf != NULL, *buf_len <= buf_size))
#ifdef TLV_NAME_OUTPUTS
__CPROVER_ensures(__CPROVER_return_value == g_sp_res)
__CPROVER_ensures(IMPLIES(__CPROVER_return_value == KSI_OK, *buf_len == g_sp_len))
__CPROVER_ensures(IMPLIES(__CPROVER_return_value == KSI_OK && buf != NULL && g_tlv_k < *buf_len, buf[buf_size - *buf_len + g_tlv_k] == g_sp_byte))
#endif
__CPROVER_assigns(*buf_len; buf != NULL: __CPROVER_object_upto(buf, buf_size));

/* One element, right-aligned: [header][payload] ends at buf+buf_size.  From the property text:
 *  - a payload longer than 0xffff is refused (KSI_INVALID_FORMAT), never written with a wrong length   (DESIGN 7-e, fixed by 024f958)
 *  - the reported size is payload + header, the header is 2 octets exactly when tag <= 0x1f and payload <= 0xff
 *  - the header octets are the reference encoding of (tag, non-critical, forward, payload length)
 *  - BUFFER_OVERFLOW exactly when it does not fit; nothing outside [buf, buf+buf_size) is written (assigns + pointer checks)
 *  - the payload octets are not disturbed by writing the header */
static int serializeTlv(const KSI_TLV *tlv, unsigned char *buf, size_t buf_size, size_t *buf_len, int opt)
#ifdef TLV_NESTED_GHOST
__CPROVER_requires(tlv == &g_nl_child && tlv->tag <= SPEC_TLV_MAX_TAG)
TLV_CHILD_CLAUSES
#else
__CPROVER_requires(__CPROVER_is_fresh(tlv, sizeof(*tlv)) && tlv->tag <= SPEC_TLV_MAX_TAG)
#endif
__CPROVER_requires(TLV_BUF_OK(buf, buf_size))
__CPROVER_requires(__CPROVER_is_fresh(buf_len, sizeof(*buf_len)))
#ifdef TLV_NAME_OUTPUTS
__CPROVER_ensures(IMPLIES(__CPROVER_return_value == KSI_OK && TLV_WANTS_HDR(opt), g_sp_len <= SPEC_TLV_MAX_LEN))
__CPROVER_ensures(IMPLIES(__CPROVER_return_value == KSI_OK,
		*buf_len == g_sp_len + (TLV_WANTS_HDR(opt) ? spec_tlv_enc_hdr_len(tlv->tag, g_sp_len) : 0)))
/* result: the payload's own error; else content that exceeds the 16-bit length field is refused with INVALID_FORMAT
 * (distinct from BUFFER_OVERFLOW = does not fit the caller's buffer); else BUFFER_OVERFLOW exactly when it does not fit */
__CPROVER_ensures(__CPROVER_return_value == (g_sp_res != KSI_OK ? g_sp_res :
		(TLV_WANTS_HDR(opt) && g_sp_len > SPEC_TLV_MAX_LEN) ? KSI_INVALID_FORMAT :
		(buf != NULL && TLV_WANTS_HDR(opt) && buf_size - g_sp_len < spec_tlv_enc_hdr_len(tlv->tag, g_sp_len)) ? KSI_BUFFER_OVERFLOW : KSI_OK))
__CPROVER_ensures(IMPLIES(__CPROVER_return_value == KSI_OK && buf != NULL && TLV_WANTS_HDR(opt),
		*buf_len <= buf_size &&
		buf[buf_size - *buf_len] == spec_tlv_enc_hdr_byte(tlv->tag, tlv->isNonCritical, tlv->isForwardable, g_sp_len, 0) &&
		buf[buf_size - *buf_len + 1] == spec_tlv_enc_hdr_byte(tlv->tag, tlv->isNonCritical, tlv->isForwardable, g_sp_len, 1) &&
		(spec_tlv_enc_hdr_len(tlv->tag, g_sp_len) == 2 ||
			(buf[buf_size - *buf_len + 2] == spec_tlv_enc_hdr_byte(tlv->tag, tlv->isNonCritical, tlv->isForwardable, g_sp_len, 2) &&
			 buf[buf_size - *buf_len + 3] == spec_tlv_enc_hdr_byte(tlv->tag, tlv->isNonCritical, tlv->isForwardable, g_sp_len, 3)))))
__CPROVER_ensures(IMPLIES(__CPROVER_return_value == KSI_OK && buf != NULL && g_tlv_k < g_sp_len, buf[buf_size - g_sp_len + g_tlv_k] == g_sp_byte))
#else
/* the same contract without names for the callee's outputs: what a CALLER of serializeTlv may rely on */
__CPROVER_ensures(IMPLIES(__CPROVER_return_value == KSI_OK && buf != NULL, *buf_len <= buf_size))
#ifdef TLV_NAME_ST   /* names for the outputs, used by the job that enforces KSI_TLV_writeBytes */
__CPROVER_ensures(__CPROVER_return_value == g_st_res)
__CPROVER_ensures(IMPLIES(__CPROVER_return_value == KSI_OK, *buf_len == g_st_len))
__CPROVER_ensures(IMPLIES(__CPROVER_return_value == KSI_OK && buf != NULL && g_tlv_k < *buf_len && *buf_len <= buf_size, buf[buf_size - *buf_len + g_tlv_k] == g_st_byte2))
#endif
#endif
__CPROVER_assigns(*buf_len; buf != NULL: __CPROVER_object_upto(buf, buf_size));

/* Public serializer: the element (or only its payload with KSI_TLV_OPT_NO_HEADER) moved to the START of the buffer
 * unless KSI_TLV_OPT_NO_MOVE; every octet arrives unchanged; result code and size are those of serializeTlv. */
int KSI_TLV_writeBytes(const KSI_TLV *tlv, unsigned char *buf, size_t buf_size, size_t *buf_len, int opt)
__CPROVER_requires(__CPROVER_is_fresh(tlv, sizeof(*tlv)) && tlv->tag <= SPEC_TLV_MAX_TAG)
__CPROVER_requires(TLV_BUF_OK(buf, buf_size))
__CPROVER_requires(__CPROVER_is_fresh(buf_len, sizeof(*buf_len)))
#ifdef TLV_NAME_ST
__CPROVER_ensures(__CPROVER_return_value == g_st_res)
__CPROVER_ensures(IMPLIES(__CPROVER_return_value == KSI_OK, *buf_len == g_st_len))
__CPROVER_ensures(IMPLIES(__CPROVER_return_value != KSI_OK, *buf_len == __CPROVER_old(*buf_len)))
__CPROVER_ensures(IMPLIES(__CPROVER_return_value == KSI_OK && buf != NULL && g_tlv_k < *buf_len,
		*buf_len <= buf_size && buf[((opt & KSI_TLV_OPT_NO_MOVE) ? buf_size - *buf_len : 0) + g_tlv_k] == g_st_byte2))
#endif
__CPROVER_ensures(IMPLIES(__CPROVER_return_value == KSI_OK && buf != NULL, *buf_len <= buf_size))
__CPROVER_assigns(*buf_len; buf != NULL: __CPROVER_object_upto(buf, buf_size));
#endif
