/* Contracts for signature.c: KSI_createExtendRequest, KSI_signature_extendToWithoutVerification,
 * KSI_Signature_extendToWithPolicy (C08).  Ghost: env/c07_sign.h (g_mk, g_sg).  Declared before signature.c. */
#ifndef C07_STEP_OK
#define C07_STEP_OK(calls, res) (g_sg.calls == 1 && g_sg.res == KSI_OK)
#endif
#pragma CPROVER check push
#pragma CPROVER check disable "pointer"
#pragma CPROVER check disable "pointer-primitive"

/* ---- KSI_createExtendRequest: the request carries the signing time as aggregation time and the target as
 * publication time (absent target = calendar head); a target earlier than the signing time is refused. ---- */
int KSI_createExtendRequest(KSI_CTX *ctx, KSI_Integer *start, KSI_Integer *end, KSI_ExtendReq **request)
__CPROVER_requires(g_mk.req_new_calls == 0 && g_mk.req_live == 0 && g_mk.int_live == 0)
__CPROVER_ensures(g_mk.mkreq_from == (const void *)start && g_mk.mkreq_to == (const void *)end)
#ifdef C08_REAL_CREATE
__CPROVER_ensures(IMPLIES(ctx != NULL && start != NULL && request != NULL && end != NULL && g_mk_cmp > 0,
		__CPROVER_return_value == KSI_INVALID_ARGUMENT && g_mk.req_new_calls == 0))
__CPROVER_ensures(IMPLIES(__CPROVER_return_value == KSI_OK, end == NULL || g_mk_cmp <= 0))
#endif
__CPROVER_ensures(IMPLIES(__CPROVER_return_value == KSI_OK,
		ctx != NULL && start != NULL && request != NULL &&
		*request == (KSI_ExtendReq *)g_mk.req && *request != NULL &&
		(*request)->aggregationTime == start && (*request)->publicationTime == end &&
		g_mk.int_live == (end != NULL ? 2 : 1)))                 /* one reference taken per time stored */
__CPROVER_ensures(IFF(__CPROVER_return_value == KSI_OK, g_mk.req_live == 1))
__CPROVER_ensures(IMPLIES(__CPROVER_return_value != KSI_OK,
		(request == NULL || *request == __CPROVER_old(*request)) && g_mk.req_live == 0 && g_mk.int_live == 0))
__CPROVER_assigns(*request, g_mk);

/* ---- assumed: KSI_Signature_free / KSI_Signature_getSigningTime of signature.c, counted / recorded ---- */
void KSI_Signature_free(KSI_Signature *sig)
__CPROVER_ensures(g_sg.sig_free == __CPROVER_old(g_sg.sig_free) + ((sig != NULL && sig == g_sg.sig) ? 1 : 0))
__CPROVER_ensures(g_sg.foreign_free == __CPROVER_old(g_sg.foreign_free) + ((sig != NULL && sig != g_sg.sig) ? 1 : 0))
__CPROVER_ensures(g_sg.source_touched == (__CPROVER_old(g_sg.source_touched) || (sig != NULL && sig == g_sg_source)))
__CPROVER_assigns(g_sg.sig_free, g_sg.foreign_free, g_sg.source_touched);

int KSI_Signature_getSigningTime(const KSI_Signature *sig, KSI_Integer **signTime)
__CPROVER_ensures(g_sg.signtime_calls == __CPROVER_old(g_sg.signtime_calls) + 1 && g_sg.signtime_sig == (const void *)sig &&
		g_sg.signtime_res == __CPROVER_return_value)
__CPROVER_ensures(IMPLIES(__CPROVER_return_value == KSI_OK, signTime != NULL && *signTime == g_sg.signtime))
__CPROVER_assigns(*signTime, g_sg.signtime_calls, g_sg.signtime_sig, g_sg.signtime_res, g_sg.signtime);

/* ---- KSI_signature_extendToWithoutVerification ------------------------------------------------------------
 * OK => signing time of the source obtained -> request (signing time, target) made -> sent -> performed ->
 *   response obtained from THAT handle (content only from a MAC-verified PDU: C06) ->
 *   KSI_ExtendResp_verifyWithRequest(that response, that request) OK (status, id, times, shape: C08.ext_verifyWithRequest) ->
 *   builder opened from the source (works on a CLONE: C08.builder_openFromSignature) ->
 *   if the source has a calendar chain: KSI_CalendarHashChain_verifyCompatibilityTo(source chain, new chain) OK ->
 *   new chain applied to the builder -> builder closed (root level 0, no second verification) -> *extended = result.
 * The source signature is not in the frame (any write to it violates the assigns clause) and is never handed to a
 * modifying service; on error *extended is untouched. */
static int KSI_signature_extendToWithoutVerification(const KSI_Signature *sig, KSI_CTX *ctx, KSI_Integer *to, KSI_Signature **extended)
__CPROVER_requires(g_mk.req_new_calls == 0 && g_mk.req_live == 0 && g_mk.int_live == 0 && g_mk.mkreq_from == NULL &&
		g_sg.send_calls == 0 && g_sg.perform_calls == 0 && g_sg.getresp_calls == 0 && g_sg.vwr_calls == 0 && g_sg.open_calls == 0 &&
		g_sg.compat_calls == 0 && g_sg.apply_calls == 0 && g_sg.close_calls == 0 && g_sg.verify_calls == 0 && g_sg.signtime_calls == 0 &&
		g_sg.req_free == 0 && g_sg.handle_free == 0 && g_sg.resp_free == 0 && g_sg.builder_free == 0 && g_sg.sig_free == 0 &&
		g_sg.foreign_free == 0 && g_sg.source_touched == 0 &&
		g_sg.handle == NULL && g_sg.resp == NULL && g_sg.builder == NULL && g_sg.sig == NULL && g_sg_source == sig)
/* (argument record for callers that replace this call) */
__CPROVER_ensures(g_sg.ext_sig == (const void *)sig && g_sg.ext_to == (const void *)to)
__CPROVER_ensures(IMPLIES(__CPROVER_return_value == KSI_OK,
		sig != NULL && ctx != NULL && extended != NULL &&
		g_sg.signtime_calls == 1 && g_sg.signtime_res == KSI_OK && g_sg.signtime_sig == (const void *)sig &&
		g_mk.req_live == 1 && g_mk.mkreq_from == (const void *)g_sg.signtime && g_mk.mkreq_to == (const void *)to &&
		C07_STEP_OK(send_calls, send_res) && g_sg.send_req == g_mk.req &&
		C07_STEP_OK(perform_calls, perform_res) && g_sg.perform_handle == g_sg.handle &&
		C07_STEP_OK(getresp_calls, getresp_res) && g_sg.getresp_handle == g_sg.handle &&
		C07_STEP_OK(vwr_calls, vwr_res) && g_sg.vwr_resp == g_sg.resp && g_sg.vwr_req == g_mk.req &&
		C07_STEP_OK(open_calls, open_res) && g_sg.open_from == (const void *)sig &&
		(sig->calendarChain != NULL
			? (C07_STEP_OK(compat_calls, compat_res) && g_sg.compat_a == (const void *)sig->calendarChain &&
			   g_sg.compat_b == (const void *)c07_eresp_obj.calendarHashChain)
			: g_sg.compat_calls == 0) &&
		C07_STEP_OK(apply_calls, apply_res) && g_sg.apply_builder == (const void *)g_sg.builder &&
		g_sg.apply_chain == (const void *)c07_eresp_obj.calendarHashChain &&
		C07_STEP_OK(close_calls, close_res) && g_sg.close_builder == (const void *)g_sg.builder && g_sg.close_level == 0 &&
		*extended == g_sg.sig && g_sg.sig != NULL && g_sg.sig != sig && g_sg.sig_free == 0))
__CPROVER_ensures(IMPLIES(__CPROVER_return_value != KSI_OK && extended != NULL, *extended == __CPROVER_old(*extended)))
/* order */
__CPROVER_ensures(IMPLIES(g_sg.send_calls > 0, g_sg.send_calls == 1 && g_mk.req_live == 1 && g_sg.send_req == g_mk.req))
__CPROVER_ensures(IMPLIES(g_sg.getresp_calls > 0, g_sg.getresp_calls == 1 && C07_STEP_OK(perform_calls, perform_res)))
__CPROVER_ensures(IMPLIES(g_sg.vwr_calls > 0, g_sg.vwr_calls == 1 && C07_STEP_OK(getresp_calls, getresp_res)))
__CPROVER_ensures(IMPLIES(g_sg.open_calls > 0, g_sg.open_calls == 1 && C07_STEP_OK(vwr_calls, vwr_res)))
__CPROVER_ensures(IMPLIES(g_sg.apply_calls > 0, g_sg.apply_calls == 1 && C07_STEP_OK(open_calls, open_res) &&
		(sig->calendarChain == NULL || C07_STEP_OK(compat_calls, compat_res))))
__CPROVER_ensures(IMPLIES(g_sg.close_calls > 0, g_sg.close_calls == 1 && C07_STEP_OK(apply_calls, apply_res)))
__CPROVER_ensures(IMPLIES(g_sg.vwr_calls == 1 && g_sg.vwr_res != KSI_OK, __CPROVER_return_value == g_sg.vwr_res))
__CPROVER_ensures(IMPLIES(g_sg.compat_calls == 1 && g_sg.compat_res != KSI_OK, __CPROVER_return_value == g_sg.compat_res))
/* the source is preserved; nothing is verified here */
__CPROVER_ensures(g_sg.source_touched == 0 && g_sg.verify_calls == 0)
/* ownership */
__CPROVER_ensures(g_sg.foreign_free == 0 && g_sg.req_free == g_mk.req_live &&
		g_sg.handle_free == (C07_STEP_OK(send_calls, send_res) ? 1 : 0) &&
		g_sg.resp_free == (C07_STEP_OK(getresp_calls, getresp_res) ? 1 : 0) &&
		g_sg.builder_free == (C07_STEP_OK(open_calls, open_res) ? 1 : 0) &&
		g_sg.sig_free == ((C07_STEP_OK(close_calls, close_res) && __CPROVER_return_value != KSI_OK) ? 1 : 0))
__CPROVER_assigns(*extended, g_sg, g_mk, c07_builder_obj, c07_eresp_obj);

/* ---- KSI_Signature_extendToWithPolicy: OK => extension as above ∧ the result verifies under the policy given ---- */
int KSI_Signature_extendToWithPolicy(const KSI_Signature *sig, KSI_CTX *ctx, KSI_Integer *to,
		const KSI_Policy *policy, KSI_VerificationContext *context, KSI_Signature **extended)
__CPROVER_requires(g_mk.req_new_calls == 0 && g_mk.req_live == 0 && g_mk.int_live == 0 && g_mk.mkreq_from == NULL &&
		g_sg.send_calls == 0 && g_sg.perform_calls == 0 && g_sg.getresp_calls == 0 && g_sg.vwr_calls == 0 && g_sg.open_calls == 0 &&
		g_sg.compat_calls == 0 && g_sg.apply_calls == 0 && g_sg.close_calls == 0 && g_sg.verify_calls == 0 && g_sg.signtime_calls == 0 &&
		g_sg.req_free == 0 && g_sg.handle_free == 0 && g_sg.resp_free == 0 && g_sg.builder_free == 0 && g_sg.sig_free == 0 &&
		g_sg.foreign_free == 0 && g_sg.source_touched == 0 && g_sg.ext_sig == NULL &&
		g_sg.handle == NULL && g_sg.resp == NULL && g_sg.builder == NULL && g_sg.sig == NULL && g_sg_source == sig)
__CPROVER_ensures(IMPLIES(__CPROVER_return_value == KSI_OK,
		sig != NULL && ctx != NULL && extended != NULL && g_sg.ext_sig == (const void *)sig && g_sg.ext_to == (const void *)to &&
		C07_STEP_OK(close_calls, close_res) &&
		C07_STEP_OK(verify_calls, verify_res) && g_sg.verify_sig == (const void *)g_sg.sig && g_sg.verify_hash == NULL &&
		g_sg.verify_policy == (const void *)policy && g_sg.verify_ctx == (const void *)context &&
		*extended == g_sg.sig && g_sg.sig != NULL && g_sg.sig != sig && g_sg.sig_free == 0))
__CPROVER_ensures(IMPLIES(__CPROVER_return_value != KSI_OK && extended != NULL, *extended == __CPROVER_old(*extended)))
__CPROVER_ensures(IMPLIES(g_sg.verify_calls > 0, g_sg.verify_calls == 1 && C07_STEP_OK(close_calls, close_res)))
__CPROVER_ensures(IMPLIES(g_sg.verify_calls == 1 && g_sg.verify_res != KSI_OK, __CPROVER_return_value == g_sg.verify_res && g_sg.sig_free == 1))
__CPROVER_ensures(g_sg.source_touched == 0 && g_sg.foreign_free == 0)
__CPROVER_assigns(*extended, g_sg, g_mk, c07_builder_obj, c07_eresp_obj);
#pragma CPROVER check pop
