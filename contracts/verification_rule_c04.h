/* C04 contracts for the trust-anchor rules of verification_rule.c (loop-free comparison rules).
 *
 * Every rule  int KSI_VerificationRule_X(KSI_VerificationContext *info, KSI_RuleVerificationResult *result)  gets
 *   requires  result is as Rule_verify (policy.c, the only caller in the library) hands it over: NA / GEN-02
 *   ensures   the verdict is the one spec/c04_codes.h prescribes for the CASE the world is in
 *               HOLDS -> (KSI_OK, OK, NONE)   CONTRADICTS -> (KSI_OK, FAIL, documented code)   UNDECIDABLE -> NA (GEN-02 / NONE)
 *             (the three cases are exclusive and exhaustive, so  "KSI_OK and OK  <=>  the comparison holds")
 *   ensures   HOLDS was decided on the right operands (look-up key, trusted publications file, PKI arguments)
 *   ensures   no handle leaked or released twice (ghost reference counts balanced)
 *   assigns   *result, the tempData fields the rule documents, ghost state of the stubs - nothing of the signature,
 *             of the user's anchors or of the context.
 * The CASE of each rule is a function of the world of env/ghost_c04_world.h (fields of the concrete objects and the
 * recorded outcomes of the assumed callees) written from the rule's description in verification_rule.h / property C04. */
#ifndef CONTRACTS_VERIFICATION_RULE_C04_H
#define CONTRACTS_VERIFICATION_RULE_C04_H
#include "spec/c04_codes.h"

#define C04_ARGS_OK(info) ((info) != NULL && (info)->ctx != NULL && (info)->signature != NULL)
#define C04_TD(info) ((VerificationTempData *)(info)->tempData)

/* ---- values the rules compare (NULL = not available) ---- */
static const KSI_PublicationData *c04_sig_pubdata(const KSI_VerificationContext *info) {
	return info->signature->publication != NULL ? info->signature->publication->publishedData : NULL;
}
/* signing time (signature.h): aggregation time of the calendar chain, which defaults to its publication time; without a
 * calendar chain the aggregation time of the first aggregation hash chain */
static const KSI_Integer *c04_signing_time(const KSI_VerificationContext *info) {
	const KSI_Signature *sig = info->signature;
	if (sig->calendarChain != NULL)
		return sig->calendarChain->aggregationTime != NULL ? sig->calendarChain->aggregationTime : sig->calendarChain->publicationTime;
	if (sig->aggregationChainList == NULL || g_c04_al_res != KSI_OK || g_c04_al_null) return NULL;
	return g_c04_aggr0.aggregationTime;
}
static _Bool c04_signing_time_readable(const KSI_VerificationContext *info) {
	const KSI_Signature *sig = info->signature;
	return sig->calendarChain != NULL || (sig->aggregationChainList != NULL && g_c04_al_res == KSI_OK && !g_c04_al_null);
}
/* aggregation time of the FIRST aggregation hash chain */
static const KSI_Integer *c04_first_aggr_time(const KSI_VerificationContext *info) {
	const KSI_Signature *sig = info->signature;
	if (sig->aggregationChainList == NULL || g_c04_al_res != KSI_OK || g_c04_al_null) return NULL;
	return g_c04_aggr0.aggregationTime;
}
/* the extender's calendar chain buffered by an earlier rule */
static const KSI_CalendarHashChain *c04_ext_chain(const KSI_VerificationContext *info) {
	return info->tempData != NULL ? C04_TD(info)->calendarChain : NULL;
}
static const KSI_Integer *c04_cal_aggr_time(const KSI_CalendarHashChain *c) {
	return c == NULL ? NULL : (c->aggregationTime != NULL ? c->aggregationTime : c->publicationTime);
}
/* aggregation root of the signature: cached in tempData or computable now */
static _Bool c04_aggr_root_available(const KSI_VerificationContext *info, const KSI_DataHash *cachedBefore) {
	return cachedBefore != NULL || (info->signature->aggregationChainList != NULL && KSI_IS_VALID_TREE_LEVEL((int)info->docAggrLevel) && g_c04_aggrOut_res == KSI_OK);
}
/* the publications file record the look-up handed out */
static _Bool c04_lookup_ok(const KSI_VerificationContext *info) { return c04_pf_available(info) && g_c04_lk_res == KSI_OK; }
static _Bool c04_lookup_used(const KSI_VerificationContext *info, int kind, const void *key) {
	return g_c04_lk_calls == 1 && g_c04_lk_kind == kind && g_c04_lk_key == key && key != NULL && c04_pf_is_trusted(info, g_c04_lk_pf)
		&& g_c04_lk_pf == C04_TD(info)->publicationsFile;
}

/* call-site facts of the user-publication policy tables (policy.c): UserProvidedPublicationExistence precedes every other
 * user-publication rule (the publication has a time and a hash), and UserProvidedPublicationCreationTimeVerification precedes
 * the extension rules (signing time < publication time, by ITS contract) */
static _Bool c04_user_pub_complete(const KSI_VerificationContext *info) {
	return info == NULL || info->userPublication == NULL || (info->userPublication->time != NULL && info->userPublication->imprint != NULL);
}
static _Bool c04_created_before_user_pub(const KSI_VerificationContext *info) {
	if (!C04_ARGS_OK(info) || info->userPublication == NULL || info->userPublication->time == NULL) return 1;
	const KSI_Integer *t = c04_signing_time(info);
	return t == NULL || t->value < info->userPublication->time->value;
}

#define C04_CASE3(evaluable, holds) (!(evaluable) ? SPEC_C04_UNDECIDABLE : ((holds) ? SPEC_C04_HOLDS : SPEC_C04_CONTRADICTS))
#define C04_CASE2(evaluable, holds) (((evaluable) && (holds)) ? SPEC_C04_HOLDS : SPEC_C04_UNDECIDABLE)

/* ================================================================ cases, rule by rule ================================================================ */

/* "verify if user has provided the publication" (time and hash) */
static spec_c04_case c04_case_UserProvidedPublicationExistence(const KSI_VerificationContext *info) {
	return C04_CASE2(C04_ARGS_OK(info), info->userPublication != NULL && info->userPublication->time != NULL && info->userPublication->imprint != NULL);
}
/* "user provided publication time equals to publication time inside the signature"; a different time is not a
 * contradiction - the signature may still be extended to the user's publication */
static spec_c04_case c04_case_UserProvidedPublicationTimeVerification(const KSI_VerificationContext *info) {
	if (!C04_ARGS_OK(info) || info->userPublication == NULL) return SPEC_C04_UNDECIDABLE;
	const KSI_PublicationData *pd = c04_sig_pubdata(info);
	return C04_CASE2(pd != NULL && pd->time != NULL && info->userPublication->time != NULL, pd->time->value == info->userPublication->time->value);
}
/* "user provided publication time does NOT equal the publication time inside the signature" (selects the extension branch);
 * a signature without publication record, or a missing time, counts as "does not suit" */
static spec_c04_case c04_case_UserProvidedPublicationTimeDoesNotSuit(const KSI_VerificationContext *info) {
	if (!C04_ARGS_OK(info) || info->userPublication == NULL) return SPEC_C04_UNDECIDABLE;
	if (info->signature->publication == NULL) return SPEC_C04_HOLDS;
	const KSI_PublicationData *pd = c04_sig_pubdata(info);
	return C04_CASE2(pd != NULL, pd->time == NULL || info->userPublication->time == NULL || pd->time->value != info->userPublication->time->value);
}
/* "the user has NOT provided a publication" (general policy: the publications-file and key based branches are only tried then) */
static spec_c04_case c04_case_RequireNoUserProvidedPublication(const KSI_VerificationContext *info) {
	return C04_CASE2(C04_ARGS_OK(info), info->userPublication == NULL);
}
/* PUB-04 "user provided publication hash equals to publication hash inside the signature" */
static spec_c04_case c04_case_UserProvidedPublicationHashVerification(const KSI_VerificationContext *info) {
	if (!C04_ARGS_OK(info) || info->userPublication == NULL) return SPEC_C04_UNDECIDABLE;
	const KSI_PublicationData *pd = c04_sig_pubdata(info);
	return C04_CASE3(pd != NULL && pd->imprint != NULL && info->userPublication->imprint != NULL, c04_heq(pd->imprint, info->userPublication->imprint));
}
/* "signature is created before user provided publication": signing time < publication time */
static spec_c04_case c04_case_UserProvidedPublicationCreationTimeVerification(const KSI_VerificationContext *info) {
	if (!C04_ARGS_OK(info) || info->userPublication == NULL) return SPEC_C04_UNDECIDABLE;
	const KSI_Integer *t = c04_signing_time(info);
	return C04_CASE2(t != NULL && info->userPublication->time != NULL, t->value < info->userPublication->time->value);
}
/* "publications file contains signature publication": a record with the signature's publication time */
static _Bool c04_evaluable_pubfile_bytime(const KSI_VerificationContext *info) {
	if (!C04_ARGS_OK(info) || info->tempData == NULL || info->signature->publication == NULL) return 0;
	const KSI_PublicationData *pd = c04_sig_pubdata(info);
	return pd != NULL && pd->time != NULL && c04_lookup_ok(info);
}
static spec_c04_case c04_case_PublicationsFileContainsSignaturePublication(const KSI_VerificationContext *info) {
	return C04_CASE2(c04_evaluable_pubfile_bytime(info), g_c04_lk_found);
}
static spec_c04_case c04_case_PublicationsFileDoesNotContainSignaturePublication(const KSI_VerificationContext *info) {
	return C04_CASE2(c04_evaluable_pubfile_bytime(info), !g_c04_lk_found);
}
/* PUB-05 "the publications file publication record and the signature publication record match" */
static spec_c04_case c04_case_PublicationsFileSignaturePublicationVerification(const KSI_VerificationContext *info) {
	if (!C04_ARGS_OK(info) || info->tempData == NULL || info->signature->publication == NULL) return SPEC_C04_UNDECIDABLE;
	return C04_CASE3(c04_lookup_ok(info), g_c04_lk_found);
}
/* "publications file contains publication closest to signature registration time" (a publication not before the signing time) */
static _Bool c04_evaluable_pubfile_nearest(const KSI_VerificationContext *info) {
	if (!C04_ARGS_OK(info) || info->tempData == NULL) return 0;
	return c04_signing_time(info) != NULL && c04_lookup_ok(info);
}
static spec_c04_case c04_case_PublicationsFileContainsSuitablePublication(const KSI_VerificationContext *info) {
	return C04_CASE2(c04_evaluable_pubfile_nearest(info), g_c04_lk_found);
}
/* "signature extending is permitted"; NA GEN-02 when it is not */
static spec_c04_case c04_case_extendingPermitted(const KSI_VerificationContext *info) {
	return C04_CASE2(C04_ARGS_OK(info), info->extendingAllowed != 0);
}
/* PUB-01 (publications file): the extender's calendar root equals the hash of the nearest publication of the file */
static spec_c04_case c04_case_PublicationsFilePublicationHashMatchesExtenderResponse(const KSI_VerificationContext *info) {
	if (!c04_evaluable_pubfile_nearest(info) || !g_c04_lk_found) return SPEC_C04_UNDECIDABLE;
	return C04_CASE3(g_c04_fileRec.publishedData != NULL && g_c04_fileRec.publishedData->imprint != NULL && c04_ext_chain(info) != NULL && g_c04_root_res_ext == KSI_OK,
			c04_heq(C04_H(C04_H_EXT_ROOT), g_c04_fileRec.publishedData->imprint));
}
/* PUB-02 (publications file): the extender's chain ends at the publication time of the nearest publication AND starts at
 * the signature's own aggregation time (property C04: "reproduces the anchor with the signature's own ... aggregation time") */
static spec_c04_case c04_case_PublicationsFilePublicationTimeMatchesExtenderResponse(const KSI_VerificationContext *info) {
	if (!c04_evaluable_pubfile_nearest(info) || !g_c04_lk_found) return SPEC_C04_UNDECIDABLE;
	const KSI_CalendarHashChain *ext = c04_ext_chain(info);
	return C04_CASE3(g_c04_fileRec.publishedData != NULL && g_c04_fileRec.publishedData->time != NULL && ext != NULL && ext->publicationTime != NULL,
			g_c04_fileRec.publishedData->time->value == ext->publicationTime->value && c04_signing_time(info)->value == c04_cal_aggr_time(ext)->value);
}
/* PUB-03 (publications file): the extender's chain starts from the signature's aggregation root */
static spec_c04_case c04_case_PublicationsFileExtendedSignatureInputHash(const KSI_VerificationContext *info, const KSI_DataHash *cachedBefore) {
	if (!c04_evaluable_pubfile_nearest(info) || !g_c04_lk_found) return SPEC_C04_UNDECIDABLE;
	const KSI_CalendarHashChain *ext = c04_ext_chain(info);
	return C04_CASE3(ext != NULL && ext->inputHash != NULL && c04_aggr_root_available(info, cachedBefore), c04_heq(C04_H(C04_H_AGGR_OUT), ext->inputHash));
}
/* PUB-01 (user publication) */
static spec_c04_case c04_case_UserProvidedPublicationHashMatchesExtendedResponse(const KSI_VerificationContext *info) {
	if (!C04_ARGS_OK(info) || info->userPublication == NULL) return SPEC_C04_UNDECIDABLE;
	return C04_CASE3(c04_ext_chain(info) != NULL && g_c04_root_res_ext == KSI_OK && info->userPublication->imprint != NULL,
			c04_heq(C04_H(C04_H_EXT_ROOT), info->userPublication->imprint));
}
/* PUB-02 (user publication) */
static spec_c04_case c04_case_UserProvidedPublicationTimeMatchesExtendedResponse(const KSI_VerificationContext *info) {
	if (!C04_ARGS_OK(info) || info->userPublication == NULL) return SPEC_C04_UNDECIDABLE;
	const KSI_CalendarHashChain *ext = c04_ext_chain(info);
	const KSI_Integer *t = c04_signing_time(info);
	if (info->userPublication->time == NULL || ext == NULL || ext->publicationTime == NULL) return SPEC_C04_UNDECIDABLE;
	if (info->userPublication->time->value != ext->publicationTime->value) return SPEC_C04_CONTRADICTS;
	return C04_CASE3(t != NULL, t->value == c04_cal_aggr_time(ext)->value);
}
/* PUB-03 (user publication) */
static spec_c04_case c04_case_UserProvidedPublicationExtendedSignatureInputHash(const KSI_VerificationContext *info, const KSI_DataHash *cachedBefore) {
	if (!C04_ARGS_OK(info) || info->tempData == NULL) return SPEC_C04_UNDECIDABLE;
	const KSI_CalendarHashChain *ext = c04_ext_chain(info);
	return C04_CASE3(ext != NULL && ext->inputHash != NULL && c04_aggr_root_available(info, cachedBefore), c04_heq(C04_H(C04_H_AGGR_OUT), ext->inputHash));
}
/* CAL-02: as PUB-03 for the calendar based policy */
#define c04_case_ExtendedSignatureCalendarChainInputHash c04_case_UserProvidedPublicationExtendedSignatureInputHash
/* CAL-03: aggregation time of the signature (first aggregation hash chain) equals the aggregation time of the extender's chain */
static spec_c04_case c04_case_ExtendedSignatureCalendarChainAggregationTime(const KSI_VerificationContext *info) {
	if (!C04_ARGS_OK(info)) return SPEC_C04_UNDECIDABLE;
	const KSI_Integer *a = c04_first_aggr_time(info), *e = c04_cal_aggr_time(c04_ext_chain(info));
	return C04_CASE3(a != NULL && e != NULL, a->value == e->value);
}
/* CAL-01: root of the signature's calendar chain equals the root of the chain reproduced by the extender */
static spec_c04_case c04_case_ExtendedSignatureCalendarChainRootHash(const KSI_VerificationContext *info) {
	if (!C04_ARGS_OK(info)) return SPEC_C04_UNDECIDABLE;
	return C04_CASE3(c04_ext_chain(info) != NULL && info->signature->calendarChain != NULL && g_c04_root_res_sig == KSI_OK && g_c04_root_res_ext == KSI_OK,
			c04_heq(C04_H(C04_H_SIG_ROOT), C04_H(C04_H_EXT_ROOT)));
}
static spec_c04_case c04_case_CalendarAuthenticationRecordExistence(const KSI_VerificationContext *info) {
	return C04_CASE2(C04_ARGS_OK(info), info->signature->calendarAuthRec != NULL);
}
static spec_c04_case c04_case_CalendarAuthenticationRecordDoesNotExist(const KSI_VerificationContext *info) {
	return C04_CASE2(C04_ARGS_OK(info), info->signature->calendarAuthRec == NULL);
}
/* key based policy: the certificate named by the authentication record is listed in the trusted publications file */
static _Bool c04_cert_lookup_evaluable(const KSI_VerificationContext *info) {
	if (!C04_ARGS_OK(info) || info->tempData == NULL || info->signature->calendarAuthRec == NULL) return 0;
	const KSI_CalendarAuthRec *car = info->signature->calendarAuthRec;
	return car->signatureData != NULL && car->signatureData->certId != NULL && c04_lookup_ok(info);
}
static spec_c04_case c04_case_CertificateExistence(const KSI_VerificationContext *info) {
	return C04_CASE2(c04_cert_lookup_evaluable(info), g_c04_lk_found);
}
/* KEY-03: notBefore <= aggregation time of the signature's calendar chain <= notAfter */
static spec_c04_case c04_case_CertificateValidity(const KSI_VerificationContext *info) {
	if (!c04_cert_lookup_evaluable(info) || !g_c04_lk_found) return SPEC_C04_UNDECIDABLE;
	const KSI_Integer *t = c04_cal_aggr_time(info->signature->calendarChain);
	return C04_CASE3(g_c04_nb_res == KSI_OK && g_c04_na_res == KSI_OK && t != NULL, spec_c04_cert_valid_at(g_c04_notBefore, g_c04_notAfter, t->value));
}
/* KEY-02: the PKI signature over the published data verifies with the listed certificate */
static spec_c04_case c04_case_CalendarAuthenticationRecordSignatureVerification(const KSI_VerificationContext *info) {
	if (!c04_cert_lookup_evaluable(info) || !g_c04_lk_found) return SPEC_C04_UNDECIDABLE;
	const KSI_CalendarAuthRec *car = info->signature->calendarAuthRec;
	return C04_CASE3(car->signatureData->signatureValue != NULL && car->pubData != NULL && car->pubData->baseTlv != NULL && g_c04_ser_buf != NULL,
			g_c04_pki_res == KSI_OK);
}

/* ================================================================ contract building blocks ================================================================ */
#define C04_GHOST_FRAME \
	g_c04_eq_calls, g_c04_href[C04_H_SIG_ROOT], g_c04_href[C04_H_EXT_ROOT], g_c04_al_calls, g_c04_aggrOut_calls, g_c04_root_calls, \
	g_c04_pf_ref_user, g_c04_pf_ref_net, g_c04_recv_calls, g_c04_verify_calls, g_c04_pf_verified, \
	g_c04_lk_kind, g_c04_lk_calls, g_c04_lk_pf, g_c04_lk_key, g_c04_rec_live, \
	g_c04_ser_buf, g_c04_ser_len, g_c04_ser_tlv, g_c04_pki_calls, g_c04_pki_args_ok

#define C04_COMMON_REQUIRES \
	__CPROVER_requires(result == NULL || (result->resultCode == KSI_VER_RES_NA && result->errorCode == KSI_VER_ERR_GEN_2)) \
	__CPROVER_requires(c04_wf_times() && c04_wf_hashes()) \
	__CPROVER_requires(c04_resources_balanced() && g_c04_lk_calls == 0 && g_c04_pki_calls == 0 && !g_c04_pf_verified && g_c04_ser_buf == NULL)

#define C04_VERDICT(rule, CASE) \
	__CPROVER_ensures(result == NULL ? __CPROVER_return_value == KSI_INVALID_ARGUMENT : \
		spec_c04_verdict_matches((CASE), SPEC_C04_CODE_##rule, __CPROVER_return_value, result->resultCode, result->errorCode)) \
	__CPROVER_ensures(IMPLIES(result != NULL && !C04_ARGS_OK(info), __CPROVER_return_value == KSI_INVALID_ARGUMENT)) \
	__CPROVER_ensures(c04_resources_balanced())

#define C04_IS_OK (result != NULL && __CPROVER_return_value == KSI_OK && result->resultCode == KSI_VER_RES_OK)
#define C04_IS_CONCLUSIVE (result != NULL && __CPROVER_return_value == KSI_OK && result->resultCode != KSI_VER_RES_NA)

/* frames */
#define C04_FRAME_RESULT               __CPROVER_assigns(result != NULL: *result; C04_GHOST_FRAME)
#define C04_FRAME_RESULT_PUBFILE       __CPROVER_assigns(result != NULL: *result; g_c04_td.publicationsFile; C04_GHOST_FRAME)
#define C04_FRAME_RESULT_AGGRROOT      __CPROVER_assigns(result != NULL: *result; g_c04_td.aggregationOutputHash; C04_GHOST_FRAME)
#define C04_FRAME_RESULT_PUBFILE_AGGRROOT __CPROVER_assigns(result != NULL: *result; g_c04_td.publicationsFile; g_c04_td.aggregationOutputHash; C04_GHOST_FRAME)

/* a publications file that was not obtained is reported as NA with the error status recorded, or as an error status */
#define C04_PUBFILE_FAILURE_REPORTED(precond) \
	__CPROVER_ensures(IMPLIES(result != NULL && (precond) && !c04_pf_available(info), \
		(__CPROVER_return_value == KSI_OK && result->status == c04_pf_error()) || __CPROVER_return_value == c04_pf_error()))

/* ================================================================ the contracts ================================================================ */
int KSI_VerificationRule_UserProvidedPublicationExistence(KSI_VerificationContext *info, KSI_RuleVerificationResult *result)
C04_COMMON_REQUIRES
C04_VERDICT(UserProvidedPublicationExistence, c04_case_UserProvidedPublicationExistence(info))
__CPROVER_ensures(IMPLIES(result != NULL && C04_ARGS_OK(info), __CPROVER_return_value == KSI_OK))
C04_FRAME_RESULT;

int KSI_VerificationRule_UserProvidedPublicationTimeVerification(KSI_VerificationContext *info, KSI_RuleVerificationResult *result)
C04_COMMON_REQUIRES
C04_VERDICT(UserProvidedPublicationTimeVerification, c04_case_UserProvidedPublicationTimeVerification(info))
C04_FRAME_RESULT;

int KSI_VerificationRule_UserProvidedPublicationTimeDoesNotSuit(KSI_VerificationContext *info, KSI_RuleVerificationResult *result)
C04_COMMON_REQUIRES
C04_VERDICT(UserProvidedPublicationTimeDoesNotSuit, c04_case_UserProvidedPublicationTimeDoesNotSuit(info))
C04_FRAME_RESULT;

int KSI_VerificationRule_RequireNoUserProvidedPublication(KSI_VerificationContext *info, KSI_RuleVerificationResult *result)
C04_COMMON_REQUIRES
C04_VERDICT(RequireNoUserProvidedPublication, c04_case_RequireNoUserProvidedPublication(info))
__CPROVER_ensures(IMPLIES(result != NULL && C04_ARGS_OK(info), __CPROVER_return_value == KSI_OK))
C04_FRAME_RESULT;

int KSI_VerificationRule_UserProvidedPublicationHashVerification(KSI_VerificationContext *info, KSI_RuleVerificationResult *result)
C04_COMMON_REQUIRES
C04_VERDICT(UserProvidedPublicationHashVerification, c04_case_UserProvidedPublicationHashVerification(info))
C04_FRAME_RESULT;

int KSI_VerificationRule_UserProvidedPublicationCreationTimeVerification(KSI_VerificationContext *info, KSI_RuleVerificationResult *result)
C04_COMMON_REQUIRES
C04_VERDICT(UserProvidedPublicationCreationTimeVerification, c04_case_UserProvidedPublicationCreationTimeVerification(info))
C04_FRAME_RESULT;

int KSI_VerificationRule_PublicationsFileContainsSignaturePublication(KSI_VerificationContext *info, KSI_RuleVerificationResult *result)
C04_COMMON_REQUIRES
C04_VERDICT(PublicationsFileContainsSignaturePublication, c04_case_PublicationsFileContainsSignaturePublication(info))
__CPROVER_ensures(IMPLIES(C04_IS_OK, c04_lookup_used(info, C04_LK_BYTIME, c04_sig_pubdata(info)->time)))
C04_PUBFILE_FAILURE_REPORTED(C04_ARGS_OK(info) && info->tempData != NULL && info->signature->publication != NULL)
C04_FRAME_RESULT_PUBFILE;

int KSI_VerificationRule_PublicationsFileDoesNotContainSignaturePublication(KSI_VerificationContext *info, KSI_RuleVerificationResult *result)
C04_COMMON_REQUIRES
C04_VERDICT(PublicationsFileDoesNotContainSignaturePublication, c04_case_PublicationsFileDoesNotContainSignaturePublication(info))
__CPROVER_ensures(IMPLIES(C04_IS_OK, c04_lookup_used(info, C04_LK_BYTIME, c04_sig_pubdata(info)->time)))
C04_FRAME_RESULT_PUBFILE;

int KSI_VerificationRule_PublicationsFileSignaturePublicationVerification(KSI_VerificationContext *info, KSI_RuleVerificationResult *result)
C04_COMMON_REQUIRES
C04_VERDICT(PublicationsFileSignaturePublicationVerification, c04_case_PublicationsFileSignaturePublicationVerification(info))
__CPROVER_ensures(IMPLIES(C04_IS_CONCLUSIVE, c04_lookup_used(info, C04_LK_FIND, info->signature->publication)))
C04_PUBFILE_FAILURE_REPORTED(C04_ARGS_OK(info) && info->tempData != NULL && info->signature->publication != NULL)
C04_FRAME_RESULT_PUBFILE;

int KSI_VerificationRule_PublicationsFileContainsSuitablePublication(KSI_VerificationContext *info, KSI_RuleVerificationResult *result)
C04_COMMON_REQUIRES
C04_VERDICT(PublicationsFileContainsSuitablePublication, c04_case_PublicationsFileContainsSuitablePublication(info))
__CPROVER_ensures(IMPLIES(C04_IS_OK, c04_lookup_used(info, C04_LK_NEAREST, c04_signing_time(info))))
C04_PUBFILE_FAILURE_REPORTED(C04_ARGS_OK(info) && info->tempData != NULL && c04_signing_time_readable(info))
C04_FRAME_RESULT_PUBFILE;

int KSI_VerificationRule_PublicationsFileExtendingPermittedVerification(KSI_VerificationContext *info, KSI_RuleVerificationResult *result)
C04_COMMON_REQUIRES
C04_VERDICT(PublicationsFileExtendingPermittedVerification, c04_case_extendingPermitted(info))
__CPROVER_ensures(IMPLIES(result != NULL && C04_ARGS_OK(info) && info->extendingAllowed == 0,
	__CPROVER_return_value == KSI_OK && result->resultCode == KSI_VER_RES_NA && result->errorCode == KSI_VER_ERR_GEN_2))
C04_FRAME_RESULT;

int KSI_VerificationRule_UserProvidedPublicationExtendingPermittedVerification(KSI_VerificationContext *info, KSI_RuleVerificationResult *result)
C04_COMMON_REQUIRES
C04_VERDICT(UserProvidedPublicationExtendingPermittedVerification, c04_case_extendingPermitted(info))
__CPROVER_ensures(IMPLIES(result != NULL && C04_ARGS_OK(info) && info->extendingAllowed == 0,
	__CPROVER_return_value == KSI_OK && result->resultCode == KSI_VER_RES_NA && result->errorCode == KSI_VER_ERR_GEN_2))
C04_FRAME_RESULT;

int KSI_VerificationRule_PublicationsFilePublicationHashMatchesExtenderResponse(KSI_VerificationContext *info, KSI_RuleVerificationResult *result)
C04_COMMON_REQUIRES
C04_VERDICT(PublicationsFilePublicationHashMatchesExtenderResponse, c04_case_PublicationsFilePublicationHashMatchesExtenderResponse(info))
__CPROVER_ensures(IMPLIES(C04_IS_CONCLUSIVE, c04_lookup_used(info, C04_LK_NEAREST, c04_signing_time(info))))
C04_FRAME_RESULT_PUBFILE;

int KSI_VerificationRule_PublicationsFilePublicationTimeMatchesExtenderResponse(KSI_VerificationContext *info, KSI_RuleVerificationResult *result)
C04_COMMON_REQUIRES
C04_VERDICT(PublicationsFilePublicationTimeMatchesExtenderResponse, c04_case_PublicationsFilePublicationTimeMatchesExtenderResponse(info))
__CPROVER_ensures(IMPLIES(C04_IS_CONCLUSIVE, c04_lookup_used(info, C04_LK_NEAREST, c04_signing_time(info))))
C04_FRAME_RESULT_PUBFILE;

int KSI_VerificationRule_PublicationsFileExtendedSignatureInputHash(KSI_VerificationContext *info, KSI_RuleVerificationResult *result)
C04_COMMON_REQUIRES
C04_VERDICT(PublicationsFileExtendedSignatureInputHash, c04_case_PublicationsFileExtendedSignatureInputHash(info, __CPROVER_old(g_c04_td.aggregationOutputHash)))
__CPROVER_ensures(IMPLIES(C04_IS_CONCLUSIVE, c04_lookup_used(info, C04_LK_NEAREST, c04_signing_time(info))))
__CPROVER_ensures(g_c04_td.aggregationOutputHash == __CPROVER_old(g_c04_td.aggregationOutputHash) || (__CPROVER_old(g_c04_td.aggregationOutputHash) == NULL && g_c04_td.aggregationOutputHash == C04_H(C04_H_AGGR_OUT)))
C04_FRAME_RESULT_PUBFILE_AGGRROOT;

int KSI_VerificationRule_UserProvidedPublicationHashMatchesExtendedResponse(KSI_VerificationContext *info, KSI_RuleVerificationResult *result)
C04_COMMON_REQUIRES
__CPROVER_requires(c04_user_pub_complete(info))
C04_VERDICT(UserProvidedPublicationHashMatchesExtendedResponse, c04_case_UserProvidedPublicationHashMatchesExtendedResponse(info))
C04_FRAME_RESULT;

int KSI_VerificationRule_UserProvidedPublicationTimeMatchesExtendedResponse(KSI_VerificationContext *info, KSI_RuleVerificationResult *result)
C04_COMMON_REQUIRES
__CPROVER_requires(c04_user_pub_complete(info) && c04_created_before_user_pub(info))
C04_VERDICT(UserProvidedPublicationTimeMatchesExtendedResponse, c04_case_UserProvidedPublicationTimeMatchesExtendedResponse(info))
C04_FRAME_RESULT;

int KSI_VerificationRule_UserProvidedPublicationExtendedSignatureInputHash(KSI_VerificationContext *info, KSI_RuleVerificationResult *result)
C04_COMMON_REQUIRES
C04_VERDICT(UserProvidedPublicationExtendedSignatureInputHash, c04_case_UserProvidedPublicationExtendedSignatureInputHash(info, __CPROVER_old(g_c04_td.aggregationOutputHash)))
__CPROVER_ensures(g_c04_td.aggregationOutputHash == __CPROVER_old(g_c04_td.aggregationOutputHash) || (__CPROVER_old(g_c04_td.aggregationOutputHash) == NULL && g_c04_td.aggregationOutputHash == C04_H(C04_H_AGGR_OUT)))
C04_FRAME_RESULT_AGGRROOT;

int KSI_VerificationRule_ExtendedSignatureCalendarChainInputHash(KSI_VerificationContext *info, KSI_RuleVerificationResult *result)
C04_COMMON_REQUIRES
C04_VERDICT(ExtendedSignatureCalendarChainInputHash, c04_case_ExtendedSignatureCalendarChainInputHash(info, __CPROVER_old(g_c04_td.aggregationOutputHash)))
__CPROVER_ensures(g_c04_td.aggregationOutputHash == __CPROVER_old(g_c04_td.aggregationOutputHash) || (__CPROVER_old(g_c04_td.aggregationOutputHash) == NULL && g_c04_td.aggregationOutputHash == C04_H(C04_H_AGGR_OUT)))
C04_FRAME_RESULT_AGGRROOT;

int KSI_VerificationRule_ExtendedSignatureCalendarChainAggregationTime(KSI_VerificationContext *info, KSI_RuleVerificationResult *result)
C04_COMMON_REQUIRES
C04_VERDICT(ExtendedSignatureCalendarChainAggregationTime, c04_case_ExtendedSignatureCalendarChainAggregationTime(info))
C04_FRAME_RESULT;

int KSI_VerificationRule_ExtendedSignatureCalendarChainRootHash(KSI_VerificationContext *info, KSI_RuleVerificationResult *result)
C04_COMMON_REQUIRES
C04_VERDICT(ExtendedSignatureCalendarChainRootHash, c04_case_ExtendedSignatureCalendarChainRootHash(info))
C04_FRAME_RESULT;

int KSI_VerificationRule_CalendarAuthenticationRecordExistence(KSI_VerificationContext *info, KSI_RuleVerificationResult *result)
C04_COMMON_REQUIRES
C04_VERDICT(CalendarAuthenticationRecordExistence, c04_case_CalendarAuthenticationRecordExistence(info))
__CPROVER_ensures(IMPLIES(result != NULL && C04_ARGS_OK(info), __CPROVER_return_value == KSI_OK))
C04_FRAME_RESULT;

int KSI_VerificationRule_CalendarAuthenticationRecordDoesNotExist(KSI_VerificationContext *info, KSI_RuleVerificationResult *result)
C04_COMMON_REQUIRES
C04_VERDICT(CalendarAuthenticationRecordDoesNotExist, c04_case_CalendarAuthenticationRecordDoesNotExist(info))
__CPROVER_ensures(IMPLIES(result != NULL && C04_ARGS_OK(info), __CPROVER_return_value == KSI_OK))
C04_FRAME_RESULT;

int KSI_VerificationRule_CertificateExistence(KSI_VerificationContext *info, KSI_RuleVerificationResult *result)
C04_COMMON_REQUIRES
C04_VERDICT(CertificateExistence, c04_case_CertificateExistence(info))
__CPROVER_ensures(IMPLIES(C04_IS_OK, c04_lookup_used(info, C04_LK_CERT, info->signature->calendarAuthRec->signatureData->certId)))
__CPROVER_ensures(IMPLIES(result != NULL && c04_cert_lookup_evaluable(info) && !g_c04_lk_found, __CPROVER_return_value == KSI_OK && result->errorCode == KSI_VER_ERR_GEN_2))
C04_PUBFILE_FAILURE_REPORTED(C04_ARGS_OK(info) && info->tempData != NULL && info->signature->calendarAuthRec != NULL && info->signature->calendarAuthRec->signatureData != NULL && info->signature->calendarAuthRec->signatureData->certId != NULL)
C04_FRAME_RESULT_PUBFILE;

int KSI_VerificationRule_CertificateValidity(KSI_VerificationContext *info, KSI_RuleVerificationResult *result)
C04_COMMON_REQUIRES
C04_VERDICT(CertificateValidity, c04_case_CertificateValidity(info))
__CPROVER_ensures(IMPLIES(C04_IS_CONCLUSIVE, c04_lookup_used(info, C04_LK_CERT, info->signature->calendarAuthRec->signatureData->certId)))
C04_FRAME_RESULT_PUBFILE;

int KSI_VerificationRule_CalendarAuthenticationRecordSignatureVerification(KSI_VerificationContext *info, KSI_RuleVerificationResult *result)
C04_COMMON_REQUIRES
C04_VERDICT(CalendarAuthenticationRecordSignatureVerification, c04_case_CalendarAuthenticationRecordSignatureVerification(info))
__CPROVER_ensures(IMPLIES(C04_IS_CONCLUSIVE, c04_lookup_used(info, C04_LK_CERT, info->signature->calendarAuthRec->signatureData->certId)
	&& g_c04_pki_calls == 1 && g_c04_pki_args_ok))
C04_FRAME_RESULT_PUBFILE;

#endif
