/* Contracts for the parser side of tlv_element.c (C09 / C12 / C19): KSI_TlvElement_parse, convertToNested.
 * Included BEFORE tlv_element.c (the structs are public: tlv_element.h).  Ghost list (B): see below. */
#ifndef CONTRACTS_TLV_ELEMENT_PARSE_H
#define CONTRACTS_TLV_ELEMENT_PARSE_H
#include "spec/tlv.h"

#ifndef EL_MAX_INPUT
#define EL_MAX_INPUT ((size_t)1 << 40)
#endif

#ifdef EL_PARSE_ARITH
/* arithmetic abstraction of the contract below (nothing about the octets), for the loop of convertToNested; enforced on
 * the real body by job C09.elparse_arith */
int KSI_TlvElement_parse(unsigned char *dat, size_t dat_len, KSI_TlvElement **out)
__CPROVER_requires(dat_len >= 1 && dat_len <= EL_MAX_INPUT && __CPROVER_is_fresh(dat, dat_len))
__CPROVER_requires(__CPROVER_is_fresh(out, sizeof(*out)))
__CPROVER_ensures(__CPROVER_return_value == KSI_OK || __CPROVER_return_value == KSI_INVALID_FORMAT || __CPROVER_return_value == KSI_OUT_OF_MEMORY)
__CPROVER_ensures(IMPLIES(__CPROVER_return_value != KSI_OK, *out == __CPROVER_old(*out)))
__CPROVER_ensures(IMPLIES(__CPROVER_return_value == KSI_OK, __CPROVER_is_fresh(*out, sizeof(**out)) &&
		(*out)->ref == 1 && (*out)->ptr == dat && (*out)->ptr_own == 0 && (*out)->subList == NULL &&
		((*out)->ftlv.hdr_len == 2 || (*out)->ftlv.hdr_len == 4) && (*out)->ftlv.dat_len <= SPEC_TLV_MAX_LEN &&
		(*out)->ftlv.hdr_len + (*out)->ftlv.dat_len <= dat_len))
__CPROVER_assigns(*out);
#else
/* one element at the start of [dat, dat+dat_len): OK <=> complete element (trailing octets allowed), the new object
 * reports exactly the encoded header and borrows dat.  dat_len >= 1: see C09.memRead_empty for the empty buffer. */
int KSI_TlvElement_parse(unsigned char *dat, size_t dat_len, KSI_TlvElement **out)
__CPROVER_requires(dat_len >= 1 && dat_len <= EL_MAX_INPUT && __CPROVER_is_fresh(dat, dat_len))
#ifdef EL_OUT_BY_HARNESS
__CPROVER_requires(out != NULL)
#else
__CPROVER_requires(__CPROVER_is_fresh(out, sizeof(*out)))
#endif
__CPROVER_ensures(__CPROVER_return_value == KSI_OK || __CPROVER_return_value == KSI_INVALID_FORMAT || __CPROVER_return_value == KSI_OUT_OF_MEMORY)
__CPROVER_ensures(IMPLIES(__CPROVER_return_value == KSI_OK, spec_tlv_elem_complete(dat, dat_len)))
__CPROVER_ensures(IMPLIES(__CPROVER_return_value == KSI_INVALID_FORMAT, !spec_tlv_elem_complete(dat, dat_len)))
__CPROVER_ensures(IMPLIES(__CPROVER_return_value != KSI_OK, *out == __CPROVER_old(*out)))
__CPROVER_ensures(IMPLIES(__CPROVER_return_value == KSI_OK, __CPROVER_is_fresh(*out, sizeof(**out)) &&
		(*out)->ref == 1 && (*out)->ptr == dat && (*out)->ptr_own == 0 && (*out)->subList == NULL && (*out)->ftlv.off == 0 &&
		(*out)->ftlv.tag == spec_tlv_dec_tag(dat, dat_len) &&
		(*out)->ftlv.is_nc == spec_tlv_dec_nc(dat, dat_len) &&
		(*out)->ftlv.is_fwd == spec_tlv_dec_fwd(dat, dat_len) &&
		(*out)->ftlv.hdr_len == spec_tlv_dec_hdr_len(dat, dat_len) &&
		(*out)->ftlv.dat_len == spec_tlv_dec_dat_len(dat, dat_len)))
__CPROVER_assigns(*out);
#endif

#ifdef EL_BUILD_GHOST
/* [ASSUMED in the job that enforces convertToNested] KSI_TlvElement_free releases the object it is given and nothing
 * else; modelled as recording its argument (dfcc cannot free, after a loop contract, an object that was allocated inside
 * the loop - same as KSI_TLV_free in contracts/tlv_parse.h) */
KSI_TlvElement *g_elfree_arg; size_t g_elfree_calls;
void KSI_TlvElement_free(KSI_TlvElement *t)
__CPROVER_ensures(g_elfree_arg == t && g_elfree_calls == __CPROVER_old(g_elfree_calls) + 1)
__CPROVER_assigns(g_elfree_arg, g_elfree_calls);
/* lazy expansion of an element's payload into children, against the ghost list (B) of env/ghost_tlvelem.h: the list stub
 * checks for EVERY child, when it is appended, that it starts where its predecessor ended and stays inside the payload.
 * Success requires exact cover.  Failure must leave the element unexpanded and release what was built
 * (DESIGN 7-f, fixed by 9b9802b). */
static int convertToNested(KSI_TlvElement *el)
__CPROVER_requires(el != NULL && (el->subList == NULL || el->subList == &g_el_list))
__CPROVER_requires((el->ftlv.hdr_len == 2 || el->ftlv.hdr_len == 4) && el->ftlv.dat_len <= EL_MAX_INPUT)
__CPROVER_requires(el->ptr + el->ftlv.hdr_len == g_eb_base && el->ftlv.dat_len == g_eb_len && __CPROVER_r_ok(el->ptr, el->ftlv.hdr_len + el->ftlv.dat_len))
__CPROVER_requires(!g_eb_live && !g_eb_freed && g_eb_off == 0 && g_eb_count == 0 && g_eb_rejected == NULL && g_elfree_calls == 0)
__CPROVER_ensures(__CPROVER_return_value == KSI_OK || __CPROVER_return_value == KSI_INVALID_FORMAT || __CPROVER_return_value == KSI_OUT_OF_MEMORY)
__CPROVER_ensures(IMPLIES(__CPROVER_old(el->subList) != NULL, __CPROVER_return_value == KSI_OK && el->subList == __CPROVER_old(el->subList) && !g_eb_live))
__CPROVER_ensures(IMPLIES(__CPROVER_return_value == KSI_OK && __CPROVER_old(el->subList) == NULL,
		el->subList == &g_eb_list && g_eb_live && !g_eb_freed && g_eb_off == el->ftlv.dat_len))
__CPROVER_ensures(IMPLIES(__CPROVER_return_value != KSI_OK, el->subList == NULL))
/* no leak on the error paths: the list built so far is released (with the children it owns), and the one child the
 * list refused - still owned by convertToNested - is released, too; nothing else is (ownership: the cleanup block may
 * release exactly what this call allocated and still owns) */
__CPROVER_ensures(IMPLIES(__CPROVER_return_value != KSI_OK && g_eb_live, g_eb_freed))
__CPROVER_ensures(g_elfree_calls == 1 && g_elfree_arg == g_eb_rejected)
__CPROVER_assigns(g_elfree_arg, g_elfree_calls, el->subList, g_eb_list, g_eb_live, g_eb_freed, g_eb_count, g_eb_off, g_eb_rejected);
#endif
#endif
