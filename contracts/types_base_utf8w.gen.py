"""Generates contracts/types_base_utf8w.loops.json (the two loop invariants of verifyUtf8 are the loop-free window
predicate of spec/utf8_window.h written out as one expression: loop-contract predicates cannot call functions).
Run: python3 contracts/types_base_utf8w.gen.py"""
import json
def CONT(x): return "(str[%s] >= 128 && str[%s] <= 191)" % (x, x)
def LEADN(x): return "(str[%s] <= 127 ? 0 : (str[%s] >= 192 && str[%s] <= 223) ? 1 : (str[%s] >= 224 && str[%s] <= 239) ? 2 : (str[%s] >= 240 && str[%s] <= 244) ? 3 : 9)" % ((x,)*7)
def NULOK(x): return "!(str[%s] == 0 && (%s) + 1 != len)" % (x, x)
def UPTO(w, e):
    def case(n):
        conts = "".join(" && " + CONT("(%s) + %d" % (w, j)) for j in range(1, n + 1))
        return "((%s) + %d <= (%s)%s && ((%s) + %d >= (%s) || !%s))" % (w, n + 1, e, conts, w, n + 1, e, CONT("(%s) + %d" % (w, n + 1)))
    return ("(%s && (%s ? (%s) != 0 : str[%s] <= 127 ? %s : str[%s] <= 223 ? %s : str[%s] <= 239 ? %s : str[%s] <= 244 ? %s : 0))"
        % (NULOK(w), "(str[%s] >= 128 && str[%s] <= 191)" % (w, w), w, w, case(0), w, "(str[%s] >= 192 && %s)" % (w, case(1)), w, case(2), w, case(3)))
W = "g_u8w"
outer = "i <= len && (%s >= i || %s)" % (W, UPTO(W, "i"))
L = "(__CPROVER_loop_entry(i) - 1)"
N0 = "__CPROVER_loop_entry(charContinuationLen)"
lead = "(str[%s] <= 127 ? 0 : str[%s] <= 191 ? 9 : str[%s] <= 223 ? 1 : str[%s] <= 239 ? 2 : str[%s] <= 244 ? 3 : 9)" % ((L,)*5)
# inner loop: L = position of the lead octet (constant during the loop), N0 = continuation octets it announces
inner = ("__CPROVER_loop_entry(i) >= 1 && %s <= 3 && %s + %s < len && %s == %s && %s && "
         "charContinuationLen <= %s && i + charContinuationLen == %s + 1 + %s && "
         "(i <= %s + 1 || %s) && (i <= %s + 2 || %s) && (i <= %s + 3 || %s) && (%s >= %s || %s)") % (
    N0, L, N0, lead, N0, NULOK(L), N0, L, N0,
    L, CONT(L + " + 1"), L, CONT(L + " + 2"), L, CONT(L + " + 3"), W, L, UPTO(W, L))
sm = "i,verifyUtf8::1::i;charContinuationLen,verifyUtf8::1::charContinuationLen;res,verifyUtf8::1::res;str,verifyUtf8::str;len,verifyUtf8::len"
d = {"sources": ["types_base.c"], "functions": [{"verifyUtf8": [
    {"loop_id": "0", "assigns": "i, charContinuationLen", "invariants": inner, "decreases": "charContinuationLen", "symbol_map": sm},
    {"loop_id": "1", "assigns": "i, charContinuationLen, res", "invariants": outer, "decreases": "len - i", "symbol_map": sm},
]}]}
json.dump(d, open("/verif/contracts/types_base_utf8w.loops.json", "w"), indent=1)
print(len(inner), len(outer))
