/* Contracts for signature.c: KSI_createSignRequest and KSI_Signature_signAggregatedWithPolicy (C07).
 * Ghost record: env/c07_sign.h (g_sg).  Declared before #include "signature.c". */
#pragma CPROVER check push
#pragma CPROVER check disable "pointer"
#pragma CPROVER check disable "pointer-primitive"

/* ---- KSI_createSignRequest ------------------------------------------------------------------------------
 * The blocking interface refuses an input hash of an untrusted algorithm before anything is built; the request
 * carries the caller's hash (same object, one more reference) and level unchanged (level 0 = no level element).
 * Enforced by C07.createSignRequest, replaced in C07.sign_orchestration. */
#define C07_LVL_OK(lvl) ((lvl) >= 0 && (lvl) <= 0xff)
int KSI_createSignRequest(KSI_CTX *ctx, KSI_DataHash *hsh, int lvl, KSI_AggregationReq **request)
__CPROVER_requires(g_mk.trusted_calls == 0 && g_mk.req_new_calls == 0 && g_mk.req_live == 0 && g_mk.hash_refs == 0 && g_mk.int_live == 0)
/* (argument record: preset by the enforcing harness, set by a replaced call) */
__CPROVER_ensures(g_mk.mkreq_hash == (const void *)hsh && g_mk.mkreq_lvl == (long long)lvl)
/* the gate */
__CPROVER_ensures(IMPLIES(ctx != NULL && hsh != NULL && request != NULL && !C07_LVL_OK(lvl),
		__CPROVER_return_value == KSI_INVALID_ARGUMENT && g_mk.req_new_calls == 0))
__CPROVER_ensures(IMPLIES(ctx != NULL && hsh != NULL && request != NULL && C07_LVL_OK(lvl),
		g_mk.trusted_calls == 1 && g_mk.trusted_alg == (int)hsh->imprint[0]))
__CPROVER_ensures(IMPLIES(ctx != NULL && hsh != NULL && request != NULL && C07_LVL_OK(lvl) && !g_mk.trusted,
		__CPROVER_return_value == KSI_UNTRUSTED_HASH_ALGORITHM && g_mk.req_new_calls == 0))
/* success: the request made is handed out, with the caller's hash and level */
__CPROVER_ensures(IMPLIES(__CPROVER_return_value == KSI_OK,
		ctx != NULL && hsh != NULL && request != NULL && C07_LVL_OK(lvl) && g_mk.trusted_calls == 1 && g_mk.trusted &&
		*request == (KSI_AggregationReq *)g_mk.req && *request != NULL &&
		(*request)->requestHash == hsh && g_mk.hash_refs == 1 &&
		(lvl > 0 ? ((*request)->requestLevel != NULL && (*request)->requestLevel->value == (KSI_uint64_t)lvl)
		         : (*request)->requestLevel == NULL) &&
		g_mk.int_live == (lvl > 0 ? 1 : 0)))
__CPROVER_ensures(IFF(__CPROVER_return_value == KSI_OK, g_mk.req_live == 1))
/* failure: no request, nothing left behind */
__CPROVER_ensures(IMPLIES(__CPROVER_return_value != KSI_OK,
		(request == NULL || *request == __CPROVER_old(*request)) && g_mk.req_live == 0 && g_mk.hash_refs == 0 && g_mk.int_live == 0))
__CPROVER_assigns(*request, g_mk);

/* ---- assumed: KSI_Signature_free (signature.c:901) releases one reference; here: counted ---- */
void KSI_Signature_free(KSI_Signature *sig)
__CPROVER_ensures(g_sg.sig_free == __CPROVER_old(g_sg.sig_free) + ((sig != NULL && sig == g_sg.sig) ? 1 : 0))
__CPROVER_ensures(g_sg.foreign_free == __CPROVER_old(g_sg.foreign_free) + ((sig != NULL && sig != g_sg.sig) ? 1 : 0))
__CPROVER_ensures(g_sg.source_touched == (__CPROVER_old(g_sg.source_touched) || (sig != NULL && sig == g_sg_source)))
__CPROVER_assigns(g_sg.sig_free, g_sg.foreign_free, g_sg.source_touched);

/* ---- KSI_Signature_signAggregatedWithPolicy --------------------------------------------------------------
 * OK => the whole conversation took place, each step once, each on the objects of the previous step:
 *   request for (rootHash, rootLevel) made  ->  sent  ->  performed  ->  response obtained from THAT handle
 *   (content only from a MAC-verified PDU: C06)  ->  KSI_AggregationResp_verifyWithRequest(that response, that request) OK
 *   ->  builder opened from THAT response  ->  closed with rootLevel (adds the root level: C07.builder_addRootLevel)
 *   ->  KSI_Signature_verifyWithPolicy(that signature, rootHash, 0, policy, context) OK  ->  *signature = that signature.
 * On every other path *signature is untouched.  Every temporary is released exactly once; the signature is
 * released iff it is not handed out. */
#define C07_STEP_OK(calls, res) (g_sg.calls == 1 && g_sg.res == KSI_OK)
int KSI_Signature_signAggregatedWithPolicy(KSI_CTX *ctx, KSI_DataHash *rootHash, KSI_uint64_t rootLevel,
		const KSI_Policy *policy, KSI_VerificationContext *context, KSI_Signature **signature)
__CPROVER_requires(g_mk.trusted_calls == 0 && g_mk.req_new_calls == 0 && g_mk.req_live == 0 && g_mk.hash_refs == 0 && g_mk.int_live == 0 &&
		g_sg.send_calls == 0 && g_sg.perform_calls == 0 && g_sg.getresp_calls == 0 && g_sg.vwr_calls == 0 && g_sg.open_calls == 0 &&
		g_sg.close_calls == 0 && g_sg.verify_calls == 0 && g_sg.req_free == 0 && g_sg.handle_free == 0 && g_sg.resp_free == 0 &&
		g_sg.builder_free == 0 && g_sg.sig_free == 0 && g_sg.foreign_free == 0 && g_sg.source_touched == 0 &&
		g_sg.handle == NULL && g_sg.resp == NULL && g_sg.builder == NULL && g_sg.sig == NULL && g_mk.mkreq_hash == NULL && g_sg_source == NULL)
__CPROVER_ensures(IMPLIES(__CPROVER_return_value == KSI_OK,
		ctx != NULL && rootHash != NULL && signature != NULL && rootLevel <= 0xff &&
		g_mk.req_live == 1 && g_mk.mkreq_hash == (const void *)rootHash && g_mk.mkreq_lvl == (long long)rootLevel &&
		C07_STEP_OK(send_calls, send_res) && g_sg.send_req == g_mk.req &&
		C07_STEP_OK(perform_calls, perform_res) && g_sg.perform_handle == g_sg.handle &&
		C07_STEP_OK(getresp_calls, getresp_res) && g_sg.getresp_handle == g_sg.handle &&
		C07_STEP_OK(vwr_calls, vwr_res) && g_sg.vwr_resp == g_sg.resp && g_sg.vwr_req == g_mk.req &&
		C07_STEP_OK(open_calls, open_res) && g_sg.open_from == g_sg.resp &&
		C07_STEP_OK(close_calls, close_res) && g_sg.close_builder == (const void *)g_sg.builder && g_sg.close_level == rootLevel &&
		C07_STEP_OK(verify_calls, verify_res) && g_sg.verify_sig == (const void *)g_sg.sig && g_sg.verify_hash == (const void *)rootHash &&
		g_sg.verify_level == 0 && g_sg.verify_policy == (const void *)policy && g_sg.verify_ctx == (const void *)context &&
		*signature == g_sg.sig && g_sg.sig != NULL && g_sg.sig_free == 0))
/* every other path: no signature */
__CPROVER_ensures(IMPLIES(__CPROVER_return_value != KSI_OK && signature != NULL, *signature == __CPROVER_old(*signature)))
/* steps happen in order, each only after the previous one succeeded, each at most once */
__CPROVER_ensures(IMPLIES(rootLevel > 0xff, __CPROVER_return_value != KSI_OK && g_mk.mkreq_hash == NULL && g_mk.req_live == 0 && g_sg.send_calls == 0 &&
		IMPLIES(ctx != NULL && rootHash != NULL && signature != NULL, __CPROVER_return_value == KSI_INVALID_FORMAT)))
__CPROVER_ensures(IMPLIES(g_sg.send_calls > 0, g_sg.send_calls == 1 && g_mk.req_live == 1 && g_sg.send_req == g_mk.req))
__CPROVER_ensures(IMPLIES(g_sg.perform_calls > 0, g_sg.perform_calls == 1 && C07_STEP_OK(send_calls, send_res)))
__CPROVER_ensures(IMPLIES(g_sg.getresp_calls > 0, g_sg.getresp_calls == 1 && C07_STEP_OK(perform_calls, perform_res)))
__CPROVER_ensures(IMPLIES(g_sg.vwr_calls > 0, g_sg.vwr_calls == 1 && C07_STEP_OK(getresp_calls, getresp_res)))
__CPROVER_ensures(IMPLIES(g_sg.open_calls > 0, g_sg.open_calls == 1 && C07_STEP_OK(vwr_calls, vwr_res)))
__CPROVER_ensures(IMPLIES(g_sg.close_calls > 0, g_sg.close_calls == 1 && C07_STEP_OK(open_calls, open_res)))
__CPROVER_ensures(IMPLIES(g_sg.verify_calls > 0, g_sg.verify_calls == 1 && C07_STEP_OK(close_calls, close_res)))
/* error codes are handed on */
__CPROVER_ensures(IMPLIES(g_sg.vwr_calls == 1 && g_sg.vwr_res != KSI_OK, __CPROVER_return_value == g_sg.vwr_res))
__CPROVER_ensures(IMPLIES(g_sg.verify_calls == 1 && g_sg.verify_res != KSI_OK, __CPROVER_return_value == g_sg.verify_res))
/* ownership */
__CPROVER_ensures(g_sg.foreign_free == 0)
__CPROVER_ensures(g_sg.req_free == g_mk.req_live)
__CPROVER_ensures(g_sg.handle_free == (C07_STEP_OK(send_calls, send_res) ? 1 : 0))
__CPROVER_ensures(g_sg.resp_free == (C07_STEP_OK(getresp_calls, getresp_res) ? 1 : 0))
__CPROVER_ensures(g_sg.builder_free == (C07_STEP_OK(open_calls, open_res) ? 1 : 0))
__CPROVER_ensures(g_sg.sig_free == ((C07_STEP_OK(close_calls, close_res) && __CPROVER_return_value != KSI_OK) ? 1 : 0))
__CPROVER_assigns(*signature, g_sg, g_mk, c07_builder_obj);
#pragma CPROVER check pop
