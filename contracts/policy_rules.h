/* C05: contract of the rule-list interpreter Rule_verify (policy.c), enforced with --enforce-contract-rec
 * (recursive calls are replaced by this same contract => unbounded nesting depth).
 * Ghost state and the basic-rule stub: env/ghost_rules.h.  Tables: g_tab (the list under evaluation) and g_sub
 * (what every composite element points to); both hold up to C05_W elements + sentinel, arbitrary contents. */
#define C05_W 15
KSI_Rule g_tab[C05_W + 1];
KSI_Rule g_sub[C05_W + 1];

static int Rule_verify(const KSI_Rule *rule, KSI_VerificationContext *context, KSI_PolicyVerificationResult *policyResult)
__CPROVER_requires((rule == g_tab || rule == g_sub) && rule->rule != (void *)0)   /* call sites: every predefined list is non-empty (job C05.tables) */
__CPROVER_requires(context == g_ctx_p && policyResult == g_pr_p && g_pr_p->finalResult.statusMessage == (char *)0)
__CPROVER_requires(!g_hard_stop)
/* the reported result is that of the last rule evaluated (status, result code, error code) */
__CPROVER_ensures(g_evaluated && (g_last_code == KSI_VER_RES_OK || g_last_code == KSI_VER_RES_NA || g_last_code == KSI_VER_RES_FAIL))
__CPROVER_ensures(__CPROVER_return_value == g_last_res && policyResult->finalResult.resultCode == g_last_code &&
		policyResult->finalResult.errorCode == g_last_err && policyResult->resultCode == g_last_code)
/* a FAIL or an internal error of any evaluated rule is never masked */
__CPROVER_ensures(IMPLIES(g_hard_stop, __CPROVER_return_value != KSI_OK || policyResult->finalResult.resultCode == KSI_VER_RES_FAIL))
__CPROVER_ensures(policyResult->finalResult.statusMessage == (char *)0)
__CPROVER_assigns(g_pr_p->finalResult, g_pr_p->resultCode, g_hard_stop, g_last_res, g_last_code, g_last_err, g_rule_calls, g_evaluated, g_added);

/* bookkeeping of the per-rule result list: not part of the verdict; enforced separately (C05.addLatest) */
static int PolicyVerificationResult_addLatestRuleResult(KSI_PolicyVerificationResult *result)
__CPROVER_requires(result == g_pr_p)
__CPROVER_ensures(1)
__CPROVER_assigns(g_added);
