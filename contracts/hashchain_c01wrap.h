/* Contracts of the CORES under the two wrappers KSI_CalendarHashChain_aggregate / KSI_AggregationHashChainList_aggregate,
 * in the world of env/ghost_vrule.h + env/ghost_c01wrap.h.  They are REPLACED (assumed) in the jobs C01.wrap_*; each is
 * a projection of a contract that C03 enforces on the real body.  The wrappers themselves are enforced against the text
 * of contracts/verification_rule_c01.h (included unchanged by the harness). */
#ifndef CONTRACTS_HASHCHAIN_C01WRAP_H
#define CONTRACTS_HASHCHAIN_C01WRAP_H
#include "env/ghost_c01wrap.h"
_Bool g_vr_root_known;       /* same tentative definition as in contracts/verification_rule_c01.h */

/* ASSUMED - projection of C03.aggr_calendar (aggregateChain with isCalendar = 1, start level 0xff; this function is the
 * one-line wrapper `return aggregateChain(ctx, chain, inputHash, 0xff, -1, 1, NULL, outputHash)`):
 *   - ctx, chain or inputHash missing: KSI_INVALID_ARGUMENT (first statement of aggregateChain);
 *   - otherwise KSI_OK with a fresh live hash object (identity VR_H_NEW1, one reference, owned by the caller), or an error
 *     with the output untouched and nothing alive.  Which of the two is the oracle g_vr_root_known ("the calendar root can
 *     be computed"), which therefore presupposes the arguments (first requires below: checked at the call site);
 *   - C03.aggr_calendar: for an EMPTY link list the result is KSI_OK with NO object (*outputHash == NULL).  Parsed
 *     calendar chains have at least one link (tlv_template.c: KSI_TLV_TMPL_FLG_LEAST_ONE_G0); g_cw_cal_empty selects
 *     that case (0 in C01.wrap_cal_aggregate, 1 in C01.wrap_cal_emptylist). */
int KSI_HashChain_aggregateCalendar(KSI_CTX *ctx, KSI_LIST(KSI_HashChainLink) *chain, const KSI_DataHash *inputHash, KSI_DataHash **outputHash)
__CPROVER_requires(IMPLIES(g_vr_root_known, ctx != NULL && chain != NULL && inputHash != NULL))
__CPROVER_requires(outputHash != NULL && g_vr_h_ref[VR_H_NEW1] == 0)
__CPROVER_requires(inputHash == NULL || (vr_is_hash(inputHash) && g_vr_h_ref[vr_hidx(inputHash)] > 0))
__CPROVER_ensures(IMPLIES(ctx == NULL || chain == NULL || inputHash == NULL, __CPROVER_return_value == KSI_INVALID_ARGUMENT))
__CPROVER_ensures(IFF(__CPROVER_return_value == KSI_OK, g_vr_root_known))
__CPROVER_ensures(IMPLIES(__CPROVER_return_value == KSI_OK && !g_cw_cal_empty, *outputHash == &g_vr_h[VR_H_NEW1] && g_vr_h_ref[VR_H_NEW1] == 1))
__CPROVER_ensures(IMPLIES(__CPROVER_return_value == KSI_OK && g_cw_cal_empty, *outputHash == NULL && g_vr_h_ref[VR_H_NEW1] == 0))
__CPROVER_ensures(IMPLIES(__CPROVER_return_value != KSI_OK, *outputHash == __CPROVER_old(*outputHash) && g_vr_h_ref[VR_H_NEW1] == 0))
__CPROVER_assigns(*outputHash, g_vr_h_ref[VR_H_NEW1]);

/* ASSUMED - caller's view of the contract C03.memo enforces on KSI_AggregationHashChain_aggregate (contracts/hashchain_memo.h):
 *   success: start level within 0..0xff, *root is a live hash object and the caller got ONE new reference to it, *endLevel
 *            is the root level, within 0..0xff;   error: outputs untouched, no reference handed out.
 * All roots carry the ONE identity VR_H_NEW2 of the rule world ("the aggregation root"); g_vr_h_ref[VR_H_NEW2] therefore
 * counts the root references the caller holds.  (Which chain's root the survivor is - the last one - is what
 * C03.listAggregate enforces with two alternating identities; the contract enforced here does not speak about it.)
 * Preconditions = the demands on the list function: a chain of the list, never NULL; at most the previous root still
 * alive; level threaded (witness pair, see env/ghost_c01wrap.h). */
int KSI_AggregationHashChain_aggregate(KSI_AggregationHashChain *aggr, int startLevel, int *endLevel, KSI_DataHash **root)
__CPROVER_requires(aggr == &g_cw_chP || aggr == &g_cw_chW || aggr == &g_cw_chO)
__CPROVER_requires(endLevel != NULL && root != NULL)
__CPROVER_requires(g_vr_h_ref[VR_H_NEW2] == 0 || g_vr_h_ref[VR_H_NEW2] == 1)
__CPROVER_requires(IMPLIES(aggr == &g_cw_chW, startLevel == (g_cw_wi == 0 ? g_cw_level0 : g_cw_lvlP)))
/* (audit builderY) the pointer output is stated FIRST and unconditionally with __CPROVER_pointer_equals: dfcc havocs a pointer-typed assigns
 * target of a replaced contract with ONE symbol shared by all calls on a path, and the loop of the list function runs its first iteration and
 * the step iteration on the same path; with the assumed equalities below alone 'the aggregation of a LATER chain fails' was infeasible
 * (REACH guard in C01.wrap_list_aggregate). */
__CPROVER_ensures(__CPROVER_pointer_equals(*root, __CPROVER_return_value == KSI_OK ? (void *)&g_vr_h[VR_H_NEW2] : (void *)__CPROVER_old(*root)))
__CPROVER_ensures(IMPLIES(__CPROVER_return_value == KSI_OK, 0 <= startLevel && startLevel <= 0xff && 0 <= *endLevel && *endLevel <= 0xff &&
		*root == &g_vr_h[VR_H_NEW2] && g_vr_h_ref[VR_H_NEW2] == __CPROVER_old(g_vr_h_ref[VR_H_NEW2]) + 1))
__CPROVER_ensures(IMPLIES(__CPROVER_return_value == KSI_OK && aggr == &g_cw_chP, *endLevel == g_cw_lvlP))
__CPROVER_ensures(IMPLIES(__CPROVER_return_value != KSI_OK, *root == __CPROVER_old(*root) && *endLevel == __CPROVER_old(*endLevel) &&
		g_vr_h_ref[VR_H_NEW2] == __CPROVER_old(g_vr_h_ref[VR_H_NEW2])))
__CPROVER_ensures(g_cw_aud_aggfail == (__CPROVER_return_value == KSI_OK ? __CPROVER_old(g_cw_aud_aggfail) : (__CPROVER_old(g_vr_h_ref[VR_H_NEW2]) == 1 ? 2 : 1)))   /* audit ghost */
__CPROVER_assigns(*endLevel, *root, g_vr_h_ref[VR_H_NEW2], g_cw_aud_aggfail);
#endif
