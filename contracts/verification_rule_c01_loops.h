/* C01, rule level (L3): contracts of the rules that walk the aggregation-chain list (INT-01, INT-02, INT-10, INT-12,
 * INT-15).  Ghost monitor: env/ghost_vrule_loops.h; loop invariants: contracts/verification_rule_c01.loops.json.
 * Outcome == verdict of the monitor (which evaluates the property's condition on every chain / adjacent pair it hands
 * out), OK only after ALL chains were inspected.  Frame: *result + monitor state (+ documented tempData field and the
 * chains' memo cache for INT-01); signature, context inputs not assignable. */
#ifndef CONTRACTS_VERIFICATION_RULE_C01_LOOPS_H
#define CONTRACTS_VERIFICATION_RULE_C01_LOOPS_H
#include "contracts/verification_rule_c02.h"      /* VR_PRE / VR_POST */
#include "contracts/hash_alg.h"

#define VL_PRE (g_vl_calls == 0 && g_vl_prev == NULL && !g_vl_fail && !g_vl_na && g_vl_n <= VL_MAX_LIST)

/* RFC3161 pre-checks: in the walking jobs any status; their own contracts are enforced by C01.int02_rfc / C01.int12_rfc */
#if defined(VL_MODE_TIME)
static int rfc3161_verifyAggrTime(KSI_CTX *ctx, const KSI_Signature *sig)
__CPROVER_ensures(__CPROVER_return_value == g_vl_rfc_ret)
__CPROVER_assigns();

/* INT-02 */
int KSI_VerificationRule_AggregationHashChainTimeConsistency(KSI_VerificationContext *info, KSI_RuleVerificationResult *result)
__CPROVER_requires(VR_PRE(info, result) && VL_PRE)
__CPROVER_ensures(VR_POST(vl_exp_walk(info, 1, SPEC_VERR_INT(2)), result))
__CPROVER_ensures(VL_COMPLETE(info, result))
__CPROVER_assigns(result != NULL: *result; g_vl_calls, g_vl_prev, g_vl_fail, g_vl_time[0].value, g_vl_time[1].value);
#endif

#if defined(VL_MODE_ALG)
/* INT-15 */
int KSI_VerificationRule_AggregationChainHashAlgorithmVerification(KSI_VerificationContext *info, KSI_RuleVerificationResult *result)
__CPROVER_requires(VR_PRE(info, result) && VL_PRE)
__CPROVER_ensures(VR_POST(vl_exp_walk(info, 0, SPEC_VERR_INT(15)), result))
__CPROVER_ensures(VL_COMPLETE(info, result))
__CPROVER_assigns(result != NULL: *result; g_vl_calls, g_vl_prev, g_vl_fail, g_vl_time[0].value, g_vl_time[1].value, g_vl_algid[0].value, g_vl_algid[1].value);
#endif

#if defined(VL_MODE_SHAPE)
/* ASSUMED (projection of C03.shape): the shape of the chain handed out last, or an error */
int KSI_AggregationHashChain_calculateShape(const KSI_AggregationHashChain *chn, KSI_uint64_t *shape)
__CPROVER_requires(chn == g_vl_prev && chn != NULL && shape != NULL)
__CPROVER_ensures(IFF(__CPROVER_return_value == KSI_OK, g_vl_shape_known))
__CPROVER_ensures(IMPLIES(__CPROVER_return_value == KSI_OK, *shape == g_vl_shape))
__CPROVER_assigns(*shape);

/* INT-10 */
int KSI_VerificationRule_AggregationHashChainIndexConsistency(KSI_VerificationContext *info, KSI_RuleVerificationResult *result)
__CPROVER_requires(VR_PRE(info, result) && VL_PRE)
__CPROVER_ensures(VR_POST(vl_exp_walk(info, 0, SPEC_VERR_INT(10)), result))
__CPROVER_ensures(VL_COMPLETE(info, result))
__CPROVER_assigns(result != NULL: *result; g_vl_calls, g_vl_prev, g_vl_fail, g_vl_na, g_vl_il_len[0], g_vl_il_len[1], g_vl_iv[0].value, g_vl_iv[1].value, g_vl_shape_known, g_vl_shape);
#endif
#endif
