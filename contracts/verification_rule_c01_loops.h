/* C01, rule level (L3): contracts of the rules that walk the aggregation-chain list (INT-01, INT-02, INT-10, INT-12,
 * INT-15).  Ghost monitor: env/ghost_vrule_loops.h; loop invariants: contracts/verification_rule_c01.loops.json.
 * Outcome == verdict of the monitor (which evaluates the property's condition on every chain / adjacent pair it hands
 * out), OK only after ALL chains were inspected.  Frame: *result + monitor state (+ documented tempData field and the
 * chains' memo cache for INT-01); signature, context inputs not assignable. */
#ifndef CONTRACTS_VERIFICATION_RULE_C01_LOOPS_H
#define CONTRACTS_VERIFICATION_RULE_C01_LOOPS_H
#include "contracts/verification_rule_c02.h"      /* VR_PRE / VR_POST */
#include "contracts/hash_alg.h"

#define VL_PRE (g_vl_calls == 0 && g_vl_prev == NULL && !g_vl_fail && !g_vl_na && g_vl_n <= VL_MAX_LIST)

/* RFC3161 pre-checks: in the walking jobs any status; their own contracts are enforced by C01.int02_rfc / C01.int12_rfc */
#if defined(VL_MODE_TIME)
static int rfc3161_verifyAggrTime(KSI_CTX *ctx, const KSI_Signature *sig)
__CPROVER_ensures(__CPROVER_return_value == g_vl_rfc_ret)
__CPROVER_assigns();

/* INT-02 */
int KSI_VerificationRule_AggregationHashChainTimeConsistency(KSI_VerificationContext *info, KSI_RuleVerificationResult *result)
__CPROVER_requires(VR_PRE(info, result) && VL_PRE)
__CPROVER_ensures(VR_POST(vl_exp_walk(info, 1, SPEC_VERR_INT(2)), result))
__CPROVER_ensures(VL_COMPLETE(info, result))
__CPROVER_assigns(result != NULL: *result; g_vl_calls, g_vl_prev, g_vl_fail, g_vl_time[0].value, g_vl_time[1].value);
#endif

#if defined(VL_MODE_ALG)
/* INT-15 */
int KSI_VerificationRule_AggregationChainHashAlgorithmVerification(KSI_VerificationContext *info, KSI_RuleVerificationResult *result)
__CPROVER_requires(VR_PRE(info, result) && VL_PRE)
__CPROVER_ensures(VR_POST(vl_exp_walk(info, 0, SPEC_VERR_INT(15)), result))
__CPROVER_ensures(VL_COMPLETE(info, result))
__CPROVER_assigns(result != NULL: *result; g_vl_calls, g_vl_prev, g_vl_fail, g_vl_time[0].value, g_vl_time[1].value, g_vl_algid[0].value, g_vl_algid[1].value);
#endif

#if defined(VL_MODE_SHAPE)
/* ASSUMED (projection of C03.shape): the shape of the chain handed out last, or an error */
int KSI_AggregationHashChain_calculateShape(const KSI_AggregationHashChain *chn, KSI_uint64_t *shape)
__CPROVER_requires(chn == g_vl_prev && chn != NULL && shape != NULL)
__CPROVER_ensures(IFF(__CPROVER_return_value == KSI_OK, g_vl_shape_known))
__CPROVER_ensures(IMPLIES(__CPROVER_return_value == KSI_OK, *shape == g_vl_shape))
__CPROVER_assigns(*shape);

/* INT-10 */
int KSI_VerificationRule_AggregationHashChainIndexConsistency(KSI_VerificationContext *info, KSI_RuleVerificationResult *result)
__CPROVER_requires(VR_PRE(info, result) && VL_PRE)
__CPROVER_ensures(VR_POST(vl_exp_walk(info, 0, SPEC_VERR_INT(10)), result))
__CPROVER_ensures(VL_COMPLETE(info, result))
__CPROVER_assigns(result != NULL: *result; g_vl_calls, g_vl_prev, g_vl_fail, g_vl_na, g_vl_il_len[0], g_vl_il_len[1], g_vl_iv[0].value, g_vl_iv[1].value, g_vl_shape_known, g_vl_shape);
#endif

#if defined(VL_MODE_RFCTIME)
/* INT-02, RFC3161 part (first-element model): OK / KSI_VERIFICATION_FAILURE (times differ) / another error (no first chain) */
static int rfc3161_verifyAggrTime(KSI_CTX *ctx, const KSI_Signature *sig)
__CPROVER_requires((ctx == NULL || ctx == VR_CTX) && (sig == NULL || sig == &g_vr_sig))
__CPROVER_ensures(vr_exp_rfc_aggr_time(ctx, sig) == VR_RFC_ANY || vr_rfc_class(__CPROVER_return_value) == vr_exp_rfc_aggr_time(ctx, sig))
__CPROVER_assigns();
#endif
#if defined(VL_MODE_RFCIDX)
/* INT-12, RFC3161 part: OK iff same length and all elements equal (and all of them were compared) */
static int rfc3161_verifyChainIndex(KSI_CTX *ctx, const KSI_Signature *sig)
__CPROVER_requires((ctx == NULL || ctx == VR_CTX) && (sig == NULL || sig == &g_vr_sig))
__CPROVER_requires(g_ri_calls == 0 && !g_ri_first_fetched && !g_ri_mismatch && g_ri_len[0] <= 0xffffffffUL && g_ri_len[1] <= 0xffffffffUL)
__CPROVER_requires(g_vr_chain0.chainIndex == &g_ri_l[0] && g_vr_rfc.chainIndex == &g_ri_l[1])
__CPROVER_ensures(vr_rfc_class(__CPROVER_return_value) == vr_exp_rfc_chain_index(ctx, sig))
__CPROVER_ensures(IMPLIES(__CPROVER_return_value == KSI_OK && ctx != NULL && sig != NULL && sig->rfc3161 != NULL, g_ri_calls == g_ri_len[0] && !g_ri_first_fetched))
__CPROVER_assigns(g_ri_calls, g_ri_first_fetched, g_ri_mismatch, g_ri_v[0].value, g_ri_v[1].value);
#endif

#if defined(VL_MODE_IDX)
static int rfc3161_verifyChainIndex(KSI_CTX *ctx, const KSI_Signature *sig)
__CPROVER_ensures(__CPROVER_return_value == g_vl_rfc_ret)
__CPROVER_assigns();

/* INT-12: for every adjacent pair the earlier chain's index list is the later one's plus one element and agrees with it
 * on all common positions (lengths checked by the chain monitor, elements pairwise by the index-list monitor) */
int KSI_VerificationRule_AggregationHashChainIndexContinuation(KSI_VerificationContext *info, KSI_RuleVerificationResult *result)
__CPROVER_requires(VR_PRE(info, result) && VL_PRE && g_vi_calls == 0 && !g_vi_prev_fetched)
__CPROVER_ensures(VR_POST(vl_exp_walk(info, 1, SPEC_VERR_INT(12)), result))
__CPROVER_ensures(VL_COMPLETE(info, result))
__CPROVER_ensures(IMPLIES(result != NULL && __CPROVER_return_value == KSI_OK && result->resultCode == KSI_VER_RES_OK && g_vl_calls >= 2,
		!g_vi_prev_fetched && g_vi_calls == (g_vl_calls % 2 == 1 ? g_vl_il_len[0] : g_vl_il_len[1])))
__CPROVER_assigns(result != NULL: *result; g_vl_calls, g_vl_prev, g_vl_fail, g_vl_il_len[0], g_vl_il_len[1], g_vl_iv[0].value, g_vl_iv[1].value, g_vi_calls, g_vi_prev_fetched);
#endif

#if defined(VL_MODE_CONS)
/* ASSUMED (projection of the memo contract enforced by C03.memo, seen from a caller that owns no other reference):
 * the value of chain k for its start level is a NEW hash identity VL_OUT(k) with one reference for the caller and the
 * end level, or an error with the outputs untouched.  Preconditions = what the property demands of the caller:
 * called once per chain right after its fetch, not after a mismatch, start level = end level of the previous chain
 * (0 for the first), and the root of chain k-2 already released (else it leaks). */
#define VL_OUT_REF(k) g_vr_h_ref[VR_H_NEW1 + (int)((k) % 2)]
int KSI_AggregationHashChain_aggregate(KSI_AggregationHashChain *aggr, int startLevel, int *endLevel, KSI_DataHash **root)
__CPROVER_requires(aggr != NULL && aggr == g_vl_prev && endLevel != NULL && root != NULL)
__CPROVER_requires(!g_vl_fail && !g_vl_na && g_vl_aggs + 1 == g_vl_calls)
__CPROVER_requires(startLevel == g_vl_level)
__CPROVER_requires(g_vl_aggs % 2 == 0 ? g_vr_h_ref[VR_H_NEW1] == 0 : g_vr_h_ref[VR_H_NEW2] == 0)
/* the pointer output is stated FIRST and unconditionally: a pointer-typed assigns target of a replaced contract is havocked with one
 * shared symbol (__invalid_ptr) that the loop havoc of the caller's pointer locals uses too - leaving the 'unchanged' case to an assumed
 * equality made 'aggregation of a later chain fails' infeasible (found with seed C11-3; REACH guard in the harness) */
__CPROVER_ensures(__CPROVER_pointer_equals(*root, __CPROVER_return_value == KSI_OK
		? (__CPROVER_old(g_vl_aggs) % 2 == 0 ? (void *)&g_vr_h[VR_H_NEW1] : (void *)&g_vr_h[VR_H_NEW2]) : (void *)__CPROVER_old(*root)))
__CPROVER_ensures(IMPLIES(__CPROVER_return_value == KSI_OK, g_vl_aggs == __CPROVER_old(g_vl_aggs) + 1 && !g_vl_na &&
		*endLevel == g_vl_level && 0 <= g_vl_level && g_vl_level <= 0xff &&
		(__CPROVER_old(g_vl_aggs) % 2 == 0
			? (*root == &g_vr_h[VR_H_NEW1] && g_vr_h_ref[VR_H_NEW1] == 1 && g_vr_h_ref[VR_H_NEW2] == __CPROVER_old(g_vr_h_ref[VR_H_NEW2]))
			: (*root == &g_vr_h[VR_H_NEW2] && g_vr_h_ref[VR_H_NEW2] == 1 && g_vr_h_ref[VR_H_NEW1] == __CPROVER_old(g_vr_h_ref[VR_H_NEW1])))))
__CPROVER_ensures(IMPLIES(__CPROVER_return_value != KSI_OK, g_vl_na && g_vl_aggs == __CPROVER_old(g_vl_aggs) && g_vl_level == __CPROVER_old(g_vl_level) &&
		*endLevel == __CPROVER_old(*endLevel) && *root == __CPROVER_old(*root) &&
		g_vr_h_ref[VR_H_NEW1] == __CPROVER_old(g_vr_h_ref[VR_H_NEW1]) && g_vr_h_ref[VR_H_NEW2] == __CPROVER_old(g_vr_h_ref[VR_H_NEW2])))
/* the identity of the other root is not touched */
__CPROVER_ensures(__CPROVER_old(g_vl_aggs) % 2 == 0
		? (g_vr_h_alg[VR_H_NEW2] == __CPROVER_old(g_vr_h_alg[VR_H_NEW2]) && g_vr_h_dig[VR_H_NEW2] == __CPROVER_old(g_vr_h_dig[VR_H_NEW2]))
		: (g_vr_h_alg[VR_H_NEW1] == __CPROVER_old(g_vr_h_alg[VR_H_NEW1]) && g_vr_h_dig[VR_H_NEW1] == __CPROVER_old(g_vr_h_dig[VR_H_NEW1])))
__CPROVER_assigns(*endLevel, *root, g_vl_level, g_vl_na, g_vl_aggs, g_vr_h_ref[VR_H_NEW1], g_vr_h_ref[VR_H_NEW2],
		g_vr_h_alg[VR_H_NEW1], g_vr_h_alg[VR_H_NEW2], g_vr_h_dig[VR_H_NEW1], g_vr_h_dig[VR_H_NEW2],
		aggr->outputLevel, aggr->inputLevel);         /* + aggr->outputHash in the real function: the chain's memo cache (not modelled: never read by the rule) */

static spec_verdict vl_exp_cons(const KSI_VerificationContext *info) {
	if (!VR_INFO_OK(info) || info->tempData == NULL) return SPEC_VNA;
	return vl_exp_walk(info, 0, SPEC_VERR_INT(1));
}
#define VL_IS_OK(result) ((result) != NULL && __CPROVER_return_value == KSI_OK && (result)->resultCode == KSI_VER_RES_OK)
/* INT-01.  Documented tempData field: aggregationOutputHash := root of the last chain (the old value is released).
 * Any other outcome leaves tempData alone and holds no reference on a computed root (no leak, no double free). */
int KSI_VerificationRule_AggregationHashChainConsistency(KSI_VerificationContext *info, KSI_RuleVerificationResult *result)
__CPROVER_requires(VR_PRE(info, result) && VL_PRE && g_vl_level == 0 && g_vl_aggs == 0)
__CPROVER_requires(g_vr_h_ref[VR_H_NEW1] == 0 && g_vr_h_ref[VR_H_NEW2] == 0 && g_vr_h_ref[VR_H_IN0] == 1 && g_vr_h_ref[VR_H_AGGOUT] == 1)
__CPROVER_requires(g_vr_temp.aggregationOutputHash == NULL || g_vr_temp.aggregationOutputHash == &g_vr_h[VR_H_AGGOUT])
__CPROVER_ensures(VR_POST(vl_exp_cons(info), result))
__CPROVER_ensures(VL_COMPLETE(info, result))
__CPROVER_ensures(IMPLIES(VL_IS_OK(result), g_vl_aggs == g_vl_calls &&
		g_vr_h_ref[VR_H_AGGOUT] == (__CPROVER_old(g_vr_temp.aggregationOutputHash) != NULL ? 0 : 1) &&
		(g_vl_calls == 0 ? (g_vr_temp.aggregationOutputHash == NULL && g_vr_h_ref[VR_H_NEW1] == 0 && g_vr_h_ref[VR_H_NEW2] == 0) :
		 g_vl_calls % 2 == 1 ? (g_vr_temp.aggregationOutputHash == &g_vr_h[VR_H_NEW1] && g_vr_h_ref[VR_H_NEW1] == 1 && g_vr_h_ref[VR_H_NEW2] == 0)
		                     : (g_vr_temp.aggregationOutputHash == &g_vr_h[VR_H_NEW2] && g_vr_h_ref[VR_H_NEW2] == 1 && g_vr_h_ref[VR_H_NEW1] == 0))))
__CPROVER_ensures(IMPLIES(!VL_IS_OK(result), g_vr_temp.aggregationOutputHash == __CPROVER_old(g_vr_temp.aggregationOutputHash) &&
		g_vr_h_ref[VR_H_AGGOUT] == 1 && g_vr_h_ref[VR_H_NEW1] == 0 && g_vr_h_ref[VR_H_NEW2] == 0))
__CPROVER_assigns(result != NULL: *result; g_vl_calls, g_vl_prev, g_vl_fail, g_vl_na, g_vl_level, g_vl_aggs, g_vr_temp.aggregationOutputHash,
		g_vr_h_ref[VR_H_NEW1], g_vr_h_ref[VR_H_NEW2], g_vr_h_ref[VR_H_AGGOUT], g_vr_h_alg[VR_H_IN0], g_vr_h_dig[VR_H_IN0],
		g_vr_h_alg[VR_H_NEW1], g_vr_h_alg[VR_H_NEW2], g_vr_h_dig[VR_H_NEW1], g_vr_h_dig[VR_H_NEW2],
		g_vl_c[0].outputLevel, g_vl_c[0].inputLevel, g_vl_c[1].outputLevel, g_vl_c[1].inputLevel);
#endif
#endif
