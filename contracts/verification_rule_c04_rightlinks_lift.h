/* C04 / CAL-04 in CONTRACT mode (builderV, "lift"): KSI_VerificationRule_ExtendedSignatureCalendarChainRightLinksMatch for calendar
 * chains of EVERY length.  The rule's `for (;;)` loop takes a loop contract from
 * contracts/verification_rule_c04_rightlinks_lift.loops.json (technique of C01.int16: a guard-less loop is instrumented when the
 * contract comes from the JSON file; its obligations are reported as class "assertion" without source location).
 * getNextLink is REPLACED by the contract below, which is the contract of contracts/verification_rule_c04_rightlinks.h plus the
 * clauses the rule needs across TWO consecutive calls (the kind of the link fetched last from the OTHER list, the recorded error
 * status and the other list's link object stay as they were); it is enforced on the real body by C04.lift_getNextLink.
 * World / reference machine: env/ghost_c04_rightlinks.h, spec/rightlinks.h (unchanged).  The bounded stand-in
 * C04.ExtendedSignatureCalendarChainRightLinksMatch (<= 4 links, plain mode) stays registered as a cross-check. */
#ifndef CONTRACTS_VERIFICATION_RULE_C04_RIGHTLINKS_LIFT_H
#define CONTRACTS_VERIFICATION_RULE_C04_RIGHTLINKS_LIFT_H

#define C04_RL_IS_A(l) ((l) == &g_c04_sigLinks)
#define C04_RL_CALLS(l) (C04_RL_IS_A(l) ? g_c04_rl.a_calls : g_c04_rl.b_calls)
#define C04_RL_LEN(l) (C04_RL_IS_A(l) ? g_c04_rl_len_a : g_c04_rl_len_b)
#define C04_RL_WANTED(l) (C04_RL_IS_A(l) ? g_c04_rl.rl.a_right : g_c04_rl.rl.b_right)
#define C04_RL_OTHER_CALLS(l) (C04_RL_IS_A(l) ? g_c04_rl.b_calls : g_c04_rl.a_calls)
#define C04_RL_OTHER_WANTED(l) (C04_RL_IS_A(l) ? g_c04_rl.rl.b_right : g_c04_rl.rl.a_right)
#define C04_RL_OTHER_LAST(l) (C04_RL_IS_A(l) ? g_c04_rl.b_last_wanted : g_c04_rl.a_last_wanted)
#define C04_RL_ERR(l) (C04_RL_IS_A(l) ? g_c04_rl.a_err : g_c04_rl.b_err)
#define C04_RL_LAST_WANTED(l) (C04_RL_IS_A(l) ? g_c04_rl.a_last_wanted : g_c04_rl.b_last_wanted)
#define C04_RL_LINK(l) (C04_RL_IS_A(l) ? &g_c04_rl_alink : &g_c04_rl_blink)
#define C04_RL_OLD_WANTED(l) (C04_RL_IS_A(l) ? __CPROVER_old(g_c04_rl.rl.a_right) : __CPROVER_old(g_c04_rl.rl.b_right))
#define C04_RL_OLD_OTHER_CALLS(l) (C04_RL_IS_A(l) ? __CPROVER_old(g_c04_rl.b_calls) : __CPROVER_old(g_c04_rl.a_calls))
#define C04_RL_OLD_OTHER_WANTED(l) (C04_RL_IS_A(l) ? __CPROVER_old(g_c04_rl.rl.b_right) : __CPROVER_old(g_c04_rl.rl.a_right))
#define C04_RL_OLD_OTHER_LAST(l) (C04_RL_IS_A(l) ? __CPROVER_old(g_c04_rl.b_last_wanted) : __CPROVER_old(g_c04_rl.a_last_wanted))
/* one list's call writes only that list's link object and hash class (conditional frame) */
#define C04_RL_LIFT_FRAME g_c04_rl, g_c04_rl_alink.isLeft, g_c04_rl_blink.isLeft, g_c04_hcls[C04_H_LINK_A], g_c04_hcls[C04_H_LINK_B]

/* getNextLink: from *pos on, the first link of the wanted kind (or none), skipping links of the other kind only */
static int getNextLink(KSI_HashChainLinkList *list, bool getRight, size_t *pos, KSI_HashChainLink **link)
__CPROVER_requires(list == NULL || list == &g_c04_sigLinks || list == &g_c04_extLinks)
__CPROVER_requires(pos != NULL && link != NULL && (getRight != 0) == g_c04_rl_want_right)
__CPROVER_requires(list == NULL || (*pos == C04_RL_CALLS(list) && *pos <= C04_RL_LEN(list) && !C04_RL_ERR(list)))
/* the link handed back: set through ONE unconditional pointer predicate, its value computed from the integers of the post-state (found <=> the cursor
 * stands ON the element fetched last).  Do NOT leave the NULL case to the havoc of *link: CBMC 6.11 dfcc havocs a pointer-typed assigns target of a
 * replaced contract with one and the same unconstrained symbol in EVERY call, so "NULL in this call, non-NULL in the previous one" would silently be
 * unreachable (seen here: the verdicts "one chain has more right links" could not be reached at all). */
__CPROVER_ensures(list == NULL || __CPROVER_return_value != KSI_OK
	|| __CPROVER_pointer_equals(*link, *pos < C04_RL_CALLS(list) ? C04_RL_LINK(list) : (KSI_HashChainLink *)0))
__CPROVER_ensures(IMPLIES(list == NULL, __CPROVER_return_value == KSI_INVALID_ARGUMENT && *pos == __CPROVER_old(*pos)))
/* found: it is the element at *pos, of the wanted kind, exactly one more wanted link was seen (everything skipped was of the other kind) */
__CPROVER_ensures(IMPLIES(list != NULL && __CPROVER_return_value == KSI_OK && *link != NULL,
	*link == C04_RL_LINK(list) && C04_RL_LAST_WANTED(list) && *pos + 1 == C04_RL_CALLS(list) && *pos < C04_RL_LEN(list)
	&& *pos >= __CPROVER_old(*pos) && C04_RL_WANTED(list) == C04_RL_OLD_WANTED(list) + 1))
/* none: the list is exhausted and no further wanted link exists */
__CPROVER_ensures(IMPLIES(list != NULL && __CPROVER_return_value == KSI_OK && *link == NULL,
	*pos == C04_RL_LEN(list) && C04_RL_CALLS(list) == C04_RL_LEN(list) && C04_RL_WANTED(list) == C04_RL_OLD_WANTED(list)))
__CPROVER_ensures(IMPLIES(list != NULL && __CPROVER_return_value != KSI_OK, C04_RL_ERR(list) && __CPROVER_return_value == g_c04_rl.err_status))
__CPROVER_ensures(IMPLIES(list != NULL && __CPROVER_return_value == KSI_OK, !C04_RL_ERR(list)))
/* the other list and the comparison record are untouched */
__CPROVER_ensures(IMPLIES(list != NULL, C04_RL_OTHER_CALLS(list) == C04_RL_OLD_OTHER_CALLS(list) && C04_RL_OTHER_WANTED(list) == C04_RL_OLD_OTHER_WANTED(list)
	&& C04_RL_OTHER_LAST(list) == C04_RL_OLD_OTHER_LAST(list)))
__CPROVER_ensures(IMPLIES(list == NULL, g_c04_rl.a_calls == __CPROVER_old(g_c04_rl.a_calls) && g_c04_rl.b_calls == __CPROVER_old(g_c04_rl.b_calls)
	&& g_c04_rl.rl.a_right == __CPROVER_old(g_c04_rl.rl.a_right) && g_c04_rl.rl.b_right == __CPROVER_old(g_c04_rl.rl.b_right)))
__CPROVER_ensures(g_c04_rl.rl.compared == __CPROVER_old(g_c04_rl.rl.compared) && g_c04_rl.rl.unequal == __CPROVER_old(g_c04_rl.rl.unequal)
	&& g_c04_rl.a_err == (__CPROVER_old(g_c04_rl.a_err) || (C04_RL_IS_A(list) && __CPROVER_return_value != KSI_OK))
	&& g_c04_rl.b_err == (__CPROVER_old(g_c04_rl.b_err) || (list == &g_c04_extLinks && __CPROVER_return_value != KSI_OK)))
__CPROVER_assigns(*pos, *link, C04_RL_LIFT_FRAME);

/* ---- the rule (case functions as in contracts/verification_rule_c04_rightlinks.h) ---- */
static _Bool c04_rl_setup_ok(const KSI_VerificationContext *info) {
	return C04_ARGS_OK(info) && info->signature->calendarChain != NULL && info->signature->calendarChain->hashChain != NULL
		&& c04_ext_chain(info) != NULL && c04_ext_chain(info)->hashChain != NULL;
}
static _Bool c04_rl_all_match(void) {
	return g_c04_rl.a_calls == g_c04_rl_len_a && g_c04_rl.b_calls == g_c04_rl_len_b && spec_rl_compatible(&g_c04_rl.rl);
}
/* a difference was actually seen: an unequal pair, or one chain is exhausted while the other has one more right link */
static _Bool c04_rl_mismatch_witnessed(void) {
	return g_c04_rl.rl.unequal
		|| (g_c04_rl.a_calls == g_c04_rl_len_a && g_c04_rl.rl.b_right == g_c04_rl.rl.a_right + 1)
		|| (g_c04_rl.b_calls == g_c04_rl_len_b && g_c04_rl.rl.a_right == g_c04_rl.rl.b_right + 1);
}
static spec_c04_case c04_case_ExtendedSignatureCalendarChainRightLinksMatch(const KSI_VerificationContext *info) {
	return C04_CASE3(c04_rl_setup_ok(info) && !g_c04_rl.a_err && !g_c04_rl.b_err, c04_rl_all_match());
}

int KSI_VerificationRule_ExtendedSignatureCalendarChainRightLinksMatch(KSI_VerificationContext *info, KSI_RuleVerificationResult *result)
C04_COMMON_REQUIRES
__CPROVER_requires(g_c04_rl.a_calls == 0 && g_c04_rl.b_calls == 0 && !g_c04_rl.a_err && !g_c04_rl.b_err && g_c04_rl_want_right
	&& g_c04_rl.rl.a_right == 0 && g_c04_rl.rl.b_right == 0 && g_c04_rl.rl.compared == 0 && !g_c04_rl.rl.unequal)
C04_VERDICT(ExtendedSignatureCalendarChainRightLinksMatch, c04_case_ExtendedSignatureCalendarChainRightLinksMatch(info))
__CPROVER_ensures(IMPLIES(result != NULL && __CPROVER_return_value == KSI_OK && result->resultCode == KSI_VER_RES_FAIL, c04_rl_mismatch_witnessed()))
/* OK only after BOTH chains were read to their end, every right link of one compared with its partner */
__CPROVER_ensures(IMPLIES(result != NULL && __CPROVER_return_value == KSI_OK && result->resultCode == KSI_VER_RES_OK,
	g_c04_rl.a_calls == g_c04_rl_len_a && g_c04_rl.b_calls == g_c04_rl_len_b && g_c04_rl.rl.compared == g_c04_rl.rl.a_right && g_c04_rl.rl.a_right == g_c04_rl.rl.b_right))
/* a failed fetch is reported with its status */
__CPROVER_ensures(IMPLIES(result != NULL && (g_c04_rl.a_err || g_c04_rl.b_err), __CPROVER_return_value == g_c04_rl.err_status && __CPROVER_return_value != KSI_OK))
__CPROVER_assigns(result != NULL: *result; C04_RL_LIFT_FRAME; C04_GHOST_FRAME);
#endif
