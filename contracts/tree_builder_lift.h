/* Contracts of tree_builder.c for the LIFTED C16 jobs (loop-contract proofs for every forest of the 256-slot
 * stack / every number of leaf processors).  Needs env/tree_lift_env.h: the harness builds the forest
 * (slot k empty or holding its own node g_nodes[k]) together with PREFIX TABLES of the reference folds of
 * spec/tree.h (g_hpref, g_cpref, g_cnt, g_first, g_jslot); the contracts compare the real code with the tables.
 * Place AFTER #include "tree_builder.c".
 *
 * calculateHighestLevel / levelWithOverhead repeat the clauses of contracts/tree_builder_addleaf.h (the contracts
 * C19.addLeaf REPLACES the two calls by) and add the exact reference value. */
#ifndef CONTRACTS_TREE_BUILDER_LIFT_H
#define CONTRACTS_TREE_BUILDER_LIFT_H
#include "spec/tree.h"

/* ---- height pre-check ------------------------------------------------------------------------------------ */
static unsigned calculateHighestLevel(KSI_TreeBuilder *builder, unsigned level)
__CPROVER_requires(builder != NULL)
/* call site (addLeaf): the argument is an unsigned short; the harness table starts the fold at it */
__CPROVER_requires(level <= 0xffff && g_hpref[0] == (long long)level)
__CPROVER_ensures(__CPROVER_return_value >= level)                                   /* clause of tree_builder_addleaf.h */
__CPROVER_ensures((long long)__CPROVER_return_value == g_hpref[LIFT_SLOTS])          /* == reference fold over all 256 slots */
__CPROVER_assigns();

/* ---- level overhead of the leaf processors ------------------------------------------------------------------ */
static int levelWithOverhead(KSI_TreeBuilder *builder, unsigned short inLevel, unsigned short *outLevel)
__CPROVER_requires(builder != NULL && outLevel != NULL)
/* call site (addLeaf): the level has been validated 0..255; reference machine at its start state */
__CPROVER_requires(inLevel <= 0xff && g_lw_fetched == 0 && g_lw_sum == inLevel && !g_lw_over && !g_lw_bad)
__CPROVER_requires(IMPLIES(builder->cbList == NULL, g_lw_len == 0))
__CPROVER_ensures(IMPLIES(__CPROVER_return_value == KSI_OK, *outLevel >= inLevel && *outLevel <= 0xff))   /* tree_builder_addleaf.h */
__CPROVER_ensures(IMPLIES(__CPROVER_return_value != KSI_OK, *outLevel == __CPROVER_old(*outLevel)))       /* tree_builder_addleaf.h */
/* accepted iff every partial sum of the reference stays within 0..255 and the list delivered every processor */
__CPROVER_ensures(IFF(__CPROVER_return_value == KSI_OK, !g_lw_over && !g_lw_bad))
/* accepted => every processor was counted exactly once, in order, and the result is the reference sum */
__CPROVER_ensures(IMPLIES(__CPROVER_return_value == KSI_OK, g_lw_fetched == g_lw_len && *outLevel == g_lw_sum))
/* refused => refused at the FIRST offending processor (no later one is looked at: asserted by the list stub) */
__CPROVER_ensures(IMPLIES(__CPROVER_return_value != KSI_OK, g_lw_fetched >= 1 && g_lw_fetched <= g_lw_len))
__CPROVER_assigns(*outLevel, g_lw_fetched, g_lw_sum, g_lw_over, g_lw_bad, g_lw_cb);

#ifdef LIFT_POOL
/* ---- close-time merge ---------------------------------------------------------------------------------------- */
#define LN_N (g_cnt[LIFT_SLOTS])            /* number of subtrees in the forest */
#define LN_F (g_cpref[LIFT_SLOTS])          /* reference root level (spec_tree_close_step folded over the slots) */
#define CLOSE_FAULT (g_tr_failed || g_alloc_failed > __CPROVER_old(g_alloc_failed))

int KSI_TreeBuilder_close(KSI_TreeBuilder *builder)
__CPROVER_requires(builder == NULL || (builder->ctx != NULL && builder->hsr != NULL && builder->rootNode == g_root0))
__CPROVER_requires(g_w < LIFT_SLOTS && g_wj < LIFT_SLOTS && g_live == g_live0 && g_live0 >= 0 && g_live0 < 1000)
__CPROVER_requires(g_pool_n == 0 && g_hpool_n == 0 && g_tr_n <= TR_MAX && !g_tr_failed)
/* (1) success <=> the tree was open, holds at least one subtree, the reference root level fits 0..255, no callee failed */
__CPROVER_ensures(IMPLIES(__CPROVER_return_value == KSI_OK,
		builder != NULL && g_root0 == NULL && LN_N >= 1 && LN_F <= SPEC_TREE_MAX_LEVEL && !g_tr_failed))
__CPROVER_ensures(IMPLIES(builder != NULL && g_root0 == NULL && LN_N >= 1 && LN_F <= SPEC_TREE_MAX_LEVEL && !CLOSE_FAULT,
		__CPROVER_return_value == KSI_OK))
__CPROVER_ensures(IMPLIES(builder != NULL && g_root0 != NULL, __CPROVER_return_value == KSI_INVALID_STATE))
__CPROVER_ensures(IMPLIES(builder != NULL && g_root0 == NULL && LN_N == 0, __CPROVER_return_value == KSI_INVALID_STATE))
/* (2) success => every slot empty (witness), one node per join, root = canonical merge with the reference level */
__CPROVER_ensures(IMPLIES(__CPROVER_return_value == KSI_OK,
		builder->stack[g_w] == NULL && g_live == g_live0 + (long)LN_N - 1 && g_pool_n == LN_N - 1 && g_hpool_n == LN_N - 1 &&
		builder->rootNode == (LN_N == 1 ? g_np[g_first] : g_pp[LN_N - 2]) &&
		(long long)builder->rootNode->level == LN_F && builder->rootNode->parent == NULL))
/* (3) success => EVERY join (witness index g_wj): the slot's subtree (the older leaves) is the LEFT child, the running
 *     root the RIGHT child, links both ways, level = reference fold up to that slot, its parent is the next join */
__CPROVER_ensures(IMPLIES(__CPROVER_return_value == KSI_OK && g_wj + 1 < LN_N,
		g_pp[g_wj]->leftChild == g_np[g_jslot[g_wj]] && g_np[g_jslot[g_wj]]->parent == g_pp[g_wj] &&
		g_pp[g_wj]->rightChild == (g_wj == 0 ? g_np[g_first] : g_pp[g_wj - (g_wj == 0 ? 0 : 1)]) &&
		g_pp[g_wj]->rightChild->parent == g_pp[g_wj] &&
		(long long)g_pp[g_wj]->level == g_cpref[g_jslot[g_wj] + 1] &&
		g_pp[g_wj]->hash == g_hpp[g_wj] && g_pp[g_wj]->metaData == NULL && g_hpp[g_wj]->ref == 1 &&
		g_pp[g_wj]->parent == (g_wj + 2 < LN_N ? g_pp[g_wj + (g_wj + 2 < LN_N ? 1 : 0)] : (KSI_TreeNode *)NULL)))
/* (4) failure => builder, EVERY slot and EVERY subtree exactly as before (witness), nothing made by the call survives */
__CPROVER_ensures(IMPLIES(__CPROVER_return_value != KSI_OK && builder != NULL,
		builder->rootNode == g_root0 && builder->stack[g_w] == __CPROVER_old(builder->stack[g_w])))
__CPROVER_ensures(IMPLIES(__CPROVER_return_value != KSI_OK,
		g_live == g_live0 && g_pool_n == 0 && g_hpool_n == 0 && g_np[g_w]->parent == NULL))
__CPROVER_assigns(builder != NULL: builder->rootNode; builder != NULL: builder->stack;
		LIFT_ALL_NODE_PARENTS, LIFT_ALL_POOL_NODES, LIFT_ALL_POOL_HASHES, g_pool_n, g_hpool_n, g_live, g_alloc_failed,
		g_tr, g_tr_n, g_tr_failed, g_tr_result, g_tr_hsr, g_tr_hsr_mixed);
#endif
#endif
