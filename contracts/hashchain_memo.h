/* C03/C11/C19: memoisation contract of KSI_AggregationHashChain_aggregate.
 * KSI_HashChain_aggregate is the one-line wrapper `return aggregateChain(..., 0, ...)`; its contract below is the
 * projection of the aggregateChain contract enforced by job C03.aggr (outputs untouched on error, fresh live
 * hash + level on success) - paper step, listed in the evidence. */
int KSI_HashChain_aggregate(KSI_CTX *ctx, KSI_LIST(KSI_HashChainLink) *chain, const KSI_DataHash *inputHash, int startLevel, KSI_HashAlgorithm algo_id, int *endLevel, KSI_DataHash **outputHash)
__CPROVER_requires(chain != NULL && inputHash != NULL && endLevel != NULL && outputHash != NULL && 0 <= startLevel && startLevel <= 0xff)
__CPROVER_requires(g_refB == 0)
__CPROVER_ensures(IMPLIES(__CPROVER_return_value == KSI_OK, *outputHash == g_pB && g_refB == 1 && g_startB == startLevel && *endLevel == g_levelB && 0 <= g_levelB && g_levelB <= 0xff))
__CPROVER_ensures(IMPLIES(__CPROVER_return_value != KSI_OK, *outputHash == __CPROVER_old(*outputHash) && *endLevel == __CPROVER_old(*endLevel) && g_refB == 0 && g_memo_env_failed))
__CPROVER_ensures(g_aggr_calls == __CPROVER_old(g_aggr_calls) + 1)
__CPROVER_assigns(*endLevel, *outputHash, g_refB, g_startB, g_levelB, g_memo_env_failed, g_aggr_calls);

/* representation invariant of the memo: cache empty, or a live object computed for aggr->inputLevel with aggr->outputLevel */
#define MEMO_INV(a) ((a)->outputHash == (KSI_DataHash *)0 || \
	((a)->outputHash == g_pA && g_refA > 0 && (a)->inputLevel == g_startA && (a)->outputLevel == g_levelA) || \
	((a)->outputHash == g_pB && g_refB > 0 && (a)->inputLevel == g_startB && (a)->outputLevel == g_levelB))

int KSI_AggregationHashChain_aggregate(KSI_AggregationHashChain *aggr, int startLevel, int *endLevel, KSI_DataHash **root)
__CPROVER_requires(__CPROVER_is_fresh(aggr, sizeof(*aggr)) && __CPROVER_is_fresh(endLevel, sizeof(int)) && __CPROVER_is_fresh(root, sizeof(*root)))
__CPROVER_requires(aggr->aggrHashId == (KSI_Integer *)0 || __CPROVER_is_fresh(aggr->aggrHashId, sizeof(struct KSI_Integer_st)))
__CPROVER_requires(g_refB == 0 && g_refA >= 0 && g_refA < 100 && g_aggr_calls == 0 && !g_memo_env_failed)
__CPROVER_requires(aggr->outputHash == (KSI_DataHash *)0 || (aggr->outputHash == g_pA && g_refA == 1 && aggr->inputLevel == g_startA && aggr->outputLevel == g_levelA))
__CPROVER_requires(aggr->outputHash != (KSI_DataHash *)0 || g_refA == 0)
/* the memo never holds a dead object, whatever happens (C11: later calls do not depend on earlier failures; C19) */
__CPROVER_ensures(MEMO_INV(aggr))
/* success: the result is the value FOR THIS start level */
__CPROVER_ensures(IMPLIES(__CPROVER_return_value == KSI_OK, 0 <= startLevel && startLevel <= 0xff && aggr->outputHash != (KSI_DataHash *)0 && aggr->inputLevel == startLevel && *root == aggr->outputHash && *endLevel == aggr->outputLevel))
/* success: the chain is recomputed exactly when the cache is empty or was made for another start level */
__CPROVER_ensures(IMPLIES(__CPROVER_return_value == KSI_OK, g_aggr_calls == ((__CPROVER_old(aggr->outputHash) == (KSI_DataHash *)0 || __CPROVER_old(aggr->inputLevel) != startLevel) ? 1 : 0)))
/* success: caller and cache each hold one reference, nothing else is alive */
__CPROVER_ensures(IMPLIES(__CPROVER_return_value == KSI_OK, (aggr->outputHash == g_pA ? (g_refA == 2 && g_refB == 0) : (g_refB == 2 && g_refA == 0))))
/* start level outside 0..255 is refused and nothing changes */
__CPROVER_ensures(IMPLIES(startLevel < 0 || startLevel > 0xff, __CPROVER_return_value == KSI_INVALID_ARGUMENT && aggr->outputHash == __CPROVER_old(aggr->outputHash) && g_aggr_calls == 0))
/* error: outputs untouched, no object leaked: only the cache may hold one reference */
__CPROVER_ensures(IMPLIES(__CPROVER_return_value != KSI_OK, *root == __CPROVER_old(*root) && *endLevel == __CPROVER_old(*endLevel) && g_refB == 0 && g_refA == (aggr->outputHash == g_pA ? 1 : 0)))
__CPROVER_assigns(*endLevel, *root, aggr->outputHash, aggr->outputLevel, aggr->inputLevel, g_refA, g_refB, g_startB, g_levelB, g_memo_env_failed, g_aggr_calls);
