/* C04 (builderP): contracts for the five *HashAlgorithmDeprecatedAtPubTime rules of verification_rule.c and their static helper
 * calendarChainAggrAlgorithmState.  Include after contracts/verification_rule_c04.h and env/ghost_c04_orch.h, before verification_rule.c.
 *
 * Written from verification_rule.h ("verify if any of the [extended] calendar hash chain aggregation hash algorithms ... were
 * deprecated at the publication time") and property C04 ("a missing anchor or a forbidden, unavailable or failed extension gives an
 * inconclusive result (NA, possibly with an error status - never OK and never FAIL)"): these rules have no CONTRADICTS case.
 *   HOLDS        the chain the rule is about is there, its steps can be read, and NO step's aggregation algorithm (the algorithm of a
 *                left link's sibling hash, C03) was deprecated or obsolete at the chain's publication time      -> (KSI_OK, OK, NONE)
 *   UNDECIDABLE  otherwise: an algorithm WAS deprecated -> (KSI_OK, NA, GEN-02); chain missing / unreadable -> NA with the error status
 * OK additionally implies that the question was asked about the RIGHT chain (signature's own / the extender's reply buffered in
 * tempData) with the "deprecated" inspector (not the weaker "obsolete" one of INT-16). */
#ifndef CONTRACTS_VERIFICATION_RULE_C04_ORCH_H
#define CONTRACTS_VERIFICATION_RULE_C04_ORCH_H

static bool wasDeprecatedAt(KSI_HashAlgorithm algorithm, time_t at);

/* ---- the helper: postcondition as a macro so that the plain-mode helper job asserts the very same text ---- */
#define PO_CCS_ARGS_OK(chain, inspector, status) ((chain) != NULL && (inspector) != NULL && (status) != NULL)
#define PO_CCS_POST(ret, chain, inspector, status, status_before) ( \
	(!PO_CCS_ARGS_OK(chain, inspector, status) ? (ret) == KSI_INVALID_ARGUMENT : (ret) == g_po_ccs_res[PO_CHAIN_IDX(chain)]) && \
	IMPLIES((ret) == KSI_OK, *(status) == g_po_ccs_truth[PO_CHAIN_IDX(chain)]) && \
	IMPLIES((ret) != KSI_OK && (status) != NULL, *(status) == (status_before)))

static int calendarChainAggrAlgorithmState(KSI_CTX *ctx, const KSI_CalendarHashChain *calHshChain, bool (*inspector)(KSI_HashAlgorithm, time_t), bool *status)
__CPROVER_requires(calHshChain == NULL || calHshChain == &g_c04_sigCal || calHshChain == &g_c04_extCal)
__CPROVER_ensures(g_po_ccs.calls == __CPROVER_old(g_po_ccs.calls) + 1 && g_po_ccs.chain == calHshChain)
__CPROVER_ensures(IFF(g_po_ccs.dep_inspector, inspector == wasDeprecatedAt))
__CPROVER_ensures(PO_CCS_POST(__CPROVER_return_value, calHshChain, inspector, status, __CPROVER_old(*status)))
__CPROVER_assigns(status != NULL: *status; g_po_ccs);

/* ---- cases ---- */
static _Bool po_chain_state_known(const KSI_CalendarHashChain *c) { return c != NULL && g_po_ccs_res[PO_CHAIN_IDX(c)] == KSI_OK; }
static _Bool po_chain_deprecated(const KSI_CalendarHashChain *c) { return po_chain_state_known(c) && g_po_ccs_truth[PO_CHAIN_IDX(c)]; }

/* signature's own calendar chain (key based policy; signature publication found in the publications file; user publication equal to the signature's) */
static spec_c04_case po_case_SignatureChain(const KSI_VerificationContext *info) {
	if (!C04_ARGS_OK(info)) return SPEC_C04_UNDECIDABLE;
	return C04_CASE2(po_chain_state_known(info->signature->calendarChain), !po_chain_deprecated(info->signature->calendarChain));
}
/* extender's chain, user publication branch */
static spec_c04_case po_case_UserExtendedChain(const KSI_VerificationContext *info) {
	if (!C04_ARGS_OK(info) || info->userPublication == NULL) return SPEC_C04_UNDECIDABLE;
	return C04_CASE2(po_chain_state_known(c04_ext_chain(info)), !po_chain_deprecated(c04_ext_chain(info)));
}
/* extender's chain, publications file branch: as its sibling rules (PUB-01..03) the rule needs the nearest publication of the trusted file */
static spec_c04_case po_case_PubFileExtendedChain(const KSI_VerificationContext *info) {
	if (!c04_evaluable_pubfile_nearest(info) || !g_c04_lk_found) return SPEC_C04_UNDECIDABLE;
	return C04_CASE2(po_chain_state_known(c04_ext_chain(info)), !po_chain_deprecated(c04_ext_chain(info)));
}

#define SPEC_C04_CODE_DeprecatedAtPubTime 0          /* no CONTRADICTS case: never FAIL */

#define PO_REQUIRES \
	C04_COMMON_REQUIRES \
	__CPROVER_requires(g_po_ccs.calls == 0 && g_po_ccs.chain == NULL && !g_po_ccs.dep_inspector)
#define PO_ASKED(chain_expr) (g_po_ccs.calls == 1 && g_po_ccs.chain == (chain_expr) && g_po_ccs.dep_inspector)
/* deprecated -> the documented inconclusive shape, no error status; unreadable chain -> that error status */
#define PO_SHAPES(prefix_ok, chain_expr) \
	__CPROVER_ensures(IMPLIES(result != NULL && (prefix_ok) && po_chain_deprecated(chain_expr), \
		__CPROVER_return_value == KSI_OK && result->resultCode == KSI_VER_RES_NA && result->errorCode == KSI_VER_ERR_GEN_2 && result->status == KSI_OK)) \
	__CPROVER_ensures(IMPLIES(result != NULL && (prefix_ok) && (chain_expr) != NULL && !po_chain_state_known(chain_expr), \
		__CPROVER_return_value == g_po_ccs_res[PO_CHAIN_IDX(chain_expr)] && result->resultCode == KSI_VER_RES_NA && result->errorCode == KSI_VER_ERR_GEN_2)) \
	__CPROVER_ensures(IMPLIES(C04_IS_OK, PO_ASKED(chain_expr)))
#define PO_FRAME          __CPROVER_assigns(result != NULL: *result; C04_GHOST_FRAME, g_po_ccs)
#define PO_FRAME_PUBFILE  __CPROVER_assigns(result != NULL: *result; g_c04_td.publicationsFile; C04_GHOST_FRAME, g_po_ccs)

int KSI_VerificationRule_CalendarHashChainHashAlgorithmDeprecatedAtPubTime(KSI_VerificationContext *info, KSI_RuleVerificationResult *result)
PO_REQUIRES
C04_VERDICT(DeprecatedAtPubTime, po_case_SignatureChain(info))
PO_SHAPES(C04_ARGS_OK(info), info->signature->calendarChain)
PO_FRAME;

int KSI_VerificationRule_PublicationsFileSignatureCalendarChainHashAlgorithmDeprecatedAtPubTime(KSI_VerificationContext *info, KSI_RuleVerificationResult *result)
PO_REQUIRES
C04_VERDICT(DeprecatedAtPubTime, po_case_SignatureChain(info))
PO_SHAPES(C04_ARGS_OK(info), info->signature->calendarChain)
PO_FRAME;

int KSI_VerificationRule_UserProvidedPublicationSignatureCalendarChainHashAlgorithmDeprecatedAtPubTime(KSI_VerificationContext *info, KSI_RuleVerificationResult *result)
PO_REQUIRES
C04_VERDICT(DeprecatedAtPubTime, po_case_SignatureChain(info))
PO_SHAPES(C04_ARGS_OK(info), info->signature->calendarChain)
PO_FRAME;

int KSI_VerificationRule_UserProvidedPublicationExtendedCalendarChainHashAlgorithmDeprecatedAtPubTime(KSI_VerificationContext *info, KSI_RuleVerificationResult *result)
PO_REQUIRES
C04_VERDICT(DeprecatedAtPubTime, po_case_UserExtendedChain(info))
PO_SHAPES(C04_ARGS_OK(info) && info->userPublication != NULL, c04_ext_chain(info))
PO_FRAME;

int KSI_VerificationRule_PublicationsFileExtendedCalendarChainHashAlgorithmDeprecatedAtPubTime(KSI_VerificationContext *info, KSI_RuleVerificationResult *result)
PO_REQUIRES
C04_VERDICT(DeprecatedAtPubTime, po_case_PubFileExtendedChain(info))
PO_SHAPES(c04_evaluable_pubfile_nearest(info) && g_c04_lk_found, c04_ext_chain(info))
__CPROVER_ensures(IMPLIES(C04_IS_OK, c04_lookup_used(info, C04_LK_NEAREST, c04_signing_time(info))))
C04_PUBFILE_FAILURE_REPORTED(C04_ARGS_OK(info) && info->tempData != NULL && c04_signing_time_readable(info))
PO_FRAME_PUBFILE;
#endif
