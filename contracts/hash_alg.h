/* Contracts for the hash-algorithm table look-ups of hash.c (and KSI_isHashAlgorithmSupported of hash_openssl.c)
 * against the documented table of spec/hashalg.h.  Enforced on the real bodies by the C17.hashalg.* jobs
 * (obligations/C17/h_hashalg.c); other properties may --replace-call-with-contract these. No side effects. */
#ifndef CONTRACTS_HASH_ALG_H
#define CONTRACTS_HASH_ALG_H
#include "spec/hashalg.h"

unsigned int KSI_getHashLength(KSI_HashAlgorithm algo_id)
__CPROVER_ensures(__CPROVER_return_value == spec_hashalg_len((long long)algo_id))
__CPROVER_assigns();

int KSI_isHashAlgorithmTrusted(KSI_HashAlgorithm algo_id)
__CPROVER_ensures(__CPROVER_return_value == spec_hashalg_trusted((long long)algo_id))
__CPROVER_assigns();

int KSI_checkHashAlgorithmAt(KSI_HashAlgorithm algo_id, time_t used_at)
__CPROVER_ensures(__CPROVER_return_value ==
	(spec_hashalg_status_at((long long)algo_id, (long long)used_at) == 3 ? KSI_UNKNOWN_HASH_ALGORITHM_ID :
	 spec_hashalg_status_at((long long)algo_id, (long long)used_at) == 2 ? KSI_HASH_ALGORITHM_OBSOLETE :
	 spec_hashalg_status_at((long long)algo_id, (long long)used_at) == 1 ? KSI_HASH_ALGORITHM_DEPRECATED : KSI_OK))
__CPROVER_assigns();

time_t KSI_HashAlgorithm_getDeprecatedFrom(KSI_HashAlgorithm algo_id)
__CPROVER_ensures(__CPROVER_return_value == (spec_hashalg_known((long long)algo_id) ? (time_t)spec_hashalg_deprecated_from((long long)algo_id) : (time_t)-1))
__CPROVER_assigns();

time_t KSI_HashAlgorithm_getObsoleteFrom(KSI_HashAlgorithm algo_id)
__CPROVER_ensures(__CPROVER_return_value == (spec_hashalg_known((long long)algo_id) ? (time_t)spec_hashalg_obsolete_from((long long)algo_id) : (time_t)-1))
__CPROVER_assigns();

/* default OpenSSL build (none of OPENSSL_NO_SHA / _RIPEMD / _SHA512 defined) */
int KSI_isHashAlgorithmSupported(KSI_HashAlgorithm algo_id)
__CPROVER_ensures((__CPROVER_return_value != 0) == spec_hashalg_supported_openssl((long long)algo_id))
__CPROVER_assigns();
#endif
