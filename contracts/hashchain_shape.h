/* C03: the shape-derived chain index equals the reference bit string; a chain whose bit string does not fit
 * 64 bits (more than 63 links) is refused. */
int KSI_AggregationHashChain_calculateShape(const KSI_AggregationHashChain *chn, KSI_uint64_t *shape)
__CPROVER_requires(chn != NULL && chn->chain != NULL && __CPROVER_is_fresh(shape, sizeof(*shape)))
__CPROVER_requires(g_sh_calls == 0 && !g_sh_env_failed && (g_sh_len > 63 || g_sh_ref == (1ULL << g_sh_len)))
__CPROVER_ensures(IMPLIES(__CPROVER_return_value == KSI_OK, g_sh_len <= 63 && g_sh_calls == g_sh_len && *shape == g_sh_ref))
__CPROVER_ensures(IMPLIES(__CPROVER_return_value != KSI_OK, (g_sh_len > 63 || g_sh_env_failed) && *shape == __CPROVER_old(*shape)))
__CPROVER_assigns(*shape, g_sh_calls, g_sh_ref, g_sh_env_failed, g_sh_link);
