/* Summary contract of KSI_PublicationData_fromBase32 used with --replace-call-with-contract by C18.bypubstring
 * (builderO).  ASSUMED here; what the decoder accepts is decided on the real body by C17.pubstr.fromBase32 (builderB,
 * contracts/publicationsfile_pubstr.h, in terms of another ghost environment): any verdict; on success a fresh
 * published-data object with one reference carrying the decoded time (g_bp_t, arbitrary) and imprint; on failure the
 * output is left alone. */
static char g_bp_imp_obj;                 /* the decoded imprint (identity only) */
struct KSI_Integer_st g_bp_tm;            /* the decoded time; ref 2 = "held by the model + by the decoded object" */
unsigned g_bp_calls; int g_bp_res; const char *g_bp_str; KSI_CTX *g_bp_ctx;
int KSI_PublicationData_fromBase32(KSI_CTX *ctx, const char *publication, KSI_PublicationData **published_data)
__CPROVER_requires(published_data != NULL && *published_data == NULL && publication != NULL)
__CPROVER_ensures(g_bp_calls == __CPROVER_old(g_bp_calls) + 1 && g_bp_str == publication && g_bp_ctx == ctx && g_bp_res == __CPROVER_return_value)
__CPROVER_ensures(IMPLIES(__CPROVER_return_value != KSI_OK, *published_data == NULL))
__CPROVER_ensures(IMPLIES(__CPROVER_return_value == KSI_OK, __CPROVER_is_fresh(*published_data, sizeof(KSI_PublicationData)) && __CPROVER_is_freeable(*published_data) &&
	(*published_data)->ref == 1 && (*published_data)->ctx == ctx && (*published_data)->baseTlv == NULL &&
	(*published_data)->time == &g_bp_tm && (*published_data)->imprint == (KSI_DataHash *)&g_bp_imp_obj))
__CPROVER_assigns(*published_data, g_bp_calls, g_bp_res, g_bp_str, g_bp_ctx);
