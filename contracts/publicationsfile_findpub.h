/* Contract of findPublication (publicationsfile.c; public entries KSI_PublicationsFile_findPublicationByTime and
 * KSI_PublicationsFile_findPublication) - C18: "lookup returns the publication with the given time ... in agreement
 * with a reference scan".  Ghost model list + reference scan: env/c18_findpub.h. */
#define G18F_WIRED (g18f_pd.time == &g18f_tm && g18f_pd.imprint == (KSI_DataHash *)&g18f_rec_imp_obj)

/* the postcondition (ret: return value, out: *outRec afterwards, old: *outRec before):
 *  - verdict: OK unless the list misbehaves, in which case the scan stops there with that error, output untouched;
 *  - found: the FIRST record with the queried time (and the equal imprint when one is queried), one more reference, the
 *    scan stops there;
 *  - not found: whole list scanned, output left as the caller initialised it (NOT set to NULL), no reference taken;
 *  - the imprint is compared exactly for the records with the queried time. */
#define FINDPUB_POST_E(ret, out, old) ( \
	IFF((ret) == KSI_OK, g18f_err == 0) && \
	IMPLIES(g18f_err != 0, (ret) == g18f_err && (out) == (old) && g18f_rec.ref == 1) && \
	IMPLIES(g18f_err == 0 && g18f_match_calls != 0, (out) == &g18f_rec && g18f_rec.ref == 2 && g18f_calls == g18f_match_calls && g18f_tm.value == g18f_t) && \
	IMPLIES(g18f_err == 0 && g18f_match_calls == 0, (out) == (old) && g18f_calls == g18f_len && g18f_rec.ref == 1) && \
	IMPLIES(g18f_err == 0, g18f_have_imp ? g18f_eq_calls == g18f_skipped + (g18f_match_calls != 0 ? 1 : 0) : g18f_eq_calls == 0))

static int findPublication(const KSI_PublicationsFile *trust, const KSI_Integer *time, const KSI_DataHash *imprint, KSI_PublicationRecord **outRec)
__CPROVER_requires(trust != NULL && trust->publications == &g18f_list && time != NULL && time->value == g18f_t)
__CPROVER_requires(g18f_have_imp ? imprint == (const KSI_DataHash *)&g18f_q_imp_obj : imprint == NULL)
__CPROVER_requires(__CPROVER_is_fresh(outRec, sizeof(*outRec)))
__CPROVER_requires(g18f_calls == 0 && g18f_match_calls == 0 && g18f_err == 0 && g18f_eq_calls == 0 && g18f_skipped == 0 && g18f_rec.ref == 1 && G18F_WIRED)
__CPROVER_ensures(FINDPUB_POST_E(__CPROVER_return_value, *outRec, __CPROVER_old(*outRec)))
__CPROVER_assigns(*outRec, g18f_calls, g18f_match_calls, g18f_err, g18f_eq_calls, g18f_skipped, g18f_cur_eq, g18f_cur_tm_eq, g18f_tm.value, g18f_rec.publishedData, g18f_rec.ref);
