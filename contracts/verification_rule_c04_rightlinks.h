/* C04 / CAL-04 contracts: getNextLink (link iteration helper) and KSI_VerificationRule_ExtendedSignatureCalendarChainRightLinksMatch.
 * verification_rule.h: "the extended signature contains the same count of right calendar hash chain links" and "the extended
 * signature right calendar hash chain links are equal to the not extended signature right links".  Reference machine:
 * spec/rightlinks.h (k-th right link of A against k-th right link of B), ghost: env/ghost_c04_rightlinks.h.
 * Loop contracts: contracts/verification_rule_c04_rightlinks.loops.json (one symbolic iteration => every length). */
#ifndef CONTRACTS_VERIFICATION_RULE_C04_RIGHTLINKS_H
#define CONTRACTS_VERIFICATION_RULE_C04_RIGHTLINKS_H

#define C04_RL_IS_A(l) ((l) == &g_c04_sigLinks)
#define C04_RL_CALLS(l) (C04_RL_IS_A(l) ? g_c04_rl.a_calls : g_c04_rl.b_calls)
#define C04_RL_LEN(l) (C04_RL_IS_A(l) ? g_c04_rl_len_a : g_c04_rl_len_b)
#define C04_RL_WANTED(l) (C04_RL_IS_A(l) ? g_c04_rl.rl.a_right : g_c04_rl.rl.b_right)
#define C04_RL_OTHER_CALLS(l) (C04_RL_IS_A(l) ? g_c04_rl.b_calls : g_c04_rl.a_calls)
#define C04_RL_OTHER_WANTED(l) (C04_RL_IS_A(l) ? g_c04_rl.rl.b_right : g_c04_rl.rl.a_right)
#define C04_RL_ERR(l) (C04_RL_IS_A(l) ? g_c04_rl.a_err : g_c04_rl.b_err)
#define C04_RL_LAST_WANTED(l) (C04_RL_IS_A(l) ? g_c04_rl.a_last_wanted : g_c04_rl.b_last_wanted)
#define C04_RL_LINK(l) (C04_RL_IS_A(l) ? &g_c04_rl_alink : &g_c04_rl_blink)
#define C04_RL_OLD_WANTED(l) (C04_RL_IS_A(l) ? __CPROVER_old(g_c04_rl.rl.a_right) : __CPROVER_old(g_c04_rl.rl.b_right))
#define C04_RL_OLD_OTHER_CALLS(l) (C04_RL_IS_A(l) ? __CPROVER_old(g_c04_rl.b_calls) : __CPROVER_old(g_c04_rl.a_calls))
#define C04_RL_OLD_OTHER_WANTED(l) (C04_RL_IS_A(l) ? __CPROVER_old(g_c04_rl.rl.b_right) : __CPROVER_old(g_c04_rl.rl.a_right))
#define C04_RL_FRAME g_c04_rl, g_c04_rl_alink.isLeft, g_c04_rl_blink.isLeft, g_c04_hcls[C04_H_LINK_A], g_c04_hcls[C04_H_LINK_B]

/* getNextLink: from *pos on, the first link of the wanted kind (or none), skipping links of the other kind only */
static int getNextLink(KSI_HashChainLinkList *list, bool getRight, size_t *pos, KSI_HashChainLink **link)
__CPROVER_requires(list == NULL || list == &g_c04_sigLinks || list == &g_c04_extLinks)
__CPROVER_requires(pos != NULL && link != NULL && (getRight != 0) == g_c04_rl_want_right)
__CPROVER_requires(list == NULL || (*pos == C04_RL_CALLS(list) && *pos <= C04_RL_LEN(list) && !C04_RL_ERR(list)))
__CPROVER_ensures(IMPLIES(list == NULL, __CPROVER_return_value == KSI_INVALID_ARGUMENT && *pos == __CPROVER_old(*pos)))
/* found: it is the element at *pos, of the wanted kind, exactly one more wanted link was seen (everything skipped was of the other kind) */
__CPROVER_ensures(IMPLIES(list != NULL && __CPROVER_return_value == KSI_OK && *link != NULL,
	__CPROVER_pointer_equals(*link, C04_RL_LINK(list)) && C04_RL_LAST_WANTED(list) && *pos + 1 == C04_RL_CALLS(list) && *pos < C04_RL_LEN(list)
	&& *pos >= __CPROVER_old(*pos) && C04_RL_WANTED(list) == C04_RL_OLD_WANTED(list) + 1))
/* none: the list is exhausted and no further wanted link exists */
__CPROVER_ensures(IMPLIES(list != NULL && __CPROVER_return_value == KSI_OK && *link == NULL,
	*pos == C04_RL_LEN(list) && C04_RL_CALLS(list) == C04_RL_LEN(list) && C04_RL_WANTED(list) == C04_RL_OLD_WANTED(list)))
__CPROVER_ensures(IMPLIES(list != NULL && __CPROVER_return_value != KSI_OK, C04_RL_ERR(list) && __CPROVER_return_value == g_c04_rl.err_status))
__CPROVER_ensures(IMPLIES(list != NULL && __CPROVER_return_value == KSI_OK, !C04_RL_ERR(list)))
/* the other list and the comparison record are untouched */
__CPROVER_ensures(IMPLIES(list != NULL, C04_RL_OTHER_CALLS(list) == C04_RL_OLD_OTHER_CALLS(list) && C04_RL_OTHER_WANTED(list) == C04_RL_OLD_OTHER_WANTED(list)))
__CPROVER_ensures(g_c04_rl.rl.compared == __CPROVER_old(g_c04_rl.rl.compared) && g_c04_rl.rl.unequal == __CPROVER_old(g_c04_rl.rl.unequal)
	&& g_c04_rl.a_err == (__CPROVER_old(g_c04_rl.a_err) || (C04_RL_IS_A(list) && __CPROVER_return_value != KSI_OK))
	&& g_c04_rl.b_err == (__CPROVER_old(g_c04_rl.b_err) || (list == &g_c04_extLinks && __CPROVER_return_value != KSI_OK)))
__CPROVER_assigns(*pos, *link, C04_RL_FRAME);

/* ---- the rule ---- */
static _Bool c04_rl_setup_ok(const KSI_VerificationContext *info) {
	return C04_ARGS_OK(info) && info->signature->calendarChain != NULL && info->signature->calendarChain->hashChain != NULL
		&& c04_ext_chain(info) != NULL && c04_ext_chain(info)->hashChain != NULL;
}
static _Bool c04_rl_all_match(void) {
	return g_c04_rl.a_calls == g_c04_rl_len_a && g_c04_rl.b_calls == g_c04_rl_len_b && spec_rl_compatible(&g_c04_rl.rl);
}
/* a difference was actually seen: an unequal pair, or one chain is exhausted while the other has one more right link */
static _Bool c04_rl_mismatch_witnessed(void) {
	return g_c04_rl.rl.unequal
		|| (g_c04_rl.a_calls == g_c04_rl_len_a && g_c04_rl.rl.b_right == g_c04_rl.rl.a_right + 1)
		|| (g_c04_rl.b_calls == g_c04_rl_len_b && g_c04_rl.rl.a_right == g_c04_rl.rl.b_right + 1);
}
static spec_c04_case c04_case_ExtendedSignatureCalendarChainRightLinksMatch(const KSI_VerificationContext *info) {
	return C04_CASE3(c04_rl_setup_ok(info) && !g_c04_rl.a_err && !g_c04_rl.b_err, c04_rl_all_match());
}

int KSI_VerificationRule_ExtendedSignatureCalendarChainRightLinksMatch(KSI_VerificationContext *info, KSI_RuleVerificationResult *result)
C04_COMMON_REQUIRES
__CPROVER_requires(g_c04_rl.a_calls == 0 && g_c04_rl.b_calls == 0 && !g_c04_rl.a_err && !g_c04_rl.b_err && g_c04_rl_want_right
	&& g_c04_rl.rl.a_right == 0 && g_c04_rl.rl.b_right == 0 && g_c04_rl.rl.compared == 0 && !g_c04_rl.rl.unequal)
C04_VERDICT(ExtendedSignatureCalendarChainRightLinksMatch, c04_case_ExtendedSignatureCalendarChainRightLinksMatch(info))
__CPROVER_ensures(IMPLIES(result != NULL && __CPROVER_return_value == KSI_OK && result->resultCode == KSI_VER_RES_FAIL, c04_rl_mismatch_witnessed()))
__CPROVER_assigns(result != NULL: *result; C04_RL_FRAME; C04_GHOST_FRAME);
#endif
