/* Contracts for hashchain.c: highBit, calculateCalendarAggregationTime (C03). */
#include "spec/caltime.h"

static long long int highBit(long long int n)
__CPROVER_requires(n > 0)
__CPROVER_ensures(__CPROVER_return_value == spec_pow2_floor(n))
__CPROVER_assigns();

static int calculateCalendarAggregationTime(KSI_LIST(KSI_HashChainLink) *chain, const KSI_Integer *pub_time, time_t *utc_time)
__CPROVER_requires(chain != NULL && pub_time != NULL && __CPROVER_is_fresh(utc_time, sizeof(*utc_time)))
__CPROVER_requires(g_cal_calls == 0 && !g_cal.rejected && g_cal.t == 0 && g_cal.r == (long long)pub_time->value)
/* accepted  <=>  the reference walk over exactly the whole list ends on a leaf */
__CPROVER_ensures(IMPLIES(__CPROVER_return_value == KSI_OK,
		g_cal_len > 0 && g_cal_calls == g_cal_len && spec_cal_accepts(&g_cal) && *utc_time == (time_t)g_cal.t))
/* rejected  =>  the list is empty, or the reference walk rejects (impossible shape) */
__CPROVER_ensures(IMPLIES(__CPROVER_return_value != KSI_OK,
		__CPROVER_return_value == KSI_INVALID_FORMAT && *utc_time == __CPROVER_old(*utc_time) &&
		(g_cal_len == 0 ||
		 (g_cal_calls < g_cal_len && !g_cal.rejected && g_cal.r <= 0) ||
		 (g_cal_calls == g_cal_len && !spec_cal_accepts(&g_cal)))))
__CPROVER_assigns(*utc_time, g_cal, g_cal_calls, g_cal_link);
