/* Contract of verifyUtf8 (types_base.c) for EVERY length (C10, builderO): "strings ... without embedded NUL and with
 * well-formed UTF-8 lead/continuation structure", direction accepted => well formed, stated for a witness position
 * g_u8w chosen nondeterministically before the call (so: for every position).  The loops are closed by the loop
 * contracts of contracts/types_base_utf8w.loops.json; nothing is unwound. */
#include "spec/utf8_window.h"

size_t g_u8w;            /* ghost: the witness position (never written by anybody) */

static int verifyUtf8(KSI_CTX *ctx, const unsigned char *str, size_t len)
__CPROVER_requires(len == 0 || __CPROVER_is_fresh(str, len))
/* accepted => position g_u8w is locally well formed: no NUL except as the last octet; not a stray continuation octet
 * at position 0; a lead octet 00-7f / c0-df / e0-ef / f0-f4 followed, inside the payload, by exactly its 0/1/2/3
 * continuation octets 80-bf and then by the end or a non-continuation octet */
__CPROVER_ensures(IMPLIES(__CPROVER_return_value == KSI_OK, spec_utf8_local(str, len, g_u8w)))
/* the only verdicts */
__CPROVER_ensures(__CPROVER_return_value == KSI_OK || __CPROVER_return_value == KSI_INVALID_FORMAT || __CPROVER_return_value == KSI_BUFFER_OVERFLOW)
/* frame: nothing (the payload is not modified, the context is not touched except through the error stub) */
__CPROVER_assigns();
