/* Contracts for net_ha.c: range predicates and per-field configuration consolidation (C15).
 * Written from the property text via spec/ha_merge.h.  Must be included after types_base.c / types.c
 * (struct KSI_Integer_st and struct KSI_Config_st are defined in those .c files) and before net_ha.c. */
#ifndef CONTRACTS_NET_HA_CONF_H
#define CONTRACTS_NET_HA_CONF_H
#include "spec/ha_merge.h"

/* numeric view of an optional KSI_Integer: absent -> 0 */
#define HA_VAL(p) ((p) == NULL ? 0ULL : (unsigned long long)(p)->value)
/* a KSI_Integer that KSI_Integer_free really releases (values below 256 live in a static pool) */
#define HA_HEAP_INT(p) ((p) != NULL && (p)->value >= 256)
/* the same two views of the ENTRY state.  __CPROVER_old() only takes lvalue-like expressions (no ?:), so the
 * pointer and the pointee are snapshotted separately; the pointee snapshot is only looked at when the pointer
 * snapshot is not NULL. */
#define HA_OLDVAL(p) (__CPROVER_old(p) == NULL ? 0ULL : (unsigned long long)__CPROVER_old((p)->value))
#define HA_OLD_HEAP_INT(p) (__CPROVER_old(p) != NULL && __CPROVER_old((p)->value) >= 256)

/* ---- range predicates: exactly the documented ranges ---------------------------------------- */
static bool isMaxLevelValid(KSI_uint64_t val)
__CPROVER_ensures(IFF(__CPROVER_return_value, val >= 1 && val <= 20))
__CPROVER_assigns();

static bool isAggrPeriodValid(KSI_uint64_t val)
__CPROVER_ensures(IFF(__CPROVER_return_value, val >= 100 && val <= 20000))
__CPROVER_assigns();

static bool isMaxRequestsValid(KSI_uint64_t val)
__CPROVER_ensures(IFF(__CPROVER_return_value, val >= 1 && val <= 16000))
__CPROVER_assigns();

static bool isCalendarTimeValid(KSI_uint64_t val)
__CPROVER_ensures(IFF(__CPROVER_return_value, val >= 1136073600ULL))
__CPROVER_assigns();

/* unknown / untrusted algorithm ids are discarded; the id is the whole 64-bit value (no truncation) */
static bool isAggrAlgoValid(KSI_uint64_t val)
__CPROVER_ensures(IFF(__CPROVER_return_value, val <= 0xff && ha_env_algo_trusted((int)val)))
__CPROVER_assigns();

/* ---- per-field consolidation -----------------------------------------------------------------
 * Common shape (FIELD, MERGE):
 *   requires  the consolidated value is absent or inside its range (invariant of has->consolidatedConfig,
 *             established by KSI_Config_new: all fields NULL)
 *   ensures   returns KSI_OK; new consolidated value == MERGE(old consolidated, pushed)
 *             *updated == old(*updated) || value changed            ("updated iff changed", sticky flag)
 *             changed  => the pushed KSI_Integer object MOVED: ha field == old resp field, resp field NULL,
 *                         old ha integer released exactly when it is a heap integer
 *             !changed => both field pointers unchanged, nothing released
 *   assigns   only the two fields and *updated; frees only the old ha integer. */
#define HA_CONSOLIDATE_CONTRACT(FN, FIELD, MERGE)                                                             \
static int FN(KSI_Config *haCfg, KSI_Config *respCfg, bool *updated)                                          \
__CPROVER_requires(haCfg != NULL && respCfg != NULL && updated != NULL && haCfg != respCfg)                  \
__CPROVER_requires(MERGE(HA_VAL(haCfg->FIELD), 0) == HA_VAL(haCfg->FIELD))                                    \
__CPROVER_ensures(__CPROVER_return_value == KSI_OK)                                                           \
__CPROVER_ensures(HA_VAL(haCfg->FIELD) == MERGE(HA_OLDVAL(haCfg->FIELD), HA_OLDVAL(respCfg->FIELD))) \
__CPROVER_ensures(*updated == (__CPROVER_old(*updated) || HA_VAL(haCfg->FIELD) != HA_OLDVAL(haCfg->FIELD))) \
__CPROVER_ensures(HA_VAL(haCfg->FIELD) != HA_OLDVAL(haCfg->FIELD)                                 \
		? (haCfg->FIELD == __CPROVER_old(respCfg->FIELD) && respCfg->FIELD == NULL &&                         \
		   IFF(__CPROVER_was_freed(__CPROVER_old(haCfg->FIELD)), HA_OLD_HEAP_INT(haCfg->FIELD)))   \
		: (haCfg->FIELD == __CPROVER_old(haCfg->FIELD) && respCfg->FIELD == __CPROVER_old(respCfg->FIELD) &&  \
		   !__CPROVER_was_freed(__CPROVER_old(haCfg->FIELD))))                                                \
__CPROVER_assigns(haCfg->FIELD, respCfg->FIELD, *updated)                                                     \
__CPROVER_frees(haCfg->FIELD)

HA_CONSOLIDATE_CONTRACT(KSI_Config_consolidateMaxLevel, maxLevel, spec_ha_merge_level);
HA_CONSOLIDATE_CONTRACT(KSI_Config_consolidateAggrPeriod, aggrPeriod, spec_ha_merge_period);
HA_CONSOLIDATE_CONTRACT(KSI_Config_consolidateMaxRequests, maxRequests, spec_ha_merge_requests);
HA_CONSOLIDATE_CONTRACT(KSI_Config_consolidateCalendarFirstTime, calendarFirstTime, spec_ha_merge_first);
HA_CONSOLIDATE_CONTRACT(KSI_Config_consolidateCalendarLastTime, calendarLastTime, spec_ha_merge_last);

#endif
