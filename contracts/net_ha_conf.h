/* Contracts for net_ha.c: range predicates and per-field configuration consolidation (C15).
 * Written from the property text via spec/ha_merge.h.  Must be included after types_base.c / types.c
 * (struct KSI_Integer_st and struct KSI_Config_st are defined in those .c files) and before net_ha.c. */
#ifndef CONTRACTS_NET_HA_CONF_H
#define CONTRACTS_NET_HA_CONF_H
#include "spec/ha_merge.h"

/* numeric view of an optional KSI_Integer: absent -> 0 */
#define HA_VAL(p) ((p) == NULL ? 0ULL : (unsigned long long)(p)->value)
/* a KSI_Integer that KSI_Integer_free really releases (values below 256 live in a static pool) */
#define HA_HEAP_INT(p) ((p) != NULL && (p)->value >= 256)
/* function form (conditions of assigns/frees clauses must not contain ?:) */
unsigned long long ha_val_fn(const KSI_Integer *p) { if (p == NULL) return 0; return p->value; }
/* the same two views of the ENTRY state.  __CPROVER_old() only takes lvalue-like expressions (no ?:), so the
 * pointer and the pointee are snapshotted separately; the pointee snapshot is only looked at when the pointer
 * snapshot is not NULL. */
#define HA_OLDVAL(p) (__CPROVER_old(p) == NULL ? 0ULL : (unsigned long long)__CPROVER_old((p)->value))
#define HA_OLD_HEAP_INT(p) (__CPROVER_old(p) != NULL && __CPROVER_old((p)->value) >= 256)
/* KSI_Integer_free(old p) happened exactly once: a shared heap integer loses exactly one reference (the release of the
 * last reference is checked by the harness: real KSI_Config_free of both configurations afterwards, no double free,
 * no leak under --memory-leak-check; __CPROVER_was_freed cannot be used in contracts that are also REPLACED: the dfcc
 * library looks the pointer up in the wrong write set). */
#define HA_RELEASED_ONCE(p) IMPLIES(HA_OLD_HEAP_INT(p) && __CPROVER_old((p)->ref) > 1, __CPROVER_old(p)->ref == __CPROVER_old((p)->ref) - 1)
#define HA_NOT_RELEASED(p) IMPLIES(__CPROVER_old(p) != NULL, __CPROVER_old(p)->ref == __CPROVER_old((p)->ref))

/* The pointee snapshots __CPROVER_old((p)->value) are taken unconditionally at entry; when p is NULL the snapshot is
 * never looked at (see HA_OLDVAL).  In --replace-call-with-contract mode CBMC would otherwise flag that ghost read. */
#pragma CPROVER check push
#pragma CPROVER check disable "pointer"
#pragma CPROVER check disable "pointer-primitive"
#pragma CPROVER check disable "pointer-overflow"

/* ---- range predicates: exactly the documented ranges ---------------------------------------- */
static bool isMaxLevelValid(KSI_uint64_t val)
__CPROVER_ensures(IFF(__CPROVER_return_value, val >= 1 && val <= 20))
__CPROVER_assigns();

static bool isAggrPeriodValid(KSI_uint64_t val)
__CPROVER_ensures(IFF(__CPROVER_return_value, val >= 100 && val <= 20000))
__CPROVER_assigns();

static bool isMaxRequestsValid(KSI_uint64_t val)
__CPROVER_ensures(IFF(__CPROVER_return_value, val >= 1 && val <= 16000))
__CPROVER_assigns();

static bool isCalendarTimeValid(KSI_uint64_t val)
__CPROVER_ensures(IFF(__CPROVER_return_value, val >= 1136073600ULL))
__CPROVER_assigns();

/* unknown / untrusted algorithm ids are discarded; the id is the whole 64-bit value (no truncation) */
static bool isAggrAlgoValid(KSI_uint64_t val)
__CPROVER_ensures(IFF(__CPROVER_return_value, val <= 0xff && ha_env_algo_trusted((int)val)))
__CPROVER_assigns();

/* ---- per-field consolidation -----------------------------------------------------------------
 * Common shape (FIELD, MERGE):
 *   requires  the consolidated value is absent or inside its range (invariant of has->consolidatedConfig,
 *             established by KSI_Config_new: all fields NULL)
 *   ensures   returns KSI_OK; new consolidated value == MERGE(old consolidated, pushed)
 *             *updated == old(*updated) || value changed            ("updated iff changed", sticky flag)
 *             (value changed  <=>  MERGE(old, pushed) != old, given the first ensures)
 *             changed  => the pushed KSI_Integer object MOVED: ha field == old resp field, resp field NULL,
 *                         old ha integer handed to KSI_Integer_free exactly once (one reference dropped,
 *                         released with the last one; pooled integers untouched)
 *             !changed => both field pointers unchanged, nothing released
 *             (pointer facts are written with __CPROVER_pointer_equals: when the contract REPLACES a call, a plain
 *             "p == q" assumption on a havocked pointer leaves CBMC's points-to set empty and later reads through p
 *             return garbage)
 *   assigns   only the two fields, *updated and the reference count of the old ha integer;
 *   frees     the old ha integer, and only when the spec says the field changes. */
#define HA_SPEC_CHANGED(FIELD, MERGE) (MERGE(HA_OLDVAL(haCfg->FIELD), HA_OLDVAL(respCfg->FIELD)) != HA_OLDVAL(haCfg->FIELD))
#define HA_CONSOLIDATE_CONTRACT(FN, FIELD, MERGE)                                                             \
static int FN(KSI_Config *haCfg, KSI_Config *respCfg, bool *updated)                                          \
__CPROVER_requires(haCfg != NULL && respCfg != NULL && updated != NULL && haCfg != respCfg)                  \
__CPROVER_requires(MERGE(HA_VAL(haCfg->FIELD), 0) == HA_VAL(haCfg->FIELD))                                    \
__CPROVER_requires(IMPLIES(HA_HEAP_INT(haCfg->FIELD), haCfg->FIELD->ref >= 1))                               \
__CPROVER_ensures(__CPROVER_return_value == KSI_OK)                                                           \
/* pointers first (decided by the ENTRY state only), so that the clause is constructive when assumed */      \
__CPROVER_ensures(HA_SPEC_CHANGED(FIELD, MERGE)                                                               \
		? (__CPROVER_pointer_equals(haCfg->FIELD, __CPROVER_old(respCfg->FIELD)) && respCfg->FIELD == NULL && \
		   HA_RELEASED_ONCE(haCfg->FIELD))                                                                    \
		: (__CPROVER_pointer_equals(haCfg->FIELD, __CPROVER_old(haCfg->FIELD)) &&                             \
		   __CPROVER_pointer_equals(respCfg->FIELD, __CPROVER_old(respCfg->FIELD)) &&                         \
		   HA_NOT_RELEASED(haCfg->FIELD)))                                                                    \
__CPROVER_ensures(HA_VAL(haCfg->FIELD) == MERGE(HA_OLDVAL(haCfg->FIELD), HA_OLDVAL(respCfg->FIELD)))          \
__CPROVER_ensures(*updated == (__CPROVER_old(*updated) || HA_SPEC_CHANGED(FIELD, MERGE)))                     \
__CPROVER_assigns(haCfg->FIELD, respCfg->FIELD, *updated)                                                     \
__CPROVER_assigns(haCfg->FIELD != NULL: haCfg->FIELD->ref)                                                    \
__CPROVER_frees(MERGE(ha_val_fn(haCfg->FIELD), ha_val_fn(respCfg->FIELD)) != ha_val_fn(haCfg->FIELD): haCfg->FIELD)

HA_CONSOLIDATE_CONTRACT(KSI_Config_consolidateMaxLevel, maxLevel, spec_ha_merge_level);
HA_CONSOLIDATE_CONTRACT(KSI_Config_consolidateAggrPeriod, aggrPeriod, spec_ha_merge_period);
HA_CONSOLIDATE_CONTRACT(KSI_Config_consolidateMaxRequests, maxRequests, spec_ha_merge_requests);
HA_CONSOLIDATE_CONTRACT(KSI_Config_consolidateCalendarFirstTime, calendarFirstTime, spec_ha_merge_first);
HA_CONSOLIDATE_CONTRACT(KSI_Config_consolidateCalendarLastTime, calendarLastTime, spec_ha_merge_last);
#pragma CPROVER check pop

#endif
