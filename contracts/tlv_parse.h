/* Contracts for the parser of tlv.c (C09 / C12): readFirstTlv, encodeAsNestedTlvs, KSI_TLV_parseBlob2.
 * Include AFTER tlv.c.  TLV_ALLOC_OK: the job runs with --no-malloc-may-fail, so "accepted iff well-formed" can be
 * stated; without it (allocation-failure variant, C19) only "accepted => well-formed" and "nothing changed on failure". */
#ifndef CONTRACTS_TLV_PARSE_H
#define CONTRACTS_TLV_PARSE_H
#include "spec/tlv.h"

/* first element of [data, data+data_length): returns its size and a NEW object that reports exactly the encoded
 * tag / flags / payload (payload pointer into data, not owned), or 0 and nothing */
#ifndef TLV_MAX_INPUT
#define TLV_MAX_INPUT ((size_t)1 << 40)   /* technical: keeps is_fresh(data, data_length) below CBMC's maximal object size when malloc cannot fail */
#endif
static size_t readFirstTlv(KSI_CTX *ctx, unsigned char *data, size_t data_length, KSI_TLV **tlv)
__CPROVER_requires(ctx != NULL)
#ifdef TLV_ALLOC_OK
__CPROVER_requires(data_length <= TLV_MAX_INPUT)
#endif
__CPROVER_requires(__CPROVER_is_fresh(data, data_length))
#ifdef TLV_OUT_BY_HARNESS
__CPROVER_requires(tlv != NULL)        /* the harness passes the address of its own variable so that it can release the result (leak check) */
#else
__CPROVER_requires(__CPROVER_is_fresh(tlv, sizeof(*tlv)))
#endif
__CPROVER_ensures(__CPROVER_return_value == 0 || (data_length > 0 && spec_tlv_elem_complete(data, data_length) && __CPROVER_return_value == spec_tlv_elem_size(data, data_length)))
#ifdef TLV_ALLOC_OK
__CPROVER_ensures(IMPLIES(data_length > 0 && spec_tlv_elem_complete(data, data_length), __CPROVER_return_value != 0))
#endif
__CPROVER_ensures(IMPLIES(__CPROVER_return_value == 0, *tlv == __CPROVER_old(*tlv)))
__CPROVER_ensures(IMPLIES(__CPROVER_return_value != 0, __CPROVER_is_fresh(*tlv, sizeof(**tlv)) &&
		(*tlv)->ctx == ctx &&
		(*tlv)->tag == spec_tlv_dec_tag(data, data_length) &&
		(*tlv)->isNonCritical == spec_tlv_dec_nc(data, data_length) &&
		(*tlv)->isForwardable == spec_tlv_dec_fwd(data, data_length) &&
		(*tlv)->datap == data + spec_tlv_dec_hdr_len(data, data_length) &&
		(*tlv)->datap_len == spec_tlv_dec_dat_len(data, data_length) &&
		(*tlv)->buffer == NULL && (*tlv)->buffer_size == 0 && (*tlv)->nested == NULL &&
		(*tlv)->relativeOffset == 0 && (*tlv)->absoluteOffset == 0))
__CPROVER_assigns(*tlv);

/* exactly one element and nothing else: accepted iff the element's size is the whole input */
int KSI_TLV_parseBlob2(KSI_CTX *ctx, unsigned char *data, size_t data_length, int ownMemory, KSI_TLV **tlv)
__CPROVER_requires(ctx != NULL)
#ifdef TLV_ALLOC_OK
__CPROVER_requires(data_length <= TLV_MAX_INPUT)
#endif
__CPROVER_requires(__CPROVER_is_fresh(data, data_length))
__CPROVER_requires(__CPROVER_is_fresh(tlv, sizeof(*tlv)))
__CPROVER_ensures(IMPLIES(__CPROVER_return_value == KSI_OK,
		data_length >= 2 && spec_tlv_elem_complete(data, data_length) && spec_tlv_elem_size(data, data_length) == data_length))
#ifdef TLV_ALLOC_OK
__CPROVER_ensures(IMPLIES(data_length >= 2 && spec_tlv_elem_complete(data, data_length) && spec_tlv_elem_size(data, data_length) == data_length,
		__CPROVER_return_value == KSI_OK))
__CPROVER_ensures(__CPROVER_return_value == KSI_OK || __CPROVER_return_value == (data_length < 2 ? KSI_INVALID_ARGUMENT : KSI_INVALID_FORMAT))
#endif
__CPROVER_ensures(IMPLIES(__CPROVER_return_value != KSI_OK, *tlv == __CPROVER_old(*tlv)))
__CPROVER_ensures(IMPLIES(__CPROVER_return_value == KSI_OK, __CPROVER_is_fresh(*tlv, sizeof(**tlv)) &&
		(*tlv)->tag == spec_tlv_dec_tag(data, data_length) &&
		(*tlv)->isNonCritical == spec_tlv_dec_nc(data, data_length) &&
		(*tlv)->isForwardable == spec_tlv_dec_fwd(data, data_length) &&
		(*tlv)->datap == data + spec_tlv_dec_hdr_len(data, data_length) &&
		(*tlv)->datap_len == spec_tlv_dec_dat_len(data, data_length) &&
		(*tlv)->nested == NULL &&
		(ownMemory ? ((*tlv)->buffer == data && (*tlv)->buffer_size == data_length) : ((*tlv)->buffer == NULL && (*tlv)->buffer_size == 0))))
__CPROVER_assigns(*tlv)
__CPROVER_frees();

#ifdef TLV_BUILD_GHOST
/* [ASSUMED in the job that enforces encodeAsNestedTlvs] KSI_TLV_free releases the object it is given and nothing else;
 * modelled as recording its argument (dfcc cannot free, after a loop contract, an object that was allocated inside the loop) */
KSI_TLV *g_tlvfree_arg; size_t g_tlvfree_calls;
void KSI_TLV_free(KSI_TLV *tlv)
__CPROVER_ensures(g_tlvfree_arg == tlv && g_tlvfree_calls == __CPROVER_old(g_tlvfree_calls) + 1)
__CPROVER_assigns(g_tlvfree_arg, g_tlvfree_calls);
/* lazy expansion of a payload into children, against the ghost list of env/ghost_tlvlist.h (B): the list stub checks,
 * for EVERY child at the moment it is appended, that it starts where its predecessor ended, stays inside the parent's
 * payload and reports the header encoded there.  Success requires that the children cover the payload exactly. */
static int encodeAsNestedTlvs(KSI_TLV *tlv)
__CPROVER_requires(tlv != NULL && tlv->ctx != NULL)
__CPROVER_requires(tlv->datap == g_bl_base && tlv->datap_len == g_bl_len && __CPROVER_r_ok(g_bl_base, g_bl_len))
__CPROVER_requires(!g_bl_live && !g_bl_freed && g_bl_off == 0 && g_bl_count == 0)
__CPROVER_requires(tlv->nested == NULL || tlv->nested == &g_nl_list)
__CPROVER_ensures(__CPROVER_return_value == KSI_OK || __CPROVER_return_value == KSI_INVALID_FORMAT || __CPROVER_return_value == KSI_OUT_OF_MEMORY)
__CPROVER_ensures(IMPLIES(__CPROVER_old(tlv->nested) != NULL, __CPROVER_return_value == KSI_OK && tlv->nested == __CPROVER_old(tlv->nested) && !g_bl_live))
__CPROVER_ensures(IMPLIES(__CPROVER_return_value == KSI_OK && __CPROVER_old(tlv->nested) == NULL,
		tlv->nested == &g_bl_list && g_bl_live && !g_bl_freed && g_bl_off == tlv->datap_len))
__CPROVER_ensures(IMPLIES(__CPROVER_return_value != KSI_OK, tlv->nested == NULL && IMPLIES(g_bl_live, g_bl_freed)))
/* no leak: a child that the list refused is released; nothing that the list (or the parent) owns is released */
__CPROVER_ensures(IMPLIES(__CPROVER_old(tlv->nested) == NULL, g_tlvfree_calls == 1 && g_tlvfree_arg == g_bl_rejected))
#ifdef TLV_ALLOC_OK
/* refusal for a format reason happens only when the rest of the payload does not start with a complete element
 * (when malloc can fail, tlv.c:231 reports a failed allocation of the child as INVALID_FORMAT, too) */
__CPROVER_ensures(IMPLIES(__CPROVER_return_value == KSI_INVALID_FORMAT,
		g_bl_off < g_bl_len && !spec_tlv_elem_complete(g_bl_base + g_bl_off, g_bl_len - g_bl_off)))
#endif
__CPROVER_requires(g_tlvfree_calls == 0 && g_bl_rejected == NULL)
__CPROVER_assigns(g_tlvfree_arg, g_tlvfree_calls, g_bl_rejected, tlv->nested, g_bl_list, g_bl_live, g_bl_freed, g_bl_count, g_bl_off, g_bl_w_start, g_bl_w_hdr, g_bl_w_len, g_bl_w_tag, g_bl_w_nc, g_bl_w_fwd);
#endif
#endif
