/* Contracts for base32.c (C17): makeMask, addBits, readNextBits, KSI_base32Decode, KSI_base32Encode.
 * Included after env/ghost_base32.h (decoder monitor) and before the real base32.c. */
#include "spec/base32.h"

static int makeMask(int bit_count)
__CPROVER_requires(0 <= bit_count && bit_count <= 31)
__CPROVER_ensures(__CPROVER_return_value == (int)((1u << bit_count) - 1u))
__CPROVER_assigns();

/* addBits: PRECONDITION bits <= 31 is the property "only symbols of the alphabet contribute data bits":
 * the 32 alphabet values are 0..31; a negative value is the decoder's "no symbol" marker and must be a no-op.
 * A value >= 32 would still be packed (masked to 5 bits) - that is what the precondition forbids.
 * For bits in 0..31: ORs the 5 bits, most significant first, into the stream at bit offset *bits_decoded,
 * touching byte off/8 and - only if the value straddles - byte off/8+1; advances the offset by 5. */
#define B32_OFF   (*bits_decoded)
#define B32_OOFF  (__CPROVER_old(*bits_decoded))
static void addBits(unsigned char *buf, int *bits_decoded, int bits)
__CPROVER_requires(bits <= 31)
__CPROVER_requires(__CPROVER_is_fresh(bits_decoded, sizeof(int)) && B32_OFF >= 0 && B32_OFF <= 0x7fffffff - 5)
__CPROVER_requires(__CPROVER_is_fresh(buf, (size_t)(B32_OFF / 8) + (B32_OFF % 8 > 3 ? 2 : 1)))
__CPROVER_assigns(*bits_decoded)
__CPROVER_assigns(bits >= 0: buf[B32_OFF / 8])
__CPROVER_assigns(bits >= 0 && B32_OFF % 8 > 3: buf[B32_OFF / 8 + 1])
__CPROVER_ensures(IMPLIES(bits < 0, B32_OFF == B32_OOFF))
__CPROVER_ensures(IMPLIES(bits >= 0, B32_OFF == B32_OOFF + 5))
__CPROVER_ensures(IMPLIES(bits >= 0, buf[B32_OOFF / 8] ==
		(unsigned char)(__CPROVER_old(buf[*bits_decoded / 8]) | (spec_b32_window((unsigned)bits, (unsigned)(B32_OOFF % 8)) >> 8))))
__CPROVER_ensures(IMPLIES(bits >= 0 && B32_OOFF % 8 > 3, buf[B32_OOFF / 8 + 1] ==
		(unsigned char)(__CPROVER_old(buf[*bits_decoded / 8 + (*bits_decoded % 8 > 3 ? 1 : 0)]) | (spec_b32_window((unsigned)bits, (unsigned)(B32_OOFF % 8)) & 0xffu))));

/* readNextBits: -1 exactly at/after the end, otherwise the 5 bits at that offset (zero-filled past the end) */
static int readNextBits(const unsigned char *data, size_t data_len, size_t bits_read)
__CPROVER_requires(data_len > 0 && data_len <= ((size_t)1 << 40) && __CPROVER_is_fresh(data, data_len))
__CPROVER_ensures(IFF(__CPROVER_return_value == -1, bits_read / 8 >= data_len))
__CPROVER_ensures(IMPLIES(bits_read / 8 < data_len, __CPROVER_return_value == (int)spec_b32_get5(data, data_len, bits_read)))
__CPROVER_assigns();

/* KSI_base32Decode on the monitored string (env/ghost_base32.h):
 *  OK  => no character that has to be refused was seen, *data_len = floor(5 * #symbols / 8), and every bit of the
 *         output (witness bit g_b32_wbit) is the corresponding bit of the corresponding alphabet symbol;
 *  a refusal happens only for a string containing a non-alphabet character, and always when one that must be
 *  refused is seen before the end; outputs untouched on failure. */
int KSI_base32Decode(const char *base32, unsigned char **data, size_t *data_len)
__CPROVER_requires(base32 != NULL && base32 == g_b32_str && g_b32_len <= 0x7fffffff / 5 - 1)
__CPROVER_requires(__CPROVER_is_fresh(data, sizeof(*data)) && __CPROVER_is_fresh(data_len, sizeof(*data_len)))
__CPROVER_requires(g_b32_calls == 0 && g_b32.bits == 0 && !g_b32.ended && !g_b32.must_reject && !g_b32.may_reject && g_b32.wval == 0)
__CPROVER_assigns(*data, *data_len, g_b32, g_b32_calls)
__CPROVER_ensures(__CPROVER_return_value == KSI_OK || __CPROVER_return_value == KSI_INVALID_FORMAT || __CPROVER_return_value == KSI_OUT_OF_MEMORY)
__CPROVER_ensures(IMPLIES(__CPROVER_return_value == KSI_OK,
		!g_b32.must_reject && (g_b32.ended || g_b32_calls == g_b32_len) &&
		*data != NULL && *data_len == g_b32.bits / 8 &&
		IMPLIES(g_b32_wbit < 8 * *data_len, spec_b32_bit(*data, g_b32_wbit) == g_b32.wval)))
__CPROVER_ensures(IMPLIES(__CPROVER_return_value == KSI_INVALID_FORMAT, g_b32.may_reject))
__CPROVER_ensures(IMPLIES(g_b32.must_reject, __CPROVER_return_value != KSI_OK))
__CPROVER_ensures(IMPLIES(__CPROVER_return_value != KSI_OK, *data == __CPROVER_old(*data) && *data_len == __CPROVER_old(*data_len)));

/* KSI_base32Encode: the output is the reference encoding of spec/base32.h, checked at a witness position
 * g_b32e_k of the dash-less padded sequence and a witness dash position g_b32e_j (both chosen up front),
 * NUL-terminated at exactly the reference length. */
size_t g_b32e_k;     /* witness: position in the padded symbol sequence */
size_t g_b32e_j;     /* witness: output index */
char g_b32e_exp;     /* the reference character at sequence position g_b32e_k (defined by the precondition below) */
int KSI_base32Encode(const unsigned char *data, size_t data_len, size_t group_len, char **encoded)
__CPROVER_requires(data_len > 0 && data_len <= ((size_t)1 << 40) && group_len <= ((size_t)1 << 40) && __CPROVER_is_fresh(data, data_len))
__CPROVER_requires(__CPROVER_is_fresh(encoded, sizeof(*encoded)))
__CPROVER_requires(IMPLIES(g_b32e_k < spec_b32_padded(data_len), g_b32e_exp == spec_b32_seq(data, data_len, g_b32e_k)))   /* definition of the ghost */
__CPROVER_assigns(*encoded)
__CPROVER_ensures(__CPROVER_return_value == KSI_OK || __CPROVER_return_value == KSI_OUT_OF_MEMORY)
__CPROVER_ensures(IMPLIES(__CPROVER_return_value != KSI_OK, *encoded == __CPROVER_old(*encoded)))
__CPROVER_ensures(IMPLIES(__CPROVER_return_value == KSI_OK, *encoded != NULL &&
		(*encoded)[spec_b32_strlen(data_len, group_len)] == '\0' &&
		IMPLIES(g_b32e_k < spec_b32_padded(data_len),
			(*encoded)[spec_b32_pos(g_b32e_k, group_len)] == g_b32e_exp) &&
		IMPLIES(group_len > 0 && g_b32e_j < spec_b32_strlen(data_len, group_len) && g_b32e_j % (group_len + 1) == group_len,
			(*encoded)[g_b32e_j] == '-')));
