/* builderR - C11 contracts for the signature-deriving functions of signature_builder.c.  Ghost: env/c11_derive_types.h.
 *
 * ---- appendAggregationChain (static, signature_builder.c:424; KSI_Signature_appendAggregationChain dispatches to it) ----
 * Property text: "prepending a local aggregation chain".  The function works IN PLACE on the signature it is given (the
 * builders give it a clone); its frame is: the prepended chain (time, index, one reference), the signature's chain list
 * (one insertion in front) and the signature's TLV tree (one new 0x801 child).  The signature OBJECT is not written.
 *   missing argument            -> KSI_INVALID_ARGUMENT, nothing done
 *   chain without links         -> KSI_OK, nothing done
 *   OK, chain with links        -> aggregation time of the chain := signing time of the signature (one reference taken);
 *                                  chain index := index(first chain of the signature) ++ own index, where the own index is
 *                                  the one present or, if absent, the one-element list [shape(chain)];
 *                                  chain inserted at position 0 of the signature's chain list (one reference taken);
 *                                  ONE new element 0x0801 constructed from the UPDATED chain with the aggregation chain
 *                                  template and appended to the signature's base TLV (ownership moved)
 *   signature without chains    -> KSI_INVALID_STATE
 *   not OK                      -> no TLV left behind, references balanced (what was handed over stays, the rest is released) */
/* RECORDING CLAUSES: only when the contract REPLACES the call (jobs of the callers).  They define ghost records of the call
 * (arguments, status, order) and say nothing about the code; "calls == 0" as precondition makes a second call an error. */
#ifdef C11D_REPLACED_STATICS
#define C11D_REC_APPEND_REQ __CPROVER_requires(g_rc_ap.calls == 0)
#define C11D_REC_APPEND_ENS __CPROVER_ensures(g_rc_ap.calls == 1 && g_rc_ap.sig == (const void *)sig && g_rc_ap.aggr == (const void *)aggr && \
		g_rc_ap.res == __CPROVER_return_value && g_rc_ap.level_calls_before == g_rc_lv.calls)
#define C11D_REC_APPEND_ASG , g_rc_ap
#define C11D_REC_LEVEL_REQ __CPROVER_requires(g_rc_lv.calls == 0)
#define C11D_REC_LEVEL_ENS __CPROVER_ensures(g_rc_lv.calls == 1 && g_rc_lv.sig == (const void *)sig && g_rc_lv.arg == rootLevel && g_rc_lv.res == __CPROVER_return_value)
#define C11D_REC_LEVEL_ASG , g_rc_lv
#else
#define C11D_REC_APPEND_REQ
#define C11D_REC_APPEND_ENS
#define C11D_REC_APPEND_ASG
#define C11D_REC_LEVEL_REQ
#define C11D_REC_LEVEL_ENS
#define C11D_REC_LEVEL_ASG
#endif
#ifdef C11D_APPEND_CONTRACT
/* ghost state at the call: nothing recorded yet; the model objects are wired as the harness built them */
#define D_PRE_APPEND (g_d.getchain_calls == 0 && g_d.signtime_calls == 0 && g_d.settime_calls == 0 && g_d.time_refs == 0 && g_d.idxlist_new_calls == 0 && g_d.idxlist_live == 0 && \
		g_d.shape_calls == 0 && g_d.int_new_calls == 0 && g_d.shape_live == 0 && g_d.idx_append_calls == 0 && !g_d.new_idx_has_shape && g_d.setidx_calls == 0 && \
		g_d.chain_insert_calls == 0 && g_d.aggr_refs == 0 && g_d.tlv_new_calls == 0 && g_d.tlv_live == 0 && g_d.new_tlv == NULL && g_d.construct_calls == 0 && g_d.tlvappend_calls == 0 && \
		g_dl.inserted == 0 && g_dl.idx_refs == 0 && \
		g_d_aggr.chainIndex == (g_di.had_index ? &g_d_aggr_idx : NULL) && (g_di.cur_len == 0 || g_d_cur.chainIndex == &g_d_cur_idx))
#define D_ARGS (sig != NULL && aggr != NULL)
#define D_LINKS (g_d_aggr.chain != NULL ? g_di.links : 0)
#define D_NCHAINS (g_d_sig.aggregationChainList != NULL ? g_di.nchains : 0)
#define D_NOTHING (g_d.settime_calls == 0 && g_d.chain_insert_calls == 0 && g_d.tlv_new_calls == 0 && g_dl.inserted == 0 && g_d.idxlist_new_calls == 0 && \
		g_d.setidx_calls == 0 && g_d.tlvappend_calls == 0 && g_d.time_refs == 0 && g_d.aggr_refs == 0)
#pragma CPROVER check push
#pragma CPROVER check disable "pointer"
#pragma CPROVER check disable "pointer-primitive"
static int appendAggregationChain(KSI_Signature *sig, KSI_AggregationHashChain *aggr)
__CPROVER_requires(sig == NULL || sig == &g_d_sig)
__CPROVER_requires(aggr == NULL || aggr == &g_d_aggr)
__CPROVER_requires(D_PRE_APPEND)
C11D_REC_APPEND_REQ
__CPROVER_ensures(IMPLIES(!D_ARGS, __CPROVER_return_value == KSI_INVALID_ARGUMENT && D_NOTHING && g_d.getchain_calls == 0))
/* a chain without links: accepted, nothing to prepend */
__CPROVER_ensures(IMPLIES(D_ARGS && g_d.getchain_res == KSI_OK && D_LINKS == 0, __CPROVER_return_value == KSI_OK && D_NOTHING))
__CPROVER_ensures(IMPLIES(D_ARGS && g_d.getchain_res != KSI_OK, __CPROVER_return_value == g_d.getchain_res && D_NOTHING))
/* OK with links: the four effects, in this order */
__CPROVER_ensures(IMPLIES(__CPROVER_return_value == KSI_OK && D_ARGS && D_LINKS > 0,
		/* time */
		g_d.signtime_calls == 1 && g_d.signtime_sig == (const void *)sig && g_d.signtime_res == KSI_OK &&
		g_d.settime_calls == 1 && g_d.settime_res == KSI_OK && g_d.settime_val == (const void *)g_di.time_p && g_d_aggr.aggregationTime == g_di.time_p &&
		g_d.time_refs == (g_di.time_p == &g_d_signtime ? 1 : 0) &&
		/* the signature has chains */
		D_NCHAINS > 0 && g_di.first_p != NULL))
__CPROVER_ensures(IMPLIES(__CPROVER_return_value == KSI_OK && D_ARGS && D_LINKS > 0,
		/* own index: kept, or created as [shape] */
		(g_di.had_index ? (g_d_aggr.chainIndex == &g_d_aggr_idx && g_d.idxlist_new_calls == 0 && g_d.setidx_calls == 0)
				: (g_d_aggr.chainIndex == &g_d_new_idx && g_d.idxlist_new_calls == 1 && g_d.idxlist_live == 1 && g_d.shape_calls == 1 && g_d.shape_res == KSI_OK &&
				   g_d.int_new_calls == 1 && g_d_shape.value == g_di.shape_val && g_d.idx_append_calls == 1 && g_d.idx_append_ok && g_d.new_idx_has_shape &&
				   g_d.shape_live == 1 && g_d.setidx_calls == 1 && g_d.setidx_res == KSI_OK)) &&
		/* prefix: every element of the first chain's index, back to front, each at position 0 (protocol assertions of the stub) */
		g_dl.inserted == g_di.cur_len && g_dl.idx_refs == g_dl.inserted))
__CPROVER_ensures(IMPLIES(__CPROVER_return_value == KSI_OK && D_ARGS && D_LINKS > 0,
		/* chain list */
		g_d.chain_insert_calls == 1 && g_d.chain_insert_res == KSI_OK && g_d.chain_insert_pos == 0 && g_d.chain_insert_el == (const void *)aggr &&
		g_d.chain_insert_list_ok && g_d.chain_insert_after_idx && g_d.aggr_refs == 1 &&
		/* TLV tree */
		g_d.tlv_new_calls == 1 && g_d.tlv_new_tag == 0x0801 && g_d.tlv_flags_ok &&
		g_d.construct_calls == 1 && g_d.construct_res == KSI_OK && g_d.construct_args_ok && g_d.construct_state_ok &&
		g_d.construct_tmpl == KSI_TLV_TEMPLATE(KSI_AggregationHashChain) &&
		g_d.tlvappend_calls == 1 && g_d.tlvappend_res == KSI_OK && g_d.tlvappend_args_ok && g_d.tlv_live == 0))
/* refusals */
__CPROVER_ensures(IMPLIES(D_ARGS && D_LINKS > 0 && g_d.getchain_res == KSI_OK && g_d.settime_calls == 1 && g_d.settime_res == KSI_OK && D_NCHAINS == 0,
		__CPROVER_return_value == KSI_INVALID_STATE && g_d.chain_insert_calls == 0 && g_d.tlv_new_calls == 0))
__CPROVER_ensures(IMPLIES(g_d.signtime_calls == 1 && g_d.signtime_res != KSI_OK, __CPROVER_return_value == g_d.signtime_res && g_d.settime_calls == 0))
__CPROVER_ensures(g_d.signtime_calls <= 1 && g_d.settime_calls <= 1 && g_d.chain_insert_calls <= 1 && g_d.tlv_new_calls <= 1 && g_d.construct_calls <= 1 && g_d.tlvappend_calls <= 1)
/* nothing is built before the chain is in the list; nothing is appended that was not constructed */
__CPROVER_ensures(IMPLIES(g_d.tlv_new_calls == 1, g_d.chain_insert_calls == 1 && g_d.chain_insert_res == KSI_OK))
__CPROVER_ensures(IMPLIES(g_d.tlvappend_calls == 1, g_d.tlvappend_args_ok))
/* any outcome: nothing left behind */
__CPROVER_ensures(IMPLIES(__CPROVER_return_value != KSI_OK, g_d.tlv_live == 0))
__CPROVER_ensures(g_d.time_refs == (g_d.settime_calls == 1 && g_d.settime_res == KSI_OK && g_di.time_p == &g_d_signtime ? 1 : 0))
__CPROVER_ensures(g_d.aggr_refs == (g_d.chain_insert_calls == 1 && g_d.chain_insert_res == KSI_OK ? 1 : 0))
__CPROVER_ensures(g_dl.idx_refs == g_dl.inserted)
__CPROVER_ensures(g_d.idxlist_live == (g_d_aggr.chainIndex == &g_d_new_idx ? 1 : 0) && g_d.shape_live == (g_d.new_idx_has_shape ? 1 : 0))
/* frame: the signature object itself (g_d_sig), the first chain (g_d_cur) and its index are NOT written */
C11D_REC_APPEND_ENS
__CPROVER_assigns(g_d, g_dl, g_d_aggr, g_d_el, g_d_shape C11D_REC_APPEND_ASG);
#pragma CPROVER check pop
#endif

/* ---- updateLevelCorrection (static, signature_builder.c:215) in BOTH directions ----
 * addRootLevel(sig, l) = updateLevelCorrection(sig, l, add), subRootLevel(sig, l) = updateLevelCorrection(sig, l, sub).
 * Property text: "adding or removing a root level".  Works in place on the signature given (a clone, in the callers): the level
 * correction of the FIRST link of the FIRST aggregation hash chain becomes old + l (add) resp. old - l (sub); a result outside
 * 0..0xff is refused and nothing is changed; the chain's 0x801 element in the base TLV is rebuilt from the updated chain
 * and put in place of the old one.  (The add direction is also C07.builder_addRootLevel, contracts/signature_builder_level.h.)
 *   rootLevel == 0              -> OK, nothing touched
 *   rootLevel > 0xff            -> INVALID_FORMAT, nothing touched
 *   add: old + l > 0xff         -> refused, link untouched        sub: old < l -> refused (INVALID_FORMAT), link untouched
 *   OK (l > 0)                  -> correction set exactly ONCE to the spec value; a new 0x0801 element constructed from the
 *                                  first chain with the aggregation chain template replaced an existing element of the base TLV
 *   any outcome                 -> no integer / TLV / chain object left behind */
#ifdef C11D_LEVEL_CONTRACT
#define LV_PRE (g_lv.set_calls == 0 && !g_lv.calc_reached && g_lv.int_live == (g_lv.has_old ? 1 : 0) && g_lv.int_new_calls == 0 && g_lv_chain_live == 0 && g_lv.tlv_live == 0 && \
		g_lv.replace_calls == 0 && g_lv.construct_calls == 0 && \
		g_lv_link.levelCorrection == (g_lv.has_old ? &g_lv_oldint : NULL) && g_lv_oldint.value == g_lv.old_value)
#define LV_OLD (g_lv.has_old ? g_lv.old_value : 0)
#define LV_DEFINED(l) (g_lv.is_sub ? LV_OLD >= (l) : LV_OLD <= 0xff - (l))           /* (no 64-bit wrap in the specification: l <= 0xff) */
#define LV_NEW(l) (g_lv.is_sub ? LV_OLD - (l) : LV_OLD + (l))
static int add(KSI_uint64_t r, KSI_uint64_t l, KSI_uint64_t *res);
static int sub(KSI_uint64_t r, KSI_uint64_t l, KSI_uint64_t *res);
typedef int (*c11lv_calc_fn)(KSI_uint64_t, KSI_uint64_t, KSI_uint64_t*);
#pragma CPROVER check push
#pragma CPROVER check disable "pointer"
#pragma CPROVER check disable "pointer-primitive"
static int updateLevelCorrection(KSI_Signature *sig, KSI_uint64_t rootLevel, int (*calcLevelCorrection)(KSI_uint64_t, KSI_uint64_t, KSI_uint64_t*))
__CPROVER_requires(sig == NULL || sig == &g_d_sig)
__CPROVER_requires(g_lv.is_sub ? calcLevelCorrection == sub : calcLevelCorrection == add)
__CPROVER_requires(LV_PRE)
C11D_REC_LEVEL_REQ
__CPROVER_ensures(IMPLIES(sig == NULL, __CPROVER_return_value == KSI_INVALID_ARGUMENT && g_lv.set_calls == 0))
__CPROVER_ensures(IMPLIES(sig != NULL && rootLevel == 0, __CPROVER_return_value == KSI_OK && g_lv.set_calls == 0 && g_lv.replace_calls == 0))
__CPROVER_ensures(IMPLIES(sig != NULL && rootLevel > 0xff, __CPROVER_return_value == KSI_INVALID_FORMAT && g_lv.set_calls == 0 && g_lv.replace_calls == 0))
__CPROVER_ensures(IMPLIES(sig != NULL && rootLevel > 0 && rootLevel <= 0xff && (!LV_DEFINED(rootLevel) || LV_NEW(rootLevel) > 0xff),
		__CPROVER_return_value != KSI_OK && g_lv.set_calls == 0 && g_lv.replace_calls == 0 && g_lv_link.levelCorrection == (g_lv.has_old ? &g_lv_oldint : NULL)))
__CPROVER_ensures(IMPLIES(sig != NULL && rootLevel > 0 && __CPROVER_return_value == KSI_OK,
		rootLevel <= 0xff && LV_DEFINED(rootLevel) && g_lv.set_calls == 1 && g_lv.set_res == KSI_OK &&
		g_lv.set_value == LV_NEW(rootLevel) && g_lv.set_value <= 0xff &&
		g_lv_link.levelCorrection != NULL && g_lv_link.levelCorrection->value == g_lv.set_value &&
		g_lv.construct_calls == 1 && g_lv.construct_payload == (const void *)&g_d_cur && g_lv.construct_tmpl == KSI_TLV_TEMPLATE(KSI_AggregationHashChain) &&
		g_lv.new_tag == 0x0801 &&
		g_lv.replace_calls == 1 && g_lv.replace_res == KSI_OK && g_lv.replace_parent_ok && g_lv.replace_new != NULL && g_lv.replace_old == (const void *)&g_lv_el))
/* a defined result inside 0..0xff is not refused: the new value is made */
__CPROVER_ensures(IMPLIES(sig != NULL && rootLevel > 0 && rootLevel <= 0xff && g_lv.calc_reached && LV_DEFINED(rootLevel) && LV_NEW(rootLevel) <= 0xff, g_lv.int_new_calls == 1))
__CPROVER_ensures(g_lv.set_calls <= 1 && g_lv.replace_calls <= 1)
__CPROVER_ensures(IMPLIES(g_lv.replace_calls == 1, g_lv.set_calls == 1 && g_lv.set_res == KSI_OK))
/* nothing left behind: the integer in the link is the only live one (the old one is released iff it was replaced) */
__CPROVER_ensures(g_lv.int_live == (g_lv_link.levelCorrection != NULL ? 1 : 0) && g_lv.tlv_live == 0)
__CPROVER_ensures(g_lv_chain_live == 0)
/* frame: the signature object, its chain list and the first chain object are NOT written - only the first link */
C11D_REC_LEVEL_ENS
__CPROVER_assigns(g_lv, g_lv_chain_live, g_lv_link, g_lv_oldint, g_lv_el, g_lv_cmp C11D_REC_LEVEL_ASG);
#pragma CPROVER check pop
#endif

/* ---- KSI_SignatureBuilder_appendAggregationChain (signature_builder.c:597) ----
 * Works on the builder's own signature (a clone of the source, made by KSI_SignatureBuilder_openFromSignature).  The two statics are
 * REPLACED by their contracts above (enforced by C11.derive_appendChain / C11.derive_levelCorrection).
 *   missing argument      -> KSI_INVALID_ARGUMENT, nothing done
 *   the root level of the chain is computed ONCE by KSI_AggregationHashChain_aggregate(aggr, start level of THIS builder, &level, no root hash);
 *   its failure           -> that status, signature untouched
 *   level != 0            -> exactly that level is TAKEN OUT (direction sub: precondition of the replaced call) of the builder's signature
 *                            before the chain is prepended; its failure -> that status, chain not prepended
 *   then the chain is prepended to the builder's signature (once); that status is returned.
 * Frame: what the two statics may write; the builder object is not written (its signature pointer and start level stay). */
#ifdef C11D_BAPPEND_CONTRACT
#ifdef C11D_REPLACED_BAPPEND
#define C11D_REC_BAPPEND_REQ __CPROVER_requires(g_rc_ba.calls == 0)
#define C11D_REC_BAPPEND_ENS __CPROVER_ensures(g_rc_ba.calls == 1 && g_rc_ba.builder == (const void *)builder && g_rc_ba.aggr == (const void *)aggr && \
		g_rc_ba.res == __CPROVER_return_value && IMPLIES(builder != NULL, g_rc_ba.start == builder->aggrStartLevel))
#define C11D_REC_BAPPEND_ASG , g_rc_ba
#else
#define C11D_REC_BAPPEND_REQ
#define C11D_REC_BAPPEND_ENS
#define C11D_REC_BAPPEND_ASG
#endif
#define BA_ARGS (builder != NULL && aggr != NULL)
#pragma CPROVER check push
#pragma CPROVER check disable "pointer"
#pragma CPROVER check disable "pointer-primitive"
int KSI_SignatureBuilder_appendAggregationChain(KSI_SignatureBuilder *builder, KSI_AggregationHashChain *aggr)
__CPROVER_requires(builder == NULL || (builder->sig == &g_d_sig && builder->ctx == &g_d_ctx))
__CPROVER_requires(aggr == NULL || aggr == &g_d_aggr)
/* (call sites: the start level is a tree level; KSI_SignatureBuilder_setAggregationChainStartLevel does not validate it - see NOTES) */
__CPROVER_requires(builder == NULL || builder->aggrStartLevel <= 0xff)
__CPROVER_requires(g_bd.aggregate_calls == 0 && g_rc_lv.calls == 0 && g_rc_ap.calls == 0 && g_lv.is_sub && D_PRE_APPEND && LV_PRE)
C11D_REC_BAPPEND_REQ
__CPROVER_ensures(IMPLIES(!BA_ARGS, __CPROVER_return_value == KSI_INVALID_ARGUMENT && g_bd.aggregate_calls == 0 && g_rc_lv.calls == 0 && g_rc_ap.calls == 0))
__CPROVER_ensures(IMPLIES(BA_ARGS, g_bd.aggregate_calls == 1 && g_bd.aggregate_chain == (const void *)aggr && g_bd.aggregate_no_root &&
		g_bd.aggregate_start >= 0 && (KSI_uint64_t)g_bd.aggregate_start == builder->aggrStartLevel))
__CPROVER_ensures(IMPLIES(BA_ARGS && g_bd.aggregate_res != KSI_OK, __CPROVER_return_value == g_bd.aggregate_res && g_rc_lv.calls == 0 && g_rc_ap.calls == 0))
/* the level that the chain supplies is taken out of the signature - exactly it, exactly once, before the chain goes in */
__CPROVER_ensures(IMPLIES(BA_ARGS && g_bd.aggregate_res == KSI_OK,
		(g_bd.aggregate_level != 0
			? (g_rc_lv.calls == 1 && g_rc_lv.sig == (const void *)builder->sig && g_rc_lv.arg == (KSI_uint64_t)g_bd.aggregate_level)
			: g_rc_lv.calls == 0)))
__CPROVER_ensures(IMPLIES(g_rc_lv.calls == 1 && g_rc_lv.res != KSI_OK, __CPROVER_return_value == g_rc_lv.res && g_rc_ap.calls == 0))
__CPROVER_ensures(IMPLIES(BA_ARGS && g_bd.aggregate_res == KSI_OK && (g_rc_lv.calls == 0 || g_rc_lv.res == KSI_OK),
		g_rc_ap.calls == 1 && g_rc_ap.sig == (const void *)builder->sig && g_rc_ap.aggr == (const void *)aggr &&
		g_rc_ap.level_calls_before == g_rc_lv.calls && __CPROVER_return_value == g_rc_ap.res))
__CPROVER_ensures(IFF(__CPROVER_return_value == KSI_OK, BA_ARGS && g_bd.aggregate_res == KSI_OK && (g_rc_lv.calls == 0 || g_rc_lv.res == KSI_OK) && g_rc_ap.calls == 1 && g_rc_ap.res == KSI_OK))
C11D_REC_BAPPEND_ENS
__CPROVER_assigns(g_bd, g_rc_lv, g_rc_ap, g_d, g_dl, g_d_aggr, g_d_el, g_d_shape, g_lv, g_lv_chain_live, g_lv_link, g_lv_oldint, g_lv_el, g_lv_cmp C11D_REC_BAPPEND_ASG);
#pragma CPROVER check pop
#endif

/* ---- KSI_SignatureBuilder_createSignatureWithAggregationChain (signature_builder.c:636) ----
 * Property text: "Operations that derive a new signature (... prepending a local aggregation chain ...) leave the source signature's
 * serialization unchanged."  Header text: "appends the aggregation chain to the signature and returns the appended signature ...
 * get as many appended signatures as needed"; the start level of the chain is the one set on THIS builder.
 * KSI_SignatureBuilder_openFromSignature / _new / _free are REAL (inlined); KSI_SignatureBuilder_appendAggregationChain is replaced by
 * its contract above (enforced by C11.derive_builderAppend); KSI_SignatureBuilder_close is replaced by the ASSUMED contract below
 * (ownership text of signature_builder.c:1140; real body: C07.sb_close); KSI_Signature_clone / _free are assumed stubs (C11.sig_clone).
 *   missing argument  -> KSI_INVALID_ARGUMENT, nothing cloned
 *   OK                -> the SOURCE (builder->sig) was cloned once; the chain was prepended to the CLONE through a TEMPORARY builder -
 *                        never through `builder`; that builder worked with the start level of `builder`; the temporary builder was
 *                        closed once, after the chain went in, with root level = start level of `builder`; *sig is the closed clone:
 *                        a new object, different from the source, not released
 *   not OK            -> *sig untouched, the clone released, the status of the failing step returned
 *   any outcome       -> the temporary builder is released (--memory-leak-check)
 * FRAME: neither the source builder object nor the source signature object is in the assigns clause. */
#ifdef C11D_CREATE_CONTRACT
#pragma CPROVER check push
#pragma CPROVER check disable "pointer"
#pragma CPROVER check disable "pointer-primitive"
int KSI_SignatureBuilder_close(KSI_SignatureBuilder *builder, KSI_uint64_t rootLevel, KSI_Signature **sig)
__CPROVER_requires(g_cl.close_calls == 0)
__CPROVER_ensures(g_cl.close_calls == 1 && g_cl.close_builder == (const void *)builder && g_cl.close_level == rootLevel && g_cl.close_res == __CPROVER_return_value &&
		g_cl.close_after_append == (g_rc_ba.calls == 1 && g_rc_ba.res == KSI_OK))
__CPROVER_ensures(IMPLIES(__CPROVER_return_value == KSI_OK, builder != NULL && sig != NULL && __CPROVER_old(builder->sig) != NULL &&
		*sig == __CPROVER_old(builder->sig) && builder->sig == NULL))
__CPROVER_ensures(IMPLIES(__CPROVER_return_value != KSI_OK && builder != NULL, builder->sig == __CPROVER_old(builder->sig)))
__CPROVER_ensures(IMPLIES(__CPROVER_return_value != KSI_OK && sig != NULL, *sig == __CPROVER_old(*sig)))
__CPROVER_assigns(g_cl; sig != NULL: *sig; builder != NULL: builder->sig);

#define CR_ARGS (builder != NULL && aggr != NULL && sig != NULL)
int KSI_SignatureBuilder_createSignatureWithAggregationChain(KSI_SignatureBuilder *builder, KSI_AggregationHashChain *aggr, KSI_Signature **sig)
__CPROVER_requires(builder == NULL || (builder == &g_src_builder && builder->sig == &g_src_sig && builder->ctx == &g_d_ctx && g_src_sig.ctx == &g_d_ctx))
__CPROVER_requires(builder == NULL || builder->aggrStartLevel <= 0xff)      /* (a tree level, as for KSI_SignatureBuilder_appendAggregationChain) */
__CPROVER_requires(aggr == NULL || aggr == &g_d_aggr)
__CPROVER_requires(g_cn.clone_calls == 0 && g_cn.clone_live == 0 && g_cn.sig_free_calls == 0 && !g_cn.foreign_free && g_cl.close_calls == 0 && g_rc_ba.calls == 0 &&
		g_bd.aggregate_calls == 0 && g_rc_lv.calls == 0 && g_rc_ap.calls == 0 && g_lv.is_sub && D_PRE_APPEND && LV_PRE)
__CPROVER_ensures(IMPLIES(!CR_ARGS, __CPROVER_return_value == KSI_INVALID_ARGUMENT && g_cn.clone_calls == 0 && g_rc_ba.calls == 0 && g_cl.close_calls == 0))
/* what is cloned is the source */
__CPROVER_ensures(g_cn.clone_calls <= 1 && IMPLIES(g_cn.clone_calls == 1, CR_ARGS && g_cn.clone_from == (const void *)builder->sig))
/* OK: clone -> prepend through a temporary builder -> close */
__CPROVER_ensures(IMPLIES(__CPROVER_return_value == KSI_OK, CR_ARGS && g_cn.clone_calls == 1 && g_cn.clone_res == KSI_OK &&
		g_rc_ba.calls == 1 && g_rc_ba.res == KSI_OK && g_rc_ba.aggr == (const void *)aggr && g_rc_ba.builder != (const void *)builder && g_rc_ba.builder != NULL &&
		g_cl.close_calls == 1 && g_cl.close_res == KSI_OK && g_cl.close_builder == g_rc_ba.builder && g_cl.close_after_append &&
		g_cl.close_level == builder->aggrStartLevel))
/* the start level set on the builder is the level the prepended chain is entered at */
__CPROVER_ensures(IMPLIES(__CPROVER_return_value == KSI_OK && CR_ARGS, g_rc_ba.start == builder->aggrStartLevel))
/* the derived object is new, the source is not handed out and not released */
__CPROVER_ensures(IMPLIES(__CPROVER_return_value == KSI_OK, *sig == &g_d_sig && (const void *)*sig != (const void *)builder->sig && g_cn.clone_live == 1 && g_cn.sig_free_calls == 0))
__CPROVER_ensures(!g_cn.foreign_free)
/* failure: nothing handed out, the clone is released, the failing step's status is returned */
__CPROVER_ensures(IMPLIES(__CPROVER_return_value != KSI_OK && sig != NULL, *sig == __CPROVER_old(*sig)))
__CPROVER_ensures(IMPLIES(__CPROVER_return_value != KSI_OK, g_cn.clone_live == 0))
__CPROVER_ensures(IMPLIES(g_cn.clone_calls == 1 && g_cn.clone_res != KSI_OK, __CPROVER_return_value == g_cn.clone_res && g_rc_ba.calls == 0 && g_cl.close_calls == 0))
__CPROVER_ensures(IMPLIES(g_rc_ba.calls == 1 && g_rc_ba.res != KSI_OK, __CPROVER_return_value == g_rc_ba.res && g_cl.close_calls == 0))
__CPROVER_ensures(IMPLIES(g_cl.close_calls == 1 && g_cl.close_res != KSI_OK, __CPROVER_return_value == g_cl.close_res))
__CPROVER_ensures(IMPLIES(CR_ARGS && g_cn.clone_calls == 1 && g_cn.clone_res == KSI_OK, g_rc_ba.calls == 1))
__CPROVER_ensures(IMPLIES(g_rc_ba.calls == 1 && g_rc_ba.res == KSI_OK, g_cl.close_calls == 1))
__CPROVER_assigns(*sig, g_cn, g_cl, g_rc_ba, g_bd, g_rc_lv, g_rc_ap, g_d, g_dl, g_d_aggr, g_d_el, g_d_shape, g_lv, g_lv_chain_live, g_lv_link, g_lv_oldint, g_lv_el, g_lv_cmp, g_d_sig);
#pragma CPROVER check pop
#endif
