/* Contracts of blocksigner.c: KSI_BlockSigner_new and KSI_BlockSigner_reset (C16: "a reset signer behaves
 * exactly like a newly created one").  Both are checked against the SAME predicate BS_FRESH: the state of a
 * freshly constructed signer.  Needs env/blocksigner_env.h; struct KSI_BlockSigner_st comes from blocksigner.c.
 * The two leaf processors are run in list order for every leaf (tree_builder.c processAndInsertNode), so the
 * ORDER of the processor list is part of the state: it decides whether the mask is computed over the leaf hash
 * or over the (meta-data, leaf) node, i.e. the value of every masked leaf and of prevLeaf. */
#ifndef CONTRACTS_BLOCKSIGNER_RESET_H
#define CONTRACTS_BLOCKSIGNER_RESET_H
struct KSI_BlockSigner_st;
static int metaDataProcessor(KSI_TreeNode *in, void *c, KSI_TreeNode **out);
static int maskingProcessor(KSI_TreeNode *in, void *c, KSI_TreeNode **out);

/* state of a signer right after construction with (ctx_, algo_, prev_, iv_) */
#define BS_FRESH(s, ctx_, algo_, prev_, iv_) ( \
	(s)->ctx == (ctx_) && (s)->signature == NULL && (s)->metaData == NULL && (s)->hsr != NULL && \
	(s)->prevLeaf == (prev_) && (s)->origPrevLeaf == (prev_) && (s)->iv == (iv_) && \
	(s)->builder != NULL && (s)->builder == g_tb_last && (s)->builder->algo == (algo_) && (s)->builder->rootNode == NULL && \
	(s)->builder->ref == 1 && (s)->builder->cbList == g_cb_list && \
	(s)->metaDataProcessor.c == (void *)(s) && (s)->metaDataProcessor.fn == metaDataProcessor && (s)->metaDataProcessor.levelOverhead == 1 && \
	(s)->maskingProcessor.c == (void *)(s) && (s)->maskingProcessor.fn == maskingProcessor && (s)->maskingProcessor.levelOverhead == 1 && \
	/* leaf processors: meta-data first ("metadata must be in the first link"), then masking */ \
	g_cb_n == 2 && g_cb_el[0] == &(s)->metaDataProcessor && g_cb_el[1] == &(s)->maskingProcessor)

int KSI_BlockSigner_new(KSI_CTX *ctx, KSI_HashAlgorithm algoId, KSI_DataHash *prevLeaf, KSI_OctetString *initVal, KSI_BlockSigner **signer)
/* the out-parameter is the harness variable g_bs_out (an is_fresh out-parameter makes symex 30x slower) */
__CPROVER_requires(signer == NULL || signer == &g_bs_out)
__CPROVER_requires(prevLeaf == NULL || prevLeaf->ref >= 1)
__CPROVER_requires(initVal == NULL || initVal->ref >= 1)
__CPROVER_ensures(IMPLIES(__CPROVER_return_value == KSI_OK,
		ctx != NULL && signer != NULL && (prevLeaf == NULL) == (initVal == NULL) &&
		(*signer)->ref == 1 && BS_FRESH(*signer, ctx, algoId, prevLeaf, initVal)))
__CPROVER_ensures(IMPLIES(__CPROVER_return_value == KSI_OK && prevLeaf != NULL,
		prevLeaf->ref == __CPROVER_old(prevLeaf->ref) + 2 && initVal->ref == __CPROVER_old(initVal->ref) + 1))
/* failure: out-parameter untouched, the arguments keep their reference counts (nothing of theirs is leaked or freed) */
__CPROVER_ensures(IMPLIES(__CPROVER_return_value != KSI_OK,
		(signer == NULL || *signer == __CPROVER_old(*signer)) &&
		(prevLeaf == NULL || prevLeaf->ref == __CPROVER_old(prevLeaf->ref)) &&
		(initVal == NULL || initVal->ref == __CPROVER_old(initVal->ref))))
__CPROVER_assigns(signer != NULL: *signer; prevLeaf != NULL: prevLeaf->ref; initVal != NULL: initVal->ref;
		g_cb_el, g_cb_n, g_cb_list, g_tb_last, g_tb_new_calls, g_tb_free_calls, g_tb_freed, g_sig_free_calls, g_sig_freed);

int KSI_BlockSigner_reset(KSI_BlockSigner *signer)
/* (the NULL signer is refused by the first statement; the contract speaks about a constructed signer) */
__CPROVER_requires(signer != NULL && signer->ctx != NULL && signer->builder != NULL && signer->builder->ref == 1 && signer->ref >= 1)
__CPROVER_requires(signer->signature == NULL || signer->signature->ref == 1)
__CPROVER_requires((signer->origPrevLeaf == NULL) == (signer->iv == NULL) && (signer->origPrevLeaf == NULL) == (signer->prevLeaf == NULL))
__CPROVER_requires(signer->origPrevLeaf == NULL || (signer->origPrevLeaf->ref >= 1 && signer->prevLeaf->ref >= 1 &&
		(signer->prevLeaf != signer->origPrevLeaf || signer->origPrevLeaf->ref >= 2)))
__CPROVER_requires(g_tb_free_calls == 0 && g_sig_free_calls == 0 && g_tb_new_calls == 0)
/* (R1) every field equals the freshly constructed state (same context, algorithm, first previous leaf, IV) */
__CPROVER_ensures(IMPLIES(__CPROVER_return_value == KSI_OK,
		BS_FRESH(signer, __CPROVER_old(signer->ctx), __CPROVER_old(signer->builder->algo), __CPROVER_old(signer->origPrevLeaf), __CPROVER_old(signer->iv))))
/* (R2) the old builder and the old signature were released exactly once, a single builder was made */
__CPROVER_ensures(IMPLIES(__CPROVER_return_value == KSI_OK,
		g_tb_new_calls == 1 && g_tb_free_calls == 1 && g_tb_freed == __CPROVER_old(signer->builder) &&
		(__CPROVER_old(signer->signature) == NULL ? g_sig_free_calls == 0 : (g_sig_free_calls == 1 && g_sig_freed == __CPROVER_old(signer->signature)))))
/* (R3) untouched in every case: reference count, hasher, IV, first previous leaf */
__CPROVER_ensures(signer->ref == __CPROVER_old(signer->ref) && signer->hsr == __CPROVER_old(signer->hsr) &&
		signer->iv == __CPROVER_old(signer->iv) && signer->origPrevLeaf == __CPROVER_old(signer->origPrevLeaf) && signer->ctx == __CPROVER_old(signer->ctx))
/* (R4) failure: the signer still owns exactly one live builder (it can still be used and freed) */
__CPROVER_ensures(IMPLIES(__CPROVER_return_value != KSI_OK,
		signer->builder != NULL && signer->builder->ref == 1 &&
		(signer->builder == __CPROVER_old(signer->builder) ? g_tb_free_calls == 0 : (signer->builder == g_tb_last && g_tb_freed == __CPROVER_old(signer->builder)))))
__CPROVER_assigns(signer->signature, signer->builder, signer->prevLeaf;
		signer->builder->ref; signer->signature != NULL: signer->signature->ref;
		signer->prevLeaf != NULL: signer->prevLeaf->ref; signer->origPrevLeaf != NULL: signer->origPrevLeaf->ref;
		g_cb_el, g_cb_n, g_cb_list, g_tb_last, g_tb_new_calls, g_tb_free_calls, g_tb_freed, g_sig_free_calls, g_sig_freed)
__CPROVER_frees(signer->builder, signer->builder->cbList, signer->signature, signer->prevLeaf);

/* KSI_BlockSigner_addLeaf (C19 / C16 mask chaining): the call either adds the leaf and returns OK, or leaves the
 * signer exactly as it was: in particular the mask-chaining value prevLeaf is only advanced when the leaf is in
 * the tree, and nothing fails once the leaf is in the tree ("repeating the operation without the fault gives the
 * fault-free result"). */
int KSI_BlockSigner_addLeaf(KSI_BlockSigner *signer, KSI_DataHash *hsh, int level, KSI_MetaData *metaData, KSI_BlockSignerHandle **handle)
__CPROVER_requires(signer != NULL && signer->ctx != NULL && signer->builder != NULL && signer->metaData == NULL)
__CPROVER_requires(handle == NULL || handle == &g_bsh_out)
__CPROVER_requires(g_add_calls == 0 && g_bs_live >= 0 && g_bs_live < 1000)
/* (L1) once the leaf is in the tree the call must succeed; a successful call put exactly one leaf into the tree */
__CPROVER_ensures(IMPLIES(g_add_calls >= 1 && g_add_res == KSI_OK, __CPROVER_return_value == KSI_OK))
__CPROVER_ensures(IMPLIES(__CPROVER_return_value == KSI_OK, hsh != NULL && g_add_calls == 1 && g_add_res == KSI_OK))
/* (L2) a refused leaf leaves the mask chaining state and the out-parameter untouched, keeps nothing allocated */
__CPROVER_ensures(IMPLIES(__CPROVER_return_value != KSI_OK,
		signer->prevLeaf == __CPROVER_old(signer->prevLeaf) && (handle == NULL || *handle == __CPROVER_old(*handle)) &&
		g_bs_live == __CPROVER_old(g_bs_live)))
/* (L3) the per-leaf meta-data pointer never outlives the call; the rest of the signer is untouched */
__CPROVER_ensures(signer->metaData == NULL && signer->builder == __CPROVER_old(signer->builder) && signer->iv == __CPROVER_old(signer->iv) &&
		signer->origPrevLeaf == __CPROVER_old(signer->origPrevLeaf) && signer->signature == __CPROVER_old(signer->signature))
/* (L4) success: a new handle (one reference for the caller) */
__CPROVER_ensures(IMPLIES(__CPROVER_return_value == KSI_OK && handle != NULL, *handle != NULL && (*handle)->ref == 1 && (*handle)->signer == signer && (*handle)->leafHandle != NULL))
__CPROVER_assigns(signer->metaData, signer->prevLeaf; handle != NULL: *handle;
		signer->prevLeaf != NULL: signer->prevLeaf->ref; hsh != NULL: hsh->ref;
		g_add_calls, g_add_res, g_bs_live)
__CPROVER_frees(signer->prevLeaf);
#endif
