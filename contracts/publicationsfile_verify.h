/* Contract of KSI_PublicationsFile_verify (C18: "reported trusted only if the PKCS#7 signature verifies over exactly
 * that range ... trust only via PKI").  Ghost state: env/c18_pki.h.
 *  OK  <=>  the file has a signature and its raw octets, the trust store of the context in use is available, and the
 *           PKI verifier - called exactly once with exactly (that store, raw, signedDataLength, signature,
 *           certConstraints) - returned OK; every error is propagated unchanged; the file object is not modified. */
int KSI_PublicationsFile_verify(const KSI_PublicationsFile *pubFile, KSI_CTX *ctx)
__CPROVER_requires(pubFile == NULL || __CPROVER_is_fresh(pubFile, sizeof(*pubFile)))
__CPROVER_requires(g18v_get_calls == 0 && g18v_verify_calls == 0)
__CPROVER_ensures(IMPLIES(pubFile == NULL, __CPROVER_return_value == KSI_INVALID_ARGUMENT))
__CPROVER_ensures(IMPLIES(pubFile != NULL && pubFile->signature == NULL, __CPROVER_return_value == KSI_PUBLICATIONS_FILE_NOT_SIGNED_WITH_PKI))
__CPROVER_ensures(IMPLIES(pubFile == NULL || pubFile->signature == NULL || pubFile->raw == NULL,
		__CPROVER_return_value != KSI_OK && g18v_verify_calls == 0 && g18v_get_calls == 0))
__CPROVER_ensures(IMPLIES(pubFile != NULL && pubFile->signature != NULL && pubFile->raw != NULL,
		g18v_get_calls == 1 && g18v_get_ctx == (ctx != NULL ? ctx : pubFile->ctx) &&
		(g18v_get_res != KSI_OK
			? (__CPROVER_return_value == g18v_get_res && g18v_verify_calls == 0)
			: (g18v_verify_calls == 1 && __CPROVER_return_value == g18v_verify_res &&
			   g18v_pki == (const KSI_PKITruststore *)&g18v_pki_obj && g18v_data == pubFile->raw && g18v_data_len == pubFile->signedDataLength &&
			   g18v_sig == pubFile->signature && g18v_constraints == pubFile->certConstraints))))
/* trusted only via PKI */
__CPROVER_ensures(IMPLIES(__CPROVER_return_value == KSI_OK, g18v_verify_calls == 1 && g18v_verify_res == KSI_OK))
__CPROVER_assigns(g18v_get_calls, g18v_verify_calls, g18v_get_ctx, g18v_pki, g18v_data, g18v_data_len, g18v_sig, g18v_constraints);
