/* Contract of KSI_PublicationsFile_getPKICertificateById (C18: "the certificate with the identical id, in agreement with
 * a reference scan").  Ghost model list: env/c18_certlist.h. */
/* certificate with the identical id (first such record); none: OK and *cert is left as the caller initialised it */
int KSI_PublicationsFile_getPKICertificateById(const KSI_PublicationsFile *pubFile, const KSI_OctetString *id, KSI_PKICertificate **cert)
__CPROVER_requires(pubFile != NULL && pubFile->certificates == &g18c_list && id != NULL && id == g18c_query && __CPROVER_is_fresh(cert, sizeof(*cert)))
__CPROVER_requires(g18c_calls == 0 && g18c_match_calls == 0 && g18c_eq_calls == 0)
__CPROVER_ensures(__CPROVER_return_value == KSI_OK)
__CPROVER_ensures(IMPLIES(g18c_match_calls != 0, *cert == g18c_first_cert && g18c_calls == g18c_match_calls))
__CPROVER_ensures(IMPLIES(g18c_match_calls == 0, *cert == __CPROVER_old(*cert) && g18c_calls == g18c_len))
__CPROVER_ensures(g18c_eq_calls == g18c_calls)
__CPROVER_assigns(*cert, g18c_calls, g18c_match_calls, g18c_cur_eq, g18c_eq_calls, g18c_first_cert, g18c_rec.certId, g18c_rec.cert);
