/* Contracts for the calendar-chain compatibility check of hashchain.c (C08).  Ghost: env/c08_compat.h, spec/rightlinks.h. */

/* ksi_CalendarHashChain_verifyRightLinkCompatibility:
 *   OK            <=> both chains read completely ∧ the reference machine says compatible
 *                     (same number of right links, k-th with k-th compared, all equal)
 *   INCOMPATIBLE  =>  an unequal pair, or a right link of a without partner in b, or a surplus right link in b */
static int ksi_CalendarHashChain_verifyRightLinkCompatibility(const KSI_CalendarHashChain* a, const KSI_CalendarHashChain* b)
__CPROVER_requires(g_c8.a_calls == 0 && g_c8.b_calls == 0 && g_c8_atokp != g_c8_btokp && g_c8_atokp != NULL && g_c8_btokp != NULL &&
		g_c8.rl.a_right == 0 && g_c8.rl.b_right == 0 && g_c8.rl.compared == 0 && g_c8.rl.unequal == 0)
__CPROVER_ensures(IMPLIES(a == NULL || b == NULL, __CPROVER_return_value == KSI_INVALID_ARGUMENT))
__CPROVER_ensures(IMPLIES(a != NULL && b != NULL,
		__CPROVER_return_value == KSI_OK || __CPROVER_return_value == KSI_INCOMPATIBLE_HASH_CHAIN))
__CPROVER_ensures(IMPLIES(__CPROVER_return_value == KSI_OK,
		g_c8.a_calls == g_c8_a_len && g_c8.b_calls == g_c8_b_len && spec_rl_compatible(&g_c8.rl)))
__CPROVER_ensures(IMPLIES(__CPROVER_return_value == KSI_INCOMPATIBLE_HASH_CHAIN,
		g_c8.rl.unequal ||
		(g_c8.b_calls == g_c8_b_len && g_c8.rl.a_right > g_c8.rl.b_right) ||
		g_c8.rl.b_right > g_c8.rl.a_right))
__CPROVER_assigns(g_c8, g_c8_alink, g_c8_blink);
