/* Contracts for the calendar-chain compatibility check of hashchain.c (C08).  Ghost: env/c08_compat.h, spec/rightlinks.h. */

/* ksi_CalendarHashChain_verifyRightLinkCompatibility:
 *   OK            <=> both chains read completely ∧ the reference machine says compatible
 *                     (same number of right links, k-th with k-th compared, all equal)
 *   INCOMPATIBLE  =>  an unequal pair, or a right link of a without partner in b, or a surplus right link in b */
static int ksi_CalendarHashChain_verifyRightLinkCompatibility(const KSI_CalendarHashChain* a, const KSI_CalendarHashChain* b)
__CPROVER_requires(g_c8.a_calls == 0 && g_c8.b_calls == 0 && g_c8_atokp != g_c8_btokp && g_c8_atokp != NULL && g_c8_btokp != NULL &&
		g_c8.rl.a_right == 0 && g_c8.rl.b_right == 0 && g_c8.rl.compared == 0 && g_c8.rl.unequal == 0)
/* (argument record: the enforcing harness presets it, a replaced call sets it) */
__CPROVER_ensures(g_c8_arg_a == (const void *)a && g_c8_arg_b == (const void *)b)
__CPROVER_ensures(IMPLIES(a == NULL || b == NULL, __CPROVER_return_value == KSI_INVALID_ARGUMENT))
__CPROVER_ensures(IMPLIES(a != NULL && b != NULL,
		__CPROVER_return_value == KSI_OK || __CPROVER_return_value == KSI_INCOMPATIBLE_HASH_CHAIN))
__CPROVER_ensures(IMPLIES(__CPROVER_return_value == KSI_OK,
		g_c8.a_calls == g_c8_a_len && g_c8.b_calls == g_c8_b_len && spec_rl_compatible(&g_c8.rl)))
__CPROVER_ensures(IMPLIES(__CPROVER_return_value == KSI_INCOMPATIBLE_HASH_CHAIN,
		g_c8.rl.unequal ||
		(g_c8.b_calls == g_c8_b_len && g_c8.rl.a_right > g_c8.rl.b_right) ||
		g_c8.rl.b_right > g_c8.rl.a_right))
__CPROVER_assigns(g_c8, g_c8_alink, g_c8_blink, g_c8_arg_a, g_c8_arg_b);

/* KSI_CalendarHashChain_verifyCompatibilityTo (public) with the two loop-free helpers inlined and the right-link
 * helper replaced by the contract above:
 *   OK <=> both chains present ∧ their aggregation times (field, or the publication time when the field is absent)
 *          are defined and equal ∧ the input hashes are equal ∧ the right links are compatible.
 * The three checks are made in this order; a failing check ends the comparison. */
#define C08_EFF(h) ((h)->aggregationTime != NULL ? (h)->aggregationTime : (h)->publicationTime)
#define C08_TIMES_DEFINED(a, b) (C08_EFF(a) != NULL && C08_EFF(b) != NULL)
#define C08_TIMES_EQ(a, b) (C08_TIMES_DEFINED(a, b) && C08_EFF(a)->value == C08_EFF(b)->value)
#define C08_RL_OK (g_c8.a_calls == g_c8_a_len && g_c8.b_calls == g_c8_b_len && spec_rl_compatible(&g_c8.rl))
int KSI_CalendarHashChain_verifyCompatibilityTo(const KSI_CalendarHashChain *a, const KSI_CalendarHashChain *b)
__CPROVER_requires(g_c8.a_calls == 0 && g_c8.b_calls == 0 && g_c8_atokp != g_c8_btokp && g_c8_atokp != NULL && g_c8_btokp != NULL &&
		g_c8.rl.a_right == 0 && g_c8.rl.b_right == 0 && g_c8.rl.compared == 0 && g_c8.rl.unequal == 0 && g_c8_in_eq_calls == 0)
__CPROVER_requires(a == NULL || a->inputHash == g_c8_in_a)
__CPROVER_requires(b == NULL || b->inputHash == g_c8_in_b)
__CPROVER_ensures(IFF(__CPROVER_return_value == KSI_OK,
		a != NULL && b != NULL && C08_TIMES_EQ(a, b) && g_c8_in_eq_calls == 1 && g_c8_in_eq && C08_RL_OK &&
		g_c8_arg_a == (const void *)a && g_c8_arg_b == (const void *)b))
__CPROVER_ensures(IMPLIES(a == NULL || b == NULL, __CPROVER_return_value == KSI_INVALID_ARGUMENT))
__CPROVER_ensures(IMPLIES(a != NULL && b != NULL && !C08_TIMES_DEFINED(a, b), __CPROVER_return_value == KSI_INVALID_STATE && g_c8_in_eq_calls == 0))
__CPROVER_ensures(IMPLIES(a != NULL && b != NULL && C08_TIMES_DEFINED(a, b) && !C08_TIMES_EQ(a, b),
		__CPROVER_return_value == KSI_INCOMPATIBLE_HASH_CHAIN && g_c8_in_eq_calls == 0 && g_c8.a_calls == 0 && g_c8.b_calls == 0))
__CPROVER_ensures(IMPLIES(a != NULL && b != NULL && C08_TIMES_EQ(a, b), g_c8_in_eq_calls == 1))
__CPROVER_ensures(IMPLIES(a != NULL && b != NULL && C08_TIMES_EQ(a, b) && !g_c8_in_eq,
		__CPROVER_return_value == KSI_INCOMPATIBLE_HASH_CHAIN && g_c8.a_calls == 0 && g_c8.b_calls == 0))
__CPROVER_ensures(IMPLIES(a != NULL && b != NULL && C08_TIMES_EQ(a, b) && g_c8_in_eq && !C08_RL_OK,
		__CPROVER_return_value == KSI_INCOMPATIBLE_HASH_CHAIN))
__CPROVER_assigns(g_c8, g_c8_alink, g_c8_blink, g_c8_arg_a, g_c8_arg_b, g_c8_in_eq_calls, g_c8_in_eq);
