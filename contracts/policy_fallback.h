/* C05 (fallback chain) / C11 (tempData reset): contract of KSI_SignatureVerifier_verify.
 * Rule_verify is replaced by the projection of its enforced contract (C05.rule_verify) that matters here: an
 * arbitrary (status, result code in {OK, NA, FAIL}); its PRECONDITION carries the property: a policy is
 * evaluated only as the first one or after a policy that ended FAIL/NA without an internal error, and always with
 * an empty tempData. */
static int Rule_verify(const KSI_Rule *rule, KSI_VerificationContext *context, KSI_PolicyVerificationResult *policyResult)
__CPROVER_requires(rule == g_rules_dummy && context != NULL && policyResult != NULL)
__CPROVER_requires(g_pol_evals == 0 || (g_last_pol_res == KSI_OK && g_last_pol_code != KSI_VER_RES_OK))      /* fallback only after FAIL / NA */
__CPROVER_requires(context->tempData != NULL && (g_pol_evals == 0 || (((VerificationTempData *)context->tempData)->calendarChain == NULL && ((VerificationTempData *)context->tempData)->publicationsFile == NULL && ((VerificationTempData *)context->tempData)->aggregationOutputHash == NULL)))
__CPROVER_ensures(g_pol_evals == __CPROVER_old(g_pol_evals) + 1 && __CPROVER_return_value == g_last_pol_res)
__CPROVER_ensures(policyResult->finalResult.resultCode == g_last_pol_code && policyResult->resultCode == g_last_pol_code)
__CPROVER_ensures(g_last_pol_code == KSI_VER_RES_OK || g_last_pol_code == KSI_VER_RES_NA || g_last_pol_code == KSI_VER_RES_FAIL)
/* rules may leave scratch objects in tempData.  (audit builderY) Stated with unconditional __CPROVER_pointer_equals, decided by the arbitrary flags
 * g_rv_left_*: dfcc havocs a pointer-typed assigns target of a replaced contract with ONE symbol per target shared by all calls on a path, and
 * the fallback loop runs its first and its step iteration on one path; with the assumed disjunctions below alone every policy of a run left the
 * SAME scratch objects (no obligation depends on that here - tempData must be empty again before the next policy - so this is hygiene). */
__CPROVER_ensures(__CPROVER_pointer_equals(((VerificationTempData *)context->tempData)->calendarChain, g_rv_left_cal ? (void *)g_tmp_cal_p : (void *)0))
__CPROVER_ensures(__CPROVER_pointer_equals(((VerificationTempData *)context->tempData)->publicationsFile, g_rv_left_pub ? (void *)g_tmp_pub_p : (void *)0))
__CPROVER_ensures(__CPROVER_pointer_equals(((VerificationTempData *)context->tempData)->aggregationOutputHash, g_rv_left_hash ? (void *)g_tmp_hash_p : (void *)0))
__CPROVER_ensures((((VerificationTempData *)context->tempData)->calendarChain == NULL || ((VerificationTempData *)context->tempData)->calendarChain == g_tmp_cal_p) &&
		(((VerificationTempData *)context->tempData)->publicationsFile == NULL || ((VerificationTempData *)context->tempData)->publicationsFile == g_tmp_pub_p) &&
		(((VerificationTempData *)context->tempData)->aggregationOutputHash == NULL || ((VerificationTempData *)context->tempData)->aggregationOutputHash == g_tmp_hash_p))
__CPROVER_assigns(policyResult->finalResult.resultCode, policyResult->finalResult.errorCode, policyResult->resultCode, g_pol_evals, g_last_pol_res, g_last_pol_code,
		((VerificationTempData *)context->tempData)->calendarChain, ((VerificationTempData *)context->tempData)->publicationsFile, ((VerificationTempData *)context->tempData)->aggregationOutputHash,
		g_rv_left_cal, g_rv_left_pub, g_rv_left_hash);

static int PolicyVerificationResult_addLatestPolicyResult(KSI_PolicyVerificationResult *result)
__CPROVER_requires(result != NULL)
__CPROVER_ensures(IMPLIES(__CPROVER_return_value != KSI_OK, g_fb_env_failed))
__CPROVER_ensures(IMPLIES(__CPROVER_return_value == KSI_OK && g_fb_env_failed, __CPROVER_old(g_fb_env_failed)))
__CPROVER_assigns(g_fb_env_failed);

int KSI_SignatureVerifier_verify(const KSI_Policy *policy, KSI_VerificationContext *context, KSI_PolicyVerificationResult **result)
__CPROVER_requires(policy == &g_pols[0] && __CPROVER_is_fresh(context, sizeof(*context)) && __CPROVER_is_fresh(result, sizeof(*result)))
__CPROVER_requires(__CPROVER_is_fresh(context->ctx, sizeof(struct KSI_CTX_st)) && context->ctx->lastFailedSignature == NULL && context->signature == NULL)
__CPROVER_requires(g_pol_evals == 0 && !g_fb_env_failed)
/* success: the verdict is that of the last policy evaluated, which ended without internal error; the chain was
 * followed to a policy that said OK or has no fallback */
__CPROVER_ensures(IMPLIES(__CPROVER_return_value == KSI_OK, g_pol_evals >= 1 && g_last_pol_res == KSI_OK &&
		(*result)->finalResult.resultCode == g_last_pol_code && (*result)->resultCode == g_last_pol_code))
__CPROVER_ensures(IMPLIES(__CPROVER_return_value == KSI_OK && g_last_pol_code != KSI_VER_RES_OK, g_pol_evals <= C05_NPOL && g_pols[g_pol_evals - 1].fallbackPolicy == NULL))
/* an internal error of a policy is returned as an error without a verdict */
__CPROVER_ensures(IMPLIES(g_pol_evals >= 1 && g_last_pol_res != KSI_OK, __CPROVER_return_value == g_last_pol_res && *result == __CPROVER_old(*result)))
__CPROVER_ensures(IMPLIES(__CPROVER_return_value != KSI_OK, *result == __CPROVER_old(*result)))
/* once the first policy ran nothing but a policy's internal error (or result bookkeeping) can make the call fail */
__CPROVER_ensures(IMPLIES(__CPROVER_return_value != KSI_OK && g_pol_evals >= 1 && !g_fb_env_failed, g_last_pol_res != KSI_OK))
/* the context never keeps verification scratch data */
__CPROVER_ensures(context->tempData == NULL)
__CPROVER_assigns(*result, context->tempData, context->ctx->lastFailedSignature, g_pol_evals, g_last_pol_res, g_last_pol_code, g_fb_env_failed, g_tmp_frees, g_rv_left_cal, g_rv_left_pub, g_rv_left_hash);
