/* Contract of tree_builder.c: KSI_TreeNode_join (C16; DESIGN 6-C16 first bullet).
 * Needs env/tree_env.h (ghost transcript of hasher calls) and spec/tree.h.
 *
 * Preconditions from the call sites (insertNode, processAndInsertNode, KSI_TreeBuilder_close): the two
 * siblings are distinct nodes made by KSI_TreeNode_new / KSI_TreeNode_join, i.e. each carries exactly one of
 * hash / metaData.  NULL arguments and out-of-range levels are NOT excluded: the function must refuse them. */
#ifndef CONTRACTS_TREE_BUILDER_JOIN_H
#define CONTRACTS_TREE_BUILDER_JOIN_H
#include "spec/tree.h"

#include "contracts/tree_builder_joinhashes.h"
#define JOIN_ARGS_OK (ctx != NULL && leftSibling != NULL && rightSibling != NULL && root != NULL)
#define JOIN_LEVELS_OK (spec_tree_join_ok((long long)leftSibling->level, (long long)rightSibling->level))

static int KSI_TreeNode_join(KSI_CTX *ctx, KSI_DataHasher *hsr, KSI_TreeNode *leftSibling, KSI_TreeNode *rightSibling, KSI_TreeNode **root)
__CPROVER_requires(hsr != NULL)
__CPROVER_requires(leftSibling == NULL || leftSibling != rightSibling)
__CPROVER_requires(TN_WELLFORMED(leftSibling) && TN_WELLFORMED(rightSibling))
__CPROVER_requires(g_live >= 0 && g_live < 100000)
/* (0) live-allocation accounting (C19): a join keeps exactly one new node; a refused join keeps nothing */
__CPROVER_ensures(g_live == __CPROVER_old(g_live) + (__CPROVER_return_value == KSI_OK ? 1 : 0))
/* (1) accepted  =>  arguments and level arithmetic are fine and no callee failed during this call */
__CPROVER_ensures(IMPLIES(__CPROVER_return_value == KSI_OK, JOIN_ARGS_OK && JOIN_LEVELS_OK && g_tr_failed == __CPROVER_old(g_tr_failed)))
/* (2) refused  =>  there is a reason: bad argument, level outside 0..255, a hasher error, or no memory */
__CPROVER_ensures(IMPLIES(__CPROVER_return_value != KSI_OK,
		!JOIN_ARGS_OK || !JOIN_LEVELS_OK || g_tr_failed || __CPROVER_return_value == KSI_OUT_OF_MEMORY))
/* (3) bad arguments / level outside 0..255 are refused BEFORE any state change: the hasher is not even touched */
__CPROVER_ensures(IMPLIES(!JOIN_ARGS_OK || !JOIN_LEVELS_OK, __CPROVER_return_value != KSI_OK && g_tr_n == __CPROVER_old(g_tr_n)))
/* (4) the new root: level = max(l, r) + 1, links set both ways, hash = result of the hasher transcript */
__CPROVER_ensures(IMPLIES(__CPROVER_return_value == KSI_OK,
		__CPROVER_is_fresh(*root, sizeof(KSI_TreeNode)) &&
		(long long)(*root)->level == spec_tree_join_level((long long)leftSibling->level, (long long)rightSibling->level) &&
		(*root)->leftChild == leftSibling && (*root)->rightChild == rightSibling && (*root)->parent == NULL &&
		leftSibling->parent == *root && rightSibling->parent == *root &&
		(*root)->ctx == ctx && (*root)->metaData == NULL && (*root)->hash != NULL && (*root)->hash == g_tr_result &&
		(*root)->hash->ref == 1))
/* (5) hash step order (stated for a transcript that was empty at entry): reset, left, right, one byte == new
 *     level, close - all on the hasher given */
__CPROVER_ensures(IMPLIES(__CPROVER_return_value == KSI_OK && __CPROVER_old(g_tr_n) == 0 && __CPROVER_old(g_tr_hsr) == NULL && !__CPROVER_old(g_tr_hsr_mixed),
		g_tr_hsr == hsr && !g_tr_hsr_mixed &&
		g_tr_n == 3u + TN_EVENTS(leftSibling) + TN_EVENTS(rightSibling) &&
		g_tr[0].kind == TR_RESET &&
		TR_IS_NODE(1u, leftSibling) &&
		TR_IS_NODE(1u + TN_EVENTS(leftSibling), rightSibling) &&
		g_tr[1u + TN_EVENTS(leftSibling) + TN_EVENTS(rightSibling)].kind == TR_BYTES &&
		g_tr[1u + TN_EVENTS(leftSibling) + TN_EVENTS(rightSibling)].len == 1 &&
		g_tr[1u + TN_EVENTS(leftSibling) + TN_EVENTS(rightSibling)].b0 == (unsigned char)(*root)->level &&
		g_tr[2u + TN_EVENTS(leftSibling) + TN_EVENTS(rightSibling)].kind == TR_CLOSE))
/* (6) the siblings keep everything but their parent link; on refusal they keep that too and *root is untouched */
__CPROVER_ensures(leftSibling == NULL || (
		leftSibling->level == __CPROVER_old(leftSibling->level) && leftSibling->hash == __CPROVER_old(leftSibling->hash) &&
		leftSibling->metaData == __CPROVER_old(leftSibling->metaData) && leftSibling->ctx == __CPROVER_old(leftSibling->ctx) &&
		leftSibling->leftChild == __CPROVER_old(leftSibling->leftChild) && leftSibling->rightChild == __CPROVER_old(leftSibling->rightChild)))
__CPROVER_ensures(rightSibling == NULL || (
		rightSibling->level == __CPROVER_old(rightSibling->level) && rightSibling->hash == __CPROVER_old(rightSibling->hash) &&
		rightSibling->metaData == __CPROVER_old(rightSibling->metaData) && rightSibling->ctx == __CPROVER_old(rightSibling->ctx) &&
		rightSibling->leftChild == __CPROVER_old(rightSibling->leftChild) && rightSibling->rightChild == __CPROVER_old(rightSibling->rightChild)))
__CPROVER_ensures(IMPLIES(__CPROVER_return_value != KSI_OK,
		(root == NULL || *root == __CPROVER_old(*root)) &&
		(leftSibling == NULL || leftSibling->parent == __CPROVER_old(leftSibling->parent)) &&
		(rightSibling == NULL || rightSibling->parent == __CPROVER_old(rightSibling->parent))))
__CPROVER_assigns(root != NULL: *root;
		leftSibling != NULL: leftSibling->parent;
		rightSibling != NULL: rightSibling->parent;
		g_tr, g_tr_n, g_tr_failed, g_tr_result, g_tr_hsr, g_tr_hsr_mixed, g_live, g_alloc_failed);
#endif
