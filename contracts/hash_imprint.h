/* Contracts for hash.c imprint constructors (C10: "imprints of a known algorithm with the matching length").
 * g_imp_w is a ghost witness index (arbitrary, fixed before the call): "for every digest octet k" is checked at k = g_imp_w
 * (imprint octet 1 + g_imp_w; imprint octet 0 is stated separately).
 * ctx is NULL or a context whose data-hash recycle cache is absent (allocation goes to KSI_malloc). */
#include "spec/imprint_len.h"
#ifndef IMPRINT_MAXBUF
#define IMPRINT_MAXBUF 80   /* buffers offered to the functions are at most this long (every length above 65 is rejected alike) */
#endif
size_t g_imp_w;

int KSI_DataHash_fromDigest(KSI_CTX *ctx, KSI_HashAlgorithm algo_id, const unsigned char *digest, size_t digest_length, KSI_DataHash **hash)
__CPROVER_requires(ctx == NULL || (__CPROVER_is_fresh(ctx, sizeof(*ctx)) && ctx->dataHashRecycle == NULL))
__CPROVER_requires(digest_length <= IMPRINT_MAXBUF && (digest == NULL || __CPROVER_is_fresh(digest, digest_length)))
__CPROVER_requires(__CPROVER_is_fresh(hash, sizeof(*hash)))
/* accepted <=> known algorithm and exactly its digest length (allocation may fail) */
__CPROVER_ensures(IMPLIES(__CPROVER_return_value == KSI_OK, digest != NULL && spec_digest_wellformed(algo_id, digest_length)))
__CPROVER_ensures(IMPLIES(digest != NULL && spec_digest_wellformed(algo_id, digest_length),
		__CPROVER_return_value == KSI_OK || __CPROVER_return_value == KSI_OUT_OF_MEMORY))
/* the object: one reference, imprint = id octet followed by the digest octets */
__CPROVER_ensures(IMPLIES(__CPROVER_return_value == KSI_OK,
		__CPROVER_is_fresh(*hash, sizeof(**hash)) && (*hash)->ref == 1 && (*hash)->ctx == ctx && (*hash)->imprint_length == digest_length + 1 &&
		(*hash)->imprint[0] == (unsigned char)algo_id &&
		IMPLIES(g_imp_w < digest_length, (*hash)->imprint[1 + g_imp_w] == digest[g_imp_w])))
__CPROVER_ensures(IMPLIES(__CPROVER_return_value != KSI_OK, *hash == __CPROVER_old(*hash)))
__CPROVER_assigns(*hash);

int KSI_DataHash_fromImprint(KSI_CTX *ctx, const unsigned char *imprint, size_t imprint_length, KSI_DataHash **hash)
__CPROVER_requires(ctx == NULL || (__CPROVER_is_fresh(ctx, sizeof(*ctx)) && ctx->dataHashRecycle == NULL))
/* the caller offers exactly imprint_length readable octets (possibly none) */
__CPROVER_requires(imprint_length <= IMPRINT_MAXBUF && __CPROVER_is_fresh(imprint, imprint_length))
#ifdef IMPRINT_CASE_NONEMPTY
/* case split of the enforcement (not of the contract seen by callers): job C10.imprint_fromImprint enforces the case
 * imprint_length >= 1 in contract mode, job C10.imprint_fromImprint_empty checks the case imprint_length == 0 */
__CPROVER_requires(imprint_length >= 1)
#endif
__CPROVER_requires(__CPROVER_is_fresh(hash, sizeof(*hash)))
__CPROVER_ensures(IMPLIES(__CPROVER_return_value == KSI_OK, spec_imprint_wellformed(imprint, imprint_length)))
__CPROVER_ensures(IMPLIES(spec_imprint_wellformed(imprint, imprint_length),
		__CPROVER_return_value == KSI_OK || __CPROVER_return_value == KSI_OUT_OF_MEMORY))
__CPROVER_ensures(IMPLIES(__CPROVER_return_value == KSI_OK,
		__CPROVER_is_fresh(*hash, sizeof(**hash)) && (*hash)->ref == 1 && (*hash)->ctx == ctx && (*hash)->imprint_length == imprint_length &&
		(*hash)->imprint[0] == imprint[0] &&
		IMPLIES(g_imp_w + 1 < imprint_length, (*hash)->imprint[g_imp_w + 1] == imprint[g_imp_w + 1])))
__CPROVER_ensures(IMPLIES(__CPROVER_return_value != KSI_OK, *hash == __CPROVER_old(*hash)))
__CPROVER_assigns(*hash);
