/* Contracts of base.c: the allocation funnels KSI_malloc / KSI_calloc / KSI_free are pass-throughs of
 * malloc / calloc / free (NULL-safe) - C19 "single allocation funnel".  Every env/ copy of the funnels
 * (env/stubs_base.h, env/c19_alloc_env.h, env/list_alloc_env.h) relies on exactly this. */
#ifndef CONTRACTS_C19_BASE_ALLOC_H
#define CONTRACTS_C19_BASE_ALLOC_H
void *KSI_malloc(size_t size)
__CPROVER_requires(size > 0 && size <= 4096)
__CPROVER_ensures(__CPROVER_return_value == NULL || (__CPROVER_is_fresh(__CPROVER_return_value, size) && __CPROVER_OBJECT_SIZE(__CPROVER_return_value) == size))
__CPROVER_assigns();

void *KSI_calloc(size_t num, size_t size)
__CPROVER_requires(num > 0 && num <= 64 && size > 0 && size <= 64)
__CPROVER_ensures(__CPROVER_return_value == NULL || (__CPROVER_is_fresh(__CPROVER_return_value, num * size) && __CPROVER_OBJECT_SIZE(__CPROVER_return_value) == num * size &&
		/* zero-initialised: witness byte */ ((unsigned char *)__CPROVER_return_value)[g_ba_w < num * size ? g_ba_w : 0] == 0))
__CPROVER_assigns();

void KSI_free(void *ptr)
__CPROVER_requires(ptr == NULL || __CPROVER_is_freeable(ptr))
__CPROVER_ensures(ptr == NULL || __CPROVER_was_freed(ptr))
__CPROVER_assigns()
__CPROVER_frees(ptr);
#endif
