/* Contract of tree_builder.c: KSI_TreeBuilder_close (C16 close-time merge, C19 allocation failure).
 * Needs env/tree_env.h (witness slots g_w1 < g_w2), env/c19_alloc_env.h (g_live).
 *   success  <=> the tree was not closed yet and holds at least one subtree (and no join failed);
 *   success   => rootNode set, EVERY slot empty;
 *   failure   => rootNode and EVERY slot exactly as before (stack view restored), nothing allocated by the call
 *                survives, so that close can be repeated and the builder can be freed. */
#ifndef CONTRACTS_TREE_BUILDER_CLOSE_H
#define CONTRACTS_TREE_BUILDER_CLOSE_H
int KSI_TreeBuilder_close(KSI_TreeBuilder *builder)
__CPROVER_requires(builder == NULL || (builder->ctx != NULL && builder->hsr != NULL))
__CPROVER_requires(g_w1 < g_w2 && g_w2 < KSI_TREE_BUILDER_STACK_LEN && g_live >= 0 && g_live < 1000)
__CPROVER_ensures(IMPLIES(__CPROVER_return_value == KSI_OK,
		builder != NULL && __CPROVER_old(builder->rootNode) == NULL && builder->rootNode != NULL &&
		builder->stack[g_w1] == NULL && builder->stack[g_w2] == NULL &&
		/* the witnesses are arbitrary: if both were empty before, some other slot held the (sub)tree */
		g_live >= __CPROVER_old(g_live)))
__CPROVER_ensures(IMPLIES(__CPROVER_return_value != KSI_OK && builder != NULL,
		builder->rootNode == __CPROVER_old(builder->rootNode) &&
		builder->stack[g_w1] == __CPROVER_old(builder->stack[g_w1]) && builder->stack[g_w2] == __CPROVER_old(builder->stack[g_w2]) &&
		g_live == __CPROVER_old(g_live)))
__CPROVER_ensures(IMPLIES(builder != NULL && __CPROVER_old(builder->rootNode) != NULL, __CPROVER_return_value == KSI_INVALID_STATE))
__CPROVER_ensures(IMPLIES(__CPROVER_return_value != KSI_OK,
		builder == NULL || __CPROVER_old(builder->rootNode) != NULL || __CPROVER_return_value == KSI_INVALID_STATE /* empty */ ||
		g_tr_failed || g_alloc_failed > __CPROVER_old(g_alloc_failed) || __CPROVER_return_value == KSI_UNKNOWN_ERROR /* level > 255 */));
#endif
