/* C01, rule level (L3): contracts of the loop-free internal-verification rules of verification_rule.c.
 * Same form as contracts/verification_rule_c02.h: the outcome must have the shape of the verdict the property text
 * demands for the world (vr_exp_* in env/ghost_vrule.h; table in spec/vercodes.h).
 * Frame of every rule: *result, and where stated the documented tempData field / the memo cache of the calendar chain
 * (chain->outputHash is a cache that is never serialized - C11 lists it as surviving state) + ghost reference counts.
 * The signature, its chains, links, records, integers and the context inputs are NOT assignable (C11, rule level). */
#ifndef CONTRACTS_VERIFICATION_RULE_C01_H
#define CONTRACTS_VERIFICATION_RULE_C01_H
#include "contracts/verification_rule_c02.h"      /* VR_PRE / VR_POST */
#include "tlv_element.h"
#include "contracts/hash_alg.h"                   /* KSI_checkHashAlgorithmAt: enforced on hash.c by C17.hashalg.* */

/* ------------------------------------------------ callees replaced by contract ------------------------------------------------ */
/* ASSUMED (projection of C03.caltime: calculateCalendarAggregationTime accepts exactly the chains whose shape encodes a
 * time and returns that time; this one-line wrapper adds the NULL check): the shape of the world's calendar chain either
 * encodes the time g_vr_shape_time (0 <= t < 2^63) or is impossible. */
_Bool g_vr_shape_known;
long long g_vr_shape_time;
int KSI_CalendarHashChain_calculateAggregationTime(const KSI_CalendarHashChain *chain, time_t *aggrTime)
__CPROVER_requires(aggrTime != NULL && (chain == NULL || chain == &g_vr_cal))
__CPROVER_ensures(IFF(__CPROVER_return_value == KSI_OK, chain != NULL && g_vr_shape_known))
__CPROVER_ensures(IMPLIES(__CPROVER_return_value == KSI_OK, *aggrTime == (time_t)g_vr_shape_time && g_vr_shape_time >= 0))
__CPROVER_assigns(*aggrTime);

/* ASSUMED (memo wrapper around KSI_HashChain_aggregateCalendar, C03.aggr_calendar): the calendar root is the cached
 * object when there is one, else a new hash identity VR_H_NEW1 (cached in chain->outputHash) or an error. The caller
 * gets its own reference. */
_Bool g_vr_root_known;
int KSI_CalendarHashChain_aggregate(KSI_CalendarHashChain *chain, KSI_DataHash **hsh)
__CPROVER_requires(hsh != NULL && (chain == NULL || chain == &g_vr_cal))
__CPROVER_requires(g_vr_cal.outputHash == NULL || (g_vr_cal.outputHash == &g_vr_h[VR_H_NEW1] && g_vr_h_ref[VR_H_NEW1] == 1))
__CPROVER_ensures(IFF(__CPROVER_return_value == KSI_OK, chain != NULL && (__CPROVER_old(g_vr_cal.outputHash) != NULL || g_vr_root_known)))
__CPROVER_ensures(IMPLIES(__CPROVER_return_value == KSI_OK, *hsh == &g_vr_h[VR_H_NEW1] && g_vr_cal.outputHash == &g_vr_h[VR_H_NEW1] && g_vr_h_ref[VR_H_NEW1] == 2))
__CPROVER_ensures(IMPLIES(__CPROVER_return_value != KSI_OK, *hsh == __CPROVER_old(*hsh) && g_vr_cal.outputHash == __CPROVER_old(g_vr_cal.outputHash) &&
		g_vr_h_ref[VR_H_NEW1] == __CPROVER_old(g_vr_h_ref[VR_H_NEW1])))
__CPROVER_assigns(*hsh, g_vr_cal.outputHash, g_vr_h_ref[VR_H_NEW1]);

/* ASSUMED (loop over the chains calling KSI_AggregationHashChain_aggregate, C03.memo): the aggregation root for a start
 * level is a new hash identity VR_H_NEW2, nothing for an empty list, or an error (output untouched). */
int KSI_AggregationHashChainList_aggregate(KSI_AggregationHashChainList *chainList, KSI_CTX *ctx, int level, KSI_DataHash **outputHash)
__CPROVER_requires(outputHash == &g_vr_temp.aggregationOutputHash && g_vr_temp.aggregationOutputHash == NULL && g_vr_h_ref[VR_H_NEW2] == 0)
__CPROVER_ensures(IMPLIES(__CPROVER_return_value == KSI_OK, chainList != NULL && ctx != NULL && level >= 0 && level <= 0xff &&
		(*outputHash == NULL || (*outputHash == &g_vr_h[VR_H_NEW2] && g_vr_h_ref[VR_H_NEW2] == 1))))
__CPROVER_ensures(IMPLIES(__CPROVER_return_value != KSI_OK, *outputHash == NULL && g_vr_h_ref[VR_H_NEW2] == 0))
/* VR_C01_LISTAGG_AUDIT_FRAME: empty, except in the job that ENFORCES this contract (C01.wrap_list_aggregate adds a vacuity-guard ghost, audit builderY) */
#ifndef VR_C01_LISTAGG_AUDIT_FRAME
#define VR_C01_LISTAGG_AUDIT_FRAME
#endif
__CPROVER_assigns(*outputHash, g_vr_h_ref[VR_H_NEW2] VR_C01_LISTAGG_AUDIT_FRAME);

/* ------------------------------------------------ existence selectors / presence rules ------------------------------------------------ */
#define VR_SELECTOR(RULE, FIELD, WANT) \
int RULE(KSI_VerificationContext *info, KSI_RuleVerificationResult *result) \
__CPROVER_requires(VR_PRE(info, result)) \
__CPROVER_ensures(VR_POST(vr_exp_selector(info, VR_INFO_OK(info) && info->signature->FIELD != NULL, WANT), result)) \
__CPROVER_assigns(result != NULL: *result);
VR_SELECTOR(KSI_VerificationRule_Rfc3161DoesNotExist, rfc3161, 0)
VR_SELECTOR(KSI_VerificationRule_Rfc3161Existence, rfc3161, 1)
VR_SELECTOR(KSI_VerificationRule_SignatureDoesNotContainPublication, publication, 0)
VR_SELECTOR(KSI_VerificationRule_SignaturePublicationRecordExistence, publication, 1)
VR_SELECTOR(KSI_VerificationRule_SignaturePublicationRecordMissing, publication, 0)
VR_SELECTOR(KSI_VerificationRule_CalendarHashChainDoesNotExist, calendarChain, 0)
VR_SELECTOR(KSI_VerificationRule_CalendarHashChainExistence, calendarChain, 1)
VR_SELECTOR(KSI_VerificationRule_CalendarAuthenticationRecordExistence, calendarAuthRec, 1)
VR_SELECTOR(KSI_VerificationRule_CalendarAuthenticationRecordDoesNotExist, calendarAuthRec, 0)
#define VR_PRESENCE(RULE, FIELD) \
int RULE(KSI_VerificationContext *info, KSI_RuleVerificationResult *result) \
__CPROVER_requires(VR_PRE(info, result)) \
__CPROVER_ensures(VR_POST(vr_exp_presence(info, VR_INFO_OK(info) && info->signature->FIELD != NULL), result)) \
__CPROVER_assigns(result != NULL: *result);
VR_PRESENCE(KSI_VerificationRule_CalendarHashChainPresenceVerification, calendarChain)
VR_PRESENCE(KSI_VerificationRule_CalendarAuthenticationRecordPresenceVerification, calendarAuthRec)

/* ------------------------------------------------ comparisons ------------------------------------------------ */
/* INT-13 */
int KSI_VerificationRule_AggregationChainInputHashAlgorithmVerification(KSI_VerificationContext *info, KSI_RuleVerificationResult *result)
__CPROVER_requires(VR_PRE(info, result))
__CPROVER_ensures(VR_POST(vr_exp_AggregationChainInputHashAlgorithmVerification(info), result))
__CPROVER_assigns(result != NULL: *result);

/* ASSUMED (hashing of the RFC3161 record: TST-info and signed-attribute prefixes/suffixes around the input hash, not
 * modelled - hasher is external): the record's output hash is a new hash identity VR_H_NEW1 owned by the caller, or an error */
_Bool g_vr_rfcout_known;
static int rfc3161_getOutputHash(const KSI_Signature *sig, KSI_DataHash **outputHash)
__CPROVER_requires(sig == &g_vr_sig && outputHash != NULL && g_vr_h_ref[VR_H_NEW1] == 0)
__CPROVER_ensures(IFF(__CPROVER_return_value == KSI_OK, g_vr_rfcout_known && sig->rfc3161 != NULL))
__CPROVER_ensures(IMPLIES(__CPROVER_return_value == KSI_OK, *outputHash == &g_vr_h[VR_H_NEW1] && g_vr_h_ref[VR_H_NEW1] == 1))
__CPROVER_ensures(IMPLIES(__CPROVER_return_value != KSI_OK, *outputHash == __CPROVER_old(*outputHash) && g_vr_h_ref[VR_H_NEW1] == 0))
__CPROVER_assigns(*outputHash, g_vr_h_ref[VR_H_NEW1]);

/* INT-01 (RFC3161 part); the computed hash is released on every path */
int KSI_VerificationRule_AggregationChainInputHashVerification(KSI_VerificationContext *info, KSI_RuleVerificationResult *result)
__CPROVER_requires(VR_PRE(info, result) && g_vr_h_ref[VR_H_NEW1] == 0)
__CPROVER_ensures(VR_POST(vr_exp_AggregationChainInputHashVerification(info, g_vr_rfcout_known, &g_vr_h[VR_H_NEW1]), result))
__CPROVER_ensures(g_vr_h_ref[VR_H_NEW1] == 0)
__CPROVER_assigns(result != NULL: *result; g_vr_h_ref[VR_H_NEW1]);

/* INT-11, padding format: accepted (KSI_OK) iff the element is a well-formed metadata padding; otherwise KSI_INVALID_FORMAT
 * (the rule turns exactly that status into FAIL INT-11).  The element is a TLV of hdr_len (2 for TLV8, 4 for TLV16) +
 * dat_len octets at el->ptr, as the TLV reader produces it (KSI_TlvElement, fast_tlv.h). */
static int metaDataPadding_verify(KSI_CTX *ctx, KSI_TlvElement *el)
__CPROVER_requires(ctx != NULL && __CPROVER_is_fresh(el, sizeof(*el)))
__CPROVER_requires((el->ftlv.hdr_len == 2 || el->ftlv.hdr_len == 4) && el->ftlv.dat_len <= 0xffff && __CPROVER_is_fresh(el->ptr, el->ftlv.hdr_len + el->ftlv.dat_len))
__CPROVER_ensures(IFF(__CPROVER_return_value == KSI_OK, spec_metadata_padding_ok(el->ftlv.tag, el->ftlv.is_nc, el->ftlv.is_fwd, el->ptr[0], el->ftlv.dat_len,
		el->ftlv.dat_len >= 1 ? el->ptr[el->ftlv.hdr_len] : 0u, el->ftlv.dat_len >= 2 ? el->ptr[el->ftlv.hdr_len + 1] : 0u)))
__CPROVER_ensures(__CPROVER_return_value == KSI_OK || __CPROVER_return_value == KSI_INVALID_FORMAT)
__CPROVER_assigns();

/* INT-17, INT-14 */
int KSI_VerificationRule_Rfc3161RecordOutputHashAlgorithmVerification(KSI_VerificationContext *info, KSI_RuleVerificationResult *result)
__CPROVER_requires(VR_PRE(info, result))
__CPROVER_ensures(VR_POST(vr_exp_Rfc3161RecordOutputHashAlgorithmVerification(info), result))
__CPROVER_assigns(result != NULL: *result);

int KSI_VerificationRule_Rfc3161RecordHashAlgorithmVerification(KSI_VerificationContext *info, KSI_RuleVerificationResult *result)
__CPROVER_requires(VR_PRE(info, result))
__CPROVER_ensures(VR_POST(vr_exp_Rfc3161RecordHashAlgorithmVerification(info), result))
__CPROVER_assigns(result != NULL: *result);

/* INT-03; documented tempData field: aggregationOutputHash (filled in when the consistency rule has not run before) */
int KSI_VerificationRule_CalendarHashChainInputHashVerification(KSI_VerificationContext *info, KSI_RuleVerificationResult *result)
__CPROVER_requires(VR_PRE(info, result))
__CPROVER_ensures(VR_POST(vr_exp_CalendarHashChainInputHashVerification(info, g_vr_temp.aggregationOutputHash), result))
__CPROVER_ensures(IMPLIES(__CPROVER_old(g_vr_temp.aggregationOutputHash) != NULL, g_vr_temp.aggregationOutputHash == __CPROVER_old(g_vr_temp.aggregationOutputHash)))
__CPROVER_assigns(result != NULL: *result; g_vr_temp.aggregationOutputHash, g_vr_h_ref[VR_H_NEW2]);

/* INT-04 */
int KSI_VerificationRule_CalendarHashChainAggregationTime(KSI_VerificationContext *info, KSI_RuleVerificationResult *result)
__CPROVER_requires(VR_PRE(info, result))
__CPROVER_ensures(VR_POST(vr_exp_CalendarHashChainAggregationTime(info), result))
__CPROVER_assigns(result != NULL: *result);

/* INT-05 */
int KSI_VerificationRule_CalendarHashChainRegistrationTime(KSI_VerificationContext *info, KSI_RuleVerificationResult *result)
__CPROVER_requires(VR_PRE(info, result))
__CPROVER_ensures(VR_POST(vr_exp_CalendarHashChainRegistrationTime(info, g_vr_shape_known, (unsigned long long)g_vr_shape_time), result))
__CPROVER_assigns(result != NULL: *result);

/* INT-08, INT-09: the calendar root against the authentication record / publication record imprint.
 * The caller's reference on the root is released on every path (no leak, no double free). */
#define VR_ROOT_REFS_BALANCED (g_vr_h_ref[VR_H_NEW1] == (g_vr_cal.outputHash != NULL ? 1 : 0))
int KSI_VerificationRule_CalendarAuthenticationRecordAggregationHash(KSI_VerificationContext *info, KSI_RuleVerificationResult *result)
__CPROVER_requires(VR_PRE(info, result) && VR_ROOT_REFS_BALANCED)
__CPROVER_ensures(VR_POST(vr_exp_cal_root_vs(info, VR_INFO_OK(info) && info->signature->calendarAuthRec != NULL,
		VR_INFO_OK(info) && info->signature->calendarAuthRec != NULL ? info->signature->calendarAuthRec->pubData : NULL,
		__CPROVER_old(g_vr_cal.outputHash) != NULL || g_vr_root_known, &g_vr_h[VR_H_NEW1], SPEC_VERR_INT(8)), result))
__CPROVER_ensures(VR_ROOT_REFS_BALANCED)
__CPROVER_assigns(result != NULL: *result; g_vr_cal.outputHash, g_vr_h_ref[VR_H_NEW1]);

int KSI_VerificationRule_SignaturePublicationRecordPublicationHash(KSI_VerificationContext *info, KSI_RuleVerificationResult *result)
__CPROVER_requires(VR_PRE(info, result) && VR_ROOT_REFS_BALANCED)
__CPROVER_ensures(VR_POST(vr_exp_cal_root_vs(info, VR_INFO_OK(info) && info->signature->publication != NULL,
		VR_INFO_OK(info) && info->signature->publication != NULL ? info->signature->publication->publishedData : NULL,
		__CPROVER_old(g_vr_cal.outputHash) != NULL || g_vr_root_known, &g_vr_h[VR_H_NEW1], SPEC_VERR_INT(9)), result))
__CPROVER_ensures(VR_ROOT_REFS_BALANCED)
__CPROVER_assigns(result != NULL: *result; g_vr_cal.outputHash, g_vr_h_ref[VR_H_NEW1]);

/* INT-06, INT-07 */
int KSI_VerificationRule_CalendarAuthenticationRecordAggregationTime(KSI_VerificationContext *info, KSI_RuleVerificationResult *result)
__CPROVER_requires(VR_PRE(info, result))
__CPROVER_ensures(VR_POST(vr_exp_cal_pubtime_vs(info, VR_INFO_OK(info) && info->signature->calendarAuthRec != NULL,
		VR_INFO_OK(info) && info->signature->calendarAuthRec != NULL ? info->signature->calendarAuthRec->pubData : NULL, SPEC_VERR_INT(6)), result))
__CPROVER_assigns(result != NULL: *result);

int KSI_VerificationRule_SignaturePublicationRecordPublicationTime(KSI_VerificationContext *info, KSI_RuleVerificationResult *result)
__CPROVER_requires(VR_PRE(info, result))
__CPROVER_ensures(VR_POST(vr_exp_cal_pubtime_vs(info, VR_INFO_OK(info) && info->signature->publication != NULL,
		VR_INFO_OK(info) && info->signature->publication != NULL ? info->signature->publication->publishedData : NULL, SPEC_VERR_INT(7)), result))
__CPROVER_assigns(result != NULL: *result);
#endif
