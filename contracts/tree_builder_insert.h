/* Contract of tree_builder.c: insertNode (C16; DESIGN 6-C16 second bullet, 7-l).  Enforced with
 * --enforce-contract-rec: the recursive call is replaced by this very contract.
 * Needs env/tree_env.h (pool model g_tn_pool, witnesses g_w1 < g_w2, g_wj).
 *
 * Preconditions (from the only outside call site, processAndInsertNode: at == 0, and from the recursion):
 *   0 <= at <= 255 and the node's level is at least `at`.  The recursive call site must re-establish this for
 *   at + 1 (obligation "insertNode.precondition"): it can, because the joined node has level >= at + 1 and a join
 *   that would pass level 255 is refused before the carry goes on - so no slot index ever leaves 0..255;
 *   every slot from `at` upwards is empty or holds the representative occupant (well-formed, level 0..255).
 * Postconditions, all slots / all held nodes via witnesses:
 *   refusal  => the whole stack, every held node and the inserted node are exactly as before, nothing is freed;
 *   success  => binary-counter step: slots at..k-1 were occupied and are now empty, slot k was empty and now holds
 *               the carried subtree (the node itself when k == at), every other slot is untouched;
 *               held nodes keep level / hash / meta-data / children (only parent links of joined nodes change). */
#ifndef CONTRACTS_TREE_BUILDER_INSERT_H
#define CONTRACTS_TREE_BUILDER_INSERT_H
#include "spec/tree.h"

#define TB_SLOT_OK(b, i) ((b)->stack[i] == NULL || (b)->stack[i] == &g_occ)
#define TB_CHANGED(w) (builder->stack[w] != __CPROVER_old(builder->stack[w]))
#define INS_ARGS_OK (builder != NULL && node != NULL)

static int insertNode(KSI_TreeBuilder *builder, KSI_TreeNode *node, int at)
__CPROVER_requires(0 <= at && at < KSI_TREE_BUILDER_STACK_LEN && (node == NULL || node->level >= (unsigned)at))
__CPROVER_requires(node == NULL || (((node->hash != NULL) != (node->metaData != NULL)) && node != &g_occ))
__CPROVER_requires((g_occ.hash != NULL) != (g_occ.metaData != NULL) && g_occ.level <= 0xff)
__CPROVER_requires(builder == NULL || (builder->ctx != NULL && builder->hsr != NULL))
__CPROVER_requires(builder == NULL || __CPROVER_forall { int i; (0 <= i && i < KSI_TREE_BUILDER_STACK_LEN) ==> (i < at || TB_SLOT_OK(builder, i)) })
__CPROVER_requires(g_w1 < g_w2 && g_w2 < KSI_TREE_BUILDER_STACK_LEN && g_live >= 0 && g_live < 100000 + at)
/* (0) live-allocation accounting (C19): a refused insertion keeps nothing it allocated; an accepted one keeps the
 *     nodes made by the joins of the carry: at most one per slot from `at` upwards, none when the first slot was empty */
__CPROVER_ensures(IMPLIES(__CPROVER_return_value != KSI_OK, g_live == __CPROVER_old(g_live)))
__CPROVER_ensures(IMPLIES(__CPROVER_return_value == KSI_OK, g_live >= __CPROVER_old(g_live) && g_live - __CPROVER_old(g_live) <= 256 - at &&
		IMPLIES(__CPROVER_old(builder->stack[at]) == NULL, g_live == __CPROVER_old(g_live))))
/* (1) accepted => arguments fine; refused => there is a reason */
__CPROVER_ensures(IMPLIES(__CPROVER_return_value == KSI_OK, INS_ARGS_OK && node->level <= 0xff))
__CPROVER_ensures(IMPLIES(__CPROVER_return_value != KSI_OK,
		!INS_ARGS_OK || node->level > 0xff || g_tr_failed || __CPROVER_return_value == KSI_OUT_OF_MEMORY ||
		/* a carry somewhere up the chain would pass level 255 */ __CPROVER_return_value == KSI_UNKNOWN_ERROR))
/* (2) refusal leaves the stack view, the held nodes and the inserted node exactly as they were */
__CPROVER_ensures(IMPLIES(__CPROVER_return_value != KSI_OK && builder != NULL,
		builder->stack[g_w1] == __CPROVER_old(builder->stack[g_w1]) && builder->stack[g_w2] == __CPROVER_old(builder->stack[g_w2])))
__CPROVER_ensures(IMPLIES(__CPROVER_return_value != KSI_OK,
		g_occ.parent == __CPROVER_old(g_occ.parent) && (node == NULL || node->parent == __CPROVER_old(node->parent))))
/* (2b) slots below `at` are never touched */
__CPROVER_ensures(builder == NULL || (IMPLIES(g_w1 < (size_t)at, !TB_CHANGED(g_w1)) && IMPLIES(g_w2 < (size_t)at, !TB_CHANGED(g_w2))))
/* (3) held nodes and the inserted node keep their content in every case */
__CPROVER_ensures(g_occ.level == __CPROVER_old(g_occ.level) && g_occ.hash == __CPROVER_old(g_occ.hash) &&
		g_occ.metaData == __CPROVER_old(g_occ.metaData) && g_occ.ctx == __CPROVER_old(g_occ.ctx) &&
		g_occ.leftChild == __CPROVER_old(g_occ.leftChild) && g_occ.rightChild == __CPROVER_old(g_occ.rightChild))
__CPROVER_ensures(node == NULL || (node->level == __CPROVER_old(node->level) && node->hash == __CPROVER_old(node->hash) &&
		node->metaData == __CPROVER_old(node->metaData) && node->ctx == __CPROVER_old(node->ctx) &&
		node->leftChild == __CPROVER_old(node->leftChild) && node->rightChild == __CPROVER_old(node->rightChild)))
/* (4) success = one binary-counter step (every clause is stated on the witness slots g_w1 < g_w2) */
#define INS_OK (__CPROVER_return_value == KSI_OK)
/* (4a) the first slot always flips; an empty first slot takes the node itself */
__CPROVER_ensures(IMPLIES(INS_OK && g_w1 == (size_t)at, __CPROVER_old(builder->stack[g_w1]) == NULL ? builder->stack[g_w1] == node : builder->stack[g_w1] == NULL))
__CPROVER_ensures(IMPLIES(INS_OK && g_w2 == (size_t)at, __CPROVER_old(builder->stack[g_w2]) == NULL ? builder->stack[g_w2] == node : builder->stack[g_w2] == NULL))
/* (4b) a changed slot flips between empty and occupied */
__CPROVER_ensures(IMPLIES(INS_OK && TB_CHANGED(g_w1), (__CPROVER_old(builder->stack[g_w1]) == NULL) != (builder->stack[g_w1] == NULL)))
__CPROVER_ensures(IMPLIES(INS_OK && TB_CHANGED(g_w2), (__CPROVER_old(builder->stack[g_w2]) == NULL) != (builder->stack[g_w2] == NULL)))
/* (4c) everything between `at` and a changed slot was occupied and has been emptied (carried on) */
__CPROVER_ensures(IMPLIES(INS_OK && g_w1 >= (size_t)at && TB_CHANGED(g_w2), __CPROVER_old(builder->stack[g_w1]) != NULL && builder->stack[g_w1] == NULL))
/* (4d) above the first slot neither the node itself nor a held node is stored: it is a node made by a join */
__CPROVER_ensures(IMPLIES(INS_OK && g_w2 > (size_t)at && TB_CHANGED(g_w2) && builder->stack[g_w2] != NULL,
		__CPROVER_is_fresh(builder->stack[g_w2], sizeof(KSI_TreeNode))))
/* (4e) parent links: a carry gives the node a parent; no carry, no change */
__CPROVER_ensures(IMPLIES(INS_OK && __CPROVER_old(builder->stack[at]) != NULL, node->parent != NULL))
__CPROVER_ensures(IMPLIES(INS_OK && __CPROVER_old(builder->stack[at]) == NULL, node->parent == __CPROVER_old(node->parent) && g_occ.parent == __CPROVER_old(g_occ.parent)))
__CPROVER_assigns(builder != NULL: builder->stack;
		node != NULL: node->parent;
		g_occ.parent;
		g_tr, g_tr_n, g_tr_failed, g_tr_result, g_tr_hsr, g_tr_hsr_mixed, g_live, g_alloc_failed);
#endif
