/* builderM - contract for io.c:KSI_IO_readSocket against the ghost socket env/m_ghost_sock.h.
 * C14 (blocking reader; listed under C09): partial reads accumulate until `size` octets or EOF / error; never more than
 * `size`; the count returned equals the octets stored; EOF / time-out / error end the call with a network error. */
#ifndef CONTRACTS_IO_READSOCKET_H
#define CONTRACTS_IO_READSOCKET_H
int KSI_IO_readSocket(int fd, void *buf, size_t size, size_t *readCount)
__CPROVER_requires(fd == g_sk_fd)
__CPROVER_requires(size <= 0x10003)                                    /* call sites: readData, buffer of 0xffff + 4 octets */
__CPROVER_requires(buf == NULL || (__CPROVER_is_fresh(buf, size) && size > 0))
__CPROVER_requires((unsigned char *)buf == g_sk_buf && size == g_sk_size)
__CPROVER_requires(readCount == NULL || __CPROVER_is_fresh(readCount, sizeof(*readCount)))
__CPROVER_requires(g_sk_delivered == 0 && g_sk_calls == 0 && !g_sk_eof && !g_sk_err)
/* the count returned is, on EVERY path, exactly the number of octets taken from the socket and stored in buf */
__CPROVER_ensures(IMPLIES(readCount != NULL, *readCount == g_sk_delivered))
__CPROVER_ensures(g_sk_delivered <= size)
/* success <=> exactly `size` octets arrived (partial reads accumulate) */
__CPROVER_ensures(IFF(__CPROVER_return_value == KSI_OK, fd >= 0 && buf != NULL && size > 0 && g_sk_delivered == size))
__CPROVER_ensures(IMPLIES(__CPROVER_return_value == KSI_OK, !g_sk_eof && !g_sk_err))
__CPROVER_ensures(IMPLIES(fd < 0 || buf == NULL || size == 0, __CPROVER_return_value == KSI_INVALID_ARGUMENT && g_sk_calls == 0 && g_sk_delivered == 0))
/* peer close, time-out, error: a network / IO error, never OK, never blocking on (the loop ends at once) */
__CPROVER_ensures(IMPLIES(g_sk_eof, __CPROVER_return_value == KSI_NETWORK_ERROR))
__CPROVER_ensures(IMPLIES(g_sk_err && (g_sk_errno == EWOULDBLOCK || g_sk_errno == ETIMEDOUT), __CPROVER_return_value == KSI_NETWORK_RECIEVE_TIMEOUT))
__CPROVER_ensures(IMPLIES(g_sk_err && !(g_sk_errno == EWOULDBLOCK || g_sk_errno == ETIMEDOUT), __CPROVER_return_value == KSI_IO_ERROR))
__CPROVER_ensures(__CPROVER_return_value == KSI_OK || __CPROVER_return_value == KSI_INVALID_ARGUMENT || __CPROVER_return_value == KSI_NETWORK_ERROR ||
		__CPROVER_return_value == KSI_NETWORK_RECIEVE_TIMEOUT || __CPROVER_return_value == KSI_IO_ERROR)
__CPROVER_assigns(buf != NULL: __CPROVER_object_whole(buf); readCount != NULL: *readCount;
		g_sk_delivered, g_sk_calls, g_sk_eof, g_sk_err, g_sk_errno, g_sk_errno_cell);
#endif
