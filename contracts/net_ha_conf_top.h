/* Contracts for net_ha.c (C15): aggregation-algorithm field and the whole-configuration consolidation. */
#ifndef CONTRACTS_NET_HA_CONF_TOP_H
#define CONTRACTS_NET_HA_CONF_TOP_H
#include "contracts/net_ha_conf.h"
#define HA_OLD_ALGO_OK(p) (__CPROVER_old(p) != NULL && __CPROVER_old((p)->value) <= 0xff && ha_env_algo_trusted((int)__CPROVER_old((p)->value)))

#pragma CPROVER check push
#pragma CPROVER check disable "pointer"
#pragma CPROVER check disable "pointer-primitive"
#pragma CPROVER check disable "pointer-overflow"
/* aggregation algorithm: any valid (trusted, known) pushed id replaces the consolidated one (object moved);
 * absent / invalid ids are ignored.  (Not a numeric min/max field; the property text does not list it.) */
static int KSI_Config_consolidateAggrAlgo(KSI_Config *haCfg, KSI_Config *respCfg, bool *updated)
__CPROVER_requires(haCfg != NULL && respCfg != NULL && updated != NULL && haCfg != respCfg)
__CPROVER_ensures(__CPROVER_return_value == KSI_OK)
__CPROVER_ensures(HA_OLD_ALGO_OK(respCfg->aggrAlgo)
		? (__CPROVER_pointer_equals(haCfg->aggrAlgo, __CPROVER_old(respCfg->aggrAlgo)) && respCfg->aggrAlgo == NULL && *updated &&
		   HA_RELEASED_ONCE(haCfg->aggrAlgo))
		: (__CPROVER_pointer_equals(haCfg->aggrAlgo, __CPROVER_old(haCfg->aggrAlgo)) && __CPROVER_pointer_equals(respCfg->aggrAlgo, __CPROVER_old(respCfg->aggrAlgo)) &&
		   *updated == __CPROVER_old(*updated) && HA_NOT_RELEASED(haCfg->aggrAlgo)))
__CPROVER_requires(IMPLIES(HA_HEAP_INT(haCfg->aggrAlgo), haCfg->aggrAlgo->ref >= 1))
__CPROVER_assigns(haCfg->aggrAlgo, respCfg->aggrAlgo, *updated)
__CPROVER_assigns(haCfg->aggrAlgo != NULL: haCfg->aggrAlgo->ref)
__CPROVER_frees(respCfg->aggrAlgo != NULL && ha_val_fn(respCfg->aggrAlgo) <= 0xff && ha_env_algo_trusted((int)ha_val_fn(respCfg->aggrAlgo)): haCfg->aggrAlgo);

#pragma CPROVER check pop
/* numeric view of a (possibly absent) configuration */
#define HA_CFG_OLDVAL(c, F) (__CPROVER_old(c) == NULL ? 0ULL : HA_OLDVAL((c)->F))
#define HA_CFG_VAL(c, F) ((c) == NULL ? 0ULL : HA_VAL((c)->F))
#define HA_CFG_INV(c) (spec_ha_merge_level(HA_CFG_VAL(c, maxLevel), 0) == HA_CFG_VAL(c, maxLevel) && \
		spec_ha_merge_period(HA_CFG_VAL(c, aggrPeriod), 0) == HA_CFG_VAL(c, aggrPeriod) && \
		spec_ha_merge_requests(HA_CFG_VAL(c, maxRequests), 0) == HA_CFG_VAL(c, maxRequests) && \
		spec_ha_merge_first(HA_CFG_VAL(c, calendarFirstTime), 0) == HA_CFG_VAL(c, calendarFirstTime) && \
		spec_ha_merge_last(HA_CFG_VAL(c, calendarLastTime), 0) == HA_CFG_VAL(c, calendarLastTime))

/* heap integers of a live configuration carry at least one reference */
#define HA_CFG_REFS(c) (IMPLIES(HA_HEAP_INT((c)->maxLevel), (c)->maxLevel->ref >= 1) && IMPLIES(HA_HEAP_INT((c)->aggrAlgo), (c)->aggrAlgo->ref >= 1) && \
		IMPLIES(HA_HEAP_INT((c)->aggrPeriod), (c)->aggrPeriod->ref >= 1) && IMPLIES(HA_HEAP_INT((c)->maxRequests), (c)->maxRequests->ref >= 1) && \
		IMPLIES(HA_HEAP_INT((c)->calendarFirstTime), (c)->calendarFirstTime->ref >= 1) && IMPLIES(HA_HEAP_INT((c)->calendarLastTime), (c)->calendarLastTime->ref >= 1))

/* whole configuration: every numeric field of the consolidated configuration becomes merge(old, pushed);
 * the range invariant is preserved; *updated == old(*updated) || some numeric field or the algorithm changed.
 * Failure only when the consolidated configuration had to be allocated and allocation failed; then nothing changed. */
static int KSI_HighAvailabilityService_consolidateConfig(KSI_HighAvailabilityService *has, KSI_Config *config, bool *updated)
__CPROVER_requires(has != NULL && config != NULL && updated != NULL && has->consolidatedConfig != config)
__CPROVER_requires(HA_CFG_INV(has->consolidatedConfig))
__CPROVER_requires(has->consolidatedConfig == NULL || HA_CFG_REFS(has->consolidatedConfig))
__CPROVER_ensures(__CPROVER_return_value == KSI_OK || (__CPROVER_return_value == KSI_OUT_OF_MEMORY &&
		__CPROVER_old(has->consolidatedConfig) == NULL && has->consolidatedConfig == NULL && *updated == __CPROVER_old(*updated)))
__CPROVER_ensures(IMPLIES(__CPROVER_return_value == KSI_OK, has->consolidatedConfig != NULL &&
		(__CPROVER_old(has->consolidatedConfig) == NULL || has->consolidatedConfig == __CPROVER_old(has->consolidatedConfig))))
__CPROVER_ensures(IMPLIES(__CPROVER_return_value == KSI_OK, HA_CFG_VAL(has->consolidatedConfig, maxLevel) == spec_ha_merge_level(HA_CFG_OLDVAL(has->consolidatedConfig, maxLevel), HA_OLDVAL(config->maxLevel))))
__CPROVER_ensures(IMPLIES(__CPROVER_return_value == KSI_OK, HA_CFG_VAL(has->consolidatedConfig, aggrPeriod) == spec_ha_merge_period(HA_CFG_OLDVAL(has->consolidatedConfig, aggrPeriod), HA_OLDVAL(config->aggrPeriod))))
__CPROVER_ensures(IMPLIES(__CPROVER_return_value == KSI_OK, HA_CFG_VAL(has->consolidatedConfig, maxRequests) == spec_ha_merge_requests(HA_CFG_OLDVAL(has->consolidatedConfig, maxRequests), HA_OLDVAL(config->maxRequests))))
__CPROVER_ensures(IMPLIES(__CPROVER_return_value == KSI_OK, HA_CFG_VAL(has->consolidatedConfig, calendarFirstTime) == spec_ha_merge_first(HA_CFG_OLDVAL(has->consolidatedConfig, calendarFirstTime), HA_OLDVAL(config->calendarFirstTime))))
__CPROVER_ensures(IMPLIES(__CPROVER_return_value == KSI_OK, HA_CFG_VAL(has->consolidatedConfig, calendarLastTime) == spec_ha_merge_last(HA_CFG_OLDVAL(has->consolidatedConfig, calendarLastTime), HA_OLDVAL(config->calendarLastTime))))
__CPROVER_ensures(IMPLIES(__CPROVER_return_value == KSI_OK, HA_CFG_INV(has->consolidatedConfig)))
__CPROVER_ensures(IMPLIES(__CPROVER_return_value == KSI_OK, *updated == (__CPROVER_old(*updated) ||
		HA_CFG_VAL(has->consolidatedConfig, maxLevel) != HA_CFG_OLDVAL(has->consolidatedConfig, maxLevel) ||
		HA_CFG_VAL(has->consolidatedConfig, aggrPeriod) != HA_CFG_OLDVAL(has->consolidatedConfig, aggrPeriod) ||
		HA_CFG_VAL(has->consolidatedConfig, maxRequests) != HA_CFG_OLDVAL(has->consolidatedConfig, maxRequests) ||
		HA_CFG_VAL(has->consolidatedConfig, calendarFirstTime) != HA_CFG_OLDVAL(has->consolidatedConfig, calendarFirstTime) ||
		HA_CFG_VAL(has->consolidatedConfig, calendarLastTime) != HA_CFG_OLDVAL(has->consolidatedConfig, calendarLastTime) ||
		HA_OLD_ALGO_OK(config->aggrAlgo))))
__CPROVER_assigns(*updated, has->consolidatedConfig)
__CPROVER_assigns(__CPROVER_object_whole(config))
__CPROVER_assigns(has->consolidatedConfig != NULL: __CPROVER_object_whole(has->consolidatedConfig))
__CPROVER_assigns(has->consolidatedConfig != NULL && has->consolidatedConfig->maxLevel != NULL: has->consolidatedConfig->maxLevel->ref)
__CPROVER_assigns(has->consolidatedConfig != NULL && has->consolidatedConfig->aggrAlgo != NULL: has->consolidatedConfig->aggrAlgo->ref)
__CPROVER_assigns(has->consolidatedConfig != NULL && has->consolidatedConfig->aggrPeriod != NULL: has->consolidatedConfig->aggrPeriod->ref)
__CPROVER_assigns(has->consolidatedConfig != NULL && has->consolidatedConfig->maxRequests != NULL: has->consolidatedConfig->maxRequests->ref)
__CPROVER_assigns(has->consolidatedConfig != NULL && has->consolidatedConfig->calendarFirstTime != NULL: has->consolidatedConfig->calendarFirstTime->ref)
__CPROVER_assigns(has->consolidatedConfig != NULL && has->consolidatedConfig->calendarLastTime != NULL: has->consolidatedConfig->calendarLastTime->ref)
__CPROVER_frees(has->consolidatedConfig != NULL: has->consolidatedConfig->maxLevel, has->consolidatedConfig->aggrAlgo, has->consolidatedConfig->aggrPeriod,
		has->consolidatedConfig->maxRequests, has->consolidatedConfig->calendarFirstTime, has->consolidatedConfig->calendarLastTime);

#endif
