/* Contracts for net_ha.c (C15): completion state functions handleReqResponse / handleErrorResponse.
 * From the property text: "each request ... is completed exactly once: with the first valid response received,
 * later responses being discarded and errors from other endpoints surfacing only as separate error notices, or
 * with an error only after every endpoint it was forwarded to has failed."
 * Ghosts: g_hareq / g_user name the HA request wrapper and the user's handle (set by the harness, tied to the
 * arguments by the requires clauses); the respQueue monitor (env/net_ha_queue.h) records what is queued. */
#ifndef CONTRACTS_NET_HA_RESP_H
#define CONTRACTS_NET_HA_RESP_H

KSI_HighAvailabilityRequest *g_hareq;   /* == respHndl->userCtx */
KSI_AsyncHandle *g_user;                /* == g_hareq->asyncHandle, the handle the user submitted */

/* call-site facts (responseHandler: respHndl comes out of a sub-service run, its request context is the
 * wrapper created by KSI_HighAvailabilityService_addRequest):
 *  - expectedRespCount counts the sub-requests still outstanding, this one included            (>= 1)
 *  - the user handle is WAITING_FOR_RESPONSE (set by addRequest), ERROR (only errors so far) or RESPONSE_RECEIVED
 *  - state ERROR  =>  err != KSI_OK (copied from a sub-handle in state ERROR) */
#define HA_RESP_REQUIRES \
__CPROVER_requires(has != NULL && respHndl != NULL && g_hareq != NULL && g_user != NULL && g_user != respHndl) \
__CPROVER_requires(respHndl->userCtx == (void *)g_hareq && g_hareq->asyncHandle == g_user) \
__CPROVER_requires(g_hareq->expectedRespCount >= 1) \
__CPROVER_requires(g_user->state == KSI_ASYNC_STATE_WAITING_FOR_RESPONSE || g_user->state == KSI_ASYNC_STATE_ERROR || g_user->state == KSI_ASYNC_STATE_RESPONSE_RECEIVED) \
__CPROVER_requires(IMPLIES(g_user->state == KSI_ASYNC_STATE_ERROR, g_user->err != KSI_OK)) \
__CPROVER_requires(g_user->ref >= 1 && g_user->ref < 1000 && g_q_count == 0 && g_q_failed == 0 && g_hndl_new_calls == 0) \
__CPROVER_requires(IMPLIES(g_user->errMsg != NULL, g_user->errMsg->ref >= 2 && g_user->errMsg->ref < 1000)) \
__CPROVER_requires(IMPLIES(respHndl->errMsg != NULL, respHndl->errMsg->ref >= 1 && respHndl->errMsg->ref < 1000))

#define HA_RESP_ASSIGNS \
__CPROVER_assigns(g_hareq->expectedRespCount, __CPROVER_object_whole(g_user), respHndl->respCtx, respHndl->respCtx_free) \
__CPROVER_assigns(g_q_count, g_q_failed, __CPROVER_object_whole(g_q_item), __CPROVER_object_whole(g_q_state), g_hndl_new_calls, g_hndl_new_last, g_hndl_destroyed) \
__CPROVER_assigns(g_user->errMsg != NULL: g_user->errMsg->ref) \
__CPROVER_assigns(respHndl->errMsg != NULL: respHndl->errMsg->ref)

/* the notice queued at position k describes error (e, x) that came from endpoint `origin` and refers to the user handle */
#define HA_IS_NOTICE(k, e, x, origin) (g_q_item[k] != NULL && g_q_item[k] != g_user && g_q_item[k]->state == KSI_ASYNC_STATE_ERROR_NOTICE && \
		g_q_item[k]->err == (e) && g_q_item[k]->errExt == (x) && g_q_item[k]->parentId == (origin) && g_q_item[k]->userCtx == (void *)g_user)

/* ---- a sub-service delivered a VALID response for the request ----------------------------------------------- */
static int handleReqResponse(KSI_HighAvailabilityService *has, KSI_AsyncHandle *respHndl)
HA_RESP_REQUIRES
/* the outstanding count goes down by exactly one, whatever happens */
__CPROVER_ensures(g_hareq->expectedRespCount == __CPROVER_old(g_hareq->expectedRespCount) - 1)
/* failure only when the error notice could not be allocated; then nothing was queued and the request is still open */
__CPROVER_ensures(IMPLIES(__CPROVER_return_value != KSI_OK, __CPROVER_return_value == KSI_OUT_OF_MEMORY &&
		__CPROVER_old(g_user->state) == KSI_ASYNC_STATE_ERROR && g_q_count == 0 && g_user->state == KSI_ASYNC_STATE_ERROR &&
		g_user->err == __CPROVER_old(g_user->err) && respHndl->respCtx == __CPROVER_old(respHndl->respCtx)))
/* already completed: the later response is discarded - user handle untouched, nothing queued, the response stays with the sub-handle */
__CPROVER_ensures(IMPLIES(__CPROVER_old(g_user->state) == KSI_ASYNC_STATE_RESPONSE_RECEIVED,
		__CPROVER_return_value == KSI_OK && g_q_count == 0 && g_hndl_new_calls == 0 &&
		g_user->state == KSI_ASYNC_STATE_RESPONSE_RECEIVED && g_user->respCtx == __CPROVER_old(g_user->respCtx) &&
		g_user->respCtx_free == __CPROVER_old(g_user->respCtx_free) && g_user->ref == __CPROVER_old(g_user->ref) &&
		g_user->err == __CPROVER_old(g_user->err) && g_user->parentId == __CPROVER_old(g_user->parentId) &&
		respHndl->respCtx == __CPROVER_old(respHndl->respCtx) && respHndl->respCtx_free == __CPROVER_old(respHndl->respCtx_free)))
/* first valid response: the user handle takes the response over and is queued exactly once */
__CPROVER_ensures(IMPLIES(__CPROVER_old(g_user->state) != KSI_ASYNC_STATE_RESPONSE_RECEIVED && __CPROVER_return_value == KSI_OK,
		g_user->state == KSI_ASYNC_STATE_RESPONSE_RECEIVED &&
		g_user->respCtx == __CPROVER_old(respHndl->respCtx) && g_user->respCtx_free == __CPROVER_old(respHndl->respCtx_free) &&
		respHndl->respCtx == NULL && respHndl->respCtx_free == NULL && g_user->parentId == respHndl->parentId &&
		g_q_count >= 1 && g_q_item[g_q_count - 1] == g_user && g_q_state[g_q_count - 1] == KSI_ASYNC_STATE_RESPONSE_RECEIVED))
__CPROVER_ensures(IMPLIES(__CPROVER_old(g_user->state) == KSI_ASYNC_STATE_WAITING_FOR_RESPONSE && __CPROVER_return_value == KSI_OK,
		g_q_count == 1 && g_hndl_new_calls == 0 && g_user->ref == __CPROVER_old(g_user->ref) + 1 && g_user->err == __CPROVER_old(g_user->err)))
/* only errors so far: the stored error surfaces as a separate notice (queued first), then the handle completes with the response */
__CPROVER_ensures(IMPLIES(__CPROVER_old(g_user->state) == KSI_ASYNC_STATE_ERROR && __CPROVER_return_value == KSI_OK,
		g_q_count == 2 && g_hndl_new_calls == 1 && g_user->ref == __CPROVER_old(g_user->ref) + 2 && g_user->errMsg == NULL && g_user->err == KSI_OK && g_user->errExt == 0 &&
		HA_IS_NOTICE(0, __CPROVER_old(g_user->err), __CPROVER_old(g_user->errExt), __CPROVER_old(g_user->parentId))))
HA_RESP_ASSIGNS;

/* ---- a sub-service delivered an ERROR for the request --------------------------------------------------------- */
static int handleErrorResponse(KSI_HighAvailabilityService *has, KSI_AsyncHandle *respHndl)
HA_RESP_REQUIRES
__CPROVER_requires(respHndl->state == KSI_ASYNC_STATE_ERROR && respHndl->err != KSI_OK)
__CPROVER_ensures(g_hareq->expectedRespCount == __CPROVER_old(g_hareq->expectedRespCount) - 1)
/* failure only when a notice could not be allocated: nothing queued, user handle as before */
__CPROVER_ensures(IMPLIES(__CPROVER_return_value != KSI_OK, __CPROVER_return_value == KSI_OUT_OF_MEMORY &&
		__CPROVER_old(g_user->state) != KSI_ASYNC_STATE_WAITING_FOR_RESPONSE && g_q_count == 0 &&
		g_user->state == __CPROVER_old(g_user->state) && g_user->err == __CPROVER_old(g_user->err)))
/* first outcome is an error: it is stored in the user handle (no notice) */
__CPROVER_ensures(IMPLIES(__CPROVER_old(g_user->state) == KSI_ASYNC_STATE_WAITING_FOR_RESPONSE,
		__CPROVER_return_value == KSI_OK && g_hndl_new_calls == 0 && g_user->state == KSI_ASYNC_STATE_ERROR &&
		g_user->err == respHndl->err && g_user->errExt == respHndl->errExt && g_user->errMsg == respHndl->errMsg &&
		g_user->parentId == respHndl->parentId))
/* an error is already stored: the first error stays, the new one surfaces only as a notice */
__CPROVER_ensures(IMPLIES(__CPROVER_old(g_user->state) == KSI_ASYNC_STATE_ERROR && __CPROVER_return_value == KSI_OK,
		g_hndl_new_calls == 1 && g_user->state == KSI_ASYNC_STATE_ERROR && g_user->err == __CPROVER_old(g_user->err) &&
		g_user->errExt == __CPROVER_old(g_user->errExt) && g_user->errMsg == __CPROVER_old(g_user->errMsg) &&
		HA_IS_NOTICE(0, respHndl->err, respHndl->errExt, respHndl->parentId)))
/* completed with an error exactly when every endpoint has answered and none of them succeeded */
__CPROVER_ensures(IMPLIES(__CPROVER_old(g_user->state) != KSI_ASYNC_STATE_RESPONSE_RECEIVED && __CPROVER_return_value == KSI_OK,
		IFF(g_q_count >= 1 && g_q_item[g_q_count - 1] == g_user, g_hareq->expectedRespCount == 0) &&
		g_q_count == (__CPROVER_old(g_user->state) == KSI_ASYNC_STATE_ERROR ? 1 : 0) + (g_hareq->expectedRespCount == 0 ? 1 : 0) &&
		g_user->ref == __CPROVER_old(g_user->ref) + (__CPROVER_old(g_user->state) == KSI_ASYNC_STATE_ERROR ? 1 : 0) + (g_hareq->expectedRespCount == 0 ? 1 : 0) &&
		IMPLIES(g_hareq->expectedRespCount == 0, g_q_state[g_q_count - 1] == KSI_ASYNC_STATE_ERROR)))
/* the request already completed with a response: the error surfaces only as a notice, the user handle is untouched */
__CPROVER_ensures(IMPLIES(__CPROVER_old(g_user->state) == KSI_ASYNC_STATE_RESPONSE_RECEIVED && __CPROVER_return_value == KSI_OK,
		g_q_count == 1 && g_hndl_new_calls == 1 && HA_IS_NOTICE(0, respHndl->err, respHndl->errExt, respHndl->parentId) &&
		g_user->state == KSI_ASYNC_STATE_RESPONSE_RECEIVED && g_user->respCtx == __CPROVER_old(g_user->respCtx) &&
		g_user->err == __CPROVER_old(g_user->err) && g_user->ref == __CPROVER_old(g_user->ref) + 1))
HA_RESP_ASSIGNS;

#endif
