/* Recording contract for the static addRequest() of net_async.c, used with --replace-call-with-contract in
 * C13.async_add_wrappers (asyncClient_addAggregatorRequest / asyncClient_addExtenderRequest).  ASSUMED here; the real body of
 * addRequest is checked in plain mode by C13.add_request_n2..n5 (with stub call-backs of exactly these 11 roles). */
struct aw_ghost {
	int calls; int res;
	KSI_AsyncClient *c; KSI_AsyncHandle *handle; void *req; _Bool hasRequest, hasConfig;
	int (*req_new)(KSI_CTX *ctx, void **req);
	void (*req_free)(void *req);
	int (*req_getRequestId)(const void *req, KSI_Integer **requestId);
	int (*req_setRequestId)(void *req, KSI_Integer *requestId);
	int (*req_getConfig)(const void *req, KSI_Config **config);
	int (*req_setConfig)(void *req, KSI_Config *config);
	void *(*req_ref)(void *req);
	int (*req_encloseWithHeader)(void *req, KSI_Header *hdr, const char *key, void **pdu);
	int (*pdu_serialize)(const void *pdu, unsigned char **raw, size_t *len);
	void (*pdu_free)(void *pdu);
	int (*asyncHandle_new)(KSI_CTX *ctx, void *req, KSI_AsyncHandle **handle);
} g_aw;

static int addRequest(KSI_AsyncClient *c, KSI_AsyncHandle *handle, void *req,
			bool hasRequest, bool hasConfig,
			int (*req_new)(KSI_CTX *ctx, void **req),
			void (*req_free)(void *req),
			int (*req_getRequestId)(const void *req, KSI_Integer **requestId),
			int (*req_setRequestId)(void *req, KSI_Integer *requestId),
			int (*req_getConfig)(const void *req, KSI_Config **config),
			int (*req_setConfig)(void *req, KSI_Config *config),
			void* (*req_ref)(void *req),
			int (*req_encloseWithHeader)(void *req, KSI_Header *hdr, const char *key, void **pdu),
			int (*pdu_serialize)(const void *pdu, unsigned char **raw, size_t *len),
			void (*pdu_free)(void *pdu),
			int (*asyncHandle_new)(KSI_CTX *ctx, void *req, KSI_AsyncHandle **handle))
__CPROVER_ensures(g_aw.calls == __CPROVER_old(g_aw.calls) + 1 && g_aw.res == __CPROVER_return_value)
__CPROVER_ensures(g_aw.c == c && g_aw.handle == handle && g_aw.req == req && g_aw.hasRequest == hasRequest && g_aw.hasConfig == hasConfig)
__CPROVER_ensures(g_aw.req_new == req_new && g_aw.req_free == req_free && g_aw.req_getRequestId == req_getRequestId && g_aw.req_setRequestId == req_setRequestId &&
		g_aw.req_getConfig == req_getConfig && g_aw.req_setConfig == req_setConfig && g_aw.req_ref == req_ref && g_aw.req_encloseWithHeader == req_encloseWithHeader &&
		g_aw.pdu_serialize == pdu_serialize && g_aw.pdu_free == pdu_free && g_aw.asyncHandle_new == asyncHandle_new)
__CPROVER_assigns(g_aw);
