/* Contract for fast_tlv.c:readData (engine of KSI_FTLV_fileRead / KSI_FTLV_socketRead), against the ghost stream of
 * env/ghost_tlvreader.h.  C09: stream readers consume exactly one element's bytes.  Also C12/C14. */
#ifndef CONTRACTS_FAST_TLV_READDATA_H
#define CONTRACTS_FAST_TLV_READDATA_H
#include "spec/tlv.h"

int readData(void *fd, unsigned char *buf, size_t len, size_t *consumed, struct fast_tlv_s *t, int (*read_fn)(void *, unsigned char *, size_t, size_t *))
__CPROVER_requires(fd != NULL && fd == g_rd_fd)
__CPROVER_requires(__CPROVER_is_fresh(buf, len) && buf == g_rd_buf && len == g_rd_buf_len)
__CPROVER_requires(consumed == NULL || __CPROVER_is_fresh(consumed, sizeof(*consumed)))
__CPROVER_requires(__CPROVER_is_fresh(t, sizeof(*t)))
__CPROVER_requires(read_fn == tlvreader_stub)
__CPROVER_requires(g_rd_calls == 0 && g_rd_requested == 0 && g_rd_total == 0 && !g_rd_closed)
/* *consumed is, on EVERY path, exactly the number of octets taken from the stream */
__CPROVER_ensures(IMPLIES(consumed != NULL, *consumed == g_rd_total))
__CPROVER_ensures(g_rd_total <= g_rd_requested && g_rd_requested <= len)
/* success: exactly one element was taken from the stream - header and declared payload, not an octet more was even
 * requested -, it lies at the start of buf, and t reports exactly the header that arrived */
__CPROVER_ensures(IMPLIES(__CPROVER_return_value == KSI_OK,
		spec_tlv_elem_complete(buf, len) &&
		g_rd_total == spec_tlv_elem_size(buf, len) && g_rd_requested == g_rd_total &&
		t->tag == spec_tlv_dec_tag(buf, len) && t->is_nc == spec_tlv_dec_nc(buf, len) && t->is_fwd == spec_tlv_dec_fwd(buf, len) &&
		t->hdr_len == spec_tlv_dec_hdr_len(buf, len) && t->dat_len == spec_tlv_dec_dat_len(buf, len)))
/* a buffer that cannot hold the element is refused before any payload octet is requested */
__CPROVER_ensures(IMPLIES(__CPROVER_return_value == KSI_BUFFER_OVERFLOW,
		g_rd_total == g_rd_requested && (g_rd_total == 2 || g_rd_total == 4) &&
		g_rd_total <= spec_tlv_hdr_need(buf[0]) &&
		(g_rd_total < spec_tlv_hdr_need(buf[0]) ? len < 4 : 1) &&
		(g_rd_total == spec_tlv_hdr_need(buf[0]) ? len < spec_tlv_elem_size(buf, g_rd_total) : 1)))
__CPROVER_ensures(IMPLIES(len < 2, __CPROVER_return_value == KSI_INVALID_ARGUMENT && g_rd_calls == 0))
/* a short read is a format error, a reader error is passed on */
__CPROVER_ensures(IMPLIES(len >= 2 && g_rd_total < g_rd_requested, __CPROVER_return_value == KSI_INVALID_FORMAT || __CPROVER_return_value == KSI_IO_ERROR))
__CPROVER_ensures(__CPROVER_return_value == KSI_OK || __CPROVER_return_value == KSI_INVALID_ARGUMENT || __CPROVER_return_value == KSI_INVALID_FORMAT ||
		__CPROVER_return_value == KSI_BUFFER_OVERFLOW || __CPROVER_return_value == KSI_IO_ERROR)
__CPROVER_assigns(__CPROVER_object_whole(buf); consumed != NULL: *consumed; t->tag, t->is_nc, t->is_fwd, t->hdr_len, t->dat_len;
		g_rd_calls, g_rd_requested, g_rd_total, g_rd_closed, __CPROVER_object_whole(g_rd_hdr));
#endif
