/* Contracts of the publication lookups of publicationsfile.c (C18: "lookup returns the publication with the given
 * time, the earliest publication not before a time, the latest publication (among those not before a time, when one
 * is given) ... in agreement with a reference scan").  Ghost model list + reference scan: env/c18_publist.h.
 * g18l_ref is the state of the reference scan over exactly the elements handed out. */

#define G18L_WIRED (g18l_rec[0].publishedData == &g18l_pd[0] && g18l_rec[1].publishedData == &g18l_pd[1] && g18l_rec[2].publishedData == &g18l_pd[2] && \
	g18l_pd[0].time == &g18l_tm[0] && g18l_pd[1].time == &g18l_tm[1] && g18l_pd[2].time == &g18l_tm[2])
#define G18L_START(mode) (g18l_mode == (mode) && g18l_calls == 0 && !g18l_ref.has && g18l_best == -1 && g18l_alt == -1 && g18l_match_calls == 0 && G18L_WIRED)
/* the record returned is the reference-best element or an element tied with it, and carries the reference time */
#define G18L_IS_BEST(p) (((p) == &g18l_rec[g18l_best] || (p) == &g18l_rec[g18l_alt]) && (p)->publishedData->time->value == g18l_ref.best)

/* postconditions as macros: used by the ensures clauses below and, for the two lookups that are checked by bounded
 * unwinding (see obligations/C18/NOTES.md), by the harness assertions */
#define NEAREST_POST(ret, out) ((ret) == KSI_OK && g18l_calls == g18l_len && IFF((out) == NULL, !g18l_ref.has) && IMPLIES((out) != NULL, G18L_IS_BEST(out) && (out)->ref == 2))
#define LATEST_POST(ret, out)  ((ret) == KSI_OK && g18l_calls == g18l_len && IFF((out) == NULL, !g18l_ref.has) && IMPLIES((out) != NULL, G18L_IS_BEST(out) && (out)->ref == 1))

int KSI_PublicationsFile_getNearestPublication(const KSI_PublicationsFile *trust, const KSI_Integer *pubTime, KSI_PublicationRecord **pubRec)
__CPROVER_requires(trust != NULL && trust->publications == &g18l_list && pubTime != NULL && pubTime->value == g18l_t && g18l_have_t)
__CPROVER_requires(__CPROVER_is_fresh(pubRec, sizeof(*pubRec)) && G18L_START(0))
__CPROVER_requires(g18l_rec[0].ref == 1 && g18l_rec[1].ref == 1 && g18l_rec[2].ref == 1)
/* none not before t  <=>  NULL;  otherwise a record with the EARLIEST time >= t, returned with one more reference */
__CPROVER_ensures(NEAREST_POST(__CPROVER_return_value, *pubRec))
__CPROVER_assigns(*pubRec, g18l_calls, g18l_ref, g18l_best, g18l_alt, g18l_match_calls, __CPROVER_object_whole(g18l_tm), g18l_rec[0].ref, g18l_rec[1].ref, g18l_rec[2].ref);

int KSI_PublicationsFile_getLatestPublication(const KSI_PublicationsFile *trust, const KSI_Integer *pubTime, KSI_PublicationRecord **pubRec)
__CPROVER_requires(trust != NULL && trust->publications == &g18l_list && IFF(pubTime != NULL, g18l_have_t) && IMPLIES(pubTime != NULL, pubTime->value == g18l_t))
__CPROVER_requires(__CPROVER_is_fresh(pubRec, sizeof(*pubRec)) && G18L_START(1))
__CPROVER_requires(g18l_rec[0].ref == 1 && g18l_rec[1].ref == 1 && g18l_rec[2].ref == 1)
/* no candidate <=> NULL; otherwise a record with the LATEST time (among those >= t when a time is given); borrowed pointer */
__CPROVER_ensures(LATEST_POST(__CPROVER_return_value, *pubRec))
__CPROVER_assigns(*pubRec, g18l_calls, g18l_ref, g18l_best, g18l_alt, g18l_match_calls, __CPROVER_object_whole(g18l_tm));

int KSI_PublicationsFile_getPublicationDataByTime(const KSI_PublicationsFile *trust, const KSI_Integer *pubTime, KSI_PublicationRecord **pubRec)
__CPROVER_requires(trust != NULL && trust->publications == &g18l_list && pubTime != NULL && pubTime->value == g18l_t && g18l_have_t)
__CPROVER_requires(__CPROVER_is_fresh(pubRec, sizeof(*pubRec)) && G18L_START(2))
__CPROVER_ensures(__CPROVER_return_value == KSI_OK)
/* no record with time t in the whole list <=> NULL; otherwise the first record with that time (the scan stops there) */
__CPROVER_ensures(IFF(*pubRec == NULL, !g18l_ref.has))
__CPROVER_ensures(IMPLIES(*pubRec == NULL, g18l_calls == g18l_len))
__CPROVER_ensures(IMPLIES(*pubRec != NULL, *pubRec == &g18l_rec[g18l_best] && (*pubRec)->publishedData->time->value == g18l_t && g18l_calls == g18l_match_calls))
__CPROVER_assigns(*pubRec, g18l_calls, g18l_ref, g18l_best, g18l_alt, g18l_match_calls, __CPROVER_object_whole(g18l_tm));

