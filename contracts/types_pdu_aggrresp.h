/* Contract of KSI_AggregationResp_verifyWithRequest (types.c:2287), C07: the reply must carry the request's own id.
 *   OK <=> response and request present ∧ both ids present ∧ equal value.      (declared after types.c) */
#pragma CPROVER check push
#pragma CPROVER check disable "pointer"
#pragma CPROVER check disable "pointer-primitive"
int KSI_AggregationResp_verifyWithRequest(const KSI_AggregationResp *resp, const KSI_AggregationReq *req)
__CPROVER_ensures(IFF(__CPROVER_return_value == KSI_OK,
		resp != NULL && req != NULL && resp->requestId != NULL && req->requestId != NULL &&
		resp->requestId->value == req->requestId->value))
__CPROVER_ensures(IMPLIES(resp == NULL || req == NULL, __CPROVER_return_value == KSI_INVALID_ARGUMENT))
__CPROVER_ensures(IMPLIES(resp != NULL && req != NULL && __CPROVER_return_value != KSI_OK, __CPROVER_return_value == KSI_REQUEST_ID_MISMATCH))
__CPROVER_assigns();
#pragma CPROVER check pop
