/* C05 (builderV, "lift"): the STOP direction of the list semantics of Rule_verify (policy.c) for every list width <= 15 and every
 * nesting depth - "a list evaluation ends only for a documented reason":
 *   the last element evaluated is followed by the sentinel, or it FAILed / ended with an error status, or it is an OR element that said OK,
 *   or it is a BASIC / AND element that said NA.
 * (The CONTINUE direction - the next element is evaluated only after the documented outcome; no rule after a FAIL or an error; the
 * reported result is that of the last rule evaluated - is contracts/policy_rules.h, job C05.rule_verify; until now the stop direction
 * was decided only by the bounded job C05.exact.)
 *
 * How: one stub PER POSITION (env/ghost_rules_lift.h: stub k asserts that it is the k-th element evaluated, g_seq == k, and counts),
 * a composite element at position k points to the sub-list &g_sub[k]; the recursive call is replaced by this same contract
 * (--enforce-contract-rec), which for a sub-list records its position the same way (g_seq advances by one: argument recording of the
 * replacement).  The enforced call is the list g_tab (arbitrary contents, arbitrary outcomes of its elements); since its contents and
 * the outcomes of its elements are arbitrary, the clause holds for the evaluation of every list at every depth, given that the
 * evaluations of its composite elements satisfy the clauses of contracts/policy_rules.h (C05.rule_verify), which are repeated here
 * verbatim and enforced again. */
#define C05_W 15
KSI_Rule g_tab[C05_W + 1];
KSI_Rule g_sub[C05_W + 1];

#define C05L_IS_SUB(r) (__CPROVER_same_object((r), g_sub) && (unsigned long)(r) - (unsigned long)g_sub <= 224ul && ((unsigned long)(r) - (unsigned long)g_sub) % 16ul == 0)
#define C05L_SUBIDX(r) (((unsigned long)(r) - (unsigned long)g_sub) / 16ul)
#define C05L_CODE (policyResult->finalResult.resultCode)

static int Rule_verify(const KSI_Rule *rule, KSI_VerificationContext *context, KSI_PolicyVerificationResult *policyResult)
/* the list under enforcement is g_tab (no element evaluated yet); a composite element at position k hands over &g_sub[k] when k elements have been evaluated */
__CPROVER_requires((rule == g_tab && g_seq == 0) || (C05L_IS_SUB(rule) && g_seq == C05L_SUBIDX(rule)))
__CPROVER_requires(rule->rule != (void *)0)
__CPROVER_requires(context == g_ctx_p && policyResult == g_pr_p && g_pr_p->finalResult.statusMessage == (char *)0)
__CPROVER_requires(!g_hard_stop)
/* ---- clauses of contracts/policy_rules.h (verbatim) ---- */
__CPROVER_ensures(g_evaluated && (g_last_code == KSI_VER_RES_OK || g_last_code == KSI_VER_RES_NA || g_last_code == KSI_VER_RES_FAIL))
__CPROVER_ensures(__CPROVER_return_value == g_last_res && policyResult->finalResult.resultCode == g_last_code &&
		policyResult->finalResult.errorCode == g_last_err && policyResult->resultCode == g_last_code)
__CPROVER_ensures(IMPLIES(g_hard_stop, __CPROVER_return_value != KSI_OK || policyResult->finalResult.resultCode == KSI_VER_RES_FAIL))
__CPROVER_ensures(policyResult->finalResult.statusMessage == (char *)0)
/* ---- a sub-list counts as ONE element of its parent ---- */
__CPROVER_ensures(IMPLIES(rule != g_tab, g_seq == __CPROVER_old(g_seq) + 1))
/* ---- the stop direction, for the list under enforcement: elements 0 .. g_seq-1 were evaluated, in order, each once (stub assertions);
 *      the evaluation ended behind element g_seq-1 only for a documented reason ---- */
__CPROVER_ensures(IMPLIES(rule == g_tab, 1 <= g_seq && g_seq <= C05_W))
__CPROVER_ensures(IMPLIES(rule == g_tab && __CPROVER_return_value == KSI_OK && C05L_CODE == KSI_VER_RES_OK,
	g_tab[g_seq - 1].type == KSI_RULE_TYPE_COMPOSITE_OR || g_tab[g_seq].rule == (void *)0))
__CPROVER_ensures(IMPLIES(rule == g_tab && __CPROVER_return_value == KSI_OK && C05L_CODE == KSI_VER_RES_NA,
	g_tab[g_seq - 1].type != KSI_RULE_TYPE_COMPOSITE_OR || g_tab[g_seq].rule == (void *)0))
/* ... and the converse (continue direction, seen from the end): an element that is not the last one was left behind only after the documented outcome -
 * this is the loop invariant; at the end it says that the element BEFORE the last evaluated one, if any, allowed the continuation (not observable here). */
__CPROVER_assigns(g_pr_p->finalResult, g_pr_p->resultCode, g_hard_stop, g_last_res, g_last_code, g_last_err, g_rule_calls, g_evaluated, g_added, g_seq);

/* bookkeeping of the per-rule result list: not part of the verdict; enforced separately (C05.addLatest) */
static int PolicyVerificationResult_addLatestRuleResult(KSI_PolicyVerificationResult *result)
__CPROVER_requires(result == g_pr_p)
__CPROVER_ensures(1)
__CPROVER_assigns(g_added);
