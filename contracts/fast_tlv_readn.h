/* Contract for fast_tlv.c: KSI_FTLV_memReadN (C09: the elements reported tile the consumed prefix exactly; C12).
 * "For every k" is expressed with a ghost WITNESS index g_ftlv_k: an arbitrary index fixed before the call
 * (FRAMEWORK.md pitfalls: quantifiers).  What holds for the arbitrary witness holds for every index. */
#ifndef CONTRACTS_FAST_TLV_READN_H
#define CONTRACTS_FAST_TLV_READN_H
#include "spec/tlv.h"

size_t g_ftlv_k;   /* witness index, never written */

#ifndef FTLV_MAX_ARR
#define FTLV_MAX_ARR 8   /* capacity of the output array in array mode (the buffer length, its contents and the number of elements in count mode are unbounded) */
#endif
#define FTLV_END(a, k) ((a)[k].off + (a)[k].hdr_len + (a)[k].dat_len)

int KSI_FTLV_memReadN(const unsigned char *buf, size_t buf_len, KSI_FTLV *arr, size_t arr_len, size_t *rd)
__CPROVER_requires(buf == NULL || __CPROVER_is_fresh(buf, buf_len))
__CPROVER_requires(arr_len <= FTLV_MAX_ARR)
__CPROVER_requires(arr == NULL || __CPROVER_is_fresh(arr, FTLV_MAX_ARR * sizeof(KSI_FTLV)))
__CPROVER_requires(rd == NULL || __CPROVER_is_fresh(rd, sizeof(*rd)))
__CPROVER_ensures(__CPROVER_return_value == KSI_OK || __CPROVER_return_value == KSI_INVALID_ARGUMENT || __CPROVER_return_value == KSI_INVALID_FORMAT)
__CPROVER_ensures(IFF(__CPROVER_return_value == KSI_INVALID_ARGUMENT,
		buf == NULL || buf_len == 0 || (arr != NULL && arr_len == 0) || (arr == NULL && arr_len != 0)))
/* number of elements: at least one, never more than the array holds */
__CPROVER_ensures(IMPLIES(__CPROVER_return_value == KSI_OK && rd != NULL, *rd >= 1 && (arr == NULL || *rd <= arr_len)))
__CPROVER_ensures(IMPLIES(__CPROVER_return_value != KSI_OK && rd != NULL, *rd == __CPROVER_old(*rd)))
#ifdef FTLV_READN_CONTENT
/* every reported element k: lies inside the buffer, is a complete element there, and reports exactly the header encoded at its offset */
__CPROVER_ensures(IMPLIES(__CPROVER_return_value == KSI_OK && rd != NULL && arr != NULL && g_ftlv_k < *rd,
		arr[g_ftlv_k].off <= buf_len && FTLV_END(arr, g_ftlv_k) <= buf_len &&
		spec_tlv_elem_complete(buf + arr[g_ftlv_k].off, buf_len - arr[g_ftlv_k].off) &&
		arr[g_ftlv_k].tag == spec_tlv_dec_tag(buf + arr[g_ftlv_k].off, buf_len - arr[g_ftlv_k].off) &&
		arr[g_ftlv_k].is_nc == spec_tlv_dec_nc(buf + arr[g_ftlv_k].off, buf_len - arr[g_ftlv_k].off) &&
		arr[g_ftlv_k].is_fwd == spec_tlv_dec_fwd(buf + arr[g_ftlv_k].off, buf_len - arr[g_ftlv_k].off) &&
		arr[g_ftlv_k].hdr_len == spec_tlv_dec_hdr_len(buf + arr[g_ftlv_k].off, buf_len - arr[g_ftlv_k].off) &&
		arr[g_ftlv_k].dat_len == spec_tlv_dec_dat_len(buf + arr[g_ftlv_k].off, buf_len - arr[g_ftlv_k].off)))
#endif
#ifdef FTLV_READN_TILING
/* tiling: the first element starts at 0, each next one starts where its predecessor ends ... */
__CPROVER_ensures(IMPLIES(__CPROVER_return_value == KSI_OK && rd != NULL && arr != NULL && g_ftlv_k == 0, arr[0].off == 0))
__CPROVER_ensures(IMPLIES(__CPROVER_return_value == KSI_OK && rd != NULL && arr != NULL && g_ftlv_k < *rd && g_ftlv_k + 1 < *rd,
		arr[g_ftlv_k + 1].off == FTLV_END(arr, g_ftlv_k)))
/* ... and unless the array was filled up, the last one ends exactly at the end of the buffer */
__CPROVER_ensures(IMPLIES(__CPROVER_return_value == KSI_OK && rd != NULL && arr != NULL && *rd < arr_len && g_ftlv_k + 1 == *rd,
		FTLV_END(arr, g_ftlv_k) == buf_len))
#endif
__CPROVER_assigns(rd != NULL: *rd; arr != NULL: __CPROVER_object_whole(arr));
#endif
