/* Contracts for the signature getters of the asynchronous handle (net_async.c): createSignature (C07),
 * createExtendedSignature (C08), KSI_AsyncHandle_getSignature (C07/C08 dispatch).
 * Ghost record and model objects: env/ghost_asyncdel_sig.h (g_as, g_as_*).  Declared before #include "net_async.c". */
#pragma CPROVER check push
#pragma CPROVER check disable "pointer"
#pragma CPROVER check disable "pointer-primitive"

#define AS_PRISTINE (g_as.open_calls == 0 && g_as.getlvl_calls == 0 && g_as.gethash_calls == 0 && g_as.getchain_calls == 0 && g_as.compat_calls == 0 && \
		g_as.apply_calls == 0 && g_as.close_calls == 0 && g_as.clone_calls == 0 && g_as.replace_calls == 0 && g_as.verify_calls == 0 && \
		g_as.builder_free == 0 && g_as.sig_free == 0 && g_as.pubclone_free == 0 && g_as.foreign_free == 0 && !g_as.source_touched && !g_as.verify_after_replace)
#define AS_STEP_OK(calls, res) (g_as.calls == 1 && g_as.res == KSI_OK)

/* ---- createSignature (net_async.c:364) -------------------------------------------------------------------------------
 * C07, async: "reports success only with a signature whose input hash and level are the requested ones, obtained from an
 * authenticated reply with status zero and the request's own id, and which passes internal verification against the
 * requested hash ... for every other server behaviour the call yields an error and no signature".
 * The authenticated status-zero reply with the request's own id is what handleResponse stored in h->respCtx when it moved
 * the handle to RESPONSE_RECEIVED (C13.handle_response_*, C06.async_queue_*).  Hence:
 *  S1  OK => the handle is an aggregation handle in state RESPONSE_RECEIVED and h->respCtx is that response
 *  S2  OK => builder opened from THAT response (status checked there: C07.builder_openFromAggrResp), closed with the level of
 *            the REQUEST (root level added: C07.builder_addRootLevel), the resulting signature verified with the internal policy
 *            against the hash of the REQUEST, level 0, and only then handed out
 *  S3  every other path: error and *sig untouched
 *  S4  steps in order, each at most once, each only after the previous succeeded; error codes handed on
 *  S5  builder released exactly once when it was opened, signature released iff made and not handed out; nothing else released
 *  frame: the handle is not modified (assigns clause). */
static int createSignature(const KSI_AsyncHandle *h, KSI_Signature **sig)
__CPROVER_requires(AS_PRISTINE)
/* S1 */
__CPROVER_ensures(IMPLIES(__CPROVER_return_value == KSI_OK, h != NULL && sig != NULL && h->aggrReq != NULL && h->respCtx == (void *)&g_as_aresp && h->state == KSI_ASYNC_STATE_RESPONSE_RECEIVED))
/* S2 (stated for the case S1 allows, so that a violation of S1 is reported once) */
__CPROVER_ensures(IMPLIES(__CPROVER_return_value == KSI_OK && h->respCtx == (void *)&g_as_aresp,
		AS_STEP_OK(open_calls, open_res) && !g_as.open_from_sig && g_as.open_from == (const void *)h->respCtx &&
		AS_STEP_OK(getlvl_calls, getlvl_res) && g_as.getlvl_req == (const void *)h->aggrReq &&
		AS_STEP_OK(close_calls, close_res) && g_as.close_builder == (const void *)&g_as_builder && g_as.close_noVerify == 1 &&
		g_as.close_level == (h->aggrReq->requestLevel != NULL ? h->aggrReq->requestLevel->value : 0) &&
		AS_STEP_OK(gethash_calls, gethash_res) && g_as.gethash_req == (const void *)h->aggrReq &&
		AS_STEP_OK(verify_calls, verify_res) && g_as.verify_sig == (const void *)&g_as_sig && g_as.verify_hash == (const void *)h->aggrReq->requestHash &&
		g_as.verify_level == 0 && g_as.verify_policy == (const void *)KSI_VERIFICATION_POLICY_INTERNAL && g_as.verify_ctx == NULL &&
		*sig == &g_as_sig && g_as.sig_free == 0))
/* S3 */
__CPROVER_ensures(IMPLIES(__CPROVER_return_value != KSI_OK && sig != NULL, *sig == __CPROVER_old(*sig)))
__CPROVER_ensures(IMPLIES(h != NULL && sig != NULL && (h->aggrReq == NULL || h->respCtx == NULL), __CPROVER_return_value == KSI_INVALID_STATE && g_as.open_calls == 0))
/* S4 */
__CPROVER_ensures(g_as.open_calls <= 1 && g_as.getlvl_calls <= 1 && g_as.close_calls <= 1 && g_as.gethash_calls <= 1 && g_as.verify_calls <= 1)
__CPROVER_ensures(IMPLIES(g_as.getlvl_calls > 0, AS_STEP_OK(open_calls, open_res)))
__CPROVER_ensures(IMPLIES(g_as.close_calls > 0, AS_STEP_OK(getlvl_calls, getlvl_res)))
__CPROVER_ensures(IMPLIES(g_as.gethash_calls > 0, AS_STEP_OK(close_calls, close_res)))
__CPROVER_ensures(IMPLIES(g_as.verify_calls > 0, AS_STEP_OK(gethash_calls, gethash_res)))
__CPROVER_ensures(IMPLIES(g_as.open_calls == 1 && g_as.open_res != KSI_OK, __CPROVER_return_value == g_as.open_res))
__CPROVER_ensures(IMPLIES(g_as.close_calls == 1 && g_as.close_res != KSI_OK, __CPROVER_return_value == g_as.close_res))
__CPROVER_ensures(IMPLIES(g_as.verify_calls == 1 && g_as.verify_res != KSI_OK, __CPROVER_return_value == g_as.verify_res))
__CPROVER_ensures(g_as.getchain_calls == 0 && g_as.apply_calls == 0 && g_as.replace_calls == 0 && g_as.clone_calls == 0)
/* S5 */
__CPROVER_ensures(g_as.foreign_free == 0 && g_as.pubclone_free == 0)
__CPROVER_ensures(g_as.builder_free == (AS_STEP_OK(open_calls, open_res) ? 1 : 0))
__CPROVER_ensures(g_as.sig_free == ((AS_STEP_OK(close_calls, close_res) && __CPROVER_return_value != KSI_OK) ? 1 : 0))
__CPROVER_assigns(*sig, g_as, g_as_builder);

/* ---- createExtendedSignature (net_async.c:426) -----------------------------------------------------------------------
 * C08, async: "Extending a signature succeeds only if the extender's authenticated reply has status zero, the request's id,
 * the requested aggregation and publication times, a calendar chain whose shape is consistent with those times [handleResponse
 * -> KSI_ExtendResp_verifyWithRequest: C08.ext_verifyWithRequest], whose input hash equals the signature's aggregation root and
 * whose right links agree with the signature's previous calendar chain [KSI_CalendarHashChain_verifyCompatibilityTo: C08.compat_*;
 * the synchronous path calls it at signature.c:756].  The result ... carries the new calendar chain and the supplied publication
 * record ... and verifies; in every other case an error is returned and the original signature is left untouched."
 *  X1  OK => extending handle in state RESPONSE_RECEIVED with its own source signature, h->respCtx is the extender response
 *  X2  OK => chain taken from THAT response; builder opened from h->signature (clone); chain applied to that builder; closed at level 0
 *            without re-verification; the handle's publication record (if any) cloned and set on the RESULT; the result verified with
 *            the internal policy AFTER the publication record was set; only then handed out
 *  X2c OK and the source signature has a calendar chain => the new chain was checked for compatibility with it (right links / input hash)
 *  X3  every other path: error, *sig untouched;   X6: the source signature and the handle's publication record are never modified/released
 *  X4  order / error codes;   X5 ownership (clone of the publication record released iff made and not consumed). */
static int createExtendedSignature(const KSI_AsyncHandle *h, KSI_Signature **sig)
__CPROVER_requires(AS_PRISTINE)
/* X1 */
__CPROVER_ensures(IMPLIES(__CPROVER_return_value == KSI_OK, h != NULL && sig != NULL && h->extReq != NULL && h->signature == &g_as_source &&
		h->respCtx == (void *)&g_as_eresp && h->state == KSI_ASYNC_STATE_RESPONSE_RECEIVED))
/* X2 (stated for the case X1 allows, so that a violation of X1 is reported once) */
__CPROVER_ensures(IMPLIES(__CPROVER_return_value == KSI_OK && h->respCtx == (void *)&g_as_eresp,
		AS_STEP_OK(getchain_calls, getchain_res) && g_as.getchain_resp == (const void *)h->respCtx &&
		AS_STEP_OK(open_calls, open_res) && g_as.open_from_sig && g_as.open_from == (const void *)h->signature &&
		AS_STEP_OK(apply_calls, apply_res) && g_as.apply_builder == (const void *)&g_as_builder && g_as.apply_chain == (const void *)g_as_eresp.calendarHashChain &&
		AS_STEP_OK(close_calls, close_res) && g_as.close_builder == (const void *)&g_as_builder && g_as.close_level == 0 && g_as.close_noVerify == 1 &&
		(h->pubRec != NULL ? (AS_STEP_OK(clone_calls, clone_res) && g_as.clone_from == (const void *)h->pubRec &&
		                     AS_STEP_OK(replace_calls, replace_res) && g_as.replace_sig == (const void *)&g_as_sig && g_as.replace_rec == (const void *)&g_as_pubclone && g_as.verify_after_replace)
		                  : (g_as.clone_calls == 0 && g_as.replace_calls == 0)) &&
		AS_STEP_OK(verify_calls, verify_res) && g_as.verify_sig == (const void *)&g_as_sig && g_as.verify_hash == NULL && g_as.verify_level == 0 &&
		g_as.verify_policy == (const void *)KSI_VERIFICATION_POLICY_INTERNAL && g_as.verify_ctx == NULL &&
		*sig == &g_as_sig && g_as.sig_free == 0))
/* X2c */
__CPROVER_ensures(IMPLIES(__CPROVER_return_value == KSI_OK && h->respCtx == (void *)&g_as_eresp && g_as_source.calendarChain != NULL,
		AS_STEP_OK(compat_calls, compat_res) && g_as.compat_a == (const void *)g_as_source.calendarChain && g_as.compat_b == (const void *)g_as_eresp.calendarHashChain))
/* X3, X6 */
__CPROVER_ensures(IMPLIES(__CPROVER_return_value != KSI_OK && sig != NULL, *sig == __CPROVER_old(*sig)))
__CPROVER_ensures(IMPLIES(h != NULL && sig != NULL && (h->extReq == NULL || h->signature == NULL || h->respCtx == NULL), __CPROVER_return_value == KSI_INVALID_STATE && g_as.open_calls == 0 && g_as.getchain_calls == 0))
__CPROVER_ensures(!g_as.source_touched)
/* X4 */
__CPROVER_ensures(g_as.getchain_calls <= 1 && g_as.open_calls <= 1 && g_as.apply_calls <= 1 && g_as.close_calls <= 1 && g_as.clone_calls <= 1 && g_as.replace_calls <= 1 && g_as.verify_calls <= 1)
__CPROVER_ensures(IMPLIES(g_as.open_calls > 0, AS_STEP_OK(getchain_calls, getchain_res)))
__CPROVER_ensures(IMPLIES(g_as.apply_calls > 0, AS_STEP_OK(open_calls, open_res)))
__CPROVER_ensures(IMPLIES(g_as.close_calls > 0, AS_STEP_OK(apply_calls, apply_res)))
__CPROVER_ensures(IMPLIES(g_as.clone_calls > 0, AS_STEP_OK(close_calls, close_res) && h->pubRec != NULL))
__CPROVER_ensures(IMPLIES(g_as.replace_calls > 0, AS_STEP_OK(clone_calls, clone_res)))
__CPROVER_ensures(IMPLIES(g_as.verify_calls > 0, AS_STEP_OK(close_calls, close_res) && (h->pubRec == NULL || AS_STEP_OK(replace_calls, replace_res))))
__CPROVER_ensures(IMPLIES(g_as.apply_calls == 1 && g_as.apply_res != KSI_OK, __CPROVER_return_value == g_as.apply_res))
__CPROVER_ensures(IMPLIES(g_as.verify_calls == 1 && g_as.verify_res != KSI_OK, __CPROVER_return_value == g_as.verify_res))
__CPROVER_ensures(g_as.getlvl_calls == 0 && g_as.gethash_calls == 0)
/* X5 */
__CPROVER_ensures(g_as.foreign_free == 0)
__CPROVER_ensures(g_as.builder_free == (AS_STEP_OK(open_calls, open_res) ? 1 : 0))
__CPROVER_ensures(g_as.sig_free == ((AS_STEP_OK(close_calls, close_res) && __CPROVER_return_value != KSI_OK) ? 1 : 0))
__CPROVER_ensures(g_as.pubclone_free == ((AS_STEP_OK(clone_calls, clone_res) && !AS_STEP_OK(replace_calls, replace_res)) ? 1 : 0))
__CPROVER_assigns(*sig, g_as, g_as_builder);

#pragma CPROVER check pop
