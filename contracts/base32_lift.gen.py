#!/usr/bin/env python3
"""Generates contracts/base32_lift.loops.json (loop contracts of KSI_base32Encode in carry form, C17 lift).

   State of both loops: bits_read (B), ret_len (R).  With G = group_len (a compile-time constant per job):
     q = R / (G+1)   groups completed (each followed by its separator)
     r = R % (G+1)   characters in the current group        (the ONLY division: by the constant G+1, the one the code does itself)
     s = G*q + r     symbols (data or padding) emitted       (G == 0: s = R)
   Invariant: B == 5*s; r < G unless the padded sequence is complete (B == 40*g_l_c), and then r >= 1 (no trailing separator);
   the witness character (output index g_l_j, chosen up front) is the reference character once it has been written.
   Nothing is divided by 5, 8 or 40 and nothing by a symbolic number."""
import json, os

Q = "(ret_len / (group_len + 1))"
R = "(ret_len % (group_len + 1))"
S = "(group_len > 0 ? group_len * %s + %s : ret_len)" % (Q, R)
END = "(40 * g_l_c)"

common = [
    "bits_read == 5 * %s" % S,
    "bits_read <= %s" % END,
    "(group_len == 0 || (bits_read == %s ? %s >= 1 : %s < group_len))" % (END, R, R),
    "ret_len < buf_len",
    "(g_l_j >= ret_len || tmp[g_l_j] == g_l_exp)",
]
loop0 = ["bits_read < data_len * 8 + 5"] + common
loop1 = ["bits_read >= data_len * 8"] + common

symmap = ";".join("%s,KSI_base32Encode::1::%s" % (v, v) for v in ["tmp", "next_bits", "bits_read", "buf_len", "ret_len", "res"]) + ";" + \
         ";".join("%s,KSI_base32Encode::%s" % (v, v) for v in ["data", "data_len", "group_len", "encoded"])

doc = {"sources": ["base32.c"], "functions": [{"KSI_base32Encode": [
    {"loop_id": "0", "assigns": "bits_read, next_bits, ret_len, __CPROVER_object_whole(tmp)",
     "invariants": " && ".join(loop0), "decreases": "data_len * 8 + 5 - bits_read", "symbol_map": symmap},
    {"loop_id": "1", "assigns": "bits_read, ret_len, __CPROVER_object_whole(tmp)",
     "invariants": " && ".join(loop1), "decreases": "%s - bits_read" % END, "symbol_map": symmap},
]}]}
out = os.path.join(os.path.dirname(os.path.abspath(__file__)), "base32_lift.loops.json")
json.dump(doc, open(out, "w"), indent=1)
print(out)
