/* Contracts for publicationsfile.c KSI_PublicationData_fromBase32 / KSI_PublicationData_toBase32 (C17) over the ghost
 * environment env/ghost_pubstr.h.  n = decoded length, L = digest length of the algorithm in byte 8. */
#include "spec/hashalg.h"

#define PS_LEN_OK   (g_ps_n == 8 + 1 + (size_t)spec_hashalg_len(g_ps_algo) + 4)
#define PS_ALL_OK   (g_ps_decode_res == KSI_OK && g_ps_n >= 13 && g_ps_crc == g_ps_trailer && spec_hashalg_len(g_ps_algo) > 0 && PS_LEN_OK)

int KSI_PublicationData_fromBase32(KSI_CTX *ctx, const char *publication, KSI_PublicationData **published_data)
__CPROVER_requires(ctx != NULL && publication != NULL && publication == g_ps_str && published_data != NULL)
__CPROVER_requires(g_pe_mode == 0 && g_ps_decode_calls == 0 && g_ps_crc_calls == 0 && g_ps_imp_calls == 0 && g_ps_hash_live == 0 && g_ps_buf == NULL && g_ps_int_live == 0 && g_ps_int_calls == 0)
__CPROVER_assigns(*published_data, g_ps_buf, g_ps_n, g_ps_decode_calls, g_ps_decode_res, g_ps_time, g_ps_algo, g_ps_trailer, g_ps_crc_calls,
		g_ps_imp_calls, g_ps_imp_res, g_ps_imp_len, g_ps_hash_live, g_ps_int, g_ps_int_live, g_ps_int_calls, g_ps_int_res)
/* success => the decoded bytes are time(8) | algorithm(1) | digest(L) | crc(4) of a known algorithm, the CRC over the first n-4
 * bytes equals the trailer, and the result carries exactly that time and the hash made from bytes 8..n-5 */
__CPROVER_ensures(IMPLIES(__CPROVER_return_value == KSI_OK,
		g_ps_decode_calls == 1 && PS_ALL_OK && g_ps_crc_calls == 1 && g_ps_imp_calls == 1 && g_ps_imp_res == KSI_OK &&
		g_ps_imp_len == 1 + (size_t)spec_hashalg_len(g_ps_algo) && g_ps_hash_live == 1 &&
		*published_data != NULL && (*published_data)->ctx == ctx && (*published_data)->ref == 1 && (*published_data)->baseTlv == NULL &&
		(*published_data)->imprint == &g_ps_hash && (*published_data)->time == &g_ps_int && g_ps_int_live == 1 && g_ps_int.value == g_ps_time))
/* failure => output untouched, model hash not leaked, and the status names the reason */
__CPROVER_ensures(IMPLIES(__CPROVER_return_value != KSI_OK, *published_data == __CPROVER_old(*published_data) && g_ps_hash_live == 0 && g_ps_int_live == 0))
__CPROVER_ensures(IMPLIES(__CPROVER_return_value == KSI_INVALID_FORMAT,
		g_ps_decode_res == KSI_INVALID_FORMAT || (g_ps_decode_res == KSI_OK && (g_ps_n < 13 || g_ps_crc != g_ps_trailer || !PS_LEN_OK || g_ps_imp_res == KSI_INVALID_FORMAT))))
__CPROVER_ensures(IMPLIES(__CPROVER_return_value == KSI_UNAVAILABLE_HASH_ALGORITHM,
		g_ps_decode_res == KSI_OK && g_ps_n >= 13 && g_ps_crc == g_ps_trailer && spec_hashalg_len(g_ps_algo) == 0))
/* wrong length / checksum / algorithm is never accepted - and nothing but these (and failing callees / allocation) is refused */
__CPROVER_ensures(IMPLIES(!PS_ALL_OK, __CPROVER_return_value != KSI_OK))
__CPROVER_ensures(IMPLIES(g_ps_no_alloc_failure && PS_ALL_OK && (g_ps_imp_calls == 0 || g_ps_imp_res == KSI_OK) && (g_ps_int_calls == 0 || g_ps_int_res == KSI_OK), __CPROVER_return_value == KSI_OK))
/* the CRC / imprint are never looked at when the string is too short */
__CPROVER_ensures(IMPLIES(g_ps_decode_res != KSI_OK || g_ps_n < 13, g_ps_crc_calls == 0 && g_ps_imp_calls == 0));

int KSI_PublicationData_toBase32(const KSI_PublicationData *pubData, char **pubStr)
__CPROVER_requires(pubData != NULL && pubStr != NULL && pubData->imprint == g_pe_hash && g_pe_mode == 1)
__CPROVER_requires(g_pe_time == (pubData->time != NULL ? pubData->time->value : 0))
__CPROVER_requires(g_ps_crc_calls == 0 && g_pe_enc_calls == 0 && g_pe_out == NULL)
__CPROVER_assigns(*pubStr, g_ps_crc_calls, g_pe_bin, g_pe_bin_len, g_pe_enc_calls, g_pe_enc_res, g_pe_out, g_pe_getimp_res)
/* success <=> imprint available, allocation and encoder succeeded; the string is the encoder's output for
 * time(8, big-endian) | imprint | CRC-32(4, big-endian) in groups of six (layout asserted at the encoder stub) */
__CPROVER_ensures(IMPLIES(__CPROVER_return_value == KSI_OK, g_pe_getimp_res == KSI_OK && g_ps_crc_calls == 1 && g_pe_enc_calls == 1 && g_pe_enc_res == KSI_OK && *pubStr == g_pe_out && g_pe_out != NULL))
__CPROVER_ensures(IMPLIES(__CPROVER_return_value != KSI_OK, *pubStr == __CPROVER_old(*pubStr) && g_pe_out == NULL))
__CPROVER_ensures(IMPLIES(g_ps_no_alloc_failure && g_pe_getimp_res == KSI_OK && (g_pe_enc_calls == 0 || g_pe_enc_res == KSI_OK), __CPROVER_return_value == KSI_OK));
