/* Contract for net_async.c asyncService_setupAsyncClient (C20) over env/ghost_uri_service.h:
 * the asynchronous service refuses file and unknown schemes (and unparsable URIs) without creating a client;
 * TCP class: host/port as split; HTTP class: composed URL without credentials; credential precedence as in the
 * blocking service. */
static int asyncService_setupAsyncClient(KSI_AsyncService *service, const char *uri, const char *loginId, const char *key)
__CPROVER_requires(service == &h_asvc && uri != NULL && uri == g_us_uri && loginId == g_us_login && key == g_us_key)
__CPROVER_requires(g_us_split_calls == 0 && g_us_class_calls == 0 && g_us_comp_calls == 0 && g_us_http_calls == 0 && g_us_tcp_calls == 0 && g_us_fs_calls == 0 &&
		g_us_new_tcp_calls == 0 && g_us_new_http_calls == 0 &&
		g_us_schm == NULL && g_us_user == NULL && g_us_pass == NULL && g_us_host == NULL && g_us_path == NULL && g_us_query == NULL && g_us_frag == NULL)
__CPROVER_assigns(h_asvc.impl, h_asvc.impl_free,
		g_us_split_calls, g_us_split_res, g_us_schm, g_us_user, g_us_pass, g_us_host, g_us_path, g_us_query, g_us_frag, g_us_port,
		g_us_class_calls, g_us_class, g_us_comp_calls, g_us_comp_res, g_us_comp_args_ok, g_us_comp_nocreds, g_us_comp_buf,
		g_us_http_calls, g_us_http_res, g_us_http_url_is_buf, g_us_http_url_is_uri, g_us_http_client, g_us_http_user, g_us_http_pass, g_us_http_url,
		g_us_tcp_calls, g_us_tcp_res, g_us_tcp_client, g_us_tcp_host, g_us_tcp_user, g_us_tcp_pass, g_us_tcp_port,
		g_us_new_tcp_calls, g_us_new_tcp_res, g_us_new_http_calls, g_us_new_http_res)
/* a service that already has a client is left alone */
__CPROVER_ensures(IMPLIES(__CPROVER_old(h_asvc.impl) != NULL, __CPROVER_return_value == KSI_INVALID_STATE && g_us_split_calls == 0 && g_us_http_calls == 0 && g_us_tcp_calls == 0 &&
		g_us_new_tcp_calls == 0 && g_us_new_http_calls == 0 && h_asvc.impl == __CPROVER_old(h_asvc.impl)))
__CPROVER_ensures(IMPLIES(__CPROVER_old(h_asvc.impl) == NULL, g_us_split_calls == 1 && g_us_class_calls == 1 && g_us_http_calls + g_us_tcp_calls <= 1))
/* file, unknown scheme, unparsable URI: refused, nothing created, nothing addressed */
__CPROVER_ensures(IMPLIES(__CPROVER_old(h_asvc.impl) == NULL && (g_us_class == URI_FILE || g_us_class == URI_UNKNOWN),
		__CPROVER_return_value == KSI_INVALID_FORMAT && g_us_comp_calls == 0 && g_us_http_calls == 0 && g_us_tcp_calls == 0 && g_us_new_tcp_calls == 0 && g_us_new_http_calls == 0 && h_asvc.impl == NULL))
/* TCP */
__CPROVER_ensures(IMPLIES(__CPROVER_old(h_asvc.impl) == NULL && g_us_class == URI_TCP, g_us_comp_calls == 0 && g_us_http_calls == 0 && g_us_new_http_calls == 0 &&
		((g_us_host == NULL || g_us_port == 0) ? (g_us_tcp_calls == 0 && g_us_new_tcp_calls == 0 && __CPROVER_return_value == KSI_INVALID_ARGUMENT && h_asvc.impl == NULL)
		 : (g_us_new_tcp_calls == 1 && (g_us_new_tcp_res != KSI_OK ? (g_us_tcp_calls == 0 && __CPROVER_return_value == g_us_new_tcp_res)
		    : (g_us_tcp_calls == 1 && g_us_tcp_client == &h_atcp && h_asvc.impl == &h_atcp && g_us_tcp_host == g_us_host && g_us_tcp_port == g_us_port &&
		       US_LOGIN_OK(g_us_tcp_user) && US_KEY_OK(g_us_tcp_pass) && __CPROVER_return_value == g_us_tcp_res))))))
/* HTTP: the URL is the composed one (rewritten scheme, no credentials) */
__CPROVER_ensures(IMPLIES(__CPROVER_old(h_asvc.impl) == NULL && g_us_class == URI_HTTP, g_us_tcp_calls == 0 && g_us_new_tcp_calls == 0 &&
		g_us_comp_calls == 1 && g_us_comp_nocreds && g_us_comp_args_ok &&
		(g_us_comp_res != KSI_OK ? (g_us_http_calls == 0 && g_us_new_http_calls == 0 && __CPROVER_return_value == g_us_comp_res)
		 : (g_us_new_http_calls == 1 && (g_us_new_http_res != KSI_OK ? (g_us_http_calls == 0 && __CPROVER_return_value == g_us_new_http_res)
		    : (g_us_http_calls == 1 && g_us_http_client == &h_ahttp && h_asvc.impl == &h_ahttp && g_us_http_url_is_buf &&
		       US_LOGIN_OK(g_us_http_user) && US_KEY_OK(g_us_http_pass) && __CPROVER_return_value == g_us_http_res))))))
__CPROVER_ensures(IMPLIES(g_us_http_calls == 1, g_us_http_url != g_us_user && g_us_http_url != g_us_pass && !g_us_http_url_is_uri));
