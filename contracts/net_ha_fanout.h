/* Contract for net_ha.c KSI_HighAvailabilityService_addRequest (C15 fan-out): "each request is forwarded to every
 * endpoint that accepts it".  Ghosts from env/net_ha_fanout.h. */
#ifndef CONTRACTS_NET_HA_FANOUT_H
#define CONTRACTS_NET_HA_FANOUT_H

static int KSI_HighAvailabilityService_addRequest(KSI_HighAvailabilityService *has, KSI_AsyncHandle *handle)
__CPROVER_requires(has != NULL && handle != NULL && handle == g_fan_user && has->services != NULL)
__CPROVER_requires(g_fan_at == 0 && g_fan_offered == 0 && g_fan_accepted == 0 && g_fan_wrapper == NULL && g_hndl_new_calls == 0 && g_hndl_destroyed == 0)
__CPROVER_requires(handle->ref >= 1 && handle->ref < 1000)
/* fewer than 2^64-1 sub-services (KSI_HighAvailabilityService_addEndpoint refuses beyond ctx option KSI_OPT_HA_SAFEGUARD);
 * otherwise the reference counter of the wrapper would wrap around */
__CPROVER_requires(g_fan_len < (size_t)-1)
/* accepted: every sub-service was offered one clone, at least one took it, and the wrapper expects exactly as many
 * responses as sub-services accepted; the user's handle is now waiting and its reference belongs to the service */
__CPROVER_ensures(IMPLIES(__CPROVER_return_value == KSI_OK,
		g_fan_len > 0 && g_fan_at == g_fan_len && g_fan_offered == g_fan_len && g_fan_accepted >= 1 &&
		handle->state == KSI_ASYNC_STATE_WAITING_FOR_RESPONSE && (size_t)g_hndl_new_calls == g_fan_len &&
		g_fan_wrapper != NULL && g_fan_wrapper->expectedRespCount == g_fan_accepted && g_fan_wrapper->asyncHandle == handle))
/* refused: no sub-service took it and every one was asked (then the last refusal is reported), or a local
 * failure; the handle's state is untouched and the caller keeps its reference */
__CPROVER_ensures(IMPLIES(__CPROVER_return_value != KSI_OK, handle->state == __CPROVER_old(handle->state)))
__CPROVER_ensures(IMPLIES(__CPROVER_return_value != KSI_OK && g_fan_len > 0 && g_fan_offered == g_fan_len && g_fan_accepted == 0,
		__CPROVER_return_value == g_fan_lastres))
/* "cache full" & co. of single endpoints are not an error of the request as long as another endpoint accepted */
__CPROVER_ensures(IMPLIES(g_fan_len > 0 && g_fan_offered == g_fan_len && g_fan_accepted >= 1, __CPROVER_return_value == KSI_OK))
__CPROVER_ensures(IMPLIES(g_fan_len == 0, __CPROVER_return_value == KSI_INVALID_STATE && g_fan_at == 0))
__CPROVER_assigns(__CPROVER_object_whole(handle), __CPROVER_object_whole(&g_hndl_static), g_fan_at, g_fan_offered, g_fan_accepted, g_fan_lastres, g_fan_wrapper, g_hndl_new_calls, g_hndl_new_last, g_hndl_destroyed);

#endif
