/* Contracts for fast_tlv.c: parseHdr, KSI_FTLV_memRead (C09; also C12: memory safety for every byte string).
 * Postconditions are written against spec/tlv.h (TLV format), not against the code. */
#ifndef CONTRACTS_FAST_TLV_HDR_H
#define CONTRACTS_FAST_TLV_HDR_H
#include "spec/tlv.h"

/* call sites (KSI_FTLV_memRead, readData) pass non-NULL hdr and t; len is the number of readable octets */
static int parseHdr(const unsigned char *hdr, size_t len, struct fast_tlv_s *t)
__CPROVER_requires(__CPROVER_is_fresh(hdr, len))
__CPROVER_requires(__CPROVER_is_fresh(t, sizeof(*t)))
/* OK  <=>  the header is complete; the only other outcome is INVALID_FORMAT */
__CPROVER_ensures(IFF(__CPROVER_return_value == KSI_OK, spec_tlv_hdr_complete(hdr, len)))
__CPROVER_ensures(__CPROVER_return_value == KSI_OK || __CPROVER_return_value == KSI_INVALID_FORMAT)
/* on success every field equals the reference decoding */
__CPROVER_ensures(IMPLIES(__CPROVER_return_value == KSI_OK,
		t->tag == spec_tlv_dec_tag(hdr, len) &&
		t->is_nc == spec_tlv_dec_nc(hdr, len) &&
		t->is_fwd == spec_tlv_dec_fwd(hdr, len) &&
		t->hdr_len == spec_tlv_dec_hdr_len(hdr, len) &&
		t->dat_len == spec_tlv_dec_dat_len(hdr, len)))
/* frame: the offset is not parseHdr's business */
__CPROVER_assigns(t->tag, t->is_nc, t->is_fwd, t->hdr_len, t->dat_len);

#ifdef FTLV_MEMREAD_ARITH
/* Arithmetic abstraction of the contract below (no statement about the octets of m): used where KSI_FTLV_memRead is
 * a callee inside a loop (KSI_FTLV_memReadN, convertToNested, encodeAsNestedTlvs).  It is enforced on the real body
 * by job C09.memRead_arith, so the chain is closed. */
int KSI_FTLV_memRead(const unsigned char *m, size_t l, KSI_FTLV *t)
__CPROVER_requires(l >= 1)   /* every loop that calls it runs while "remaining > 0"; the empty buffer is job C09.memRead_empty */
__CPROVER_requires(__CPROVER_is_fresh(m, l))
__CPROVER_requires(__CPROVER_is_fresh(t, sizeof(*t)))
__CPROVER_ensures(__CPROVER_return_value == KSI_OK || __CPROVER_return_value == KSI_INVALID_FORMAT)
__CPROVER_ensures(IMPLIES(__CPROVER_return_value == KSI_OK,
		(t->hdr_len == 2 || t->hdr_len == 4) && t->dat_len <= SPEC_TLV_MAX_LEN && t->hdr_len + t->dat_len <= l &&
		t->tag <= SPEC_TLV_MAX_TAG && (t->is_nc == 0 || t->is_nc == 1) && (t->is_fwd == 0 || t->is_fwd == 1) &&
		IMPLIES(t->hdr_len == 2, t->tag <= 0x1f && t->dat_len <= 0xff)))
__CPROVER_ensures(t->off == 0)
__CPROVER_assigns(t->off, t->tag, t->is_nc, t->is_fwd, t->hdr_len, t->dat_len);
#else
/* For EVERY buffer (m, l), l >= 0: no octet outside [m, m+l) is read (is_fresh(m, l) + pointer checks),
 * OK <=> one complete element is present, and the fields equal the reference decoding as soon as the header is
 * complete (net_tcp_async.c:332 uses hdr_len + dat_len after a non-OK return to learn how much is missing). */
int KSI_FTLV_memRead(const unsigned char *m, size_t l, KSI_FTLV *t)
__CPROVER_requires(__CPROVER_is_fresh(m, l))
__CPROVER_requires(__CPROVER_is_fresh(t, sizeof(*t)))
__CPROVER_ensures(IFF(__CPROVER_return_value == KSI_OK, spec_tlv_elem_complete(m, l)))
__CPROVER_ensures(__CPROVER_return_value == KSI_OK || __CPROVER_return_value == KSI_INVALID_FORMAT)
__CPROVER_ensures(IMPLIES(spec_tlv_hdr_complete(m, l),
		t->tag == spec_tlv_dec_tag(m, l) &&
		t->is_nc == spec_tlv_dec_nc(m, l) &&
		t->is_fwd == spec_tlv_dec_fwd(m, l) &&
		t->hdr_len == spec_tlv_dec_hdr_len(m, l) &&
		t->dat_len == spec_tlv_dec_dat_len(m, l)))
__CPROVER_ensures(t->off == 0)
__CPROVER_assigns(t->off, t->tag, t->is_nc, t->is_fwd, t->hdr_len, t->dat_len);
#endif
#endif
