/* C02, rule level (L3): contracts of the document-hash and input-level rules of verification_rule.c.
 * Form (property text): outcome == verdict demanded for the world (env/ghost_vrule.h vr_exp_*, spec/vercodes.h):
 *   (ret == KSI_OK && result OK)  <=>  the comparison holds;   evaluable and false  =>  FAIL with the documented code;
 *   value not computable / component missing  =>  NA (or error status), never OK.
 * Frame: only *result.  The context, the signature, its chains, links, integers and the ghost hash state are NOT
 * assignable - this is the rule-level half of C11 ("verification does not mutate the signature"). */
#ifndef CONTRACTS_VERIFICATION_RULE_C02_H
#define CONTRACTS_VERIFICATION_RULE_C02_H

#define VR_PRE(info, result) (((info) == NULL || (info) == &g_vr_info) && ((result) == NULL || (result) == &g_vr_res))
#define VR_POST(v, result) ((result) == NULL ? __CPROVER_return_value == KSI_INVALID_ARGUMENT : VR_OUTCOME((v), __CPROVER_return_value, (result)))

int KSI_VerificationRule_DocumentHashDoesNotExist(KSI_VerificationContext *info, KSI_RuleVerificationResult *result)
__CPROVER_requires(VR_PRE(info, result))
__CPROVER_ensures(VR_POST(vr_exp_DocumentHashDoesNotExist(info), result))
__CPROVER_assigns(result != NULL: *result);

int KSI_VerificationRule_DocumentHashExistence(KSI_VerificationContext *info, KSI_RuleVerificationResult *result)
__CPROVER_requires(VR_PRE(info, result))
__CPROVER_ensures(VR_POST(vr_exp_DocumentHashExistence(info), result))
__CPROVER_assigns(result != NULL: *result);

/* GEN-04 iff the algorithm ids differ */
int KSI_VerificationRule_InputHashAlgorithmVerification(KSI_VerificationContext *info, KSI_RuleVerificationResult *result)
__CPROVER_requires(VR_PRE(info, result))
__CPROVER_ensures(VR_POST(vr_exp_InputHashAlgorithmVerification(info), result))
__CPROVER_assigns(result != NULL: *result);

/* GEN-01 iff the imprints differ */
int KSI_VerificationRule_DocumentHashVerification(KSI_VerificationContext *info, KSI_RuleVerificationResult *result)
__CPROVER_requires(VR_PRE(info, result))
__CPROVER_ensures(VR_POST(vr_exp_DocumentHashVerification(info), result))
__CPROVER_assigns(result != NULL: *result);

/* level 0 OK; level > 0xff invalid input; RFC3161 and level > 0: GEN-03; lc(first link) < level <=> GEN-03 */
int KSI_VerificationRule_AggregationChainInputLevelVerification(KSI_VerificationContext *info, KSI_RuleVerificationResult *result)
__CPROVER_requires(VR_PRE(info, result))
__CPROVER_ensures(VR_POST(vr_exp_AggregationChainInputLevelVerification(info), result))
__CPROVER_ensures(IMPLIES(result != NULL && VR_INFO_OK(info) && info->docAggrLevel > 0xff, __CPROVER_return_value == KSI_INVALID_VERIFICATION_INPUT))
__CPROVER_assigns(result != NULL: *result);
#endif
