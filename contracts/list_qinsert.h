/* Contract of list.c insertElementAt with the ARRAY VIEW (C19, builderQ) - companion of contracts/list_array.h.
 * The view after a successful insertAt(pos, o) of a list with old view e[0..len-1]:
 *      e[0] .. e[pos-1], o, e[pos] .. e[len-1]            (length len + 1)
 * stated for EVERY index through the witness pair of env/list_env.h:  g_lw = an arbitrary index of the NEW view,
 * g_lv = g_lw - 1 (the old index of the element that moves up into g_lw); g_lold_w / g_lold_v are the old elements
 * at these indices.  appendElement is used through its contract (contracts/list_array.h, enforced by
 * C19.list_append_contract): the array may be re-allocated by it, any allocation may fail.
 * Failure of any kind (bad position, empty list, failed growth): the list is exactly as before, nothing leaked. */
#ifndef CONTRACTS_LIST_QINSERT_H
#define CONTRACTS_LIST_QINSERT_H
#include "contracts/list_array.h"
size_t g_q_len0;      /* length of the view before the call (ghost, pinned by requires) */
size_t g_q_pos;       /* position argument (ghost copy for the loop invariant) */

static int insertElementAt(KSI_List *list, size_t pos, void *o)
__CPROVER_requires(list != NULL && LIST_INV(list) && g_live >= 1 && g_live < 100000)
__CPROVER_requires(g_q_len0 == L_LEN(list) && g_q_pos == pos)
__CPROVER_requires(IMPLIES(g_lw >= 1, g_lv == g_lw - 1) && IMPLIES(g_lw == 0, g_lv >= L_LEN(list)))
__CPROVER_requires(IMPLIES(g_lw < L_LEN(list), g_lold_w == L_EL(list, g_lw)) && IMPLIES(g_lv < L_LEN(list), g_lold_v == L_EL(list, g_lv)))
/* result codes with their cause */
__CPROVER_ensures((__CPROVER_return_value == KSI_INVALID_STATE) == (OLD_ARR(list) == NULL))
__CPROVER_ensures((__CPROVER_return_value == KSI_BUFFER_OVERFLOW) == (OLD_ARR(list) != NULL && pos >= OLD_LEN(list)))
__CPROVER_ensures(__CPROVER_return_value == KSI_OK || __CPROVER_return_value == KSI_INVALID_STATE || __CPROVER_return_value == KSI_BUFFER_OVERFLOW || __CPROVER_return_value == KSI_OUT_OF_MEMORY)
__CPROVER_ensures(IMPLIES(__CPROVER_return_value == KSI_OUT_OF_MEMORY, OLD_GROWS(list) && pos < OLD_LEN(list)))
/* OK: one element more; prefix stays, o at pos, tail one up */
__CPROVER_ensures(IMPLIES(__CPROVER_return_value == KSI_OK, LIST_INV(list) && L_LEN(list) == OLD_LEN(list) + 1 && L_EL(list, pos) == o))
__CPROVER_ensures(IMPLIES(__CPROVER_return_value == KSI_OK && g_lw < pos, L_EL(list, g_lw) == g_lold_w))
__CPROVER_ensures(IMPLIES(__CPROVER_return_value == KSI_OK && g_lw > pos && g_lw <= OLD_LEN(list), L_EL(list, g_lw) == g_lold_v))
/* growth exactly when full: new array of size + 10, the old one released (frees clause: nothing else) */
__CPROVER_ensures(IMPLIES(__CPROVER_return_value == KSI_OK && OLD_GROWS(list),
		L_SIZE(list) == OLD_SIZE(list) + 10 && L_ARR(list) != OLD_ARR(list) && __CPROVER_was_freed(OLD_ARR(list))))
__CPROVER_ensures(IMPLIES(__CPROVER_return_value == KSI_OK && !OLD_GROWS(list), L_SIZE(list) == OLD_SIZE(list) && L_ARR(list) == OLD_ARR(list)))
/* failure: the list is exactly as before and still valid */
__CPROVER_ensures(IMPLIES(__CPROVER_return_value != KSI_OK,
		LIST_INV(list) && L_LEN(list) == OLD_LEN(list) && L_SIZE(list) == OLD_SIZE(list) && L_ARR(list) == OLD_ARR(list) &&
		IMPLIES(g_lw < L_LEN(list), L_EL(list, g_lw) == g_lold_w)))
__CPROVER_ensures(list->pImpl == __CPROVER_old(list->pImpl))
/* live blocks: growth swaps one array for another */
__CPROVER_ensures(g_live == __CPROVER_old(g_live))
__CPROVER_assigns(L_IMPL(list)->arr, L_IMPL(list)->arr_size, L_IMPL(list)->arr_len;
		L_ARR(list) != NULL: __CPROVER_object_whole(L_ARR(list));
		g_live)
__CPROVER_frees(L_ARR(list));
#endif
