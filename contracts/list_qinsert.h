/* Contract of list.c insertElementAt with the ARRAY VIEW (C19, builderQ) - companion of contracts/list_array.h.
 * The view after a successful insertAt(pos, o) of a list with old view e[0..len-1]:
 *      e[0] .. e[pos-1], o, e[pos] .. e[len-1]            (length len + 1)
 * stated for EVERY index through the witness pair of env/list_env.h:  g_lw = an arbitrary index of the NEW view,
 * g_lv = g_lw - 1 (the old index of the element that moves up into g_lw); g_lold_w / g_lold_v are the old elements
 * at these indices.  appendElement is used through its contract (contracts/list_array.h, enforced by
 * C19.list_append_contract): the array may be re-allocated by it, any allocation may fail.
 * Failure of any kind (bad position, empty list, failed growth): the list is exactly as before, nothing leaked. */
#ifndef CONTRACTS_LIST_QINSERT_H
#define CONTRACTS_LIST_QINSERT_H
/* macros of contracts/list_array.h (that header's appendElement contract states its element clauses BEFORE the
 * is_fresh clause - fine for enforcement, but when the contract REPLACES a call the havocked array pointer would be
 * dereferenced before it is bound to the fresh array).  Same contract, clauses re-ordered; enforced on the real
 * appendElement by C19.oom2_list_append_contract. */
#define CONTRACTS_LIST_ARRAY_H
struct listEl_st; struct listImpl_st;
#define LIST_MAX_SIZE ((size_t)0x7fffffff)
#define L_IMPL(l) ((struct listImpl_st *)(l)->pImpl)
#define L_LEN(l) (L_IMPL(l)->arr_len)
#define L_SIZE(l) (L_IMPL(l)->arr_size)
#define L_ARR(l) (L_IMPL(l)->arr)
#define L_EL(l, i) (L_IMPL(l)->arr[i].ptr)
#define LIST_INV(l) ((l)->pImpl != NULL && L_LEN(l) <= L_SIZE(l) && L_SIZE(l) <= LIST_MAX_SIZE && ((L_SIZE(l) == 0) == (L_ARR(l) == NULL)))
#define OLD_LEN(l) __CPROVER_old(L_LEN(l))
#define OLD_SIZE(l) __CPROVER_old(L_SIZE(l))
#define OLD_ARR(l) __CPROVER_old(L_ARR(l))
#define OLD_GROWS(l) (OLD_LEN(l) + 1 > OLD_SIZE(l))

/* Q_APPEND_ENFORCED (job C19.oom2_list_append_contract, which ENFORCES this contract on the real appendElement) adds the
 * conjunct "the old array was released" - CBMC 6.11 cannot ASSUME __CPROVER_was_freed in a replaced contract (its own
 * sanity check "ptr always exists in the frees clause" fails as soon as the nondeterministic release has happened).
 * The replaced version is therefore the enforced one minus that conjunct (weaker, hence sound to assume). */
#ifdef Q_APPEND_ENFORCED
#define Q_OLD_ARRAY_RELEASED(l) (OLD_ARR(l) == NULL || __CPROVER_was_freed(OLD_ARR(l)))
#else
#define Q_OLD_ARRAY_RELEASED(l) 1
#endif
/* rw_ok below is asked about a block the replaced call may have released: that is the point of the clause, not a misuse */
#pragma CPROVER check push
#pragma CPROVER check disable "pointer-primitive"
static int appendElement(KSI_List *list, void *obj)
__CPROVER_requires(list != NULL && LIST_INV(list) && g_live >= 1 && g_live < 100000)
__CPROVER_requires(IMPLIES(g_lw < L_LEN(list), g_lold_w == L_EL(list, g_lw)) && IMPLIES(g_lv < L_LEN(list), g_lold_v == L_EL(list, g_lv)))
__CPROVER_ensures(__CPROVER_return_value == KSI_OK || __CPROVER_return_value == KSI_OUT_OF_MEMORY)
__CPROVER_ensures(IMPLIES(__CPROVER_return_value == KSI_OUT_OF_MEMORY, OLD_GROWS(list)))
__CPROVER_ensures(list->pImpl == __CPROVER_old(list->pImpl))
/* the array is released only by a successful growth: in every other case it is still allocated */
__CPROVER_ensures(IMPLIES(!(__CPROVER_return_value == KSI_OK && OLD_GROWS(list)) && OLD_ARR(list) != NULL,
		__CPROVER_rw_ok(OLD_ARR(list), OLD_SIZE(list) * sizeof(struct listEl_st))))
/* the array: growth = a new array of size + 10 slots, the old one released; otherwise the same array */
__CPROVER_ensures(IMPLIES(__CPROVER_return_value == KSI_OK && OLD_GROWS(list),
		L_SIZE(list) == OLD_SIZE(list) + 10 && __CPROVER_is_fresh(L_ARR(list), L_SIZE(list) * sizeof(struct listEl_st)) && Q_OLD_ARRAY_RELEASED(list)))
__CPROVER_ensures(IMPLIES(__CPROVER_return_value == KSI_OK && !OLD_GROWS(list), L_SIZE(list) == OLD_SIZE(list) && __CPROVER_pointer_equals(L_ARR(list), OLD_ARR(list))))
__CPROVER_ensures(IMPLIES(__CPROVER_return_value != KSI_OK, L_LEN(list) == OLD_LEN(list) && L_SIZE(list) == OLD_SIZE(list) && __CPROVER_pointer_equals(L_ARR(list), OLD_ARR(list))))
/* then the elements: OK = one element more, the new one last, every old element keeps its place; failure = unchanged */
__CPROVER_ensures(LIST_INV(list))
__CPROVER_ensures(IMPLIES(__CPROVER_return_value == KSI_OK, L_LEN(list) == OLD_LEN(list) + 1 && L_EL(list, OLD_LEN(list)) == obj))
__CPROVER_ensures(IMPLIES(g_lw < OLD_LEN(list), L_EL(list, g_lw) == g_lold_w))
__CPROVER_ensures(IMPLIES(g_lv < OLD_LEN(list), L_EL(list, g_lv) == g_lold_v))
__CPROVER_ensures(g_live == __CPROVER_old(g_live) + ((__CPROVER_return_value == KSI_OK && OLD_GROWS(list) && OLD_ARR(list) == NULL) ? 1 : 0))
__CPROVER_assigns(L_IMPL(list)->arr_len; L_LEN(list) + 1 > L_SIZE(list): L_IMPL(list)->arr, L_IMPL(list)->arr_size;
		L_ARR(list) != NULL && L_LEN(list) < L_SIZE(list): L_IMPL(list)->arr[L_LEN(list)].ptr;
		g_live)
__CPROVER_frees(L_LEN(list) + 1 > L_SIZE(list): L_ARR(list));
#pragma CPROVER check pop

size_t g_q_len0;      /* length of the view before the call (ghost, pinned by requires) */
size_t g_q_pos;       /* position argument (ghost copy for the loop invariant) */

static int insertElementAt(KSI_List *list, size_t pos, void *o)
__CPROVER_requires(list != NULL && LIST_INV(list) && g_live >= 1 && g_live < 100000)
__CPROVER_requires(g_q_len0 == L_LEN(list) && g_q_pos == pos)
__CPROVER_requires(IMPLIES(g_lw >= 1, g_lv == g_lw - 1) && IMPLIES(g_lw == 0, g_lv >= L_LEN(list)))
__CPROVER_requires(IMPLIES(g_lw < L_LEN(list), g_lold_w == L_EL(list, g_lw)) && IMPLIES(g_lv < L_LEN(list), g_lold_v == L_EL(list, g_lv)))
/* result codes with their cause */
__CPROVER_ensures((__CPROVER_return_value == KSI_INVALID_STATE) == (OLD_ARR(list) == NULL))
__CPROVER_ensures((__CPROVER_return_value == KSI_BUFFER_OVERFLOW) == (OLD_ARR(list) != NULL && pos >= OLD_LEN(list)))
__CPROVER_ensures(__CPROVER_return_value == KSI_OK || __CPROVER_return_value == KSI_INVALID_STATE || __CPROVER_return_value == KSI_BUFFER_OVERFLOW || __CPROVER_return_value == KSI_OUT_OF_MEMORY)
__CPROVER_ensures(IMPLIES(__CPROVER_return_value == KSI_OUT_OF_MEMORY, OLD_GROWS(list) && pos < OLD_LEN(list)))
/* OK: one element more; prefix stays, o at pos, tail one up */
__CPROVER_ensures(IMPLIES(__CPROVER_return_value == KSI_OK, LIST_INV(list) && L_LEN(list) == OLD_LEN(list) + 1 && L_EL(list, pos) == o))
__CPROVER_ensures(IMPLIES(__CPROVER_return_value == KSI_OK && g_lw < pos, L_EL(list, g_lw) == g_lold_w))
__CPROVER_ensures(IMPLIES(__CPROVER_return_value == KSI_OK && g_lw > pos && g_lw <= OLD_LEN(list), L_EL(list, g_lw) == g_lold_v))
/* growth exactly when full: new array of size + 10; only the old array may be released (frees clause), the block count
 * stays (that the old array IS released, exactly once, is the statement of the appendElement contract) */
__CPROVER_ensures(IMPLIES(__CPROVER_return_value == KSI_OK && OLD_GROWS(list),
		L_SIZE(list) == OLD_SIZE(list) + 10 && L_ARR(list) != OLD_ARR(list)))
__CPROVER_ensures(IMPLIES(__CPROVER_return_value == KSI_OK && !OLD_GROWS(list), L_SIZE(list) == OLD_SIZE(list) && L_ARR(list) == OLD_ARR(list)))
/* failure: the list is exactly as before and still valid */
__CPROVER_ensures(IMPLIES(__CPROVER_return_value != KSI_OK,
		LIST_INV(list) && L_LEN(list) == OLD_LEN(list) && L_SIZE(list) == OLD_SIZE(list) && L_ARR(list) == OLD_ARR(list) &&
		IMPLIES(g_lw < L_LEN(list), L_EL(list, g_lw) == g_lold_w)))
__CPROVER_ensures(list->pImpl == __CPROVER_old(list->pImpl))
/* live blocks: growth swaps one array for another */
__CPROVER_ensures(g_live == __CPROVER_old(g_live))
__CPROVER_assigns(L_IMPL(list)->arr, L_IMPL(list)->arr_size, L_IMPL(list)->arr_len;
		L_ARR(list) != NULL: __CPROVER_object_whole(L_ARR(list));
		g_live)
__CPROVER_frees(L_ARR(list));
#endif
