/* C01, rule level (L3): INT-11, KSI_VerificationRule_AggregationChainMetaDataVerification - the nested walk over all
 * chains and all links and the TLV look-ups.  Ghost monitor: env/ghost_vrule_md.h (verdict per record from
 * spec/metadata_rule.h); loop invariants: contracts/verification_rule_c01_md.loops.json.
 * metaDataPadding_verify is INLINED (real body; its own contract is enforced by C01.int11_padding);
 * KSI_getHashLength is replaced by its contract (contracts/hash_alg.h, enforced by C17.hashalg.*).
 * Outcome == verdict of the monitor: FAIL INT-11 iff some record is refused by the property, NA iff a record cannot be
 * split into elements, OK only after EVERY link of EVERY chain was inspected; the reference on a found padding element
 * is released on every path.  Frame: *result + monitor state; signature, context inputs are not assignable. */
#ifndef CONTRACTS_VERIFICATION_RULE_C01_MD_H
#define CONTRACTS_VERIFICATION_RULE_C01_MD_H
#include "contracts/verification_rule_c02.h"      /* VR_PRE / VR_POST */
#include "contracts/hash_alg.h"

#define MD_PRE (g_mdc.ccalls == 0 && g_md.lcalls == 0 && g_mdc.nlinks == 0 && !g_md.fail && !g_md.na && g_md.elref == 0 && g_md_nchains <= MD_MAX_LIST && g_md.records == 0)
#define MD_WORLD_FRAME g_md_link.metaData, g_md_el.ftlv, g_md_first.ftlv, g_md_bytes

int KSI_VerificationRule_AggregationChainMetaDataVerification(KSI_VerificationContext *info, KSI_RuleVerificationResult *result)
__CPROVER_requires(VR_PRE(info, result) && MD_PRE)
__CPROVER_ensures(VR_POST(md_exp_walk(info), result))
__CPROVER_ensures(MD_COMPLETE(info, result))
__CPROVER_ensures(g_md.elref == 0)
__CPROVER_assigns(result != NULL: *result; g_mdc, g_md, MD_WORLD_FRAME);
#endif
