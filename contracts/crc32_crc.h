/* Contract for crc32.c KSI_crc32 (C17, C12): memory-safe and terminating for every length; no side effect;
 * the result is a 32-bit value; nothing consumed => the initial value is returned.
 * The functional statement (result == bit-at-a-time CRC-32 of the bytes) is split (obligations/C17/NOTES.md):
 *   C17.crc.table  - every table entry is the bitwise CRC of its index, and one loop iteration of KSI_crc32
 *                    (table look-up form) equals eight bit steps of the reference, for every state and byte;
 *   C17.crc.ref_bounded - whole-function equality with the reference for every buffer of <= 12 bytes. */
#include "spec/crc32.h"
unsigned long KSI_crc32(const void *data, size_t length, unsigned long ival)
__CPROVER_requires(ival <= 0xfffffffful)
__CPROVER_requires(__CPROVER_is_fresh(data, length))   /* a valid pointer also for length 0, as at every call site */
__CPROVER_ensures(__CPROVER_return_value <= 0xfffffffful)
__CPROVER_ensures(IMPLIES(length == 0, __CPROVER_return_value == ival))
__CPROVER_ensures(IMPLIES(length == 1, __CPROVER_return_value == (unsigned long)(spec_crc32_step((uint32_t)ival ^ 0xffffffffu, *(const unsigned char *)data) ^ 0xffffffffu)))
__CPROVER_assigns();
