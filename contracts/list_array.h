/* Contracts of list.c with the ARRAY VIEW (C19; DESIGN 4 "Lists", 6-C19 "list.c append growth").
 * The view of a list l is the sequence  el(l, 0) .. el(l, len(l)-1)  of element pointers.
 * LIST_INV is the representation invariant established by KSI_List_new and kept by every operation:
 *   impl != NULL, len <= size, (size == 0) == (arr == NULL), size bounded (so that size + 10 elements can be
 *   allocated and the `unsigned int` loop counters of list.c cannot wrap: size <= LIST_MAX_SIZE).
 * Postconditions are stated for every index through the witnesses g_lw, g_lv of env/list_env.h.
 * These are also the obligations behind the model lists other properties use (elementAt returns the i-th
 * element, length is the number of appended elements, append adds at the end and keeps the rest, ...). */
#ifndef CONTRACTS_LIST_ARRAY_H
#define CONTRACTS_LIST_ARRAY_H
struct listEl_st; struct listImpl_st;
#define LIST_MAX_SIZE ((size_t)0x7fffffff)
#define L_IMPL(l) ((struct listImpl_st *)(l)->pImpl)
#define L_LEN(l) (L_IMPL(l)->arr_len)
#define L_SIZE(l) (L_IMPL(l)->arr_size)
#define L_ARR(l) (L_IMPL(l)->arr)
#define L_EL(l, i) (L_IMPL(l)->arr[i].ptr)
#define LIST_INV(l) ((l)->pImpl != NULL && L_LEN(l) <= L_SIZE(l) && L_SIZE(l) <= LIST_MAX_SIZE && ((L_SIZE(l) == 0) == (L_ARR(l) == NULL)))
/* the array object has exactly `size` slots */
#define LIST_ARR_OK(l) (L_ARR(l) == NULL || __CPROVER_OBJECT_SIZE(L_ARR(l)) == L_SIZE(l) * sizeof(struct listEl_st))
#define OLD_LEN(l) __CPROVER_old(L_LEN(l))
#define OLD_SIZE(l) __CPROVER_old(L_SIZE(l))
#define OLD_ARR(l) __CPROVER_old(L_ARR(l))
#define OLD_GROWS(l) (OLD_LEN(l) + 1 > OLD_SIZE(l))

static int appendElement(KSI_List *list, void *obj)
__CPROVER_requires(list != NULL && LIST_INV(list) && g_live >= 1 && g_live < 100000)
/* the harness recorded the elements at the witness indices */
__CPROVER_requires(IMPLIES(g_lw < L_LEN(list), g_lold_w == L_EL(list, g_lw)) && IMPLIES(g_lv < L_LEN(list), g_lold_v == L_EL(list, g_lv)))
/* result: OK, or out of memory exactly when the array had to grow and the allocation failed */
__CPROVER_ensures(__CPROVER_return_value == KSI_OK || __CPROVER_return_value == KSI_OUT_OF_MEMORY)
__CPROVER_ensures(IMPLIES(__CPROVER_return_value == KSI_OUT_OF_MEMORY, OLD_GROWS(list)))
/* OK: one element more, the new one is last, every old element keeps its place */
__CPROVER_ensures(IMPLIES(__CPROVER_return_value == KSI_OK,
		LIST_INV(list) && L_LEN(list) == OLD_LEN(list) + 1 && L_EL(list, OLD_LEN(list)) == obj))
__CPROVER_ensures(IMPLIES(__CPROVER_return_value == KSI_OK && g_lw < OLD_LEN(list), L_EL(list, g_lw) == g_lold_w))
__CPROVER_ensures(IMPLIES(__CPROVER_return_value == KSI_OK && g_lv < OLD_LEN(list), L_EL(list, g_lv) == g_lold_v))
/* growth: a new array of size + 10 slots, the old array released (frees clause: nothing else may be released) */
__CPROVER_ensures(IMPLIES(__CPROVER_return_value == KSI_OK && OLD_GROWS(list),
		L_SIZE(list) == OLD_SIZE(list) + 10 && __CPROVER_is_fresh(L_ARR(list), L_SIZE(list) * sizeof(struct listEl_st)) &&
		(OLD_ARR(list) == NULL || __CPROVER_was_freed(OLD_ARR(list)))))
__CPROVER_ensures(IMPLIES(__CPROVER_return_value == KSI_OK && !OLD_GROWS(list),
		L_SIZE(list) == OLD_SIZE(list) && L_ARR(list) == OLD_ARR(list)))
/* failure: the list is exactly as before and still valid */
__CPROVER_ensures(IMPLIES(__CPROVER_return_value != KSI_OK,
		LIST_INV(list) && L_LEN(list) == OLD_LEN(list) && L_SIZE(list) == OLD_SIZE(list) && L_ARR(list) == OLD_ARR(list) &&
		IMPLIES(g_lw < L_LEN(list), L_EL(list, g_lw) == g_lold_w)))
__CPROVER_ensures(list->pImpl == __CPROVER_old(list->pImpl))
/* live-block accounting: growth swaps one array for another (the first growth adds one); otherwise unchanged */
__CPROVER_ensures(g_live == __CPROVER_old(g_live) + ((__CPROVER_return_value == KSI_OK && OLD_GROWS(list) && OLD_ARR(list) == NULL) ? 1 : 0))
__CPROVER_assigns(L_IMPL(list)->arr, L_IMPL(list)->arr_size, L_IMPL(list)->arr_len;
		L_ARR(list) != NULL && L_LEN(list) < L_SIZE(list): L_IMPL(list)->arr[L_LEN(list)].ptr;
		g_live)
__CPROVER_frees(L_ARR(list));
#endif
