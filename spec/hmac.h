/* Reference definitions for C06, written from the property text, RFC 2104 and the KSI PDU description -
 * not from types.c / hmac.c.  Used by the CBMC contracts/stubs and by the native replay drivers.
 *
 * RFC 2104:  HMAC(K, m) = H( (K0 ^ opad) || H( (K0 ^ ipad) || m ) )
 *            K0 = K            padded with zeros to the block size B   if |K| <= B
 *            K0 = H(K)         padded with zeros to B                  if |K| >  B
 *            ipad = 0x36 repeated B times, opad = 0x5c repeated B times.
 *
 * Authenticated byte range of a KSI PDU:
 *   v2: the serialized PDU (TLV header included) without its last hashlen(algorithm) bytes, i.e. everything
 *       before the digest of the trailing MAC element; only defined if the PDU is at least that long.
 *   v1: serialized header element followed by the serialized payload element.
 */
#ifndef SPEC_HMAC_H
#define SPEC_HMAC_H
#include <stddef.h>

#define SPEC_HMAC_IPAD 0x36
#define SPEC_HMAC_OPAD 0x5c

/* byte i (i < B) of K0 ^ pad, for an effective key k0 of k0_len <= B bytes */
static unsigned char spec_hmac_padded_key_byte(const unsigned char *k0, size_t k0_len, size_t i, unsigned char pad) {
	return (unsigned char)((i < k0_len ? k0[i] : 0) ^ pad);
}

/* the same for one position: inside = (i < |K0|), key_byte = K0[i] if inside */
static unsigned char spec_hmac_block_byte(int inside, unsigned char key_byte, unsigned char pad) {
	return (unsigned char)((inside ? key_byte : 0) ^ pad);
}

/* v2 range: defined <=> pdu_len >= hash_len; length of the authenticated prefix */
static int spec_pdu_v2_range_defined(size_t pdu_len, size_t hash_len) { return pdu_len >= hash_len; }
#pragma CPROVER check push
#pragma CPROVER check disable "unsigned-overflow"
/* (modular; meaningful only when spec_pdu_v2_range_defined) */
static size_t spec_pdu_v2_range_len(size_t pdu_len, size_t hash_len) { return pdu_len - hash_len; }
#pragma CPROVER check pop

/* v1 range: byte i of header || payload   (caller guarantees i < hdr_len + pay_len; as specification text it
 * carries no dereference obligations of its own) */
#pragma CPROVER check push
#pragma CPROVER check disable "pointer"
#pragma CPROVER check disable "pointer-primitive"
#pragma CPROVER check disable "pointer-overflow"
#pragma CPROVER check disable "bounds"
static unsigned char spec_pdu_v1_byte(const unsigned char *hdr, size_t hdr_len, const unsigned char *pay, size_t i) {
	return i < hdr_len ? hdr[i] : pay[i - hdr_len];
}
#pragma CPROVER check pop

#endif
