/* Reference (specification) of the HA configuration consolidation, written from the text of property C15:
 *   "Configurations pushed by the endpoints are consolidated field by field - largest maximum level and
 *    maximum request count, smallest aggregation period, earliest calendar first time, latest calendar
 *    last time - ignoring values outside the ranges the SDK documents (level 1..20, period 100..20000 ms,
 *    requests 1..16000, calendar times from 2006 on), so that the numeric result does not depend on the
 *    order in which endpoints answer."
 * A field value is a 64-bit unsigned number; 0 stands for "absent" (no KSI_Integer, or the integer 0 -
 * 0 is outside every documented range anyway).  All functions are pure and loop-free, usable from
 * contracts and natively. */
#ifndef SPEC_HA_MERGE_H
#define SPEC_HA_MERGE_H

typedef unsigned long long spec_ha_u64;

#define SPEC_HA_LEVEL_MIN      1ULL
#define SPEC_HA_LEVEL_MAX      20ULL
#define SPEC_HA_PERIOD_MIN     100ULL
#define SPEC_HA_PERIOD_MAX     20000ULL
#define SPEC_HA_REQUESTS_MIN   1ULL
#define SPEC_HA_REQUESTS_MAX   16000ULL
#define SPEC_HA_CALENDAR_BEGIN 1136073600ULL   /* 2006-01-01T00:00:00Z */

/* documented ranges */
static int spec_ha_level_valid(spec_ha_u64 v)    { return v >= SPEC_HA_LEVEL_MIN && v <= SPEC_HA_LEVEL_MAX; }
static int spec_ha_period_valid(spec_ha_u64 v)   { return v >= SPEC_HA_PERIOD_MIN && v <= SPEC_HA_PERIOD_MAX; }
static int spec_ha_requests_valid(spec_ha_u64 v) { return v >= SPEC_HA_REQUESTS_MIN && v <= SPEC_HA_REQUESTS_MAX; }
static int spec_ha_caltime_valid(spec_ha_u64 v)  { return v >= SPEC_HA_CALENDAR_BEGIN; }

/* "ignored" == treated as absent */
static spec_ha_u64 spec_ha_norm_level(spec_ha_u64 v)    { return spec_ha_level_valid(v) ? v : 0; }
static spec_ha_u64 spec_ha_norm_period(spec_ha_u64 v)   { return spec_ha_period_valid(v) ? v : 0; }
static spec_ha_u64 spec_ha_norm_requests(spec_ha_u64 v) { return spec_ha_requests_valid(v) ? v : 0; }
static spec_ha_u64 spec_ha_norm_caltime(spec_ha_u64 v)  { return spec_ha_caltime_valid(v) ? v : 0; }

/* largest / smallest of two present-or-absent values (absent = 0 is the neutral element of both) */
static spec_ha_u64 spec_ha_max0(spec_ha_u64 a, spec_ha_u64 b) { return a > b ? a : b; }
static spec_ha_u64 spec_ha_min0(spec_ha_u64 a, spec_ha_u64 b) { return a == 0 ? b : (b == 0 ? a : (a < b ? a : b)); }

/* the five numeric fields: merge(consolidated so far, value pushed by an endpoint) */
static spec_ha_u64 spec_ha_merge_level(spec_ha_u64 ha, spec_ha_u64 resp)    { return spec_ha_max0(spec_ha_norm_level(ha), spec_ha_norm_level(resp)); }
static spec_ha_u64 spec_ha_merge_requests(spec_ha_u64 ha, spec_ha_u64 resp) { return spec_ha_max0(spec_ha_norm_requests(ha), spec_ha_norm_requests(resp)); }
static spec_ha_u64 spec_ha_merge_period(spec_ha_u64 ha, spec_ha_u64 resp)   { return spec_ha_min0(spec_ha_norm_period(ha), spec_ha_norm_period(resp)); }
static spec_ha_u64 spec_ha_merge_first(spec_ha_u64 ha, spec_ha_u64 resp)    { return spec_ha_min0(spec_ha_norm_caltime(ha), spec_ha_norm_caltime(resp)); }
static spec_ha_u64 spec_ha_merge_last(spec_ha_u64 ha, spec_ha_u64 resp)     { return spec_ha_max0(spec_ha_norm_caltime(ha), spec_ha_norm_caltime(resp)); }

/* whole numeric configuration */
typedef struct {
	spec_ha_u64 level, period, requests, first, last;
} spec_ha_conf;

static spec_ha_conf spec_ha_merge(spec_ha_conf a, spec_ha_conf b) {
	spec_ha_conf r;
	r.level = spec_ha_merge_level(a.level, b.level);
	r.period = spec_ha_merge_period(a.period, b.period);
	r.requests = spec_ha_merge_requests(a.requests, b.requests);
	r.first = spec_ha_merge_first(a.first, b.first);
	r.last = spec_ha_merge_last(a.last, b.last);
	return r;
}
static spec_ha_conf spec_ha_norm(spec_ha_conf a) {
	spec_ha_conf r;
	r.level = spec_ha_norm_level(a.level);
	r.period = spec_ha_norm_period(a.period);
	r.requests = spec_ha_norm_requests(a.requests);
	r.first = spec_ha_norm_caltime(a.first);
	r.last = spec_ha_norm_caltime(a.last);
	return r;
}
static int spec_ha_conf_eq(spec_ha_conf a, spec_ha_conf b) {
	return a.level == b.level && a.period == b.period && a.requests == b.requests && a.first == b.first && a.last == b.last;
}
/* the invariant of the consolidated configuration: every field absent or inside its range */
static int spec_ha_conf_inv(spec_ha_conf a) { return spec_ha_conf_eq(a, spec_ha_norm(a)); }

#endif
