/* Reference definitions for the KSI aggregation tree builder, written from the PROPERTY TEXT (C16)
 * and the KSI format description, not from tree_builder.c.  Loop-free where used from contracts.
 *
 *  - a node level is a value 0..255 (one byte in the hash step and in the chain arithmetic);
 *  - joining two subtrees gives level max(l, r) + 1;
 *  - a hash chain link going from a child (level c) to its parent (level p) carries the level
 *    correction p - c - 1 (so that c + correction + 1 == p, the chain formula of C03);
 *  - the builder keeps a forest of subtrees in "binary counter" slots: inserting at slot k joins
 *    with the occupant and carries to slot k+1 while slots are occupied;
 *  - closing merges the forest from the lowest slot to the highest: the running root is the
 *    RIGHT operand, the slot's subtree the LEFT operand (older leaves are to the left).
 * Used by CBMC contracts and by the native replay drivers. */
#ifndef SPEC_TREE_H
#define SPEC_TREE_H

#define SPEC_TREE_MAX_LEVEL 0xff
#define SPEC_TREE_SLOTS 256

static int spec_tree_level_valid(long long l) { return l >= 0 && l <= SPEC_TREE_MAX_LEVEL; }
static long long spec_tree_max(long long a, long long b) { return a > b ? a : b; }
static long long spec_tree_join_level(long long l, long long r) { return spec_tree_max(l, r) + 1; }
/* joining is allowed iff both levels are valid and the result is still a valid level */
static int spec_tree_join_ok(long long l, long long r) {
	return spec_tree_level_valid(l) && spec_tree_level_valid(r) && spec_tree_level_valid(spec_tree_join_level(l, r));
}
static long long spec_tree_level_correction(long long parentLevel, long long childLevel) { return parentLevel - childLevel - 1; }

/* One step of the close-time fold over the slots (slot occupied by a subtree of level s):
 * the level of the merged root when the running level is `run` (run < 0: nothing merged yet). */
static long long spec_tree_close_step(long long run, long long s) { return run < 0 ? s : spec_tree_join_level(s, run); }

/* One step of the height pre-check fold of the property ("a leaf that would push the tree beyond the
 * configured maximum level is refused"): an upper bound of the root level if a subtree of level
 * `run` is carried into / merged with a slot holding level s. */
static long long spec_tree_height_step(long long run, long long s) { return spec_tree_join_level(s, run); }

#ifdef NATIVE_REPLAY
/* Native reference model of the builder on LEVELS only (used by replay drivers): slots[i] = level of
 * the subtree in slot i or -1.  Returns 0 if the leaf is accepted, -1 if some join would leave 0..255
 * (then the model state is unchanged: the property demands that accepted leaves stay valid). */
typedef struct { int slot[SPEC_TREE_SLOTS]; } spec_tree_forest;
static void spec_forest_init(spec_tree_forest *f) { int i; for (i = 0; i < SPEC_TREE_SLOTS; i++) f->slot[i] = -1; }
static int spec_forest_add(spec_tree_forest *f, int level) {
	int i = 0; long long cur = level; spec_tree_forest save = *f;
	if (!spec_tree_level_valid(level)) return -1;
	while (i < SPEC_TREE_SLOTS && f->slot[i] >= 0) {
		if (!spec_tree_join_ok(f->slot[i], cur)) { *f = save; return -1; }
		cur = spec_tree_join_level(f->slot[i], cur);
		f->slot[i] = -1;
		i++;
	}
	if (i >= SPEC_TREE_SLOTS) { *f = save; return -1; }
	f->slot[i] = (int)cur;
	return 0;
}
/* root level after close, -1 when empty, -2 when a join would overflow */
static long long spec_forest_root_level(const spec_tree_forest *f) {
	long long run = -1; int i;
	for (i = 0; i < SPEC_TREE_SLOTS; i++) if (f->slot[i] >= 0) {
		if (run >= 0 && !spec_tree_join_ok(f->slot[i], run)) return -2;
		run = spec_tree_close_step(run, f->slot[i]);
	}
	return run;
}
#endif
#endif
