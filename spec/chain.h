/* Reference step of the KSI hash-chain formula, written from the property text (C03):
 *   step hash  = H( left || right || level byte ),  level = previous level + level correction + 1,
 *   a chain whose level would leave 0..255 or whose correction exceeds 255 is REJECTED (never truncated);
 *   aggregation chains use the chain's algorithm throughout; calendar chains hash each step with the
 *   algorithm of the right-hand operand (a left link's sibling; else that of the running hash,
 *   initially the input hash), their level byte is constant 0xff.
 * State is scalar so that it can be used as ghost state in CBMC loop invariants and natively. */
#ifndef SPEC_CHAIN_H
#define SPEC_CHAIN_H

typedef struct {
	long long level;      /* level after the links consumed so far (mathematical value, never truncated) */
	int rejected;         /* some link so far makes the chain invalid */
	int algo;             /* algorithm of the running hash */
} spec_chain_state;

static void spec_chain_init(spec_chain_state *s, int startLevel, int algo) { s->level = startLevel; s->rejected = 0; s->algo = algo; }

/* aggregation chain link with level correction lc (any 64-bit value) */
static void spec_chain_step_aggr(spec_chain_state *s, unsigned long long lc) {
	if (s->rejected) return;
	if (lc > 0xff) { s->rejected = 1; return; }
	if (s->level + (long long)lc + 1 > 0xff) { s->rejected = 1; return; }
	s->level = s->level + (long long)lc + 1;
}

/* calendar chain link: algorithm of the step = algorithm of the right-hand operand */
static void spec_chain_step_cal(spec_chain_state *s, int isLeft, int siblingAlgo) {
	if (s->rejected) return;
	if (isLeft) s->algo = siblingAlgo;
}

/* order of what is fed to the hash function in one step; codes: 1 = previous (running/input) hash imprint,
 * 2 = sibling (imprint | legacy id octets | serialized metadata), 3 = one level byte */
#define SPEC_FEED_PREV 1
#define SPEC_FEED_SIBLING 2
#define SPEC_FEED_LEVEL 3
static int spec_chain_feed_code(int isLeft) {
	return isLeft ? (SPEC_FEED_PREV * 16 + SPEC_FEED_SIBLING * 4 + SPEC_FEED_LEVEL)
	              : (SPEC_FEED_SIBLING * 16 + SPEC_FEED_PREV * 4 + SPEC_FEED_LEVEL);
}
#endif
