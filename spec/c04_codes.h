/* C04: verdict vocabulary of the trust-anchor rules, written from the property text, the error-code table documented in
 * policy.h (KSI_VERIFICATION_ERROR_CODE_LIST: code = offset + number) and the rule descriptions of verification_rule.h.
 * Not derived from verification_rule.c.  Pure and loop-free: used by CBMC contracts and by the native replay drivers.
 *
 * Property C04 gives every anchor rule exactly three cases:
 *   HOLDS        the comparison the rule is documented to make can be evaluated and is true
 *                  -> status KSI_OK, result OK, error code NONE
 *   CONTRADICTS  it can be evaluated and is false (the anchor contradicts the signature)
 *                  -> status KSI_OK, result FAIL, the documented PUB / CAL / KEY code
 *   UNDECIDABLE  a value is missing or cannot be computed, the anchor is absent, extending is forbidden / unavailable / failed
 *                  -> result NA (GEN-02, or no code for pure presence tests), possibly with an error status;
 *                     never OK and never FAIL.
 * Rules that only select a branch of the policy (presence tests, "times are equal", "extending permitted") have no
 * CONTRADICTS case: when their condition is false the result is NA and the policy tries the next alternative. */
#ifndef SPEC_C04_CODES_H
#define SPEC_C04_CODES_H

#define SPEC_C04_RES_OK    0x00
#define SPEC_C04_RES_NA    0x01
#define SPEC_C04_RES_FAIL  0x02

#define SPEC_C04_ERR_NONE  0x000
#define SPEC_C04_GEN_2     0x102      /* GEN-02 Verification inconclusive */
#define SPEC_C04_PUB_1     0x301      /* PUB-01 Extender response calendar root hash mismatch */
#define SPEC_C04_PUB_2     0x302      /* PUB-02 Extender response inconsistent */
#define SPEC_C04_PUB_3     0x303      /* PUB-03 Extender response input hash mismatch */
#define SPEC_C04_PUB_4     0x304      /* PUB-04 Publication record hash and user provided publication hash mismatch */
#define SPEC_C04_PUB_5     0x305      /* PUB-05 Publication record hash and publications file publication hash mismatch */
#define SPEC_C04_KEY_2     0x402      /* KEY-02 PKI signature not verified with certificate */
#define SPEC_C04_KEY_3     0x403      /* KEY-03 Signing certificate not valid at aggregation time */
#define SPEC_C04_CAL_1     0x501      /* CAL-01 Calendar root hash mismatch between signature and calendar database chain */
#define SPEC_C04_CAL_2     0x502      /* CAL-02 Aggregation hash chain root hash and calendar database hash chain input hash mismatch */
#define SPEC_C04_CAL_3     0x503      /* CAL-03 Aggregation time mismatch */
#define SPEC_C04_CAL_4     0x504      /* CAL-04 Calendar hash chain right links are inconsistent */
/* KEY-01 "Certificate not found" is deprecated (policy.h, 3.19): a missing certificate is a missing anchor -> NA GEN-02. */

/* rule -> documented contradiction code (0 = the rule has no CONTRADICTS case) */
#define SPEC_C04_CODE_UserProvidedPublicationExistence                           0
#define SPEC_C04_CODE_UserProvidedPublicationTimeVerification                    0
#define SPEC_C04_CODE_UserProvidedPublicationTimeDoesNotSuit                     0
#define SPEC_C04_CODE_RequireNoUserProvidedPublication                           0
#define SPEC_C04_CODE_UserProvidedPublicationHashVerification                    SPEC_C04_PUB_4
#define SPEC_C04_CODE_UserProvidedPublicationCreationTimeVerification            0
#define SPEC_C04_CODE_PublicationsFileContainsSignaturePublication               0
#define SPEC_C04_CODE_PublicationsFileDoesNotContainSignaturePublication         0
#define SPEC_C04_CODE_PublicationsFileSignaturePublicationVerification           SPEC_C04_PUB_5
#define SPEC_C04_CODE_PublicationsFileContainsSuitablePublication                0
#define SPEC_C04_CODE_PublicationsFileExtendingPermittedVerification             0
#define SPEC_C04_CODE_UserProvidedPublicationExtendingPermittedVerification      0
#define SPEC_C04_CODE_PublicationsFilePublicationHashMatchesExtenderResponse     SPEC_C04_PUB_1
#define SPEC_C04_CODE_PublicationsFilePublicationTimeMatchesExtenderResponse     SPEC_C04_PUB_2
#define SPEC_C04_CODE_PublicationsFileExtendedSignatureInputHash                 SPEC_C04_PUB_3
#define SPEC_C04_CODE_UserProvidedPublicationHashMatchesExtendedResponse         SPEC_C04_PUB_1
#define SPEC_C04_CODE_UserProvidedPublicationTimeMatchesExtendedResponse         SPEC_C04_PUB_2
#define SPEC_C04_CODE_UserProvidedPublicationExtendedSignatureInputHash          SPEC_C04_PUB_3
#define SPEC_C04_CODE_ExtendedSignatureCalendarChainInputHash                    SPEC_C04_CAL_2
#define SPEC_C04_CODE_ExtendedSignatureCalendarChainAggregationTime              SPEC_C04_CAL_3
#define SPEC_C04_CODE_ExtendedSignatureCalendarChainRootHash                     SPEC_C04_CAL_1
#define SPEC_C04_CODE_ExtendedSignatureCalendarChainRightLinksMatch              SPEC_C04_CAL_4
#define SPEC_C04_CODE_CalendarAuthenticationRecordExistence                      0
#define SPEC_C04_CODE_CalendarAuthenticationRecordDoesNotExist                   0
#define SPEC_C04_CODE_CertificateExistence                                       0
#define SPEC_C04_CODE_CertificateValidity                                        SPEC_C04_KEY_3
#define SPEC_C04_CODE_CalendarAuthenticationRecordSignatureVerification          SPEC_C04_KEY_2
#define SPEC_C04_CODE_ExtendSignatureCalendarChainInputHashToHead                0
#define SPEC_C04_CODE_ExtendSignatureCalendarChainInputHashToSamePubTime         0
#define SPEC_C04_CODE_PublicationsFileExtendToPublication                        0
#define SPEC_C04_CODE_UserProvidedPublicationExtendToPublication                 0

typedef enum { SPEC_C04_HOLDS = 1, SPEC_C04_CONTRADICTS = 2, SPEC_C04_UNDECIDABLE = 3 } spec_c04_case;

static int spec_c04_is_ok(int status, int resultCode, int errorCode) {
	return status == 0 && resultCode == SPEC_C04_RES_OK && errorCode == SPEC_C04_ERR_NONE;
}
static int spec_c04_is_fail(int status, int resultCode, int errorCode, int code) {
	return status == 0 && resultCode == SPEC_C04_RES_FAIL && errorCode == code && code != 0;
}
/* inconclusive: NA whatever the status; the error code is GEN-02, or NONE for a presence test */
static int spec_c04_is_inconclusive(int resultCode, int errorCode) {
	return resultCode == SPEC_C04_RES_NA && (errorCode == SPEC_C04_GEN_2 || errorCode == SPEC_C04_ERR_NONE);
}
/* the verdict a rule must give in each case */
static int spec_c04_verdict_matches(spec_c04_case c, int code, int status, int resultCode, int errorCode) {
	return c == SPEC_C04_HOLDS ? spec_c04_is_ok(status, resultCode, errorCode)
	     : c == SPEC_C04_CONTRADICTS ? spec_c04_is_fail(status, resultCode, errorCode, code)
	     : spec_c04_is_inconclusive(resultCode, errorCode);
}
/* a time comparison where a missing calendar aggregation time defaults to the publication time (KSI format:
 * the aggregation time element of a calendar hash chain is optional and defaults to the publication time) */
#define SPEC_C04_DEFAULT(a, b) ((a) != 0 ? (a) : (b))

/* KEY-03: the certificate is valid at the aggregation time */
static int spec_c04_cert_valid_at(unsigned long long notBefore, unsigned long long notAfter, unsigned long long t) {
	return notBefore <= t && t <= notAfter;
}
#endif
