/* Reference CRC-32 (ISO-HDLC / zlib): reflected polynomial 0xEDB88320, initial value and final xor 0xFFFFFFFF.
 * Written from the definition (bit-at-a-time), not from crc32.c.  The first part is loop-free. */
#ifndef SPEC_CRC32_H
#define SPEC_CRC32_H
#include <stddef.h>
#include <stdint.h>

#define SPEC_CRC32_POLY 0xEDB88320u
/* one bit step of the reflected register */
#define SPEC_CRC32_BIT(c) (((c) & 1u) ? (SPEC_CRC32_POLY ^ ((c) >> 1)) : ((c) >> 1))

/* eight bit steps */
static uint32_t spec_crc32_shift8(uint32_t c) {
	c = SPEC_CRC32_BIT(c); c = SPEC_CRC32_BIT(c); c = SPEC_CRC32_BIT(c); c = SPEC_CRC32_BIT(c);
	c = SPEC_CRC32_BIT(c); c = SPEC_CRC32_BIT(c); c = SPEC_CRC32_BIT(c); c = SPEC_CRC32_BIT(c);
	return c;
}
/* table entry i of the byte-wise algorithm = register after feeding byte i into the zero register */
static uint32_t spec_crc32_entry(unsigned i) { return spec_crc32_shift8((uint32_t)(i & 0xffu)); }

/* register after feeding one byte (register r is the raw, un-complemented state) */
static uint32_t spec_crc32_step(uint32_t r, unsigned char b) { return spec_crc32_shift8(r ^ (uint32_t)b); }

/* ---- with loops: plain-mode harnesses and native replay only ---- */
static uint32_t spec_crc32_ref(const unsigned char *d, size_t n, uint32_t ival) {
	uint32_t r = ival ^ 0xFFFFFFFFu; size_t i;
	for (i = 0; i < n; i++) r = spec_crc32_step(r, d[i]);
	return r ^ 0xFFFFFFFFu;
}
#endif
