/* Verdict table of the individual KSI verification rules (properties C01, C02), written from
 *   - the error-code list of policy.h (KSI_VERIFICATION_ERROR_CODE_LIST: code, string, meaning),
 *   - the rule documentation of verification_rule.h,
 *   - the property text of C01 / C02 (properties.jsonl),
 * NOT from verification_rule.c.  Numeric values are the documented ones: GEN-xx = 0x100 + xx, INT-xx = 0x200 + xx.
 *
 *   code    meaning (policy.h)                                                   rule that reports it
 *   GEN-01  wrong document                                                       DocumentHashVerification
 *   GEN-02  verification inconclusive                                            every rule, when a value cannot be computed
 *   GEN-03  input hash level too large                                           AggregationChainInputLevelVerification
 *   GEN-04  wrong input hash algorithm                                           InputHashAlgorithmVerification
 *   INT-01  inconsistent aggregation hash chains                                 AggregationHashChainConsistency, AggregationChainInputHashVerification (RFC3161 output)
 *   INT-02  inconsistent aggregation hash chain aggregation times                AggregationHashChainTimeConsistency
 *   INT-03  calendar hash chain input hash mismatch                              CalendarHashChainInputHashVerification
 *   INT-04  calendar hash chain aggregation time mismatch                        CalendarHashChainAggregationTime
 *   INT-05  calendar hash chain shape inconsistent with aggregation time         CalendarHashChainRegistrationTime
 *   INT-06  calendar chain time inconsistent with calendar auth. record time     CalendarAuthenticationRecordAggregationTime
 *   INT-07  calendar chain time inconsistent with publication time               SignaturePublicationRecordPublicationTime
 *   INT-08  calendar chain root inconsistent with calendar auth. record hash     CalendarAuthenticationRecordAggregationHash
 *   INT-09  calendar chain root inconsistent with published hash                 SignaturePublicationRecordPublicationHash
 *   INT-10  aggregation hash chain chain index mismatch (index vs. shape)        AggregationHashChainIndexConsistency
 *   INT-11  metadata record may not be trusted                                   AggregationChainMetaDataVerification
 *   INT-12  inconsistent chain indexes                                           AggregationHashChainIndexContinuation
 *   INT-13  document hash algorithm deprecated at the time of signing            AggregationChainInputHashAlgorithmVerification
 *   INT-14  RFC3161 record composed of algorithms deprecated at signing time     Rfc3161RecordHashAlgorithmVerification
 *   INT-15  aggregation chain uses algorithm deprecated at signing time          AggregationChainHashAlgorithmVerification
 *   INT-16  calendar chain hash algorithm obsolete at publication time           CalendarChainHashAlgorithmObsoleteAtPubTime
 *   INT-17  RFC3161 record output hash algorithm deprecated at signing time      Rfc3161RecordOutputHashAlgorithmVerification
 *
 * A rule outcome is the triple (status, result code, error code).  Shapes allowed by the property text:
 *   OK    status == KSI_OK, result OK, error code NONE            - exactly when the rule's comparison holds
 *   FAIL  status == KSI_OK, result FAIL, error code == the rule's - exactly when the comparison is evaluable and false
 *   NA    result NA, and status != KSI_OK or error code != NONE   - a value cannot be computed / component missing
 *         (call sites - policy.c Rule_verify - hand every rule a result preset to NA / GEN-02; a rule that gives up with
 *         an error status may leave it like that)
 *   NOTOK anything but (status KSI_OK and result OK)              - malformed objects outside "well-formed signature"
 *         (a field that the TLV templates make mandatory is absent): the property only demands "never OK"
 *   SKIP  status == KSI_OK, result NA, error code NONE            - "existence" selectors: the component asked for is
 *         not there (policy.h: such outcomes only steer OR lists and are not recorded as results)
 * Pure, loop-free: usable in contracts under dfcc and natively (replay drivers). */
#ifndef SPEC_VERCODES_H
#define SPEC_VERCODES_H

#define SPEC_VRES_OK   0
#define SPEC_VRES_NA   1
#define SPEC_VRES_FAIL 2

#define SPEC_VERR_NONE   0x000
#define SPEC_VERR_GEN(n) (0x100 + (n))
#define SPEC_VERR_INT(n) (0x200 + (n))

/* status codes of base.h used by the property text (KSI_OK, KSI_INVALID_VERIFICATION_INPUT) are taken from the header */

typedef enum { SPEC_V_OK = 0, SPEC_V_FAIL = 1, SPEC_V_NA = 2, SPEC_V_SKIP = 3, SPEC_V_NOTOK = 4, SPEC_V_INVALID_INPUT = 5, SPEC_V_ANY = 6 } spec_vkind;
typedef struct { spec_vkind kind; int code; } spec_verdict;

static spec_verdict spec_v(spec_vkind k, int code) { spec_verdict v; v.kind = k; v.code = code; return v; }
#define SPEC_VOK        spec_v(SPEC_V_OK, SPEC_VERR_NONE)
#define SPEC_VFAIL(c)   spec_v(SPEC_V_FAIL, (c))
#define SPEC_VNA        spec_v(SPEC_V_NA, SPEC_VERR_GEN(2))
#define SPEC_VSKIP      spec_v(SPEC_V_SKIP, SPEC_VERR_NONE)
#define SPEC_VNOTOK     spec_v(SPEC_V_NOTOK, SPEC_VERR_NONE)
#define SPEC_VANY       spec_v(SPEC_V_ANY, SPEC_VERR_NONE)       /* outside the property's domain: only safety and the frame are checked */

/* does the observed outcome (status is_ok, result code, error code) have the shape of verdict v? */
static int spec_outcome_matches(spec_verdict v, int status_is_ok, int resultCode, int errorCode) {
	switch (v.kind) {
	case SPEC_V_OK:   return status_is_ok && resultCode == SPEC_VRES_OK && errorCode == SPEC_VERR_NONE;
	case SPEC_V_FAIL: return status_is_ok && resultCode == SPEC_VRES_FAIL && errorCode == v.code;
	case SPEC_V_SKIP: return status_is_ok && resultCode == SPEC_VRES_NA && errorCode == SPEC_VERR_NONE;
	case SPEC_V_NA:   return resultCode == SPEC_VRES_NA && (!status_is_ok || errorCode != SPEC_VERR_NONE);
	case SPEC_V_INVALID_INPUT: return !status_is_ok && resultCode == SPEC_VRES_NA;     /* + status == KSI_INVALID_VERIFICATION_INPUT, stated in the contract */
	case SPEC_V_NOTOK: return !(status_is_ok && resultCode == SPEC_VRES_OK);
	default:          return 1;
	}
}

/* ---------------------------------------------------------------- C02 ---------------------------------------------------------------- */
/* Input level (C02): level 0 is always fine; a level above 255 is invalid input (status KSI_INVALID_VERIFICATION_INPUT,
 * not OK); an RFC3161 signature only has level 0; otherwise FAIL GEN-03 exactly when the level exceeds the level
 * correction of the first link of the first chain.  lc_known == 0: that link / its level correction cannot be read. */
static spec_verdict spec_level_verdict(unsigned long long level, int has_rfc3161, int lc_known, unsigned long long lc) {
	if (level == 0) return SPEC_VOK;
	if (level > 0xff) return spec_v(SPEC_V_INVALID_INPUT, SPEC_VERR_GEN(2));
	if (has_rfc3161) return SPEC_VFAIL(SPEC_VERR_GEN(3));
	if (!lc_known) return SPEC_VNA;
	return lc < level ? SPEC_VFAIL(SPEC_VERR_GEN(3)) : SPEC_VOK;
}

/* Document hash algorithm (GEN-04) and document hash (GEN-01): a and b are (algorithm id, digest identity) pairs;
 * the digest identity is an uninterpreted value: two imprints are equal iff algorithm and digest identity agree. */
static int spec_imprint_equal(int alg_a, unsigned long long dig_a, int alg_b, unsigned long long dig_b) {
	return alg_a == alg_b && dig_a == dig_b;
}

/* ---------------------------------------------------------------- C01 ---------------------------------------------------------------- */
/* algorithm status as in spec/hashalg.h: 0 fine, 1 deprecated, 2 obsolete, 3 unknown id.  A rule "algorithm was not
 * deprecated at time t" fails for 1 and 2; unknown ids are left to the rules that need to compute with the algorithm. */
static int spec_alg_rule_fails(int status_at) { return status_at == 1 || status_at == 2; }
static int spec_alg_obsolete_rule_fails(int status_at) { return status_at == 2; }

/* chain index continuation (INT-12): the index of chain k (length n_k, elements idx_k[]) extends that of chain k+1:
 * n_k == n_{k+1} + 1 and idx_k[j] == idx_{k+1}[j] for j < n_{k+1}.  Evaluated pairwise by the ghost monitor. */
static int spec_index_len_extends(unsigned long long n_prev, unsigned long long n_next) { return n_prev == n_next + 1; }

/* metadata padding (INT-11, KSI format): the first element of a metadata record, tag 0x1E, encoded as TLV8 (first header
 * octet without the 16-bit flag 0x80), with the non-critical (0x40) and forward (0x20) flags set, value 01 or 01 01.
 * first_octet: first octet of the element; v0, v1: first two payload octets. */
static int spec_metadata_padding_ok(unsigned tag, int is_nc, int is_fwd, unsigned first_octet, unsigned long long dat_len, unsigned v0, unsigned v1) {
	if (tag != 0x1e) return 0;
	if (first_octet & 0x80u) return 0;
	if (!is_nc || !is_fwd) return 0;
	if (dat_len == 1) return v0 == 0x01;
	if (dat_len == 2) return v0 == 0x01 && v1 == 0x01;
	return 0;
}
#endif
