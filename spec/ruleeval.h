/* Reference semantics of KSI rule lists, written from policy.h:206-235 and the property text (C05):
 *   elements are evaluated strictly in order;
 *   a BASIC or COMPOSITE_AND element lets evaluation continue only on OK;
 *   a COMPOSITE_OR element ends its list on OK and passes on to the next element when inconclusive (NA);
 *   any FAIL or internal error ends the whole evaluation;
 *   the reported result is that of the last rule evaluated.
 * Outcome of an element = (status res, result code).  Pure, loop-free: usable in contracts and natively. */
#ifndef SPEC_RULEEVAL_H
#define SPEC_RULEEVAL_H
#define SPEC_RT_BASIC 0
#define SPEC_RT_AND 1
#define SPEC_RT_OR 2
#define SPEC_RC_OK 0
#define SPEC_RC_NA 1
#define SPEC_RC_FAIL 2

/* may the element after one of type `type` with outcome (res_ok, code) be evaluated? */
static int spec_rule_continues(int type, int res_ok, int code) {
	if (!res_ok) return 0;                 /* internal error ends everything */
	if (code == SPEC_RC_FAIL) return 0;    /* FAIL ends everything */
	if (type == SPEC_RT_OR) return code != SPEC_RC_OK;     /* OR: OK ends the list, inconclusive passes on */
	return code == SPEC_RC_OK;             /* BASIC / AND: only OK continues */
}
/* does the outcome stop every enclosing list too? */
static int spec_rule_hard_stop(int res_ok, int code) { return !res_ok || code == SPEC_RC_FAIL; }
#endif
