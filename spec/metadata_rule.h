/* INT-11 at rule level (property C01: "... and the metadata-padding conditions hold"): which metadata records of an
 * aggregation-chain link are accepted.  Written from the KSI format (metadata record = TLV 0x04 inside a link, its value
 * is a sequence of TLVs; optional padding TLV 0x1E) and from policy.h ("INT-11 metadata record may not be trusted"),
 * NOT from verification_rule.c.
 *
 * A link's sibling is hashed as a byte string; an imprint sibling is (algorithm octet || digest), i.e. 1 + an even number
 * of octets.  A metadata sibling must not be mistakable for an imprint:
 *   (P) a record WITH padding: exactly one padding element; it is the FIRST element of the record; it is a well-formed
 *       padding (spec_metadata_padding_ok, spec/vercodes.h: tag 0x1E, TLV8, N and F flags, value 01 or 01 01); and the
 *       record's value has EVEN length (so it can never have the odd length of an imprint);
 *   (N) a record WITHOUT padding (legacy form): its value must not have the form of an imprint, i.e. NOT (first value
 *       octet is the id of a known hash algorithm with digest length L and the value is exactly 1 + L octets long).
 * shape            accepted    refused (FAIL INT-11)
 *   no padding      value not imprint-shaped          value imprint-shaped
 *   one padding     first element, well formed, even  not first / TLV16 / flag missing / other value / odd value length
 *   >1 padding      never                             always
 * When the record's value cannot be split into TLVs at all (or memory runs out) nothing can be evaluated: NA.
 * Pure, loop-free: usable in stubs / contracts under dfcc and natively. */
#ifndef SPEC_METADATA_RULE_H
#define SPEC_METADATA_RULE_H
#include "spec/vercodes.h"
#include "spec/hashalg.h"

#define SPEC_MD_ACCEPT 0
#define SPEC_MD_REFUSE 1
#define SPEC_MD_NA     2

/* does a value of dat_len octets starting with octet v0 have the form of an imprint */
static int spec_md_imprint_shaped(unsigned long long dat_len, unsigned v0) {
	unsigned l = spec_hashalg_len((long long)v0);
	return l != 0 && (unsigned long long)l + 1 == dat_len;
}
/* unsplittable: the value is not a TLV sequence; n_padding: number of 0x1E elements of the record (0, 1, 2 = more than one);
 * first_is_padding_ok: spec_metadata_padding_ok() of the record's first element; dat_len, v0: length and first octet of the value */
static int spec_md_record(int unsplittable, unsigned n_padding, int first_is_padding_ok, unsigned long long dat_len, unsigned v0) {
	if (unsplittable) return SPEC_MD_NA;
	if (n_padding >= 2) return SPEC_MD_REFUSE;
	if (n_padding == 1) return (first_is_padding_ok && dat_len % 2 == 0) ? SPEC_MD_ACCEPT : SPEC_MD_REFUSE;
	return spec_md_imprint_shaped(dat_len, v0) ? SPEC_MD_REFUSE : SPEC_MD_ACCEPT;
}
#endif
