/* Reference state machine of ONE user request in the HA service, from the text of property C15:
 * "each request is forwarded to every endpoint that accepts it and is completed exactly once: with the first valid
 *  response received, later responses being discarded and errors from other endpoints surfacing only as separate
 *  error notices, or with an error only after every endpoint it was forwarded to has failed."
 * Pure, loop-free. */
#ifndef SPEC_HA_COMPLETE_H
#define SPEC_HA_COMPLETE_H

enum { SPEC_HA_WAITING = 0, SPEC_HA_ERROR = 1, SPEC_HA_DONE = 2 };
typedef struct {
	int state;              /* SPEC_HA_* */
	unsigned outstanding;   /* endpoints that accepted the request and have not answered yet */
	int stored_err;         /* the error kept in the request while state == SPEC_HA_ERROR */
	int completions;        /* how often the request was handed to the user */
	int completed_ok;       /* completed with a response */
	int notices;            /* error notices emitted so far */
	int last_notice_err;
} spec_ha_req;

static void spec_ha_req_init(spec_ha_req *r, unsigned accepted_by) {
	r->state = SPEC_HA_WAITING; r->outstanding = accepted_by; r->stored_err = 0; r->completions = 0; r->completed_ok = 0;
	r->notices = 0; r->last_notice_err = 0;
}
/* an endpoint answered with a valid response */
static void spec_ha_on_response(spec_ha_req *r) {
	r->outstanding--;
	if (r->state == SPEC_HA_DONE) return;                         /* later responses are discarded */
	if (r->state == SPEC_HA_ERROR) { r->notices++; r->last_notice_err = r->stored_err; r->stored_err = 0; }
	r->state = SPEC_HA_DONE; r->completions++; r->completed_ok = 1;
}
/* an endpoint failed with error err (!= 0) */
static void spec_ha_on_error(spec_ha_req *r, int err) {
	r->outstanding--;
	if (r->state == SPEC_HA_WAITING) { r->state = SPEC_HA_ERROR; r->stored_err = err; }
	else { r->notices++; r->last_notice_err = err; }
	if (r->state == SPEC_HA_ERROR && r->outstanding == 0) r->completions++;   /* every endpoint has failed */
}
#endif
