/* Publications file container (property C18), from the property text and the KSI publications file format:
 *   "KSIPUBLF" (8 octets) | header record 0x0701 | certificate records 0x0702* | publication records 0x0703* |
 *   signature record 0x0704 - and nothing after it.  The signed range is everything before the signature record.
 * The record ORDER / multiplicity part is the schema (spec/ksi_schema.h KSI_PublicationsFile + spec/schema.h); this
 * header carries the container arithmetic and the reference scans of the lookups.
 * Functions with loops are for plain unwinding jobs and native replay only. */
#ifndef SPEC_PUBFILE_H
#define SPEC_PUBFILE_H
#include <stddef.h>
#include <string.h>
#include "spec/tlv.h"

#define SPEC_PUBFILE_MAGIC "KSIPUBLF"
#define SPEC_PUBFILE_MAGIC_LEN 8
#define SPEC_PUBFILE_TAG_SIGNATURE 0x0704u

static int spec_pubfile_has_magic(const unsigned char *raw, size_t len) {
	return len >= SPEC_PUBFILE_MAGIC_LEN && raw[0] == 'K' && raw[1] == 'S' && raw[2] == 'I' && raw[3] == 'P' &&
	       raw[4] == 'U' && raw[5] == 'B' && raw[6] == 'L' && raw[7] == 'F';
}

/* Scan the records of body[0..len): returns 1 and *sig_off = offset (within body) of the first 0x0704 record and
 * *sig_end = offset just behind it, when every record up to and including it is complete; 0 otherwise. */
static int spec_pubfile_find_signature(const unsigned char *body, size_t len, size_t *sig_off, size_t *sig_end) {
	size_t off = 0;
	while (off < len) {
		size_t sz;
		if (!spec_tlv_elem_complete(body + off, len - off)) return 0;
		sz = spec_tlv_elem_size(body + off, len - off);
		if (spec_tlv_dec_tag(body + off, len - off) == SPEC_PUBFILE_TAG_SIGNATURE) { *sig_off = off; *sig_end = off + sz; return 1; }
		off += sz;
	}
	return 0;
}

/* container well-formedness + signed range: magic, complete records, a signature record that is the last record.
 * On success *signed_len = 8 + offset of the signature record. */
static int spec_pubfile_container(const unsigned char *raw, size_t len, size_t *signed_len) {
	size_t so = 0, se = 0;
	if (!spec_pubfile_has_magic(raw, len)) return 0;
	if (!spec_pubfile_find_signature(raw + SPEC_PUBFILE_MAGIC_LEN, len - SPEC_PUBFILE_MAGIC_LEN, &so, &se)) return 0;
	if (SPEC_PUBFILE_MAGIC_LEN + se != len) return 0;
	*signed_len = SPEC_PUBFILE_MAGIC_LEN + so;
	return 1;
}

/* ---- reference scans of the lookups (one step per list element, loop-free) ---- */
typedef struct { int has; unsigned long long best; } spec_pub_scan;
static void spec_pub_scan_init(spec_pub_scan *s) { s->has = 0; s->best = 0; }
/* earliest publication time not before t */
static void spec_pub_nearest_step(spec_pub_scan *s, unsigned long long t, unsigned long long tm) {
	if (tm >= t && (!s->has || tm < s->best)) { s->has = 1; s->best = tm; }
}
/* latest publication time (among those not before t when a time is given) */
static void spec_pub_latest_step(spec_pub_scan *s, int have_t, unsigned long long t, unsigned long long tm) {
	if ((!have_t || tm >= t) && (!s->has || tm > s->best)) { s->has = 1; s->best = tm; }
}
#endif
