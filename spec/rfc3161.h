/* Pure reference for the legacy (RFC3161) record of a KSI signature (C01, "RFC3161-record" condition).
 *
 *   output hash = H_alg0( IMPRINT( H_sigAttrAlgo( sigAttrPrefix || DIGEST( H_tstInfoAlgo( tstInfoPrefix || DIGEST(inputHash) || tstInfoSuffix ) ) || sigAttrSuffix ) ) )
 *
 * alg0 = algorithm of the input hash of the first aggregation chain; IMPRINT = algorithm octet + digest, DIGEST = imprint
 * without its algorithm octet; both record algorithms must be <= 0xff.
 *
 * One "pre/suf step" H_alg(prefix || DIGEST(h) || suffix) is described by the TRANSCRIPT a hasher sees: which algorithm it
 * was opened with and the sequence of (pointer, length) blocks fed to it. spec_rfc_presuf_transcript_ok() says what the
 * transcript of one step has to be. Loop-free, usable from contracts and natively. */
#ifndef SPEC_RFC3161_H
#define SPEC_RFC3161_H
#include <stddef.h>

#define SPEC_RFC_MAXADD 3
typedef struct { const void *ptr; size_t len; } spec_rfc_add;
typedef struct {
	int open_alg;                       /* algorithm the hasher was opened with */
	int nopen;                          /* successful opens */
	int nadd;                           /* successful adds (only the first SPEC_RFC_MAXADD are recorded) */
	spec_rfc_add add[SPEC_RFC_MAXADD];  /* what was fed, in order */
	int nclose;                         /* successful closes (each produces one hash object) */
} spec_rfc_transcript;

static int spec_rfc_add_is(const spec_rfc_add *a, const void *p, size_t n) { return a->ptr == p && a->len == n; }

/* Transcript of H_alg(prefix || DIGEST(imprint) || suffix): opened once with alg; the prefix octets (left out iff the octet
 * string has no data pointer), then the imprint without its first octet, then the suffix octets (left out iff no data
 * pointer); closed once; nothing else. Requires imprint_len >= 1 (a KSI imprint always has its algorithm octet). */
static int spec_rfc_presuf_transcript_ok(const spec_rfc_transcript *t, int alg,
		const void *pre, size_t pre_len, const unsigned char *imprint, size_t imprint_len, const void *suf, size_t suf_len) {
	int n = (pre != NULL) + 1 + (suf != NULL);
	int k = 0;
	if (t->nopen != 1 || t->open_alg != alg || t->nclose != 1 || t->nadd != n) return 0;
	if (pre != NULL) { if (!spec_rfc_add_is(&t->add[k], pre, pre_len)) return 0; k++; }
	if (!spec_rfc_add_is(&t->add[k], imprint + 1, imprint_len - 1)) return 0; k++;
	if (suf != NULL) { if (!spec_rfc_add_is(&t->add[k], suf, suf_len)) return 0; }
	return 1;
}

/* A record algorithm id is usable iff it fits the imprint's algorithm octet. */
static int spec_rfc_alg_ok(unsigned long long a) { return a <= 0xff; }
#endif
