/* KSI legacy identifier (property C10: "legacy identifiers well formed"), from the KSI format description:
 *   exactly 29 octets:  03 00 | str_len (<= 25) | str_len octets of text | zero padding up to octet 28.
 *   +------+------+---------+------------------+------+
 *   | 0x03 | 0x00 | str_len | ... UTF8_str ... | 0..0 |
 *   +------+------+---------+------------------+------+
 * Every octet from position 3 + str_len to 28 is zero (so there is always at least one terminating zero: 3+25 = 28).
 * Loop-free (unrolled over the 26 possible padding positions): usable from contracts and natively. */
#ifndef SPEC_LEGACYID_H
#define SPEC_LEGACYID_H
#include <stddef.h>
#define SPEC_LEGACYID_LEN 29
#define SPEC_LEGACYID_MAXSTR 25

/* padding condition on a 29-octet buffer */
#define SPEC_LEGACYID_PADDED(b) (((size_t)(b)[2] + 3 <= 3 ? (b)[3] == 0 : 1) && ((size_t)(b)[2] + 3 <= 4 ? (b)[4] == 0 : 1) && ((size_t)(b)[2] + 3 <= 5 ? (b)[5] == 0 : 1) && ((size_t)(b)[2] + 3 <= 6 ? (b)[6] == 0 : 1) && ((size_t)(b)[2] + 3 <= 7 ? (b)[7] == 0 : 1) && ((size_t)(b)[2] + 3 <= 8 ? (b)[8] == 0 : 1) && ((size_t)(b)[2] + 3 <= 9 ? (b)[9] == 0 : 1) && ((size_t)(b)[2] + 3 <= 10 ? (b)[10] == 0 : 1) && ((size_t)(b)[2] + 3 <= 11 ? (b)[11] == 0 : 1) && ((size_t)(b)[2] + 3 <= 12 ? (b)[12] == 0 : 1) && ((size_t)(b)[2] + 3 <= 13 ? (b)[13] == 0 : 1) && ((size_t)(b)[2] + 3 <= 14 ? (b)[14] == 0 : 1) && ((size_t)(b)[2] + 3 <= 15 ? (b)[15] == 0 : 1) && ((size_t)(b)[2] + 3 <= 16 ? (b)[16] == 0 : 1) && ((size_t)(b)[2] + 3 <= 17 ? (b)[17] == 0 : 1) && ((size_t)(b)[2] + 3 <= 18 ? (b)[18] == 0 : 1) && ((size_t)(b)[2] + 3 <= 19 ? (b)[19] == 0 : 1) && ((size_t)(b)[2] + 3 <= 20 ? (b)[20] == 0 : 1) && ((size_t)(b)[2] + 3 <= 21 ? (b)[21] == 0 : 1) && ((size_t)(b)[2] + 3 <= 22 ? (b)[22] == 0 : 1) && ((size_t)(b)[2] + 3 <= 23 ? (b)[23] == 0 : 1) && ((size_t)(b)[2] + 3 <= 24 ? (b)[24] == 0 : 1) && ((size_t)(b)[2] + 3 <= 25 ? (b)[25] == 0 : 1) && ((size_t)(b)[2] + 3 <= 26 ? (b)[26] == 0 : 1) && ((size_t)(b)[2] + 3 <= 27 ? (b)[27] == 0 : 1) && ((size_t)(b)[2] + 3 <= 28 ? (b)[28] == 0 : 1))

static int spec_legacyid_wellformed(const unsigned char *b, size_t len) {
	return len == SPEC_LEGACYID_LEN && b[0] == 0x03 && b[1] == 0x00 && b[2] <= SPEC_LEGACYID_MAXSTR && SPEC_LEGACYID_PADDED(b);
}
#endif
