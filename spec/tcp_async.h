/* C14 / C13 (builderS): reference predicates of the asynchronous transports, written from the property text.
 * Pure C, loop free, usable natively (replay drivers) and under CBMC.
 *
 *  - a send / connect time-out has happened "once the configured time has elapsed": the configured value 0 means at once,
 *    otherwise strictly more than `opt` seconds lie between the start of the clock and now;
 *  - a throttling round is over when at least `duration` seconds lie between its start and now.
 * Times are seconds (time_t); the real code compares difftime() (double) with a size_t option: for |times| < 2^52 both agree. */
#ifndef SPEC_TCP_ASYNC_H
#define SPEC_TCP_ASYNC_H

/* The elapsed time is computed exactly as ISO C difftime() does for an arithmetic time_t (difference of the two values as double):
 * for |times| < 2^52 and options < 2^53 this IS the integer comparison (every operand is exactly representable), and a SAT solver
 * need not prove the equivalence of an integer and a floating-point comparator. */
static int spec_async_timed_out(long long now, long long since, unsigned long long opt) {
	return opt == 0 || ((double)now - (double)since > (double)opt);
}
static int spec_async_round_over(long long now, long long start, unsigned long long duration) {
	return (double)now - (double)start >= (double)duration;
}
/* more requests may be started in the current round */
static int spec_async_round_has_room(unsigned long long roundCount, unsigned long long maxCount) { return roundCount < maxCount; }

/* HTTP status classes of the curl transport: 4xx / 5xx end the request with KSI_HTTP_ERROR */
static int spec_http_status_is_error(long code) { return code >= 400 && code < 600; }
#endif
