/* C14 / C13 (builderS): reference predicates of the asynchronous transports, written from the property text.
 * Pure C, loop free, usable natively (replay drivers) and under CBMC.
 *
 *  - a send / connect time-out has happened "once the configured time has elapsed": the configured value 0 means at once,
 *    otherwise strictly more than `opt` seconds lie between the start of the clock and now;
 *  - a throttling round is over when at least `duration` seconds lie between its start and now.
 * Times are seconds (time_t); the real code compares difftime() (double) with a size_t option: for |times| < 2^52 both agree. */
#ifndef SPEC_TCP_ASYNC_H
#define SPEC_TCP_ASYNC_H

static int spec_async_timed_out(long long now, long long since, unsigned long long opt) {
	long long d = now - since;
	return opt == 0 || (d > 0 && (unsigned long long)d > opt);
}
static int spec_async_round_over(long long now, long long start, unsigned long long duration) {
	long long d = now - start;
	return d >= 0 && (unsigned long long)d >= duration;
}
/* more requests may be started in the current round */
static int spec_async_round_has_room(unsigned long long roundCount, unsigned long long maxCount) { return roundCount < maxCount; }

/* HTTP status classes of the curl transport: 4xx / 5xx end the request with KSI_HTTP_ERROR */
static int spec_http_status_is_error(long code) { return code >= 400 && code < 600; }
#endif
