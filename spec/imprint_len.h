/* KSI imprint = 1 octet hash algorithm id + digest of exactly that algorithm's length (property C10: "imprints of a
 * known algorithm with the matching length").  Table transcribed from the KSI hash algorithm registry as documented in
 * hash.h (enum KSI_HashAlgorithm): ids 0x03 and 0x06 are withdrawn ("do not reuse") and count as unknown.
 * (builderB's spec/hashalg.h is the fuller table with deprecation dates; this header only carries the lengths.) */
#ifndef SPEC_IMPRINT_LEN_H
#define SPEC_IMPRINT_LEN_H
#include <stddef.h>

/* digest length in octets of algorithm id, 0 when the id is unknown / unusable */
static unsigned spec_imprint_digest_len(int id) {
	switch (id) {
	case 0x00: return 20;  /* SHA-1      */
	case 0x01: return 32;  /* SHA2-256   */
	case 0x02: return 20;  /* RIPEMD-160 */
	case 0x04: return 48;  /* SHA2-384   */
	case 0x05: return 64;  /* SHA2-512   */
	case 0x07: return 28;  /* SHA3-224   */
	case 0x08: return 32;  /* SHA3-256   */
	case 0x09: return 48;  /* SHA3-384   */
	case 0x0a: return 64;  /* SHA3-512   */
	case 0x0b: return 32;  /* SM3        */
	default:   return 0;
	}
}
static int spec_imprint_alg_known(int id) { return spec_imprint_digest_len(id) != 0; }

/* a digest of digest_len octets is acceptable for algorithm id */
static int spec_digest_wellformed(int id, size_t digest_len) {
	return spec_imprint_alg_known(id) && digest_len == spec_imprint_digest_len(id);
}
/* an imprint of len octets: at least the id octet, known id, exact length */
static int spec_imprint_wellformed(const unsigned char *imprint, size_t len) {
	return len >= 1 && spec_digest_wellformed(imprint[0], len - 1);
}
#endif
